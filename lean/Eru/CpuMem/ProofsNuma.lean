import Eru.CpuMem.ProofsPlans
/-
`GetCPUPlans`: NUMA groups with running subtraction, then the cross-NUMA group on the remainder.
-/
namespace Eru.CpuMem
open Eru

theorem keys_set (m : Eru.Plan) (k : String) (v : Int) :
    (m.set k v).keys = if m.has k then m.keys else m.keys ++ [k] := by
  induction m with
  | nil => simp [Plan.set, Plan.keys, Plan.has]
  | cons p rest ih =>
    obtain ⟨a, b⟩ := p
    simp only [Plan.set, Plan.has]
    by_cases h : a = k
    · subst h; simp [Plan.keys]
    · simp only [h, if_false, decide_false, Bool.false_or]
      simp only [Plan.keys, List.map_cons] at ih ⊢
      rw [ih]; split <;> simp

theorem keys_set_nodup (m : Eru.Plan) (k : String) (v : Int) (h : m.keys.Nodup) : (m.set k v).keys.Nodup := by
  rw [keys_set]
  cases hh : m.has k with
  | true => simpa using h
  | false =>
    simp only [Bool.false_eq_true, if_false]
    refine List.nodup_append.mpr ⟨h, by simp, ?_⟩
    intro a ha b hb e
    simp only [List.mem_singleton] at hb
    subst hb; subst e
    have := (has_eq_mem_keys m a).mpr ha
    rw [hh] at this; exact Bool.noConfusion this

/-- `c[k] -= v` for all entries of a plan with distinct keys -/
theorem mapSub_spec (c p : Eru.Plan) (hc : c.keys.Nodup) (hp : p.keys.Nodup) :
    (mapSub c p).keys.Nodup ∧ ∀ id, (mapSub c p).get id = c.get id - p.get id := by
  unfold mapSub
  induction p generalizing c with
  | nil => simp [hc]
  | cons kv rest ih =>
    obtain ⟨k, v⟩ := kv
    simp only [Plan.keys, List.map_cons, List.nodup_cons] at hp
    simp only [List.foldl_cons]
    have hc' : (c.add k (-v)).keys.Nodup := keys_set_nodup _ _ _ hc
    obtain ⟨i1, i2⟩ := ih (c.add k (-v)) hc' hp.2
    refine ⟨i1, ?_⟩
    intro id
    rw [i2 id, Plan.get_add]
    simp only [Plan.get]
    by_cases hk : k = id
    · simp only [hk, if_true]
      have : Plan.get rest id = 0 := Plan.get_of_not_has rest id (not_has_of_not_mem _ _ (by rw [← hk]; exact hp.1))
      omega
    · simp only [hk, if_false]

theorem subPlans_cpu (avail : NodeRes) (node : String) (mem : Int) (plans : List CpuMap)
    (hc : avail.cpuMap.keys.Nodup) (hp : ∀ p ∈ plans, p.keys.Nodup) :
    (subPlans avail node mem plans).cpuMap.keys.Nodup ∧
    ∀ id, (subPlans avail node mem plans).cpuMap.get id = avail.cpuMap.get id - usedBy plans id := by
  unfold subPlans
  induction plans generalizing avail with
  | nil => simp [hc, usedBy]
  | cons p ps ih =>
    simp only [List.foldl_cons]
    obtain ⟨m1, m2⟩ := mapSub_spec avail.cpuMap p hc (hp p (List.mem_cons_self ..))
    obtain ⟨i1, i2⟩ := ih (avail.sub { cpuMap := p, mem := mem, numaMem := [(node, mem)] }) (by simpa [NodeRes.sub] using m1)
      (fun q hq => hp q (List.mem_cons_of_mem _ hq))
    refine ⟨i1, ?_⟩
    intro id
    rw [i2 id, usedBy_cons]
    simp only [NodeRes.sub]
    rw [m2 id]; omega

/-! ### the CPU map of one NUMA node -/

theorem numaCpuMap_keys (numa : List (String × String)) (avail : CpuMap) (node : String) :
    (numaCpuMap numa avail node).keys = (numa.filter fun cn => cn.2 == node).map (·.1) := by
  simp [numaCpuMap, Plan.keys, List.map_map, Function.comp_def]

theorem numaCpuMap_nodup (numa : List (String × String)) (avail : CpuMap) (node : String)
    (hn : (numa.map (·.1)).Nodup) : (numaCpuMap numa avail node).keys.Nodup := by
  rw [numaCpuMap_keys]
  exact hn.sublist ((List.filter_sublist).map _)

theorem numaOf_of_mem (numa : List (String × String)) (hn : (numa.map (·.1)).Nodup) (cpu node : String)
    (h : (cpu, node) ∈ numa) : numaOf numa cpu = some node := by
  induction numa with
  | nil => simp at h
  | cons cn rest ih =>
    obtain ⟨c, n⟩ := cn
    simp only [List.map_cons, List.nodup_cons] at hn
    simp only [numaOf]
    rcases List.mem_cons.mp h with h | h
    · cases h; simp
    · have : c ≠ cpu := by
        intro e; subst e
        exact hn.1 (List.mem_map_of_mem (f := (·.1)) h)
      simp only [this, if_false]
      exact ih hn.2 h

theorem numaCpuMap_key_local (numa : List (String × String)) (hn : (numa.map (·.1)).Nodup) (avail : CpuMap) (node k : String)
    (hk : k ∈ (numaCpuMap numa avail node).keys) : numaOf numa k = some node := by
  rw [numaCpuMap_keys] at hk
  obtain ⟨cn, hcn, rfl⟩ := List.mem_map.mp hk
  have := List.mem_filter.mp hcn
  have e : cn.2 = node := by simpa using this.2
  exact numaOf_of_mem numa hn cn.1 node (by rw [← e]; exact this.1)

theorem numaCpuMap_get (numa : List (String × String)) (hn : (numa.map (·.1)).Nodup) (avail : CpuMap) (node id : String) :
    (numaCpuMap numa avail node).get id = if numaOf numa id = some node then avail.get id else 0 := by
  by_cases hmem : id ∈ (numaCpuMap numa avail node).keys
  · rw [if_pos (numaCpuMap_key_local numa hn avail node id hmem)]
    -- the entry for `id` is `(id, avail.get id)`
    have : ∀ (l : List (String × String)), id ∈ (l.map (·.1)) →
        Plan.get (l.map fun cn => (cn.1, avail.get cn.1)) id = avail.get id := by
      intro l
      induction l with
      | nil => intro h; simp at h
      | cons cn rest ih =>
        intro h
        simp only [List.map_cons, Plan.get]
        by_cases e : cn.1 = id
        · simp [e]
        · simp only [e, if_false]
          simp only [List.map_cons, List.mem_cons] at h
          rcases h with h | h
          · exact absurd h.symm e
          · exact ih h
    rw [numaCpuMap_keys] at hmem
    exact this _ hmem
  · rw [Plan.get_of_not_has _ _ (not_has_of_not_mem _ _ hmem)]
    split
    · rename_i hsome
      -- id maps to node but is not a key: then id is not in numa at all, contradiction with numaOf = some
      exfalso
      have : ∀ (l : List (String × String)), numaOf l id = some node → (id, node) ∈ l := by
        intro l
        induction l with
        | nil => intro h; simp [numaOf] at h
        | cons cn rest ih =>
          obtain ⟨c, n⟩ := cn
          intro h
          simp only [numaOf] at h
          by_cases e : c = id
          · simp only [e, if_true, Option.some.injEq] at h
            subst e; subst h; exact List.mem_cons_self ..
          · simp only [e, if_false] at h
            exact List.mem_cons_of_mem _ (ih h)
      have hin := this numa hsome
      apply hmem
      rw [numaCpuMap_keys]
      exact List.mem_map.mpr ⟨(id, node), List.mem_filter.mpr ⟨hin, by simp⟩, rfl⟩
    · rfl


theorem mapSub_keys_nodup (c p : Eru.Plan) (hc : c.keys.Nodup) : (mapSub c p).keys.Nodup := by
  unfold mapSub
  induction p generalizing c with
  | nil => simpa using hc
  | cons kv rest ih =>
    simp only [List.foldl_cons]
    exact ih _ (keys_set_nodup _ _ _ hc)

/-- bound for the NUMA groups: a core of a node in `order` may be used up to its positive availability -/
def numaBound (numa : List (String × String)) (avail0 : CpuMap) (order : List String) (id : String) : Int :=
  match numaOf numa id with
  | some n => if order.contains n then max (avail0.get id) 0 else 0
  | none => 0

theorem numaBound_le (numa : List (String × String)) (avail0 : CpuMap) (order : List String) (id : String) :
    numaBound numa avail0 order id ≤ max (avail0.get id) 0 := by
  unfold numaBound
  split
  · split <;> omega
  · omega

/-- what is known about every returned plan: C05 form, and NUMA-tagged plans use only their node's cores -/
def PlanOK (B : Int) (req : Req) (numa : List (String × String)) (pl : CpuPlan) : Prop :=
  (∃ ids, PlanForm B ((piecesRequest req B).tdiv B).toNat ((piecesRequest req B).tmod B) ids pl.cpuMap) ∧
  (pl.numa ≠ "" → ∀ k ∈ pl.cpuMap.keys, numaOf numa k = some pl.numa)

theorem planForm_keys_nodup {B : Int} {full : Nat} {fragment : Int} {ids : List String} {p : CpuMap}
    (h : PlanForm B full fragment ids p) : p.keys.Nodup := by
  obtain ⟨_, _, _, _, _, hn, _⟩ := h; exact hn

theorem numaLoop_spec (origin : CpuMap) (numa : List (String × String)) (hnk : (numa.map (·.1)).Nodup) (avail0 : CpuMap)
    (B : Int) (hB : 1 ≤ B) (maxShare : Int) (req : Req) (order : List String) (hord : order.Nodup)
    (avail : NodeRes) (acc : List CpuPlan) (hc : avail.cpuMap.keys.Nodup) :
    ∃ (new : List CpuPlan) (avail' : NodeRes),
      numaLoop origin numa avail0 B maxShare req order avail acc = .ok (acc ++ new, avail') ∧
      (∀ id, 0 ≤ usedBy (new.map (·.cpuMap)) id ∧ usedBy (new.map (·.cpuMap)) id ≤ numaBound numa avail0 order id) ∧
      avail'.cpuMap.keys.Nodup ∧
      (∀ id, avail'.cpuMap.get id = avail.cpuMap.get id - usedBy (new.map (·.cpuMap)) id) ∧
      (∀ pl ∈ new, PlanOK B req numa pl) := by
  induction order generalizing avail acc with
  | nil =>
    refine ⟨[], avail, by simp [numaLoop], ?_, hc, by simp [usedBy], by simp⟩
    intro id
    simp only [List.map_nil, usedBy, List.sum_nil]
    unfold numaBound
    split <;> simp
  | cons node rest ih =>
    simp only [List.nodup_cons] at hord
    obtain ⟨plans, hpl, hu, hf⟩ := doGetCPUPlans_spec origin (numaCpuMap numa avail0 node)
      (min (avail.numaMem.get node) avail.mem) B hB maxShare req (numaCpuMap_nodup numa avail0 node hnk)
    simp only [numaLoop, hpl]
    obtain ⟨s1, s2⟩ := subPlans_cpu avail node req.mem plans hc (fun p hp => planForm_keys_nodup (hf p hp))
    obtain ⟨new2, avail', hl, hb, hk, hg, hpo⟩ := ih hord.2 (subPlans avail node req.mem plans)
      (acc ++ plans.map fun p => ⟨node, p⟩) s1
    refine ⟨(plans.map fun p => ⟨node, p⟩) ++ new2, avail', by rw [hl, List.append_assoc], ?_, hk, ?_, ?_⟩
    · intro id
      have e : usedBy (((plans.map fun p => (⟨node, p⟩ : CpuPlan)) ++ new2).map (·.cpuMap)) id =
          usedBy plans id + usedBy (new2.map (·.cpuMap)) id := by
        rw [List.map_append, usedBy_append, List.map_map]
        congr 2
        exact List.map_id' plans
      rw [e]
      have h1 := hu id
      have h2 := hb id
      rw [numaCpuMap_get numa hnk] at h1
      unfold numaBound at h2 ⊢
      cases hno : numaOf numa id with
      | none =>
        simp only [hno] at h1 h2 ⊢
        rw [if_neg (by simp)] at h1
        omega
      | some n =>
        simp only [hno] at h1 h2 ⊢
        by_cases hn : n = node
        · subst hn
          have hc1 : rest.contains n = false := by simpa using hord.1
          have hc2 : (n :: rest).contains n = true := by simp
          rw [hc1] at h2; rw [hc2]
          simp only [if_true, Bool.false_eq_true, if_false] at h1 h2 ⊢
          omega
        · have hc2 : (node :: rest).contains n = rest.contains n := by
            simp only [List.contains_cons]
            have : (n == node) = false := by simpa using hn
            rw [this]; simp
          rw [hc2]
          rw [if_neg (by intro e; exact hn (Option.some.inj e))] at h1
          cases hcn : rest.contains n
          · rw [hcn] at h2
            simp only [Bool.false_eq_true, if_false] at h2 ⊢
            omega
          · rw [hcn] at h2
            simp only [if_true] at h2 ⊢
            omega
    · intro id
      rw [hg id, s2 id, List.map_append, usedBy_append, List.map_map]
      have : (plans.map ((fun x => x.cpuMap) ∘ fun p => (⟨node, p⟩ : CpuPlan))) = plans := List.map_id' plans
      rw [this]; omega
    · intro pl hpl'
      rcases List.mem_append.mp hpl' with hm | hm
      · obtain ⟨p, hp, rfl⟩ := List.mem_map.mp hm
        refine ⟨⟨_, hf p hp⟩, fun _ k hk => ?_⟩
        obtain ⟨_, _, _, _, _, _, hkeys⟩ := hf p hp
        exact numaCpuMap_key_local numa hnk avail0 node k (hkeys k hk)
      · exact hpo pl hm

/-- **`GetCPUPlans`** for share base ≥ 1, a node whose maps have distinct keys (they are Go maps) and
    any visiting order of distinct NUMA nodes: it returns (never panics, never diverges), the plans
    together take from each core at most its free pieces, every plan has the C05 form and NUMA-tagged
    plans are local to their node. -/
theorem getCPUPlans_spec (info : NodeInfo) (origin : CpuMap) (B : Int) (hB : 1 ≤ B) (maxShare : Int) (req : Req)
    (order : List String) (hord : order.Nodup) (hnk : (info.cap.numa.map (·.1)).Nodup)
    (hck : info.cap.cpuMap.keys.Nodup) :
    ∃ ps, getCPUPlans info origin B maxShare req order = .ok ps ∧
      (∀ id, 0 ≤ usedBy (ps.map (·.cpuMap)) id ∧ usedBy (ps.map (·.cpuMap)) id ≤ max (info.available.cpuMap.get id) 0) ∧
      (∀ pl ∈ ps, PlanOK B req info.cap.numa pl) := by
  have hak : info.available.cpuMap.keys.Nodup := by
    simp only [NodeInfo.available, NodeRes.sub]; exact mapSub_keys_nodup _ _ hck
  obtain ⟨new, avail', hl, hb, hk, hg, hpo⟩ := numaLoop_spec origin info.cap.numa hnk info.available.cpuMap B hB maxShare req
    order hord info.available [] hak
  obtain ⟨cross, hcr, hu, hf⟩ := doGetCPUPlans_spec origin avail'.cpuMap avail'.mem B hB maxShare req hk
  unfold getCPUPlans
  rw [if_neg (by omega), hl]
  simp only [List.nil_append, hcr]
  refine ⟨_, rfl, ?_, ?_⟩
  · intro id
    rw [List.map_append, usedBy_append, List.map_map]
    have : (cross.map ((fun x => x.cpuMap) ∘ fun p => (⟨"", p⟩ : CpuPlan))) = cross := List.map_id' cross
    rw [this]
    have h1 := hb id
    have h2 := hu id
    have h3 := numaBound_le info.cap.numa info.available.cpuMap order id
    rw [hg id] at h2
    omega
  · intro pl hpl
    rcases List.mem_append.mp hpl with hm | hm
    · exact hpo pl hm
    · obtain ⟨p, hp, rfl⟩ := List.mem_map.mp hm
      exact ⟨⟨_, hf p hp⟩, fun h => absurd rfl h⟩

end Eru.CpuMem
