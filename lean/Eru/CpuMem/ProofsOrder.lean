import Eru.CpuMem.ProofsNumaMem
/-
The number of plans `GetCPUPlans` returns does not depend on the order in which the NUMA nodes
are visited.
-/
namespace Eru.CpuMem
open Eru

/-- memory truncation of `doGetCPUPlans` -/
def truncMem (mem availMem : Int) (l : List CpuMap) : List CpuMap :=
  if 0 < mem then l.take (max (availMem.tdiv mem) 0).toNat else l

/-- the untruncated plan list of one group: `doGetCPUPlans` with a zero memory request -/
def hostList (origin cm : CpuMap) (B maxShare : Int) (req : Req) : List CpuMap :=
  match doGetCPUPlans origin cm 0 B maxShare { req with mem := 0 } with
  | .ok l => l
  | _ => []

theorem doGet_shape (origin cm : CpuMap) (B : Int) (hB : 1 ≤ B) (maxShare : Int) (req : Req) (hn : cm.keys.Nodup)
    (availMem : Int) :
    doGetCPUPlans origin cm availMem B maxShare req = .ok (truncMem req.mem availMem (hostList origin cm B maxShare req)) := by
  obtain ⟨l0, h0, _⟩ := doGetCPUPlans_spec origin cm 0 B hB maxShare { req with mem := 0 } hn
  have hl : hostList origin cm B maxShare req = l0 := by unfold hostList; rw [h0]
  rw [hl]
  unfold doGetCPUPlans at h0 ⊢
  have hp : piecesRequest { req with mem := 0 } B = piecesRequest req B := rfl
  simp only [hp] at h0
  simp only []
  split at h0
  · rename_i plans hpl
    simp only [Int.lt_irrefl, if_false] at h0
    cases h0
    simp only [truncMem]
    split
    · split
      · rfl
      · rename_i hge
        rw [List.take_of_length_le (by omega)]
    · rfl
  · rename_i o hne
    cases o <;> simp_all


/-- the NUMA groups as a pure function of the visiting order and the free memory -/
def runGroups (mem : Int) (H : String → List CpuMap) (nm : String → Int) : List String → Int → List (String × List CpuMap)
  | [], _ => []
  | n :: rest, M =>
    (n, truncMem mem (min (nm n) M) (H n)) ::
      runGroups mem H nm rest (M - ((truncMem mem (min (nm n) M) (H n)).length : Int) * mem)

def tagAll (gs : List (String × List CpuMap)) : List CpuPlan := gs.flatMap fun ng => ng.2.map fun p => (⟨ng.1, p⟩ : CpuPlan)

def totalLen (gs : List (String × List CpuMap)) : Nat := (gs.map fun ng => ng.2.length).sum

theorem numaLoop_shape (origin : CpuMap) (numa : List (String × String)) (avail0 : CpuMap) (B maxShare : Int) (req : Req)
    (H : String → List CpuMap) (nm : String → Int)
    (hD : ∀ n M, doGetCPUPlans origin (numaCpuMap numa avail0 n) M B maxShare req = .ok (truncMem req.mem M (H n)))
    (order : List String) (hord : order.Nodup) (avail : NodeRes) (acc acc' : List CpuPlan) (avail' : NodeRes)
    (hnm : ∀ n ∈ order, avail.numaMem.get n = nm n)
    (h : numaLoop origin numa avail0 B maxShare req order avail acc = .ok (acc', avail')) :
    acc' = acc ++ tagAll (runGroups req.mem H nm order avail.mem) ∧
    avail'.mem = avail.mem - (totalLen (runGroups req.mem H nm order avail.mem) : Int) * req.mem := by
  induction order generalizing avail acc with
  | nil =>
    simp only [numaLoop] at h
    cases h
    simp [runGroups, tagAll, totalLen]
  | cons node rest ih =>
    simp only [List.nodup_cons] at hord
    simp only [numaLoop, hD] at h
    rw [hnm node (List.mem_cons_self ..)] at h
    have hnm' : ∀ n ∈ rest, (subPlans avail node req.mem (truncMem req.mem (min (nm node) avail.mem) (H node))).numaMem.get n = nm n := by
      intro n hn
      rw [subPlans_numaMem, if_neg (by intro e; subst e; exact hord.1 hn), Int.sub_zero]
      exact hnm n (List.mem_cons_of_mem _ hn)
    obtain ⟨i1, i2⟩ := ih hord.2 _ _ hnm' h
    rw [subPlans_mem] at i1 i2
    refine ⟨?_, ?_⟩
    · rw [i1]
      simp only [runGroups, tagAll, List.flatMap_cons, List.append_assoc]
    · rw [i2]
      simp only [runGroups, totalLen, List.map_cons, List.sum_cons, Int.natCast_add, Int.add_mul]
      omega


/-! ### arithmetic of the memory capacity -/

/-- how many requests of `mem` fit into `x` (`max (x / mem) 0` as a natural) -/
def capN (mem x : Int) : Nat := (max (x.tdiv mem) 0).toNat

theorem capN_eq (mem x : Int) (hm : 0 < mem) : (capN mem x : Int) = if 0 ≤ x then x / mem else 0 := by
  unfold capN
  split
  · rename_i hx
    rw [Int.tdiv_eq_ediv_of_nonneg hx]
    have := Int.ediv_nonneg hx (Int.le_of_lt hm)
    omega
  · rename_i hx
    have h2 : 0 ≤ (-x).tdiv mem := Int.tdiv_nonneg (by omega) (Int.le_of_lt hm)
    rw [Int.neg_tdiv] at h2
    omega

theorem capN_mono (mem x y : Int) (hm : 0 < mem) (h : x ≤ y) : capN mem x ≤ capN mem y := by
  have hx := capN_eq mem x hm
  have hy := capN_eq mem y hm
  have : (capN mem x : Int) ≤ capN mem y := by
    rw [hx, hy]
    split
    · rename_i h0
      rw [if_pos (by omega)]
      exact Int.ediv_le_ediv hm h
    · split
      · rename_i h1; exact Int.ediv_nonneg h1 (Int.le_of_lt hm)
      · omega
  exact_mod_cast this

theorem capN_min (mem x y : Int) (hm : 0 < mem) : capN mem (min x y) = min (capN mem x) (capN mem y) := by
  rcases Int.le_total x y with h | h
  · have := capN_mono mem x y hm h
    rw [Int.min_eq_left h]; omega
  · have := capN_mono mem y x hm h
    rw [Int.min_eq_right h]; omega

theorem capN_sub (mem M : Int) (hm : 0 < mem) (p : Nat) (hp : p ≤ capN mem M) :
    capN mem (M - (p : Int) * mem) = capN mem M - p := by
  have hM := capN_eq mem M hm
  rcases Int.lt_or_le M 0 with hneg | hpos
  · rw [if_neg (by omega)] at hM
    have h0 : capN mem M = 0 := by omega
    have hp0 : p = 0 := by omega
    subst hp0; simp
  · rw [if_pos hpos] at hM
    have hle : (p : Int) * mem ≤ M := by
      have h1 : (p : Int) ≤ M / mem := by omega
      have h2 : (p : Int) * mem ≤ M / mem * mem := Int.mul_le_mul_of_nonneg_right h1 (Int.le_of_lt hm)
      have h3 := Int.ediv_mul_le M (Int.ne_of_gt hm)
      omega
    have hs := capN_eq mem (M - (p : Int) * mem) hm
    rw [if_pos (by omega)] at hs
    have e : (M - (p : Int) * mem) / mem = M / mem - p := by
      have := Int.add_mul_ediv_right M (-(p : Int)) (Int.ne_of_gt hm)
      rw [show M - (p : Int) * mem = M + -(p : Int) * mem by rw [Int.neg_mul]; omega]
      rw [this]; omega
    rw [e] at hs
    omega

theorem truncMem_pos (mem x : Int) (hm : 0 < mem) (l : List CpuMap) : truncMem mem x l = l.take (capN mem x) := by
  unfold truncMem capN; rw [if_pos hm]

/-! ### the greedy distribution of the remaining memory over the groups -/

def greedy : List Nat → Nat → List Nat
  | [], _ => []
  | a :: as, K => min a K :: greedy as (K - min a K)

theorem greedy_sum (as : List Nat) (K : Nat) : (greedy as K).sum = min as.sum K := by
  induction as generalizing K with
  | nil => simp [greedy]
  | cons a as ih => simp only [greedy, List.sum_cons, ih]; omega

theorem perm_sum_map {α : Type} (f : α → Nat) {l1 l2 : List α} (h : l1.Perm l2) : (l1.map f).sum = (l2.map f).sum := by
  induction h with
  | nil => rfl
  | cons x _ ih => simp only [List.map_cons, List.sum_cons, ih]
  | swap x y l => simp only [List.map_cons, List.sum_cons]; omega
  | trans _ _ ih1 ih2 => rw [ih1, ih2]

/-- number of plans group `n` can take by CPU and NUMA memory alone -/
def groupCap (mem : Int) (H : String → List CpuMap) (nm : String → Int) (n : String) : Nat :=
  min (H n).length (capN mem (nm n))

theorem runGroups_lens (mem : Int) (hm : 0 < mem) (H : String → List CpuMap) (nm : String → Int) (order : List String) (M : Int) :
    (runGroups mem H nm order M).map (fun ng => ng.2.length) = greedy (order.map (groupCap mem H nm)) (capN mem M) := by
  induction order generalizing M with
  | nil => simp [runGroups, greedy]
  | cons n rest ih =>
    simp only [runGroups, List.map_cons, greedy]
    have hl : (truncMem mem (min (nm n) M) (H n)).length = min (groupCap mem H nm n) (capN mem M) := by
      rw [truncMem_pos mem _ hm, List.length_take, capN_min mem _ _ hm]; unfold groupCap; omega
    rw [hl, ih, capN_sub mem M hm _ (by omega)]

/-- what group `n` gets when memory is not the binding constraint -/
def fixedGroup (mem : Int) (H : String → List CpuMap) (nm : String → Int) (n : String) : List CpuMap := truncMem mem (nm n) (H n)

theorem runGroups_fixed (mem : Int) (H : String → List CpuMap) (nm : String → Int) (order : List String) (M : Int)
    (h : mem ≤ 0 ∨ (0 < mem ∧ (order.map (groupCap mem H nm)).sum ≤ capN mem M)) :
    runGroups mem H nm order M = order.map fun n => (n, fixedGroup mem H nm n) := by
  induction order generalizing M with
  | nil => simp [runGroups]
  | cons n rest ih =>
    simp only [runGroups, List.map_cons]
    rcases h with hle | ⟨hm, hs⟩
    · have e : ∀ x, truncMem mem x (H n) = H n := by intro x; unfold truncMem; rw [if_neg (by omega)]
      rw [e, ih _ (Or.inl hle)]
      simp [fixedGroup, e]
    · simp only [List.map_cons, List.sum_cons] at hs
      have hg : truncMem mem (min (nm n) M) (H n) = fixedGroup mem H nm n := by
        unfold fixedGroup
        rw [truncMem_pos mem _ hm, truncMem_pos mem _ hm, capN_min mem _ _ hm]
        rcases Nat.lt_or_ge (capN mem M) (capN mem (nm n)) with hc | hc
        · rw [Nat.min_eq_right (Nat.le_of_lt hc)]
          have ha : groupCap mem H nm n ≤ capN mem M := by omega
          unfold groupCap at ha
          have hlen : (H n).length ≤ capN mem M := by omega
          rw [List.take_of_length_le hlen, List.take_of_length_le (Nat.le_trans hlen (Nat.le_of_lt hc))]
        · rw [Nat.min_eq_left hc]
      rw [hg]
      have hlen : (fixedGroup mem H nm n).length = groupCap mem H nm n := by
        unfold fixedGroup groupCap; rw [truncMem_pos mem _ hm, List.length_take]; omega
      rw [ih _ (Or.inr ⟨hm, by rw [hlen, capN_sub mem M hm _ (by omega)]; omega⟩)]


/-! ### the leftover CPU map does not depend on the order -/

theorem mapSub_keys_eq (c p : Eru.Plan) (h : ∀ k ∈ p.keys, c.has k = true) : (mapSub c p).keys = c.keys := by
  unfold mapSub
  induction p generalizing c with
  | nil => rfl
  | cons kv rest ih =>
    simp only [List.foldl_cons]
    have hk : c.has kv.1 = true := h kv.1 (by simp [Plan.keys])
    have hkeys : (c.add kv.1 (-kv.2)).keys = c.keys := by
      unfold Plan.add; rw [keys_set, hk]; rfl
    rw [ih (c.add kv.1 (-kv.2)) (by
      intro k hkm
      rw [Plan.has_add]
      have := h k (by simp only [Plan.keys, List.map_cons, List.mem_cons]; right; exact hkm)
      simp [this]), hkeys]

theorem plan_eq_of_keys_get (a b : Eru.Plan) (hk : a.keys = b.keys) (hn : a.keys.Nodup)
    (hg : ∀ k, a.get k = b.get k) : a = b := by
  induction a generalizing b with
  | nil =>
    cases b with
    | nil => rfl
    | cons _ _ => simp [Plan.keys] at hk
  | cons x xs ih =>
    cases b with
    | nil => simp [Plan.keys] at hk
    | cons y ys =>
      obtain ⟨xk, xv⟩ := x
      obtain ⟨yk, yv⟩ := y
      simp only [Plan.keys, List.map_cons, List.cons.injEq] at hk
      obtain ⟨hk1, hk2⟩ := hk
      subst hk1
      simp only [Plan.keys, List.map_cons, List.nodup_cons] at hn
      have hv : xv = yv := by have := hg xk; simpa [Plan.get] using this
      subst hv
      congr 1
      apply ih ys hk2 hn.2
      intro k
      have := hg k
      simp only [Plan.get] at this
      by_cases e : xk = k
      · subst e
        rw [Plan.get_of_not_has xs xk (not_has_of_not_mem _ _ hn.1),
          Plan.get_of_not_has ys xk (not_has_of_not_mem _ _ (by unfold Plan.keys; rw [← hk2]; exact hn.1))]
      · simpa [e] using this

theorem subPlans_keys (avail : NodeRes) (node : String) (mem : Int) (plans : List CpuMap)
    (h : ∀ p ∈ plans, ∀ k ∈ p.keys, avail.cpuMap.has k = true) :
    (subPlans avail node mem plans).cpuMap.keys = avail.cpuMap.keys := by
  unfold subPlans
  induction plans generalizing avail with
  | nil => rfl
  | cons p ps ih =>
    simp only [List.foldl_cons]
    have hk : (avail.sub { cpuMap := p, mem := mem, numaMem := [(node, mem)] }).cpuMap.keys = avail.cpuMap.keys := by
      simp only [NodeRes.sub]; exact mapSub_keys_eq _ _ (h p (List.mem_cons_self ..))
    rw [ih _ (by
      intro q hq k hkq
      have := h q (List.mem_cons_of_mem _ hq) k hkq
      rw [has_eq_mem_keys] at this ⊢
      rw [hk]; exact this), hk]

/-- a planned core has positive pieces in the map it was planned on, hence is a key of it -/
theorem planned_key_has (origin cm : CpuMap) (availMem B : Int) (hB : 1 ≤ B) (maxShare : Int) (req : Req) (hn : cm.keys.Nodup)
    (plans : List CpuMap) (h : doGetCPUPlans origin cm availMem B maxShare req = .ok plans) :
    ∀ p ∈ plans, ∀ k ∈ p.keys, 0 < cm.get k := by
  obtain ⟨plans', h', hu, hf⟩ := doGetCPUPlans_spec origin cm availMem B hB maxShare req hn
  rw [h] at h'; cases h'
  have hpn := piecesRequest_nonneg req B
  have hfr0 : 0 ≤ (piecesRequest req B).tmod B := by
    rw [Int.tmod_eq_emod_of_nonneg hpn]; exact Int.emod_nonneg _ (by omega)
  intro p hp k hk
  obtain ⟨kv, hkv, rfl⟩ := List.mem_map.mp hk
  have hv : 0 < kv.2 := planForm_vals_pos hB hfr0 (hf p hp) kv hkv
  have hg : p.get kv.1 = kv.2 := get_of_mem_nodup p kv.1 kv.2 hkv (planForm_keys_nodup (hf p hp))
  have hge := usedBy_ge_of_mem plans p hp kv.1 (fun q hq => planForm_get_nonneg (hf q hq) (by omega) hfr0 kv.1)
  have := (hu kv.1).2
  omega

theorem numaLoop_keys (origin : CpuMap) (numa : List (String × String)) (hnk : (numa.map (·.1)).Nodup) (avail0 : CpuMap)
    (B : Int) (hB : 1 ≤ B) (maxShare : Int) (req : Req) (order : List String) (avail : NodeRes) (acc acc' : List CpuPlan)
    (avail' : NodeRes) (hk0 : avail.cpuMap.keys = avail0.keys)
    (h : numaLoop origin numa avail0 B maxShare req order avail acc = .ok (acc', avail')) :
    avail'.cpuMap.keys = avail0.keys := by
  induction order generalizing avail acc with
  | nil => simp only [numaLoop] at h; cases h; exact hk0
  | cons node rest ih =>
    simp only [numaLoop] at h
    split at h
    · rename_i plans hp
      refine ih _ _ ?_ h
      rw [subPlans_keys, hk0]
      intro p hpm k hk
      have hpos := planned_key_has origin _ _ B hB maxShare req (numaCpuMap_nodup numa avail0 node hnk) plans hp p hpm k hk
      rw [numaCpuMap_get numa hnk] at hpos
      have hg : 0 < avail0.get k := by split at hpos <;> omega
      rw [has_eq_mem_keys, hk0, ← has_eq_mem_keys]
      cases hh : avail0.has k with
      | true => rfl
      | false => have := Plan.get_of_not_has avail0 k hh; omega
    · cases h
    · cases h
    · cases h

theorem tagAll_length (gs : List (String × List CpuMap)) : (tagAll gs).length = totalLen gs := by
  induction gs with
  | nil => rfl
  | cons g gs ih =>
    simp only [tagAll, List.flatMap_cons, List.length_append, List.length_map, totalLen, List.map_cons, List.sum_cons] at ih ⊢
    omega

theorem tagAll_maps (gs : List (String × List CpuMap)) : (tagAll gs).map (·.cpuMap) = gs.flatMap (·.2) := by
  induction gs with
  | nil => rfl
  | cons g gs ih =>
    simp only [tagAll, List.flatMap_cons, List.map_append, List.map_map] at ih ⊢
    rw [ih]
    congr 1
    exact List.map_id' g.2

theorem totalLen_eq_sum (gs : List (String × List CpuMap)) : totalLen gs = (gs.map fun ng => ng.2.length).sum := rfl


/-! ### assembly -/

/-- the result of `getCPUPlans` for one visiting order, in terms of the pure group function -/
theorem getCPUPlans_analysis (info : NodeInfo) (origin : CpuMap) (B : Int) (hB : 1 ≤ B) (maxShare : Int) (req : Req)
    (o : List String) (hord : o.Nodup) (hnk : (info.cap.numa.map (·.1)).Nodup) (hck : info.cap.cpuMap.keys.Nodup)
    (ps : List CpuPlan) (h : getCPUPlans info origin B maxShare req o = .ok ps) :
    ∃ av : NodeRes,
      ps = tagAll (runGroups req.mem (fun n => hostList origin (numaCpuMap info.cap.numa info.available.cpuMap n) B maxShare req)
              (fun n => info.available.numaMem.get n) o info.available.mem) ++
           (truncMem req.mem av.mem (hostList origin av.cpuMap B maxShare req)).map (fun p => (⟨"", p⟩ : CpuPlan)) ∧
      av.mem = info.available.mem - (totalLen (runGroups req.mem
              (fun n => hostList origin (numaCpuMap info.cap.numa info.available.cpuMap n) B maxShare req)
              (fun n => info.available.numaMem.get n) o info.available.mem) : Int) * req.mem ∧
      av.cpuMap.keys = info.available.cpuMap.keys ∧
      (∀ k, av.cpuMap.get k = info.available.cpuMap.get k - usedBy ((runGroups req.mem
              (fun n => hostList origin (numaCpuMap info.cap.numa info.available.cpuMap n) B maxShare req)
              (fun n => info.available.numaMem.get n) o info.available.mem).flatMap (·.2)) k) := by
  have hak : info.available.cpuMap.keys.Nodup := by
    simp only [NodeInfo.available, NodeRes.sub]; exact mapSub_keys_nodup _ _ hck
  have hD : ∀ n M, doGetCPUPlans origin (numaCpuMap info.cap.numa info.available.cpuMap n) M B maxShare req =
      .ok (truncMem req.mem M (hostList origin (numaCpuMap info.cap.numa info.available.cpuMap n) B maxShare req)) :=
    fun n M => doGet_shape origin _ B hB maxShare req (numaCpuMap_nodup _ _ n hnk) M
  unfold getCPUPlans at h
  rw [if_neg (by omega)] at h
  split at h
  · rename_i acc av hl
    obtain ⟨s1, s2⟩ := numaLoop_shape origin info.cap.numa info.available.cpuMap B maxShare req _ _ hD o hord
      info.available [] acc av (fun n _ => rfl) hl
    have hkeys := numaLoop_keys origin info.cap.numa hnk info.available.cpuMap B hB maxShare req o info.available [] acc av rfl hl
    obtain ⟨new, av', hl', _, _, hg, _⟩ := numaLoop_spec origin info.cap.numa hnk info.available.cpuMap B hB maxShare req
      o hord info.available [] hak
    rw [hl] at hl'
    simp only [List.nil_append, Outcome.ok.injEq, Prod.mk.injEq] at hl'
    obtain ⟨e1, e2⟩ := hl'
    subst e1; subst e2
    simp only [List.nil_append] at s1
    rw [doGet_shape origin av.cpuMap B hB maxShare req (by rw [hkeys]; exact hak) av.mem] at h
    simp only [Outcome.ok.injEq] at h
    refine ⟨av, ?_, s2, hkeys, ?_⟩
    · rw [← h, s1]
    · intro k
      rw [hg k, s1, tagAll_maps]
  all_goals cases h

theorem usedBy_flatMap_perm {o1 o2 : List String} (hp : o1.Perm o2) (f : String → List CpuMap) (k : String) :
    usedBy (o1.flatMap f) k = usedBy (o2.flatMap f) k := usedBy_perm (hp.flatMap_right f) k

/-- **`GetCPUPlans` returns the same number of plans for every visiting order of the NUMA nodes.** -/
theorem getCPUPlans_length_order_indep (info : NodeInfo) (origin : CpuMap) (B : Int) (hB : 1 ≤ B) (maxShare : Int) (req : Req)
    (o1 o2 : List String) (hperm : o1.Perm o2) (hord : o1.Nodup)
    (hnk : (info.cap.numa.map (·.1)).Nodup) (hck : info.cap.cpuMap.keys.Nodup)
    (ps1 ps2 : List CpuPlan)
    (h1 : getCPUPlans info origin B maxShare req o1 = .ok ps1) (h2 : getCPUPlans info origin B maxShare req o2 = .ok ps2) :
    ps1.length = ps2.length := by
  have hord2 : o2.Nodup := hperm.nodup_iff.mp hord
  obtain ⟨av1, e1, m1, k1, g1⟩ := getCPUPlans_analysis info origin B hB maxShare req o1 hord hnk hck ps1 h1
  obtain ⟨av2, e2, m2, k2, g2⟩ := getCPUPlans_analysis info origin B hB maxShare req o2 hord2 hnk hck ps2 h2
  generalize hH : (fun n => hostList origin (numaCpuMap info.cap.numa info.available.cpuMap n) B maxShare req) = H at *
  generalize hNM : (fun n => info.available.numaMem.get n) = nm at *
  generalize hM0 : info.available.mem = M0 at *
  have hak : info.available.cpuMap.keys.Nodup := by
    simp only [NodeInfo.available, NodeRes.sub]; exact mapSub_keys_nodup _ _ hck
  have hsumA : (o1.map (groupCap req.mem H nm)).sum = (o2.map (groupCap req.mem H nm)).sum := perm_sum_map _ hperm
  rw [e1, e2]
  simp only [List.length_append, List.length_map, tagAll_length]
  by_cases hfix : req.mem ≤ 0 ∨ (0 < req.mem ∧ (o1.map (groupCap req.mem H nm)).sum ≤ capN req.mem M0)
  · -- memory does not bind: every group gets its fixed share, for both orders
    have hfix2 : req.mem ≤ 0 ∨ (0 < req.mem ∧ (o2.map (groupCap req.mem H nm)).sum ≤ capN req.mem M0) := by
      rw [← hsumA]; exact hfix
    have r1 := runGroups_fixed req.mem H nm o1 M0 hfix
    have r2 := runGroups_fixed req.mem H nm o2 M0 hfix2
    rw [r1] at m1 g1 ⊢
    rw [r2] at m2 g2 ⊢
    have hlen : totalLen (o1.map fun n => (n, fixedGroup req.mem H nm n)) = totalLen (o2.map fun n => (n, fixedGroup req.mem H nm n)) := by
      simp only [totalLen, List.map_map]
      exact perm_sum_map _ hperm
    have hmem : av1.mem = av2.mem := by rw [m1, m2, hlen]
    have hcpu : av1.cpuMap = av2.cpuMap := by
      apply plan_eq_of_keys_get _ _ (by rw [k1, k2]) (by rw [k1]; exact hak)
      intro k
      rw [g1 k, g2 k]
      have e : ∀ (o : List String), (o.map fun n => (n, fixedGroup req.mem H nm n)).flatMap (·.2) = o.flatMap (fixedGroup req.mem H nm) := by
        intro o; simp [List.flatMap_map]
      rw [e o1, e o2, usedBy_flatMap_perm hperm]
    rw [hlen, hmem, hcpu]
  · -- memory binds: the groups use it up, the cross-NUMA phase is empty, for both orders
    have hm : 0 < req.mem := by
      rcases Int.lt_or_le 0 req.mem with h | h
      · exact h
      · exact absurd (Or.inl h) hfix
    have hbig : capN req.mem M0 < (o1.map (groupCap req.mem H nm)).sum := by
      rcases Nat.lt_or_ge (capN req.mem M0) ((o1.map (groupCap req.mem H nm)).sum) with h | h
      · exact h
      · exact absurd (Or.inr ⟨hm, h⟩) hfix
    have t1 : totalLen (runGroups req.mem H nm o1 M0) = capN req.mem M0 := by
      rw [totalLen_eq_sum, runGroups_lens req.mem hm, greedy_sum]; omega
    have t2 : totalLen (runGroups req.mem H nm o2 M0) = capN req.mem M0 := by
      rw [totalLen_eq_sum, runGroups_lens req.mem hm, greedy_sum, ← hsumA]; omega
    have c1 : capN req.mem av1.mem = 0 := by
      rw [m1, t1, capN_sub req.mem M0 hm _ (Nat.le_refl _)]; omega
    have c2 : capN req.mem av2.mem = 0 := by
      rw [m2, t2, capN_sub req.mem M0 hm _ (Nat.le_refl _)]; omega
    rw [truncMem_pos _ _ hm, truncMem_pos _ _ hm, c1, c2, t1, t2]
    simp

end Eru.CpuMem
