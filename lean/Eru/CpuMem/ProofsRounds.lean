import Eru.CpuMem.Spec
/-
Per-core accounting shared by `getFullCPUPlans` (heap) and `getFullCPUPlansWithAffinity`:
every round picks cores, gives each `B` pieces, and keeps those with pieces left.
-/
namespace Eru.CpuMem
open Eru

/-- a core that `newHost` classifies as full: a positive multiple of the share base -/
def FullCore (B : Int) (c : Core) : Prop := B ≤ c.pieces ∧ B ∣ c.pieces

/-- pieces of core `id` available in a list of cores -/
def piecesOf : List Core → String → Int
  | [], _ => 0
  | c :: cs, id => (if c.id = id then c.pieces else 0) + piecesOf cs id

/-- how many entries of the list are core `id` -/
def countId : List Core → String → Int
  | [], _ => 0
  | c :: cs, id => (if c.id = id then 1 else 0) + countId cs id

theorem piecesOf_append (a b : List Core) (id : String) : piecesOf (a ++ b) id = piecesOf a id + piecesOf b id := by
  induction a with
  | nil => simp [piecesOf]
  | cons c cs ih => simp only [List.cons_append, piecesOf, ih]; omega

theorem countId_append (a b : List Core) (id : String) : countId (a ++ b) id = countId a id + countId b id := by
  induction a with
  | nil => simp [countId]
  | cons c cs ih => simp only [List.cons_append, countId, ih]; omega

theorem countId_nonneg (a : List Core) (id : String) : 0 ≤ countId a id := by
  induction a with
  | nil => simp [countId]
  | cons c cs ih => simp only [countId]; split <;> omega

theorem piecesOf_perm {a b : List Core} (h : a.Perm b) (id : String) : piecesOf a id = piecesOf b id := by
  induction h with
  | nil => rfl
  | cons x _ ih => simp only [piecesOf, ih]
  | swap x y l => simp only [piecesOf]; omega
  | trans _ _ ih1 ih2 => rw [ih1, ih2]

theorem totalPieces_perm {a b : List Core} (h : a.Perm b) : totalPieces a = totalPieces b := by
  unfold totalPieces
  induction h with
  | nil => rfl
  | cons x _ ih => simp only [List.map_cons, List.sum_cons, ih]
  | swap x y l => simp only [List.map_cons, List.sum_cons]; omega
  | trans _ _ ih1 ih2 => rw [ih1, ih2]

theorem totalPieces_append (a b : List Core) : totalPieces (a ++ b) = totalPieces a + totalPieces b := by
  unfold totalPieces; simp [List.sum_append]

theorem totalPieces_cons (c : Core) (a : List Core) : totalPieces (c :: a) = c.pieces + totalPieces a := by
  unfold totalPieces; simp

/-! ### the plan of one round -/

theorem foldl_set_get (B : Int) (cs : List Core) (p : CpuMap) (id : String) :
    (cs.foldl (fun p c => p.set c.id B) p).get id = if 0 < countId cs id then B else p.get id := by
  induction cs generalizing p with
  | nil => simp [countId]
  | cons c cs ih =>
    simp only [List.foldl_cons, countId]
    have hcn := countId_nonneg cs id
    rw [ih]
    by_cases hc : c.id = id
    · have hg : (p.set c.id B).get id = B := by rw [Plan.get_set]; simp [hc]
      rw [hg]
      simp only [hc, if_true]
      have : 0 < 1 + countId cs id := by omega
      simp [this]
    · have hg : (p.set c.id B).get id = p.get id := by rw [Plan.get_set]; simp [hc]
      simp only [hc, if_false, hg, Int.zero_add]

theorem planOfCores_get (B : Int) (cs : List Core) (id : String) :
    (planOfCores B cs).get id = if 0 < countId cs id then B else 0 := by
  unfold planOfCores; rw [foldl_set_get]; simp

theorem planOfCores_get_le (B : Int) (hB : 0 ≤ B) (cs : List Core) (id : String) :
    0 ≤ (planOfCores B cs).get id ∧ (planOfCores B cs).get id ≤ B * countId cs id := by
  rw [planOfCores_get]
  have hcn := countId_nonneg cs id
  split
  · rename_i h
    refine ⟨hB, ?_⟩
    have : B * 1 ≤ B * countId cs id := Int.mul_le_mul_of_nonneg_left (by omega) hB
    omega
  · have : countId cs id = 0 := by omega
    simp [this]

/-! ### the cores that stay after a round -/

theorem decCores_append (B : Int) (a b : List Core) : decCores B (a ++ b) = decCores B a ++ decCores B b := by
  unfold decCores; simp [List.filterMap_append]

theorem decCores_cons (B : Int) (c : Core) (cs : List Core) :
    decCores B (c :: cs) = (if 0 < c.pieces - B then [⟨c.id, c.pieces - B⟩] else []) ++ decCores B cs := by
  unfold decCores
  simp only [List.filterMap_cons]
  split <;> simp_all

theorem fullCore_dec {B : Int} (_hB : 1 ≤ B) {c : Core} (h : FullCore B c) (hp : 0 < c.pieces - B) :
    FullCore B ⟨c.id, c.pieces - B⟩ := by
  obtain ⟨h1, h2⟩ := h
  have hd : B ∣ c.pieces - B := Int.dvd_sub h2 (Int.dvd_refl B)
  exact ⟨Int.le_of_dvd hp hd, hd⟩

theorem decCores_full {B : Int} (hB : 1 ≤ B) {cs : List Core} (h : ∀ c ∈ cs, FullCore B c) :
    ∀ c ∈ decCores B cs, FullCore B c := by
  induction cs with
  | nil => intro c hc; simp [decCores] at hc
  | cons x xs ih =>
    intro c hc
    rw [decCores_cons, List.mem_append] at hc
    rcases hc with hc | hc
    · split at hc
      · rename_i hp
        simp only [List.mem_singleton] at hc
        subst hc
        exact fullCore_dec hB (h x (List.mem_cons_self ..)) hp
      · simp at hc
    · exact ih (fun c hc => h c (List.mem_cons_of_mem _ hc)) c hc

theorem piecesOf_decCores {B : Int} {cs : List Core} (h : ∀ c ∈ cs, FullCore B c) (id : String) :
    piecesOf (decCores B cs) id = piecesOf cs id - B * countId cs id := by
  induction cs with
  | nil => simp [decCores, piecesOf, countId]
  | cons x xs ih =>
    rw [decCores_cons, piecesOf_append, ih (fun c hc => h c (List.mem_cons_of_mem _ hc))]
    obtain ⟨h1, _⟩ := h x (List.mem_cons_self ..)
    simp only [piecesOf, countId]
    by_cases hx : x.id = id
    · simp only [hx, if_true, Int.mul_add, Int.mul_one]
      split
      · simp [piecesOf]; omega
      · simp [piecesOf]; omega
    · simp only [hx, if_false, Int.zero_add]
      split
      · simp [piecesOf, hx]
      · simp [piecesOf]

theorem totalPieces_decCores {B : Int} {cs : List Core} (h : ∀ c ∈ cs, FullCore B c) :
    totalPieces (decCores B cs) = totalPieces cs - B * cs.length := by
  induction cs with
  | nil => simp [decCores, totalPieces]
  | cons x xs ih =>
    rw [decCores_cons, totalPieces_append, ih (fun c hc => h c (List.mem_cons_of_mem _ hc)), totalPieces_cons]
    obtain ⟨h1, _⟩ := h x (List.mem_cons_self ..)
    simp only [List.length_cons, Int.natCast_succ, Int.mul_add, Int.mul_one]
    split
    · simp [totalPieces]; omega
    · simp [totalPieces]; omega

theorem totalPieces_nonneg {B : Int} (hB : 1 ≤ B) {cs : List Core} (h : ∀ c ∈ cs, FullCore B c) :
    0 ≤ totalPieces cs := by
  induction cs with
  | nil => simp [totalPieces]
  | cons x xs ih =>
    rw [totalPieces_cons]
    have := ih (fun c hc => h c (List.mem_cons_of_mem _ hc))
    have := (h x (List.mem_cons_self ..)).1
    omega

/-- pieces of core `id` used by a list of plans: non-negative, additive -/
theorem usedBy_cons (p : CpuMap) (ps : List CpuMap) (id : String) : usedBy (p :: ps) id = p.get id + usedBy ps id := by
  simp [usedBy]

theorem usedBy_append (a b : List CpuMap) (id : String) : usedBy (a ++ b) id = usedBy a id + usedBy b id := by
  simp [usedBy, List.sum_append]

theorem usedBy_perm {a b : List CpuMap} (h : a.Perm b) (id : String) : usedBy a id = usedBy b id := by
  induction h with
  | nil => rfl
  | cons x _ ih => simp only [usedBy_cons, ih]
  | swap x y l => simp only [usedBy_cons]; omega
  | trans _ _ ih1 ih2 => rw [ih1, ih2]


theorem decCores_ids_sublist (B : Int) (cs : List Core) :
    ((decCores B cs).map (·.id)).Sublist (cs.map (·.id)) := by
  induction cs with
  | nil => simp [decCores]
  | cons x xs ih =>
    rw [decCores_cons]
    split
    · simpa using ih
    · simpa using List.Sublist.cons _ ih

theorem decCores_mem_id (B : Int) (cs : List Core) (c : Core) (h : c ∈ decCores B cs) : c.id ∈ cs.map (·.id) :=
  (decCores_ids_sublist B cs).subset (List.mem_map_of_mem h)

/-- a plan produced by one round over cores whose ids come from `ids` -/
def IsRound (B : Int) (full : Nat) (ids : List String) (p : CpuMap) : Prop :=
  ∃ picked : List Core, p = planOfCores B picked ∧ picked.length = full ∧ (picked.map (·.id)).Nodup ∧
    ∀ c ∈ picked, c.id ∈ ids

/-! ### getFullCPUPlans: the heap loop -/

theorem popN_spec (B : Int) (n : Nat) (h : Array Core) (picked toPush : List Core)
    (h' : Array Core) (picked' toPush' : List Core)
    (e : popN B n h picked toPush = some (h', picked', toPush')) :
    ∃ new, picked' = picked ++ new ∧ toPush' = toPush ++ decCores B new ∧
      h.toList.Perm (new ++ h'.toList) ∧ new.length = n := by
  induction n generalizing h picked toPush with
  | zero =>
    simp only [popN] at e
    cases e
    exact ⟨[], by simp [decCores]⟩
  | succ n ih =>
    simp only [popN] at e
    split at e
    · cases e
    · rename_i c h1 hpop
      have hperm := GoHeap.pop_perm heapLess h c h1 hpop
      obtain ⟨new1, e1, e2, e3, e4⟩ := ih h1 _ _ e
      refine ⟨c :: new1, by simp [e1], ?_, ?_, by simp [e4]⟩
      · rw [e2, decCores_cons]
        split <;> simp
      · exact hperm.trans (List.Perm.cons c e3)

theorem popN_some (B : Int) (n : Nat) (h : Array Core) (picked toPush : List Core) (hn : n ≤ h.size) :
    ∃ r, popN B n h picked toPush = some r := by
  induction n generalizing h picked toPush with
  | zero => exact ⟨_, rfl⟩
  | succ n ih =>
    simp only [popN]
    cases hpop : GoHeap.pop heapLess h with
    | none =>
      have := (GoHeap.pop_none heapLess h).mp hpop
      omega
    | some r =>
      obtain ⟨c, h1⟩ := r
      have hperm := GoHeap.pop_perm heapLess h c h1 hpop
      have hl := hperm.length_eq
      simp only [List.length_cons, Array.length_toList] at hl
      exact ih h1 _ _ (by omega)

theorem foldl_push_perm (cs : List Core) (h : Array Core) :
    (cs.foldl (GoHeap.push heapLess) h).toList.Perm (cs ++ h.toList) := by
  induction cs generalizing h with
  | nil => simp
  | cons c cs ih =>
    simp only [List.foldl_cons]
    refine (ih _).trans ?_
    have := GoHeap.push_perm heapLess h c
    exact (List.Perm.append_left cs this).trans (by simpa using (List.perm_middle (a := c) (l₁ := cs) (l₂ := h.toList)))

theorem heapLoop_spec (B : Int) (hB : 1 ≤ B) (full : Nat) (hf : 1 ≤ full) (ids : List String) (fuel : Nat) (h : Array Core)
    (hc : ∀ c ∈ h.toList, FullCore B c) (hn : (h.toList.map (·.id)).Nodup) (hids : ∀ c ∈ h.toList, c.id ∈ ids)
    (hfuel : (totalPieces h.toList).toNat < fuel) :
    ∃ plans, heapLoop B full fuel h = .ok plans ∧ (∀ id, usedBy plans id ≤ piecesOf h.toList id) ∧
      (∀ p ∈ plans, IsRound B full ids p) := by
  induction fuel generalizing h with
  | zero => omega
  | succ fuel ih =>
    simp only [heapLoop]
    by_cases hs : h.size < full
    · simp only [hs, if_true]
      refine ⟨[], rfl, ?_, by simp⟩
      intro id
      simp only [usedBy, List.map_nil, List.sum_nil]
      -- piecesOf of full cores is non-negative
      have : ∀ l : List Core, (∀ c ∈ l, FullCore B c) → 0 ≤ piecesOf l id := by
        intro l hl
        induction l with
        | nil => simp [piecesOf]
        | cons x xs ihx =>
          simp only [piecesOf]
          have := ihx (fun c hc => hl c (List.mem_cons_of_mem _ hc))
          have := (hl x (List.mem_cons_self ..)).1
          split <;> omega
      exact this _ hc
    · simp only [hs, if_false]
      obtain ⟨r, hr⟩ := popN_some B full h [] [] (by omega)
      obtain ⟨h', picked, toPush⟩ := r
      rw [hr]
      obtain ⟨new, e1, e2, e3, e4⟩ := popN_spec B full h [] [] h' picked toPush hr
      simp only [List.nil_append] at e1 e2
      subst e1 e2
      simp only []
      have hpush := foldl_push_perm (decCores B picked) h'
      generalize (decCores B picked).foldl (GoHeap.push heapLess) h' = h2 at hpush ⊢
      have hcP : ∀ c ∈ picked, FullCore B c := fun c hcm => hc c (e3.mem_iff.mpr (List.mem_append_left _ hcm))
      have hcH' : ∀ c ∈ h'.toList, FullCore B c := fun c hcm => hc c (e3.mem_iff.mpr (List.mem_append_right _ hcm))
      have hc2 : ∀ c ∈ h2.toList, FullCore B c := by
        intro c hcm
        rcases List.mem_append.mp (hpush.mem_iff.mp hcm) with hh | hh
        · exact decCores_full hB hcP c hh
        · exact hcH' c hh
      have hnP : ((picked ++ h'.toList).map (·.id)).Nodup := (e3.map _).nodup_iff.mp hn
      have hn2 : (h2.toList.map (·.id)).Nodup := by
        refine ((hpush.map _).nodup_iff).mpr ?_
        rw [List.map_append]
        rw [List.map_append] at hnP
        exact hnP.sublist (List.Sublist.append (decCores_ids_sublist B picked) (List.Sublist.refl _))
      have hidsP : ∀ c ∈ picked, c.id ∈ ids := fun c hcm => hids c (e3.mem_iff.mpr (List.mem_append_left _ hcm))
      have hids2 : ∀ c ∈ h2.toList, c.id ∈ ids := by
        intro c hcm
        rcases List.mem_append.mp (hpush.mem_iff.mp hcm) with hh | hh
        · obtain ⟨c', hc', hid⟩ := List.mem_map.mp (decCores_mem_id B picked c hh)
          rw [← hid]; exact hidsP c' hc'
        · exact hids c (e3.mem_iff.mpr (List.mem_append_right _ hh))
      have htot : totalPieces h2.toList = totalPieces h.toList - B * full := by
        rw [totalPieces_perm hpush, totalPieces_append, totalPieces_decCores hcP, totalPieces_perm e3, totalPieces_append, e4]
        omega
      have hnn2 := totalPieces_nonneg hB hc2
      have hBf : 1 ≤ B * (full : Int) := by
        have : (1 : Int) * 1 ≤ B * (full : Int) := Int.mul_le_mul hB (by omega) (by omega) (by omega)
        omega
      obtain ⟨rest, hrest, hu, hr2⟩ := ih h2 hc2 hn2 hids2 (by omega)
      rw [hrest]
      refine ⟨planOfCores B picked :: rest, rfl, ?_, ?_⟩
      · intro id
        rw [usedBy_cons]
        have h1 := (planOfCores_get_le B (by omega) picked id).2
        have h2' := hu id
        rw [piecesOf_perm hpush, piecesOf_append, piecesOf_decCores hcP] at h2'
        rw [piecesOf_perm e3, piecesOf_append]
        omega
      · intro p hp
        rcases List.mem_cons.mp hp with hp | hp
        · subst hp
          refine ⟨picked, rfl, e4, ?_, hidsP⟩
          rw [List.map_append] at hnP
          exact (List.nodup_append.mp hnP).1
        · exact hr2 p hp


/-! ### getFullCPUPlansWithAffinity -/

theorem countId_take_drop (n : Nat) (cs : List Core) (id : String) :
    countId (cs.take n) id + countId (cs.drop n) id = countId cs id := by
  rw [← countId_append, List.take_append_drop]

theorem groupPlans_used (B : Int) (hB : 0 ≤ B) (full count : Nat) (cs : List Core) (id : String) :
    usedBy (groupPlans B full count cs) id ≤ B * countId cs id := by
  induction count generalizing cs with
  | zero =>
    simp only [groupPlans, usedBy, List.map_nil, List.sum_nil]
    exact Int.mul_nonneg hB (countId_nonneg cs id)
  | succ n ih =>
    simp only [groupPlans, usedBy_cons]
    have h1 := (planOfCores_get_le B hB (cs.take full) id).2
    have h2 := ih (cs.drop full)
    have h3 := countId_take_drop full cs id
    rw [← h3, Int.mul_add]; omega

theorem groupPlans_round (B : Int) (full count : Nat) (ids : List String) (cs : List Core)
    (hlen : count * full ≤ cs.length) (hn : (cs.map (·.id)).Nodup) (hids : ∀ c ∈ cs, c.id ∈ ids) :
    ∀ p ∈ groupPlans B full count cs, IsRound B full ids p := by
  induction count generalizing cs with
  | zero => intro p hp; simp [groupPlans] at hp
  | succ n ih =>
    intro p hp
    simp only [groupPlans, List.mem_cons] at hp
    have hl : full ≤ cs.length ∧ n * full ≤ cs.length - full := by
      rw [Nat.succ_mul] at hlen; omega
    rcases hp with hp | hp
    · subst hp
      refine ⟨cs.take full, rfl, by rw [List.length_take]; omega, ?_, fun c hc => hids c (List.mem_of_mem_take hc)⟩
      exact hn.sublist ((List.take_sublist full cs).map _)
    · refine ih (cs.drop full) (by rw [List.length_drop]; exact hl.2) ?_ (fun c hc => hids c (List.mem_of_mem_drop hc)) p hp
      exact hn.sublist ((List.drop_sublist full cs).map _)

theorem piecesOf_nonneg_of_full {B : Int} (hB : 1 ≤ B) (l : List Core) (hl : ∀ c ∈ l, FullCore B c) (id : String) :
    0 ≤ piecesOf l id := by
  induction l with
  | nil => simp [piecesOf]
  | cons x xs ihx =>
    simp only [piecesOf]
    have := ihx (fun c hc => hl c (List.mem_cons_of_mem _ hc))
    have := (hl x (List.mem_cons_self ..)).1
    split <;> omega

theorem affinityLoop_spec (B : Int) (hB : 1 ≤ B) (full : Nat) (hf : 1 ≤ full) (ids : List String) (fuel : Nat)
    (cores : List Core) (hc : ∀ c ∈ cores, FullCore B c) (hn : (cores.map (·.id)).Nodup)
    (hids : ∀ c ∈ cores, c.id ∈ ids) (hfuel : (totalPieces cores).toNat < fuel) :
    ∃ plans, affinityLoop B full fuel cores = .ok plans ∧ (∀ id, usedBy plans id ≤ piecesOf cores id) ∧
      (∀ p ∈ plans, IsRound B full ids p) := by
  induction fuel generalizing cores with
  | zero => omega
  | succ fuel ih =>
    simp only [affinityLoop]
    by_cases hs : cores.length < full
    · simp only [hs, if_true]
      refine ⟨[], rfl, ?_, by simp⟩
      intro id
      simp only [usedBy, List.map_nil, List.sum_nil]
      exact piecesOf_nonneg_of_full hB _ hc id
    · simp only [hs, if_false]
      have hcount : 1 ≤ cores.length / full := by
        rw [Nat.le_div_iff_mul_le (by omega)]; omega
      have hmul : cores.length / full * full ≤ cores.length := Nat.div_mul_le_self ..
      generalize cores.length / full = count at hcount hmul ⊢
      have hsplit : cores = cores.take (count * full) ++ cores.drop (count * full) := (List.take_append_drop ..).symm
      have hcU : ∀ c ∈ cores.take (count * full), FullCore B c := fun c h => hc c (List.mem_of_mem_take h)
      have hcD : ∀ c ∈ cores.drop (count * full), FullCore B c := fun c h => hc c (List.mem_of_mem_drop h)
      have hlenU : (cores.take (count * full)).length = count * full := by rw [List.length_take]; omega
      have hnSplit : ((cores.take (count * full)).map (·.id) ++ (cores.drop (count * full)).map (·.id)).Nodup := by
        rw [← List.map_append, ← hsplit]; exact hn
      generalize hU : cores.take (count * full) = used at hsplit hcU hlenU hnSplit ⊢
      generalize hD : cores.drop (count * full) = rest at hsplit hcD hnSplit ⊢
      have hc2 : ∀ c ∈ decCores B used ++ rest, FullCore B c := by
        intro c hcm
        rcases List.mem_append.mp hcm with hh | hh
        · exact decCores_full hB hcU c hh
        · exact hcD c hh
      have hn2 : ((decCores B used ++ rest).map (·.id)).Nodup := by
        rw [List.map_append]
        exact hnSplit.sublist (List.Sublist.append (decCores_ids_sublist B used) (List.Sublist.refl _))
      have hidsU : ∀ c ∈ used, c.id ∈ ids := fun c h => hids c (by rw [hsplit]; exact List.mem_append_left _ h)
      have hids2 : ∀ c ∈ decCores B used ++ rest, c.id ∈ ids := by
        intro c hcm
        rcases List.mem_append.mp hcm with hh | hh
        · obtain ⟨c', hc', hid⟩ := List.mem_map.mp (decCores_mem_id B used c hh)
          rw [← hid]; exact hidsU c' hc'
        · exact hids c (by rw [hsplit]; exact List.mem_append_right _ hh)
      have htot : totalPieces (decCores B used ++ rest) = totalPieces cores - B * (count * full : Nat) := by
        rw [totalPieces_append, totalPieces_decCores hcU, hlenU]
        conv => rhs; rw [hsplit, totalPieces_append]
        omega
      have hnn2 := totalPieces_nonneg hB hc2
      have hBf : 1 ≤ B * ((count * full : Nat) : Int) := by
        have h1 : 1 ≤ count * full := Nat.mul_le_mul hcount hf
        have : (1 : Int) * 1 ≤ B * ((count * full : Nat) : Int) := Int.mul_le_mul hB (by omega) (by omega) (by omega)
        omega
      obtain ⟨restPlans, hrest, hu, hr2⟩ := ih (decCores B used ++ rest) hc2 hn2 hids2 (by omega)
      rw [hrest]
      refine ⟨groupPlans B full count used ++ restPlans, rfl, ?_, ?_⟩
      · intro id
        rw [usedBy_append]
        have h1 := groupPlans_used B (by omega) full count used id
        have h2' := hu id
        rw [piecesOf_append, piecesOf_decCores hcU] at h2'
        conv => rhs; rw [hsplit, piecesOf_append]
        omega
      · intro p hp
        rcases List.mem_append.mp hp with hp | hp
        · refine groupPlans_round B full count ids used (by omega) ?_ hidsU p hp
          exact (List.nodup_append.mp hnSplit).1
        · exact hr2 p hp

/-- **`getFullCPUPlans` (both variants) on full cores with `full ≥ 1`**: terminates without panic,
    the plans together take from each core at most its pieces, and every plan is `full` distinct
    cores at `B` pieces each. -/
theorem getFullPlans_spec (B : Int) (hB : 1 ≤ B) (aff : Bool) (cores : List Core) (full : Int) (hf : 1 ≤ full)
    (hc : ∀ c ∈ cores, FullCore B c) (hn : (cores.map (·.id)).Nodup) :
    ∃ plans, getFullPlans B aff cores full = .ok plans ∧ (∀ id, usedBy plans id ≤ piecesOf cores id) ∧
      (∀ p ∈ plans, IsRound B full.toNat (cores.map (·.id)) p) := by
  have hnn := totalPieces_nonneg hB hc
  unfold getFullPlans
  cases aff with
  | true =>
    simp only [if_true]
    unfold getFullPlansAffinity
    rw [if_neg (by omega), if_neg (by omega)]
    exact affinityLoop_spec B hB full.toNat (by omega) _ _ cores hc hn (fun c h => List.mem_map_of_mem h) (by omega)
  | false =>
    simp only [Bool.false_eq_true, if_false]
    unfold getFullPlansHeap
    rw [if_neg (by omega)]
    have hperm : (GoHeap.init heapLess cores.toArray).toList.Perm cores := by
      simpa using GoHeap.init_perm heapLess cores.toArray
    obtain ⟨plans, hp, hu, hr⟩ := heapLoop_spec B hB full.toNat (by omega) (cores.map (·.id))
      ((totalPieces cores).toNat + 1) (GoHeap.init heapLess cores.toArray)
      (fun c h => hc c (hperm.mem_iff.mp h)) ((hperm.map _).nodup_iff.mpr hn)
      (fun c h => List.mem_map_of_mem (hperm.mem_iff.mp h)) (by rw [totalPieces_perm hperm]; omega)
    rw [hp]
    refine ⟨_, rfl, ?_, ?_⟩
    · intro id
      rw [usedBy_perm (GoSort.isort_perm _ plans), ← piecesOf_perm hperm]
      exact hu id
    · intro p hpm
      exact hr p ((GoSort.isort_perm _ plans).mem_iff.mp hpm)

end Eru.CpuMem
