import Eru.Strategy.ProofsC02
/-
C02 — Deploy succeeds exactly when the candidates can accommodate the request.

"If the candidate nodes can accommodate the request under the strategy's rule, a plan is returned
instead of an insufficient-resource error. Conversely, when they cannot, the request is refused and
nothing is planned" — for all candidate sets, counts, limits and strategies, where `total` equals the
saturating sum of the capacities.

Property theorems only; the machinery is in Eru/Strategy/ProofsC02.lean (error-case companions of the
loop specifications of C01).  The model is Eru/Strategy/Model.lean (`deploy` = strategy.Deploy);
`feasible` (Eru/Strategy/Spec.lean) is the decidable per-strategy reference rule the oracle evaluates:
AUTO — the capacities, each cut by the room the per-node limit leaves, add up to the count;
GLOBAL/DRAINED — the capacities add up to the count; EACH — the (effective) limit does not exceed the
number of candidates and at least max(limit, 1) candidates have room for `count` instances; FILL — the
effective limit is between 1 and the number of candidates and at least that many candidates can be
topped up to `count`.

`deploy` has exactly four kinds of answer for a known strategy and a positive count: a plan, one of the
two refusals (`errInsufficient`, `errInsufficientCapacity`), or FILL's `errAlreadyFilled`.
`plan_implies_feasible` + `already_filled_is_feasible` + `refusal_implies_infeasible` + `error_kinds` +
`no_crash` (which holds for every node limit, negative ones included) therefore give both directions of
the property: feasible ⇒ plan (or "already filled") — stated outright as `feasible_implies_plan` —,
infeasible ⇒ refusal, and a refusal carries no plan by the shape of `Outcome`.
`each_negative_limit_means_all` documents the repaired EACH: a non-positive limit means all nodes.
-/
namespace Eru.Props.C02
open Eru Eru.Strategy

/-- a produced plan certifies feasibility -/
theorem plan_implies_feasible (sname : String) (s : Strat) (count limit total : Int) (infos : List Info) (p : Plan)
    (hv : Valid infos) (hs : Strat.ofString? sname = some s)
    (h : deploy sname count limit infos total = .ok p) : feasible s infos count limit = true := by
  have hc := deploy_pos_of_ok h
  rw [deploy_known hs hc] at h
  cases s with
  | auto => exact auto_ok_feasible hv hc h
  | global => exact global_ok_feasible hv hc h
  | drained => exact drained_ok_feasible hv hc h
  | each => exact (each_cases infos count limit).1 p h
  | fill =>
    simp only at h
    split at h <;> try cases h
    rename_i hf
    exact (fill_cases infos count limit).1 _ hf

/-- a refusal (insufficient resource / capacity) happens only when the reference says infeasible -/
theorem refusal_implies_infeasible (sname : String) (s : Strat) (count limit total : Int) (infos : List Info) (e : String)
    (hv : Valid infos) (hs : Strat.ofString? sname = some s) (ht : total = satTotal infos)
    (hc1 : 1 ≤ count) (hc2 : count ≤ maxInt)
    (h : deploy sname count limit infos total = .err e)
    (he : e = errInsufficient ∨ e = errInsufficientCapacity) : feasible s infos count limit = false := by
  rw [deploy_known hs hc1] at h
  cases s with
  | auto => exact auto_err_infeasible hv hc1 hc2 ht h
  | global => exact global_err_infeasible hv hc1 hc2 ht h
  | drained => exact drained_err_infeasible hv hc1 hc2 ht h
  | each => exact ((each_cases infos count limit).2.1 e h).2
  | fill =>
    simp only at h
    split at h <;> try cases h
    · rcases he with he | he <;> exact absurd he (by decide)
    · rename_i hf
      exact ((fill_cases infos count limit).2.1 _ hf).2

/-- FILL's "already filled" answer is not a refusal: the request is feasible, there is just nothing to add -/
theorem already_filled_is_feasible (count limit total : Int) (infos : List Info) (hv : Valid infos)
    (h : deploy "FILL" count limit infos total = .err errAlreadyFilled) : feasible .fill infos count limit = true := by
  have _ := hv
  by_cases hc : 1 ≤ count
  · rw [deploy_known (s := .fill) rfl hc] at h
    simp only at h
    split at h <;> try cases h
    · rename_i hf
      exact (fill_cases infos count limit).1 _ hf
    · rename_i hf
      exact absurd ((fill_cases infos count limit).2.1 _ hf).1 (by decide)
  · simp only [deploy, Strat.ofString?, if_pos (show count ≤ 0 by omega)] at h
    exact absurd h (by decide)

/-- the only errors `deploy` produces for a known strategy and positive count are the three above -/
theorem error_kinds (sname : String) (s : Strat) (count limit total : Int) (infos : List Info) (e : String)
    (hs : Strat.ofString? sname = some s) (hc1 : 1 ≤ count) (h : deploy sname count limit infos total = .err e) :
    e = errInsufficient ∨ e = errInsufficientCapacity ∨ e = errAlreadyFilled := by
  rw [deploy_known hs hc1] at h
  cases s with
  | auto => exact Or.inl (auto_err_kind h)
  | global => exact Or.inl (global_err_kind h)
  | drained => exact Or.inl (drained_err_kind hc1 h)
  | each =>
    rcases ((each_cases infos count limit).2.1 e h).1 with h1 | h1
    · exact Or.inl h1
    · exact Or.inr (Or.inl h1)
  | fill =>
    simp only at h
    split at h <;> try cases h
    · exact Or.inr (Or.inr rfl)
    · rename_i hf
      exact Or.inl ((fill_cases infos count limit).2.1 _ hf).1

/-- nothing crashes or diverges, for any strategy name, count and node limit (negative limits included:
EACH reads a non-positive limit as "all nodes" since the fix, FILL answers `errInsufficient`) -/
theorem no_crash (sname : String) (count limit total : Int) (infos : List Info) (hv : Valid infos) :
    (∀ m, deploy sname count limit infos total ≠ .panic m) ∧ deploy sname count limit infos total ≠ .diverge := by
  cases hs : Strat.ofString? sname with
  | none => simp only [deploy, hs]; exact ⟨fun _ => nofun, nofun⟩
  | some s =>
    by_cases hc : 1 ≤ count
    · rw [deploy_known hs hc]
      cases s with
      | auto => exact auto_no_crash hv hc
      | global => exact global_no_crash hv hc
      | drained => exact drained_no_crash hc
      | each => exact (each_cases infos count limit).2.2
      | fill =>
        obtain ⟨_, _, h3, h4⟩ := fill_cases infos count limit
        simp only
        split
        · exact ⟨fun _ => nofun, nofun⟩
        · exact ⟨fun _ => nofun, nofun⟩
        · exact ⟨fun _ => nofun, nofun⟩
        · rename_i m hf; exact absurd hf (h3 m)
        · rename_i hf; exact absurd hf h4
    · simp only [deploy, hs, if_pos (show count ≤ 0 by omega)]
      exact ⟨fun _ => nofun, nofun⟩

/-- feasible ⇒ a plan is returned, or FILL's "already filled" (nothing to add); never a refusal, a panic
or non-termination — for every node limit, negative ones included -/
theorem feasible_implies_plan (sname : String) (s : Strat) (count limit total : Int) (infos : List Info)
    (hv : Valid infos) (hs : Strat.ofString? sname = some s) (ht : total = satTotal infos)
    (hc1 : 1 ≤ count) (hc2 : count ≤ maxInt) (hf : feasible s infos count limit = true) :
    (∃ p, deploy sname count limit infos total = .ok p) ∨
      deploy sname count limit infos total = .err errAlreadyFilled := by
  obtain ⟨hp, hd⟩ := no_crash sname count limit total infos hv
  cases h : deploy sname count limit infos total with
  | ok p => exact Or.inl ⟨p, rfl⟩
  | err e =>
    rcases error_kinds sname s count limit total infos e hs hc1 h with he | he | he
    · have := refusal_implies_infeasible sname s count limit total infos e hv hs ht hc1 hc2 h (Or.inl he)
      rw [hf] at this; cases this
    · have := refusal_implies_infeasible sname s count limit total infos e hv hs ht hc1 hc2 h (Or.inr he)
      rw [hf] at this; cases this
    · exact Or.inr (by rw [he])
  | panic m => exact absurd h (hp m)
  | diverge => exact absurd h hd

/-- the repaired EACH: every non-positive node limit behaves as limit 0, i.e. "all candidate nodes"
(before the fix a negative limit panicked at `infos[:limit]`) -/
theorem each_negative_limit_means_all (infos : List Info) (need limit : Int) (hl : limit ≤ 0) :
    average infos need limit = average infos need 0 := by
  unfold average averageOn
  simp only [if_pos hl, if_pos (Int.le_refl 0)]

/-- EACH with limit −1 on a concrete candidate list plans `count` instances on every node -/
example :
    let infos : List Info := [⟨"a", 0, 1, 2, 1⟩, ⟨"b", 0, 1, 3, 0⟩, ⟨"c", 5, 1, 2, 4⟩]
    ∃ p, deploy "EACH" 2 (-1) infos 7 = .ok p ∧ infos.all (fun i => p.get i.name == 2) = true ∧
      feasible .each infos 2 (-1) = true ∧ c01 .each infos 2 (-1) p = true := by
  exact ⟨[("b", 2), ("a", 2), ("c", 2)], by decide, by decide, by decide, by decide⟩

/-- non-vacuity: the hypotheses of `refusal_implies_infeasible` are met by concrete refusals (valid
candidates with ties and existing instances, `total` = their saturating capacity sum); the theorem's
conclusion agrees with evaluating the reference directly.  (AUTO/GLOBAL run on the well-founded heap
functions, which `decide` cannot unfold; their refusals are exercised by the correspondence runs.) -/
example :
    let infos : List Info := [⟨"a", 0, 1, 2, 1⟩, ⟨"b", 0, 1, 3, 0⟩, ⟨"c", 5, 1, 2, 4⟩]
    Valid infos ∧ (7 : Int) = satTotal infos ∧
    deploy "DRAINED" 8 0 infos 7 = .err errInsufficient ∧ feasible .drained infos 8 0 = false ∧
    deploy "EACH" 3 2 infos 7 = .err errInsufficient ∧ feasible .each infos 3 2 = false ∧
    deploy "EACH" 4 0 infos 7 = .err errInsufficientCapacity ∧ feasible .each infos 4 0 = false ∧
    deploy "FILL" 5 2 infos 7 = .err errInsufficient ∧ feasible .fill infos 5 2 = false ∧
    deploy "FILL" 5 1 infos 7 = .ok [("c", 1)] ∧
    deploy "FILL" 1 1 infos 7 = .err errAlreadyFilled ∧ feasible .fill infos 1 1 = true := by
  intro infos
  have hv : Valid infos := by
    refine ⟨by decide, ?_⟩
    intro i hi
    simp only [infos, List.mem_cons, List.mem_nil_iff, or_false] at hi
    rcases hi with rfl | rfl | rfl <;> simp [maxInt]
  have ht : (7 : Int) = satTotal infos := by decide
  have h1 : deploy "DRAINED" 8 0 infos 7 = .err errInsufficient := by decide
  have h2 : deploy "EACH" 3 2 infos 7 = .err errInsufficient := by decide
  have h3 : deploy "EACH" 4 0 infos 7 = .err errInsufficientCapacity := by decide
  have h4 : deploy "FILL" 5 2 infos 7 = .err errInsufficient := by decide
  have h5 : deploy "FILL" 1 1 infos 7 = .err errAlreadyFilled := by decide
  exact ⟨hv, ht,
    h1, refusal_implies_infeasible "DRAINED" .drained 8 0 7 infos _ hv rfl ht (by decide) (by decide) h1 (Or.inl rfl),
    h2, refusal_implies_infeasible "EACH" .each 3 2 7 infos _ hv rfl ht (by decide) (by decide) h2 (Or.inl rfl),
    h3, refusal_implies_infeasible "EACH" .each 4 0 7 infos _ hv rfl ht (by decide) (by decide) h3 (Or.inr rfl),
    h4, refusal_implies_infeasible "FILL" .fill 5 2 7 infos _ hv rfl ht (by decide) (by decide) h4 (Or.inl rfl),
    by decide, h5, already_filled_is_feasible 1 1 7 infos hv h5⟩

end Eru.Props.C02
