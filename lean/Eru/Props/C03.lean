import Eru.Strategy.ProofsC03Sort
/-
C03 — Each strategy balances the way it says it does.

"AUTO keeps the application's per-node instance counts as even as possible: a node that received an
instance never ends more than one above any node that could still have taken one. GLOBAL balances
resource usage the same way (a node that received an instance never ends above a node with spare
capacity by more than that node's per-instance share), DRAINED completely fills every
smaller-capacity node before using a larger one, EACH uses the nodes with the most capacity, and
FILL prefers nodes that already run more instances."

Property theorems only; the proofs' machinery is in Eru/Strategy/ProofsC03*.lean (heap-shape and
"balanced so far" loop invariants for AUTO/GLOBAL over the exact container/heap port, a
"full before / nothing after" loop specification for DRAINED, the sortedness of the insertion sort
for DRAINED/EACH/FILL).  The model is Eru/Strategy/Model.lean (`deploy` = strategy.Deploy); `c03`
and `canTake` (Eru/Strategy/Spec.lean) are the very predicates the oracle evaluates on the Go
implementation's plans.  Usage and rate are fixed-point integers (see Model.lean); GLOBAL — and only
GLOBAL (`c03_holds` asks for it under `s = .global` alone) — needs the per-instance rates to be non-negative.
-/
namespace Eru.Props.C03
open Eru Eru.Strategy

/-- **C03 (all strategies)**: every plan `deploy` produces satisfies the strategy's balancing rule.
Non-negative per-instance rates are required for GLOBAL only; the other four strategies never read them. -/
theorem c03_holds (sname : String) (s : Strat) (count limit total : Int) (infos : List Info) (p : Plan)
    (hv : Valid infos) (hr : s = .global → ∀ i ∈ infos, 0 ≤ i.rate) (hs : Strat.ofString? sname = some s)
    (h : deploy sname count limit infos total = .ok p) : c03 s infos count limit p = true := by
  unfold deploy at h
  rw [hs] at h
  simp only at h
  split at h
  · cases h
  · rename_i hc
    have hneed : 1 ≤ count := by omega
    cases s with
    | auto => exact (c03_auto_iff ..).mpr (auto_bal hv h)
    | global => exact (c03_global_iff ..).mpr (global_bal hv (hr rfl) h)
    | drained => exact (c03_drained_iff ..).mpr (drained_bal hv hneed h)
    | each => exact (c03_each_iff ..).mpr (each_bal hv hneed h)
    | fill =>
      simp only at h
      split at h <;> try cases h
      rename_i d hf
      exact (c03_fill_iff ..).mpr (fill_bal hv hf)

/-- AUTO: a node that received an instance never ends more than one instance above a node that could
still have taken one (spare capacity and, with a per-node limit, still below the limit) -/
theorem auto_even (count limit total : Int) (infos : List Info) (p : Plan)
    (hv : Valid infos) (h : deploy "AUTO" count limit infos total = .ok p) :
    ∀ i ∈ infos, ∀ j ∈ infos, 0 < p.get i.name → canTake infos limit p j = true →
      i.count + p.get i.name ≤ j.count + p.get j.name + 1 := by
  simp only [deploy, Strat.ofString?] at h
  split at h
  · cases h
  · exact auto_bal hv h

/-- GLOBAL: a node that received an instance never ends with a usage above what a node with spare
capacity would have after taking one more instance (rates ≥ 0) -/
theorem global_even (count limit total : Int) (infos : List Info) (p : Plan)
    (hv : Valid infos) (hr : ∀ i ∈ infos, 0 ≤ i.rate) (h : deploy "GLOBAL" count limit infos total = .ok p) :
    ∀ i ∈ infos, ∀ j ∈ infos, 0 < p.get i.name → p.get j.name < j.cap →
      i.usage + i.rate * p.get i.name ≤ j.usage + j.rate * p.get j.name + j.rate := by
  simp only [deploy, Strat.ofString?] at h
  split at h
  · cases h
  · exact global_bal hv hr h

/-- DRAINED: a node is used only after every node of strictly smaller capacity is filled completely -/
theorem drained_order (count limit total : Int) (infos : List Info) (p : Plan)
    (hv : Valid infos) (h : deploy "DRAINED" count limit infos total = .ok p) :
    ∀ i ∈ infos, ∀ j ∈ infos, i.cap < j.cap → 0 < p.get j.name → p.get i.name = i.cap := by
  simp only [deploy, Strat.ofString?] at h
  split at h
  · cases h
  · exact drained_bal hv (by omega) h

/-- EACH: no unused node has more capacity than a used one -/
theorem each_largest (count limit total : Int) (infos : List Info) (p : Plan)
    (hv : Valid infos) (h : deploy "EACH" count limit infos total = .ok p) :
    ∀ i ∈ infos, ∀ j ∈ infos, 0 < p.get i.name → p.get j.name = 0 → j.cap ≤ i.cap := by
  simp only [deploy, Strat.ofString?] at h
  split at h
  · cases h
  · exact each_bal hv (by omega) h

/-- FILL: a node that could have been topped up but was not selected never runs more instances than a
selected one -/
theorem fill_prefers_count (count limit total : Int) (infos : List Info) (p : Plan)
    (hv : Valid infos) (h : deploy "FILL" count limit infos total = .ok p) :
    ∀ i ∈ infos, ∀ j ∈ infos, p.has i.name = true → p.has j.name = false → j.cap ≥ count - j.count →
      j.count ≤ i.count := by
  simp only [deploy, Strat.ofString?] at h
  split at h
  · cases h
  · split at h <;> try cases h
    rename_i d hf
    exact fill_bal hv hf

/-- non-vacuity: a concrete valid candidate set with non-negative rates (capacity ties, count ties, an
unlimited node) on which plans are produced, the balancing clauses bite (DRAINED fills both small nodes
before the unlimited one, EACH skips a small node, FILL skips the emptiest node), and the produced plans
satisfy `c03`.  (The heap-based strategies are defined by well-founded recursion, which `decide` cannot
unfold; their non-vacuity is witnessed by the plans of every correspondence run.) -/
example : Valid [⟨"a", 0, 1, 2, 1⟩, ⟨"b", 0, 1, maxInt, 0⟩, ⟨"c", 5, 1, 2, 0⟩] ∧
    (∀ i ∈ [(⟨"a", 0, 1, 2, 1⟩ : Info), ⟨"b", 0, 1, maxInt, 0⟩, ⟨"c", 5, 1, 2, 0⟩], 0 ≤ i.rate) ∧
    deploy "DRAINED" 5 0 [⟨"a", 0, 1, 2, 1⟩, ⟨"b", 0, 1, maxInt, 0⟩, ⟨"c", 5, 1, 2, 0⟩] maxInt
      = .ok [("c", 2), ("a", 2), ("b", 1)] ∧
    c03 .drained [⟨"a", 0, 1, 2, 1⟩, ⟨"b", 0, 1, maxInt, 0⟩, ⟨"c", 5, 1, 2, 0⟩] 5 0
      [("c", 2), ("a", 2), ("b", 1)] = true ∧
    deploy "EACH" 2 2 [⟨"a", 0, 1, 2, 1⟩, ⟨"b", 0, 1, maxInt, 0⟩, ⟨"c", 5, 1, 2, 0⟩] maxInt
      = .ok [("b", 2), ("a", 2)] ∧
    c03 .each [⟨"a", 0, 1, 2, 1⟩, ⟨"b", 0, 1, maxInt, 0⟩, ⟨"c", 5, 1, 2, 0⟩] 2 2 [("b", 2), ("a", 2)] = true ∧
    deploy "FILL" 2 2 [⟨"a", 0, 1, 2, 1⟩, ⟨"b", 0, 1, maxInt, 0⟩, ⟨"c", 5, 1, 2, 0⟩] maxInt
      = .ok [("a", 1), ("b", 2)] ∧
    c03 .fill [⟨"a", 0, 1, 2, 1⟩, ⟨"b", 0, 1, maxInt, 0⟩, ⟨"c", 5, 1, 2, 0⟩] 2 2 [("a", 1), ("b", 2)] = true := by
  refine ⟨⟨by decide, ?_⟩, by decide, by decide, by decide, by decide, by decide, by decide, by decide⟩
  intro i hi
  simp only [List.mem_cons, List.mem_nil_iff, or_false] at hi
  rcases hi with rfl | rfl | rfl <;> simp [maxInt]

end Eru.Props.C03
