import Eru.Store.ProofsKV
/-
C23 — the etcd and Redis metadata stores behave identically; a failing create leaves the
store unchanged.

The two backends are tied to ONE reference model (`Eru.Store.step Flavour.ref`) by the
three-way correspondence check (harness/store): after every operation of a generated sequence,
each backend's result and raw key space must equal the reference's.  The theorems below are
about that reference: `BatchCreate` fails exactly when one of its keys exists
(`batchCreate_fails_iff`), on success it writes all requested keys and nothing else
(`create_success_writes_all`, `create_success_frame`), failing operations change nothing
(`create_atomic`, `failed_op_unchanged` — true by construction of the reference: whether the REAL
backends are atomic is established by the oracle on their read-backs, `C23:create-not-atomic`,
not by these theorems), and an implementation that simulates the reference in the etcd flavour
and one that simulates it in the Redis flavour return the same results on every sequence that
avoids the one recorded divergence (`backends_agree`, guard `Guarded`).
-/
namespace Eru.Props.C23
open Eru.Store

/-- Full statement of C23 for a pair of implementations of the `Store` interface: same result
    for every operation of every sequence (reads are operations, so "same observable metadata"
    is included), and failing creates change nothing observable afterwards. -/
structure Impl (σ : Type) where
  init : σ
  step : σ → Op → σ × Res

def Impl.run {σ} (I : Impl σ) : σ → List Op → List Res
  | _, [] => []
  | s, op :: t => (I.step s op).2 :: I.run (I.step s op).1 t

/-- step-by-step simulation of the reference by an implementation through a relation `R` -/
structure Refines {σ} (I : Impl σ) (fl : Flavour) (R : σ → St → Prop) : Prop where
  init : R I.init St.empty
  step : ∀ s t op, R s t → (I.step s op).2 = (Eru.Store.step fl t op).2 ∧
                            R (I.step s op).1 (Eru.Store.step fl t op).1

def refRun (fl : Flavour) : St → List Op → List Res
  | _, [] => []
  | s, op :: t => (Eru.Store.step fl s op).2 :: refRun fl (Eru.Store.step fl s op).1 t

theorem refines_run {σ} (I : Impl σ) (fl : Flavour) (R : σ → St → Prop) (h : Refines I fl R) :
    ∀ (ops : List Op) (s : σ) (t : St), R s t → I.run s ops = refRun fl t ops := by
  intro ops
  induction ops with
  | nil => intros; rfl
  | cons op rest ih =>
    intro s t hst
    have hs := h.step s t op hst
    simp only [Impl.run, refRun]
    rw [hs.1, ih _ _ hs.2]

/-- **refines_agree**: two implementations that both simulate the reference return the same
    result for every operation of every sequence. -/
theorem refines_agree {σ₁ σ₂} (I₁ : Impl σ₁) (I₂ : Impl σ₂) (fl : Flavour)
    (R₁ : σ₁ → St → Prop) (R₂ : σ₂ → St → Prop)
    (h₁ : Refines I₁ fl R₁) (h₂ : Refines I₂ fl R₂) (ops : List Op) :
    I₁.run I₁.init ops = I₂.run I₂.init ops := by
  rw [refines_run I₁ fl R₁ h₁ ops _ _ h₁.init, refines_run I₂ fl R₂ h₂ ops _ _ h₂.init]

/-- the reference itself, as an implementation -/
def refImpl (fl : Flavour) : Impl St := { init := St.empty, step := Eru.Store.step fl }

/-- the hypotheses of `refines_agree` are satisfiable: the reference refines itself -/
example : Refines (refImpl Flavour.ref) Flavour.ref (fun s t => s = t) :=
  { init := rfl, step := by intro s t op h; subst h; exact ⟨rfl, rfl⟩ }

/-- **failed_op_unchanged**: whatever the operation, if it returns an error the reference
    state is exactly what it was. -/
theorem failed_op_unchanged (fl : Flavour) (s : St) (op : Op) (e : Err)
    (h : (step fl s op).2 = .err e) : (step fl s op).1 = s := by
  cases op <;> simp only [step, liftSt, liftRd] at h ⊢ <;>
    first
    | rfl
    | (cases h)
    | (split at h <;> first | rfl | (simp at h))
    | (split <;> first | rfl | (simp_all))

/-- **create_atomic**: a create (`AddPod`, `AddNode`, `AddWorkload` without marker,
    `CreateProcessing`) that fails leaves the store unchanged. -/
theorem create_atomic (fl : Flavour) (s : St) (op : Op) (e : Err) (_hc : op.isCreate = true)
    (h : (step fl s op).2 = .err e) : (step fl s op).1 = s :=
  failed_op_unchanged fl s op e h

/-- a create fails with `keyExists` as soon as one of its keys is taken — here: the node info
    key exists (under another pod), the pod-index key and the certificate key do not — and
    nothing, in particular not the free keys, is written (the shape of `AddNode` for an existing
    node name under another pod) -/
def exNode (pod : String) : NodeRec :=
  { name := "n1", pod := pod, endpoint := "e", labels := [], test := true, bypass := false }
def exState : St :=
  { kv := [(.node "n1", { val := .node (exNode "p1"), exp := none }),
           (.nodePod "p1" "n1", { val := .node (exNode "p1"), exp := none })], now := 0 }
example :
    (match batchCreate exState [(.ca "n1", .str "CA"), (.node "n1", .node (exNode "p2")),
                                (.nodePod "p2" "n1", .node (exNode "p2"))] with
     | .error .keyExists => true | _ => false) = true := by decide

/-- on success `BatchCreate` wrote the requested keys: every requested key is present -/
theorem create_success_writes_all (s s' : St) (data : List (Key × Val))
    (h : batchCreate s data = .ok s') : ∀ k ∈ data.map (·.1), s'.kv.has k = true := by
  intro k hk
  unfold batchCreate at h
  split at h
  · cases h
  · cases h; exact KV.has_putAll_of_mem _ _ _ hk


/-- frame: a successful `BatchCreate` leaves every key it was not asked to write as it was -/
theorem create_success_frame (s s' : St) (data : List (Key × Val))
    (h : batchCreate s data = .ok s') (k : Key) (hk : k ∉ data.map (·.1)) :
    s'.kv.get k = s.kv.get k := by
  unfold batchCreate at h
  split at h
  · cases h
  · cases h; exact KV.get_putAll_not_mem _ _ _ hk

/-- `BatchCreate` fails exactly when one of the requested keys exists, and then with `keyExists` -/
theorem batchCreate_fails_iff (s : St) (data : List (Key × Val)) :
    (∃ k ∈ data.map (·.1), s.kv.has k = true) ↔ batchCreate s data = .error .keyExists := by
  unfold batchCreate
  constructor
  · intro ⟨k, hk, hh⟩
    have : data.any (fun kv => s.kv.has kv.1) = true := by
      simp only [List.mem_map] at hk
      obtain ⟨kv, hkv, rfl⟩ := hk
      exact List.any_eq_true.mpr ⟨kv, hkv, hh⟩
    simp [this]
  · intro h
    split at h
    · rename_i hany
      obtain ⟨kv, hkv, hh⟩ := List.any_eq_true.mp hany
      exact ⟨kv.1, List.mem_map_of_mem hkv, hh⟩
    · cases h

/-- the only place where the backends' flavours differ: a node status report with a TTL for a
    node that is not recorded -/
def Guarded1 (s : St) : Op → Prop
  | .setNodeStatus n _ ttl => ttl ≤ 0 ∨ s.kv.has (.node n) = true
  | _ => True

theorem flavour_step_agree (fl₁ fl₂ : Flavour) (s : St) (op : Op) (hg : Guarded1 s op) :
    step fl₁ s op = step fl₂ s op := by
  cases op <;> try rfl
  case setNodeStatus n p ttl =>
    simp only [Guarded1] at hg
    simp only [step, setNodeStatus]
    by_cases h0 : ttl = 0
    · simp [h0]
    · by_cases hneg : ttl < 0
      · simp [h0, hneg]
      · have hh : s.kv.has (.node n) = true := by
          rcases hg with h | h
          · omega
          · exact h
        simp [h0, hneg, bindStatus, hh]

/-- a sequence none of whose steps (taken from the reference's states) is such a report -/
def Guarded (fl : Flavour) : St → List Op → Prop
  | _, [] => True
  | s, op :: t => Guarded1 s op ∧ Guarded fl (step fl s op).1 t

theorem refRun_flavour_agree (fl₁ fl₂ : Flavour) (ops : List Op) :
    ∀ s, Guarded fl₁ s ops → refRun fl₁ s ops = refRun fl₂ s ops := by
  induction ops with
  | nil => intros; rfl
  | cons op t ih =>
    intro s hg
    have hs := flavour_step_agree fl₁ fl₂ s op hg.1
    simp only [refRun]
    rw [← hs, ih _ hg.2]

/-- **backends_agree**: an implementation that simulates the reference in the etcd flavour and
    one that simulates it in the Redis flavour return the same result for every operation of
    every sequence that does not report a TTL'd status for a missing node (the one recorded
    divergence, D17d). -/
theorem backends_agree {σ₁ σ₂} (I₁ : Impl σ₁) (I₂ : Impl σ₂)
    (R₁ : σ₁ → St → Prop) (R₂ : σ₂ → St → Prop)
    (h₁ : Refines I₁ Flavour.etcd R₁) (h₂ : Refines I₂ Flavour.redis R₂) (ops : List Op)
    (hg : Guarded Flavour.etcd St.empty ops) :
    I₁.run I₁.init ops = I₂.run I₂.init ops := by
  rw [refines_run I₁ _ R₁ h₁ ops _ _ h₁.init, refines_run I₂ _ R₂ h₂ ops _ _ h₂.init]
  exact refRun_flavour_agree _ _ ops _ hg

/-- instantiated with two different flavours: the two flavour models themselves -/
example (ops : List Op) (hg : Guarded Flavour.etcd St.empty ops) :
    (refImpl Flavour.etcd).run St.empty ops = (refImpl Flavour.redis).run St.empty ops :=
  backends_agree (refImpl .etcd) (refImpl .redis) (fun s t => s = t) (fun s t => s = t)
    { init := rfl, step := by intro s t op h; subst h; exact ⟨rfl, rfl⟩ }
    { init := rfl, step := by intro s t op h; subst h; exact ⟨rfl, rfl⟩ } ops hg

/-- and without the guard they do differ -/
example : (refImpl Flavour.etcd).run St.empty [.setNodeStatus "n1" "p1" 3, .getNodeStatus "n1"] ≠
          (refImpl Flavour.redis).run St.empty [.setNodeStatus "n1" "p1" 3, .getNodeStatus "n1"] := by
  simp [Impl.run, refImpl, step, setNodeStatus, bindStatus, Flavour.etcd, Flavour.redis, Flavour.ref,
    St.empty, KV.has, KV.get, liftSt, liftRd, getNodeStatus, KV.put]

end Eru.Props.C23
