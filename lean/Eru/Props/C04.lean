import Eru.CpuMem.ProofsNumaMem
import Eru.CpuMem.ProofsOrder
import Eru.CpuMem.ProofsRealloc
/-
C04 — allocations never overcommit a node's CPU cores or memory.
Property theorems only; helper lemmas live in Eru/CpuMem/Proofs*.lean.

`WF info` says the node's maps are Go maps (distinct keys); `order` is the order in which Go's map
iteration visits the NUMA nodes (distinct).  No validity of the node state is needed: cores whose
usage exceeds capacity are simply never planned.
-/
namespace Eru.Props.C04
open Eru Eru.CpuMem

/-- the node's CPU map and NUMA map are maps (distinct keys) -/
abbrev WF (info : NodeInfo) : Prop := info.cap.cpuMap.keys.Nodup ∧ (info.cap.numa.map (·.1)).Nodup

def exampleNode : NodeInfo :=
  { cap := { cpuMap := [("0",100),("1",100),("2",200),("3",150)], mem := 100, numaMem := [("n0",50),("n1",50)],
             numa := [("0","n0"),("1","n0"),("2","n1"),("3","n1")] },
    use := { cpuMap := [("0",30),("3",150)], mem := 40, numaMem := [("n0",10),("n1",0)] } }
example : WF exampleNode ∧ exampleNode.validate = true ∧ ["n1", "n0"].Nodup := by decide

/-- **plans_fit_cores**: for every node state, request, share base ≥ 1, max-share, affinity map and
    NUMA visiting order, the plans returned by `GetCPUPlans` together give no core more pieces than it
    has free (`Σ_plans plan[id] ≤ max(capacity[id] − usage[id], 0)`), and the decidable clause the
    oracle evaluates (`fitCores`: every planned core exists, gets a positive amount, sums fit) holds. -/
theorem plans_fit_cores (info : NodeInfo) (origin : CpuMap) (B maxShare : Int) (req : Req)
    (order : List String) (ps : List CpuPlan) (hB : 1 ≤ B) (hwf : WF info) (hord : order.Nodup)
    (h : getCPUPlans info origin B maxShare req order = .ok ps) :
    (∀ id, usedBy (ps.map (·.cpuMap)) id ≤ max (info.available.cpuMap.get id) 0) ∧
    fitCores info.available.cpuMap (ps.map (·.cpuMap)) = true := by
  obtain ⟨ps', h', hu, hok⟩ := getCPUPlans_spec info origin B hB maxShare req order hord hwf.2 hwf.1
  rw [h] at h'; cases h'
  refine ⟨fun id => (hu id).2, ?_⟩
  have hpn := piecesRequest_nonneg req B
  apply fitCores_of_bound _ _ B hB ((piecesRequest req B).tdiv B).toNat ((piecesRequest req B).tmod B)
  · rw [Int.tmod_eq_emod_of_nonneg hpn]; exact Int.emod_nonneg _ (by omega)
  · intro p hp
    obtain ⟨pl, hpl, rfl⟩ := List.mem_map.mp hp
    exact (hok pl hpl).1
  · exact fun id => (hu id).2

/-- **numa_plans_local** (cores): a plan tagged with NUMA node `n` uses only cores that the node's
    NUMA map assigns to `n`. -/
theorem numa_plans_local (info : NodeInfo) (origin : CpuMap) (B maxShare : Int) (req : Req)
    (order : List String) (ps : List CpuPlan) (hB : 1 ≤ B) (hwf : WF info) (hord : order.Nodup)
    (h : getCPUPlans info origin B maxShare req order = .ok ps) :
    ∀ pl ∈ ps, pl.numa ≠ "" → ∀ k ∈ pl.cpuMap.keys, numaOf info.cap.numa k = some pl.numa := by
  obtain ⟨ps', h', _, hok⟩ := getCPUPlans_spec info origin B hB maxShare req order hord hwf.2 hwf.1
  rw [h] at h'; cases h'
  exact fun pl hpl => (hok pl hpl).2

/-- **plans_fit_memory**: the plans returned by `GetCPUPlans` together need at most the node's free
    memory (`#plans · memRequest ≤ capacity.mem − usage.mem`, or there are no plans) — for all inputs. -/
theorem plans_fit_memory (info : NodeInfo) (origin : CpuMap) (B maxShare : Int) (req : Req)
    (order : List String) (ps : List CpuPlan)
    (h : getCPUPlans info origin B maxShare req order = .ok ps) :
    fitMemory info.available.mem req.mem ps.length = true :=
  getCPUPlans_fit_memory info origin B maxShare req order ps h

/-- **numa_plans_memory** (the memory half of `numa_plans_local`): for a positive memory request the
    plans tagged with NUMA node `n` together need at most `n`'s free NUMA memory
    (`#plans(n) · mem ≤ capacity.numaMem[n] − usage.numaMem[n]`), for every node state, through the
    running subtraction of the NUMA groups; with the cores half this is the decidable clause `numaLocal`. -/
theorem numa_plans_memory (info : NodeInfo) (origin : CpuMap) (B maxShare : Int) (req : Req)
    (order : List String) (ps : List CpuPlan) (hB : 1 ≤ B) (hwf : WF info) (hord : order.Nodup) (hm : 0 < req.mem)
    (h : getCPUPlans info origin B maxShare req order = .ok ps) :
    (∀ n, n ≠ "" → (cnt ps n : Int) * req.mem ≤ max (info.available.numaMem.get n) 0) ∧
    numaLocal info.cap.numa info.available.numaMem req.mem ps = true := by
  have hmem := fun n hn => getCPUPlans_numa_memory info origin B maxShare req order hord hm ps h n hn
  refine ⟨hmem, ?_⟩
  have hloc := numa_plans_local info origin B maxShare req order ps hB hwf hord h
  unfold numaLocal
  rw [List.all_eq_true]
  intro p hp
  by_cases he : p.numa = ""
  · simp [he]
  · have hne : p.numa.isEmpty = false := by
      cases hh : p.numa.isEmpty with
      | false => rfl
      | true => exact absurd (String.isEmpty_iff.mp hh) he
    simp only [hne, Bool.false_or, Bool.and_eq_true, List.all_eq_true, decide_eq_true_eq]
    refine ⟨?_, ?_⟩
    · intro kv hkv
      have := hloc p hp he kv.1 (List.mem_map_of_mem hkv)
      simp [this]
    · have hb := hmem p.numa he
      have hc : 1 ≤ cnt ps p.numa := by
        unfold cnt
        exact List.length_pos_of_mem (List.mem_filter.mpr ⟨hp, by simp⟩)
      have h1 : (1 : Int) * req.mem ≤ (cnt ps p.numa : Int) * req.mem :=
        Int.mul_le_mul_of_nonneg_right (by omega) (by omega)
      show ((List.filter (fun q => q.numa == p.numa) ps).length : Int) * req.mem ≤ _
      change (cnt ps p.numa : Int) * req.mem ≤ _
      omega

/-- the `numaLocal` clause for a zero memory request: it then only says that a NUMA-tagged plan is
    local and that its node's free NUMA memory is not negative — which `Validate` guarantees for the
    NUMA nodes of a valid node (`usage.numaMem[n] ≤ capacity.numaMem[n]`), taken here as `hnn`. -/
theorem numa_plans_local_zero_mem (info : NodeInfo) (origin : CpuMap) (B maxShare : Int) (req : Req)
    (order : List String) (ps : List CpuPlan) (hB : 1 ≤ B) (hwf : WF info) (hord : order.Nodup) (hm : req.mem = 0)
    (hnn : ∀ n, 0 ≤ info.available.numaMem.get n)
    (h : getCPUPlans info origin B maxShare req order = .ok ps) :
    numaLocal info.cap.numa info.available.numaMem req.mem ps = true := by
  have hloc := numa_plans_local info origin B maxShare req order ps hB hwf hord h
  unfold numaLocal
  rw [List.all_eq_true]
  intro p hp
  by_cases he : p.numa = ""
  · simp [he]
  · have hne : p.numa.isEmpty = false := by
      cases hh : p.numa.isEmpty with
      | false => rfl
      | true => exact absurd (String.isEmpty_iff.mp hh) he
    simp only [hne, Bool.false_or, Bool.and_eq_true, List.all_eq_true, decide_eq_true_eq, hm, Int.mul_zero]
    refine ⟨?_, hnn p.numa⟩
    intro kv hkv
    have := hloc p hp he kv.1 (List.mem_map_of_mem hkv)
    simp [this]

/-- **realloc_numa_memory** (re-allocation counterpart of `numa_plans_memory`): a bound `CalculateRealloc`
    that places the workload on NUMA node `n` with a positive memory request needs at most the free NUMA
    memory of `n` on the node with the old allocation given back — so a memory increase that only fits the
    node as a whole cannot leave the workload on its NUMA node (oracle clause `C04:numa:realloc`). -/
theorem realloc_numa_memory (info : NodeInfo) (B maxShare : Int) (origin w' : Workload) (raw : RawReq) (order : List String)
    (hord : order.Nodup) (hn : w'.numa ≠ "") (hm : 0 < w'.memReq)
    (h : calculateRealloc info B maxShare origin raw order = .ok w') :
    w'.memReq ≤ (givenBack info origin).available.numaMem.get w'.numa := by
  unfold calculateRealloc at h
  split at h
  · cases h
  · unfold reallocCore at h
    split at h
    · rename_i w hv
      split at h
      · split at h
        · cases h
        · rename_i p rest hg
          cases h
          simp only [] at hn hm ⊢
          have hb := getCPUPlans_numa_memory (givenBack info origin) origin.cpuMap B maxShare w.toReq order hord hm _ hg p.numa hn
          have hc : 1 ≤ cnt (p :: rest) p.numa := by
            unfold cnt; exact List.length_pos_of_mem (List.mem_filter.mpr ⟨List.mem_cons_self .., by simp⟩)
          have e : w.toReq.mem = w.memReq := rfl
          rw [e] at hb
          have h1 : (1 : Int) * w.memReq ≤ (cnt (p :: rest) p.numa : Int) * w.memReq :=
            Int.mul_le_mul_of_nonneg_right (by omega) (by omega)
          omega
        all_goals cases h
      · split at h
        · cases h; simp at hn
        all_goals cases h
    all_goals cases h

/-- **realloc_commit_validate** (re-allocation counterpart of `commit_validate`): on a valid node that
    is still valid with the workload's recorded resources given back (true whenever those resources are
    part of the node's usage), committing the delta resource of a successful bound `CalculateRealloc`
    (`usage += reallocDelta`, what the cluster does through `SetNodeResourceUsage`) leaves a node that
    `Validate` accepts — CPU clause and NUMA-memory clause (oracle clause `C04:commit:realloc`). -/
theorem realloc_commit_validate (info : NodeInfo) (B maxShare : Int) (origin : Workload) (raw : RawReq)
    (order : List String) (w' : Workload) (hB : 1 ≤ B) (hwf : WF info) (huk : info.use.cpuMap.keys.Nodup)
    (hcm : info.cap.numaMem.keys.Nodup) (hum : info.use.numaMem.keys.Nodup)
    (hok : origin.cpuMap.keys.Nodup) (honm : origin.numaMem.keys.Nodup) (hord : order.Nodup)
    (hvgb : (givenBack info origin).validate = true) (hbind : (reallocReq origin raw).bind = true)
    (h : calculateRealloc info B maxShare origin raw order = .ok w') :
    ∃ info'', commitRealloc info origin w' = .ok info'' ∧ info''.validate = true :=
  Eru.CpuMem.realloc_commit_validate info B hB maxShare origin raw order w' hwf.1 hwf.2 huk hcm hum hok honm hord hvgb hbind h

/-- satisfiable: the workload on core 0 of NUMA node n0 grows by 5 memory and stays -/
example : (match calculateRealloc exampleNode 100 (-1)
      { cpuReq := 500, cpuLim := 500, memReq := 10, memLim := 10, cpuMap := [("3", 50)], numa := "n1", numaMem := [("n1", 0)] }
      { bind := false, keepBind := true, cpuReq := 0, cpuLim := 0, memReq := 5, memLim := 5 } ["n1", "n0"] with
    | .ok w' => (commitRealloc exampleNode { cpuReq := 500, cpuLim := 500, memReq := 10, memLim := 10, cpuMap := [("3", 50)], numa := "n1", numaMem := [("n1", 0)] } w').isOk
    | _ => false) = true := by decide

/-- common part of the two commit theorems for bound deployments -/
theorem commit_bound (info : NodeInfo) (B maxShare count : Int) (raw w : RawReq) (order : List String) (ws : List Workload)
    (hB : 1 ≤ B) (hwf : WF info) (huk : info.use.cpuMap.keys.Nodup)
    (hcm : info.cap.numaMem.keys.Nodup) (hum : info.use.numaMem.keys.Nodup) (hord : order.Nodup)
    (hval : info.validate = true) (hraw : raw.validate = .ok w) (hbind : w.bind = true)
    (h : calculateDeploy info B maxShare count raw order = .ok ws) :
    ∃ info', commit info ws = .ok info' ∧ (memValid info = true → memValid info' = true) := by
  have hmem : 0 ≤ w.memReq := validate_memReq_nonneg raw w hraw
  unfold calculateDeploy at h
  rw [hraw] at h
  simp only [hbind, if_true] at h
  unfold allocByCPU at h
  split at h
  · rename_i plans hpl
    split at h
    · cases h
    · split at h
      · cases h
      · cases h
        have hV3 := commit_numa_clause info [] B maxShare w.toReq order plans count.toNat
          ((plans.take count.toNat).map fun p =>
            { cpuReq := w.cpuReq, cpuLim := w.cpuLim, memReq := w.memReq, memLim := w.memLim, cpuMap := p.cpuMap, numa := p.numa,
              numaMem := if p.numa.isEmpty then [] else [(p.numa, w.memReq)] })
          hord hval hcm hum hmem hpl (by rw [List.map_map]; rfl)
        apply commit_valid_core info [] B maxShare w.toReq order plans count.toNat _ hB hwf.1 huk hord hval hwf.2 hV3 hmem hpl
        · rw [List.map_map, ← List.map_take]; rfl
        · intro x hx
          obtain ⟨p, _, rfl⟩ := List.mem_map.mp hx
          rfl
  all_goals cases h

/-- **commit_validate**: for a valid node (in the plugin's sense — its memory usage may even exceed
    its capacity), with or without NUMA topology, a bound deployment computed by `CalculateDeploy`
    (any count = any prefix of the plans) and committed with `SetNodeResourceUsage` leaves a node state
    that `Validate` accepts (CPU clause and NUMA-memory clause).  Maps are maps (distinct keys). -/
theorem commit_validate (info : NodeInfo) (B maxShare count : Int) (raw w : RawReq) (order : List String) (ws : List Workload)
    (hB : 1 ≤ B) (hwf : WF info) (huk : info.use.cpuMap.keys.Nodup)
    (hcm : info.cap.numaMem.keys.Nodup) (hum : info.use.numaMem.keys.Nodup) (hord : order.Nodup)
    (hval : info.validate = true) (hraw : raw.validate = .ok w) (hbind : w.bind = true)
    (h : calculateDeploy info B maxShare count raw order = .ok ws) :
    ∃ info', commit info ws = .ok info' ∧ info'.validate = true := by
  obtain ⟨info', hc, _⟩ := commit_bound info B maxShare count raw w order ws hB hwf huk hcm hum hord hval hraw hbind h
  refine ⟨info', hc, ?_⟩
  unfold commit at hc
  simp only [] at hc
  split at hc
  · rename_i hv; cases hc; exact hv
  · cases hc

/-- **commit_memValid**: if moreover the node's memory usage fits its capacity (C10's memory clause,
    which `Validate` does not check), it still fits after the commit. -/
theorem commit_memValid (info : NodeInfo) (B maxShare count : Int) (raw w : RawReq) (order : List String) (ws : List Workload)
    (hB : 1 ≤ B) (hwf : WF info) (huk : info.use.cpuMap.keys.Nodup)
    (hcm : info.cap.numaMem.keys.Nodup) (hum : info.use.numaMem.keys.Nodup) (hord : order.Nodup)
    (hval : info.validate = true) (hmv : memValid info = true) (hraw : raw.validate = .ok w) (hbind : w.bind = true)
    (h : calculateDeploy info B maxShare count raw order = .ok ws) :
    ∃ info', commit info ws = .ok info' ∧ memValid info' = true := by
  obtain ⟨info', hc, hm⟩ := commit_bound info B maxShare count raw w order ws hB hwf huk hcm hum hord hval hraw hbind h
  exact ⟨info', hc, hm hmv⟩

/-- **alloc_by_memory_fits** (the memory-only path `doAllocByMemory`): the instances of an unbound
    deployment together fit the node's free memory — for every node state and count. -/
theorem alloc_by_memory_fits (info : NodeInfo) (count : Int) (w : RawReq) (ws : List Workload)
    (h : allocByMemory info count w = .ok ws) :
    fitMemory info.available.mem w.memReq ws.length = true := by
  unfold allocByMemory at h
  split at h
  · cases h
  · split at h
    · cases h
    · rename_i hnot
      cases h
      unfold fitMemory
      simp only [List.length_replicate, Bool.or_eq_true, beq_iff_eq, decide_eq_true_eq]
      rcases Int.lt_or_le 0 w.memReq with hm | hm
      · rcases Int.lt_or_le 0 count with hc | hc
        · right
          have hle : count ≤ info.available.mem.tdiv w.memReq := by
            rcases Int.lt_or_le (info.available.mem.tdiv w.memReq) count with hlt | hge
            · exact absurd ⟨hm, hlt⟩ hnot
            · exact hge
          have key := tdiv_mul_le_max info.available.mem w.memReq hm
          have h1 : count * w.memReq ≤ max (info.available.mem.tdiv w.memReq) 0 * w.memReq :=
            Int.mul_le_mul_of_nonneg_right (by omega) (by omega)
          have h2 : 1 * w.memReq ≤ count * w.memReq := Int.mul_le_mul_of_nonneg_right (by omega) (by omega)
          rw [Int.toNat_of_nonneg (by omega)]
          omega
        · left; left; omega
      · left; right; exact hm

/-- **commit_valid_unbound**: an unbound deployment (`doAllocByMemory`) committed to a valid node leaves
    a node that `Validate` accepts (no CPU map or NUMA memory changes), and fitting memory still fits. -/
theorem commit_valid_unbound (info : NodeInfo) (B maxShare count : Int) (raw w : RawReq) (order : List String) (ws : List Workload)
    (hval : info.validate = true) (hraw : raw.validate = .ok w) (hbind : w.bind = false)
    (h : calculateDeploy info B maxShare count raw order = .ok ws) :
    ∃ info', commit info ws = .ok info' ∧ (memValid info = true → memValid info' = true) := by
  have hmem : 0 ≤ w.memReq := validate_memReq_nonneg raw w hraw
  have hfit : allocByMemory info count w = .ok ws := by
    unfold calculateDeploy at h
    rw [hraw] at h
    simpa [hbind] using h
  have hf := alloc_by_memory_fits info count w ws hfit
  unfold allocByMemory at hfit
  split at hfit
  · cases hfit
  · split at hfit
    · cases hfit
    · cases hfit
      obtain ⟨c1, c2, c3⟩ := commitUsage_unbound info.use count.toNat
        { cpuReq := w.cpuReq, cpuLim := w.cpuLim, memReq := w.memReq, memLim := w.memLim } rfl rfl
      have hv' : ({ info with use := commitUsage info.use (List.replicate count.toNat
          { cpuReq := w.cpuReq, cpuLim := w.cpuLim, memReq := w.memReq, memLim := w.memLim }) } : NodeInfo).validate = true := by
        unfold NodeInfo.validate NodeInfo.validateCpu NodeInfo.validateNuma at hval ⊢
        simp only [c1, c2]
        exact hval
      unfold commit
      rw [if_pos hv']
      refine ⟨_, rfl, ?_⟩
      intro hmv
      unfold memValid at hmv ⊢
      simp only [decide_eq_true_eq] at hmv ⊢
      rw [c3]
      unfold fitMemory at hf
      simp only [List.length_replicate, Bool.or_eq_true, beq_iff_eq, decide_eq_true_eq] at hf
      have hav : info.available.mem = info.cap.mem - info.use.mem := rfl
      simp only []
      rcases hf with (h0 | hle) | hfit
      · rw [h0]; simp; exact hmv
      · have : w.memReq = 0 := by omega
        rw [this]; simp; exact hmv
      · omega

/-- the hypotheses of `commit_validate`/`commit_memValid` are satisfiable on a NUMA node: two NUMA-local instances of
    0.5 core / 10 memory are committed to `exampleNode` -/
example : (match calculateDeploy exampleNode 100 (-1) 2 { bind := true, cpuReq := 500, cpuLim := 500, memReq := 10, memLim := 10 } ["n1", "n0"] with
    | .ok ws => (match commit exampleNode ws with | .ok i => i.validate && memValid i | _ => false) | _ => false) = true := by decide

/-- **getCPUPlans_length_order_indep**: the number of plans `GetCPUPlans` returns does not depend on the
    order in which Go's map iteration visits the NUMA nodes (any two orders that are permutations of
    each other, without repetition; any node state with map-like maps, request, max-share, affinity map).
    Capacity (`GetNodesDeployCapacity`) and admission (`CalculateDeploy`) are separate Go calls with
    independent map orders; this is what lets other groups treat the scheduler's plan count as a function
    of the node state.  Proof (`CpuMem/ProofsOrder.lean`): every group plans on the initial map, so group
    `n` can take `a_n = min(#CPU plans, ⌊free NUMA mem_n / mem⌋)` plans whatever the order; the groups
    get `min(a_n, K_remaining)` each, together `min(Σ a_n, K)`; if memory binds it is used up and the
    cross-NUMA phase is empty for every order, otherwise every group gets exactly its `a_n`-prefix, the
    running subtractions commute (extensional equality of the leftover map with unchanged key list) and the
    cross-NUMA phase is identical. -/
theorem getCPUPlans_length_order_indep (info : NodeInfo) (origin : CpuMap) (B maxShare : Int) (req : Req)
    (o1 o2 : List String) (ps1 ps2 : List CpuPlan) (hB : 1 ≤ B) (hwf : WF info) (hperm : o1.Perm o2) (hord : o1.Nodup)
    (h1 : getCPUPlans info origin B maxShare req o1 = .ok ps1) (h2 : getCPUPlans info origin B maxShare req o2 = .ok ps2) :
    ps1.length = ps2.length :=
  Eru.CpuMem.getCPUPlans_length_order_indep info origin B hB maxShare req o1 o2 hperm hord hwf.2 hwf.1 ps1 ps2 h1 h2

/-- reported capacity does not depend on the NUMA visiting order -/
theorem capacity_order_indep (info : NodeInfo) (B maxShare : Int) (raw : RawReq) (o1 o2 : List String)
    (hB : 1 ≤ B) (hwf : WF info) (hperm : o1.Perm o2) (hord : o1.Nodup) :
    nodeDeployCapacity info B maxShare raw o1 = nodeDeployCapacity info B maxShare raw o2 := by
  unfold nodeDeployCapacity
  split
  · rename_i w _
    split
    · rfl
    · obtain ⟨ps1, h1, _⟩ := getCPUPlans_spec info [] B hB maxShare w.toReq o1 hord hwf.2 hwf.1
      obtain ⟨ps2, h2, _⟩ := getCPUPlans_spec info [] B hB maxShare w.toReq o2 (hperm.nodup_iff.mp hord) hwf.2 hwf.1
      rw [h1, h2]
      simp only [Outcome.ok.injEq]
      exact_mod_cast getCPUPlans_length_order_indep info [] B maxShare w.toReq o1 o2 ps1 ps2 hB hwf hperm hord h1 h2
  all_goals rfl

/-- whether a bound deployment of `count` instances is admitted does not depend on the NUMA visiting
    order either (the chosen plans may differ, the verdict does not) -/
theorem admission_order_indep (info : NodeInfo) (B maxShare count : Int) (raw : RawReq) (o1 o2 : List String)
    (hB : 1 ≤ B) (hwf : WF info) (hperm : o1.Perm o2) (hord : o1.Nodup) :
    (calculateDeploy info B maxShare count raw o1).isOk = (calculateDeploy info B maxShare count raw o2).isOk := by
  unfold calculateDeploy
  split
  · rename_i w _
    split
    · unfold allocByCPU
      obtain ⟨ps1, h1, _⟩ := getCPUPlans_spec info [] B hB maxShare w.toReq o1 hord hwf.2 hwf.1
      obtain ⟨ps2, h2, _⟩ := getCPUPlans_spec info [] B hB maxShare w.toReq o2 (hperm.nodup_iff.mp hord) hwf.2 hwf.1
      have hl := getCPUPlans_length_order_indep info [] B maxShare w.toReq o1 o2 ps1 ps2 hB hwf hperm hord h1 h2
      rw [h1, h2]
      simp only [hl]
      split
      · rfl
      · split <;> rfl
    · rfl
  all_goals rfl

example : ["n0", "n1"].Perm ["n1", "n0"] ∧ ["n0", "n1"].Nodup := by decide

/-- the D6 witness (node memory 100 with 90 used, NUMA memory 50/50, request 0.5 core / 20 memory;
    fragment requests avoid the heap, whose well-founded `up`/`down` the kernel does not unfold):
    the repaired scheduler returns no plan instead of overcommitting memory -/
example : getCPUPlans
    { cap := { cpuMap := [("0",100),("1",100),("2",100),("3",100)], mem := 100, numaMem := [("n0",50),("n1",50)],
               numa := [("0","n0"),("1","n0"),("2","n1"),("3","n1")] },
      use := { cpuMap := [], mem := 90, numaMem := [("n0",0),("n1",0)] } }
    [] 100 (-1) { bind := true, cpuNum := 500, mem := 20 } ["n0", "n1"] = .ok [] := by decide

/-- a non-trivial instance: 0.5 core / 10 memory on `exampleNode` yields NUMA-local and cross plans -/
example : (match getCPUPlans exampleNode [] 100 (-1) { bind := true, cpuNum := 500, mem := 10 } ["n1", "n0"] with
    | .ok ps => ps.length | _ => 0) = 6 := by decide

end Eru.Props.C04
