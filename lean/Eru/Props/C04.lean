import Eru.CpuMem.ProofsNumaMem
/-
C04 — allocations never overcommit a node's CPU cores or memory.
Property theorems only; helper lemmas live in Eru/CpuMem/Proofs*.lean.

`WF info` says the node's maps are Go maps (distinct keys); `order` is the order in which Go's map
iteration visits the NUMA nodes (distinct).  No validity of the node state is needed: cores whose
usage exceeds capacity are simply never planned.
-/
namespace Eru.Props.C04
open Eru Eru.CpuMem

/-- the node's CPU map and NUMA map are maps (distinct keys) -/
abbrev WF (info : NodeInfo) : Prop := info.cap.cpuMap.keys.Nodup ∧ (info.cap.numa.map (·.1)).Nodup

def exampleNode : NodeInfo :=
  { cap := { cpuMap := [("0",100),("1",100),("2",200),("3",150)], mem := 100, numaMem := [("n0",50),("n1",50)],
             numa := [("0","n0"),("1","n0"),("2","n1"),("3","n1")] },
    use := { cpuMap := [("0",30),("3",150)], mem := 40, numaMem := [("n0",10),("n1",0)] } }
example : WF exampleNode ∧ exampleNode.validate = true ∧ ["n1", "n0"].Nodup := by decide

/-- **plans_fit_cores**: for every node state, request, share base ≥ 1, max-share, affinity map and
    NUMA visiting order, the plans returned by `GetCPUPlans` together give no core more pieces than it
    has free (`Σ_plans plan[id] ≤ max(capacity[id] − usage[id], 0)`), and the decidable clause the
    oracle evaluates (`fitCores`: every planned core exists, gets a positive amount, sums fit) holds. -/
theorem plans_fit_cores (info : NodeInfo) (origin : CpuMap) (B maxShare : Int) (req : Req)
    (order : List String) (ps : List CpuPlan) (hB : 1 ≤ B) (hwf : WF info) (hord : order.Nodup)
    (h : getCPUPlans info origin B maxShare req order = .ok ps) :
    (∀ id, usedBy (ps.map (·.cpuMap)) id ≤ max (info.available.cpuMap.get id) 0) ∧
    fitCores info.available.cpuMap (ps.map (·.cpuMap)) = true := by
  obtain ⟨ps', h', hu, hok⟩ := getCPUPlans_spec info origin B hB maxShare req order hord hwf.2 hwf.1
  rw [h] at h'; cases h'
  refine ⟨fun id => (hu id).2, ?_⟩
  have hpn := piecesRequest_nonneg req B
  apply fitCores_of_bound _ _ B hB ((piecesRequest req B).tdiv B).toNat ((piecesRequest req B).tmod B)
  · rw [Int.tmod_eq_emod_of_nonneg hpn]; exact Int.emod_nonneg _ (by omega)
  · intro p hp
    obtain ⟨pl, hpl, rfl⟩ := List.mem_map.mp hp
    exact (hok pl hpl).1
  · exact fun id => (hu id).2

/-- **numa_plans_local** (cores): a plan tagged with NUMA node `n` uses only cores that the node's
    NUMA map assigns to `n`. -/
theorem numa_plans_local (info : NodeInfo) (origin : CpuMap) (B maxShare : Int) (req : Req)
    (order : List String) (ps : List CpuPlan) (hB : 1 ≤ B) (hwf : WF info) (hord : order.Nodup)
    (h : getCPUPlans info origin B maxShare req order = .ok ps) :
    ∀ pl ∈ ps, pl.numa ≠ "" → ∀ k ∈ pl.cpuMap.keys, numaOf info.cap.numa k = some pl.numa := by
  obtain ⟨ps', h', _, hok⟩ := getCPUPlans_spec info origin B hB maxShare req order hord hwf.2 hwf.1
  rw [h] at h'; cases h'
  exact fun pl hpl => (hok pl hpl).2

/-- **plans_fit_memory**: the plans returned by `GetCPUPlans` together need at most the node's free
    memory (`#plans · memRequest ≤ capacity.mem − usage.mem`, or there are no plans) — for all inputs. -/
theorem plans_fit_memory (info : NodeInfo) (origin : CpuMap) (B maxShare : Int) (req : Req)
    (order : List String) (ps : List CpuPlan)
    (h : getCPUPlans info origin B maxShare req order = .ok ps) :
    fitMemory info.available.mem req.mem ps.length = true :=
  getCPUPlans_fit_memory info origin B maxShare req order ps h

/-- **numa_plans_memory** (the memory half of `numa_plans_local`): for a positive memory request the
    plans tagged with NUMA node `n` together need at most `n`'s free NUMA memory
    (`#plans(n) · mem ≤ capacity.numaMem[n] − usage.numaMem[n]`), for every node state, through the
    running subtraction of the NUMA groups; with the cores half this is the decidable clause `numaLocal`. -/
theorem numa_plans_memory (info : NodeInfo) (origin : CpuMap) (B maxShare : Int) (req : Req)
    (order : List String) (ps : List CpuPlan) (hB : 1 ≤ B) (hwf : WF info) (hord : order.Nodup) (hm : 0 < req.mem)
    (h : getCPUPlans info origin B maxShare req order = .ok ps) :
    (∀ n, n ≠ "" → (cnt ps n : Int) * req.mem ≤ max (info.available.numaMem.get n) 0) ∧
    numaLocal info.cap.numa info.available.numaMem req.mem ps = true := by
  have hmem := fun n hn => getCPUPlans_numa_memory info origin B maxShare req order hord hm ps h n hn
  refine ⟨hmem, ?_⟩
  have hloc := numa_plans_local info origin B maxShare req order ps hB hwf hord h
  unfold numaLocal
  rw [List.all_eq_true]
  intro p hp
  by_cases he : p.numa = ""
  · simp [he]
  · have hne : p.numa.isEmpty = false := by
      cases hh : p.numa.isEmpty with
      | false => rfl
      | true => exact absurd (String.isEmpty_iff.mp hh) he
    simp only [hne, Bool.false_or, Bool.and_eq_true, List.all_eq_true, decide_eq_true_eq]
    refine ⟨?_, ?_⟩
    · intro kv hkv
      have := hloc p hp he kv.1 (List.mem_map_of_mem hkv)
      simp [this]
    · have hb := hmem p.numa he
      have hc : 1 ≤ cnt ps p.numa := by
        unfold cnt
        exact List.length_pos_of_mem (List.mem_filter.mpr ⟨hp, by simp⟩)
      have h1 : (1 : Int) * req.mem ≤ (cnt ps p.numa : Int) * req.mem :=
        Int.mul_le_mul_of_nonneg_right (by omega) (by omega)
      show ((List.filter (fun q => q.numa == p.numa) ps).length : Int) * req.mem ≤ _
      change (cnt ps p.numa : Int) * req.mem ≤ _
      omega

/-- **commit_valid**: for a valid node whose memory usage fits — with or without NUMA topology — a
    bound deployment computed by `CalculateDeploy` and committed with `SetNodeResourceUsage` leaves a
    node state that `Validate` accepts (CPU clause and NUMA-memory clause) and whose memory usage still
    fits (C10's memory clause, which `Validate` itself does not check).  The usage and NUMA-memory maps
    are maps (distinct keys). -/
theorem commit_valid (info : NodeInfo) (B maxShare count : Int) (raw w : RawReq) (order : List String) (ws : List Workload)
    (hB : 1 ≤ B) (hwf : WF info) (huk : info.use.cpuMap.keys.Nodup)
    (hcm : info.cap.numaMem.keys.Nodup) (hum : info.use.numaMem.keys.Nodup) (hord : order.Nodup)
    (hval : info.validate = true) (hmv : memValid info = true)
    (hraw : raw.validate = .ok w) (hbind : w.bind = true) (hmem : 0 ≤ w.memReq)
    (h : calculateDeploy info B maxShare count raw order = .ok ws) :
    ∃ info', commit info ws = .ok info' ∧ memValid info' = true := by
  unfold calculateDeploy at h
  rw [hraw] at h
  simp only [hbind, if_true] at h
  unfold allocByCPU at h
  split at h
  · rename_i plans hpl
    split at h
    · cases h
    · split at h
      · cases h
      · cases h
        have hV3 := commit_numa_clause info [] B maxShare w.toReq order plans count.toNat
          ((plans.take count.toNat).map fun p =>
            { cpuReq := w.cpuReq, cpuLim := w.cpuLim, memReq := w.memReq, memLim := w.memLim, cpuMap := p.cpuMap, numa := p.numa,
              numaMem := if p.numa.isEmpty then [] else [(p.numa, w.memReq)] })
          hord hval hcm hum hmem hpl (by rw [List.map_map]; rfl)
        apply commit_valid_core info [] B maxShare w.toReq order plans count.toNat _ hB hwf.1 huk hord hval hwf.2 hV3 hmem hmv hpl
        · rw [List.map_map, ← List.map_take]; rfl
        · intro x hx
          obtain ⟨p, _, rfl⟩ := List.mem_map.mp hx
          rfl
  all_goals cases h

/-- the hypotheses of `commit_valid` are satisfiable on a NUMA node: two NUMA-local instances of
    0.5 core / 10 memory are committed to `exampleNode` -/
example : (match calculateDeploy exampleNode 100 (-1) 2 { bind := true, cpuReq := 500, cpuLim := 500, memReq := 10, memLim := 10 } ["n1", "n0"] with
    | .ok ws => (match commit exampleNode ws with | .ok i => i.validate && memValid i | _ => false) | _ => false) = true := by decide

/-- the D6 witness (node memory 100 with 90 used, NUMA memory 50/50, request 0.5 core / 20 memory;
    fragment requests avoid the heap, whose well-founded `up`/`down` the kernel does not unfold):
    the repaired scheduler returns no plan instead of overcommitting memory -/
example : getCPUPlans
    { cap := { cpuMap := [("0",100),("1",100),("2",100),("3",100)], mem := 100, numaMem := [("n0",50),("n1",50)],
               numa := [("0","n0"),("1","n0"),("2","n1"),("3","n1")] },
      use := { cpuMap := [], mem := 90, numaMem := [("n0",0),("n1",0)] } }
    [] 100 (-1) { bind := true, cpuNum := 500, mem := 20 } ["n0", "n1"] = .ok [] := by decide

/-- a non-trivial instance: 0.5 core / 10 memory on `exampleNode` yields NUMA-local and cross plans -/
example : (match getCPUPlans exampleNode [] 100 (-1) { bind := true, cpuNum := 500, mem := 10 } ["n1", "n0"] with
    | .ok ps => ps.length | _ => 0) = 6 := by decide

end Eru.Props.C04
