import Eru.CpuMem.ProofsMem
/-
C04 — allocations never overcommit a node's CPU cores or memory.
Property theorems only; helper lemmas live in Eru/CpuMem/Proofs*.lean.
-/
namespace Eru.Props.C04
open Eru Eru.CpuMem

/-- **plans_fit_memory**: for every node state, request, share base, max-share, affinity map and
    NUMA visiting order, the plans returned by `GetCPUPlans` together need at most the node's free
    memory (`#plans · memRequest ≤ capacity.mem − usage.mem`, or there are no plans). -/
theorem plans_fit_memory (info : NodeInfo) (origin : CpuMap) (B maxShare : Int) (req : Req)
    (order : List String) (ps : List CpuPlan)
    (h : getCPUPlans info origin B maxShare req order = .ok ps) :
    fitMemory info.available.mem req.mem ps.length = true :=
  getCPUPlans_fit_memory info origin B maxShare req order ps h

/-- the D6 witness (node memory 100 with 90 used, NUMA memory 50/50, request 0.5 core / 20 memory; fragment requests avoid the heap, whose
    well-founded `up`/`down` the kernel does not unfold):
    the repaired scheduler returns no plan instead of four -/
example : getCPUPlans
    { cap := { cpuMap := [("0",100),("1",100),("2",100),("3",100)], mem := 100, numaMem := [("n0",50),("n1",50)],
               numa := [("0","n0"),("1","n0"),("2","n1"),("3","n1")] },
      use := { cpuMap := [], mem := 90, numaMem := [("n0",0),("n1",0)] } }
    [] 100 (-1) { bind := true, cpuNum := 500, mem := 20 } ["n0", "n1"] = .ok [] := by decide

end Eru.Props.C04
