import Eru.Rpc.RetryBudget
/-
C36 — client watch streams retry transparently.

Quantifier: every server script (list of streams, each "k messages, then EOF / error / hang"),
every retry budget `max`, every request payload, every cancellation point.  Message and request
types are arbitrary.  Model and assumptions: Eru/Rpc/Retry.lean.
-/
namespace Eru.Props.C36
open Eru.Rpc.Retry

variable {μ ρ : Type}

/-- the transport assumption under which the cancellation theorems are stated (Eru/Rpc/Retry.lean):
a stream opened under an already cancelled context never reaches the server handler.  It is the
`reach` argument of `runStream`/`start`; everything below that mentions cancellation fixes it to `false`. -/
abbrev assumedReach : Bool := false

/-- how a real gRPC stream reports the caller's cancellation: with a status error, for which
`errors.Is(err, context.Canceled)` is false (`Cli.cancelIs = false`).  The other case — the error is
or wraps `context.Canceled` — is `cancelled_never_retried_when_error_is_canceled`. -/
abbrev grpcCancelIs : Bool := false

theorem start_quiet (script : List (Stream μ)) (req : ρ) : Quiet (start assumedReach grpcCancelIs script req) := by
  cases script <;> exact Or.inl rfl

theorem start_reach (script : List (Stream μ)) (req : ρ) : (start assumedReach grpcCancelIs script req).reach = false := by
  cases script <;> rfl

theorem start_rest (script : List (Stream μ)) (req : ρ) : (start assumedReach grpcCancelIs script req).rest = script.tail := by
  cases script <;> rfl

theorem start_reqs (script : List (Stream μ)) (req : ρ) : (start assumedReach grpcCancelIs script req).reqs = [req] := by
  cases script <;> rfl

/-- facts shared by the run-level theorems: for ONE number `n` of re-open attempts, what the caller
got, what the server saw and which part of the script was used -/
theorem run_facts (watch : Bool) (max : Nat) (ca : Option Nat) (script : List (Stream μ)) (req : ρ) :
    let r := runStream assumedReach grpcCancelIs watch max ca false script req
    ∃ n, (watch = false → n = 0) ∧
      r.final.reqs = List.replicate (1 + srv script.tail n) req ∧
      r.delivered ++ r.final.cur = (script.take (n + 1)).flatMap (·.msgs) ∧
      segOk max 0 (openedFrom script.tail n) = true ∧
      ((r.err = .eof ∨ r.err = .unavailable) → watch = true → cnt 0 (openedFrom script.tail n) = max + 1) := by
  intro r
  obtain ⟨n, hw, h, b1, b2⟩ := recvLoop_full watch max (totalMsgs script + 2) ca
    (start assumedReach grpcCancelIs script req) (start_quiet _ _)
  rw [start_rest] at b1 b2
  refine ⟨n, hw, ?_, ?_, b1, b2⟩
  · have hr := h.reqs
    change r.final.reqs = _ at hr
    rw [hr, start_reqs, start_rest]
    cases script <;> simp [start, Nat.add_comm 1, List.replicate_succ]
  · have hm := h.msgs
    change r.delivered ++ r.final.cur = _ at hm
    rw [hm]
    cases script with
    | nil => simp [start]
    | cons s rs => simp [start, List.take_succ_cons]

/-- `delivers_concat`: what the caller received, in order, is exactly the concatenation of the
messages of the streams it opened (no loss, no duplicate, no reordering across re-opens, nothing from
an attempt that failed); `n` = number of re-open attempts, of which `srv script.tail n` reached the
server. -/
theorem delivers_concat (watch : Bool) (max : Nat) (script : List (Stream μ)) (req : ρ) :
    let r := runStream assumedReach grpcCancelIs watch max none false script req
    ∃ n, r.final.reqs.length = 1 + srv script.tail n ∧
      r.delivered = (script.take (n + 1)).flatMap (·.msgs) := by
  intro r
  obtain ⟨n, _, h1, h2, _, _⟩ := run_facts watch max none script req
  have hnil : r.final.cur = [] := by
    apply recvLoop_cur_nil _ _ _ _ (start_quiet _ _)
    cases script with
    | nil => simp [remaining, start, totalMsgs]
    | cons s rs => simp [remaining, start, totalMsgs]
  refine ⟨n, by rw [show r.final.reqs = _ from h1]; simp, ?_⟩
  have := h2
  change r.delivered ++ r.final.cur = _ at this
  rw [hnil, List.append_nil] at this
  exact this

/-- whatever the caller does (cancel after `n` messages or never), what it received is a prefix of
the concatenation of the opened streams' messages: nothing lost, duplicated or reordered -/
theorem delivered_is_prefix (watch : Bool) (max : Nat) (ca : Option Nat) (script : List (Stream μ)) (req : ρ) :
    let r := runStream assumedReach grpcCancelIs watch max ca false script req
    ∃ n, r.final.reqs.length = 1 + srv script.tail n ∧
      r.delivered <+: (script.take (n + 1)).flatMap (·.msgs) := by
  intro r
  obtain ⟨n, _, h1, h2, _, _⟩ := run_facts watch max ca script req
  refine ⟨n, by rw [show r.final.reqs = _ from h1]; simp, ?_⟩
  have := h2
  change r.delivered ++ r.final.cur = _ at this
  rw [← this]; exact List.prefix_append _ _

/-- `requests_seen`: every request that reached the server is the original request; their number is
1 + the number of re-opened streams. -/
theorem requests_seen (watch : Bool) (max : Nat) (ca : Option Nat) (script : List (Stream μ)) (req : ρ) :
    ∃ k, (runStream assumedReach grpcCancelIs watch max ca false script req).final.reqs = List.replicate (k + 1) req := by
  obtain ⟨n, _, h1, _⟩ := run_facts watch max ca script req
  exact ⟨srv script.tail n, by rw [Nat.add_comm]; exact h1⟩

/-- one `RecvMsg` makes at most `max + 1` re-open attempts (open + re-send + first receive; a failure
of any of the three uses up one attempt), and gives up (returns the last error) only after exactly
`max + 1` attempts none of which delivered a message -/
theorem reopen_budget (max : Nat) (c : Cli μ ρ) (hreach : Quiet c) :
    match recvMsg true max false c with
    | .msg _ c' => ∃ k, k ≤ max + 1 ∧ c'.rest = c.rest.drop k ∧ c'.reqs.length = c.reqs.length + srv c.rest k
    | .fail e c' => e ≠ .blocked → c'.rest = c.rest.drop (max + 1) ∧
        c'.reqs.length = c.reqs.length + srv c.rest (max + 1) ∧
        ((c.rest.take (max + 1)).flatMap (·.msgs)) = [] := by
  have h := recvMsg_adv true max false c hreach
  cases hr : recvMsg true max false c with
  | msg m c' =>
    rw [hr] at h
    obtain ⟨k, hk, _, _, ha⟩ := h
    exact ⟨k, hk, ha.rest, by simp [ha.reqs]⟩
  | fail e c' =>
    rw [hr] at h
    obtain ⟨k, _, _, _, ha, hcur, hb⟩ := h
    intro he
    have hk := hb rfl rfl he
    subst hk
    have hm := ha.msgs
    rw [hcur rfl] at hm
    refine ⟨ha.rest, by simp [ha.reqs], ?_⟩
    have : c.cur ++ (c.rest.take (max + 1)).flatMap (·.msgs) = [] := by simpa using hm.symm
    exact (List.append_eq_nil_iff.mp this).2

/-- `run_budget` — `reopen_budget` lifted to whole runs (any cancellation plan).  A re-open attempt is
open + re-send + first receive; it fails if any of the three does (`failed` script elements: open or
re-send error; served streams without a message: first receive fails or returns EOF).  Among the `n`
attempts of a run there are never more than `max + 1` consecutive failing ones, and a run that ends
with the stream's own error (EOF / status error — i.e. not blocked, not cancelled) gave up only after
exactly `max + 1` failing attempts in a row: every failure consumes exactly ONE attempt of the budget. -/
theorem run_budget (max : Nat) (ca : Option Nat) (script : List (Stream μ)) (req : ρ) :
    let r := runStream assumedReach grpcCancelIs true max ca false script req
    ∃ n, r.final.reqs.length = 1 + srv script.tail n ∧
      segOk max 0 (openedFrom script.tail n) = true ∧
      ((r.err = .eof ∨ r.err = .unavailable) → cnt 0 (openedFrom script.tail n) = max + 1) := by
  intro r
  obtain ⟨n, _, h1, _, b1, b2⟩ := run_facts true max ca script req
  exact ⟨n, by rw [show r.final.reqs = _ from h1]; simp, b1, fun he => b2 he rfl⟩

/-- `cancelled_never_retried` (one call), DERIVED from the transport assumption `reach = false`: the
model does enter the retry loop as the Go code does (`recvCancelled`), its single operation opens a
stream under the cancelled context, and because that stream never reaches the handler the server
log is unchanged and the call fails -/
theorem cancelled_never_retried (watch : Bool) (max : Nat) (c : Cli μ ρ) (hreach : c.reach = false) :
    ∃ e, recvMsg watch max true c = .fail e c :=
  ⟨_, recvMsg_cancelled watch max c (Or.inl hreach)⟩

/-- the interceptor's cancellation test is keyed on "the caller cancelled" (`errors.Is(err,
context.Canceled)`), not on the error's identity: whenever the current stream reports the
cancellation with an error that is OR WRAPS `context.Canceled`, `RecvMsg` returns it at once and
nothing is re-opened — on ANY transport, also one that would let a stream opened under a cancelled
context reach the server (`reach = true`) -/
theorem cancelled_never_retried_when_error_is_canceled (watch : Bool) (max : Nat) (c : Cli μ ρ)
    (h : c.cancelIs = true) : recvMsg watch max true c = .fail .ctxCanceled c := by
  cases watch <;> simp [recvMsg, recvCancelled, h]

/-- the assumption is necessary: on a transport where such a stream did reach the handler, the watch
interceptor WOULD make the server see one more request after the cancellation -/
theorem cancelled_retry_reaches_server_without_assumption (max : Nat) (c : Cli μ ρ) (hreach : c.reach = true)
    (hci : c.cancelIs = false) :
    recvMsg true max true c = .fail .ctxCanceled { c with reqs := c.reqs ++ [c.sent] } := by
  simp [recvMsg, recvCancelled, hreach, hci]

/-- `cancelled_never_retried` (whole run): cancelling after `n` messages delivers the first `n`
messages of the uncancelled run, and the server has seen a prefix of what it would have seen -/
theorem cancelled_run_is_prefix (watch : Bool) (max n : Nat) (script : List (Stream μ)) (req : ρ) :
    (runStream assumedReach grpcCancelIs watch max (some n) false script req).delivered =
      ((runStream assumedReach grpcCancelIs watch max none false script req).delivered).take n ∧
    (runStream assumedReach grpcCancelIs watch max (some n) false script req).final.reqs <+:
      (runStream assumedReach grpcCancelIs watch max none false script req).final.reqs :=
  recvLoop_cancel_prefix watch max _ n _ (start_quiet _ _)

/-- cancellation while `Recv` is BLOCKED on a silent stream (the typical end of a watch): the run
delivers what the blocked run had delivered, the server sees no further request, and the caller gets
`context.Canceled` (watch) / the gRPC cancellation status (other streams) -/
theorem blocked_cancel_never_retried (watch : Bool) (max : Nat) (script : List (Stream μ)) (req : ρ) :
    let r := runStream assumedReach grpcCancelIs watch max none false script req
    let r' := runStream assumedReach grpcCancelIs watch max none true script req
    r'.delivered = r.delivered ∧ r'.final.reqs = r.final.reqs ∧
    (r.err = .blocked → r'.err = cancelErr watch r.final) ∧ (r.err ≠ .blocked → r'.err = r.err) := by
  intro r r'
  obtain ⟨k, _, h⟩ := recvLoop_adv watch max (totalMsgs script + 2) none (start assumedReach grpcCancelIs script req) (start_quiet _ _)
  have hfr : Quiet r.final := (start_quiet script req).of_adv h
  have hr' : r' = cancelWhenBlocked watch r := rfl
  rw [hr']
  unfold cancelWhenBlocked
  by_cases hb : r.err = .blocked
  · simp [hb, recvCancelled_eq watch r.final hfr]
  · simp [hb]

/-- `non_watch_never_retried` (streams): a stream whose method is not in `RPCNeedRetry` is never
re-opened, whatever the budget, the script and the caller do -/
theorem non_watch_never_retried (max : Nat) (ca : Option Nat) (script : List (Stream μ)) (req : ρ) :
    (runStream assumedReach grpcCancelIs false max ca false script req).final.reqs = [req] := by
  obtain ⟨n, hn, h1, _⟩ := run_facts false max ca script req
  rw [h1, hn rfl, srv_zero]; rfl

/-- `stream_meets_spec`: the decidable specification the oracle evaluates on /repo's output
(`specStream`: request re-sent, exactly the non-failing attempts reached the server, messages =
concatenation, budget never exceeded, gave up only after the budget, non-watch never re-opened) holds
of the model for every script (failing open / re-send attempts included), budget and request, for
runs that end with the stream's own error (uncancelled, not left blocked on a hanging script);
`n + 1` = number of streams the client opened or tried to open. -/
theorem stream_meets_spec [DecidableEq μ] [DecidableEq ρ] (watch : Bool) (max : Nat) (script : List (Stream μ)) (req : ρ)
    (hend : (runStream assumedReach grpcCancelIs watch max none false script req).err = .eof ∨
            (runStream assumedReach grpcCancelIs watch max none false script req).err = .unavailable) :
    let r := runStream assumedReach grpcCancelIs watch max none false script req
    ∃ n, specStream watch max none false script req r.delivered (n + 1) r.final.reqs r.final.reqs.length = [] := by
  intro r
  obtain ⟨n, hn, hreq, hmsg, b1, b2⟩ := run_facts watch max none script req
  have hnil : r.final.cur = [] := by
    apply recvLoop_cur_nil _ _ _ _ (start_quiet _ _)
    cases script with
    | nil => simp [remaining, start, totalMsgs]
    | cons s rs => simp [remaining, start, totalMsgs]
  have hreq' : r.final.reqs = List.replicate (1 + srv script.tail n) req := hreq
  have hdel : r.delivered = (openedFrom script (n + 1)).flatMap (·.msgs) := by
    have := hmsg
    change r.delivered ++ r.final.cur = _ at this
    rw [hnil, List.append_nil] at this
    rw [flatMap_openedFrom]; exact this
  refine ⟨n, ?_⟩
  unfold specStream
  simp only [Option.filter_none, Option.isSome_none, Bool.or_false, Bool.false_and, Bool.not_false, Bool.true_and,
    Nat.add_sub_cancel]
  have h1 : (r.final.reqs.all (· == req)) = true := by rw [hreq']; simp
  have h2 : r.final.reqs.length ≥ 1 := by rw [hreq']; simp
  have h2' : (r.final.reqs.length == 1 + srv script.tail n) = true := by rw [hreq']; simp
  have h3 : (r.delivered == (openedFrom script (n + 1)).flatMap (·.msgs)) = true := by rw [← hdel]; simp
  cases watch with
  | true =>
    have b2' := b2 hend rfl
    simp [h1, h2, h2', h3]
    exact ⟨b1, b2'⟩
  | false =>
    have hn0 := hn rfl
    subst hn0
    have h4 : r.final.reqs.length = 1 := by rw [hreq', srv_zero]; simp
    simp [h1, h2, h3, h4, srv_zero]

/-- `stream_meets_spec_cancelled`: the same for runs the caller ENDED by cancelling after `n` messages
(the run's error is a cancellation error): the delivered messages are the first `n` of the
concatenation, the server saw no request after the cancellation (`seenAtCancel` = what it had seen),
the budget was never exceeded; "gave up only after the budget" does not apply to a cancelled run.

Which theorem covers which class of run the oracle judges:
* ended with the stream's own error (EOF / status error) ............ `stream_meets_spec`
* caller cancelled after `n` messages ............................... `stream_meets_spec_cancelled`
* caller cancelled while `Recv` was blocked on a silent stream ...... `stream_meets_spec_blocked_cancel`
* a run left blocked for ever is not judged (the harness always cancels a hanging script);
  runs on the decorated transport (`reach = cancelIs = true`) are covered for the cancellation step by
  `cancelled_never_retried_when_error_is_canceled` and otherwise behave as above. -/
theorem stream_meets_spec_cancelled [DecidableEq μ] [DecidableEq ρ] (watch : Bool) (max n : Nat)
    (script : List (Stream μ)) (req : ρ)
    (hc : isCancelErr (runStream assumedReach grpcCancelIs watch max (some n) false script req).err = true) :
    let r := runStream assumedReach grpcCancelIs watch max (some n) false script req
    ∃ k, specStream watch max (some n) false script req r.delivered (k + 1) r.final.reqs r.final.reqs.length = [] := by
  intro r
  obtain ⟨k, hk, hreq, hmsg, b1, _⟩ := run_facts watch max (some n) script req
  have hlen : r.delivered.length = n := recvLoop_cancel_length watch max _ n _ hc
  have hreq' : r.final.reqs = List.replicate (1 + srv script.tail k) req := hreq
  have hall : (openedFrom script (k + 1)).flatMap (·.msgs) = r.delivered ++ r.final.cur := by
    rw [flatMap_openedFrom]; exact hmsg.symm
  refine ⟨k, ?_⟩
  unfold specStream
  have hf : (some n : Option Nat).filter (fun m => decide (m ≤ r.delivered.length)) = some n := by
    simp [Option.filter, hlen]
  simp only [hf, Option.isSome_some, Bool.true_or, Bool.not_true, Bool.false_and, Nat.add_sub_cancel]
  have h1 : (r.final.reqs.all (· == req)) = true := by rw [hreq']; simp
  have h2 : r.final.reqs.length ≥ 1 := by rw [hreq']; simp
  have h2' : (r.final.reqs.length == 1 + srv script.tail k) = true := by rw [hreq']; simp
  have h3 : (r.delivered == ((openedFrom script (k + 1)).flatMap (·.msgs)).take n) = true := by
    rw [hall, ← hlen]; simp
  have h3' : n ≤ ((openedFrom script (k + 1)).flatMap (·.msgs)).length := by
    rw [hall, ← hlen]; simp
  cases watch with
  | true =>
    simp [h1, h2, h3, b1]
    exact ⟨by simpa using h2', by simpa [List.length_flatMap] using h3'⟩
  | false =>
    have hk0 := hk rfl
    subst hk0
    have h4 : r.final.reqs.length = 1 := by rw [hreq', srv_zero]; simp
    simp [h1, h2, h4, srv_zero]
    exact ⟨by simpa using h3, by simpa [List.length_flatMap] using h3'⟩

/-- `stream_meets_spec_blocked_cancel`: … and for runs the caller ended by cancelling while `Recv` was
blocked on a silent stream (everything sent was delivered, no request after the cancellation) -/
theorem stream_meets_spec_blocked_cancel [DecidableEq μ] [DecidableEq ρ] (watch : Bool) (max : Nat)
    (script : List (Stream μ)) (req : ρ) :
    let r := runStream assumedReach grpcCancelIs watch max none true script req
    ∃ k, specStream watch max none true script req r.delivered (k + 1) r.final.reqs r.final.reqs.length = [] := by
  intro r
  obtain ⟨hd, hq, _, _⟩ := blocked_cancel_never_retried watch max script req
  obtain ⟨k, hk, hreq, hmsg, b1, _⟩ := run_facts watch max none script req
  have hnil : (runStream assumedReach grpcCancelIs watch max none false script req).final.cur = [] := by
    apply recvLoop_cur_nil _ _ _ _ (start_quiet _ _)
    cases script with
    | nil => simp [remaining, start, totalMsgs]
    | cons s rs => simp [remaining, start, totalMsgs]
  have hd' : r.delivered = (runStream assumedReach grpcCancelIs watch max none false script req).delivered := hd
  have hq' : r.final.reqs = (runStream assumedReach grpcCancelIs watch max none false script req).final.reqs := hq
  have hreq' : r.final.reqs = List.replicate (1 + srv script.tail k) req := by rw [hq']; exact hreq
  have hdel : r.delivered = (openedFrom script (k + 1)).flatMap (·.msgs) := by
    rw [hd', flatMap_openedFrom]
    have := hmsg
    rw [hnil, List.append_nil] at this
    exact this
  refine ⟨k, ?_⟩
  unfold specStream
  simp only [Option.filter_none, Option.isSome_none, Bool.false_or, Bool.not_true, Bool.false_and, Nat.add_sub_cancel]
  have h1 : (r.final.reqs.all (· == req)) = true := by rw [hreq']; simp
  have h2 : r.final.reqs.length ≥ 1 := by rw [hreq']; simp
  have h3 : (r.delivered == (openedFrom script (k + 1)).flatMap (·.msgs)) = true := by rw [← hdel]; simp
  cases watch with
  | true => simp [h1, h2, h3, b1, hreq']
  | false =>
    have hk0 := hk rfl
    subst hk0
    have h4 : r.final.reqs.length = 1 := by rw [hreq', srv_zero]; simp
    simp [h1, h2, h3, h4, srv_zero]

/-- unary calls: between 1 and `max + 1` attempts, stopping at the first success … -/
theorem unary_attempts (max : Nat) (outs : List Bool) :
    1 ≤ (runUnary max outs).1 ∧ (runUnary max outs).1 ≤ max + 1 ∧
    (runUnary max outs).2 = (outs.take (runUnary max outs).1).any id := by
  have := unaryAttempts_bounds (max + 1) outs
  exact ⟨this.2 (by omega), this.1, unaryAttempts_result _ _⟩

/-- … hence with the budget /repo's client configures (`Max: 0`, checked against the source on
every run) a unary call is never retried -/
theorem unary_never_retried_at_production_budget (outs : List Bool) : (runUnary 0 outs).1 = 1 := by
  have := unary_attempts 0 outs; omega

theorem unary_meets_spec (max : Nat) (outs : List Bool) :
    specUnary max 0 outs (runUnary max outs).1 (runUnary max outs).2 = [] := by
  have h := unary_attempts max outs
  unfold specUnary
  have h1 : (decide ((runUnary max outs).1 ≤ max + 1) && decide (1 ≤ (runUnary max outs).1)) = true := by
    simp [h.1, h.2.1]
  have h2 : (max == 0 && (runUnary max outs).1 != 1) = false := by
    by_cases hm : max = 0
    · subst hm; simp [unary_never_retried_at_production_budget]
    · simp [hm]
  simp [h1, h2, h.2.2]

-- hypotheses are satisfiable / statements are not vacuous: a concrete run
example : (runStream false false true 1 none false
    [.served ⟨["a", "b"], .err⟩, .failed, .served ⟨["c"], .eof⟩, .served ⟨[], .eof⟩, .failed, .served ⟨["never"], .eof⟩] "req").delivered = ["a", "b", "c"] := by decide
example : (runStream false false true 1 none false
    [.served ⟨["a", "b"], .err⟩, .failed, .served ⟨["c"], .eof⟩, .served ⟨[], .eof⟩, .failed, .served ⟨["never"], .eof⟩] "req").final.reqs.length = 3 := by decide

end Eru.Props.C36
