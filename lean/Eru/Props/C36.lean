import Eru.Rpc.RetryProofs
/-
C36 — client watch streams retry transparently.

Quantifier: every server script (list of streams, each "k messages, then EOF / error / hang"),
every retry budget `max`, every request payload, every cancellation point.  Message and request
types are arbitrary.  Model and assumptions: Eru/Rpc/Retry.lean.
-/
namespace Eru.Props.C36
open Eru.Rpc.Retry

variable {μ ρ : Type}

/-- `delivers_concat`: what the caller received, in order, is exactly the concatenation of the
messages of the streams the server served (no loss, no duplicate, no reordering across re-opens);
`n` = number of requests the server saw. -/
theorem delivers_concat (watch : Bool) (max : Nat) (script : List (Stream μ)) (req : ρ) :
    let r := runStream watch max none script req
    r.delivered = (script.take r.final.reqs.length).flatMap (·.msgs) := by
  intro r
  obtain ⟨k, _, h⟩ := recvLoop_adv watch max (totalMsgs script + 2) none (start script req)
  have hnil : r.final.cur = [] := by
    apply recvLoop_cur_nil
    cases script with
    | nil => simp [remaining, start, totalMsgs]
    | cons s rs => simp [remaining, start, totalMsgs]
  have hm := h.msgs
  have hr := h.reqs
  change r.delivered ++ r.final.cur = _ at hm
  change r.final.reqs = _ at hr
  rw [hnil, List.append_nil] at hm
  rw [hm, hr]
  cases script with
  | nil => simp [start]
  | cons s rs => simp [start, List.take_succ_cons]

/-- `requests_seen`: every request that reached the server is the original request; their number is
1 + the number of re-opened streams. -/
theorem requests_seen (watch : Bool) (max : Nat) (ca : Option Nat) (script : List (Stream μ)) (req : ρ) :
    ∃ k, (runStream watch max ca script req).final.reqs = List.replicate (k + 1) req := by
  obtain ⟨k, _, h⟩ := recvLoop_adv watch max (totalMsgs script + 2) ca (start script req)
  refine ⟨k, ?_⟩
  have hr := h.reqs
  change (runStream watch max ca script req).final.reqs = _ at hr
  rw [hr]
  cases script <;> simp [start, List.replicate_succ]

/-- one `RecvMsg` re-opens at most `max + 1` streams, and gives up (returns the break's error) only
after exactly `max + 1` re-opened streams delivered nothing -/
theorem reopen_budget (max : Nat) (c : Cli μ ρ) :
    match recvMsg true max false c with
    | .msg _ c' => c'.reqs.length ≤ c.reqs.length + (max + 1)
    | .fail e c' => e ≠ .blocked → c'.reqs.length = c.reqs.length + (max + 1) ∧
        ((c.rest.take (max + 1)).flatMap (·.msgs)) = [] := by
  have h := recvMsg_adv true max false c
  cases hr : recvMsg true max false c with
  | msg m c' =>
    rw [hr] at h
    obtain ⟨k, hk, _, _, ha⟩ := h
    simp [ha.reqs]; omega
  | fail e c' =>
    rw [hr] at h
    obtain ⟨k, _, _, _, ha, hcur, hb⟩ := h
    intro he
    have hk := hb rfl rfl he
    subst hk
    have hm := ha.msgs
    rw [hcur rfl] at hm
    constructor
    · simp [ha.reqs]
    · have : c.cur ++ (c.rest.take (max + 1)).flatMap (·.msgs) = [] := by simpa using hm.symm
      exact (List.append_eq_nil_iff.mp this).2

/-- `cancelled_never_retried` (one call): once the caller's context is cancelled, `RecvMsg` fails
and no further request reaches the server -/
theorem cancelled_never_retried (watch : Bool) (max : Nat) (c : Cli μ ρ) :
    ∃ e, recvMsg watch max true c = .fail e c :=
  ⟨_, recvMsg_cancelled watch max c⟩

/-- `cancelled_never_retried` (whole run): cancelling after `n` messages delivers the first `n`
messages of the uncancelled run, and the server has seen a prefix of what it would have seen -/
theorem cancelled_run_is_prefix (watch : Bool) (max n : Nat) (script : List (Stream μ)) (req : ρ) :
    (runStream watch max (some n) script req).delivered = ((runStream watch max none script req).delivered).take n ∧
    (runStream watch max (some n) script req).final.reqs <+: (runStream watch max none script req).final.reqs :=
  recvLoop_cancel_prefix watch max _ n _

/-- `non_watch_never_retried` (streams): a stream whose method is not in `RPCNeedRetry` is never
re-opened, whatever the budget, the script and the caller do -/
theorem non_watch_never_retried (max : Nat) (ca : Option Nat) (script : List (Stream μ)) (req : ρ) :
    (runStream false max ca script req).final.reqs = [req] := by
  obtain ⟨k, hk, h⟩ := recvLoop_adv false max (totalMsgs script + 2) ca (start script req)
  have hr := h.reqs
  change (runStream false max ca script req).final.reqs = _ at hr
  rw [hr, hk rfl]
  cases script <;> simp [start]

/-- unary calls: between 1 and `max + 1` attempts, stopping at the first success … -/
theorem unary_attempts (max : Nat) (outs : List Bool) :
    1 ≤ (runUnary max outs).1 ∧ (runUnary max outs).1 ≤ max + 1 ∧
    (runUnary max outs).2 = (outs.take (runUnary max outs).1).any id := by
  have := unaryAttempts_bounds (max + 1) outs
  exact ⟨this.2 (by omega), this.1, unaryAttempts_result _ _⟩

/-- … hence with the budget /repo's client configures (`Max: 0`, checked against the source on
every run) a unary call is never retried -/
theorem unary_never_retried_at_production_budget (outs : List Bool) : (runUnary 0 outs).1 = 1 := by
  have := unary_attempts 0 outs; omega

theorem unary_meets_spec (max : Nat) (outs : List Bool) :
    specUnary max 0 outs (runUnary max outs).1 (runUnary max outs).2 = [] := by
  have h := unary_attempts max outs
  unfold specUnary
  have h1 : (decide ((runUnary max outs).1 ≤ max + 1) && decide (1 ≤ (runUnary max outs).1)) = true := by
    simp [h.1, h.2.1]
  have h2 : (max == 0 && (runUnary max outs).1 != 1) = false := by
    by_cases hm : max = 0
    · subst hm; simp [unary_never_retried_at_production_budget]
    · simp [hm]
  simp [h1, h2, h.2.2]

-- hypotheses are satisfiable / statements are not vacuous: a concrete run
example : (runStream true 1 none
    [⟨["a", "b"], .err⟩, ⟨[], .err⟩, ⟨["c"], .eof⟩, ⟨[], .eof⟩, ⟨[], .err⟩, ⟨["never"], .eof⟩] "req").delivered = ["a", "b", "c"] := by decide
example : (runStream true 1 none
    [⟨["a", "b"], .err⟩, ⟨[], .err⟩, ⟨["c"], .eof⟩, ⟨[], .eof⟩, ⟨[], .err⟩, ⟨["never"], .eof⟩] "req").final.reqs.length = 5 := by decide

end Eru.Props.C36
