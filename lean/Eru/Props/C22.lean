import Eru.Cluster2.ProofsInterleave
/-
C22 — pods, nodes, node resources and workloads stay referentially consistent.
Model: `Eru/Cluster2/Interleave.lean`.  `RefInv` is the conjunction
  (1) every node's pod exists  (2) every node has a resource record
  (3) every resource record belongs to a node  (4) every workload's node exists.
The full statement `PropC22` (all schedules, single faults) is FALSE for the current code
(D16): it is kept as a `def`, refuted by three concrete schedules, and proved under the
explicit guard `GoodRun` ("every act happens while its earlier check is still valid").
-/
namespace Eru.Props.C22
open Eru.Cluster2.RI

/-- a thread that has not started -/
def fresh (t : Th) : Prop := t.pc = .p0 ∧ t.locked = false

/-- the full property: any threads, any schedule, any single injected failure per thread -/
def PropC22 : Prop :=
  ∀ (s : RState) (ts : List Th) (sched : List Nat), RefInv s → s.locks = [] → (∀ t ∈ ts, fresh t) →
    quiescent (runSched ⟨s, ts⟩ sched) = true → RefInv (runSched ⟨s, ts⟩ sched).s

/-- **Partial result.** For ANY number of concurrent operations, ANY schedule and ANY single
injected failure other than the plugin call of RemoveNode: if every act of the run happens
while its earlier check is still valid (`GoodRun`: RemovePod deletes a pod that still has no
node; AddNode records a node whose pod still exists; Create records a workload whose node
still exists; RemoveNode removes a node that still has no workload; AddNode's rollback and
RemoveNode's plugin call remove only their own record), the referential invariant holds at
every quiescent point. -/
theorem refinv_partial (s : RState) (ts : List Th) (sched : List Nat) (h : RefInv s)
    (hg : GoodRun ⟨s, ts⟩ sched) (hq : quiescent (runSched ⟨s, ts⟩ sched) = true) :
    RefInv (runSched ⟨s, ts⟩ sched).s :=
  sysinv_quiescent _ (runSched_inv sched _ (sysinv_init s ts h) hg) hq

/-- the invariant that tolerates in-flight AddNode / RemoveNode holds after EVERY step of such a run -/
theorem sysinv_every_step (s : RState) (ts : List Th) (sched : List Nat) (h : RefInv s)
    (hg : GoodRun ⟨s, ts⟩ sched) : SysInv (runSched ⟨s, ts⟩ sched) :=
  runSched_inv sched _ (sysinv_init s ts h) hg

/-- **Serial histories.** Any single operation (all six kinds, any arguments), run alone from
any consistent state, with any single injected failure except RemoveNode's plugin call,
re-establishes the invariant when it has finished: so does every sequential history. -/
theorem refinv_serial (s : RState) (op : Op) (fault : Option PC) (fuel : Nat) (h : RefInv s)
    (hf : FaultOK { op := op, fault := fault })
    (hq : (runAlone fuel s { op := op, fault := fault }).2.done = true) :
    RefInv (runAlone fuel s { op := op, fault := fault }).1 := by
  have hc : Chk s { op := op, fault := fault } := by cases op <;> exact trivial
  have := runAlone_inv fuel s { op := op, fault := fault } (sysinv_init s _ h) hc hf
  exact sysinv_quiescent _ this (by simp [quiescent, hq])

/-! ### D16: the check-then-act windows (counterexample schedules, replayed on the real code) -/

/-- (a) AddNode takes no lock: RemovePod deletes the pod between AddNode's GetPod and its
node creation.  Thread 0 = AddNode n1 p1 (parked before `mknode`), thread 1 = RemovePod p1. -/
def sA : RState := { pods := ["p1"] }
def tsA : List Th := [{ op := .addNode "n1" "p1" }, { op := .removePod "p1" }]
def schedA : List Nat := [0, 0, 1, 1, 1, 1, 0]

theorem counterexample_addnode_vs_removepod :
    RefInv sA ∧ quiescent (runSched ⟨sA, tsA⟩ schedA) = true ∧
    refViolations (runSched ⟨sA, tsA⟩ schedA).s = ["node-without-pod:n1"] := by
  refine ⟨?_, by decide, by decide⟩
  refine ⟨?_, ?_, ?_, ?_⟩ <;> intro x hx <;> simp [sA] at hx

/-- (b) the workload is recorded after the pod lock is released: RemoveNode removes the node
between Create's second GetNode and its AddWorkload.  Thread 0 = Create w1 on n1, thread 1 = RemoveNode n1. -/
def sB : RState := { pods := ["p1"], nodes := [("n1", "p1")], res := ["n1"] }
def tsB : List Th := [{ op := .create 1 "n1" }, { op := .removeNode "n1" }]
def schedB : List Nat := [0, 0, 0, 0, 0, 1, 1, 1, 1, 1, 1, 0]

theorem counterexample_create_vs_removenode :
    quiescent (runSched ⟨sB, tsB⟩ schedB) = true ∧
    refViolations (runSched ⟨sB, tsB⟩ schedB).s = ["workload-without-node:1"] := by
  constructor <;> decide

theorem sB_refinv : RefInv sB := by
  refine ⟨?_, ?_, ?_, ?_⟩ <;> intro x hx <;> simp [sB] at hx <;> simp [hx, sB, hasNode]

/-- (c) single injected failure: RemoveNode removes the node record, then the plugin call fails
and nothing compensates — the resource record is orphaned. -/
def tsC : List Th := [{ op := .removeNode "n1", fault := some .p4 }]

theorem counterexample_removenode_plugin_fault :
    quiescent (runSched ⟨sB, tsC⟩ [0, 0, 0, 0, 0, 0]) = true ∧
    refViolations (runSched ⟨sB, tsC⟩ [0, 0, 0, 0, 0, 0]).s = ["resource-without-node:n1"] := by
  constructor <;> decide

theorem refViolations_nil_of_refinv (s : RState) (h : RefInv s) : refViolations s = [] := by
  obtain ⟨h1, h2, h3, h4⟩ := h
  simp only [refViolations, List.append_eq_nil_iff, List.map_eq_nil_iff, List.filter_eq_nil_iff]
  refine ⟨⟨⟨?_, ?_⟩, ?_⟩, ?_⟩
  · intro x hx; simp [h1 x hx]
  · intro x hx; simp [h2 x hx]
  · intro n hn; simp [h3 n hn]
  · intro x hx; simp [h4 x hx]

/-- the full property does not hold for the current code -/
theorem not_PropC22 : ¬ PropC22 := by
  intro h
  have hfresh : ∀ t ∈ tsB, fresh t := by
    intro t ht; simp [tsB] at ht; rcases ht with rfl | rfl <;> exact ⟨rfl, rfl⟩
  have := h sB tsB schedB sB_refinv rfl hfresh counterexample_create_vs_removenode.1
  have hv := refViolations_nil_of_refinv _ this
  rw [counterexample_create_vs_removenode.2] at hv
  cases hv

/-! non-vacuity of `refinv_partial`: a two-thread run that satisfies the guard -/
example : quiescent (runSched ⟨sB, [{ op := .create 1 "n1" }, { op := .removePod "p1" }]⟩ [0, 0, 1, 1, 0, 0, 1, 0, 0, 1, 1]) = true := by decide

end Eru.Props.C22

namespace Eru.Props.C22
open Eru.Cluster2.RI
/-! non-vacuity of `refinv_serial`: the operations do finish when run alone (no lock is held) -/
example : (runAlone 12 sB { op := .create 1 "n1" }).2.done = true ∧ (runAlone 12 sB { op := .removeNode "n1" }).2.done = true ∧
    (runAlone 12 sA { op := .addNode "n1" "p1", fault := some .p2 }).2.done = true := by decide
end Eru.Props.C22

namespace Eru.Props.C22
open Eru.Cluster2.RI

/-- **Schedules that avoid the open windows need no per-step hypothesis.**  If no thread is an
AddNode and Create and RemoveNode do not run concurrently (any number of AddPod / RemovePod /
RemoveNode / Remove threads, or of AddPod / RemovePod / Create / Remove threads, any arguments,
any single faults other than RemoveNode's plugin call), then EVERY schedule is a `GoodRun`: each
thread's check (`Chk`) stays valid until it acts because no other thread can invalidate it. -/
theorem goodrun_of_safe (s : RState) (ts : List Th) (sched : List Nat) (h : RefInv s)
    (hfresh : ∀ t ∈ ts, fresh t) (hsafe : Safe ts) : GoodRun ⟨s, ts⟩ sched :=
  big_goodrun sched ⟨s, ts⟩ ⟨sysinv_init s ts h, hsafe, fun t ht => chk_fresh s t (hfresh t ht).1⟩

/-- … hence the invariant holds at every quiescent point of every such concurrent history -/
theorem refinv_safe_schedules (s : RState) (ts : List Th) (sched : List Nat) (h : RefInv s)
    (hfresh : ∀ t ∈ ts, fresh t) (hsafe : Safe ts) (hq : quiescent (runSched ⟨s, ts⟩ sched) = true) :
    RefInv (runSched ⟨s, ts⟩ sched).s :=
  refinv_partial s ts sched h (goodrun_of_safe s ts sched h hfresh hsafe) hq

/-- a concrete good run of two concurrent threads (non-vacuity of `refinv_partial`) -/
example : GoodRun ⟨sB, [{ op := .create 1 "n1" }, { op := .removePod "p1" }]⟩ [0, 0, 1, 1, 0, 0, 1, 0, 0, 1, 1] :=
  goodrun_of_safe sB _ _ sB_refinv
    (fun t ht => by simp at ht; rcases ht with rfl | rfl <;> exact ⟨rfl, rfl⟩)
    ⟨fun t ht => by simp at ht; rcases ht with rfl | rfl <;> rfl,
     Or.inr (fun t ht => by simp at ht; rcases ht with rfl | rfl <;> rfl),
     fun t ht => by simp at ht; rcases ht with rfl | rfl <;> (intro n hn; cases hn)⟩

/-- a sequential history: every operation runs alone (at most 12 steps) from the state the
previous one left -/
def runHist (s : RState) : List (Op × Option PC) → RState
  | [] => s
  | (op, f) :: rest => runHist (runAlone 12 s { op := op, fault := f }).1 rest

/-- every operation of the history finished (it always does when no lock is held by someone else) -/
def AllDone (s : RState) : List (Op × Option PC) → Prop
  | [] => True
  | (op, f) :: rest => (runAlone 12 s { op := op, fault := f }).2.done = true ∧ AllDone (runAlone 12 s { op := op, fault := f }).1 rest

/-- **Sequential histories** of any length over all six operations with single injected
failures keep the invariant (after every operation, hence at the end) -/
theorem refinv_history (ops : List (Op × Option PC)) : ∀ (s : RState), RefInv s →
    (∀ p ∈ ops, FaultOK { op := p.1, fault := p.2 }) → AllDone s ops → RefInv (runHist s ops) := by
  induction ops with
  | nil => intro s h _ _; exact h
  | cons p rest ih =>
    intro s h hf hd
    obtain ⟨op, f⟩ := p
    exact ih _ (refinv_serial s op f 12 h (hf (op, f) List.mem_cons_self) hd.1)
      (fun q hq => hf q (List.mem_cons_of_mem _ hq)) hd.2

/-- the decidable form used by the oracle is equivalent to the invariant -/
theorem refinv_of_refViolations_nil (s : RState) (h : refViolations s = []) : RefInv s := by
  simp only [refViolations, List.append_eq_nil_iff, List.map_eq_nil_iff, List.filter_eq_nil_iff] at h
  obtain ⟨⟨⟨h1, h2⟩, h3⟩, h4⟩ := h
  refine ⟨?_, ?_, ?_, ?_⟩
  · intro x hx; have := h1 x hx; simpa using this
  · intro x hx; have := h2 x hx; simpa using this
  · intro n hn; have := h3 n hn; simpa using this
  · intro x hx; have := h4 x hx; simpa using this

theorem refViolations_nil_iff (s : RState) : refViolations s = [] ↔ RefInv s :=
  ⟨refinv_of_refViolations_nil s, refViolations_nil_of_refinv s⟩

/-- (d) three operations: `withNodesLocked` does not re-read the node after locking. The second
RemoveNode read node n1 before the first one removed it; AddNode re-adds the name; the second
RemoveNode (stale node object) then deletes the NEW resource record; AddNode records the node:
a node without resource information, and all three operations report success. Replayed on the
real code. Thread 0 = AddNode n1 p1, threads 1, 2 = RemoveNode n1. -/
def ts3 : List Th := [{ op := .addNode "n1" "p1" }, { op := .removeNode "n1" }, { op := .removeNode "n1" }]
def sched3 : List Nat := [2, 1, 1, 1, 1, 1, 1, 0, 0, 2, 2, 2, 2, 2, 0]

theorem counterexample_two_removenode_vs_addnode :
    quiescent (runSched ⟨sB, ts3⟩ sched3) = true ∧
    refViolations (runSched ⟨sB, ts3⟩ sched3).s = ["node-without-resource:n1"] ∧
    (runSched ⟨sB, ts3⟩ sched3).ts.all (·.ok) = true := by
  refine ⟨?_, ?_, ?_⟩ <;> decide

end Eru.Props.C22
