import Eru.Store.ProofsEphemeral
import Eru.Store.EphemeralUser
/-
C26 — ephemeral registrations are exclusive and owner-safe.

For every schedule of registrations, heartbeats, lapses (a lease / TTL elapsing at an arbitrary
moment, which covers pauses longer than the TTL and injected revocations) and deregistrations
of any number of registrants on one key:

etcd (`meta/ephemeral.go`):
  * `etcd_exclusive`       at most one registrant holds a registration that has not lapsed;
  * `etcd_lapse_notified`  a registrant whose registration lapsed is told at its next heartbeat,
                           whatever the others did in between (and a lapsed lease never revives);
  * `etcd_owner_safe`      a registrant's heartbeat / deregistration never changes a key that is
                           attached to somebody else's lease.
"Believes it holds" is read as: registered and not yet past its next heartbeat (a lapsed
registrant has one heartbeat interval to find out) — `Etcd.believes` = holding a live lease.

Redis (`redis/ephemeral.go`): the three statements are false (`PropC26_redis_*`, each refuted by a
concrete schedule that is also replayed on the real code by the harness corpus); they hold for
schedules without a lapse (`redis_exclusive_partial`, `redis_owner_safe_partial`).
-/
namespace Eru.Props.C26
open Eru.Store.Ephemeral

theorem einv_run (evs : List EEv) : ∀ s, EInv s → EInv (Etcd.run s evs) := by
  induction evs with
  | nil => intro s h; exact h
  | cons ev t ih => intro s h; exact ih _ (einv_step h ev)

/-- **etcd_exclusive**: in every reachable state at most one registrant believes it holds the key. -/
theorem etcd_exclusive (evs : List EEv) (p q : Nat)
    (hp : (Etcd.run {} evs).believes p) (hq : (Etcd.run {} evs).believes q) : p = q := by
  have h := einv_run evs {} einv_init
  obtain ⟨l, hpl, hal⟩ := hp
  obtain ⟨l', hql, hal'⟩ := hq
  have k1 := h.holdKey p l hpl hal
  have k2 := h.holdKey q l' hql hal'
  rw [k1] at k2
  have : l = l' := Option.some.inj k2
  subst this
  exact h.holdInj p q l hpl hql

/-- events that are not actions of registrant `p` -/
def NotBy (p : Nat) : EEv → Prop
  | .register q _ => q ≠ p
  | .heartbeat q => q ≠ p
  | .deregister q => q ≠ p
  | .expire _ => True

theorem other_step_keeps {s : Etcd} (hs : EInv s) {p l : Nat} (hp : s.regs p = .holding l)
    (hdead : s.alive l = false) (ev : EEv) (hev : NotBy p ev) :
    (s.step ev).1.regs p = .holding l ∧ (s.step ev).1.alive l = false := by
  have hlt := hs.holdLt p l hp
  cases ev with
  | register q ttl =>
    simp only [NotBy] at hev
    have hpq : ¬ p = q := fun e => hev e.symm
    have hne : l ≠ s.next := by omega
    simp only [Etcd.step]
    cases hq : s.regs q <;> simp only [] <;> (try exact ⟨hp, hdead⟩) <;>
      (by_cases hk : s.key = none <;> simp [hk, hpq, hne, hp, hdead])
  | heartbeat q =>
    simp only [NotBy] at hev
    have hpq : ¬ p = q := fun e => hev e.symm
    simp only [Etcd.step]
    cases hq : s.regs q <;> simp only [] <;> (try exact ⟨hp, hdead⟩)
    rename_i l2
    by_cases ha : s.alive l2 = true <;> simp [ha, hpq, hp, hdead]
  | deregister q =>
    simp only [NotBy] at hev
    have hpq : ¬ p = q := fun e => hev e.symm
    simp only [Etcd.step]
    cases hq : s.regs q <;> simp only [] <;> simp [Etcd.revoke, hpq, hp, hdead]
  | expire l2 =>
    simp only [Etcd.step]
    by_cases ha : s.alive l2 = true
    · simp only [ha, ↓reduceIte, Etcd.revoke]
      refine ⟨hp, ?_⟩
      by_cases e : l = l2 <;> simp [e, hdead]
    · simp only [ha, Bool.false_eq_true, ↓reduceIte]; exact ⟨hp, hdead⟩

/-- **etcd_lapse_notified**: if `p`'s registration has lapsed (its lease is gone), then whatever
    the other registrants do in the meantime — including taking the key over — `p`'s next
    heartbeat closes its expiry channel. -/
theorem etcd_lapse_notified (pre others : List EEv) (p l : Nat)
    (hp : (Etcd.run {} pre).regs p = .holding l) (hdead : (Etcd.run {} pre).alive l = false)
    (hothers : ∀ ev ∈ others, NotBy p ev) :
    ((Etcd.run (Etcd.run {} pre) others).step (.heartbeat p)).1.regs p = .notified := by
  have key : ∀ (others : List EEv) (s : Etcd), EInv s → s.regs p = .holding l → s.alive l = false →
      (∀ ev ∈ others, NotBy p ev) → ((Etcd.run s others).step (.heartbeat p)).1.regs p = .notified := by
    intro others
    induction others with
    | nil => intro s _ h1 h2 _; simp [Etcd.run, Etcd.step, h1, h2]
    | cons ev t ih =>
      intro s hs h1 h2 hall
      have := other_step_keeps hs h1 h2 ev (hall ev (List.mem_cons_self ..))
      exact ih _ (einv_step hs ev) this.1 this.2 (fun e he => hall e (List.mem_cons_of_mem _ he))
  exact key others _ (einv_run pre {} einv_init) hp hdead hothers

/-- **etcd_owner_safe**: a heartbeat or deregistration by `p` leaves a key that is attached to a
    lease other than `p`'s exactly as it is (same lease, still alive). -/
theorem etcd_owner_safe (evs : List EEv) (p l' : Nat) (ev : EEv)
    (hev : ev = .heartbeat p ∨ ev = .deregister p)
    (hkey : (Etcd.run {} evs).key = some l') (hnot : (Etcd.run {} evs).regs p ≠ .holding l') :
    ((Etcd.run {} evs).step ev).1.key = some l' ∧ ((Etcd.run {} evs).step ev).1.alive l' = true := by
  have h := einv_run evs {} einv_init
  generalize Etcd.run {} evs = s at *
  have hal := h.keyAlive l' hkey
  rcases hev with rfl | rfl
  · simp only [Etcd.step]
    cases hp : s.regs p <;> simp only [] <;> (try exact ⟨hkey, hal⟩)
    rename_i l
    by_cases ha : s.alive l = true <;> simp [ha, hkey, hal]
  · simp only [Etcd.step]
    cases hp : s.regs p <;> simp only [] <;> (try exact ⟨hkey, hal⟩)
    rename_i l
    have hne : l' ≠ l := by intro e; subst e; exact hnot hp
    have hk : ¬ s.key = some l := by rw [hkey]; intro e; exact hne (Option.some.inj e)
    simp [Etcd.revoke, hkey, hne, hal]

/-- non-trivial reachable state: 0 registers, its lease lapses, 1 takes over, 0 is still
    "holding" (stale) — exactly one believer (1), and 0 is notified by its heartbeat -/
example :
    let s := Etcd.run {} [.register 0 3, .expire 0, .register 1 3]
    s.regs 0 = .holding 0 ∧ s.alive 0 = false ∧ s.regs 1 = .holding 1 ∧ s.alive 1 = true ∧
    s.key = some 1 ∧ (s.step (.heartbeat 0)).1.regs 0 = .notified ∧
    (s.step (.heartbeat 0)).1.key = some 1 := by decide

/-! ### Redis -/

/-- full statements for the Redis implementation -/
def PropC26_redis_exclusive : Prop :=
  ∀ (evs : List REv) (p q : Nat),
    -- after both have had a heartbeat (the one interval a lapsed registrant is allowed)
    let s := (((Redis.run {} evs).step (.heartbeat p)).1.step (.heartbeat q)).1
    s.holding p → s.holding q → p = q

def PropC26_redis_lapse_notified : Prop :=
  ∀ (evs : List REv) (p : Nat),
    (Redis.run {} evs).holding p → (∀ t, (Redis.run {} evs).key ≠ some (p, t)) →
    ¬ ((Redis.run {} evs).step (.heartbeat p)).1.holding p

def PropC26_redis_owner_safe : Prop :=
  ∀ (evs : List REv) (p o t : Nat) (ev : REv), (ev = .heartbeat p ∨ ev = .deregister p) →
    (Redis.run {} evs).key = some (o, t) → o ≠ p → ((Redis.run {} evs).step ev).1.key = some (o, t)

/-- 0 registers, its key expires, 1 registers: both keep believing, heartbeats do not help -/
theorem redis_exclusive_counterexample : ¬ PropC26_redis_exclusive := by
  intro h
  have := h [.register 0 1, .expire, .register 1 1] 0 1 ⟨1, by decide⟩ ⟨1, by decide⟩
  cases this

/-- `EXPIRE` on a missing key is not an error: the lapse is never noticed -/
theorem redis_lapse_notified_counterexample : ¬ PropC26_redis_lapse_notified := by
  intro h
  exact h [.register 0 1, .expire] 0 ⟨1, by decide⟩ (by intro t; simp [Redis.run, Redis.step]) ⟨1, by decide⟩

/-- after a lapse and a takeover, the first registrant's `DEL` on exit deletes the other's key
    (and its `EXPIRE` rewrites the other's TTL) -/
theorem redis_owner_safe_counterexample : ¬ PropC26_redis_owner_safe := by
  intro h
  have := h [.register 0 1, .expire, .register 1 2] 0 1 2 (.deregister 0) (Or.inr rfl) (by decide) (by decide)
  revert this; decide

theorem redis_foreign_refresh_witness :
    ((Redis.run {} [.register 0 1, .expire, .register 1 2]).step (.heartbeat 0)).1.key = some (1, 1) := by
  decide

/-- schedules in which no registration lapses -/
def NoLapse (evs : List REv) : Prop := ∀ ev ∈ evs, ev ≠ .expire

/-- without lapses: whoever is holding is the creator of the key that is there -/
structure RInv (s : Redis) : Prop where
  owner : ∀ p t, s.regs p = .holding t → ∃ t', s.key = some (p, t')

theorem rinv_step {s : Redis} (h : RInv s) (ev : REv) (hne : ev ≠ .expire) : RInv (s.step ev).1 := by
  cases ev with
  | expire => exact absurd rfl hne
  | register p ttl =>
    simp only [Redis.step]
    cases hp : s.regs p with
    | holding t0 => simpa [hp] using h
    | idle | notified =>
      all_goals
        simp only []
        cases hk : s.key with
        | some kv => simpa [hk] using h
        | none =>
          simp only []
          refine ⟨?_⟩
          intro q t hq
          by_cases e : q = p
          · exact ⟨ttl, by rw [e]⟩
          · simp only [e, ↓reduceIte] at hq
            obtain ⟨t', ht'⟩ := h.owner q t hq
            rw [hk] at ht'; cases ht'
  | heartbeat p =>
    simp only [Redis.step]
    cases hp : s.regs p with
    | idle | notified => simpa [hp] using h
    | holding ttl =>
      simp only []
      refine ⟨?_⟩
      intro q t hq
      obtain ⟨t', ht'⟩ := h.owner q t hq
      exact ⟨ttl, by simp [ht']⟩
  | deregister p =>
    simp only [Redis.step]
    cases hp : s.regs p with
    | holding t0 =>
      simp only []
      refine ⟨?_⟩
      intro q t hq
      by_cases e : q = p
      · simp [e] at hq
      · simp only [e, ↓reduceIte] at hq
        -- q holding means the key is q's, but p holding means it is p's
        obtain ⟨t1, h1⟩ := h.owner q t hq
        obtain ⟨t2, h2⟩ := h.owner p t0 hp
        rw [h1] at h2
        exact absurd (congrArg Prod.fst (Option.some.inj h2)) e
    | idle | notified =>
      all_goals
        simp only []
        refine ⟨?_⟩
        intro q t hq
        by_cases e : q = p
        · simp [e] at hq
        · simp only [e, ↓reduceIte] at hq; exact h.owner q t hq

theorem rinv_run (evs : List REv) : ∀ s, RInv s → NoLapse evs → RInv (Redis.run s evs) := by
  induction evs with
  | nil => intro s h _; exact h
  | cons ev t ih =>
    intro s h hn
    exact ih _ (rinv_step h ev (hn ev (List.mem_cons_self ..))) (fun e he => hn e (List.mem_cons_of_mem _ he))

theorem rinv_init : RInv {} := ⟨by intro p t h; cases h⟩

/-- **redis_exclusive_partial**: as long as no registration lapses, at most one registrant holds. -/
theorem redis_exclusive_partial (evs : List REv) (hn : NoLapse evs) (p q : Nat)
    (hp : (Redis.run {} evs).holding p) (hq : (Redis.run {} evs).holding q) : p = q := by
  have h := rinv_run evs {} rinv_init hn
  obtain ⟨t1, h1⟩ := hp
  obtain ⟨t2, h2⟩ := hq
  obtain ⟨a, ha⟩ := h.owner p t1 h1
  obtain ⟨b, hb⟩ := h.owner q t2 h2
  rw [ha] at hb
  exact congrArg Prod.fst (Option.some.inj hb)

/-- **redis_owner_safe_partial**: as long as no registration lapses, heartbeats and
    deregistrations of `p` leave a key created by somebody else untouched. -/
theorem redis_owner_safe_partial (evs : List REv) (hn : NoLapse evs) (p o t : Nat) (ev : REv)
    (hev : ev = .heartbeat p ∨ ev = .deregister p)
    (hkey : (Redis.run {} evs).key = some (o, t)) (hop : o ≠ p) :
    ((Redis.run {} evs).step ev).1.key = some (o, t) := by
  have h := rinv_run evs {} rinv_init hn
  generalize Redis.run {} evs = s at *
  have hnot : ∀ t0, s.regs p ≠ .holding t0 := by
    intro t0 hp
    obtain ⟨t', ht'⟩ := h.owner p t0 hp
    rw [hkey] at ht'
    exact hop (congrArg Prod.fst (Option.some.inj ht'))
  rcases hev with rfl | rfl
  · simp only [Redis.step]
    cases hp : s.regs p with
    | holding t0 => exact absurd hp (hnot t0)
    | idle | notified => exact hkey
  · simp only [Redis.step]
    cases hp : s.regs p with
    | holding t0 => exact absurd hp (hnot t0)
    | idle | notified => exact hkey

example : NoLapse [.register 0 1, .heartbeat 0, .register 1 1, .deregister 0, .register 1 2] := by
  intro ev hev; simp at hev; rcases hev with h | h | h | h | h <;> (subst h; simp)

/-! ### the Redis statements, for etcd -/

def Etcd.holding (s : Etcd) (p : Nat) : Prop := ∃ l, s.regs p = .holding l

theorem hb_alive (s : Etcd) (p : Nat) : ((s.step (.heartbeat p)).1).alive = s.alive := by
  simp only [Etcd.step]
  cases s.regs p <;> simp only []
  split <;> rfl

theorem hb_regs_other (s : Etcd) (p q : Nat) (h : q ≠ p) : ((s.step (.heartbeat p)).1).regs q = s.regs q := by
  simp only [Etcd.step]
  cases s.regs p <;> simp only []
  split
  · rfl
  · simp [h]

theorem hb_holding_alive (s : Etcd) (p l : Nat) (h : ((s.step (.heartbeat p)).1).regs p = .holding l) :
    s.alive l = true := by
  simp only [Etcd.step] at h
  cases hp : s.regs p with
  | idle => simp [hp] at h
  | notified => simp [hp] at h
  | holding l0 =>
    simp only [hp] at h
    by_cases ha : s.alive l0 = true
    · simp only [ha, ↓reduceIte] at h
      rw [hp] at h; cases h; exact ha
    · simp [ha] at h

/-- the statement refuted for Redis (`PropC26_redis_exclusive`), for etcd -/
def PropC26_etcd_exclusive : Prop :=
  ∀ (evs : List EEv) (p q : Nat),
    let s := (((Etcd.run {} evs).step (.heartbeat p)).1.step (.heartbeat q)).1
    Etcd.holding s p → Etcd.holding s q → p = q

/-- **etcd_exclusive_after_heartbeats**: after each of two registrants has had a heartbeat, at
    most one of them is still holding — the same predicate that fails for Redis. -/
theorem etcd_exclusive_after_heartbeats : PropC26_etcd_exclusive := by
  intro evs p q s hp hq
  by_cases hpq : p = q
  · exact hpq
  · exfalso
    have h0 := einv_run evs {} einv_init
    have h1 := einv_step h0 (.heartbeat p)
    have h2 := einv_step h1 (.heartbeat q)
    obtain ⟨l, hl⟩ := hp
    obtain ⟨l', hl'⟩ := hq
    -- q is holding after its own heartbeat: its lease is alive
    have aq := hb_holding_alive _ q l' hl'
    -- p was holding after its own heartbeat (q's heartbeat does not touch p): its lease is alive
    have hp1 : ((Etcd.run {} evs).step (.heartbeat p)).1.regs p = .holding l := by
      rw [← hb_regs_other _ q p hpq]; exact hl
    have ap := hb_holding_alive _ p l hp1
    have ap1 : ((Etcd.run {} evs).step (.heartbeat p)).1.alive l = true := by rw [hb_alive]; exact ap
    have ap2 : s.alive l = true := by show (((_ : Etcd).step (.heartbeat q)).1).alive l = true; rw [hb_alive]; exact ap1
    have aq2 : s.alive l' = true := by show (((_ : Etcd).step (.heartbeat q)).1).alive l' = true; rw [hb_alive]; exact aq
    have k1 := h2.holdKey p l hl ap2
    have k2 := h2.holdKey q l' hl' aq2
    rw [k1] at k2
    have : l = l' := Option.some.inj k2
    subst this
    exact hpq (h2.holdInj p q l hl hl')

/-- the statement refuted for Redis (`PropC26_redis_lapse_notified`), for etcd: a registrant that
    is holding while the key is not attached to its lease is no longer holding after its heartbeat -/
theorem etcd_lapse_notified_same_shape (evs : List EEv) (p l : Nat)
    (hp : (Etcd.run {} evs).regs p = .holding l) (hk : (Etcd.run {} evs).key ≠ some l) :
    ¬ Etcd.holding ((Etcd.run {} evs).step (.heartbeat p)).1 p := by
  have h0 := einv_run evs {} einv_init
  have hdead : (Etcd.run {} evs).alive l = false := by
    cases ha : (Etcd.run {} evs).alive l with
    | false => rfl
    | true => exact absurd (h0.holdKey p l hp ha) hk
  intro ⟨l2, h2⟩
  simp [Etcd.step, hp, hdead] at h2

/-! ### users of ephemeral keys: the service registration loop -/

/-- a failed attempt changes nothing: the loop is still "not registered" and will try again -/
theorem failed_attempt_keeps_retrying (s : Etcd) (p ttl : Nat) :
    s.svcAttempt p ttl true = s := by
  unfold Etcd.svcAttempt
  cases s.regs p <;> rfl

/-- **service_reregisters_after_lapse**: the service's registration has lapsed and it was told
    (`notified`) or never held; the key is free.  However many attempts fail first, the first
    attempt that reaches the store makes it the holder of the key again. -/
theorem service_reregisters_after_lapse (s : Etcd) (p ttl k : Nat)
    (hfree : s.key = none) (hnot : ∀ l, s.regs p ≠ .holding l) :
    let s' := s.svcAttempts p ttl (List.replicate k true ++ [false])
    s'.regs p = .holding s.next ∧ s'.key = some s.next ∧ s'.alive s.next = true := by
  induction k with
  | zero =>
    simp only [List.replicate, List.nil_append, Etcd.svcAttempts, Etcd.svcAttempt]
    cases hp : s.regs p with
    | holding l => exact absurd hp (hnot l)
    | idle => simp [Etcd.step, hp, hfree]
    | notified => simp [Etcd.step, hp, hfree]
  | succ k ih =>
    simp only [List.replicate, List.cons_append, Etcd.svcAttempts, failed_attempt_keeps_retrying]
    exact ih

/-- the whole recovery on a reachable state: the holder's lease lapses, its heartbeat notifies it,
    `k` attempts fail, the next one succeeds — nobody else took the key in between -/
example :
    let s := Etcd.run {} [.register 0 3, .expire 0, .heartbeat 0]
    s.regs 0 = .notified ∧ s.key = none ∧
    (s.svcAttempts 0 3 [true, true, false]).holdingB 0 = true ∧
    (s.svcAttempts 0 3 [true, true, false]).key = some 1 := by decide

/-! ### users of ephemeral keys: the single active watcher -/

structure UInv (u : Users) : Prop where
  etcd : EInv u.etcd
  cs : ∀ p, u.cs p = true → (∃ l, u.etcd.regs p = .holding l) ∨ u.etcd.regs p = .notified

theorem uinv_init : UInv {} := ⟨einv_init, by intro p h; cases h⟩

theorem regs_step_other (s : Etcd) (ev : EEv) (p : Nat) (h : NotBy p ev) :
    (s.step ev).1.regs p = s.regs p := by
  cases ev with
  | register q ttl =>
    simp only [NotBy] at h
    have hpq : ¬ p = q := fun e => h e.symm
    simp only [Etcd.step]
    cases s.regs q <;> simp only [] <;> (try rfl) <;> (split <;> simp [hpq])
  | heartbeat q =>
    simp only [NotBy] at h
    have hpq : ¬ p = q := fun e => h e.symm
    simp only [Etcd.step]
    cases s.regs q <;> simp only [] <;> (try rfl)
    split <;> simp [hpq]
  | deregister q =>
    simp only [NotBy] at h
    have hpq : ¬ p = q := fun e => h e.symm
    simp only [Etcd.step]
    cases s.regs q <;> simp [Etcd.revoke, hpq]
  | expire l =>
    simp only [Etcd.step]
    split <;> simp [Etcd.revoke]

theorem uinv_step {u : Users} (h : UInv u) (ev : UEv) : UInv (u.step ev) := by
  cases ev with
  | register p ttl =>
    simp only [Users.step]
    by_cases hc : u.cs p = true
    · simpa [hc] using h
    · simp only [hc, Bool.false_eq_true, ↓reduceIte]
      refine ⟨einv_step h.etcd _, ?_⟩
      intro q hq
      have hqp : q ≠ p := by intro e; subst e; exact hc hq
      rw [regs_step_other _ _ q (by simpa [NotBy] using hqp.symm)]
      exact h.cs q hq
  | enter p =>
    simp only [Users.step]
    cases hp : u.etcd.regs p with
    | idle => simpa [hp] using h
    | notified => simpa [hp] using h
    | holding l =>
      simp only []
      refine ⟨h.etcd, ?_⟩
      intro q hq
      by_cases e : q = p
      · subst e; exact Or.inl ⟨l, hp⟩
      · simp only [e, ↓reduceIte] at hq; exact h.cs q hq
  | heartbeat p =>
    simp only [Users.step]
    refine ⟨einv_step h.etcd _, ?_⟩
    intro q hq
    by_cases e : q = p
    · subst e
      rcases h.cs q hq with ⟨l, hl⟩ | hn
      · by_cases ha : u.etcd.alive l = true
        · exact Or.inl ⟨l, by simp [Etcd.step, hl, ha]⟩
        · exact Or.inr (by simp [Etcd.step, hl, ha])
      · exact Or.inr (by simp [Etcd.step, hn])
    · rw [regs_step_other _ _ q (by simpa [NotBy] using (Ne.symm e))]
      exact h.cs q hq
  | observe p =>
    simp only [Users.step]
    cases hp : u.etcd.regs p with
    | idle => simpa [hp] using h
    | holding l => simpa [hp] using h
    | notified =>
      simp only []
      refine ⟨h.etcd, ?_⟩
      intro q hq
      by_cases e : q = p
      · simp [e] at hq
      · simp only [e, ↓reduceIte] at hq; exact h.cs q hq
  | leave p =>
    simp only [Users.step]
    refine ⟨einv_step h.etcd _, ?_⟩
    intro q hq
    by_cases e : q = p
    · simp [e] at hq
    · simp only [e, ↓reduceIte] at hq
      rw [regs_step_other _ _ q (by simpa [NotBy] using (Ne.symm e))]
      exact h.cs q hq
  | expire l =>
    simp only [Users.step]
    refine ⟨einv_step h.etcd _, ?_⟩
    intro q hq
    rw [regs_step_other _ _ q (by simp [NotBy])]
    exact h.cs q hq

theorem uinv_run (evs : List UEv) : ∀ u, UInv u → UInv (Users.run u evs) := by
  induction evs with
  | nil => intro u h; exact h
  | cons ev t ih => intro u h; exact ih _ (uinv_step h ev)

/-- **lapse_cancels_critical_section**: once a watcher's registration has lapsed, its next
    heartbeat closes the expiry channel and the goroutine watching that channel ends the
    critical section — one step after the notification. -/
theorem lapse_cancels_critical_section (u : Users) (p l : Nat)
    (hp : u.etcd.regs p = .holding l) (hdead : u.etcd.alive l = false) :
    ((u.step (.heartbeat p)).step (.observe p)).cs p = false := by
  simp [Users.step, Etcd.step, hp, hdead]

/-- **one_active_watcher**: in every reachable state, after each of two watchers has had a
    heartbeat and its expiry goroutine has run, at most one of them is in its critical section. -/
theorem one_active_watcher (evs : List UEv) (p q : Nat) :
    let u := (Users.run {} evs).run [.heartbeat p, .observe p, .heartbeat q, .observe q]
    u.cs p = true → u.cs q = true → p = q := by
  intro u hp hq
  by_cases hpq : p = q
  · exact hpq
  · exfalso
    have hu : UInv u := uinv_run _ _ (uinv_run evs {} uinv_init)
    -- name the intermediate states
    let u0 := Users.run {} evs
    let u1 := u0.step (.heartbeat p)
    let u2 := u1.step (.observe p)
    let u3 := u2.step (.heartbeat q)
    have hu_eq : u = u3.step (.observe q) := rfl
    have i2 : UInv u2 := uinv_step (uinv_step (uinv_run evs {} uinv_init) _) _
    have i3 : UInv u3 := uinv_step i2 _
    -- q: in its critical section after its own observe ⇒ holding after its heartbeat
    have hq3cs : u3.cs q = true := by
      rw [hu_eq] at hq
      simp only [Users.step] at hq
      cases hr : u3.etcd.regs q with
      | notified => simp [hr] at hq
      | idle => simpa [hr] using hq
      | holding l => simpa [hr] using hq
    have hq3 : ∃ l', u3.etcd.regs q = .holding l' := by
      rcases i3.cs q hq3cs with h | h
      · exact h
      · exfalso
        rw [hu_eq] at hq
        simp [Users.step, h] at hq
    obtain ⟨l', hl'⟩ := hq3
    have aq : u2.etcd.alive l' = true := hb_holding_alive _ q l' hl'
    -- p: cs survives q's steps; after its own observe it was holding
    have hp3cs : u3.cs p = true := by
      rw [hu_eq] at hp
      simp only [Users.step] at hp
      cases hr : u3.etcd.regs q <;> simp [hr, hpq] at hp <;> exact hp
    have hp2cs : u2.cs p = true := hp3cs
    have hp1cs : u1.cs p = true := by
      have : u2.cs p = true := hp2cs
      simp only [u2, Users.step] at this
      cases hr : u1.etcd.regs p with
      | notified => simp [hr] at this
      | idle => simpa [hr] using this
      | holding l => simpa [hr] using this
    have i1 : UInv u1 := uinv_step (uinv_run evs {} uinv_init) _
    have hp1 : ∃ l, u1.etcd.regs p = .holding l := by
      rcases i1.cs p hp1cs with h | h
      · exact h
      · exfalso
        have : u2.cs p = true := hp2cs
        simp [u2, Users.step, h] at this
    obtain ⟨l, hl⟩ := hp1
    have ap0 : u0.etcd.alive l = true := hb_holding_alive _ p l hl
    -- etcd states: u2.etcd = u1.etcd, u3.etcd = step (heartbeat q), u.etcd = u3.etcd
    have e21 : u2.etcd = u1.etcd := by
      simp only [u2, Users.step]; cases u1.etcd.regs p <;> rfl
    have eu3 : u.etcd = u3.etcd := by
      rw [hu_eq]; simp only [Users.step]; cases u3.etcd.regs q <;> rfl
    have ap1 : u1.etcd.alive l = true := by
      show ((u0.etcd.step (.heartbeat p)).1).alive l = true
      rw [hb_alive]; exact ap0
    have ap3 : u3.etcd.alive l = true := by
      show ((u2.etcd.step (.heartbeat q)).1).alive l = true
      rw [hb_alive, e21]; exact ap1
    have aq3 : u3.etcd.alive l' = true := by
      show ((u2.etcd.step (.heartbeat q)).1).alive l' = true
      rw [hb_alive]; exact aq
    have hl3 : u3.etcd.regs p = .holding l := by
      show ((u2.etcd.step (.heartbeat q)).1).regs p = .holding l
      rw [hb_regs_other _ q p hpq, e21]; exact hl
    have k1 := i3.etcd.holdKey p l hl3 ap3
    have k2 := i3.etcd.holdKey q l' hl' aq3
    rw [k1] at k2
    have : l = l' := Option.some.inj k2
    subst this
    exact hpq (i3.etcd.holdInj p q l hl3 hl')

/-- non-trivial schedule: 0 active, lapse, 1 takes over and enters; after heartbeats and
    observations only 1 is in its critical section -/
example :
    let u := Users.run {} [.register 0 3, .enter 0, .register 1 3, .expire 0, .register 1 3, .enter 1,
                           .heartbeat 0, .observe 0, .heartbeat 1, .observe 1]
    u.cs 0 = false ∧ u.cs 1 = true ∧ u.etcd.key = some 2 := by decide

end Eru.Props.C26
