import Eru.Cluster2.ProofsNodeDown
/-
C28 — a failed node's workloads are reported down.
Model: `Eru/Cluster2/NodeDown.lean`.  "Eventually" is read as "once the watcher's handler for
the not-alive message has run"; delivery of the watch event is the environment's (assumed:
an active watcher receives a DELETE for every status key that disappears).
-/
namespace Eru.Props.C28
open Eru.Cluster2.ND

/-- after the handler for a not-alive message of an existing node `n` has run, every workload
recorded on `n` (whose name parses) is reported `running = false ∧ healthy = false` -/
theorem down_marks_all (s : St) (n : String) (hn : nodeExists s n = true) :
    ∀ w ∈ s.wls, w.node = n → w.nameOk = true → getStatus (dealMsg n false s) w.id = some down :=
  fun w hw hwn hok => dealMsg_marks n s hn w hw hwn hok

/-- a heartbeat lapse seen by an active watcher marks every workload of the node down -/
theorem lapse_marks_down (s : St) (n : String) (hact : s.active = true) (hhb : s.hb.contains n = true)
    (hn : nodeExists s n = true) :
    ∀ w ∈ s.wls, w.node = n → w.nameOk = true → getStatus (step s (.lapse n)) w.id = some down := by
  intro w hw hwn hok
  have hc : (s.active && s.hb.contains n) = true := by rw [hact, hhb]; rfl
  simp only [step, hc, if_true]
  exact dealMsg_marks n { s with hb := s.hb.filter (fun m => m != n) } hn w hw hwn hok

/-- a lapse that happened BEFORE the watcher started is covered by `initNodeStatus` — for
non-test nodes (explicit guard: `Test` nodes are forced alive, see `test_node_guard_needed`) -/
theorem init_covers_prior_lapse (s : St) (nd : NodeRec) (hnd : nd ∈ s.nodes) (htest : nd.test = false)
    (hlapsed : s.hb.contains nd.name = false) :
    ∀ w ∈ s.wls, w.node = nd.name → w.nameOk = true →
      getStatus (step s .startWatcher) w.id = some down := by
  intro w hw hwn hok
  have hex : nodeExists { s with active := true } nd.name = true := by
    simp only [nodeExists, List.any_eq_true]; exact ⟨nd, hnd, by simp⟩
  exact initFold_marks s.hb s.nodes { s with active := true } nd hnd htest hlapsed hex w hw hwn hok

/-- what is marked down stays down until an agent reports it again: handlers of other nodes,
further lapses, heartbeats, creations and watcher restarts never mark anything up -/
theorem down_stable (s : St) (e : Evt) (id : Nat) (h : getStatus s id = some down)
    (hrep : ∀ st, e ≠ .report id st) : getStatus (step s e) id = some down := by
  cases e with
  | heartbeat n => simp only [step]; split <;> exact h
  | lapse n =>
    simp only [step]
    split
    · exact dealMsg_keeps _ _ _ _ h
    · exact h
  | create i n => exact h
  | report j st =>
    have : id ≠ j := fun e => hrep st (by rw [e])
    simp only [step]; rw [getStatus_setStatus_other _ _ _ _ this]; exact h
  | startWatcher => exact initFold_keeps _ _ _ _ h
  | stopWatcher => exact h
  | standby => exact h
  | bypass n => exact h

/-- the full statement for the init path WITHOUT the test-node guard … -/
def PropC28_init_unguarded : Prop :=
  ∀ (s : St) (nd : NodeRec), nd ∈ s.nodes → s.hb.contains nd.name = false →
    ∀ w ∈ s.wls, w.node = nd.name → w.nameOk = true → getStatus (step s .startWatcher) w.id = some down

def exTest : St := { nodes := [{ name := "t1", test := true }], wls := [⟨1, "t1", true⟩], status := [(1, up)] }

/-- … is false: a `Test` node without heartbeat is forced alive by `initNodeStatus` -/
theorem test_node_guard_needed : ¬ PropC28_init_unguarded := by
  intro h
  have := h exTest { name := "t1", test := true } (by decide) (by decide) ⟨1, "t1", true⟩ (by decide) rfl rfl
  revert this; decide

/-- a lapse while NO watcher is active marks nothing (the part of "eventually" that depends on
a watcher being active) -/
example : getStatus (step { nodes := [{ name := "n1" }], hb := ["n1"], wls := [⟨1, "n1", true⟩], status := [(1, up)] } (.lapse "n1")) 1 = some up := by
  decide

/-! non-vacuity: an active watcher, a node with heartbeat and two workloads -/
def exS : St := { nodes := [{ name := "n1" }, { name := "n2" }], hb := ["n1", "n2"], active := true,
                  wls := [⟨1, "n1", true⟩, ⟨2, "n1", true⟩, ⟨3, "n2", true⟩], status := [(1, up), (2, up), (3, up)] }
example : exS.active = true ∧ exS.hb.contains "n1" = true ∧ nodeExists exS "n1" = true := by decide
example : stillUp (step exS (.lapse "n1")) "n1" = [] ∧ getStatus (step exS (.lapse "n1")) 3 = some up := by decide

end Eru.Props.C28

namespace Eru.Props.C28
open Eru.Cluster2.ND

theorem dealMsg_nodes_any (n : String) (a : Bool) (s : St) (m : String) : nodeExists (dealMsg n a s) m = nodeExists s m := by
  simp [nodeExists, (dealMsg_frame n a s).1]

/-- **The history-level statement — exactly the predicate the oracle evaluates on the real
watcher**: after ANY history of heartbeats, lapses (by deletion or expiry), workload creations,
agent reports and watcher starts/stops, every workload in `obligations` is reported
`running = false ∧ healthy = false`. -/
theorem obligations_reported_down (evs : List Evt) : ∀ (s : St) (ob : List Nat),
    (∀ i ∈ ob, getStatus s i = some down) →
    ∀ i ∈ obligations evs s ob, getStatus (run s evs) i = some down := by
  induction evs with
  | nil => intro s ob h i hi; exact h i hi
  | cons e rest ih =>
    intro s ob h i hi
    show getStatus (run (step s e) rest) i = some down
    apply ih (step s e) _ _ i hi
    intro j hj
    cases e with
    | heartbeat n => exact down_stable s _ j (h j hj) (by simp)
    | create k n => exact down_stable s _ j (h j hj) (by simp)
    | stopWatcher => exact down_stable s _ j (h j hj) (by simp)
    | standby => exact down_stable s _ j (h j hj) (by simp)
    | bypass n => exact down_stable s _ j (h j hj) (by simp)
    | report k st =>
      have hj0 : j ∈ ob.filter (fun x => x != k) := hj
      have hj' : j ∈ ob ∧ j ≠ k := by simpa [List.mem_filter] using hj0
      exact down_stable s _ j (h j hj'.1) (fun st' e' => hj'.2 (by cases e'; rfl))
    | lapse n =>
      by_cases hc : (s.active && s.hb.contains n && nodeExists s n) = true
      · have hj0 : j ∈ (if (s.active && s.hb.contains n && nodeExists s n) = true then ob ++ (onNode s n).map (·.id) else ob) := hj
        have hj' : j ∈ ob ++ (onNode s n).map (·.id) := by rw [if_pos hc] at hj0; exact hj0
        rcases List.mem_append.mp hj' with a | a
        · exact down_stable s _ j (h j a) (by simp)
        · obtain ⟨w, hw, e⟩ := List.mem_map.mp a
          obtain ⟨hw1, hw2, hw3⟩ := (mem_onNode s n w).mp hw
          simp only [Bool.and_eq_true] at hc
          rw [← e]
          exact lapse_marks_down s n hc.1.1 hc.1.2 hc.2 w hw1 hw2 hw3
      · have hj0 : j ∈ (if (s.active && s.hb.contains n && nodeExists s n) = true then ob ++ (onNode s n).map (·.id) else ob) := hj
        have hj' : j ∈ ob := by rw [if_neg hc] at hj0; exact hj0
        exact down_stable s _ j (h j hj') (by simp)
    | startWatcher =>
      have hj' : j ∈ ob ++ (s.nodes.filter fun nd => !nd.test && !s.hb.contains nd.name).flatMap fun nd => (onNode s nd.name).map (·.id) := hj
      rcases List.mem_append.mp hj' with a | a
      · exact down_stable s _ j (h j a) (by simp)
      · obtain ⟨nd, hnd, hin⟩ := List.mem_flatMap.mp a
        obtain ⟨w, hw, e⟩ := List.mem_map.mp hin
        obtain ⟨hw1, hw2, hw3⟩ := (mem_onNode s nd.name w).mp hw
        have hf := (List.mem_filter.mp hnd)
        simp only [Bool.and_eq_true, Bool.not_eq_true'] at hf
        rw [← e]
        exact init_covers_prior_lapse s nd hf.1 hf.2.1 hf.2.2 w hw1 hw2 hw3

/-- from an initial state without reports: the obligations of the whole history -/
theorem history_reported_down (s0 : St) (evs : List Evt) :
    ∀ i ∈ obligations evs s0 [], getStatus (run s0 evs) i = some down :=
  obligations_reported_down evs s0 [] (fun _ h => by cases h)

/-- link with the decidable clause of the oracle: nothing on node `n` is "still up" iff every
workload listed on it is reported down -/
theorem stillUp_nil_iff (s : St) (n : String) :
    stillUp s n = [] ↔ ∀ w ∈ onNode s n, getStatus s w.id = some down := by
  simp only [stillUp, List.map_eq_nil_iff, List.filter_eq_nil_iff]
  constructor
  · intro h w hw; have := h w hw; simpa using this
  · intro h w hw; simp [h w hw]

/-- the `nameOk` guard is always met by workloads created through the cluster (names are
`app_entry_suffix`): every workload the model's `create` event records has `nameOk = true` -/
theorem run_nameOk (evs : List Evt) : ∀ (s : St), (∀ w ∈ s.wls, w.nameOk = true) → ∀ w ∈ (run s evs).wls, w.nameOk = true := by
  induction evs with
  | nil => intro s h; exact h
  | cons e rest ih =>
    intro s h
    apply ih (step s e)
    cases e with
    | heartbeat n => simp only [step]; split <;> exact h
    | lapse n =>
      simp only [step]
      split
      · rw [(dealMsg_frame _ _ _).2.2.1]; exact h
      · exact h
    | create k n =>
      intro w hw
      rcases List.mem_cons.mp hw with e | e
      · rw [e]
      · exact h w e
    | report k st => exact h
    | startWatcher => simp only [step, initNodeStatus]; rw [(initFold_frame _ _ _).2]; exact h
    | stopWatcher => exact h
    | standby => exact h
    | bypass n => exact h

/-- NOT covered by the property as implemented: a workload created on a node AFTER its lapse was
handled is not marked down (nothing re-examines the node until its next lapse or a watcher restart) -/
theorem created_after_lapse_not_marked :
    getStatus (run { nodes := [{ name := "n1" }], hb := ["n1"], active := true }
      [.lapse "n1", .create 1 "n1", .report 1 up]) 1 = some up ∧
    obligations [.lapse "n1", .create 1 "n1", .report 1 up] { nodes := [{ name := "n1" }], hb := ["n1"], active := true } [] = [] := by
  decide

/-- non-vacuity of the history theorem -/
example : obligations [.heartbeat "n1", .create 1 "n1", .report 1 up, .create 2 "n1", .startWatcher, .lapse "n1"]
    { nodes := [{ name := "n1" }] } [] = [2, 1] := by decide

end Eru.Props.C28

namespace Eru.Props.C28
open Eru.Cluster2.ND

/-- a BYPASSED (non-test) node is not exempt: its workloads are marked down by the scan of an activation -/
example : getStatus (run { nodes := [{ name := "n1" }], hb := ["n1"], wls := [⟨1, "n1", true⟩], status := [(1, up)] }
    [.bypass "n1", .lapse "n1", .startWatcher]) 1 = some down := by decide

/-- whatever the agent reported last (running but unhealthy, …), the handler writes `down` -/
example : getStatus (run { nodes := [{ name := "n1" }], hb := ["n1"], active := true, wls := [⟨1, "n1", true⟩] }
    [.report 1 ⟨true, false⟩, .lapse "n1"]) 1 = some down := by decide

/-- failover: the lapse happens while this watcher is standby (another instance holds the key);
the scan of the LATER activation covers it — `startWatcher` is every activation -/
example : obligations [.standby, .lapse "n1", .startWatcher]
      { nodes := [{ name := "n1" }], hb := ["n1"], wls := [⟨1, "n1", true⟩], status := [(1, up)] } [] = [1] ∧
    getStatus (run { nodes := [{ name := "n1" }], hb := ["n1"], wls := [⟨1, "n1", true⟩], status := [(1, up)] }
      [.standby, .lapse "n1", .startWatcher]) 1 = some down := by decide

end Eru.Props.C28
