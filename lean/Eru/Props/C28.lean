import Eru.Cluster2.ProofsNodeDown
/-
C28 — a failed node's workloads are reported down.
Model: `Eru/Cluster2/NodeDown.lean`.  "Eventually" is read as "once the watcher's handler for
the not-alive message has run"; delivery of the watch event is the environment's (assumed:
an active watcher receives a DELETE for every status key that disappears).
-/
namespace Eru.Props.C28
open Eru.Cluster2.ND

/-- after the handler for a not-alive message of an existing node `n` has run, every workload
recorded on `n` (whose name parses) is reported `running = false ∧ healthy = false` -/
theorem down_marks_all (s : St) (n : String) (hn : nodeExists s n = true) :
    ∀ w ∈ s.wls, w.node = n → w.nameOk = true → getStatus (dealMsg n false s) w.id = some down :=
  fun w hw hwn hok => dealMsg_marks n s hn w hw hwn hok

/-- a heartbeat lapse seen by an active watcher marks every workload of the node down -/
theorem lapse_marks_down (s : St) (n : String) (hact : s.active = true) (hhb : s.hb.contains n = true)
    (hn : nodeExists s n = true) :
    ∀ w ∈ s.wls, w.node = n → w.nameOk = true → getStatus (step s (.lapse n)) w.id = some down := by
  intro w hw hwn hok
  have hc : (s.active && s.hb.contains n) = true := by rw [hact, hhb]; rfl
  simp only [step, hc, if_true]
  exact dealMsg_marks n { s with hb := s.hb.filter (fun m => m != n) } hn w hw hwn hok

/-- a lapse that happened BEFORE the watcher started is covered by `initNodeStatus` — for
non-test nodes (explicit guard: `Test` nodes are forced alive, see `test_node_guard_needed`) -/
theorem init_covers_prior_lapse (s : St) (nd : NodeRec) (hnd : nd ∈ s.nodes) (htest : nd.test = false)
    (hlapsed : s.hb.contains nd.name = false) :
    ∀ w ∈ s.wls, w.node = nd.name → w.nameOk = true →
      getStatus (step s .startWatcher) w.id = some down := by
  intro w hw hwn hok
  have hex : nodeExists { s with active := true } nd.name = true := by
    simp only [nodeExists, List.any_eq_true]; exact ⟨nd, hnd, by simp⟩
  exact initFold_marks s.hb s.nodes { s with active := true } nd hnd htest hlapsed hex w hw hwn hok

/-- what is marked down stays down until an agent reports it again: handlers of other nodes,
further lapses, heartbeats, creations and watcher restarts never mark anything up -/
theorem down_stable (s : St) (e : Evt) (id : Nat) (h : getStatus s id = some down)
    (hrep : e ≠ .report id) : getStatus (step s e) id = some down := by
  cases e with
  | heartbeat n => simp only [step]; split <;> exact h
  | lapse n =>
    simp only [step]
    split
    · exact dealMsg_keeps _ _ _ _ h
    · exact h
  | create i n => exact h
  | report j =>
    have : id ≠ j := fun e => hrep (by rw [e])
    simp only [step]; rw [getStatus_setStatus_other _ _ _ _ this]; exact h
  | startWatcher => exact initFold_keeps _ _ _ _ h
  | stopWatcher => exact h

/-- the full statement for the init path WITHOUT the test-node guard … -/
def PropC28_init_unguarded : Prop :=
  ∀ (s : St) (nd : NodeRec), nd ∈ s.nodes → s.hb.contains nd.name = false →
    ∀ w ∈ s.wls, w.node = nd.name → w.nameOk = true → getStatus (step s .startWatcher) w.id = some down

def exTest : St := { nodes := [⟨"t1", true⟩], wls := [⟨1, "t1", true⟩], status := [(1, up)] }

/-- … is false: a `Test` node without heartbeat is forced alive by `initNodeStatus` -/
theorem test_node_guard_needed : ¬ PropC28_init_unguarded := by
  intro h
  have := h exTest ⟨"t1", true⟩ (by decide) (by decide) ⟨1, "t1", true⟩ (by decide) rfl rfl
  revert this; decide

/-- a lapse while NO watcher is active marks nothing (the part of "eventually" that depends on
a watcher being active) -/
example : getStatus (step { nodes := [⟨"n1", false⟩], hb := ["n1"], wls := [⟨1, "n1", true⟩], status := [(1, up)] } (.lapse "n1")) 1 = some up := by
  decide

/-! non-vacuity: an active watcher, a node with heartbeat and two workloads -/
def exS : St := { nodes := [⟨"n1", false⟩, ⟨"n2", false⟩], hb := ["n1", "n2"], active := true,
                  wls := [⟨1, "n1", true⟩, ⟨2, "n1", true⟩, ⟨3, "n2", true⟩], status := [(1, up), (2, up), (3, up)] }
example : exS.active = true ∧ exS.hb.contains "n1" = true ∧ nodeExists exS "n1" = true := by decide
example : stillUp (step exS (.lapse "n1")) "n1" = [] ∧ getStatus (step exS (.lapse "n1")) 3 = some up := by decide

end Eru.Props.C28
