import Eru.Wal.ProofsRefine
/-
C16 — the recovery log replays exactly the uncommitted events.

Concrete model (Eru/Wal/Hydro.lean): a bbolt bucket = persistent sequence counter + key/value
pairs kept in `bytes.Compare` order, keys `"/events/%016x"`; `Log` = `NextSequence` then `Put`
(two transactions: `begin`/`finish`, so that concurrent loggers and crashes in between are
histories too); `Commit` = `Delete`; `Recover` = cursor scan, decode, handle in scan order, delete on
success/not-needed.  Abstract log (Eru/Wal/Spec.lean): the list of logged, uncommitted, not yet
recovered events ordered by id.

Quantifier: every history `ops : List Op` of begin/finish/rejected/commit/reopen(crash)/recover with
arbitrary registered-type sets and arbitrary handler outcome functions `out : Event → HOut`.
`opsOk` says the history contains no foreign write into the bucket and commit ids are `uint64`s;
`begins ops < 2^64` says the 64-bit sequence does not wrap.
-/
namespace Eru.Props.C16
open Eru.Wal

/-- `parse_key` -/
theorem parse_key (id : Nat) (h1 : 1 ≤ id) (h : id < 2 ^ 64) : parseId (key id) = some id :=
  parseId_key id h1 h

/-- `key_order`: the byte order bbolt keeps keys in is the order in which ids were handed out -/
theorem key_order (a b : Nat) (ha : a < 2 ^ 64) (hb : b < 2 ^ 64) : lexLt (key a) (key b) = true ↔ a < b := by
  rw [lexLt_key a b ha hb]; simp

/-- refinement: over any history the concrete store produces the same observations (ids, handler
calls) as the abstract log, and what it holds reads back as exactly the abstract pending list -/
theorem refines (ops : List Op) (hok : opsOk ops) (hn : begins ops < 2 ^ 64) :
    (run ops {}).1 = (absRun ops {}).1 ∧ pendingOf (run ops {}).2 = (absRun ops {}).2.pending := by
  obtain ⟨h1, h2⟩ := run_refines ops {} {} Rel.init hok (by simpa using hn)
  refine ⟨h1, ?_⟩
  have hnext : (absRun ops {}).2.next < 2 ^ 64 := by
    rw [absRun_next]; simpa using hn
  rcases hst : (run ops {}).2 with ⟨seq, kv, infl⟩
  rw [hst] at h2
  have hkv := h2.kv
  simp only at hkv
  subst hkv
  exact pendingOf_map _ _ _ (fun e he => ⟨(h2.pend e he).1, Nat.lt_of_le_of_lt (h2.pend e he).2 hnext⟩)

/-- `recover_calls`: after any history, a recovery invokes handlers exactly as the abstract log
prescribes: for the pending events whose type has a handler, in id order -/
theorem recover_calls (ops : List Op) (reg : List String) (out : Event → HOut)
    (hok : opsOk ops) (hn : begins ops < 2 ^ 64) :
    (step (.recover reg out) (run ops {}).2).1 = .calls (absCalls reg out (absRun ops {}).2.pending) := by
  obtain ⟨_, h2⟩ := run_refines ops {} {} Rel.init hok (by simpa using hn)
  have hnext : (absRun ops {}).2.next + begins [Op.recover reg out] < 2 ^ 64 := by
    rw [absRun_next]; simpa [begins] using hn
  exact (step_refines (.recover reg out) _ _ h2 trivial hnext).1

/-- ids of the events whose handler chain was started (`Decode` is always the first call) -/
def replayedIds (cs : List HCall) : List Nat := (cs.filter (fun c => c.kind == .decode)).map (·.id)

theorem replayedIds_absCalls (reg : List String) (out : Event → HOut) (P : List Event) :
    replayedIds (absCalls reg out P) = (P.filter (fun e => reg.contains e.typ)).map (·.id) := by
  unfold replayedIds absCalls
  induction P with
  | nil => rfl
  | cons e r ih =>
    by_cases h : reg.contains e.typ = true
    · simp only [List.filter_cons, h, if_true, List.flatMap_cons, List.filter_append, List.map_append, ih, List.map_cons]
      cases out e <;> simp [handleOne]
    · simp only [List.filter_cons, h]; exact ih

/-- in logging order and at most once per recovery: the ids of the replayed events are strictly
increasing -/
theorem replayed_in_logging_order_at_most_once (ops : List Op) (reg : List String) (out : Event → HOut)
    (hok : opsOk ops) (hn : begins ops < 2 ^ 64) :
    (replayedIds (absCalls reg out (absRun ops {}).2.pending)).Pairwise (· < ·) := by
  obtain ⟨_, h2⟩ := run_refines ops {} {} Rel.init hok (by simpa using hn)
  rw [replayedIds_absCalls]
  exact List.Pairwise.map _ (fun _ _ h => h) (List.Pairwise.filter _ h2.sorted)

/-- only pending events are replayed, and every pending event with a registered type is -/
theorem replayed_iff_pending (reg : List String) (out : Event → HOut) (P : List Event) (n : Nat) :
    n ∈ replayedIds (absCalls reg out P) ↔ ∃ e ∈ P, e.id = n ∧ reg.contains e.typ = true := by
  rw [replayedIds_absCalls]
  simp only [List.mem_map, List.mem_filter]
  constructor
  · rintro ⟨e, ⟨he, hr⟩, hid⟩; exact ⟨e, he, hid, hr⟩
  · rintro ⟨e, he, hid, hr⟩; exact ⟨e, ⟨he, hr⟩, hid⟩

/-- a handler only ever sees events that are pending (their type and payload included) -/
theorem calls_only_pending (reg : List String) (out : Event → HOut) (P : List Event) (c : HCall)
    (hc : c ∈ absCalls reg out P) : ∃ e ∈ P, c.id = e.id ∧ c.typ = e.typ ∧ c.item = e.item ∧ reg.contains e.typ = true := by
  unfold absCalls at hc
  simp only [List.mem_flatMap, List.mem_filter] at hc
  obtain ⟨e, ⟨he, hr⟩, hce⟩ := hc
  obtain ⟨h1, h2, h3⟩ := handleOne_fields _ _ _ hce
  exact ⟨e, he, h1, h2, h3, hr⟩

/-- `removed_iff`: after a recovery an event is still in the store iff it was there before and its
handler did not succeed / declare it unnecessary (an unregistered type removes nothing) -/
theorem removed_iff (ops : List Op) (reg : List String) (out : Event → HOut) (e : Event)
    (hok : opsOk ops) (hn : begins ops < 2 ^ 64) :
    e ∈ pendingOf (run (ops ++ [.recover reg out]) {}).2 ↔
      e ∈ pendingOf (run ops {}).2 ∧ removes reg out e = false := by
  have hok' : opsOk (ops ++ [.recover reg out]) := opsOk_append ops _ hok trivial
  have hb := begins_append_recover ops reg out
  have hrun := absRun_append_recover ops reg out {}
  rw [(refines _ hok' (by rw [hb]; exact hn)).2, (refines _ hok hn).2, hrun]
  simp [List.mem_filter]

/-- `ids_fresh`: over ANY history (restarts, crashes with loggers in flight, even foreign writes)
the ids handed out are strictly increasing, hence never reused -/
theorem ids_fresh (ops : List Op) (st : St) : increasing (issued (run ops st).1) = true :=
  issued_increasing ops st

/-- a committed event is gone at once; a crash (`reopen`) loses in-flight loggers but no stored event -/
theorem commit_removes (a : Abs) (id : Nat) : ∀ e ∈ (absStep (.commit id) a).2.pending, e.id ≠ id := by
  intro e he; simp only [absStep, List.mem_filter, decide_eq_true_eq] at he; exact he.2

/-- once committed (the closure exists only after the `Put`, so the event is not in flight), an event
is never replayed again, whatever happens afterwards: no later recovery of any continuation of the
history calls a handler for its id -/
theorem committed_never_replayed (a : Abs) (id : Nat) (hid : id ≤ a.next) (hfl : ∀ e ∈ a.inflight, e.id ≠ id)
    (ops : List Op) (reg : List String) (out : Event → HOut) :
    id ∉ replayedIds (absCalls reg out (absRun ops (absStep (.commit id) a).2).2.pending) := by
  have hg : Gone id (absStep (.commit id) a).2 :=
    ⟨hid, fun e he => by simp only [absStep, List.mem_filter, decide_eq_true_eq] at he; exact he.2, hfl⟩
  have := (hg.run id ops _).2.1
  rw [replayed_iff_pending]
  rintro ⟨e, he, heq, _⟩
  exact this e he heq

/-- the same for an event a recovery removed (handler succeeded or declared it unnecessary) -/
theorem removed_never_replayed (a : Abs) (reg : List String) (out : Event → HOut) (e : Event)
    (he : e ∈ a.pending) (hs : Sorted a.pending) (hrm : removes reg out e = true)
    (hnext : e.id ≤ a.next) (hfl : ∀ x ∈ a.inflight, x.id ≠ e.id)
    (ops : List Op) (reg' : List String) (out' : Event → HOut) :
    e.id ∉ replayedIds (absCalls reg' out' (absRun ops (absStep (.recover reg out) a).2).2.pending) := by
  have hg : Gone e.id (absStep (.recover reg out) a).2 := by
    refine ⟨hnext, ?_, hfl⟩
    intro x hx
    simp only [absStep, List.mem_filter] at hx
    intro hid
    have : x = e := sorted_id_inj a.pending hs x e hx.1 he hid
    subst this
    simp [hrm] at hx
  have := (hg.run e.id ops _).2.1
  rw [replayed_iff_pending]
  rintro ⟨x, hx, heq, _⟩
  exact this x hx heq

theorem reopen_keeps_pending (a : Abs) : (absStep .reopen a).2.pending = a.pending ∧ (absStep .reopen a).2.next = a.next :=
  ⟨rfl, rfl⟩

-- non-vacuity: a concrete history with two loggers racing, a crash, and a failing handler
example :
    let ops : List Op := [.begin "t" "a", .begin "t" "b", .finish 2, .finish 1, .begin "u" "c", .reopen, .begin "t" "d", .finish 4,
      .commit 2, .recover ["t"] (fun e => if e.item = "a" then .handleErr else .ok)]
    opsOk ops ∧ (run ops {}).1.getLast? = some (.calls
      [⟨.decode, 1, "t", "a"⟩, ⟨.check, 1, "t", "a"⟩, ⟨.handle, 1, "t", "a"⟩,
       ⟨.decode, 4, "t", "d"⟩, ⟨.check, 4, "t", "d"⟩, ⟨.handle, 4, "t", "d"⟩]) ∧
    (pendingOf (run ops {}).2).map (·.id) = [1] := by
  refine ⟨by simp [opsOk, opOk], by decide, by decide⟩

end Eru.Props.C16
