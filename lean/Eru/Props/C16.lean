import Eru.Wal.ProofsInterleave
/-
C16 — the recovery log replays exactly the uncommitted events.

Concrete model (Eru/Wal/Hydro.lean): a bbolt bucket = persistent sequence counter + key/value
pairs kept in `bytes.Compare` order, keys `"/events/%016x"`; `Log` = `NextSequence` then `Put`
(two transactions: `begin`/`finish`, so that concurrent loggers and crashes in between are
histories too); `Commit` = `Delete`; `Recover` = cursor scan, decode, handle in scan order, delete on
success/not-needed.  Abstract log (Eru/Wal/Spec.lean): the list of logged, uncommitted, not yet
recovered events ordered by id.

Quantifier: every history `ops : List Op` of begin/finish/rejected/commit/reopen(crash)/recover with
arbitrary registered-type sets and arbitrary handler outcome functions `out : Event → HOut`.
`opsOk` says the history contains no foreign write into the bucket and commit ids are `uint64`s;
`begins ops < 2^64` says the 64-bit sequence does not wrap.
-/
namespace Eru.Props.C16
open Eru.Wal

/-- `parse_key` -/
theorem parse_key (id : Nat) (h1 : 1 ≤ id) (h : id < 2 ^ 64) : parseId (key id) = some id :=
  parseId_key id h1 h

/-- `key_order`: the byte order bbolt keeps keys in is the order in which ids were handed out -/
theorem key_order (a b : Nat) (ha : a < 2 ^ 64) (hb : b < 2 ^ 64) : lexLt (key a) (key b) = true ↔ a < b := by
  rw [lexLt_key a b ha hb]; simp

/-- refinement: over any history the concrete store produces the same observations (ids, handler
calls) as the abstract log, and what it holds reads back as exactly the abstract pending list -/
theorem refines (ops : List Op) (hok : opsOk ops) (hn : begins ops < 2 ^ 64) :
    (run ops {}).1 = (absRun ops {}).1 ∧ pendingOf (run ops {}).2 = (absRun ops {}).2.pending := by
  obtain ⟨h1, h2⟩ := run_refines ops {} {} Rel.init hok (by simpa using hn)
  refine ⟨h1, ?_⟩
  have hnext : (absRun ops {}).2.next < 2 ^ 64 := by
    rw [absRun_next]; simpa using hn
  rcases hst : (run ops {}).2 with ⟨seq, kv, infl⟩
  rw [hst] at h2
  have hkv := h2.kv
  simp only at hkv
  subst hkv
  exact pendingOf_map _ _ _ (fun e he => ⟨(h2.pend e he).1, Nat.lt_of_le_of_lt (h2.pend e he).2 hnext⟩)

/-- `recover_calls`: after any history, a recovery invokes handlers exactly as the abstract log
prescribes: for the pending events whose type has a handler, in id order -/
theorem recover_calls (ops : List Op) (reg : List String) (out : Event → HOut)
    (hok : opsOk ops) (hn : begins ops < 2 ^ 64) :
    (step (.recover reg out) (run ops {}).2).1 = .calls (absCalls reg out (absRun ops {}).2.pending) := by
  obtain ⟨_, h2⟩ := run_refines ops {} {} Rel.init hok (by simpa using hn)
  have hnext : (absRun ops {}).2.next + begins [Op.recover reg out] < 2 ^ 64 := by
    rw [absRun_next]; simpa [begins] using hn
  exact (step_refines (.recover reg out) _ _ h2 trivial hnext).1

/-- ids of the events whose handler chain was started (`Decode` is always the first call) -/
def replayedIds (cs : List HCall) : List Nat := (cs.filter (fun c => c.kind == .decode)).map (·.id)

theorem replayedIds_absCalls (reg : List String) (out : Event → HOut) (P : List Event) :
    replayedIds (absCalls reg out P) = (P.filter (fun e => reg.contains e.typ)).map (·.id) := by
  unfold replayedIds absCalls
  induction P with
  | nil => rfl
  | cons e r ih =>
    by_cases h : reg.contains e.typ = true
    · simp only [List.filter_cons, h, if_true, List.flatMap_cons, List.filter_append, List.map_append, ih, List.map_cons]
      cases out e <;> simp [handleOne]
    · simp only [List.filter_cons, h]; exact ih

/-- in logging order and at most once per recovery: the ids of the replayed events are strictly
increasing -/
theorem replayed_in_logging_order_at_most_once (ops : List Op) (reg : List String) (out : Event → HOut)
    (hok : opsOk ops) (hn : begins ops < 2 ^ 64) :
    (replayedIds (absCalls reg out (absRun ops {}).2.pending)).Pairwise (· < ·) := by
  obtain ⟨_, h2⟩ := run_refines ops {} {} Rel.init hok (by simpa using hn)
  rw [replayedIds_absCalls]
  exact List.Pairwise.map _ (fun _ _ h => h) (List.Pairwise.filter _ h2.sorted)

/-- only pending events are replayed, and every pending event with a registered type is -/
theorem replayed_iff_pending (reg : List String) (out : Event → HOut) (P : List Event) (n : Nat) :
    n ∈ replayedIds (absCalls reg out P) ↔ ∃ e ∈ P, e.id = n ∧ reg.contains e.typ = true := by
  rw [replayedIds_absCalls]
  simp only [List.mem_map, List.mem_filter]
  constructor
  · rintro ⟨e, ⟨he, hr⟩, hid⟩; exact ⟨e, he, hid, hr⟩
  · rintro ⟨e, he, hid, hr⟩; exact ⟨e, ⟨he, hr⟩, hid⟩

/-- a handler only ever sees events that are pending (their type and payload included) -/
theorem calls_only_pending (reg : List String) (out : Event → HOut) (P : List Event) (c : HCall)
    (hc : c ∈ absCalls reg out P) : ∃ e ∈ P, c.id = e.id ∧ c.typ = e.typ ∧ c.item = e.item ∧ reg.contains e.typ = true := by
  unfold absCalls at hc
  simp only [List.mem_flatMap, List.mem_filter] at hc
  obtain ⟨e, ⟨he, hr⟩, hce⟩ := hc
  obtain ⟨h1, h2, h3⟩ := handleOne_fields _ _ _ hce
  exact ⟨e, he, h1, h2, h3, hr⟩

/-- `removed_iff`: after a recovery an event is still in the store iff it was there before and its
handler did not succeed / declare it unnecessary (an unregistered type removes nothing) -/
theorem removed_iff (ops : List Op) (reg : List String) (out : Event → HOut) (e : Event)
    (hok : opsOk ops) (hn : begins ops < 2 ^ 64) :
    e ∈ pendingOf (run (ops ++ [.recover reg out]) {}).2 ↔
      e ∈ pendingOf (run ops {}).2 ∧ removes reg out e = false := by
  have hok' : opsOk (ops ++ [.recover reg out]) := opsOk_append ops _ hok trivial
  have hb := begins_append_recover ops reg out
  have hrun := absRun_append_recover ops reg out {}
  rw [(refines _ hok' (by rw [hb]; exact hn)).2, (refines _ hok hn).2, hrun]
  simp [List.mem_filter]

/-- `ids_fresh`: over ANY history (restarts, crashes with loggers in flight, even foreign writes)
the ids handed out are strictly increasing, hence never reused -/
theorem ids_fresh (ops : List Op) (st : St) : increasing (issued (run ops st).1) = true :=
  issued_increasing ops st

/-- a committed event is gone at once; a crash (`reopen`) loses in-flight loggers but no stored event -/
theorem commit_removes (a : Abs) (id : Nat) : ∀ e ∈ (absStep (.commit id) a).2.pending, e.id ≠ id := by
  intro e he; simp only [absStep, List.mem_filter, decide_eq_true_eq] at he; exact he.2

def callsOf : Obs → List HCall
  | .calls cs => cs
  | _ => []

/-- `recover_call_log` — ONE statement about the concrete handler-call log of `Hydro.Recover` after
any history, in terms of what the concrete store holds (`pendingOf`): the log is the per-event
handler chains of the stored events with a registered type, in id order; the replayed ids are strictly
increasing (logging order, at most once per recovery); an id is replayed iff a stored event with a
registered type carries it; and every single call carries the id, type and payload of a stored event. -/
theorem recover_call_log (ops : List Op) (reg : List String) (out : Event → HOut)
    (hok : opsOk ops) (hn : begins ops < 2 ^ 64) :
    let P := pendingOf (run ops {}).2
    let cs := callsOf (step (.recover reg out) (run ops {}).2).1
    cs = absCalls reg out P ∧
    (replayedIds cs).Pairwise (· < ·) ∧
    (∀ n, n ∈ replayedIds cs ↔ ∃ e ∈ P, e.id = n ∧ reg.contains e.typ = true) ∧
    (∀ c ∈ cs, ∃ e ∈ P, c.id = e.id ∧ c.typ = e.typ ∧ c.item = e.item ∧ reg.contains e.typ = true) := by
  intro P cs
  have hP : P = (absRun ops {}).2.pending := (refines ops hok hn).2
  have hcs : cs = absCalls reg out P := by
    show callsOf _ = _
    rw [recover_calls ops reg out hok hn, hP]; rfl
  refine ⟨hcs, ?_, ?_, ?_⟩
  · rw [hcs, hP]; exact replayed_in_logging_order_at_most_once ops reg out hok hn
  · intro n; rw [hcs]; exact replayed_iff_pending reg out P n
  · intro c hc; rw [hcs] at hc; exact calls_only_pending reg out P c hc

/-- `pending_iff_history` on the concrete store: after a history from the empty log, `e` is stored iff
the history contains the `Put` of the logger that held `e` in flight, and afterwards neither a
commit of its id nor a recovery that removes it (`keeps`). -/
theorem pending_iff_history (ops : List Op) (e : Event) (hok : opsOk ops) (hn : begins ops < 2 ^ 64) :
    e ∈ pendingOf (run ops {}).2 ↔
      ∃ ops1 ops2, ops = ops1 ++ .finish e.id :: ops2 ∧ e ∈ (run ops1 {}).2.inflight ∧ ops2.all (keeps e) = true := by
  rw [(refines ops hok hn).2, Eru.Wal.pending_iff_history ops {} AInv.init e]
  constructor
  · rintro (⟨h, _⟩ | ⟨o1, o2, h1, h2, h3⟩)
    · exact nomatch h
    · refine ⟨o1, o2, h1, ?_, h3⟩
      subst h1
      have hok1 := ((opsOk_append_iff _ _).mp hok).1
      have hb := begins_append o1 (.finish e.id :: o2)
      rw [(run_refines o1 {} {} Rel.init hok1 (by simp; omega)).2.infl]; exact h2
  · rintro ⟨o1, o2, h1, h2, h3⟩
    refine Or.inr ⟨o1, o2, h1, ?_, h3⟩
    subst h1
    have hok1 := ((opsOk_append_iff _ _).mp hok).1
    have hb := begins_append o1 (.finish e.id :: o2)
    rw [← (run_refines o1 {} {} Rel.init hok1 (by simp; omega)).2.infl]; exact h2

/-- `committed_never_replayed` over histories: if `e` is stored after `ops1` (logged, not committed,
not removed) and is then committed, no recovery after ANY continuation `ops2` (more logging with
concurrent loggers, crashes, other commits and recoveries) makes any handler call for its id. -/
theorem committed_never_replayed (ops1 ops2 : List Op) (e : Event) (reg : List String) (out : Event → HOut)
    (hok : opsOk (ops1 ++ .commit e.id :: ops2)) (hn : begins (ops1 ++ .commit e.id :: ops2) < 2 ^ 64)
    (he : e ∈ pendingOf (run ops1 {}).2) :
    ∀ c ∈ callsOf (step (.recover reg out) (run (ops1 ++ .commit e.id :: ops2) {}).2).1, c.id ≠ e.id := by
  have hok1 := ((opsOk_append_iff _ _).mp hok).1
  have hb := begins_append ops1 (.commit e.id :: ops2)
  have he' : e ∈ (absRun ops1 {}).2.pending := by rw [← (refines ops1 hok1 (by omega)).2]; exact he
  have hg := (gone_after_commit _ (AInv.reachable ops1) e he').run e.id ops2 _
  intro c hc
  rw [recover_calls _ reg out hok hn] at hc
  obtain ⟨x, hx, hid, _⟩ := calls_only_pending reg out _ c hc
  rw [absRun_append] at hx
  simp only [absRun] at hx
  rw [hid]; exact hg.2.1 x hx

/-- `removed_never_replayed` over histories: an event a recovery removed (its handler succeeded or
declared it unnecessary) is never passed to a handler again by any later recovery. -/
theorem removed_never_replayed (ops1 ops2 : List Op) (e : Event) (reg reg' : List String) (out out' : Event → HOut)
    (hok : opsOk (ops1 ++ .recover reg out :: ops2)) (hn : begins (ops1 ++ .recover reg out :: ops2) < 2 ^ 64)
    (he : e ∈ pendingOf (run ops1 {}).2) (hrm : removes reg out e = true) :
    ∀ c ∈ callsOf (step (.recover reg' out') (run (ops1 ++ .recover reg out :: ops2) {}).2).1, c.id ≠ e.id := by
  have hok1 := ((opsOk_append_iff _ _).mp hok).1
  have hb := begins_append ops1 (.recover reg out :: ops2)
  have he' : e ∈ (absRun ops1 {}).2.pending := by rw [← (refines ops1 hok1 (by omega)).2]; exact he
  have hg := (gone_after_recover _ (AInv.reachable ops1) reg out e he' hrm).run e.id ops2 _
  intro c hc
  rw [recover_calls _ reg' out' hok hn] at hc
  obtain ⟨x, hx, hid, _⟩ := calls_only_pending reg' out' _ c hc
  rw [absRun_append] at hx
  simp only [absRun] at hx
  rw [hid]; exact hg.2.1 x hx

-- the hypotheses are reachable: a decided instance (event 2 is stored after the prefix, gets
-- committed, and the later recovery, which replays 1 and 4, makes no call for it)
example :
    let ops1 : List Op := [.begin "t" "a", .begin "t" "b", .finish 2, .finish 1]
    let ops2 : List Op := [.begin "u" "c", .reopen, .begin "t" "d", .finish 4]
    let e : Event := ⟨2, "t", "b"⟩
    e ∈ pendingOf (run ops1 {}).2 ∧ opsOk (ops1 ++ .commit e.id :: ops2) ∧
    (callsOf (step (.recover ["t"] (fun _ => .ok)) (run (ops1 ++ .commit e.id :: ops2) {}).2).1).map (·.id) = [1, 1, 1, 4, 4, 4] := by
  refine ⟨by decide, by simp [opsOk, opOk], by decide⟩

theorem reopen_keeps_pending (a : Abs) : (absStep .reopen a).2.pending = a.pending ∧ (absStep .reopen a).2.next = a.next :=
  ⟨rfl, rfl⟩

/-! ### Recovery is not atomic in the code: scan, then one (check, handle, delete) per event

`Eru/Wal/Interleave.lean` splits `Op.recover` into `scan` + `handleNext` steps that other goroutines'
`Log`/`Commit` calls may interleave with.  What survives, and which clause needs more:

* handlers are called only for events that were stored AT SCAN TIME, in id order, each at most once per
  recovery — `interleaved_calls` — whatever runs in between;
* an event stored at scan time is gone afterwards iff its handler succeeded / declared it unnecessary OR
  it was committed in between — `interleaved_removed_iff`;
* ids stay fresh (`ids_fresh` is about `NextSequence` only; `scan`/`handleNext` issue no ids);
* the clause "handlers are called only for events that are logged and NOT COMMITTED" holds with
  "not committed when the scan ran"; it holds as stated only when no `Commit` runs concurrently with
  the recovery (`handler_runs_for_event_committed_after_scan` is the counterexample otherwise).  calcium
  runs `Recover` at start-up before it serves requests, i.e. as `recoverSeq`, for which the atomic
  theorems above apply unchanged (`sequential_recovery_removed_iff`). -/

/-- refinement of the interleaved model: over any history of base operations, scans (also failing
ones) and single handling steps, the concrete store produces the abstract observations, holds the
abstract pending list, and the recovery in progress holds the same scanned events -/
theorem interleaved_refines (ops : List ROp) (hok : ropsOk ops) (hn : rbegins ops < 2 ^ 64) :
    (rrun ops {}).1 = (rabsRun ops ({}, [])).1 ∧
    pendingOf (rrun ops {}).2.st = (rabsRun ops ({}, [])).2.1.pending ∧
    (rrun ops {}).2.scanned = (rabsRun ops ({}, [])).2.2 := by
  obtain ⟨h1, h2⟩ := rrun_refines ops {} ({}, []) RRel.init hok (by simpa using hn)
  refine ⟨h1, ?_, h2.sc⟩
  have hnext : (rabsRun ops ({}, [])).2.1.next < 2 ^ 64 := by
    have : ∀ (ops : List ROp) (a : Abs × List Event), (rabsRun ops a).2.1.next = a.1.next + rbegins ops := by
      intro ops
      induction ops with
      | nil => intro a; rfl
      | cons op ops ih =>
        intro a
        have := rbegins_cons op ops
        simp only [rabsRun]
        rw [ih, rabsStep_next]; omega
    rw [this]; simpa using hn
  exact pendingOf_rel h2.rel hnext

/-- `interleaved_calls`: a recovery whose scan saw the pending list `a.pending` (or, if the scan failed
after `n` entries, its first `n` events) makes exactly the handler chains of the first `handles ops` of
those events, in id order, whatever `Log`/`Commit` calls of other goroutines run in between: only events
stored at scan time, in logging order, at most once -/
theorem interleaved_calls (reg : List String) (out : Event → HOut) (lim : Option Nat) (ops : List ROp)
    (a : Abs) (sc0 : List Event) (hops : ∀ op ∈ ops, Inter reg out op) (hinv : AInv a) :
    let scanned := match lim with | none => a.pending | some n => a.pending.take n
    let cs := allCalls (rabsRun (.scan lim :: ops) (a, sc0)).1
    cs = absCalls reg out (scanned.take (handles ops)) ∧ (replayedIds cs).Pairwise (· < ·) := by
  intro scanned cs
  have h := (inter_calls reg out ops (a, scanned) hops).1
  have hcs : cs = absCalls reg out (scanned.take (handles ops)) := by
    show allCalls (rabsRun (.scan lim :: ops) (a, sc0)).1 = _
    simp only [rabsRun, rabsStep, allCalls]
    exact h
  refine ⟨hcs, ?_⟩
  rw [hcs, replayedIds_absCalls]
  have hsorted : Sorted scanned := by
    show Sorted (match lim with | none => a.pending | some n => a.pending.take n)
    cases lim with
    | none => exact hinv.sortedP
    | some n => exact List.Pairwise.sublist (List.take_sublist _ _) hinv.sortedP
  exact List.Pairwise.map _ (fun _ _ h => h)
    (List.Pairwise.filter _ (List.Pairwise.sublist (List.take_sublist _ _) hsorted))

/-- `interleaved_removed_iff`: for an event `e` stored when the scan ran, after the recovery handled
everything it scanned (`handles ops ≥` number of scanned events) with arbitrary logging and commits of
other goroutines in between: `e` is still stored iff its handler did not succeed / declare it
unnecessary AND no `Commit` of its id ran in between. -/
theorem interleaved_removed_iff (reg : List String) (out : Event → HOut) (ops : List ROp) (a : Abs) (sc0 : List Event)
    (e : Event) (hops : ∀ op ∈ ops, Inter reg out op) (hinv : AInv a) (he : e ∈ a.pending)
    (hall : a.pending.length ≤ handles ops) :
    e ∈ (rabsRun (.scan none :: ops) (a, sc0)).2.1.pending ↔
      removes reg out e = false ∧ ops.all (fun o => !commitsId e.id o) = true := by
  have h := inter_removed_iff reg out e ops (a, a.pending) hops hinv.sortedP
    (fun x hx hid => sorted_id_inj a.pending hinv.sortedP x e hx he hid)
    ⟨hinv.pend e he, fun x hx hid => hinv.disj x hx e he hid⟩
  have htake : a.pending.take (handles ops) = a.pending := List.take_of_length_le hall
  simp only [rabsRun, rabsStep]
  rw [h, htake]
  constructor
  · rintro ⟨_, h2, h3⟩; exact ⟨h3 he, h2⟩
  · rintro ⟨h1, h2⟩; exact ⟨he, h2, fun _ => h1⟩

/-- without anything in between (start-up recovery) this is the atomic `removed_iff` -/
theorem sequential_recovery_removed_iff (reg : List String) (out : Event → HOut) (a : Abs) (sc0 : List Event) (e : Event)
    (hinv : AInv a) (he : e ∈ a.pending) :
    e ∈ (rabsRun (recoverSeq reg out a.pending.length) (a, sc0)).2.1.pending ↔ removes reg out e = false := by
  have hops : ∀ op ∈ List.replicate a.pending.length (ROp.handleNext reg out), Inter reg out op := by
    intro op hop; rw [List.eq_of_mem_replicate hop]; exact ⟨rfl, rfl⟩
  have hh : ∀ n, handles (List.replicate n (ROp.handleNext reg out)) = n := by
    intro n; induction n with
    | zero => rfl
    | succ n ih => simp [List.replicate_succ, handles, ih]
  have := interleaved_removed_iff reg out _ a sc0 e hops hinv he (by rw [hh])
  unfold recoverSeq
  rw [this]
  have hc : (List.replicate a.pending.length (ROp.handleNext reg out)).all (fun o => !commitsId e.id o) = true := by
    rw [List.all_eq_true]; intro o ho; rw [List.eq_of_mem_replicate ho]; rfl
  simp [hc]

/-- the clause that needs "no commit concurrent with recovery": with a `Commit` landing between the scan
and the handling, the handler DOES run for an event that is committed by then (its `Delete` then hits a
missing key).  Concrete model, decided. -/
theorem handler_runs_for_event_committed_after_scan :
    let ops : List ROp := [.base (.begin "t" "a"), .base (.finish 1), .base (.begin "t" "b"), .base (.finish 2),
      .scan none, .base (.commit 2), .handleNext ["t"] (fun _ => .ok), .handleNext ["t"] (fun _ => .ok)]
    (allCalls (rrun ops {}).1).map (fun c => (c.id, c.item)) =
      [(1, "a"), (1, "a"), (1, "a"), (2, "b"), (2, "b"), (2, "b")] ∧ pendingOf (rrun ops {}).2.st = [] := by
  decide

/-! ### KV errors -/

/-- `Delete` failing inside `recover` (after a successful or unnecessary handling): the event is NOT
removed — it stays stored and the next recovery replays it -/
theorem delete_error_keeps_event (ops : List Op) (reg : List String) (out : Event → HOut) (e : Event)
    (hok : opsOk ops) (hn : begins ops < 2 ^ 64) (he : e ∈ pendingOf (run ops {}).2)
    (hout : out e = .okDelErr ∨ out e = .notNeededDelErr) :
    e ∈ pendingOf (run (ops ++ [.recover reg out]) {}).2 := by
  rw [removed_iff ops reg out e hok hn]
  refine ⟨he, ?_⟩
  rcases hout with h | h <;> simp [removes, h]

/-- `Put` failing after `NextSequence` (or the logger dying in between): the id is consumed — it is
never handed out again (`ids_fresh`) — and no event with that id is ever stored: a stored event's id
always has its `Put` (`finish`) in the history -/
theorem put_failure_id_never_pending (ops : List Op) (id : Nat) (hok : opsOk ops) (hn : begins ops < 2 ^ 64)
    (hnofinish : ∀ op ∈ ops, op ≠ .finish id) : ∀ e ∈ pendingOf (run ops {}).2, e.id ≠ id := by
  intro e he hid
  obtain ⟨o1, o2, h, _, _⟩ := (pending_iff_history ops e hok hn).mp he
  exact hnofinish (.finish e.id) (by rw [h]; simp) (by rw [hid])

/-- a failing scan (bbolt error after `n` entries): the recovery handles only (a prefix of) the first `n`
stored events — still only stored events, in id order, at most once — and `interleaved_removed_iff`'s
mechanism leaves every other event alone: nothing is removed that was not handled -/
theorem scan_error_only_prefix_handled (reg : List String) (out : Event → HOut) (n : Nat) (ops : List ROp)
    (a : Abs) (sc0 : List Event) (hops : ∀ op ∈ ops, Inter reg out op) (hinv : AInv a) :
    allCalls (rabsRun (.scan (some n) :: ops) (a, sc0)).1 = absCalls reg out ((a.pending.take n).take (handles ops)) :=
  (interleaved_calls reg out (some n) ops a sc0 hops hinv).1

-- non-vacuity: a concrete history with two loggers racing, a crash, and a failing handler
example :
    let ops : List Op := [.begin "t" "a", .begin "t" "b", .finish 2, .finish 1, .begin "u" "c", .reopen, .begin "t" "d", .finish 4,
      .commit 2, .recover ["t"] (fun e => if e.item = "a" then .handleErr else .ok)]
    opsOk ops ∧ (run ops {}).1.getLast? = some (.calls
      [⟨.decode, 1, "t", "a"⟩, ⟨.check, 1, "t", "a"⟩, ⟨.handle, 1, "t", "a"⟩,
       ⟨.decode, 4, "t", "d"⟩, ⟨.check, 4, "t", "d"⟩, ⟨.handle, 4, "t", "d"⟩]) ∧
    (pendingOf (run ops {}).2).map (·.id) = [1] := by
  refine ⟨by simp [opsOk, opOk], by decide, by decide⟩

end Eru.Props.C16
