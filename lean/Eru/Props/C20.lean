import Eru.Lock.ProofsOrder
/-
C20 — cluster operations take locks in one global order.
Property theorems only (helpers: Eru/Lock/ProofsOrder.lean).  Model: Eru/Lock/Order.lean
(lock.go / node.go after the D10 `fix:` commit).
-/
namespace Eru.Props.C20
open Eru Eru.Lock

/-- **ordered_traces.**  For every store content, every operation kind and all of its arguments
    (node filters with include lists in any order / with repeats / across pods, id lists in any
    order with repeats), every lock episode of the operation is disciplined: each acquisition is
    strictly above — in the global rank order pod < workload < node-operation, then by key — every
    lock held at that moment (so: ascending, no repeats, pod before workload), a node-operation lock
    is only taken while holding nothing but node-operation locks, and the episode ends holding
    nothing. -/
theorem ordered_traces (w : World) (op : Op) : ∀ ep ∈ episodes w op, traceOK ep = true := by
  intro ep hep
  rw [traceOK_iff]
  have nop : ∀ (ns : List Node) (H : List Key) (g : Nat), (∀ h ∈ H, h.group = g) → R H [] = some H := by
    intro _ H _ _; simp [R, run]
  cases op with
  | create nf rollback deployed =>
    simp only [episodes, List.mem_cons, List.mem_append, List.mem_map] at hep
    rcases hep with e | ⟨n, _, e⟩ | ⟨n, _, e⟩
    · subst e; exact nodesLocked_ok _ _ _ _ _ (fun ns H h => nop ns H _ h)
    · subst e; exact nodeOpLocked_ok _ _
    · subst e; exact nodePodLocked_ok _ _ _ (fun H _ => by simp [R, run])
  | capacity nf =>
    simp only [episodes, List.mem_singleton] at hep
    subst hep; exact nodesLocked_ok _ _ _ _ _ (fun ns H h => nop ns H _ h)
  | removePod pod =>
    simp only [episodes, List.mem_singleton] at hep
    subst hep; exact nodesLocked_ok _ _ _ _ _ (fun ns H h => nop ns H _ h)
  | nodeLocked node =>
    simp only [episodes, List.mem_singleton] at hep
    subst hep; exact nodePodLocked_ok _ _ _ (fun H _ => by simp [R, run])
  | remove ids =>
    simp only [episodes] at hep
    split at hep
    · cases hep
    · simp only [List.mem_flatMap, List.mem_cons, List.not_mem_nil, or_false] at hep
      obtain ⟨⟨node, wids⟩, _, e | e⟩ := hep
      · subst e; exact nodePodLocked_ok _ _ _ (fun H hH => workloadEach_ok w wids H hH)
      · subst e; exact nodeOpLocked_ok _ _
  | realloc id =>
    simp only [episodes] at hep
    split at hep
    · simp only [List.mem_cons, List.not_mem_nil, or_false] at hep
      rcases hep with e | e
      · subst e
        exact nodePodLocked_ok _ _ _ (fun H hH => by
          have := workloads_ok w false [id] H hH
          simpa [withWorkloadLocked] using this)
      · subst e; exact nodeOpLocked_ok _ _
    · cases hep
  | workloadEach ids ig =>
    simp only [episodes, List.mem_map] at hep
    obtain ⟨id, _, e⟩ := hep
    subst e
    exact workloads_ok w ig [id] [] (by intro h hm; cases hm)
  | replace ids =>
    simp only [episodes, List.mem_flatMap, List.mem_cons, List.not_mem_nil, or_false] at hep
    obtain ⟨id, _, e | e⟩ := hep
    · subst e; exact workloads_ok w false [id] [] (by intro h hm; cases hm)
    · subst e
      split
      · exact nodeOpLocked_ok _ _
      · simp [R, run]
  | remap node =>
    simp only [episodes, List.mem_singleton] at hep
    subst hep; exact nodeOpLocked_ok _ _
  | nodesPod nf =>
    simp only [episodes, List.mem_singleton] at hep
    subst hep; exact nodesLocked_ok _ _ _ _ _ (fun ns H h => nop ns H _ h)
  | nodesOp nf =>
    simp only [episodes, List.mem_singleton] at hep
    subst hep; exact nodesLocked_ok _ _ _ _ _ (fun ns H h => nop ns H _ h)
  | workloads ids ig =>
    simp only [episodes, List.mem_singleton] at hep
    subst hep; exact workloads_ok w ig ids [] (by intro h hm; cases hm)

/-- an episode cut short by a failure among its LEADING acquisitions (the outer `withNodesLocked` /
    `withWorkloadsLocked` bracket: wait timeout, store error) is disciplined too; a failure inside a
    nested bracket is `nested_acquisition_failure_ok` -/
theorem failed_acquisition_ok (w : World) (op : Op) (k : Nat) :
    ∀ ep ∈ episodes w op, traceOK (failTrunc k ep) = true :=
  fun ep hep => failTrunc_ok k ep (ordered_traces w op ep hep)

/-- a nested bracket (`withWorkloadLocked` under a held pod lock) that fails after taking `j` of its
    keys — they are released again, its callback does not run — leaves the enclosing trace
    disciplined; with `j = 0` and one key this is "drop a balanced acq/rel pair" -/
theorem nested_acquisition_failure_ok (a b : Trace) (g : Nat) (names : List String) (body : Trace) (j : Nat)
    (h : List Key) (ha : R [] a = some h) (hp : names.Pairwise (· < ·))
    (hlt : ∀ x ∈ h, ∀ n ∈ names, keyLt x ⟨g, n⟩ = true) (hop : g = gNodeOp → ∀ x ∈ h, x.group = gNodeOp)
    (hbody : R ((names.map (Key.mk g)).reverse ++ h) body = some ((names.map (Key.mk g)).reverse ++ h))
    (hall : traceOK (a ++ ((names.map (Key.mk g)).map .acq ++ body ++ (names.map (Key.mk g)).reverse.map .rel) ++ b) = true) :
    traceOK (a ++ (((names.take j).map (Key.mk g)).map .acq ++ [] ++ ((names.take j).map (Key.mk g)).reverse.map .rel) ++ b) = true := by
  rw [traceOK_iff] at hall ⊢
  exact nested_failure_ok a b g names body j h ha hp hlt hop hbody hall

example : traceOK [.acq ⟨0, "pa"⟩, .acq ⟨1, "w1"⟩, .rel ⟨1, "w1"⟩, .acq ⟨1, "w2"⟩, .rel ⟨1, "w2"⟩, .rel ⟨0, "pa"⟩] = true ∧
    traceOK [.acq ⟨0, "pa"⟩, .acq ⟨1, "w2"⟩, .rel ⟨1, "w2"⟩, .rel ⟨0, "pa"⟩] = true := by decide

/-- **nesting_ok.**  Every call site of a lock helper in cluster/calcium (table re-derived from the
    source on every run) nests only pod ⊃ workload; node-operation locks are never nested. -/
theorem nesting_ok : ∀ s ∈ nestingTable, allowedNesting s.outer s.inner = true := by decide

/-- the Go code sorts the *formatted* key strings; inside one group they share the prefix, so their
    order is the order of the names the model sorts -/
theorem formatted_key_order (pfx a b : String) : pfx ++ a < pfx ++ b ↔ a < b := prefix_lt_iff pfx a b

/-- threads that run episodes of cluster operations, started holding nothing -/
def threadsOf (eps : List Trace) : List (Thread Key) := eps.map fun ep => ⟨[], ep⟩

/-- every trace a thread may run: a lock episode of some operation on some store content (each
    episode may see a different store content — the store changes between operations), possibly cut
    short by a failing acquisition -/
def IsEpisode (ep : Trace) : Prop :=
  ∃ (w : World) (op : Op) (e : Trace), e ∈ episodes w op ∧ (ep = e ∨ ∃ k, ep = failTrunc k e)

theorem isEpisode_ok (ep : Trace) (h : IsEpisode ep) : traceOK ep = true := by
  obtain ⟨w, op, e, he, h1 | ⟨k, h1⟩⟩ := h
  · rw [h1]; exact ordered_traces w op e he
  · rw [h1]; exact failTrunc_ok k e (ordered_traces w op e he)

/-- **no_deadlock.**  Take any number of concurrently running lock episodes of any cluster
    operations, each on its own view of the store, some cut short by failing acquisitions.  In
    every state reachable by interleaving their lock events (an acquisition only succeeds when the
    key is free), as long as some episode is unfinished some episode can take its next step: no
    combination of operations deadlocks on locks. -/
theorem no_deadlock (eps : List Trace) (heps : ∀ ep ∈ eps, IsEpisode ep)
    (s : List (Thread Key)) (hreach : Reach (threadsOf eps) s) (hlive : ∃ t ∈ s, t.rest ≠ []) :
    ∃ s', Step s s' := by
  apply progress keyLt nodeOpRule keyLt_irrefl keyLt_trans s _ hlive
  apply reach_preserves_ok keyLt nodeOpRule hreach
  intro t ht
  simp only [threadsOf, List.mem_map] at ht
  obtain ⟨ep, hep, e⟩ := ht
  subst e
  exact (traceOK_iff ep).mp (isEpisode_ok ep (heps ep hep))

/-- the same in graph form: in every reachable state the wait-for graph has no cycle -/
theorem waitfor_graph_acyclic (eps : List Trace) (heps : ∀ ep ∈ eps, IsEpisode ep)
    (s : List (Thread Key)) (hreach : Reach (threadsOf eps) s) (t : Thread Key) :
    ¬ Relation.TransGen (WaitsFor s) t t := by
  apply waitfor_acyclic keyLt nodeOpRule keyLt_irrefl keyLt_trans s
  apply reach_preserves_ok keyLt nodeOpRule hreach
  intro t ht
  simp only [threadsOf, List.mem_map] at ht
  obtain ⟨ep, hep, e⟩ := ht
  subst e
  exact (traceOK_iff ep).mp (isEpisode_ok ep (heps ep hep))

/-- **no_deadlock for the whole operation alphabet.**  Any list of operations of any kind — create
    (with its remap and rollback episodes), capacity, remove-pod, set/remove node, node resource, remove,
    dissociate, realloc, replace, control / send / send-large / raw-engine (`workloadEach`), remap and
    the raw helpers — each on its own store content, all their episodes running concurrently: never a
    deadlock. -/
theorem no_deadlock_all_operations (jobs : List (World × Op))
    (s : List (Thread Key)) (hreach : Reach (threadsOf (jobs.flatMap fun j => episodes j.1 j.2)) s)
    (hlive : ∃ t ∈ s, t.rest ≠ []) : ∃ s', Step s s' := by
  apply no_deadlock _ _ s hreach hlive
  intro ep hep
  obtain ⟨j, _, hj⟩ := List.mem_flatMap.mp hep
  exact ⟨j.1, j.2, ep, hj, Or.inl rfl⟩

/-- the general theorem behind it (any key type, any strict partial order of ranks) -/
theorem no_deadlock_general {K : Type} [DecidableEq K] (lt : K → K → Bool) (extra : List K → K → Bool)
    (hirr : ∀ a, lt a a = false) (htr : ∀ a b c, lt a b = true → lt b c = true → lt a c = true)
    (init s : List (Thread K)) (hinit : ∀ t ∈ init, t.ok lt extra) (hreach : Reach init s)
    (hlive : ∃ t ∈ s, t.rest ≠ []) : ∃ s', Step s s' :=
  progress lt extra hirr htr s (reach_preserves_ok lt extra hreach hinit) hlive

/-- the discipline is necessary: the pre-fix behaviour (pod locks in include-list order) admits
    a reachable deadlock — two threads taking `plock_a, plock_b` and `plock_b, plock_a` -/
theorem unordered_can_deadlock :
    let a : Key := ⟨gPod, "a"⟩
    let b : Key := ⟨gPod, "b"⟩
    let s : List (Thread Key) := [⟨[a], [.acq b, .rel b, .rel a]⟩, ⟨[b], [.acq a, .rel a, .rel b]⟩]
    Reach [⟨[], [.acq a, .acq b, .rel b, .rel a]⟩, ⟨[], [.acq b, .acq a, .rel a, .rel b]⟩] s ∧
    (∃ t ∈ s, t.rest ≠ []) ∧ ¬ ∃ s', Step s s' := by
  intro a b s
  refine ⟨?_, ⟨_, List.mem_cons_self, by simp⟩, ?_⟩
  · have s1 := Step.acq (K := Key) [] [⟨[], [.acq b, .acq a, .rel a, .rel b]⟩] [] a [.acq b, .rel b, .rel a] (by simp)
    have s2 := Step.acq (K := Key) [⟨[a], [.acq b, .rel b, .rel a]⟩] [] [] b [.acq a, .rel a, .rel b] (by simp [a, b])
    exact Reach.step (Reach.step (Reach.refl _) s1) s2
  · rintro ⟨s', hs⟩
    generalize hs0 : s = s0 at hs
    cases hs with
    | acq pre post held k rest hfree =>
      rcases pre with _ | ⟨p, pre⟩
      · simp only [s, List.nil_append, List.cons.injEq] at hs0
        obtain ⟨e1, e2⟩ := hs0
        injection e1 with e1 e3; injection e3 with e3 e4; injection e3 with e3
        subst e1; subst e3; subst e2
        exact hfree ⟨[b], [.acq a, .rel a, .rel b]⟩ (by simp) (by simp)
      · rcases pre with _ | ⟨q, pre⟩
        · simp only [s, List.cons_append, List.nil_append, List.cons.injEq] at hs0
          obtain ⟨e0, e1, e2⟩ := hs0
          injection e1 with e1 e3; injection e3 with e3 e4; injection e3 with e3
          subst e0; subst e1; subst e3; subst e2
          exact hfree ⟨[a], [.acq b, .rel b, .rel a]⟩ (by simp) (by simp)
        · simp [s] at hs0
    | rel pre post held k rest =>
      rcases pre with _ | ⟨p, pre⟩
      · simp [s] at hs0
      · rcases pre with _ | ⟨q, pre⟩
        · simp [s] at hs0
        · simp [s] at hs0

/-! Non-vacuity: a store with two pods; a create whose include list names nodes of both pods in
    descending order with a repeat takes the pod locks ascending, each once; removing workloads
    of two nodes gives pod-then-workload episodes. -/
def exWorld : World :=
  { nodes := [⟨"n2", "pa", [], true, false⟩, ⟨"n1", "pb", [], true, false⟩, ⟨"n3", "pa", [], true, false⟩],
    workloads := [("w2", "n2"), ("w1", "n2"), ("w3", "n1")] }

example : episodes exWorld (.create ⟨"", ["n1", "n2", "n1"], [], [], false⟩ [] []) =
    [[.acq ⟨0, "pa"⟩, .acq ⟨0, "pb"⟩, .rel ⟨0, "pb"⟩, .rel ⟨0, "pa"⟩]] := by
  simp only [episodes, withNodesPodLocked, withNodesLocked, sortUnique_eq]; decide
example : episodes exWorld (.remove ["w2", "w3", "w1"]) =
    [[.acq ⟨0, "pa"⟩, .acq ⟨1, "w2"⟩, .rel ⟨1, "w2"⟩, .acq ⟨1, "w1"⟩, .rel ⟨1, "w1"⟩, .rel ⟨0, "pa"⟩],
     [.acq ⟨2, "pa_n2"⟩, .rel ⟨2, "pa_n2"⟩],
     [.acq ⟨0, "pb"⟩, .acq ⟨1, "w3"⟩, .rel ⟨1, "w3"⟩, .rel ⟨0, "pb"⟩],
     [.acq ⟨2, "pb_n1"⟩, .rel ⟨2, "pb_n1"⟩]] := by
  simp only [episodes, withNodePodLocked, withNodeOperationLocked, withNodesOperationLocked, withNodesPodLocked,
    withNodesLocked, withWorkloadLocked, withWorkloadsLocked, sortUnique_eq]; decide
example : episodes exWorld (.workloads ["w3", "w1", "w3", "w2"] false) =
    [[.acq ⟨1, "w1"⟩, .acq ⟨1, "w2"⟩, .acq ⟨1, "w3"⟩, .rel ⟨1, "w3"⟩, .rel ⟨1, "w2"⟩, .rel ⟨1, "w1"⟩]] := by
  simp only [episodes, withWorkloadsLocked, sortUnique_eq]; decide
/-- the discipline rejects the pre-fix trace -/
example : traceOK [.acq ⟨0, "pb"⟩, .acq ⟨0, "pa"⟩, .rel ⟨0, "pa"⟩, .rel ⟨0, "pb"⟩] = false := by decide
example : traceOK [.acq ⟨1, "w"⟩, .acq ⟨0, "pa"⟩, .rel ⟨0, "pa"⟩, .rel ⟨1, "w"⟩] = false := by decide
example : traceOK [.acq ⟨0, "pa"⟩, .acq ⟨2, "pa_n"⟩, .rel ⟨2, "pa_n"⟩, .rel ⟨0, "pa"⟩] = false := by decide

end Eru.Props.C20
