import Eru.Book.ProofsSum
/-
C15 — Resource repair restores consistent usage.
Property theorems only; helper lemmas live in Eru/Book/ProofsSum.lean.
-/
namespace Eru.Props.C15
open Eru Eru.Book

/-- Repair on a node whose usage has drifted *arbitrarily* (any stored usage; no relation
    to the workloads is assumed) and whose workloads fit the capacity: afterwards the check
    reports no differences, usage equals the workloads' sum on everything the check compares,
    and — whenever the repair actually ran — usage equals the sum on *every* core and NUMA node. -/
theorem fix_consistent (n : NodeInfo) (hw : WFNode n) (ws : List WorkloadRes) (hws : ∀ w ∈ ws, WFW w)
    (hfit : Fits n ws) :
    let n' := (fixNodeResource n ws).1
    resourceDiffs n' ws = [] ∧ ConsistentOn n'.capacity n'.usage ws ∧ n'.capacity = n.capacity ∧
    (resourceDiffs n ws ≠ [] → Consistent n'.usage ws) := by
  obtain ⟨_, _, _, _, hs⟩ := sumWorkloads_spec ws hws
  unfold fixNodeResource
  by_cases hd : (resourceDiffs n ws).length = 0
  · have hnil : resourceDiffs n ws = [] := List.eq_nil_of_length_eq_zero hd
    simp only [hd, if_true]
    exact ⟨hnil, (no_diffs_iff n ws hws).1 hnil, trivial, fun h => absurd hnil h⟩
  · simp only [hd, if_false]
    have hwf : WFNode { n with usage := repairedUsage ws } := ⟨hw.cc, hw.cn, hs.1, hs.2⟩
    have hval := validate_of_valid _ hwf hfit
    unfold repairedUsage at hval
    simp only [hval]
    have hcons := repairedUsage_consistent ws hws
    refine ⟨?_, ?_, trivial, fun _ => hcons⟩
    · exact (no_diffs_iff _ ws hws).2 ⟨hcons.1, hcons.2.1, fun k _ => hcons.2.2.1 k, fun k _ => hcons.2.2.2 k⟩
    · exact ⟨hcons.1, hcons.2.1, fun k _ => hcons.2.2.1 k, fun k _ => hcons.2.2.2 k⟩

/-- The check after a repair reports no differences, stated on the reported diff list
    (what `NodeResource(fix=false)` returns after `NodeResource(fix=true)`). -/
theorem second_check_clean (n : NodeInfo) (hw : WFNode n) (ws : List WorkloadRes) (hws : ∀ w ∈ ws, WFW w)
    (hfit : Fits n ws) : resourceDiffs (fixNodeResource n ws).1 ws = [] :=
  (fix_consistent n hw ws hws hfit).1

/-- the oracle's decidable predicates: fitting workloads and a drift that the check sees ⇒
    after the repair `consistentB` holds of the stored usage -/
theorem fix_consistent_decidable (n : NodeInfo) (hw : WFNode n) (ws : List WorkloadRes) (hws : ∀ w ∈ ws, WFW w)
    (hfit : Fits n ws) (hd : resourceDiffs n ws ≠ []) : consistentB (fixNodeResource n ws).1.usage ws = true :=
  (consistentB_iff _ _).2 ((fix_consistent n hw ws hws hfit).2.2.2 hd)

/-- Without differences the repair changes nothing and reports nothing. -/
theorem fix_noop_when_no_diffs (n : NodeInfo) (ws : List WorkloadRes) (h : resourceDiffs n ws = []) :
    fixNodeResource n ws = (n, n.usage, []) := by
  unfold fixNodeResource
  simp [h]

/-- If the workloads do not fit, the repair is refused by the validation, nothing is stored
    and the refusal is reported as an additional difference. -/
theorem fix_refused_when_not_fitting (n : NodeInfo) (ws : List WorkloadRes)
    (hd : resourceDiffs n ws ≠ []) (hfit : ¬ Fits n ws) :
    (fixNodeResource n ws).1 = n ∧ (fixNodeResource n ws).2.2.length = (resourceDiffs n ws).length + 1 := by
  unfold fixNodeResource
  have hd' : ¬ (resourceDiffs n ws).length = 0 := fun e => hd (List.eq_nil_of_length_eq_zero e)
  simp only [hd', if_false]
  obtain ⟨e, he⟩ := validate_error_of_not_valid _ hfit
  unfold repairedUsage at he
  simp [he]

/-- the hypotheses are satisfiable by a drifted node: usage claims core 0 half used and 7
    bytes, the only workload uses core 1 fully and 100 bytes -/
example : ∃ n ws, WFNode n ∧ (∀ w ∈ ws, WFW w) ∧ Fits n ws ∧ resourceDiffs n ws ≠ [] := by
  refine ⟨{ capacity := { cpu := 2 * nano, cpuMap := [("0", 100), ("1", 100)], memory := 1000 },
            usage := { cpu := nano / 2, cpuMap := [("0", 50)], memory := 7 } },
          [{ cpuRequest := nano, cpuMap := [("1", 100)], memoryRequest := 100 }], ?_, ?_, ?_, ?_⟩
  · exact ⟨by decide, by decide, by decide, by decide⟩
  · intro w hw; simp only [List.mem_singleton] at hw; subst hw; exact ⟨by decide, by decide⟩
  · decide
  · decide

end Eru.Props.C15
