import Eru.Book.ProofsSum
import Eru.Book.ProofsRemap
import Eru.Book.NodeResource
/-
C15 — Resource repair restores consistent usage.
Property theorems only; helper lemmas live in Eru/Book/ProofsSum.lean.
-/
namespace Eru.Props.C15
open Eru Eru.Book

/-- what the check compares implies full consistency on a stored node with fitting workloads:
    neither the usage (Validate) nor the workloads' sum (`Fits`) has per-core keys outside the
    capacity -/
theorem consistent_of_consistentOn (n : NodeInfo) (hv : Valid n) (ws : List WorkloadRes) (hws : ∀ w ∈ ws, WFW w)
    (hfit : Fits n ws) (h : ConsistentOn n.capacity n.usage ws) : Consistent n.usage ws := by
  obtain ⟨c1, c2, c3, c4⟩ := h
  obtain ⟨_, _, h3, _, _⟩ := sumWorkloads_spec ws hws
  refine ⟨c1, c2, fun k => ?_, c4⟩
  by_cases hk : k ∈ n.capacity.cpuMap.keys
  · exact c3 k hk
  · have hu : k ∉ n.usage.cpuMap.keys := fun hm => hk (usage_keys_subset n hv.2.1 k hm)
    have hs : k ∉ (sumWorkloads ws).cpuMap.keys := fun hm =>
      hk (usage_keys_subset { n with usage := repairedUsage ws } hfit.2.1 k hm)
    rw [get_of_not_mem_keys _ _ hu, ← h3, get_of_not_mem_keys _ _ hs]

/-- Repair on a stored node whose usage has drifted *arbitrarily* (any usage the plugin can hold:
    total CPU, memory, per-core pieces, NUMA memory under any id; no relation to the workloads
    is assumed) and whose workloads fit the capacity: afterwards the usage equals the sum of the
    workloads' resources on every component, and the check reports no differences. -/
theorem fix_consistent (n : NodeInfo) (hw : WFNode n) (hv : Valid n) (ws : List WorkloadRes) (hws : ∀ w ∈ ws, WFW w)
    (hfit : Fits n ws) :
    Consistent (fixNodeResource n ws).1.usage ws ∧ resourceDiffs (fixNodeResource n ws).1 ws = [] ∧
    (fixNodeResource n ws).1.capacity = n.capacity := by
  obtain ⟨_, _, _, _, hs⟩ := sumWorkloads_spec ws hws
  unfold fixNodeResource
  by_cases hd : (resourceDiffs n ws).length = 0
  · have hnil : resourceDiffs n ws = [] := List.eq_nil_of_length_eq_zero hd
    simp only [hd, if_true]
    exact ⟨consistent_of_consistentOn n hv ws hws hfit ((no_diffs_iff n ws hws).1 hnil), hnil, trivial⟩
  · simp only [hd, if_false]
    have hwf : WFNode { n with usage := repairedUsage ws } := ⟨hw.cc, hw.cn, hs.1, hs.2⟩
    have hval := validate_of_valid _ hwf hfit
    unfold repairedUsage at hval
    simp only [hval]
    have hcons := repairedUsage_consistent ws hws
    exact ⟨hcons, (no_diffs_iff _ ws hws).2 ⟨hcons.1, hcons.2.1, fun k _ => hcons.2.2.1 k, hcons.2.2.2⟩, trivial⟩

/-- The check after a repair reports no differences, stated on the reported diff list
    (what `NodeResource(fix=false)` returns after `NodeResource(fix=true)`). -/
theorem second_check_clean (n : NodeInfo) (hw : WFNode n) (hv : Valid n) (ws : List WorkloadRes) (hws : ∀ w ∈ ws, WFW w)
    (hfit : Fits n ws) : resourceDiffs (fixNodeResource n ws).1 ws = [] :=
  (fix_consistent n hw hv ws hws hfit).2.1

/-- the oracle's decidable predicates: fitting workloads on a stored node ⇒ after the repair
    `consistentB` holds of the stored usage -/
theorem fix_consistent_decidable (n : NodeInfo) (hw : WFNode n) (hv : Valid n) (ws : List WorkloadRes) (hws : ∀ w ∈ ws, WFW w)
    (hfit : Fits n ws) : consistentB (fixNodeResource n ws).1.usage ws = true :=
  (consistentB_iff _ _).2 (fix_consistent n hw hv ws hws hfit).1

/-- Before the fix the check compared per-NUMA usage over the capacity's ids only: NUMA usage
    recorded under an id missing from the capacity (here: on a node without NUMA topology) produced
    no difference, so the repair did not run although usage ≠ Σ workloads (witness replayed on the
    real code by the harness' foreign-NUMA drift class). -/
theorem fix_misses_foreign_numa_counterexample :
    let n : NodeInfo := { capacity := { cpu := nano, cpuMap := [("0", 100)], memory := 1000 },
                          usage := { numaMemory := [("0", 500)] } }
    let oldNumaDiffs := n.capacity.numaMemory.keys.filter fun id => (sumWorkloads []).numaMemory.get id ≠ n.usage.numaMemory.get id
    Valid n ∧ oldNumaDiffs = [] ∧ ¬ Consistent n.usage [] ∧ resourceDiffs n [] = ["numa:0"] := by
  refine ⟨by decide, by decide, ?_, by decide⟩
  intro h
  have := h.2.2.2 "0"
  revert this; decide

/-! ### lifted through cobalt's extraction and calcium's `NodeResource` -/

/-- `Calcium.NodeResource(node, fix=true)` on a stored node whose usage has drifted arbitrarily and
    whose recorded workloads fit: afterwards the cpumem usage equals the sum of the recorded
    workloads' cpumem resources on every component (a workload without a cpumem entry counts as
    the zero resource), and a following `NodeResource(node, fix=false)` reports no resource
    difference — only what the other plugins report and the inspect failures of the engine.
    ASSUMPTION (checked on the real code by the cluster group's lock-trace stream,
    `C15:fix-without-pod-lock`): the listing of the node's workloads and the repair happen under
    the pod lock, so `stored` is the same list for the check, the repair and the second check, and
    no other operation changes the node in between. -/
theorem nodeResource_fix_consistent (n : NodeInfo) (hw : WFNode n) (hv : Valid n) (stored : List StoredWorkload)
    (hws : ∀ w ∈ extractCpumem stored, WFW w) (hfit : Fits n (extractCpumem stored))
    (otherDiffs : List String) (inspectFails : String → Bool) :
    let r := calciumNodeResource n stored true true true otherDiffs inspectFails
    Consistent r.1.usage (extractCpumem stored) ∧ r.2.1 = some r.1.usage ∧
    (calciumNodeResource r.1 stored true false true otherDiffs inspectFails).2.2 =
      otherDiffs ++ (stored.filter fun w => inspectFails w.id).map (fun w => "inspect:" ++ w.id) ∧
    (calciumNodeResource r.1 stored true false true otherDiffs inspectFails).1 = r.1 := by
  obtain ⟨hc, hd, _⟩ := fix_consistent n hw hv (extractCpumem stored) hws hfit
  have husage : (fixNodeResource n (extractCpumem stored)).2.1 = (fixNodeResource n (extractCpumem stored)).1.usage := by
    unfold fixNodeResource
    by_cases h0 : (resourceDiffs n (extractCpumem stored)).length = 0
    · simp [h0]
    · simp only [h0, if_false]
      have hwf : WFNode { n with usage := repairedUsage (extractCpumem stored) } := by
        obtain ⟨_, _, _, _, hs⟩ := sumWorkloads_spec (extractCpumem stored) hws
        exact ⟨hw.cc, hw.cn, hs.1, hs.2⟩
      have hval := validate_of_valid _ hwf hfit
      unfold repairedUsage at hval
      simp only [hval]
  simp only [calciumNodeResource, managerNodeResourceInfo, Bool.not_true, Bool.false_eq_true, if_false, if_true, hd,
    List.nil_append]
  exact ⟨hc, by rw [husage], trivial, trivial⟩

/-- If the cpumem plugin is not on the configured whitelist the manager never calls it: nothing
    is checked and nothing is repaired (configuration, outside the property). -/
theorem nodeResource_not_whitelisted (n : NodeInfo) (stored : List StoredWorkload) (inspect fix : Bool)
    (otherDiffs : List String) (inspectFails : String → Bool) :
    (calciumNodeResource n stored inspect fix false otherDiffs inspectFails).1 = n := by
  simp [calciumNodeResource, managerNodeResourceInfo]

/-- Without differences the repair changes nothing and reports nothing. -/
theorem fix_noop_when_no_diffs (n : NodeInfo) (ws : List WorkloadRes) (h : resourceDiffs n ws = []) :
    fixNodeResource n ws = (n, n.usage, []) := by
  unfold fixNodeResource
  simp [h]

/-- If the workloads do not fit, the repair is refused by the validation, nothing is stored
    and the refusal is reported as an additional difference. -/
theorem fix_refused_when_not_fitting (n : NodeInfo) (ws : List WorkloadRes)
    (hd : resourceDiffs n ws ≠ []) (hfit : ¬ Fits n ws) :
    (fixNodeResource n ws).1 = n ∧ (fixNodeResource n ws).2.2.length = (resourceDiffs n ws).length + 1 := by
  unfold fixNodeResource
  have hd' : ¬ (resourceDiffs n ws).length = 0 := fun e => hd (List.eq_nil_of_length_eq_zero e)
  simp only [hd', if_false]
  obtain ⟨e, he⟩ := validate_error_of_not_valid _ hfit
  unfold repairedUsage at he
  simp [he]

/-- the hypotheses are satisfiable by a drifted node: usage claims core 0 half used and 7
    bytes, the only workload uses core 1 fully and 100 bytes -/
example : ∃ n ws, WFNode n ∧ (∀ w ∈ ws, WFW w) ∧ Fits n ws ∧ resourceDiffs n ws ≠ [] := by
  refine ⟨{ capacity := { cpu := 2 * nano, cpuMap := [("0", 100), ("1", 100)], memory := 1000 },
            usage := { cpu := nano / 2, cpuMap := [("0", 50)], memory := 7 } },
          [{ cpuRequest := nano, cpuMap := [("1", 100)], memoryRequest := 100 }], ?_, ?_, ?_, ?_⟩
  · exact ⟨by decide, by decide, by decide, by decide⟩
  · intro w hw; simp only [List.mem_singleton] at hw; subst hw; exact ⟨by decide, by decide⟩
  · decide
  · decide

end Eru.Props.C15
