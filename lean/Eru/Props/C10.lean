import Eru.Cluster.ProofsSerial
/-
C10 — Node usage always equals the sum of the workloads recorded on the node.

"After any history of create, remove, dissociate, realloc, replace and set-node operations,
including ones hit by a single injected engine, store or plugin failure, every node's recorded
CPU, per-core, memory and NUMA-memory usage equals the sum over the workloads recorded on that
node. ..."

Model: `Eru/Cluster/*` (operations as step programs with the `utils.Txn` combinator, every
externally visible call a step that the single-fault plan can fail). `Consistent` is equality
of resource VECTORS (all four components at once; `Res4` is the concrete instance the oracle
evaluates on the implementation's snapshots), the theorems hold for every commutative group of
resources. `Inv` = `Consistent` ∧ ids distinct and below the fresh-id counter.

The full statement is FALSE for the current code: `replace.go`'s inner transaction has no
rollback (finding D13), so the theorem is proved with a guard that excludes exactly the faults
on the removal of the old workload, and the negation of the full statement is proved from a
concrete witness.  realloc (D11), create (D12) were repaired in /repo; the model is the
repaired code.
-/
namespace Eru.Props.C10
open Eru.Cluster

variable {R : Type} [ResAlg R]

/-- side conditions on an operation's arguments in state `s`: the deploy plan names every node
once (keys of Go's `deployMap`); the resource layer's realloc answer is coherent (new = old + delta). -/
def ArgsOK (s : State R) : Op R → Prop
  | .create a => (a.plan.map (·.1)).Nodup
  | .realloc _ id ans => ReallocOK s id ans
  | .addNode n _ => NoWlOn n s      -- no workload is recorded under the name of the node to add
  | _ => True

/-- the faults under which the current code is known to break C10 (D13): those on the removal
of the old workload inside replace -/
def Excluded : Op R → Option Addr → Prop
  | .replace _ _, flt => ¬ ReplaceGuard flt
  | _, _ => False

/-- **The full statement** (false for the current code, see `consistent_step_counterexample`). -/
def PropC10 : Prop :=
  ∀ (op : Op Int) (flt : Option Addr) (s : State Int), Inv s → ArgsOK s op → Inv (after op flt s)

/-- **C10, one operation, every single-fault placement** (partial: replace faults of D13 excluded).
Running any operation from a state satisfying the invariant, with the single fault placed at ANY
step address (or nowhere), ends in a state satisfying the invariant. -/
theorem consistent_step_partial (op : Op R) (flt : Option Addr) (s : State R) (cancel : Option (Addr × Bool))
    (h : Inv s) (hargs : ArgsOK s op) (hex : ¬ Excluded op flt) : Inv (after op flt s cancel) := by
  unfold after run
  cases op with
  | create a => exact create_inv a hargs flt { st := s, cancel := cancel } ⟨h, rfl, rfl⟩
  | remove f g => exact pres_remove f g flt { st := s, cancel := cancel } h
  | dissociate f g => exact pres_dissociate f g flt { st := s, cancel := cancel } h
  | realloc n id ans => exact realloc_inv n id ans flt { st := s, cancel := cancel } h hargs
  | replace n id =>
    have hG : ReplaceGuard flt := Classical.not_not.mp hex
    exact replace_inv n id flt hG { st := s, cancel := cancel } h
  | setNode n c => exact pres_setNode n c true flt { st := s, cancel := cancel } h
  | addNode n c => exact (pres_addNode n c flt { st := s, cancel := cancel } ⟨h, hargs⟩).1
  | removeNode n => exact pres_removeNode n flt { st := s, cancel := cancel } h
  | nodeResource n fix => exact pres_nodeResource n fix flt { st := s, cancel := cancel } h

/-- a history is admissible: every operation's arguments are fine in the state it runs in and no
excluded fault is used -/
def HistOK : State R → List (Op R × Option Addr × Option (Addr × Bool)) → Prop
  | _, [] => True
  | s, (op, flt, cn) :: rest => ArgsOK s op ∧ ¬ Excluded op flt ∧ HistOK (after op flt s cn) rest

/-- **C10, every history**: induction over the operation list. -/
theorem consistent_run_partial (h : List (Op R × Option Addr × Option (Addr × Bool))) : ∀ (s : State R), Inv s → HistOK s h →
    Inv (runHistory h s) := by
  induction h with
  | nil => intro s hs _; exact hs
  | cons x rest ih =>
    obtain ⟨op, flt, cn⟩ := x
    intro s hs hok
    exact ih _ (consistent_step_partial op flt s cn hs hok.1 hok.2.1) hok.2.2

/-- corollary in the words of the property: usage = Σ recorded workloads on every node, after
every admissible history -/
theorem usage_eq_sum_after_history (h : List (Op R × Option Addr × Option (Addr × Bool))) (s : State R) (hs : Inv s)
    (hok : HistOK s h) : ∀ n, (runHistory h s).usage n = load (runHistory h s) n :=
  (consistent_run_partial h s hs hok).2.2

/-! ### concurrent operations

Which lock covers the usage-changing section (checked on the real code on every run: the harness
replays the lock / unlock events and reports `C10:usage-write-without-pod-lock` for any
`pluginSetUsage:*`, `pluginAlloc`, `pluginRealloc`, `pluginRollback*` call made while the pod lock of
the node's pod is not held):

| operation | usage-changing section | lock held |
|---|---|---|
| remove, dissociate | the per-node loop (decrement, remove, re-increment) | pod lock of the node's pod |
| realloc | the whole transaction | pod lock |
| create | condition step (all allocations); each give-back of the rollback | pod locks of all candidate nodes; pod lock per node |
| set-node, remove-node | the whole transaction (capacity / record only) | pod lock |
| node-resource check / fix | list records, compare, rewrite usage | pod lock |
| replace | none (the new workload inherits the resources) | workload lock only |
| add-node | creates a record nobody else can address yet | none |

The table is a CHECKED FACT, not an assumption about the code: on every run the harness records the lock /
unlock events (`ckit.Options{TraceLocks}`) and fails with `C10:usage-write-without-pod-lock` if any of the calls of
the middle column is made while the pod lock of the node's pod is not held (a seeded change that moves dissociate or
the node-resource repair to the node-operation lock is caught by exactly this check).

Under that discipline an operation's usage-changing section is an atomic block with respect to
every other such section of the same pod. Create's deploy phase runs outside the lock but writes no
usage and only adds records with fresh ids; it is treated as part of create's block. -/

/-- an operation with a fault plan, as an atomic block -/
def block (p : Op R × Option Addr × Option (Addr × Bool)) : State R → State R := fun s => after p.1 p.2.1 s p.2.2

/-- a block whose side conditions hold in every state and whose fault is not excluded -/
def BlockOK (p : Op R × Option Addr × Option (Addr × Bool)) : Prop := (∀ s, ArgsOK s p.1) ∧ ¬ Excluded p.1 p.2.1

/-- **C10 under interleaving**: two clients issue operation sequences `xs`, `ys`; whatever way the
blocks interleave (each client's own order kept), the invariant survives. -/
theorem consistent_concurrent_partial (xs ys : List (Op R × Option Addr × Option (Addr × Bool)))
    (hx : ∀ p ∈ xs, BlockOK p) (hy : ∀ p ∈ ys, BlockOK p)
    (sched : List (State R → State R)) (h : sched ∈ merges (xs.map block) (ys.map block))
    (s : State R) (hs : Inv s) : Inv (runBlocks sched s) := by
  apply pres_of_interleaving Inv (xs.map block) (ys.map block) _ _ sched h s hs
  · intro f hf s' hs'
    obtain ⟨p, hp, rfl⟩ := List.mem_map.mp hf
    exact consistent_step_partial p.1 p.2.1 s' p.2.2 hs' ((hx p hp).1 s') (hx p hp).2
  · intro f hf s' hs'
    obtain ⟨p, hp, rfl⟩ := List.mem_map.mp hf
    exact consistent_step_partial p.1 p.2.1 s' p.2.2 hs' ((hy p hp).1 s') (hy p hp).2

/-- **C10 under interleaving, any number of clients**: every interleaving of the operation sequences
of any number of concurrent clients (each client's own order kept) preserves the invariant. -/
theorem consistent_concurrentN_partial (clients : List (List (Op R × Option Addr × Option (Addr × Bool))))
    (hok : ∀ xs ∈ clients, ∀ p ∈ xs, BlockOK p)
    (sched : List (State R → State R)) (h : sched ∈ mergesAll (clients.map (·.map block)))
    (s : State R) (hs : Inv s) : Inv (runBlocks sched s) := by
  apply pres_of_interleavingN Inv (clients.map (·.map block)) _ sched h s hs
  intro fs hfs f hf s' hs'
  obtain ⟨xs, hxs, rfl⟩ := List.mem_map.mp hfs
  obtain ⟨p, hp, rfl⟩ := List.mem_map.mp hf
  exact consistent_step_partial p.1 p.2.1 s' p.2.2 hs' ((hok xs hxs p hp).1 s') (hok xs hxs p hp).2

/-- two operations started together end in one of the two sequential orders (what the harness'
concurrent stream compares the real post-state with) -/
theorem two_ops_serialise (p q : Op R × Option Addr × Option (Addr × Bool)) (sched : List (State R → State R))
    (h : sched ∈ merges [block p] [block q]) (s : State R) :
    runBlocks sched s = block q (block p s) ∨ runBlocks sched s = block p (block q s) :=
  podlock_serialises (block p) (block q) sched h s

/-! ### the capacity clause

"No allocation ever raises a node's core or memory usage above its capacity" is a property of the
resource layer's answers (the plan and the per-instance resources are arguments of this model):
it is carried by C04 / C07 / C08 and, at the cluster level, by the oracle, which evaluates
`usage ≤ capacity` (memory, every core, every NUMA node) on every implementation snapshot
(`C10:over-capacity:<op>:<fault>`). Nothing about capacity is proved in this file.

`ArgsOK` for add-node (`NoWlOn`: no record under the new node's name) is an argument hypothesis; it
holds along histories of the real system as long as workloads are only recorded on nodes the
store knows (C22). -/

/-- one node, one workload of size 5 -/
def witness : State Int :=
  { nodes := ["n"], cap := fun _ => 10, usage := fun m => if m = "n" then 5 else 0,
    wls := [⟨1, "n", 5⟩], cts := [⟨1, "n", true⟩], next := 2 }

theorem witness_inv : Inv witness := by
  refine ⟨by decide, by decide, ?_⟩
  intro n
  by_cases h : n = "n"
  · subst h; decide
  · have h' : ¬ "n" = n := fun e => h e.symm
    simp [witness, load, loadL, h, h']
    rfl

/-- **D13 in the model**: replacing the workload while the store refuses to remove the old record
leaves both records with the usage counted once. -/
theorem consistent_step_counterexample : ¬ PropC10 := by
  intro hp
  have := hp (.replace "n" 1) (some ⟨"storeRemoveWorkload", "n", 0⟩) witness witness_inv trivial
  have h := this.2.2 "n"
  revert h
  decide

/-- the hypotheses of the theorems are satisfiable by a non-trivial state and history: a realloc of
the witness workload hit by a store failure, followed by a two-instance create hit by an engine failure -/
example : HistOK witness
    [(.realloc "n" 1 (some (3, 8)), some ⟨"storeUpdateWorkload", "n", 0⟩, none),
     (.create { plan := [("n", [2, 1])] }, none, some (⟨"storeAddWorkload", "n", 0⟩, true))] := by
  refine ⟨?_, fun h => h, ?_, fun h => h, trivial⟩
  · intro w hw hid delta newRes hans
    simp only [Option.some.injEq, Prod.mk.injEq] at hans
    obtain ⟨rfl, rfl⟩ := hans
    simp only [witness, List.mem_singleton] at hw
    subst hw
    decide
  · show ([("n", [(2 : Int), 1])].map (·.1)).Nodup
    decide

end Eru.Props.C10
