import Eru.Lock.ProofsFilter
/-
C21 — node selection yields exactly the filtered set of distinct nodes.
Property theorems only (helper lemmas: Eru/Lock/ProofsFilter.lean).  Model: Eru/Lock/Filter.lean
(`utils.Unique` as written; `filterNodes` after the D10 `fix:` commit).
-/
namespace Eru.Props.C21
open Eru Eru.Lock

/-- `utils.Unique` as written (own `slices.Sort`, swap loop): the returned prefix is strictly
    ascending (so: distinct), has exactly the values of the input, `j` is within bounds and the
    slice as a whole is only permuted (nothing lost behind the prefix). -/
theorem unique_spec (s : Array String) :
    ((uniqueGo s).1.toList.take (uniqueGo s).2).Pairwise (· < ·) ∧
    (∀ x, x ∈ (uniqueGo s).1.toList.take (uniqueGo s).2 ↔ x ∈ s.toList) ∧
    (uniqueGo s).2 ≤ (uniqueGo s).1.size ∧
    (uniqueGo s).1.toList.Perm s.toList := by
  have hp := uniqueGo_prefix s
  obtain ⟨p1, _, p3, p4⟩ := dedup_spec id _ none (sortStrings_sorted s.toList) (by intro k hk; cases hk)
  refine ⟨by rw [hp]; exact p1, ?_, ?_, ?_⟩
  · intro x; rw [hp]
    constructor
    · intro h; exact mem_sortStrings.mp (p3 x h)
    · intro h
      rcases p4 x (mem_sortStrings.mpr h) with h' | ⟨y, hy, e⟩
      · cases h'
      · simp only [id] at e; exact e ▸ hy
  · exact uniqLoop_le _ 0 0 "" (Nat.le_refl _) (Nat.zero_le _)
  · exact (uniqLoop_perm _ 0 0 "").trans (by simpa using sortStrings_perm s.toList)

example : sortUnique ["b", "a", "b", "c", "a"] = ["a", "b", "c"] := by rw [sortUnique_eq]; decide

/-- `sort.Strings(xs); xs[:Unique(xs)]` (lock keys, workload ids) is the strictly ascending list
    of the distinct values -/
theorem sort_unique_spec (xs : List String) :
    (sortUnique xs).Pairwise (· < ·) ∧ ∀ x, x ∈ sortUnique xs ↔ x ∈ xs :=
  ⟨sortUnique_strict xs, fun _ => mem_sortUnique⟩

/-- Store content is well formed when node names are distinct (they are store keys). -/
def StoreOK (st : List Node) : Prop := (st.map (·.name)).Nodup

/-- **filter_exact.**  On a well-formed store `filterNodes` either fails because an included name
    does not exist, or returns nodes of the store, strictly ascending by name (each once), which are
    exactly the selected ones: the distinct included names, or the nodes of the pod (all pods when
    no pod is named) carrying the labels, minus excludes, minus down/bypassed nodes unless `all`.
    It never panics or diverges. -/
theorem filter_exact (st : List Node) (nf : NodeFilter) (hst : StoreOK st) :
    (∀ ns, filterNodes st nf = .ok ns →
        filterSpec st nf (ns.map (·.name)) = true ∧
        (ns.map (·.name)).Pairwise (· < ·) ∧
        (∀ n, n ∈ ns ↔ (n ∈ st ∧ selected st nf n = true))) ∧
    (∀ e, filterNodes st nf = .err e → e = errNotFound ∧ ∃ x ∈ nf.includes, getNode st x = none) ∧
    ((∀ x ∈ nf.includes, getNode st x ≠ none) → (filterNodes st nf).isOk = true) ∧
    (∀ m, filterNodes st nf ≠ .panic m) ∧ filterNodes st nf ≠ .diverge := by
  -- characterise the result set first
  have key : ∀ ns, filterNodes st nf = .ok ns →
      (ns.map (·.name)).Pairwise (· < ·) ∧ (∀ n, n ∈ ns ↔ (n ∈ st ∧ selected st nf n = true)) := by
    intro ns h
    unfold filterNodes filterNodesFrom at h
    split at h
    · rename_i hinc
      split at h
      · cases h
      · rename_i found hl
        injection h with h; subst h
        have hmem := lookupAll_some hl
        have hfun : ∀ a ∈ found, ∀ b ∈ found, a.name = b.name → a = b := by
          intro a ha b hb e
          obtain ⟨x, _, hx⟩ := (hmem a).mp ha
          obtain ⟨y, _, hy⟩ := (hmem b).mp hb
          exact nodup_name_inj hst (getNode_some hx).1 (getNode_some hy).1 e
        obtain ⟨q1, q2⟩ := finish_spec found hfun
        refine ⟨List.pairwise_map.mpr q1, fun n => ?_⟩
        rw [q2, hmem, selected_inc hinc]
        simp only [Bool.and_eq_true, List.contains_iff_mem]
        constructor
        · rintro ⟨x, hx, hg⟩
          obtain ⟨h1, h2⟩ := getNode_some hg
          exact ⟨h1, h2 ▸ hx, h1⟩
        · rintro ⟨h1, h2, _⟩
          exact ⟨n.name, h2, getNode_of_mem hst h1⟩
    · rename_i hinc
      have hsub : ∀ (l : List Node), (∀ a ∈ l, a ∈ st) → ∀ a ∈ l, ∀ b ∈ l, a.name = b.name → a = b :=
        fun l hl a ha b hb e => nodup_name_inj hst (hl a ha) (hl b hb) e
      split at h
      · rename_i hex
        injection h with h; subst h
        have hin : ∀ a ∈ getNodesByPod st nf, a ∈ st := fun a ha => (List.mem_filter.mp ha).1
        obtain ⟨q1, q2⟩ := finish_spec _ (hsub _ hin)
        refine ⟨List.pairwise_map.mpr q1, fun n => ?_⟩
        have hexn : nf.excludes = [] := List.eq_nil_of_length_eq_zero hex
        rw [q2, selected_pod hinc]
        simp only [getNodesByPod, List.mem_filter, Bool.and_eq_true,
          List.contains_iff_mem, hexn, List.not_mem_nil, Bool.not_eq_true', decide_eq_false_iff_not]
        constructor
        · rintro ⟨h1, h2⟩; exact ⟨h1, ⟨h1, h2⟩, by simp⟩
        · rintro ⟨h1, ⟨_, h2⟩, _⟩; exact ⟨h1, h2⟩
      · injection h with h; subst h
        have hin : ∀ a ∈ (getNodesByPod st nf).filter (fun n => !nf.excludes.contains n.name), a ∈ st :=
          fun a ha => (List.mem_filter.mp (List.mem_filter.mp ha).1).1
        obtain ⟨q1, q2⟩ := finish_spec _ (hsub _ hin)
        refine ⟨List.pairwise_map.mpr q1, fun n => ?_⟩
        rw [q2, selected_pod hinc]
        simp only [getNodesByPod, List.mem_filter, Bool.and_eq_true,
          List.contains_iff_mem, Bool.not_eq_true']
        constructor
        · rintro ⟨⟨h1, h2⟩, h3⟩; exact ⟨h1, ⟨h1, h2⟩, h3⟩
        · rintro ⟨h1, ⟨_, h2⟩, h3⟩; exact ⟨⟨h1, h2⟩, h3⟩
  refine ⟨fun ns h => ?_, ?_, ?_, ?_, ?_⟩
  · obtain ⟨k1, k2⟩ := key ns h
    refine ⟨?_, k1, k2⟩
    simp only [filterSpec, filterViolations, strictAsc_of_pairwise k1, if_true, List.nil_append]
    have c2 : ((ns.map (·.name)).all fun nm => st.any fun n => n.name == nm && selected st nf n) = true := by
      simp only [List.all_eq_true, List.mem_map, List.any_eq_true, Bool.and_eq_true, beq_iff_eq]
      rintro nm ⟨n, hn, rfl⟩
      exact ⟨n, ((k2 n).mp hn).1, rfl, ((k2 n).mp hn).2⟩
    have c3 : (st.all fun n => !selected st nf n || (ns.map (·.name)).contains n.name) = true := by
      simp only [List.all_eq_true, Bool.or_eq_true, Bool.not_eq_true', List.contains_iff_mem, List.mem_map]
      intro n hn
      cases hs : selected st nf n with
      | false => left; rfl
      | true => right; exact ⟨n, (k2 n).mpr ⟨hn, hs⟩, rfl⟩
    rw [c2, c3]; rfl
  · intro e h
    unfold filterNodes filterNodesFrom at h
    split at h
    · split at h
      · rename_i hl
        injection h with h
        exact ⟨h.symm, lookupAll_none.mp hl⟩
      · cases h
    · split at h <;> cases h
  · intro hall
    unfold filterNodes filterNodesFrom
    split
    · split
      · rename_i hl
        obtain ⟨x, hx, hn⟩ := lookupAll_none.mp hl
        exact absurd hn (hall x hx)
      · rfl
    · split <;> rfl
  · intro m h
    unfold filterNodes filterNodesFrom at h
    split at h
    · split at h <;> cases h
    · split at h <;> cases h
  · intro h
    unfold filterNodes filterNodesFrom at h
    split at h
    · split at h <;> cases h
    · split at h <;> cases h

/-- **Repeats and order of the include list are irrelevant**: two include lists naming the same
    set of nodes select the same node list (same nodes, same order). -/
theorem filter_includes_set_only (st : List Node) (nf : NodeFilter) (inc' : List String) (hst : StoreOK st)
    (hne : nf.includes ≠ []) (hsame : ∀ x, x ∈ nf.includes ↔ x ∈ inc') :
    ∀ ns ns', filterNodes st nf = .ok ns → filterNodes st { nf with includes := inc' } = .ok ns' → ns = ns' := by
  intro ns ns' h h'
  have hne' : inc' ≠ [] := by
    cases hi : nf.includes with
    | nil => exact absurd hi hne
    | cons a r => intro e; have := (hsame a).mp (hi ▸ List.mem_cons_self); rw [e] at this; cases this
  obtain ⟨_, k1, k2⟩ := (filter_exact st nf hst).1 ns h
  obtain ⟨_, k1', k2'⟩ := (filter_exact st { nf with includes := inc' } hst).1 ns' h'
  apply strict_sorted_ext Node.name ns ns' (List.pairwise_map.mp k1) (List.pairwise_map.mp k1')
  intro n
  rw [k2, k2']
  have l1 : nf.includes.length ≠ 0 := fun e => hne (List.eq_nil_of_length_eq_zero e)
  have l2 : inc'.length ≠ 0 := fun e => hne' (List.eq_nil_of_length_eq_zero e)
  rw [selected_inc l1, selected_inc (nf := { nf with includes := inc' }) l2]
  simp only [Bool.and_eq_true, List.contains_iff_mem, hsame]

/-- **The (goroutine-dependent) order of the store's pod listing is irrelevant.** -/
theorem filter_listing_order_irrelevant (get : String → Option Node) (l l' : List Node) (nf : NodeFilter)
    (hnd : (l.map (·.name)).Nodup) (hp : l.Perm l') :
    filterNodesFrom get l nf = filterNodesFrom get l' nf := by
  have inj : ∀ (m : List Node), (m.map (·.name)).Nodup → ∀ a ∈ m, ∀ b ∈ m, a.name = b.name → a = b := by
    intro m hm a ha b hb e
    exact nodup_name_inj hm ha hb e
  have fin : ∀ (m m' : List Node), (m.map (·.name)).Nodup → m.Perm m' → finish m = finish m' := by
    intro m m' hm hmm
    have hm' : (m'.map (·.name)).Nodup := (hmm.map _).nodup_iff.mp hm
    obtain ⟨a1, a2⟩ := finish_spec m (inj m hm)
    obtain ⟨b1, b2⟩ := finish_spec m' (inj m' hm')
    apply strict_sorted_ext Node.name _ _ a1 b1
    intro x; rw [a2, b2]; exact hmm.mem_iff
  unfold filterNodesFrom
  split
  · rfl
  · split
    · rw [fin l l' hnd hp]
    · rw [fin _ _ ((hnd.sublist ((List.filter_sublist).map _))) (hp.filter _)]

/-- **filter_allpods_equiv.**  The code lists pod by pod (`GetAllPods`, then each pod's nodes) when no
    pod is named; with distinct pods that cover every node's pod this selects exactly what the model's
    direct listing selects. -/
theorem filter_allpods_equiv (pods : List String) (st : List Node) (nf : NodeFilter) (hst : StoreOK st)
    (hnd : pods.Nodup) (hcover : ∀ n ∈ st, n.pod ∈ pods) :
    filterNodesIter pods st nf = filterNodes st nf := by
  unfold filterNodesIter filterNodes
  symm
  apply filter_listing_order_irrelevant
  · exact hst.sublist ((List.filter_sublist).map _)
  · unfold getNodesByPod getNodesByPodIter
    by_cases hp : nf.podname = ""
    · simp only [hp, beq_self_eq_true, if_true]
      have h1 := flatMap_pods_perm (fun n => labelsFilter n.labels nf.labels && (nf.all || !n.isDown)) st pods hnd
      refine List.Perm.trans (List.Perm.of_eq ?_) h1.symm
      · apply List.filter_congr
        intro n hn
        have hm : n.pod ∈ pods := hcover n hn
        simp [listable, hp, hm, Bool.and_assoc]
      
    · have : (nf.podname == "") = false := by simpa using hp
      simp only [this, Bool.false_eq_true, if_false, podNodes]
      apply List.Perm.of_eq
      apply List.filter_congr
      intro n _
      simp [listable, this, Bool.and_assoc]

/-! The hypotheses are satisfiable and the statement is not vacuous: a store with two pods, a down
    node and a bypassed node; includes with a repeat and out of order; a pod listing with excludes. -/
def exStore : List Node :=
  [⟨"n2", "pb", [("z", "1")], true, false⟩, ⟨"n1", "pa", [("z", "1")], true, false⟩,
   ⟨"n3", "pa", [], false, false⟩, ⟨"n4", "pa", [("z", "1")], true, true⟩, ⟨"n5", "pa", [("z", "1")], true, false⟩]

example : StoreOK exStore := by unfold StoreOK; decide
example : (filterNodes exStore ⟨"", ["n2", "n1", "n2"], [], [], false⟩).map' (·.map (·.name)) = .ok ["n1", "n2"] := by decide
example : (filterNodes exStore ⟨"pa", [], ["n5"], [("z", "1")], false⟩).map' (·.map (·.name)) = .ok ["n1"] := by decide
example : (filterNodes exStore ⟨"pa", [], [], [], true⟩).map' (·.map (·.name)) = .ok ["n1", "n3", "n4", "n5"] := by decide
example : filterNodes exStore ⟨"", ["n1", "nope"], [], [], false⟩ = .err errNotFound := by decide

example : filterNodesIter ["pb", "pa"] exStore ⟨"", [], ["n5"], [("z", "1")], false⟩ =
    filterNodes exStore ⟨"", [], ["n5"], [("z", "1")], false⟩ := by decide

end Eru.Props.C21
