import Eru.Misc.ProofsNames
/-
C24 — Metadata queries are isolated per application, entrypoint and node; a workload's name
parses back.  Model: Eru/Misc/Names.lean, Eru/Misc/Keys.lean.

The full statements (`PropParse`, `PropIsolated`: for every name the request validation accepts)
are FALSE for the current code (finding D18): they are proved under the explicit guards
`head? ≠ '/'` / `CleanName` / `GlobFree`, and refuted outside them by concrete accepted names.
-/
namespace Eru.Props.C24
open Eru.Misc.Names Eru.Misc.Keys

/-! ### the name parses back -/

/-- full statement: every accepted (application, entrypoint) parses back, whatever the 6-letter ident -/
def PropParse : Prop :=
  ∀ a e n i : Str, Accepted a e n → '_' ∉ i → parseName (makeName a e i) = some (a, e, i)

/-- proved part: the application name must not start with '/' (ParseWorkloadName trims it) -/
theorem parse_make_partial (a e i : Str) (ha : a.head? ≠ some '/') (he : '_' ∉ e) (hi : '_' ∉ i) :
    parseName (makeName a e i) = some (a, e, i) :=
  parse_make_aux a e i ha he hi


/-- the alphabet the real suffix generator uses satisfies the parser's assumption … -/
theorem suffix_alphabet_ok : SuffixAlphabetOK suffixLetters := by decide

/-- … hence **every name `create.go` can generate parses back**: application not starting with '/',
entrypoint accepted by validation (no '_'), suffix = any string over the alphabet of
`utils.RandomString` (of any length, 6 in create.go) -/
theorem generated_name_parses_back (a e sfx : Str) (ha : a.head? ≠ some '/') (he : '_' ∉ e)
    (hs : ∀ c ∈ sfx, c ∈ suffixLetters) : parseName (makeName a e sfx) = some (a, e, sfx) :=
  parse_make_partial a e sfx ha he (fun h => suffix_alphabet_ok (hs '_' h))

/-- with '_' in the suffix alphabet the name no longer parses back (`shop_web_5y_qbO`) -/
example : parseName (makeName "shop".toList "web".toList "5y_qbO".toList) = some ("shop_web".toList, "5y".toList, "qbO".toList) := by
  decide

/-- names with '_' in the application are fine: "a_b" / "web" / "xyzxyz" parses back -/
example : Accepted ['a', '_', 'b'] ['w', 'e', 'b'] ['n'] ∧
    parseName (makeName ['a', '_', 'b'] ['w', 'e', 'b'] ['x', 'y', 'z']) = some (['a', '_', 'b'], ['w', 'e', 'b'], ['x', 'y', 'z']) := by
  decide

/-- witness: application "/a" is accepted but parses back as "a" -/
theorem parse_make_counterexample : ¬ PropParse := by
  intro h
  have := h ['/', 'a'] ['e'] ['n'] ['x'] (by decide) (by decide)
  revert this
  decide

/-! ### key layout and prefix queries -/

/-- a filter is either absent or a clean name -/
def FilterOK (f : Str) : Prop := f = [] ∨ CleanName f

/-- for clean names the deploy/status key is the plain concatenation -/
theorem key_layout (r a e n id : Str) (hr : CleanName r) (ha : CleanName a) (he : CleanName e)
    (hn : CleanName n) (hi : CleanName id) :
    workloadKey ('/' :: r) a e n id = '/' :: joinWith '/' [r, a, e, n, id] := by
  unfold workloadKey
  apply pathJoin_clean r [a, e, n, id] hr
  intro x hx; simp at hx; rcases hx with rfl | rfl | rfl | rfl <;> assumption

private theorem beq_dec (x y : Str) : (x == y) = decide (x = y) := by
  by_cases h : x = y <;> simp [h]

private theorem prefix_eq (r : Str) (fs : List Str) (hr : CleanName r) (hf : ∀ x ∈ fs, CleanName x) :
    pathJoin (('/' :: r) :: fs) ++ ['/'] = '/' :: pre '/' (r :: fs) := by
  rw [pathJoin_clean r fs hr hf, List.cons_append, joinWith_append_sep]

private theorem sel_eq (r a e n id : Str) (fs : List Str) (hr : CleanName r) (ha : CleanName a)
    (he : CleanName e) (hn : CleanName n) (hi : CleanName id) (hf : ∀ x ∈ fs, CleanName x) :
    hasPrefix (pathJoin (('/' :: r) :: fs) ++ ['/']) (workloadKey ('/' :: r) a e n id)
      = prefixList (r :: fs) [r, a, e, n, id] := by
  rw [prefix_eq r fs hr hf, key_layout r a e n id hr ha he hn hi]
  simp only [hasPrefix, beq_self_eq_true, Bool.true_and]
  apply hasPrefix_pre
  · intro x hx; simp at hx; rcases hx with rfl | hx; exact hr.2.1; exact (hf x hx).2.1
  · intro x hx; simp at hx
    rcases hx with rfl | rfl | rfl | rfl | rfl
    · exact hr.2.1
    · exact ha.2.1
    · exact he.2.1
    · exact hn.2.1
    · exact hi.2.1

private theorem listPrefix_cases (root fa fe fn : Str) :
    listPrefix root fa fe fn =
      if fa = [] then pathJoin [root] ++ ['/']
      else if fe = [] then pathJoin [root, fa] ++ ['/']
      else if fn = [] then pathJoin [root, fa, fe] ++ ['/']
      else pathJoin [root, fa, fe, fn] ++ ['/'] := by
  have congr : ∀ l1 l2 : List Str, l1.filter (fun s => decide (s ≠ [])) = l2.filter (fun s => decide (s ≠ [])) →
      pathJoin l1 = pathJoin l2 := by
    intro l1 l2 h; rw [pathJoin_filter l1, pathJoin_filter l2, h]
  unfold listPrefix
  by_cases h1 : fa = [] <;> by_cases h2 : fe = [] <;> by_cases h3 : fn = [] <;>
    simp only [h1, h2, h3, if_true, if_false] <;> congr 1 <;> apply congr <;> simp [List.filter, h1, h2, h3]

/-- **Isolation (etcd prefix query).** With clean names, the key of a workload created under
(a, e, n) has the list prefix of filters (fa, fe, fn) iff the filters select (a, e, n). -/
theorem prefix_isolated_partial (r fa fe fn a e n id : Str)
    (hr : CleanName r) (ha : CleanName a) (he : CleanName e) (hn : CleanName n) (hi : CleanName id)
    (hfa : FilterOK fa) (hfe : FilterOK fe) (hfn : FilterOK fn) :
    hasPrefix (listPrefix ('/' :: r) fa fe fn) (workloadKey ('/' :: r) a e n id)
      = filterMatches fa fe fn a e n := by
  rw [listPrefix_cases]
  unfold filterMatches
  by_cases h1 : fa = []
  · simp only [h1, if_true]
    rw [sel_eq r a e n id [] hr ha he hn hi (by simp)]; simp [prefixList, beq_dec]
  · have c1 : CleanName fa := hfa.resolve_left h1
    by_cases h2 : fe = []
    · simp only [h1, h2, if_true, if_false]
      rw [sel_eq r a e n id [fa] hr ha he hn hi (by simpa using c1)]; simp [prefixList, beq_dec]
    · have c2 : CleanName fe := hfe.resolve_left h2
      by_cases h3 : fn = []
      · simp only [h1, h2, h3, if_true, if_false]
        rw [sel_eq r a e n id [fa, fe] hr ha he hn hi (by intro x hx; simp at hx; rcases hx with rfl | rfl <;> assumption)]
        simp [prefixList, beq_dec]
      · have c3 : CleanName fn := hfn.resolve_left h3
        simp only [h1, h2, h3, if_false]
        rw [sel_eq r a e n id [fa, fe, fn] hr ha he hn hi (by intro x hx; simp at hx; rcases hx with rfl | rfl | rfl <;> assumption)]
        simp [prefixList, Bool.and_assoc, beq_dec]


/-- **Isolation (deploy counts).** GetDeployStatus counts exactly the workloads of (fa, fe) and
attributes each to the node it was created on. -/
theorem count_isolated_partial (r fa fe a e n id : Str)
    (hr : CleanName r) (ha : CleanName a) (he : CleanName e) (hn : CleanName n) (hi : CleanName id)
    (hfa : CleanName fa) (hfe : CleanName fe) :
    hasPrefix (countPrefix ('/' :: r) fa fe) (workloadKey ('/' :: r) a e n id) = (fa == a && fe == e) ∧
    nodeOfKey (workloadKey ('/' :: r) a e n id) = n := by
  constructor
  · unfold countPrefix
    rw [sel_eq r a e n id [fa, fe] hr ha he hn hi (by intro x hx; simp at hx; rcases hx with rfl | rfl <;> assumption)]
    simp [prefixList, beq_dec]
  · rw [key_layout r a e n id hr ha he hn hi]
    unfold nodeOfKey
    have hs : splitOn '/' ('/' :: joinWith '/' [r, a, e, n, id]) = [[], r, a, e, n, id] := by
      simp only [splitOn, if_true]
      rw [splitOn_joinWith '/' [r, a, e, n, id] (by simp)]
      intro x hx; simp at hx
      rcases hx with rfl | rfl | rfl | rfl | rfl
      · exact hr.2.1
      · exact ha.2.1
      · exact he.2.1
      · exact hn.2.1
      · exact hi.2.1
    rw [hs]; rfl

private theorem globFree_pre (xs : List Str) (h : ∀ x ∈ xs, GlobFree x) : GlobFree (pre '/' xs) := by
  induction xs with
  | nil => intro c hc; simp [pre] at hc
  | cons x xs ih =>
    intro c hc
    simp only [pre, List.mem_append, List.mem_cons] at hc
    rcases hc with hc | rfl | hc
    · exact h x (by simp) c hc
    · decide
    · exact ih (fun y hy => h y (by simp [hy])) c hc

/-- **Isolation (Redis `SCAN MATCH prefix*`).** With clean names free of glob metacharacters the
glob query selects exactly the workloads the filters select. -/
theorem glob_isolated_partial (r fa fe fn a e n id : Str)
    (hr : CleanName r) (ha : CleanName a) (he : CleanName e) (hn : CleanName n) (hi : CleanName id)
    (hfa : FilterOK fa) (hfe : FilterOK fe) (hfn : FilterOK fn)
    (gr : GlobFree r) (gfa : GlobFree fa) (gfe : GlobFree fe) (gfn : GlobFree fn) :
    globMatch (listPrefix ('/' :: r) fa fe fn ++ ['*']) (workloadKey ('/' :: r) a e n id)
      = filterMatches fa fe fn a e n := by
  rw [← prefix_isolated_partial r fa fe fn a e n id hr ha he hn hi hfa hfe hfn]
  unfold globMatch
  apply glob_prefix
  · -- the prefix contains no metacharacter
    rw [listPrefix_cases]
    have key : ∀ fs : List Str, (∀ x ∈ fs, CleanName x) → (∀ x ∈ fs, GlobFree x) →
        GlobFree (pathJoin (('/' :: r) :: fs) ++ ['/']) := by
      intro fs hc hg
      rw [prefix_eq r fs hr hc]
      intro c hc'
      simp only [List.mem_cons] at hc'
      rcases hc' with rfl | hc'
      · decide
      · exact globFree_pre (r :: fs) (by intro x hx; simp at hx; rcases hx with rfl | hx; exact gr; exact hg x hx) c hc'
    by_cases h1 : fa = []
    · simp only [h1, if_true]; exact key [] (by simp) (by simp)
    · have c1 : CleanName fa := hfa.resolve_left h1
      by_cases h2 : fe = []
      · simp only [h1, h2, if_true, if_false]
        exact key [fa] (by simpa using c1) (by simpa using gfa)
      · have c2 : CleanName fe := hfe.resolve_left h2
        by_cases h3 : fn = []
        · simp only [h1, h2, h3, if_true, if_false]
          exact key [fa, fe] (by intro x hx; simp at hx; rcases hx with rfl | rfl <;> assumption)
            (by intro x hx; simp at hx; rcases hx with rfl | rfl <;> assumption)
        · have c3 : CleanName fn := hfn.resolve_left h3
          simp only [h1, h2, h3, if_false]
          exact key [fa, fe, fn] (by intro x hx; simp at hx; rcases hx with rfl | rfl | rfl <;> assumption)
            (by intro x hx; simp at hx; rcases hx with rfl | rfl | rfl <;> assumption)
  · simp only [List.length_append, List.length_cons, List.length_nil]; omega

/-- witness for Redis: the application name "*" lists every application -/
example : globMatch (listPrefix deployRoot ['*'] [] [] ++ ['*']) (workloadKey deployRoot ['a'] ['e'] ['n'] ['i', 'd']) = true
    ∧ filterMatches ['*'] [] [] ['a'] ['e'] ['n'] = false := by decide

/-- the guards are satisfiable by ordinary names (with separators '_' '-' '.') -/
example : CleanName ['a', '_', 'b'] ∧ CleanName ['w', '-', '1'] ∧ CleanName ['n', '.', 'x'] ∧
    GlobFree ['a', '_', 'b'] ∧ FilterOK [] :=
  ⟨by decide, by decide, by decide, by decide, Or.inl rfl⟩


/-! ### from the request to the stored key, and whole queries -/

/-- a workload whose names are accepted by validation and keep the key layout intact -/
def CleanWL (w : WL) : Prop :=
  Accepted w.app w.entry w.node ∧ CleanName w.app ∧ CleanName w.entry ∧ CleanName w.node ∧ CleanName w.id ∧ '_' ∉ w.ident

/-- **The key the store writes is the key of the creation names.**  The stores do not use the
request's (app, entry) but parse them back from the workload name; for accepted clean names the
two coincide, so the isolation theorems apply to what is really stored. -/
theorem created_key (r : Str) (w : WL) (hw : CleanWL w) :
    storedKey ('/' :: r) w = some (workloadKey ('/' :: r) w.app w.entry w.node w.id) := by
  obtain ⟨⟨_, _, hus, _⟩, ha, _, _, _, hi⟩ := hw
  have hhead : w.app.head? ≠ some '/' := by
    intro h
    cases hl : w.app with
    | nil => rw [hl] at h; cases h
    | cons c cs => rw [hl] at h; injection h with h; exact ha.2.1 (by rw [hl, h]; simp)
  unfold storedKey
  rw [parse_make_partial w.app w.entry w.ident hhead hus hi]

/-- `created_key` composed with `prefix_isolated_partial`: the key actually written for a clean
workload is selected by the list prefix iff the filters select the creation names -/
theorem created_key_isolated (r fa fe fn : Str) (w : WL) (hr : CleanName r) (hw : CleanWL w)
    (hfa : FilterOK fa) (hfe : FilterOK fe) (hfn : FilterOK fn) :
    (match storedKey ('/' :: r) w with
     | some k => hasPrefix (listPrefix ('/' :: r) fa fe fn) k
     | none => false) = filterMatches fa fe fn w.app w.entry w.node := by
  rw [created_key r w hw]
  exact prefix_isolated_partial r fa fe fn _ _ _ _ hr hw.2.1 hw.2.2.1 hw.2.2.2.1 hw.2.2.2.2.1 hfa hfe hfn

/-- distinct clean coordinates give distinct keys (no two workloads share a deploy/status key) -/
theorem key_injective (r a e n id a' e' n' id' : Str) (hr : CleanName r)
    (ha : CleanName a) (he : CleanName e) (hn : CleanName n) (hi : CleanName id)
    (ha' : CleanName a') (he' : CleanName e') (hn' : CleanName n') (hi' : CleanName id')
    (h : workloadKey ('/' :: r) a e n id = workloadKey ('/' :: r) a' e' n' id') :
    a = a' ∧ e = e' ∧ n = n' ∧ id = id' := by
  rw [key_layout r a e n id hr ha he hn hi, key_layout r a' e' n' id' hr ha' he' hn' hi'] at h
  injection h with _ h
  have h1 := congrArg (splitOn '/') h
  rw [splitOn_joinWith '/' [r, a, e, n, id] (by simp), splitOn_joinWith '/' [r, a', e', n', id'] (by simp)] at h1
  · simp at h1; exact h1
  · intro x hx; simp at hx
    rcases hx with rfl | rfl | rfl | rfl | rfl
    · exact hr.2.1
    · exact ha'.2.1
    · exact he'.2.1
    · exact hn'.2.1
    · exact hi'.2.1
  · intro x hx; simp at hx
    rcases hx with rfl | rfl | rfl | rfl | rfl
    · exact hr.2.1
    · exact ha.2.1
    · exact he.2.1
    · exact hn.2.1
    · exact hi.2.1

/-- **Set-level isolation (etcd).** On any store content made of clean accepted workloads,
`ListWorkloads(fa, fe, fn, 0, labels)` returns exactly the workloads created under the filter
names that carry the labels — nothing from a neighbouring application, nothing missing. -/
theorem list_isolated (r fa fe fn : Str) (ws : List WL) (labels : List (String × String))
    (hr : CleanName r) (hws : ∀ w ∈ ws, CleanWL w)
    (hfa : FilterOK fa) (hfe : FilterOK fe) (hfn : FilterOK fn) :
    listQuery etcdSel ('/' :: r) ws fa fe fn 0 labels =
      ws.filter fun w => filterMatches fa fe fn w.app w.entry w.node && labelsFilter w.labels labels := by
  unfold listQuery applyLimit
  simp only [if_true, List.filter_filter]
  apply List.filter_congr
  intro w hw
  have hcw := hws w hw
  rw [created_key r w hcw]
  unfold etcdSel
  simp only
  rw [prefix_isolated_partial r fa fe fn _ _ _ _ hr hcw.2.1 hcw.2.2.1 hcw.2.2.2.1 hcw.2.2.2.2.1 hfa hfe hfn,
    Bool.and_comm]

/-- the same for Redis (`SCAN MATCH prefix*`), for names free of glob metacharacters -/
theorem list_isolated_redis (r fa fe fn : Str) (ws : List WL) (labels : List (String × String))
    (hr : CleanName r) (hws : ∀ w ∈ ws, CleanWL w)
    (hfa : FilterOK fa) (hfe : FilterOK fe) (hfn : FilterOK fn)
    (gr : GlobFree r) (gfa : GlobFree fa) (gfe : GlobFree fe) (gfn : GlobFree fn) :
    listQuery redisSel ('/' :: r) ws fa fe fn 0 labels =
      ws.filter fun w => filterMatches fa fe fn w.app w.entry w.node && labelsFilter w.labels labels := by
  unfold listQuery applyLimit
  simp only [if_true, List.filter_filter]
  apply List.filter_congr
  intro w hw
  have hcw := hws w hw
  rw [created_key r w hcw]
  unfold redisSel
  simp only
  rw [glob_isolated_partial r fa fe fn _ _ _ _ hr hcw.2.1 hcw.2.2.1 hcw.2.2.2.1 hcw.2.2.2.2.1 hfa hfe hfn gr gfa gfe gfn,
    Bool.and_comm]

/-- `limit`: the stores cut the selection to `limit` keys (etcd: the first in key order) *before*
the label filter; all that is guaranteed — and all the check asserts — is a sub-selection of that size -/
theorem limit_subselection {α : Type} (limit : Nat) (l : List α) :
    (applyLimit limit l).Sublist l ∧ (applyLimit limit l).length = if limit = 0 then l.length else min limit l.length := by
  unfold applyLimit
  split
  · exact ⟨List.Sublist.refl l, rfl⟩
  · exact ⟨List.take_sublist _ _, List.length_take⟩

/-- the concrete roots used by the stores are of the required shape -/
theorem roots_clean : deployRoot = '/' :: ['d', 'e', 'p', 'l', 'o', 'y'] ∧ CleanName ['d', 'e', 'p', 'l', 'o', 'y'] ∧
    statusRoot = '/' :: ['s', 't', 'a', 't', 'u', 's'] ∧ CleanName ['s', 't', 'a', 't', 'u', 's'] := by decide

/-- full statement of isolation over every accepted name -/
def PropIsolated : Prop :=
  ∀ fa fe fn a e n id : Str, Accepted a e n → '_' ∉ fe → CleanName id →
    hasPrefix (listPrefix deployRoot fa fe fn) (workloadKey deployRoot a e n id) = filterMatches fa fe fn a e n

/-- witness: application "a/b" with entrypoint "c" is listed by the query for application "a",
entrypoint "b" -/
theorem prefix_isolated_counterexample : ¬ PropIsolated := by
  intro h
  have := h ['a'] ['b'] [] ['a', '/', 'b'] ['c'] ['n'] ['i', 'd'] (by decide) (by decide) (by decide)
  revert this
  decide

/-- a second witness: application "." collapses (`/deploy/./e` = `/deploy/e`) -/
example : hasPrefix (listPrefix deployRoot ['e'] [] []) (workloadKey deployRoot ['.'] ['e'] ['n'] ['i', 'd']) = true := by decide

end Eru.Props.C24
