import Eru.Lock.ProofsRedis
import Eru.Lock.ProofsEtcd
import Eru.Lock.ProofsSpec
/-
C18 — distributed locks are mutually exclusive (both backends).
Property theorems only (helpers: Eru/Lock/ProofsRedis.lean, ProofsEtcd.lean).
Models: Eru/Lock/Redis.lean, Eru/Lock/Etcd.lean — transition systems over all interleavings of any
number of clients; `ReachWL` = reachable while holders stay within their lease (WithinLease).
-/
namespace Eru.Props.C18
open Eru.Lock

/-! ## Redis -/

/-- **mutex_redis.**  In every state reachable while holders stay within the lock's TTL, at most
    one client is between a successful `Lock`/`TryLock` and its `Unlock`. -/
theorem mutex_redis (p : Redis.Params) (hp : 0 < p.ttl) (s : Redis.State) (h : Redis.ReachWL p s)
    (i j : Nat) (hi : Redis.isHolding s i) (hj : Redis.isHolding s j) : i = j := by
  obtain ⟨ti, hi⟩ := hi
  obtain ⟨tj, hj⟩ := hj
  have hl := Redis.holderLive_reachWL hp h
  have hinv := Redis.inv_reach (Redis.reach_of_reachWL h)
  obtain ⟨e1, v1, _⟩ := hl i ti hi
  obtain ⟨e2, v2, _⟩ := hl j tj hj
  rw [v1] at v2; injection v2 with v2; injection v2 with v2 _
  subst v2
  exact hinv.uniq i j ti (by rw [hi]; rfl) (by rw [hj]; rfl)

/-- without the lease assumption: at most one client holds *an unexpired key* -/
theorem mutex_redis_live (p : Redis.Params) (s : Redis.State) (h : Redis.Reach p s) (i j ti tj ei ej : Nat)
    (hi : s.cl i = .holding ti) (hj : s.cl j = .holding tj)
    (li : Redis.alive s = some (ti, ei)) (lj : Redis.alive s = some (tj, ej)) : i = j := by
  rw [li] at lj; injection lj with lj; injection lj with lj _
  subst lj
  exact (Redis.inv_reach h).uniq i j ti (by rw [hi]; rfl) (by rw [hj]; rfl)

/-- the lease assumption is necessary: once the TTL elapses a second client acquires while the
    first is still in its critical section -/
theorem redis_mutex_needs_lease :
    ∃ s, Redis.Reach ⟨1, 1, 1⟩ s ∧ Redis.isHolding s 0 ∧ Redis.isHolding s 1 := by
  let p : Redis.Params := ⟨1, 1, 1⟩
  have r1 : Redis.Reach p (Redis.begin p Redis.init 0 .lock) := .step .init (.begin _ 0 .lock rfl)
  have r2 := Redis.Reach.step r1 (Redis.Step.attempt _ 0 .lock 0 0 1 rfl (Nat.le_refl _) (by decide))
  have r3 := Redis.Reach.step r2 (Redis.Step.tickServer _)
  have r4 := Redis.Reach.step r3 (Redis.Step.begin _ 1 .lock rfl)
  have r5 := Redis.Reach.step r4 (Redis.Step.attempt _ 1 .lock 1 0 1 rfl (Nat.le_refl _) (by decide))
  exact ⟨_, r5, ⟨0, rfl⟩, ⟨1, rfl⟩⟩

/-- **trylock_fails_fast (Redis).**  A `TryLock` that finds the key held fails in that very step:
    no clock advances, the key is untouched; and a try-mode client is never rescheduled for a retry
    (its only attempt is the one due when it entered `Obtain`). -/
theorem trylock_fails_fast_redis (p : Redis.Params) (s : Redis.State) (h : Redis.Reach p s)
    (i tok na dl : Nat) (hi : s.cl i = .trying .try tok na dl) :
    dl = na + p.wait ∧
    ((Redis.alive s).isSome → let s' := Redis.attempt p s i .try tok dl
        s'.cl i = .failed ∧ s'.now = s.now ∧ s'.wall = s.wall ∧ s'.val = s.val) := by
  refine ⟨(Redis.inv_reach h).tryOnce i tok na dl hi, ?_⟩
  intro hal
  unfold Redis.attempt
  cases hv : Redis.alive s with
  | none => rw [hv] at hal; cases hal
  | some v => simp [Redis.setCl]

/-- **waiter_outcome (Redis).**  A waiting `Lock` (a) acquires only in a step in which the key is
    absent or expired (the predecessor released it or its TTL ran out), and (b) otherwise gives up
    only at its wait deadline, and then owns nothing on the server: the key, if any, carries another
    client's token. -/
theorem waiter_outcome_redis (p : Redis.Params) (s : Redis.State) (h : Redis.Reach p s)
    (i tok na dl : Nat) (hi : s.cl i = .trying .lock tok na dl) :
    (∀ t, (Redis.attempt p s i .lock tok dl).cl i = .holding t → Redis.alive s = none) ∧
    (∀ s', s' = Redis.setCl s i .failed → (∀ e, s'.val ≠ some (tok, e)) ∧ s'.cl i = .failed) := by
  constructor
  · intro t ht
    unfold Redis.attempt at ht
    cases hv : Redis.alive s with
    | none => rfl
    | some v => rw [hv] at ht; simp [Redis.setCl] at ht
  · intro s' hs'
    subst hs'
    exact ⟨fun e => (Redis.inv_reach h).tryingNoKey i .lock tok na dl hi e, by simp [Redis.setCl]⟩

/-- the give-up transition is only enabled at the deadline -/
theorem waiter_gives_up_at_deadline (p : Redis.Params) (s s' : Redis.State) (st : Redis.Step p s s')
    (i tok na dl : Nat) (hi : s.cl i = .trying .lock tok na dl) (hf : s'.cl i = .failed) : dl ≤ s.wall := by
  cases st with
  | begin j m hj =>
    simp only [Redis.begin, Redis.setCl] at hf
    split at hf
    · cases hf
    · rw [hi] at hf; cases hf
  | attempt j m t na' dl' hj hna hdl =>
    unfold Redis.attempt at hf
    cases hv : Redis.alive s with
    | none =>
      simp only [hv, Redis.setCl] at hf
      split at hf
      · cases hf
      · rw [hi] at hf; cases hf
    | some v =>
      by_cases hji : i = j
      · subst hji
        rw [hi] at hj; injection hj with hm _ _ _; subst hm
        simp [hv, Redis.setCl] at hf
      · cases m <;> simp [hv, Redis.setCl, hji, hi] at hf
  | giveup j m' t na' dl' hj hdl =>
    by_cases hji : i = j
    · subst hji; rw [hi] at hj; injection hj with _ _ _ hd; subst hd; exact hdl
    · simp [Redis.setCl, hji, hi] at hf
  | release j t hj =>
    unfold Redis.release at hf
    by_cases hji : i = j
    · subst hji; rw [hi] at hj; cases hj
    · cases hv : Redis.alive s with
      | none => simp [hv, Redis.setCl, hji, hi] at hf
      | some v =>
        obtain ⟨a, b⟩ := v
        simp only [hv] at hf
        split at hf <;> simp [Redis.setCl, hji, hi] at hf
  | tickServer => rw [hi] at hf; cases hf
  | tickWall => rw [hi] at hf; cases hf

/-! ## etcd -/

/-- **mutex_etcd.**  In every state reachable while no holder's lease is lost, at most one client
    is between a successful `Lock`/`TryLock` and its `Unlock`. -/
theorem mutex_etcd (p : Etcd.Params) (s : Etcd.State) (h : Etcd.ReachWL p s) (i j : Nat)
    (hi : s.phase i = .holding) (hj : s.phase j = .holding) : i = j :=
  Etcd.live_holders_eq (Etcd.inv_reach (Etcd.reach_of_reachWL h)) hi hj
    (Etcd.holdingAlive_reachWL h i hi) (Etcd.holdingAlive_reachWL h j hj)

/-- without the lease assumption: at most one holder has a live lease -/
theorem mutex_etcd_live (p : Etcd.Params) (s : Etcd.State) (h : Etcd.Reach p s) (i j : Nat)
    (hi : s.phase i = .holding) (hj : s.phase j = .holding)
    (li : s.leaseAlive i = true) (lj : s.leaseAlive j = true) : i = j :=
  Etcd.live_holders_eq (Etcd.inv_reach h) hi hj li lj

/-- **trylock_fails_fast (etcd).**  A `TryLock` never enters the waiting phase; when it is not the
    owner its next and only step deletes its own key and fails. -/
theorem trylock_fails_fast_etcd (p : Etcd.Params) (s : Etcd.State) (h : Etcd.Reach p s) (i : Nat)
    (hm : s.mode i = .try) :
    (∀ dl, s.phase i ≠ .waiting dl) ∧
    (s.phase i = .tryFailing → (Etcd.abandon s i).phase i = .failed ∧ ∀ k ∈ (Etcd.abandon s i).keys, k.1 ≠ i) := by
  constructor
  · intro dl hw
    have := (Etcd.inv_reach h).tryNoWait i dl hw
    rw [hm] at this; cases this
  · intro _
    exact ⟨by simp [Etcd.abandon, Etcd.upd], fun k hk => (Etcd.mem_dropKeys.mp hk).2⟩

/-- a `TryLock` step itself: owner → holding, otherwise → tryFailing (never waiting) -/
theorem trylock_step_etcd (ttl : Nat) (s : Etcd.State) (i : Nat) :
    (Etcd.acquire ttl s i .try).phase i = .holding ∨ (Etcd.acquire ttl s i .try).phase i = .tryFailing := by
  rcases Etcd.acquire_self ttl s i .try with ⟨_, hp, _⟩ | ⟨_, _, _, ⟨_, hp⟩ | ⟨hm, _⟩⟩
  · exact Or.inl hp
  · exact Or.inr hp
  · cases hm

/-- **waiter_outcome (etcd).**  A waiting `Lock` (a) acquires only when no older key is left (all
    predecessors unlocked or lost their lease) and its own key still exists, and (b) otherwise fails
    at its deadline (or because its session expired) leaving no key behind. -/
theorem waiter_outcome_etcd (p : Etcd.Params) (s s' : Etcd.State) (st : Etcd.Step p s s') (i dl : Nat)
    (hi : s.phase i = .waiting dl) :
    (s'.phase i = .holding → (∀ k ∈ s.keys, ¬ k.2 < s.myRev i) ∧ (i, s.myRev i) ∈ s.keys) ∧
    (s'.phase i = .failed → (dl ≤ s.wall ∨ (i, s.myRev i) ∉ s.keys) ∧ ∀ k ∈ s'.keys, k ≠ (i, s.myRev i)) := by
  cases st with
  | acquire j m hidle hlease =>
    have hji : i ≠ j := by intro e; subst e; rw [hi] at hidle; cases hidle
    rw [Etcd.acquire_phase_other _ _ _ _ hji, hi]
    exact ⟨fun e => (by cases e), fun e => (by cases e)⟩
  | tryDelete j hj =>
    have hji : i ≠ j := by intro e; subst e; rw [hi] at hj; cases hj
    simp only [Etcd.abandon, Etcd.upd, hji, if_false, hi]
    exact ⟨fun e => (by cases e), fun e => (by cases e)⟩
  | timeout j dl' hj hdl =>
    by_cases hji : i = j
    · subst hji
      rw [hi] at hj; injection hj with hd; subst hd
      refine ⟨fun e => (by simp [Etcd.abandon, Etcd.upd] at e), fun _ => ⟨Or.inl hdl, ?_⟩⟩
      intro k hk e; subst e
      exact (Etcd.mem_dropKeys.mp hk).2 rfl
    · simp only [Etcd.abandon, Etcd.upd, hji, if_false, hi]
      exact ⟨fun e => (by cases e), fun e => (by cases e)⟩
  | waitDone j dl' hj hno =>
    by_cases hji : i = j
    · subst hji
      unfold Etcd.waitDone
      split
      · rename_i hc
        exact ⟨fun _ => ⟨hno, (by simpa using hc)⟩, fun e => (by simp [Etcd.upd] at e)⟩
      · rename_i hc
        refine ⟨fun e => (by simp [Etcd.upd] at e), fun _ => ⟨Or.inr (by simpa using hc), ?_⟩⟩
        intro k hk e; subst e
        exact hc (by simpa using hk)
    · unfold Etcd.waitDone
      split <;> (simp only [Etcd.upd, hji, if_false, hi]; exact ⟨fun e => (by cases e), fun e => (by cases e)⟩)
  | unlock j hj =>
    have hji : i ≠ j := by intro e; subst e; rw [hi] at hj; rcases hj with hj | hj <;> cases hj
    simp only [Etcd.unlock, Etcd.upd, hji, if_false, hi]
    exact ⟨fun e => (by cases e), fun e => (by cases e)⟩
  | loseLease j hj => simp only [Etcd.loseLease, hi]; exact ⟨fun e => (by cases e), fun e => (by cases e)⟩
  | watch j h1 h2 h3 => simp only [Etcd.watch, hi]; exact ⟨fun e => (by cases e), fun e => (by cases e)⟩
  | tick hg => simp only [hi]; exact ⟨fun e => (by cases e), fun e => (by cases e)⟩

/-- **cancel_acquire_ctx_keeps_lock.**  The end (cancellation, deadline) of the context that was
    passed to `Lock`/`TryLock` is not a release.  etcd: across ANY step other than the holder's own
    `Unlock` or the loss of its lease — there is no step for "the acquiring context ended" — a holder
    with a live lease keeps its key and the key stays the oldest, so nobody else can acquire.  Both
    models: the schedule command `cancelCtx` leaves the state untouched. -/
theorem cancel_acquire_ctx_keeps_lock (p : Etcd.Params) (s s' : Etcd.State) (hr : Etcd.Reach p s)
    (st : Etcd.Step p s s') (i : Nat) (hi : s.phase i = .holding) (hl : s.leaseAlive i = true)
    (h1 : s' ≠ Etcd.unlock s i) (h2 : s' ≠ Etcd.loseLease s i) :
    ((i, s.myRev i) ∈ s'.keys ∧ ∀ k ∈ s'.keys, s.myRev i ≤ k.2) ∧
    (∀ ttl j, (Etcd.exec ttl s (.cancelCtx j)).1 = s) ∧
    (∀ (q : Redis.Params) (r : Redis.State) j, (Redis.exec q r (.cancelCtx j)).1 = r) :=
  ⟨Etcd.holder_keeps_key hr st i hi hl h1 h2, fun _ _ => rfl, fun _ _ _ => rfl⟩

/-! ## what the oracle replays is the transition system the theorems are about -/

/-- **exec_reach (Redis).**  Every state the oracle's schedule replay goes through is a reachable
    state of `Redis.Step` (each command is a finite sequence of steps). -/
theorem replay_reachable_redis (p : Redis.Params) (hp : 0 < p.wait) (cs : List Redis.Cmd) :
    ∀ s ∈ Redis.replayStates p Redis.init cs, Redis.Reach p s :=
  Redis.replay_reach hp cs Redis.init .init

/-- **exec_reach (etcd).**  Same for the etcd model; the time jumps of blocked calls are `tick`s,
    whose urgency guard is vacuous because a replayed `revoke` runs the watcher at once. -/
theorem replay_reachable_etcd (p : Etcd.Params) (cs : List Etcd.Cmd) :
    ∀ s ∈ Etcd.replayStates p.ttl Etcd.init cs, Etcd.Reach p s :=
  Etcd.replay_reach cs Etcd.init (Etcd.good_init p)

/-- hence every state of an etcd replay has at most one holder with a live lease -/
theorem replay_states_mutex_etcd (p : Etcd.Params) (cs : List Etcd.Cmd) (s : Etcd.State)
    (hs : s ∈ Etcd.replayStates p.ttl Etcd.init cs) (i j : Nat)
    (hi : s.phase i = .holding) (hj : s.phase j = .holding)
    (li : s.leaseAlive i = true) (lj : s.leaseAlive j = true) : i = j :=
  mutex_etcd_live p s (replay_reachable_etcd p cs s hs) i j hi hj li lj

/-- **replay_meets_spec_redis.**  The full decidable specification of `Eru/Lock/Spec.lean` — the one
    the oracle evaluates on the implementation's results — holds of the Redis model's own replay of
    EVERY command list: feeding the model's results (no timing flags: the model has no stopwatch) to
    `Spec.specStep` never yields `two-holders-within-lease`, `refused-when-free`, `blocked-when-free`
    or any other C18 tag.  The only tag that can appear at all is the C19 finding D15 on `observe`
    (see C19.replay_meets_loss_spec_redis). -/
theorem replay_meets_spec_redis (p : Redis.Params) (hp : 0 < p.wait) (cs : List Redis.Cmd) :
    ∀ t ∈ (Spec.specReplayRedis p {} Redis.init cs).viol, t = Spec.tagD15 := by
  apply Spec.jr_replay hp cs {} Redis.init _ .init
  exact ⟨rfl, fun h hh => (by cases hh), fun t e h => (by simp [Redis.alive, Redis.init] at h),
    fun c hc => (by cases hc), fun t h => (by cases h)⟩

/-- **replay_meets_spec_etcd.**  The same for the etcd model: over EVERY command list (incl. `sleep`,
    `revoke`, `cancelCtx`) the model's own results never make `Spec.specStep` report anything — no
    `two-holders-within-lease`, `refused-when-free`, `blocked-when-free`, and none of the C19 tags
    either (timing flags: none).  Invariant `Spec.JE`: every key in the queue belongs to a holder of
    the book with a live lease or to a waiter of the book; a fresh pending waiter's deadline is where
    the book's stopwatch says it is. -/
theorem replay_meets_spec_etcd (p : Etcd.Params) (iv : Nat) (cs : List Etcd.Cmd) :
    (Spec.specReplayEtcd p iv {} Etcd.init cs).viol = [] :=
  Spec.je_replay iv cs {} Etcd.init (Spec.je_init p) (Etcd.good_init p)

/-- **waiter_progress (Redis).**  A client inside `Obtain` is never stuck: its attempt is enabled, or
    it is past its deadline and `giveup` is enabled (for `TryLock` as well), or time can pass towards
    its next attempt and deadline. -/
theorem waiter_progress_redis (p : Redis.Params) (s : Redis.State) (i : Nat) (m : Redis.Mode) (tok na dl : Nat)
    (hi : s.cl i = .trying m tok na dl) :
    (na ≤ s.wall ∧ s.wall < dl ∧ Redis.Step p s (Redis.attempt p s i m tok dl)) ∨
    (dl ≤ s.wall ∧ Redis.Step p s (Redis.setCl s i .failed)) ∨
    (s.wall < na ∧ s.wall < dl ∧ Redis.Step p s { s with wall := s.wall + 1 }) :=
  Redis.trying_progress p s i m tok na dl hi

/-! Non-vacuity: reachable WithinLease states with a holder and a queued waiter / a failed try. -/
example : ∃ s, Etcd.ReachWL ⟨3, 1⟩ s ∧ s.phase 0 = .holding ∧ s.phase 1 = .waiting 3 ∧ s.phase 2 = .tryFailing := by
  let p : Etcd.Params := ⟨3, 1⟩
  have noLoss : ∀ (s : Etcd.State) (i m j), Etcd.acquire 3 s i m = Etcd.loseLease s j → s.phase j ≠ .holding := by
    intro s i m j e
    have := congrArg Etcd.State.rev e
    rw [Etcd.acquire_rev] at this
    simp [Etcd.loseLease] at this
  have r1 := Etcd.ReachWL.step .init (Etcd.StepWL.step (Etcd.Step.acquire (p := p) Etcd.init 0 .lock rfl rfl) (noLoss _ _ _))
  have r2 := Etcd.ReachWL.step r1 (Etcd.StepWL.step (Etcd.Step.acquire (p := p) _ 1 .lock rfl rfl) (noLoss _ _ _))
  have r3 := Etcd.ReachWL.step r2 (Etcd.StepWL.step (Etcd.Step.acquire (p := p) _ 2 .try rfl rfl) (noLoss _ _ _))
  exact ⟨_, r3, by decide, by decide, by decide⟩

example : ∃ s, Redis.ReachWL ⟨2, 2, 1⟩ s ∧ Redis.isHolding s 0 ∧ s.cl 1 = .trying .lock 1 1 2 := by
  let p : Redis.Params := ⟨2, 2, 1⟩
  have nt : ∀ (s s' : Redis.State), s'.nextTok ≠ s.nextTok → s' = { s with now := s.now + 1 } → Redis.LeaseOK s := by
    intro s s' hne e; subst e; exact absurd rfl hne
  have r1 := Redis.ReachWL.step .init (Redis.StepWL.step (Redis.Step.begin (p := p) Redis.init 0 .lock rfl) (nt _ _ (by decide)))
  have r2 := Redis.ReachWL.step r1 (Redis.StepWL.step (Redis.Step.attempt (p := p) _ 0 .lock 0 0 2 rfl (Nat.le_refl _) (by decide))
    (by intro e; have := congrArg Redis.State.val e; simp [Redis.attempt, Redis.begin, Redis.setCl, Redis.alive, Redis.init] at this))
  have r3 := Redis.ReachWL.step r2 (Redis.StepWL.step (Redis.Step.begin (p := p) _ 1 .lock rfl) (nt _ _ (by decide)))
  have r4 := Redis.ReachWL.step r3 (Redis.StepWL.step (Redis.Step.attempt (p := p) _ 1 .lock 1 0 2 rfl (Nat.le_refl _) (by decide))
    (by intro e; have := congrArg (fun s => s.cl 1) e; exact absurd this (by decide)))
  exact ⟨_, r4, ⟨0, by decide⟩, by decide⟩

end Eru.Props.C18
