import Eru.CpuMem.Spec
/-
C06 — CPU planning always terminates without crashing.
-/
namespace Eru.Props.C06
open Eru Eru.CpuMem

/-- D4: a request below one piece has no plan (before the repair: `.diverge`, `.panic` with affinity) -/
theorem zero_pieces_no_plans (B maxShare : Int) (aff : Bool) (h : Host) (pieces : Int) (hp : pieces ≤ 0) :
    hostPlans B maxShare aff h pieces = .ok [] := by
  unfold hostPlans; simp [hp]

example : getCPUPlans { cap := { cpuMap := [("0",100),("1",100)], mem := 1000 }, use := {} } [("0",100)] 100 (-1)
    { bind := true, cpuNum := 1, mem := 0 } [] = .ok [] := by decide

end Eru.Props.C06
