import Eru.CpuMem.ProofsSpec
/-
C06 — CPU planning always terminates without crashing.
In the model a Go panic is `.panic`, a loop without a decreasing measure is `.diverge`; the theorems
say neither is reachable.  Termination measures: `Σ pieces` of the cores in the heap / affinity
list strictly decreases per round (fuel `Σ pieces + 1` suffices, `heapLoop_spec`, `affinityLoop_spec`);
the full→fragment conversion loop is structural on the list of full cores.
-/
namespace Eru.Props.C06
open Eru Eru.CpuMem

abbrev WF (info : NodeInfo) : Prop := info.cap.cpuMap.keys.Nodup ∧ (info.cap.numa.map (·.1)).Nodup

def exampleNode : NodeInfo :=
  { cap := { cpuMap := [("0",100),("1",100),("2",250)], mem := 100 }, use := { cpuMap := [("0",50),("1",50),("2",251)], mem := 40 } }
example : WF exampleNode ∧ ([] : List String).Nodup := by decide

/-- **getCPUPlans_total**: for every node (valid or not — only distinct map keys are assumed), every
    CPU request (including requests below one piece), every memory request, every share base ≥ 1,
    every max-share value (−1, positive, even 0 or negative), every affinity map and NUMA visiting
    order, `GetCPUPlans` returns a plan list: no panic, no divergence, no error. -/
theorem getCPUPlans_total (info : NodeInfo) (origin : CpuMap) (B maxShare : Int) (req : Req)
    (order : List String) (hB : 1 ≤ B) (hwf : WF info) (hord : order.Nodup) :
    ∃ ps, getCPUPlans info origin B maxShare req order = .ok ps := by
  obtain ⟨ps, h, _⟩ := getCPUPlans_spec info origin B hB maxShare req order hord hwf.2 hwf.1
  exact ⟨ps, h⟩

/-- companion for nodes whose memory usage exceeds capacity (such states pass `Validate`, which never
    looks at node memory, e.g. after the node's memory capacity was lowered) and more generally
    whenever less than one request's memory is free: no theorem above assumes `usage.mem ≤ capacity.mem`
    (`getCPUPlans_total` covers these states: no crash), and the result is the empty plan list. -/
theorem overused_memory_no_plans (info : NodeInfo) (origin : CpuMap) (B maxShare : Int) (req : Req)
    (order : List String) (ps : List CpuPlan) (hm : 0 < req.mem) (hover : info.cap.mem - info.use.mem < req.mem)
    (h : getCPUPlans info origin B maxShare req order = .ok ps) : ps = [] := by
  have hf := getCPUPlans_fit_memory info origin B maxShare req order ps h
  unfold fitMemory at hf
  simp only [Bool.or_eq_true, beq_iff_eq, decide_eq_true_eq] at hf
  have hav : info.available.mem = info.cap.mem - info.use.mem := rfl
  rcases hf with (h0 | hle) | hfit
  · exact List.eq_nil_of_length_eq_zero h0
  · omega
  · rcases Nat.eq_zero_or_pos ps.length with h0 | hpos
    · exact List.eq_nil_of_length_eq_zero h0
    · exfalso
      have h1 : (1 : Int) ≤ ps.length := by omega
      have : 1 * req.mem ≤ (ps.length : Int) * req.mem := Int.mul_le_mul_of_nonneg_right h1 (by omega)
      omega

/-- the over-used witness of the fixed corpus: capacity 4096, used 6144, request 1.5 cpu / 1024 -/
example : getCPUPlans { cap := { cpuMap := [("0",100),("1",100)], mem := 4096 }, use := { cpuMap := [("0",0),("1",0)], mem := 6144 } } [("0",100)] 100 (-1)
    { bind := true, cpuNum := 1500, mem := 1024 } [] = .ok [] := by decide

/-- host level: `host.getCPUPlans` returns for every request and max-share on a well-formed host -/
theorem hostPlans_total (B maxShare : Int) (aff : Bool) (h : Host) (pieces : Int) (hB : 1 ≤ B) (hh : HostOK B h) :
    ∃ plans, hostPlans B maxShare aff h pieces = .ok plans := by
  obtain ⟨plans, hp, _⟩ := hostPlans_spec B hB maxShare aff h hh pieces
  exact ⟨plans, hp⟩

/-- D4: a request below one piece has no plan (before the repair: `.diverge`, `.panic` with affinity) -/
theorem zero_pieces_no_plans (B maxShare : Int) (aff : Bool) (h : Host) (pieces : Int) (hp : pieces ≤ 0) :
    hostPlans B maxShare aff h pieces = .ok [] := by
  unfold hostPlans; simp [hp]

/-- `Validate` returns a request or an error value -/
theorem validate_no_crash (raw : RawReq) : (∃ w, raw.validate = .ok w) ∨ (∃ e, raw.validate = .err e) := by
  unfold RawReq.validate
  split
  · right; exact ⟨_, rfl⟩
  · split
    · right; exact ⟨_, rfl⟩
    · split
      · right; exact ⟨_, rfl⟩
      · left; exact ⟨_, rfl⟩

/-- **calculateDeploy_no_crash**: `CalculateDeploy` ends with a result or an error value, for `0 ≤ count`.
    (For a negative count the Go code panics on the bound path — `cpuPlans[:deployCount]` — and the
    model says `.panic` there; deploy strategies only ever return positive counts.) -/
theorem calculateDeploy_no_crash (info : NodeInfo) (B maxShare count : Int) (raw : RawReq) (order : List String)
    (hB : 1 ≤ B) (hwf : WF info) (hord : order.Nodup) (hc : 0 ≤ count) :
    (∃ ws, calculateDeploy info B maxShare count raw order = .ok ws) ∨
    (∃ e, calculateDeploy info B maxShare count raw order = .err e) := by
  unfold calculateDeploy
  have hv := validate_no_crash raw
  rcases hv with ⟨w, hw⟩ | ⟨e, he⟩
  · rw [hw]
    simp only []
    split
    · unfold allocByCPU
      obtain ⟨ps, hps⟩ := getCPUPlans_total info [] B maxShare w.toReq order hB hwf hord
      rw [hps]
      simp only []
      split
      · right; exact ⟨_, rfl⟩
      · rw [if_neg (by omega)]; left; exact ⟨_, rfl⟩
    · unfold allocByMemory
      split
      · right; exact ⟨_, rfl⟩
      · split
        · right; exact ⟨_, rfl⟩
        · left; exact ⟨_, rfl⟩
  · rw [he]; right; exact ⟨_, rfl⟩

theorem allocByMemory_no_crash (info : NodeInfo) (count : Int) (w : RawReq) :
    (∃ ws, allocByMemory info count w = .ok ws) ∨ (∃ e, allocByMemory info count w = .err e) := by
  unfold allocByMemory
  split
  · right; exact ⟨_, rfl⟩
  · split
    · right; exact ⟨_, rfl⟩
    · left; exact ⟨_, rfl⟩

/-- **reallocCore_no_crash**: the whole body of `CalculateRealloc` after the two float additions, for
    EVERY summed request `newReq` (whatever the float sums produced: exact or not, negative, zero),
    every origin map, bound or not: it ends with a result or an error value.  Crash-freedom therefore
    does not depend on the model's float-exactness guard. -/
theorem reallocCore_no_crash (info' : NodeInfo) (B maxShare : Int) (originMap : CpuMap) (newReq : RawReq) (order : List String)
    (hB : 1 ≤ B) (hwf : WF info') (hord : order.Nodup) :
    (∃ w, reallocCore info' B maxShare originMap newReq order = .ok w) ∨
    (∃ e, reallocCore info' B maxShare originMap newReq order = .err e) := by
  unfold reallocCore
  rcases validate_no_crash newReq with ⟨w, hw⟩ | ⟨e, he⟩
  · rw [hw]
    simp only []
    split
    · obtain ⟨ps, hps⟩ := getCPUPlans_total info' originMap B maxShare w.toReq order hB hwf hord
      rw [hps]
      cases ps with
      | nil => right; exact ⟨_, rfl⟩
      | cons p rest => left; exact ⟨_, rfl⟩
    · rcases allocByMemory_no_crash info' 1 w with ⟨v, hv⟩ | ⟨e, he⟩
      · rw [hv]; left; exact ⟨_, rfl⟩
      · rw [he]; right; exact ⟨_, rfl⟩
  · rw [he]; right; exact ⟨_, rfl⟩

/-- **calculateRealloc_no_crash**: the modelled `CalculateRealloc` (wrapper: exactness guard, then
    `reallocCore` on the node with the workload given back) ends with a result or an error value;
    the content is `reallocCore_no_crash`. -/
theorem calculateRealloc_no_crash (info : NodeInfo) (B maxShare : Int) (origin : Workload) (raw : RawReq) (order : List String)
    (hB : 1 ≤ B) (hwf : WF info) (hord : order.Nodup) :
    (∃ w, calculateRealloc info B maxShare origin raw order = .ok w) ∨
    (∃ e, calculateRealloc info B maxShare origin raw order = .err e) := by
  unfold calculateRealloc
  split
  · right; exact ⟨_, rfl⟩
  · exact reallocCore_no_crash (givenBack info origin) B maxShare origin.cpuMap (reallocReq origin raw) order hB hwf hord

/-- **nodeDeployCapacity_no_crash**: `doGetNodeDeployCapacity` behind `GetNodesDeployCapacity` ends with
    a capacity or (invalid request) an error value -/
theorem nodeDeployCapacity_no_crash (info : NodeInfo) (B maxShare : Int) (raw : RawReq) (order : List String)
    (hB : 1 ≤ B) (hwf : WF info) (hord : order.Nodup) :
    (∃ c, nodeDeployCapacity info B maxShare raw order = .ok c) ∨
    (∃ e, nodeDeployCapacity info B maxShare raw order = .err e) := by
  unfold nodeDeployCapacity
  rcases validate_no_crash raw with ⟨w, hw⟩ | ⟨e, he⟩
  · rw [hw]
    simp only []
    split
    · split
      · left; exact ⟨_, rfl⟩
      · split <;> (left; exact ⟨_, rfl⟩)
    · obtain ⟨ps, hps⟩ := getCPUPlans_total info [] B maxShare w.toReq order hB hwf hord
      rw [hps]; left; exact ⟨_, rfl⟩
  · rw [he]; right; exact ⟨_, rfl⟩

example : getCPUPlans { cap := { cpuMap := [("0",100),("1",100)], mem := 1000 }, use := {} } [("0",100)] 100 (-1)
    { bind := true, cpuNum := 1, mem := 0 } [] = .ok [] := by decide

/-- D5 witness: max-share 1 with two half-used cores and request 0.3 — plans instead of a panic -/
example : (getCPUPlans { cap := { cpuMap := [("0",100),("1",100)], mem := 1000 }, use := { cpuMap := [("0",50),("1",50)] } } [] 100 1
    { bind := true, cpuNum := 300, mem := 0 } []).isOk = true := by decide

end Eru.Props.C06
