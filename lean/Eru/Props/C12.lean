import Eru.Cluster.ProofsStream
import Eru.Props.C10
/-
C12 — Deployment results are complete and truthful.

"For an accepted create request the result stream always closes, after reporting either a
single failure with nothing created or exactly one message per planned instance. Each success
names a workload that is recorded, started and placed on the reported node with the reported
resources, and each failure leaves no workload record, container or resource usage behind for
that instance."

Model: `Eru.Cluster.create` (create.go after the D12 fix: a failing condition step gives the
earlier nodes' allocations back). "The stream closes" is totality of the model function (every
Go loop is a structural recursion over the plan; the harness checks it on the real code with a
deadline). All statements hold for EVERY single-fault placement (`flt` arbitrary).
-/
namespace Eru.Props.C12
open Eru.Cluster
variable {R : Type} [ResAlg R]

/-- **stream shape**: the messages of a create call are either the single failure message with
no record and no container created, or exactly one message per planned instance. -/
theorem create_stream_shape (a : CreateArgs R) (flt : Option Addr) (s : State R) (cancel : Option (Addr × Bool)) :
    let ms' := (run (create a) flt s cancel).2
    (ms'.msgs = [⟨"", 0, false, none⟩] ∧ ms'.st.wls = s.wls ∧ ms'.st.cts = s.cts) ∨
      ms'.msgs.length = planned a.plan :=
  (create_stream a flt { st := s, cancel := cancel } rfl).1

/-- **successes are truthful**: every success message names a workload that is recorded on the
reported node with the reported resources and whose container exists and is running, in the state
the call ends in. -/
theorem success_truthful (a : CreateArgs R) (flt : Option Addr) (s : State R) (cancel : Option (Addr × Bool)) :
    let ms' := (run (create a) flt s cancel).2
    ∀ m ∈ ms'.msgs, m.ok = true →
      (∃ w ∈ ms'.st.wls, w.id = m.id ∧ w.node = m.node ∧ m.res = some w.res) ∧
      (⟨m.id, m.node, true⟩ : Ct) ∈ ms'.st.cts := by
  intro ms' m hm hok
  have := (create_stream a flt { st := s, cancel := cancel } rfl).2.1 m hm hok
  exact ⟨this.2.1, this.2.2⟩

/-- **distinct successes name distinct workloads** -/
theorem success_ids_distinct (a : CreateArgs R) (flt : Option Addr) (s : State R) (cancel : Option (Addr × Bool)) :
    (okIds (run (create a) flt s cancel).2.msgs).Nodup :=
  (create_stream a flt { st := s, cancel := cancel } rfl).2.2

/-- **the whole call is clean**: after the call every record is one that was there before or one a
success message reports, no earlier record is lost, every container is an earlier one or belongs to
a reported success, capacity and nodes are untouched (so a failed instance left no record and no
container); usage is again the sum of the records (`failures_leave_no_usage`). -/
theorem create_whole_clean (a : CreateArgs R) (flt : Option Addr) (s : State R) (cancel : Option (Addr × Bool))
    (hids : ∀ w ∈ s.wls, w.id < s.next) : Clean s (run (create a) flt s cancel).2 :=
  create_clean a flt { st := s, cancel := cancel } rfl hids

/-- **the reported resources are the recorded ones, and one instance = one record**: a successful
`doDeployOneWorkload` of resources `r` on node `n` adds exactly the record `⟨fresh id, n, r⟩`
and one running container; it never touches usage, capacity or nodes. -/
theorem instance_success_exact (n : String) (r : R) (flt : Option Addr) (s : State R) (cancel : Option (Addr × Bool)) (id : Nat) :
    (run (deployOne n r true) flt s cancel).1 = .ok id →
      id = s.next ∧ (run (deployOne n r true) flt s cancel).2.st.wls = ⟨s.next, n, r⟩ :: s.wls ∧
      (run (deployOne n r true) flt s cancel).2.st.usage = s.usage := by
  intro h
  have := deployOne_spec n r true flt { st := s, cancel := cancel }
  unfold wp at this
  unfold run at h ⊢
  rcases this with ⟨ho, hp⟩ | ⟨ho, _⟩
  · rw [ho] at h
    injection h with h
    obtain ⟨_, _, hu, _, _, _, _, _, hp⟩ := hp
    rcases hp with ⟨_, hw, _, _⟩ | ⟨hb, _⟩
    · exact ⟨h.symm, hw, hu⟩
    · cases hb
  · rw [ho] at h; cases h

/-- **failures are clean**: a failed `doDeployOneWorkload` (whatever step the fault hit: engine
create, WAL, metadata, start, inspect) leaves no workload record and no container behind and
never touched usage. (With ids below the fresh-id counter — part of `Inv`.) -/
theorem instance_failure_clean (n : String) (r : R) (flt : Option Addr) (s : State R) (cancel : Option (Addr × Bool))
    (hids : ∀ w ∈ s.wls, w.id < s.next) :
    (run (deployOne n r true) flt s cancel).1 = .fail →
      (run (deployOne n r true) flt s cancel).2.st.wls = s.wls ∧
      (∀ c ∈ (run (deployOne n r true) flt s cancel).2.st.cts, c ∈ s.cts) ∧
      (run (deployOne n r true) flt s cancel).2.st.usage = s.usage := by
  intro h
  have := deployOne_spec n r true flt { st := s, cancel := cancel }
  unfold wp at this
  unfold run at h ⊢
  rcases this with ⟨ho, _⟩ | ⟨_, hp⟩
  · rw [ho] at h; cases h
  · obtain ⟨_, _, hu, _, _, _, _, _, hp⟩ := hp
    rcases hp with ⟨hb, _⟩ | ⟨_, _, hw, hc⟩
    · cases hb
    · refine ⟨?_, ?_, hu⟩
      · rcases hw with e | e
        · exact e
        · rw [e]; exact filter_fresh hids
      · intro c hc'
        rcases hc with e | e
        · exact e ▸ hc'
        · rw [e] at hc'; exact (List.mem_filter.mp hc').1

/-- **no usage is left behind by failed instances**: after the whole call (successes, failures,
rollbacks, whatever the fault) every node's usage is again the sum of the recorded workloads —
the failed instances' allocations have been given back (C10's invariant for create). -/
theorem failures_leave_no_usage (a : CreateArgs R) (hnd : (a.plan.map (·.1)).Nodup) (flt : Option Addr)
    (s : State R) (cancel : Option (Addr × Bool)) (h : Inv s) : ∀ n, (after (.create a) flt s cancel).usage n = load (after (.create a) flt s cancel) n :=
  (create_inv a hnd flt { st := s, cancel := cancel } ⟨h, rfl, rfl⟩).2.2

/-- non-vacuity: on the witness state a deploy hit at the engine's start call fails, an unhit one
succeeds with the fresh id 2. -/
example : (run (deployOne "n" (2 : Int) true) (some ⟨"engineStart", "n", 0⟩) Eru.Props.C10.witness).1 = .fail := by
  decide
example : (run (deployOne "n" (2 : Int) true) none Eru.Props.C10.witness).1 = .ok 2 := by
  decide

end Eru.Props.C12

namespace Eru.Props.C12
open Eru.Cluster

/-! ### environment assumption: writes are atomic with respect to the caller's cancellation

All theorems above (and C10 / C11) use the store contract "a write either fails without effect or
takes effect" — also when the caller's context ends: ckit makes recorded writes atomic in that sense.
The real etcd client offers less: a write whose context ends while the request is in flight reports a
context error although the server may still apply it, possibly AFTER the compensating delete of the
rollback has run. `lateWrite` is that weaker contract for the metadata write of
`doDeployOneWorkload`: the write reports failure, the rollback runs, then the write lands. -/

/-- outcome of `doDeployOneWorkload` when its `store.AddWorkload` reports failure but is applied late -/
def lateWrite (s : State Int) : Out Nat × State Int :=
  let r := run (deployOne "n" (2 : Int) true) (some ⟨"storeAddWorkload", "n", 0⟩) s
  (r.1, addWl ⟨s.next, "n", 2⟩ r.2.st)

/-- **with the weaker contract the clauses fail**: the instance reports failure (C12: "each failure
leaves no workload record … behind", C11: no lasting effect) yet its record exists, without a
container, and the node's usage no longer equals the sum of its records (C10). Under the atomic
contract `instance_failure_clean` excludes exactly this. -/
theorem late_write_counterexample :
    let r := lateWrite Eru.Props.C10.witness
    r.1 = .fail ∧ (⟨2, "n", 2⟩ : Wl Int) ∈ r.2.wls ∧ (r.2.cts.all (fun c => c.id != 2)) = true ∧
      r.2.usage "n" ≠ load r.2 "n" := by
  decide

end Eru.Props.C12
