import Eru.Cluster.ProofsLift
import Eru.Props.C10
/-
C11 — A failed cluster operation leaves no lasting effect.

"Under a single injected failure of any store, engine, plugin or log step, every part of a
create, remove, dissociate, realloc, replace, add-node, remove-node or set-node call that
reports failure leaves workloads, nodes, node capacity and node usage exactly as they were
before the call. A failed replace leaves the old workload recorded and running."

Modelled here: remove, dissociate, realloc, replace, set-node and the all-or-nothing part of
create (its condition step).  The "parts" are the per-workload transactions (the API wrappers
only add reads in front of them, which the models include and which cannot change the state).
`AbsEq s s'`: same nodes, capacity, usage and the same set of workload records.
add-node and remove-node are modelled at the level of the resource manager's calls (one plugin).

The full statement is false for replace (finding D13: new workload recorded, removal of the old
one fails, nothing undoes the new one); realloc (D11), create (D12) and set-node (D25) were
repaired in /repo and the repaired code is what is modelled.
-/
namespace Eru.Props.C11
open Eru.Cluster
variable {R : Type} [ResAlg R]

/-- **remove**: whatever single step fails, a removal that reports failure changed nothing. -/
theorem remove_failed_part_no_effect (w : Wl R) (flt : Option Addr) (s : State R) (cancel : Option (Addr × Bool))
    (hnd : (s.wls.map (·.id)).Nodup) (hw : w ∈ s.wls) :
    (run (removeTxn w) flt s cancel).1 = .fail →
      AbsEq s (run (removeTxn w) flt s cancel).2.st ∧ (run (removeTxn w) flt s cancel).2.st.cts = s.cts :=
  removeTxn_failed_no_effect w flt { st := s, cancel := cancel } hnd hw

/-- **dissociate** -/
theorem dissociate_failed_part_no_effect (w : Wl R) (flt : Option Addr) (s : State R) (cancel : Option (Addr × Bool)) :
    (run (dissociateTxn w) flt s cancel).1 = .fail →
      AbsEq s (run (dissociateTxn w) flt s cancel).2.st ∧ (run (dissociateTxn w) flt s cancel).2.st.cts = s.cts :=
  dissociateTxn_failed_no_effect w flt { st := s, cancel := cancel }

/-- **realloc** (repaired code): also when the plugin has already committed the delta. -/
theorem realloc_failed_no_effect (w : Wl R) (answer : Option (R × R)) (flt : Option Addr) (s : State R) (cancel : Option (Addr × Bool))
    (hnd : (s.wls.map (·.id)).Nodup) (hw : w ∈ s.wls) :
    (run (doReallocOnNode w answer) flt s cancel).1 = .fail →
      AbsEq s (run (doReallocOnNode w answer) flt s cancel).2.st ∧ (run (doReallocOnNode w answer) flt s cancel).2.st.cts = s.cts :=
  doReallocOnNode_failed_no_effect w answer flt { st := s, cancel := cancel } hnd hw

/-- **set-node** (repaired code): a failed call restores the capacity. -/
theorem setNode_failed_no_effect (n : String) (newCap : Option R) (flt : Option Addr) (s : State R) (cancel : Option (Addr × Bool)) :
    (run (setNode n newCap) flt s cancel).1 = .fail → AbsEq s (run (setNode n newCap) flt s cancel).2.st :=
  Eru.Cluster.setNode_failed_no_effect n newCap flt { st := s, cancel := cancel }

/-- set-node as found (D25: the rollback call changed nothing) did NOT have the property. -/
theorem setNode_unrepaired_counterexample :
    ∃ (s : State Int) (flt : Option Addr), (run (setNode "n" (some 7) false) flt s).1 = .fail ∧
      (run (setNode "n" (some 7) false) flt s).2.st.cap "n" ≠ s.cap "n" :=
  ⟨{ nodes := ["n"], cap := fun _ => 10, usage := fun _ => 0, wls := [] },
   some ⟨"storeUpdateNodes", "n", 0⟩, by decide, by decide⟩

/-- **create, all-or-nothing part** (repaired code): when the condition step fails (allocation of a
later node, WAL, marker, …) then, after the rollback that `utils.Txn` runs, the workload records and
every node's usage are exactly what they were before the call — whatever earlier nodes had been
allocated is given back. -/
theorem create_failed_cond_no_effect (a : CreateArgs R) (flt : Option Addr) (s : State R) (cancel : Option (Addr × Bool)) (h : Inv s) :
    (run (createCond a) flt s cancel).1 = .fail →
      (exec (withDetached (createRollback a true)) flt (run (createCond a) flt s cancel).2).st.wls = s.wls ∧
      (exec (withDetached (createRollback a true)) flt (run (createCond a) flt s cancel).2).st.usage = s.usage :=
  createCond_failure_restores a flt { st := s, cancel := cancel } ⟨h, rfl, rfl⟩

/-- **create, the whole call incl. deferred WAL commits and marker deletions**: if every message of
the stream reports failure (the single error message of a failing condition step, or all instances
failed) the call changed nothing: same nodes, capacity, usage, records; no new container. -/
theorem create_failed_no_effect (a : CreateArgs R) (hnd : (a.plan.map (·.1)).Nodup) (flt : Option Addr)
    (s : State R) (cancel : Option (Addr × Bool)) (h : Inv s) :
    okIds (run (create a) flt s cancel).2.msgs = [] →
      AbsEq s (run (create a) flt s cancel).2.st ∧ ∀ c ∈ (run (create a) flt s cancel).2.st.cts, ∃ c0 ∈ s.cts, c0.id = c.id :=
  create_all_failed a hnd flt s cancel h

/-- **add-node**: whatever single step fails (engine info, plugin AddNode, store AddNode) a failed
call leaves nodes, plugin records, capacity, usage and workloads as they were (the plugin record
created in the condition step is removed again). -/
theorem addNode_failed_no_effect (n : String) (c : R) (flt : Option Addr) (s : State R) (cancel : Option (Addr × Bool)) (hwf : PluginWF s) :
    (run (addNode n c) flt s cancel).1 = .fail → NodeAbsEq s (run (addNode n c) flt s cancel).2.st :=
  addNode_failed n c flt { st := s, cancel := cancel } (fun h => hwf.1 n (by simpa using h)) (hwf.2 n)

/-- `PluginWF` (an absent plugin record reads as zero; every store node has a plugin record) is kept
by successful add-node and remove-node (`pluginWF_addNode_ok`, `pluginWF_removeNode_ok`); the other
operations write usage / capacity only for nodes named by their arguments (plan nodes, the node of a
recorded workload), which have plugin records in the real system (C22). -/
theorem pluginWF_node_ops (n : String) (c : R) (s : State R) (h : PluginWF s) (hnd : s.nodes.Nodup) :
    PluginWF (sAddNode n (pAddNode n c s)) ∧ PluginWF (pRmNode n (sRmNode n s)) :=
  ⟨pluginWF_addNode_ok n c h, pluginWF_removeNode_ok n h hnd⟩

/-- **The full statement for remove-node** (false: D16c). -/
def PropC11RemoveNode : Prop :=
  ∀ (n : String) (flt : Option Addr) (s : State Int),
    (run (removeNode n) flt s).1 = .fail → NodeAbsEq s (run (removeNode n) flt s).2.st

/-- **remove-node, partial**: every fault except one on the plugin's RemoveNode call, caller not cancelled
(a caller cancelled after the store record is gone makes the plugin call fail just the same: D16c again). -/
theorem removeNode_failed_no_effect_partial (n : String) (flt : Option Addr) (hG : RemoveNodeGuard flt)
    (s : State R) : (run (removeNode n) flt s).1 = .fail → NodeAbsEq s (run (removeNode n) flt s).2.st :=
  removeNode_failed_partial n flt hG { st := s } ⟨rfl, rfl⟩

/-- **D16c in the model**: the store record is deleted in the condition step, the plugin call of the
then step fails, the rollback does nothing: the call reports failure and the node is gone. -/
theorem removeNode_failed_counterexample : ¬ PropC11RemoveNode := by
  intro hp
  have h := hp "n" (some ⟨"pluginRemoveNode", "n", 0⟩)
    { nodes := ["n"], cap := fun _ => 10, usage := fun _ => 0, wls := [], pnodes := ["n"] } (by decide)
  have := h.1.1
  revert this
  decide

/-! ### API level (the wrappers' reads included) -/

/-- **ReallocResource returns an error ⇒ nothing changed** -/
theorem realloc_api_failed_no_effect (node : String) (id : Nat) (answer : Option (R × R)) (flt : Option Addr)
    (s : State R) (cancel : Option (Addr × Bool)) (hnd : (s.wls.map (·.id)).Nodup) :
    (run (realloc node id answer) flt s cancel).1 = .fail →
      AbsEq s (run (realloc node id answer) flt s cancel).2.st ∧ (run (realloc node id answer) flt s cancel).2.st.cts = s.cts :=
  realloc_failed node id answer flt { st := s, cancel := cancel } hnd

/-- **RemoveWorkload / DissociateWorkload, whole call**: whatever the fault, the records after the
call are exactly the records before minus those whose message reports success, and usage is again
the sum of the remaining records — so every workload whose message reports failure is recorded
unchanged and no usage of it was released. -/
theorem remove_api_exact (firstNode : String) (groups : List (String × List Nat)) (flt : Option Addr)
    (s : State R) (cancel : Option (Addr × Bool)) (h : Inv s) :
    let ms' := (run (remove firstNode groups) flt s cancel).2
    Inv ms'.st ∧ ∀ x, x ∈ ms'.st.wls ↔ (x ∈ s.wls ∧ ¬ x.id ∈ okIds ms'.msgs) :=
  removeLike_rmInv removeTxn true firstNode groups flt pres_removeTxn
    (fun w ms hnd hw => removeTxn_wls w flt ms hnd hw) s { st := s, cancel := cancel }
    ⟨h, fun x => ⟨fun hx => ⟨hx, by simp [okIds]⟩, fun hx => hx.1⟩⟩

theorem dissociate_api_exact (firstNode : String) (groups : List (String × List Nat)) (flt : Option Addr)
    (s : State R) (cancel : Option (Addr × Bool)) (h : Inv s) :
    let ms' := (run (dissociate firstNode groups) flt s cancel).2
    Inv ms'.st ∧ ∀ x, x ∈ ms'.st.wls ↔ (x ∈ s.wls ∧ ¬ x.id ∈ okIds ms'.msgs) :=
  removeLike_rmInv dissociateTxn false firstNode groups flt pres_dissociateTxn
    (fun w ms hnd hw => dissociateTxn_wls w flt ms hnd hw) s { st := s, cancel := cancel }
    ⟨h, fun x => ⟨fun hx => ⟨hx, by simp [okIds]⟩, fun hx => hx.1⟩⟩

/-- **ReplaceWorkload, one id, partial (D13)**: the call's message is the last of the stream; if it
reports failure the workload to replace satisfies `ReplaceFailPost`. -/
theorem replace_api_failed_partial (node : String) (id : Nat) (flt : Option Addr) (hG : ReplaceGuard flt)
    (s : State R) (cancel : Option (Addr × Bool)) (h : Inv s) :
    ∃ ok, (run (replace node id) flt s cancel).2.msgs.getLast? = some ⟨node, id, ok, none⟩ ∧
      (ok = false → ∀ w ∈ s.wls, w.id = id → ReplaceFailPost w s (run (replace node id) flt s cancel).2.st) :=
  replace_failed_partial node id flt hG { st := s, cancel := cancel } h

/-- **The full statement for replace** (false, see the counterexample). -/
def PropC11Replace : Prop :=
  ∀ (w : Wl Int) (flt : Option Addr) (s : State Int), Inv s → w ∈ s.wls →
    (run (doReplaceWorkload w) flt s).1 = .fail → ReplaceFailPost w s (run (doReplaceWorkload w) flt s).2.st

/-- **replace, partial** (faults on the removal of the old workload excluded): a failed replace
leaves nodes, capacity, usage and records as they were, and the old workload's container is
there — started again if the replace had stopped it. -/
theorem failed_replace_keeps_old_partial (w : Wl R) (flt : Option Addr) (hG : ReplaceGuard flt) (s : State R) (cancel : Option (Addr × Bool))
    (h : Inv s) (hw : w ∈ s.wls) :
    (run (doReplaceWorkload w) flt s cancel).1 = .fail → ReplaceFailPost w s (run (doReplaceWorkload w) flt s cancel).2.st :=
  doReplaceWorkload_failed_partial w flt hG { st := s, cancel := cancel } h hw

/-- **D13 in the model**: the store refuses to remove the old record → the replace reports failure
but the new workload stays recorded. -/
theorem failed_replace_counterexample : ¬ PropC11Replace := by
  intro hp
  have h := hp ⟨1, "n", 5⟩ (some ⟨"storeRemoveWorkload", "n", 0⟩) Eru.Props.C10.witness
    Eru.Props.C10.witness_inv (by decide) (by decide)
  have := (h.1.2.2.2 ⟨2, "n", 5⟩).mp (by decide)
  revert this
  decide

/-- hypotheses satisfiable: the witness state, its workload, a fault on the engine's start call -/
example : ReplaceGuard (some ⟨"engineStart", "n", 0⟩) := by
  intro a h
  simp only [Option.some.injEq] at h
  subst h
  decide

end Eru.Props.C11

namespace Eru.Props.C11
open Eru.Cluster
/-- non-vacuity of the cancellation plans: the caller of a removal is cancelled right AFTER the usage
was released; the store removal then fails with the context error (nobody injected a fault), the
rollback — detached from the caller — re-increments, the part reports failure and nothing changed. -/
example :
    let r := run (removeTxn (⟨1, "n", 5⟩ : Wl Int)) none Eru.Props.C10.witness (some (⟨"pluginSetUsage:decr", "n", 0⟩, true))
    r.1 = .fail ∧ r.2.st.usage "n" = 5 ∧ r.2.tr = [("pluginSetUsage:decr", "n", true), ("storeRemoveWorkload", "n", false), ("pluginSetUsage:incr", "n", true)] := by
  decide
end Eru.Props.C11
