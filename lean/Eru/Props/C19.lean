import Eru.Lock.ProofsRedis
import Eru.Lock.ProofsEtcd
import Eru.Lock.Ctx
import Eru.Lock.ProofsSpec
/-
C19 — a holder is told promptly when it loses its lock.
etcd: proved (`etcd_loss_cancels`, `etcd_loss_bound_assuming_urgency`, `pending_loss_watch_enabled`, `etcd_coexist_bound`).
Redis: the full statement `PropC19_redis` is false on the current code (the returned context is
`context.TODO()`): `redis_loss_counterexample`, `redis_two_holders_live_ctx`; what holds:
`redis_loss_partial` (under WithinLease the situation never arises) and C18.mutex_redis_live.
-/
namespace Eru.Props.C19
open Eru.Lock

/-! ## etcd -/

/-- **etcd_loss_cancels.**  When the lease of a holder is lost while its lock context is live, the
    watcher step is enabled and it cancels the context (`ErrLockSessionDone`). -/
theorem etcd_loss_cancels (p : Etcd.Params) (s : Etcd.State) (h : Etcd.Reach p s) (i : Nat)
    (hi : s.phase i = .holding) (hl : s.leaseAlive i = true) (hc : s.ctx i = .live) :
    let s1 := Etcd.loseLease s i
    Etcd.Step p s s1 ∧ Etcd.Step p s1 (Etcd.watch s1 i) ∧ (Etcd.watch s1 i).ctx i = .cancelled := by
  have hlk := ((Etcd.inv_reach h).l1 i hi).1
  refine ⟨Etcd.Step.loseLease s i hl, ?_, by simp [Etcd.watch, Etcd.upd]⟩
  exact Etcd.Step.watch _ i (by simp [Etcd.loseLease, Etcd.upd]) (by simpa [Etcd.loseLease] using hc)
    (by simpa [Etcd.loseLease] using hlk)

/-- **etcd_loss_bound_assuming_urgency.**  A client that still believes it holds the lock (`locked`)
    with a live context after its lease was lost at time `t` exists only until `t + keepalive`.
    This is the environment assumption itself seen as an invariant: `Step.tick` is disabled when it
    would exceed the bound (session.Done() fires within one keepalive interval and the watcher
    goroutine is scheduled).  That time cannot stop because of it is `pending_loss_watch_enabled`. -/
theorem etcd_loss_bound_assuming_urgency (p : Etcd.Params) (s : Etcd.State) (h : Etcd.Reach p s) (i t : Nat)
    (hp : Etcd.pendingLoss s i t) : s.wall ≤ t + p.keepalive :=
  (Etcd.inv_reach h).bound i t hp

/-- **pending_loss_watch_enabled.**  In every reachable state, whenever the urgency guard could block
    the clock (a pending loss exists), the watcher step of that client is enabled — and it removes
    the pending loss.  So the guard never stops time: the model has no timelock. -/
theorem pending_loss_watch_enabled (p : Etcd.Params) (s : Etcd.State) (h : Etcd.Reach p s) (i t : Nat)
    (hp : Etcd.pendingLoss s i t) :
    Etcd.Step p s (Etcd.watch s i) ∧ ∀ t', ¬ Etcd.pendingLoss (Etcd.watch s i) i t' := by
  obtain ⟨hc, hl, ht⟩ := hp
  have hla : s.leaseAlive i = false := by
    cases hl' : s.leaseAlive i with
    | false => rfl
    | true => have := (Etcd.inv_reach h).l3 i hl'; rw [this] at ht; cases ht
  refine ⟨Etcd.Step.watch s i hla hc hl, ?_⟩
  intro t' hp'
  have := hp'.1
  simp [Etcd.watch, Etcd.upd] at this

/-- **no false alarm** (oracle tag `C19:cancelled-while-holding`): a lock context is cancelled with
    `ErrLockSessionDone` only after the holder's lease was really lost — never while it still owns
    the lock, and never by a normal `Unlock` (which clears `locked` first). -/
theorem etcd_cancel_only_after_loss (p : Etcd.Params) (s : Etcd.State) (h : Etcd.Reach p s) (i : Nat)
    (hc : s.ctx i = .cancelled) : s.leaseAlive i = false :=
  Etcd.cancelled_implies_lost h i hc

/-- **etcd_coexist_bound.**  If two clients are both inside their critical sections, one of them
    has lost its lease, and that one's context is already cancelled or will be within one keepalive
    interval of the loss: a holder whose context is live coexists with another holder for at most
    one keepalive interval. -/
theorem etcd_coexist_bound (p : Etcd.Params) (s : Etcd.State) (h : Etcd.Reach p s) (i j : Nat) (hij : i ≠ j)
    (hi : s.phase i = .holding) (hj : s.phase j = .holding) :
    ∃ l, (l = i ∨ l = j) ∧ s.leaseAlive l = false ∧
      (s.ctx l = .cancelled ∨ ∃ t, s.lostAt l = some t ∧ s.wall ≤ t + p.keepalive) := by
  have inv := Etcd.inv_reach h
  have lost : ∀ l, s.phase l = .holding → s.leaseAlive l = false →
      (s.ctx l = .cancelled ∨ ∃ t, s.lostAt l = some t ∧ s.wall ≤ t + p.keepalive) := by
    intro l hl hla
    obtain ⟨t, ht⟩ := inv.l2 l hl hla
    obtain ⟨hlk, hc⟩ := inv.l1 l hl
    cases hcl : s.ctx l with
    | none => exact absurd hcl hc
    | cancelled => exact Or.inl rfl
    | live => exact Or.inr ⟨t, ht, inv.bound l t ⟨hcl, hlk, ht⟩⟩
  cases hli : s.leaseAlive i with
  | false => exact ⟨i, Or.inl rfl, hli, lost i hi hli⟩
  | true =>
    cases hlj : s.leaseAlive j with
    | false => exact ⟨j, Or.inr rfl, hlj, lost j hj hlj⟩
    | true => exact absurd (Etcd.live_holders_eq inv hi hj hli hlj) hij

/-- after a normal `Unlock` the watcher does not cancel the context with an error: the step is not
    enabled because `locked` is false -/
theorem etcd_unlock_no_false_alarm (s : Etcd.State) (i : Nat) : (Etcd.unlock s i).locked i = false := by
  simp [Etcd.unlock, Etcd.upd]

/-! ## several locks held by one critical section -/

theorem callbackCtx_eq (caller : Bool) (lost : List Bool) :
    Ctx.callbackCtx caller lost = (caller || lost.any id) := by
  unfold Ctx.callbackCtx
  induction lost generalizing caller with
  | nil => simp
  | cons l ls ih => simp only [List.foldl_cons, ih, Ctx.lockCtx, List.any_cons, id, Bool.or_assoc]

/-- **multi_key_loss_cancels.**  The context handed to the callback of `withNodesLocked` /
    `withWorkloadsLocked` is cancelled as soon as ANY of the held locks is lost (or the caller's
    context is cancelled) — not only the last one acquired. -/
theorem multi_key_loss_cancels (caller : Bool) (lost : List Bool) (i : Nat) (h : lost[i]? = some true) :
    Ctx.callbackCtx caller lost = true := by
  rw [callbackCtx_eq]
  have : lost.any id = true := List.any_eq_true.mpr ⟨true, List.mem_of_getElem? h, rfl⟩
  simp [this]

/-- and it stays live while nothing is lost -/
theorem multi_key_no_false_alarm (lost : List Bool) (h : ∀ l ∈ lost, l = false) :
    Ctx.callbackCtx false lost = false := by
  rw [callbackCtx_eq]
  simp only [Bool.false_or]
  apply Bool.eq_false_iff.mpr
  intro ha
  obtain ⟨x, hx, hid⟩ := List.any_eq_true.mp ha
  rw [h x hx] at hid; cases hid

example : Ctx.seen false [true, false] = .cancelled ∧ Ctx.seen false [false, true] = .sessionDone ∧
    Ctx.seen false [false, false] = .live := by decide

/-- **replay_meets_loss_spec_etcd.**  The C19 clauses of the spec the oracle evaluates
    (`etcd-loss-not-signalled`, `cancelled-while-holding`; `signalled-late` needs a stopwatch) never fire
    on the etcd model's own replay of any command list: a holder whose lease was revoked/expired has a
    cancelled context when observed, a holder with a live lease never has.  (Same theorem as
    C18.replay_meets_spec_etcd: the whole violation list is empty.) -/
theorem replay_meets_loss_spec_etcd (p : Etcd.Params) (iv : Nat) (cs : List Etcd.Cmd) :
    (Spec.specReplayEtcd p iv {} Etcd.init cs).viol = [] :=
  Spec.je_replay iv cs {} Etcd.init (Spec.je_init p) (Etcd.good_init p)

/-- the multi-key clause (`lost-lock-not-signalled:multi-key`) on the chained-context model: what the
    callback sees according to `Ctx.seen` never violates `Spec.multiKeyViol` -/
theorem multi_key_model_meets_spec (lost : List Bool) :
    Spec.multiKeyViol lost (Ctx.seen false lost == .live) false = [] :=
  Spec.multiKey_model_meets_spec lost

/-! ## Redis -/

/-- Full statement for Redis: a holder whose key expired at `e` has its context cancelled by `e + K`. -/
def PropC19_redis (K : Nat) : Prop :=
  ∀ (p : Redis.Params) (s : Redis.State), Redis.Reach p s → ∀ i tok e,
    s.cl i = .holding tok → s.val = some (tok, e) → e + K ≤ s.now → s.ctxCancelled i = true

/-- the context is never cancelled, whatever happens -/
theorem redis_ctx_never_cancelled (p : Redis.Params) (s : Redis.State) (h : Redis.Reach p s) (i : Nat) :
    s.ctxCancelled i = false := Redis.ctx_never_cancelled h i

/-- **Counterexample** (any bound `K`): client 0 locks with TTL 1, the server clock runs `1 + K`
    ticks; its key is expired for `K` ticks and its context is still live. -/
theorem redis_loss_counterexample (K : Nat) : ¬ PropC19_redis K := by
  intro hprop
  let p : Redis.Params := ⟨1, 1, 1⟩
  have r1 : Redis.Reach p (Redis.begin p Redis.init 0 .lock) := .step .init (.begin _ 0 .lock rfl)
  have r2 := Redis.Reach.step r1 (Redis.Step.attempt _ 0 .lock 0 0 1 rfl (Nat.le_refl _) (by decide))
  have r3 := Redis.reach_ticks r2 (1 + K)
  have hc := hprop p _ r3 0 0 1 rfl rfl (by simp [Redis.attempt, Redis.begin, Redis.setCl, Redis.alive, Redis.init])
  have := Redis.ctx_never_cancelled r3 0
  rw [this] at hc; cases hc

/-- the same defect seen as coexistence: a second client acquires after the TTL while the first is
    still in its critical section, and both contexts are live — for ever (no step cancels them). -/
theorem redis_two_holders_live_ctx :
    ∃ s, Redis.Reach ⟨1, 1, 1⟩ s ∧ Redis.isHolding s 0 ∧ Redis.isHolding s 1 ∧
      s.ctxCancelled 0 = false ∧ s.ctxCancelled 1 = false := by
  let p : Redis.Params := ⟨1, 1, 1⟩
  have r1 : Redis.Reach p (Redis.begin p Redis.init 0 .lock) := .step .init (.begin _ 0 .lock rfl)
  have r2 := Redis.Reach.step r1 (Redis.Step.attempt _ 0 .lock 0 0 1 rfl (Nat.le_refl _) (by decide))
  have r3 := Redis.Reach.step r2 (Redis.Step.tickServer _)
  have r4 := Redis.Reach.step r3 (Redis.Step.begin _ 1 .lock rfl)
  have r5 := Redis.Reach.step r4 (Redis.Step.attempt _ 1 .lock 1 0 1 rfl (Nat.le_refl _) (by decide))
  exact ⟨_, r5, ⟨0, rfl⟩, ⟨1, rfl⟩, Redis.ctx_never_cancelled r5 0, Redis.ctx_never_cancelled r5 1⟩

/-- **replay_meets_loss_spec_redis.**  On the Redis model's own replay of any command list the ONLY
    tag the spec can ever report is the finding D15 (`redis-ttl-expiry-not-signalled`): no false alarm
    (`cancelled-while-holding`), no C18 tag. -/
theorem replay_meets_loss_spec_redis (p : Redis.Params) (hp : 0 < p.wait) (cs : List Redis.Cmd) :
    ∀ t ∈ (Spec.specReplayRedis p {} Redis.init cs).viol, t = Spec.tagD15 := by
  apply Spec.jr_replay hp cs {} Redis.init _ .init
  exact ⟨rfl, fun h hh => (by cases hh), fun t e h => (by simp [Redis.alive, Redis.init] at h),
    fun c hc => (by cases hc), fun t h => (by cases h)⟩

/-- … and within the lease there is nothing to report at all: if no `observe` of a schedule finds a
    holder whose TTL has elapsed (D15 does not fire), the spec is silent -/
theorem replay_meets_loss_spec_redis_within_lease (p : Redis.Params) (hp : 0 < p.wait) (cs : List Redis.Cmd)
    (hwl : Spec.tagD15 ∉ (Spec.specReplayRedis p {} Redis.init cs).viol) :
    (Spec.specReplayRedis p {} Redis.init cs).viol = [] := by
  cases hv : (Spec.specReplayRedis p {} Redis.init cs).viol with
  | nil => rfl
  | cons t ts =>
    have := replay_meets_loss_spec_redis p hp cs t (by rw [hv]; exact List.mem_cons_self)
    rw [hv] at hwl
    exact absurd (this ▸ List.mem_cons_self) hwl

/-- **Partial**: while holders stay within the TTL (WithinLease) the premise never arises — a
    holder's key is present and unexpired, so there is no loss to be told about. -/
theorem redis_loss_partial (p : Redis.Params) (hp : 0 < p.ttl) (s : Redis.State) (h : Redis.ReachWL p s)
    (i tok : Nat) (hi : s.cl i = .holding tok) : ∃ e, s.val = some (tok, e) ∧ s.now < e :=
  Redis.holderLive_reachWL hp h i tok hi

/-! Non-vacuity for etcd: a reachable state in which the first holder lost its lease, a second
    client acquired, and the first one's context is still live (inside the keepalive window). -/
example : ∃ s, Etcd.Reach ⟨3, 1⟩ s ∧ s.phase 0 = .holding ∧ s.phase 1 = .holding ∧ s.ctx 0 = .live ∧
    s.leaseAlive 0 = false := by
  let p : Etcd.Params := ⟨3, 1⟩
  have r1 := Etcd.Reach.step .init (Etcd.Step.acquire (p := p) Etcd.init 0 .lock rfl rfl)
  have r2 := Etcd.Reach.step r1 (Etcd.Step.acquire (p := p) _ 1 .lock rfl rfl)
  have r3 := Etcd.Reach.step r2 (Etcd.Step.loseLease (p := p) _ 0 rfl)
  have r4 := Etcd.Reach.step r3 (Etcd.Step.waitDone (p := p) _ 1 3 (by decide) (by decide))
  exact ⟨_, r4, by decide, by decide, by decide, by decide⟩

end Eru.Props.C19
