import Eru.Rpc.AuthProofs
/-
C35 — RPC authentication accepts exactly matching credentials.

Quantifier: all server configurations, all client credentials (or none), all extra call metadata —
over all strings.  The gRPC transport between `BasicCredential` and `BasicAuth` is the explicit,
assumed function `wire`/`wireOk` of Eru/Rpc/Auth.lean (keys lower-cased, values preserved, invalid
header names/values refused before any interceptor runs).  Because the transport cannot preserve the
case of a key, "presents the configured username" is necessarily modulo ASCII case.

The model is the code after the D24 fix; `same_credentials_rejected_before_fix` proves the defect of
the code before the fix from the concrete witness that the harness replays.
-/
namespace Eru.Props.C35
open Eru.Rpc.Auth

/-- a call (unary or streaming: both interceptors run `doAuth` first) is served iff the transport
accepts the headers and the first value presented under the configured username is the configured password -/
theorem served_iff (cfg : Cred) (cred : Option Cred) (extra : List (Str × Str)) :
    call cfg cred extra = .served ↔ wireOk (wire cred extra) = true ∧ presents cfg cred extra = true :=
  call_served_iff cfg cred extra

/-- for a client that presents one credential and nothing else: served iff its header is well formed,
the username matches (modulo the transport's lower-casing) and the password is equal -/
theorem served_iff_credential (cfg c : Cred) :
    call cfg (some c) [] = .served ↔
      fieldOk (lower c.user, c.pass) = true ∧ lower c.user = lower cfg.user ∧ c.pass = cfg.pass := by
  rw [call_served_iff]
  unfold presents
  simp only [wire, List.map_nil, List.append_nil, wireOk, List.all_cons, List.all_nil, Bool.and_true, values_single]
  by_cases h : lower c.user = lower cfg.user <;> simp [h]

/-- a client configured with the same credentials as the server is always accepted (whenever the
credential can be carried as gRPC metadata at all) -/
theorem same_credentials_accepted (cfg : Cred) (h : fieldOk (lower cfg.user, cfg.pass) = true) :
    call cfg (some cfg) [] = .served := by
  rw [served_iff_credential]; exact ⟨h, rfl, rfl⟩

/-- a caller without credentials is never served -/
theorem anonymous_rejected (cfg : Cred) : call cfg none [] ≠ .served := by
  simp [call, wire, wireOk, doAuth, values]

/-- a wrong password is never served, whatever else the caller sends after the credential -/
theorem wrong_password_rejected (cfg c : Cred) (extra : List (Str × Str))
    (hu : lower c.user = lower cfg.user) (hp : c.pass ≠ cfg.pass) : call cfg (some c) extra ≠ .served := by
  rw [Ne, call_served_iff]
  unfold presents
  simp [wire, values, hu, hp]

/-- the decidable specification evaluated by the oracle holds of the model on every input -/
theorem call_meets_spec (cfg : Cred) (cred : Option Cred) (extra : List (Str × Str)) :
    specAuth cfg cred extra (call cfg cred extra == .served) = [] := by
  have h := call_served_iff cfg cred extra
  unfold specAuth
  by_cases hs : call cfg cred extra = .served
  · have := h.mp hs
    simp [hs, this.2]
  · have hb : (call cfg cred extra == Verdict.served) = false := by simp [hs]
    rw [hb]
    by_cases hw : wireOk (wire cred extra) = true
    · have hp : presents cfg cred extra = false := by
        cases hp : presents cfg cred extra
        · rfl
        · exact absurd (h.mpr ⟨hw, hp⟩) hs
      by_cases hc : cred = some cfg
      · subst hc
        cases extra with
        | nil => simp [presents, wire, values] at hp
        | cons a r => simp [hp, hw]
      · simp [hp, hw, hc]
    · simp [hw]

/-- D24 (fixed in /repo by `fix: auth/simple looks the configured username up lower-cased`): before
the fix a server configured with a mixed-case username rejected a client holding exactly the same
credentials -/
theorem same_credentials_rejected_before_fix :
    ∃ cfg : Cred, fieldOk (lower cfg.user, cfg.pass) = true ∧ callUnfixed cfg (some cfg) [] = .badUsername :=
  ⟨{ user := "Admin".toList, pass := "secret".toList }, by decide⟩

example : call { user := "Admin".toList, pass := "secret".toList } (some { user := "Admin".toList, pass := "secret".toList }) [] = .served := by decide
example : call { user := "admin".toList, pass := "".toList } (some { user := "ADMIN".toList, pass := "".toList }) [] = .served := by decide

end Eru.Props.C35
