import Eru.Rpc.AuthProofs
/-
C35 — RPC authentication accepts exactly matching credentials.

Quantifier: all server configurations, all client credentials (or none), all extra call metadata —
over all strings.  The gRPC transport between `BasicCredential` and `BasicAuth` is the explicit,
assumed function `wire`/`wireOk` of Eru/Rpc/Auth.lean (keys lower-cased, values preserved, invalid
header names/values refused before any interceptor runs).  Because the transport cannot preserve the
case of a key, "presents the configured username" is necessarily modulo ASCII case.

The model is the code after the D24 fix; `same_credentials_rejected_before_fix` proves the defect of
the code before the fix from the concrete witness that the harness replays.
-/
namespace Eru.Props.C35
open Eru.Rpc.Auth

/-- a call is served iff the transport accepts the headers and the first value presented under the
configured username is the configured password.  (Close to definitional: `presents` is the lookup
`doAuth` performs; the content is in `served_iff_credential_modulo_case`, `correct_credential_served_with_any_extras`
and `wrong_password_rejected`.)  The unary/streaming split is not visible in the model — both
interceptors call the same `doAuth` before the handler; that both really do is checked by the oracle
only (every case makes one unary and one streaming call and reports whether each handler ran). -/
theorem served_iff (cfg : Cred) (cred : Option Cred) (extra : List (Str × Str)) :
    call cfg cred extra = .served ↔ wireOk (wire cred extra) = true ∧ presents cfg cred extra = true :=
  call_served_iff cfg cred extra

/-- for a client that presents one credential and nothing else: served iff its header is well formed,
the username matches MODULO ASCII CASE and the password is EXACTLY equal.  This is weaker than
"exactly matching credentials" on the username side (client `ADMIN` is served by server `admin`,
second `example` below) and cannot be otherwise: gRPC lower-cases every metadata key before it is
sent (HTTP/2 forbids upper-case header names), so the case of the client's username never reaches
the server.  Passwords travel as values, are preserved byte for byte and are compared with `=`. -/
theorem served_iff_credential_modulo_case (cfg c : Cred) :
    call cfg (some c) [] = .served ↔
      fieldOk (lower c.user, c.pass) = true ∧ lower c.user = lower cfg.user ∧ c.pass = cfg.pass := by
  rw [call_served_iff]
  unfold presents
  simp only [wire, List.map_nil, List.append_nil, wireOk, List.all_cons, List.all_nil, Bool.and_true, values_single]
  by_cases h : lower c.user = lower cfg.user <;> simp [h]

/-- a client configured with the same credentials as the server is always accepted (whenever the
credential can be carried as gRPC metadata at all) -/
theorem same_credentials_accepted (cfg : Cred) (h : fieldOk (lower cfg.user, cfg.pass) = true)
    (_hdom : inDomain (wire (some cfg) []) = true) :   -- not a header name gRPC reserves for itself (outside the model's domain)
    call cfg (some cfg) [] = .served := by
  rw [served_iff_credential_modulo_case]; exact ⟨h, rfl, rfl⟩

/-- the right credential is served whatever well-formed metadata the call carries besides (the
credential headers precede the call's own metadata, and the server compares the first value) -/
theorem correct_credential_served_with_any_extras (cfg c : Cred) (extra : List (Str × Str))
    (hu : lower c.user = lower cfg.user) (hp : c.pass = cfg.pass)
    (hw : wireOk (wire (some c) extra) = true) : call cfg (some c) extra = .served := by
  rw [call_served_iff]
  refine ⟨hw, ?_⟩
  simp [presents, wire, values, hu, hp]

/-- passwords are compared exactly: a password differing only in case is rejected -/
theorem password_case_matters :
    call { user := "admin".toList, pass := "secret".toList } (some { user := "admin".toList, pass := "Secret".toList }) [] = .badPassword := by
  decide

/-- `call_independent_of_history`: the property is per CALL.  In a history of calls on one connection
the decision for the k-th call is `call` of that call's own credential and metadata — it does not depend
on the calls before it (no "this connection/peer has authenticated before" state).  Trivial in the
model, and exactly the assumption the harness ties to the code: histories good → bad → none → good with
per-call credentials on ONE connection, unary and streaming mixed, each call checked against `call`. -/
theorem call_independent_of_history (cfg : Cred) (before after : List (Option Cred × List (Str × Str)))
    (c : Option Cred × List (Str × Str)) :
    (serve cfg (before ++ c :: after))[before.length]? = some (call cfg c.1 c.2) := by
  simp [serve]

/-- a caller without credentials is never served -/
theorem anonymous_rejected (cfg : Cred) : call cfg none [] ≠ .served := by
  simp [call, wire, wireOk, doAuth, values]

/-- a wrong password is never served, whatever else the caller sends after the credential -/
theorem wrong_password_rejected (cfg c : Cred) (extra : List (Str × Str))
    (hu : lower c.user = lower cfg.user) (hp : c.pass ≠ cfg.pass) : call cfg (some c) extra ≠ .served := by
  rw [Ne, call_served_iff]
  unfold presents
  simp [wire, values, hu, hp]

/-- in particular a wrong password is rejected after any number of successful calls -/
theorem bad_call_rejected_after_good_calls (cfg bad : Cred) (n : Nat) (hu : lower bad.user = lower cfg.user)
    (hp : bad.pass ≠ cfg.pass) :
    (serve cfg (List.replicate n (some cfg, []) ++ [(some bad, [])])).getLast? ≠ some .served := by
  have : (serve cfg (List.replicate n (some cfg, []) ++ [(some bad, [])])).getLast? = some (call cfg (some bad) []) := by
    simp [serve]
  rw [this]
  intro h
  exact wrong_password_rejected cfg bad [] hu hp (Option.some.inj h)

/-- the decidable specification evaluated by the oracle holds of the model on every input -/
theorem call_meets_spec (cfg : Cred) (cred : Option Cred) (extra : List (Str × Str)) :
    specAuth cfg cred extra (call cfg cred extra == .served) = [] := by
  have h := call_served_iff cfg cred extra
  unfold specAuth
  by_cases hs : call cfg cred extra = .served
  · have := h.mp hs
    simp [hs, this.2]
  · have hb : (call cfg cred extra == Verdict.served) = false := by simp [hs]
    rw [hb]
    by_cases hw : wireOk (wire cred extra) = true
    · have hp : presents cfg cred extra = false := by
        cases hp : presents cfg cred extra
        · rfl
        · exact absurd (h.mpr ⟨hw, hp⟩) hs
      by_cases hc : cred = some cfg
      · subst hc
        cases extra with
        | nil => simp [presents, wire, values] at hp
        | cons a r => simp [hp, hw]
      · simp [hp, hw, hc]
    · simp [hw]

/-- D24 (fixed in /repo by `fix: auth/simple looks the configured username up lower-cased`): before
the fix a server configured with a mixed-case username rejected a client holding exactly the same
credentials -/
theorem same_credentials_rejected_before_fix :
    ∃ cfg : Cred, fieldOk (lower cfg.user, cfg.pass) = true ∧ callUnfixed cfg (some cfg) [] = .badUsername :=
  ⟨{ user := "Admin".toList, pass := "secret".toList }, by decide⟩

example : call { user := "Admin".toList, pass := "secret".toList } (some { user := "Admin".toList, pass := "secret".toList }) [] = .served := by decide
example : call { user := "admin".toList, pass := "".toList } (some { user := "ADMIN".toList, pass := "".toList }) [] = .served := by decide

end Eru.Props.C35
