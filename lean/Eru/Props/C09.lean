import Eru.Book.ProofsMerge
/-
C09 — Multi-plugin capacity aggregation is independent of plugin order.
Property theorems only; the closed form of the merge is proved in Eru/Book/ProofsMerge.lean.
Usage, rate and weight are rationals (the implementation uses float64; the correspondence
check compares with tolerance).
-/
namespace Eru.Props.C09
open Eru Eru.Book

/-- pointwise view of the manager's result -/
theorem manager_find (answers : List Answer) (node : String) :
    (managerDeployCapacity answers).1.find? node = (mergedOf answers node).map average := by
  unfold managerDeployCapacity
  simp only
  rw [← mergeFold_find]
  exact find_map _ average node

/-- A node is offered by the manager iff every plugin offers it (and there is a plugin). -/
theorem merge_offered_iff_all (answers : List Answer) (node : String) :
    ((managerDeployCapacity answers).1.find? node).isSome = true ↔
      (answers ≠ [] ∧ offeredByAll answers node = true) := by
  rw [manager_find]
  unfold mergedOf
  split <;> simp_all

/-- The merged capacity of an offered node is the smallest of the plugins' capacities. -/
theorem merge_cap_min (answers : List Answer) (node : String) (c : Cap)
    (h : (managerDeployCapacity answers).1.find? node = some c) : c.cap = minCap answers node := by
  rw [manager_find] at h
  unfold mergedOf at h
  split at h
  · simp only [Option.map_some, Option.some.injEq] at h; subst h; rfl
  · simp at h

/-- Usage and rate of an offered node are the weight-averaged plugin values
    `Σ wᵢ·uᵢ / Σ wᵢ` (together with `merge_cap_min`: `MergedOk`). -/
theorem merge_weighted_avg (answers : List Answer) (node : String) (c : Cap)
    (h : (managerDeployCapacity answers).1.find? node = some c) : MergedOk answers node c := by
  have hc := merge_cap_min answers node c h
  rw [manager_find] at h
  unfold mergedOf at h
  split at h
  · simp only [Option.map_some, Option.some.injEq] at h; subst h
    exact ⟨hc, rfl, rfl⟩
  · simp at h

/-- with a single plugin the reported usage/rate are the plugin's own (weight ≠ 0) -/
theorem single_plugin_identity (a : Answer) (node : String) (c : Cap) (h : a.find? node = some c) (hw : c.weight ≠ 0) :
    ∃ c', (managerDeployCapacity [a]).1.find? node = some c' ∧ c'.cap = c.cap ∧ c'.usage = c.usage ∧ c'.rate = c.rate := by
  rw [manager_find]
  unfold mergedOf
  simp only [ne_eq, reduceCtorEq, not_false_eq_true, offeredByAll, List.all_cons, h, Option.isSome_some,
    List.all_nil, Bool.and_self, and_self, if_true, Option.map_some]
  refine ⟨_, rfl, ?_, ?_, ?_⟩
  · simp [average, minCap, h]
  · simp only [average, weightedSum, weightSum, List.map_cons, h, List.map_nil, List.sum_cons, List.sum_nil]
    grind
  · simp only [average, weightedSum, weightSum, List.map_cons, h, List.map_nil, List.sum_cons, List.sum_nil]
    grind

/-! ### independence of the answer order -/

theorem sum_perm {l l' : List Rat} (h : l.Perm l') : l.sum = l'.sum := by
  induction h with
  | nil => rfl
  | cons x _ ih => simp [ih]
  | swap x y l => simp only [List.sum_cons]; grind
  | trans _ _ ih1 ih2 => exact ih1.trans ih2

def minList : List Int → Int
  | [] => 0
  | c :: cs => cs.foldl min c

theorem foldl_min_le (cs : List Int) (c : Int) : cs.foldl min c ≤ c ∧ ∀ x ∈ cs, cs.foldl min c ≤ x := by
  induction cs generalizing c with
  | nil => simp
  | cons d rest ih =>
    obtain ⟨h1, h2⟩ := ih (min c d)
    simp only [List.foldl_cons, List.mem_cons]
    refine ⟨by omega, ?_⟩
    rintro x (rfl | hx)
    · omega
    · exact h2 x hx

theorem foldl_min_mem (cs : List Int) (c : Int) : cs.foldl min c = c ∨ cs.foldl min c ∈ cs := by
  induction cs generalizing c with
  | nil => simp
  | cons d rest ih =>
    simp only [List.foldl_cons, List.mem_cons]
    rcases ih (min c d) with h | h
    · rw [h]; rcases Int.le_total c d with h' | h'
      · left; omega
      · right; left; omega
    · right; right; exact h

theorem minList_perm {l l' : List Int} (h : l.Perm l') : minList l = minList l' := by
  cases l with
  | nil => rw [List.nil_perm.1 h] 
  | cons c cs =>
    cases l' with
    | nil => exact absurd h.symm (by simp)
    | cons c' cs' =>
      have key : ∀ (a : Int) (as : List Int) (b : Int) (bs : List Int), (a :: as).Perm (b :: bs) →
          minList (b :: bs) ≤ minList (a :: as) := by
        intro a as b bs hp
        have hm : minList (a :: as) ∈ (a :: as) := by
          simp only [minList, List.mem_cons]; exact foldl_min_mem as a
        have hm' : minList (a :: as) ∈ (b :: bs) := hp.mem_iff.1 hm
        simp only [List.mem_cons] at hm'
        have := foldl_min_le bs b
        rcases hm' with e | e
        · simp only [minList] at e ⊢; omega
        · simp only [minList] at e ⊢; exact this.2 _ e
      have h1 := key c cs c' cs' h
      have h2 := key c' cs' c cs h.symm
      omega

theorem minCap_eq_minList (answers : List Answer) (node : String) : minCap answers node = minList (capsOf answers node) := by
  unfold minCap capsOf
  cases List.filterMap (fun a => Option.map (fun x => x.cap) (Answer.find? a node)) answers <;> rfl

theorem mergedOf_perm {as as' : List Answer} (h : as.Perm as') (node : String) : mergedOf as node = mergedOf as' node := by
  have h0 : as ≠ [] ↔ as' ≠ [] := by
    constructor
    · intro hne e; subst e; exact hne (List.perm_nil.1 h)
    · intro hne e; subst e; exact hne (List.nil_perm.1 h)
  have h1 : offeredByAll as node = offeredByAll as' node := h.all_eq
  have h2 : minCap as node = minCap as' node := by
    rw [minCap_eq_minList, minCap_eq_minList]
    exact minList_perm (h.filterMap _)
  have h3 : ∀ f : Cap → Rat, weightedSum as node f = weightedSum as' node f := fun f => sum_perm (h.map _)
  have h4 : weightSum as node = weightSum as' node := sum_perm (h.map _)
  unfold mergedOf
  rw [h1, h2, h3, h3, h4]
  by_cases e : as = []
  · have e' : as' = [] := by subst e; exact List.nil_perm.1 h
    simp [e, e']
  · have e' : as' ≠ [] := h0.1 e
    simp [e, e']

/-- The result does not depend on the order in which the plugins answer: for any two orders
    of the same answers every node gets the same entry (offered or not; capacity, usage, rate,
    weight). -/
theorem merge_perm_invariant {answers answers' : List Answer} (h : answers.Perm answers') (node : String) :
    (managerDeployCapacity answers).1.find? node = (managerDeployCapacity answers').1.find? node := by
  rw [manager_find, manager_find, mergedOf_perm h]

/-- The merge before the fix took the first answer unweighted, so a single plugin with
    usage `u` and weight `w` was reported with usage `u / w` (witness: u = 1, w = 2 gives 1/2),
    and with two plugins the result depended on which one came first. -/
theorem merge_old_counterexample :
    let a : Answer := [("n", { cap := 3, usage := 1, rate := 1, weight := 2 })]
    let b : Answer := [("n", { cap := 2, usage := 0, rate := 0, weight := 1 })]
    let old (l : List Answer) := (l.foldl (fun acc x => some (mergeCapacityOld acc x)) none).getD []
    ((old [a]).find? "n").map (fun c => (average c).usage) = some (1 / 2) ∧
    ((old [a, b]).find? "n").map (fun c => (average c).usage) ≠
      ((old [b, a]).find? "n").map (fun c => (average c).usage) := by
  simp only [List.foldl_cons, List.foldl_nil, mergeCapacityOld, Option.getD_some, Answer.find?, if_true,
    Option.map_some, average, mergeCapacity, List.filterMap_cons, List.filterMap_nil, mergeEntry]
  constructor
  · trivial
  · simp only [ne_eq, Option.some.injEq]; grind

example : ∃ answers node c, (managerDeployCapacity answers).1.find? node = some c ∧ answers.length = 2 :=
  ⟨[[("n", { cap := 3, usage := 1, rate := 1, weight := 2 })], [("n", { cap := 2 })]], "n", _, rfl, rfl⟩

end Eru.Props.C09
