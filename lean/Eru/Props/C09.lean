import Eru.Book.ProofsMerge
/-
C09 — Multi-plugin capacity aggregation is independent of plugin order.
Property theorems only; the closed form of the merge is proved in Eru/Book/ProofsMerge.lean.
Usage, rate and weight are rationals (the implementation uses float64; the correspondence
check compares with tolerance).
-/
namespace Eru.Props.C09
open Eru Eru.Book

/-- pointwise view of the manager's result -/
theorem manager_find (answers : List Answer) (node : String) :
    (managerDeployCapacity answers).1.find? node = (mergedOf answers node).map average := by
  unfold managerDeployCapacity
  simp only
  rw [← mergeFold_find]
  exact find_map _ average node

/-- A node is offered by the manager iff every plugin offers it (and there is a plugin). -/
theorem merge_offered_iff_all (answers : List Answer) (node : String) :
    ((managerDeployCapacity answers).1.find? node).isSome = true ↔
      (answers ≠ [] ∧ offeredByAll answers node = true) := by
  rw [manager_find]
  unfold mergedOf
  split <;> simp_all

/-- The merged capacity of an offered node is the smallest of the plugins' capacities. -/
theorem merge_cap_min (answers : List Answer) (node : String) (c : Cap)
    (h : (managerDeployCapacity answers).1.find? node = some c) : c.cap = minCap answers node := by
  rw [manager_find] at h
  unfold mergedOf at h
  split at h
  · simp only [Option.map_some, Option.some.injEq] at h; subst h; rfl
  · simp at h

/-- Usage and rate of an offered node whose weight sum is not zero are the weight-averaged plugin
    values `Σ wᵢ·uᵢ / Σ wᵢ` (together with `merge_cap_min`: `MergedOk`).  Individual weights may be
    zero.  The hypothesis `hw` is what makes the statement meaningful: with a zero weight sum the
    Go code computes 0/0 = NaN, see `merge_zero_weight_sum_model_artefact`. -/
theorem merge_weighted_avg (answers : List Answer) (node : String) (c : Cap)
    (h : (managerDeployCapacity answers).1.find? node = some c) (_hw : weightSum answers node ≠ 0) :
    MergedOk answers node c := by
  have hc := merge_cap_min answers node c h
  rw [manager_find] at h
  unfold mergedOf at h
  split at h
  · simp only [Option.map_some, Option.some.injEq] at h; subst h
    exact ⟨hc, rfl, rfl⟩
  · simp at h

/-- OUTSIDE THE PROPERTY'S DOMAIN (documentation of a model artefact): if the weights of an
    offered node sum to zero the model reports usage = rate = 0 because `Rat` division by zero is 0,
    whereas the Go code yields NaN (0/0 in float64).  No claim about the code is derived from this. -/
theorem merge_zero_weight_sum_model_artefact (answers : List Answer) (node : String) (c : Cap)
    (h : (managerDeployCapacity answers).1.find? node = some c) (hw : weightSum answers node = 0) :
    c.usage = 0 ∧ c.rate = 0 := by
  rw [manager_find] at h
  unfold mergedOf at h
  split at h
  · simp only [Option.map_some, Option.some.injEq] at h; subst h
    simp only [average, hw, Rat.div_def, Rat.inv_zero, Rat.mul_zero, and_self]
  · simp at h

/-- with a single plugin the reported usage/rate are the plugin's own (weight ≠ 0) -/
theorem single_plugin_identity (a : Answer) (node : String) (c : Cap) (h : a.find? node = some c) (hw : c.weight ≠ 0) :
    ∃ c', (managerDeployCapacity [a]).1.find? node = some c' ∧ c'.cap = c.cap ∧ c'.usage = c.usage ∧ c'.rate = c.rate := by
  rw [manager_find]
  unfold mergedOf
  simp only [ne_eq, reduceCtorEq, not_false_eq_true, offeredByAll, List.all_cons, h, Option.isSome_some,
    List.all_nil, Bool.and_self, and_self, if_true, Option.map_some]
  refine ⟨_, rfl, ?_, ?_, ?_⟩
  · simp [average, minCap, h]
  · simp only [average, weightedSum, weightSum, List.map_cons, h, List.map_nil, List.sum_cons, List.sum_nil]
    grind
  · simp only [average, weightedSum, weightSum, List.map_cons, h, List.map_nil, List.sum_cons, List.sum_nil]
    grind

/-! ### independence of the answer order -/

theorem sum_perm {l l' : List Rat} (h : l.Perm l') : l.sum = l'.sum := by
  induction h with
  | nil => rfl
  | cons x _ ih => simp [ih]
  | swap x y l => simp only [List.sum_cons]; grind
  | trans _ _ ih1 ih2 => exact ih1.trans ih2

def minList : List Int → Int
  | [] => 0
  | c :: cs => cs.foldl min c

theorem foldl_min_le (cs : List Int) (c : Int) : cs.foldl min c ≤ c ∧ ∀ x ∈ cs, cs.foldl min c ≤ x := by
  induction cs generalizing c with
  | nil => simp
  | cons d rest ih =>
    obtain ⟨h1, h2⟩ := ih (min c d)
    simp only [List.foldl_cons, List.mem_cons]
    refine ⟨by omega, ?_⟩
    rintro x (rfl | hx)
    · omega
    · exact h2 x hx

theorem foldl_min_mem (cs : List Int) (c : Int) : cs.foldl min c = c ∨ cs.foldl min c ∈ cs := by
  induction cs generalizing c with
  | nil => simp
  | cons d rest ih =>
    simp only [List.foldl_cons, List.mem_cons]
    rcases ih (min c d) with h | h
    · rw [h]; rcases Int.le_total c d with h' | h'
      · left; omega
      · right; left; omega
    · right; right; exact h

theorem minList_perm {l l' : List Int} (h : l.Perm l') : minList l = minList l' := by
  cases l with
  | nil => rw [List.nil_perm.1 h] 
  | cons c cs =>
    cases l' with
    | nil => exact absurd h.symm (by simp)
    | cons c' cs' =>
      have key : ∀ (a : Int) (as : List Int) (b : Int) (bs : List Int), (a :: as).Perm (b :: bs) →
          minList (b :: bs) ≤ minList (a :: as) := by
        intro a as b bs hp
        have hm : minList (a :: as) ∈ (a :: as) := by
          simp only [minList, List.mem_cons]; exact foldl_min_mem as a
        have hm' : minList (a :: as) ∈ (b :: bs) := hp.mem_iff.1 hm
        simp only [List.mem_cons] at hm'
        have := foldl_min_le bs b
        rcases hm' with e | e
        · simp only [minList] at e ⊢; omega
        · simp only [minList] at e ⊢; exact this.2 _ e
      have h1 := key c cs c' cs' h
      have h2 := key c' cs' c cs h.symm
      omega

theorem minCap_eq_minList (answers : List Answer) (node : String) : minCap answers node = minList (capsOf answers node) := by
  unfold minCap capsOf
  cases List.filterMap (fun a => Option.map (fun x => x.cap) (Answer.find? a node)) answers <;> rfl

theorem mergedOf_perm {as as' : List Answer} (h : as.Perm as') (node : String) : mergedOf as node = mergedOf as' node := by
  have h0 : as ≠ [] ↔ as' ≠ [] := by
    constructor
    · intro hne e; subst e; exact hne (List.perm_nil.1 h)
    · intro hne e; subst e; exact hne (List.nil_perm.1 h)
  have h1 : offeredByAll as node = offeredByAll as' node := h.all_eq
  have h2 : minCap as node = minCap as' node := by
    rw [minCap_eq_minList, minCap_eq_minList]
    exact minList_perm (h.filterMap _)
  have h3 : ∀ f : Cap → Rat, weightedSum as node f = weightedSum as' node f := fun f => sum_perm (h.map _)
  have h4 : weightSum as node = weightSum as' node := sum_perm (h.map _)
  unfold mergedOf
  rw [h1, h2, h3, h3, h4]
  by_cases e : as = []
  · have e' : as' = [] := by subst e; exact List.nil_perm.1 h
    simp [e, e']
  · have e' : as' ≠ [] := h0.1 e
    simp [e, e']

/-- The result does not depend on the order in which the plugins answer: for any two orders
    of the same answers every node gets the same entry (offered or not; capacity, usage, rate,
    weight). -/
theorem merge_perm_invariant {answers answers' : List Answer} (h : answers.Perm answers') (node : String) :
    (managerDeployCapacity answers).1.find? node = (managerDeployCapacity answers').1.find? node := by
  rw [manager_find, manager_find, mergedOf_perm h]

/-- The merge before the fix took the first answer unweighted, so a single plugin with
    usage `u` and weight `w` was reported with usage `u / w` (witness: u = 1, w = 2 gives 1/2),
    and with two plugins the result depended on which one came first. -/
theorem merge_old_counterexample :
    let a : Answer := [("n", { cap := 3, usage := 1, rate := 1, weight := 2 })]
    let b : Answer := [("n", { cap := 2, usage := 0, rate := 0, weight := 1 })]
    let old (l : List Answer) := (l.foldl (fun acc x => some (mergeCapacityOld acc x)) none).getD []
    ((old [a]).find? "n").map (fun c => (average c).usage) = some (1 / 2) ∧
    ((old [a, b]).find? "n").map (fun c => (average c).usage) ≠
      ((old [b, a]).find? "n").map (fun c => (average c).usage) := by
  simp only [List.foldl_cons, List.foldl_nil, mergeCapacityOld, Option.getD_some, Answer.find?, if_true,
    Option.map_some, average, mergeCapacity, List.filterMap_cons, List.filterMap_nil, mergeEntry]
  constructor
  · trivial
  · simp only [ne_eq, Option.some.injEq]; grind

/-! ### the total is independent of the answer order too -/

def names (m : Answer) : List String := m.map (·.1)

theorem nodup_pairs_of_names (m : Answer) (h : (names m).Nodup) : m.Nodup := by
  induction m with
  | nil => exact List.nodup_nil
  | cons p rest ih =>
    simp only [names, List.map_cons, List.nodup_cons] at h
    rw [List.nodup_cons]
    exact ⟨fun hm => h.1 (List.mem_map_of_mem hm), ih h.2⟩

theorem mem_iff_find (m : Answer) (h : (names m).Nodup) (name : String) (c : Cap) :
    (name, c) ∈ m ↔ m.find? name = some c := by
  induction m with
  | nil => simp [Answer.find?]
  | cons p rest ih =>
    obtain ⟨a, b⟩ := p
    simp only [names, List.map_cons, List.nodup_cons] at h
    simp only [List.mem_cons, Prod.mk.injEq, Answer.find?]
    by_cases e : a = name
    · subst e
      simp only [if_true, Option.some.injEq, true_and]
      constructor
      · rintro (h1 | h1)
        · exact h1.symm
        · exact absurd (List.mem_map_of_mem (f := (·.1)) h1) h.1
      · intro h1; exact Or.inl h1.symm
    · simp only [e, if_false]
      have : ¬ (name = a ∧ c = b) := fun h1 => e h1.1.symm
      simp only [this, false_or]
      exact ih h.2

theorem names_filterMap_sublist (m1 : Answer) (f : String × Cap → Option (String × Cap))
    (hf : ∀ p q, f p = some q → q.1 = p.1) : (names (m1.filterMap f)).Sublist (names m1) := by
  induction m1 with
  | nil => exact List.Sublist.slnil
  | cons p rest ih =>
    simp only [List.filterMap_cons]
    cases hp : f p with
    | none => simp only [names, List.map_cons]; exact List.Sublist.cons _ ih
    | some q =>
      simp only [names, List.map_cons, hf p q hp]
      exact List.Sublist.cons₂ _ ih

theorem names_foldl_sublist (rest : List Answer) (acc : Answer) :
    (names ((rest.foldl (fun acc a => some (mergeCapacity acc a)) (some acc)).getD [])).Sublist (names acc) := by
  induction rest generalizing acc with
  | nil => simp
  | cons a rest ih =>
    simp only [List.foldl_cons]
    refine (ih _).trans ?_
    unfold mergeCapacity
    apply names_filterMap_sublist
    intro p q hq
    cases h2 : Answer.find? a p.1 with
    | none => simp [h2] at hq
    | some c2 => simp only [h2, Option.some.injEq] at hq; rw [← hq]

theorem names_manager_nodup (answers : List Answer) (h : ∀ a ∈ answers, (names a).Nodup) :
    (names (managerDeployCapacity answers).1).Nodup := by
  unfold managerDeployCapacity
  simp only
  have hn : ∀ m : Answer, names (m.map fun x => (x.1, average x.2)) = names m := by
    intro m; simp [names, List.map_map]
  have hf : (fun (x : String × Cap) => match x with | (name, c) => (name, average c)) = fun x => (x.1, average x.2) := by
    funext ⟨a, b⟩; rfl
  rw [hf, hn]
  cases answers with
  | nil => simp [mergeFold, names]
  | cons a rest =>
    unfold mergeFold
    simp only [List.foldl_cons]
    refine (names_foldl_sublist rest _).nodup ?_
    have : names (mergeCapacity none a) = names a := by
      unfold mergeCapacity; simp [names, List.map_map]
    rw [this]; exact h a (by simp)

theorem sum_perm_int {l l' : List Int} (h : l.Perm l') : l.sum = l'.sum := by
  induction h with
  | nil => rfl
  | cons x _ ih => simp [ih]
  | swap x y l => simp only [List.sum_cons]; omega
  | trans _ _ ih1 ih2 => exact ih1.trans ih2

/-- For any two orders of the same answers (each answer a Go map: every node at most once) the
    offered nodes with their entries are the same up to order, and — capacities being
    non-negative — the reported totals are equal. -/
theorem merge_total_perm_invariant {answers answers' : List Answer} (h : answers.Perm answers')
    (hn : ∀ a ∈ answers, (names a).Nodup) (hpos : ∀ a ∈ answers, ∀ p ∈ a, 0 ≤ p.2.cap) :
    (managerDeployCapacity answers).1.Perm (managerDeployCapacity answers').1 ∧
    (managerDeployCapacity answers).2 = (managerDeployCapacity answers').2 := by
  have hn' : ∀ a ∈ answers', (names a).Nodup := fun a ha => hn a (h.mem_iff.2 ha)
  have n1 := names_manager_nodup answers hn
  have n2 := names_manager_nodup answers' hn'
  have hperm : (managerDeployCapacity answers).1.Perm (managerDeployCapacity answers').1 := by
    rw [List.perm_ext_iff_of_nodup (nodup_pairs_of_names _ n1) (nodup_pairs_of_names _ n2)]
    rintro ⟨name, c⟩
    rw [mem_iff_find _ n1, mem_iff_find _ n2, merge_perm_invariant h]
  refine ⟨hperm, ?_⟩
  -- non-negative capacities: both totals are the saturating sum
  have nonneg : ∀ (as : List Answer), (∀ a ∈ as, ∀ p ∈ a, 0 ≤ p.2.cap) → (∀ a ∈ as, (names a).Nodup) →
      ∀ p ∈ (managerDeployCapacity as).1, 0 ≤ p.2.cap := by
    intro as hp hnd ⟨name, c⟩ hm
    have hfind := (mem_iff_find _ (names_manager_nodup as hnd) name c).1 hm
    have hcap := merge_cap_min as name c hfind
    have hoff := (merge_offered_iff_all as name).1 (by rw [hfind]; rfl)
    simp only
    rw [hcap, minCap_eq_minList]
    -- the minimum of a non-empty list of non-negative capacities
    have hall : ∀ x ∈ capsOf as name, 0 ≤ x := by
      intro x hx
      unfold capsOf at hx
      simp only [List.mem_filterMap, Option.map_eq_some_iff] at hx
      obtain ⟨a, ha, c', hc', rfl⟩ := hx
      have hw : (names a).Nodup := hnd a ha
      exact hp a ha (name, c') ((mem_iff_find a hw name c').2 hc')
    cases hl : capsOf as name with
    | nil => simp [minList]
    | cons d ds =>
      rw [hl] at hall
      have := foldl_min_mem ds d
      simp only [minList]
      rcases this with e | e
      · rw [e]; exact hall d (by simp)
      · exact hall _ (by simp [e])
  have hpos' : ∀ a ∈ answers', ∀ p ∈ a, 0 ≤ p.2.cap := fun a ha => hpos a (h.mem_iff.2 ha)
  rw [C07total answers (nonneg answers hpos hn), C07total answers' (nonneg answers' hpos' hn')]
  unfold satSum
  rw [sum_perm_int (hperm.map _)]
where
  C07total (answers : List Answer) (h : ∀ p ∈ (managerDeployCapacity answers).1, 0 ≤ p.2.cap) :
      (managerDeployCapacity answers).2 = satSum ((managerDeployCapacity answers).1.map (·.2.cap)) := by
    unfold managerDeployCapacity at *
    simp only at h ⊢
    generalize (List.map (fun x => (x.1, average x.2)) ((mergeFold answers).getD [])) = merged at h ⊢
    have : merged.foldl (fun t x => satAdd t x.2.cap) 0 = (merged.map (·.2.cap)).foldl satAdd 0 := by
      rw [List.foldl_map]
    rw [this]
    have key : ∀ (l : List Int) (t : Int), 0 ≤ t → t ≤ maxInt → (∀ c ∈ l, 0 ≤ c) → l.foldl satAdd t = min (t + l.sum) maxInt := by
      intro l
      induction l with
      | nil => intro t h0 h1 _; simp; omega
      | cons c rest ih =>
        intro t h0 h1 hl
        have hc : 0 ≤ c := hl c (by simp)
        have hs : 0 ≤ rest.sum := by
          have : ∀ (l : List Int), (∀ c ∈ l, 0 ≤ c) → 0 ≤ l.sum := by
            intro l; induction l with
            | nil => intro _; simp
            | cons a r ihr => intro hh; have := hh a (by simp); have := ihr (fun x hx => hh x (by simp [hx])); simp only [List.sum_cons]; omega
          exact this rest (fun x hx => hl x (by simp [hx]))
        simp only [List.foldl_cons, List.sum_cons]
        have hstep : satAdd t c = if c > maxInt - t then maxInt else t + c := rfl
        rw [hstep]
        split
        · rw [ih maxInt (by unfold maxInt; omega) (by omega) (fun x hx => hl x (by simp [hx]))]
          unfold maxInt at *; omega
        · rw [ih (t + c) (by omega) (by omega) (fun x hx => hl x (by simp [hx]))]
          omega
    rw [key _ 0 (by omega) (by unfold maxInt; omega)]
    · simp [satSum]
    · intro c hc
      simp only [List.mem_map] at hc
      obtain ⟨p, hp, rfl⟩ := hc
      exact h p hp


/-! ### schedules: the manager never merges a partial set of answers -/

/-- `call` collects all answers or fails: without an error every plugin's answer is present
    (same plugins, same order, none missing), and there is an error iff some plugin failed. -/
theorem call_all_or_error {α} (results : List (String × Except String α)) :
    ((call results).2 = none ↔ ∀ pr ∈ results, ∃ a, pr.2 = .ok a) ∧
    ((call results).2 = none → (call results).1.map (·.1) = results.map (·.1) ∧
      ∀ p a, (p, a) ∈ (call results).1 ↔ (p, Except.ok a) ∈ results) := by
  induction results with
  | nil => simp [call]
  | cons pr rest ih =>
    obtain ⟨p, r⟩ := pr
    obtain ⟨ih1, ih2⟩ := ih
    cases r with
    | error e =>
      constructor
      · simp [call]
      · intro h; simp [call] at h
    | ok a =>
      have hc2 : (call ((p, Except.ok a) :: rest)).2 = (call rest).2 := by simp [call]
      have hc1 : (call ((p, Except.ok a) :: rest)).1 = (p, a) :: (call rest).1 := by simp [call]
      constructor
      · rw [hc2, ih1]; simp
      · intro h
        rw [hc2] at h
        obtain ⟨i1, i2⟩ := ih2 h
        rw [hc1]
        refine ⟨by simp [i1], ?_⟩
        intro p' a'
        simp only [List.mem_cons, Prod.mk.injEq, i2 p' a', Except.ok.injEq]

/-- Whatever the schedule (answer delays, the caller's context cancelled or expired between two
    answers): `GetNodesDeployCapacity` returns an error or the merge over the answers of ALL
    plugins — never the merge of the plugins that happened to have answered. -/
theorem manager_call_full_or_error (results : List (String × Except String Answer)) (out : Answer × Int)
    (h : managerDeployCapacityCall results = .ok out) :
    (∀ pr ∈ results, ∃ a, pr.2 = .ok a) ∧
    out = managerDeployCapacity ((call results).1.map (·.2)) ∧ (call results).1.map (·.1) = results.map (·.1) := by
  unfold managerDeployCapacityCall at h
  cases hc : call results with
  | mk answers err =>
    rw [hc] at h
    cases err with
    | some e => simp at h
    | none =>
      simp only [Except.ok.injEq] at h
      have hnone : (call results).2 = none := by rw [hc]
      have := call_all_or_error results
      have h3 := (this.2 hnone).1
      rw [hc] at h3
      exact ⟨this.1.1 hnone, h.symm, h3⟩

example : ∃ answers node c, (managerDeployCapacity answers).1.find? node = some c ∧ answers.length = 2 :=
  ⟨[[("n", { cap := 3, usage := 1, rate := 1, weight := 2 })], [("n", { cap := 2 })]], "n", _, rfl, rfl⟩

end Eru.Props.C09
