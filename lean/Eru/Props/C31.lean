import Eru.Misc.Docker
/-
C31 — Engine settings faithfully enforce allocated resources.
Model: Eru/Misc/Docker.lean (makeResourceSetting, create and update paths of the docker engine,
after the fixes for quota truncation and for the update of unbound workloads).
-/
namespace Eru.Props.C31
open Eru.Misc Eru.Misc.Docker

/-- A valid allocation is refused only for a memory limit below docker's 4 MiB minimum. -/
theorem create_applies (p : Params) (h : Valid p) :
    (∃ r, create p = .ok r) ∨ (0 < p.memory ∧ p.memory < minMemory ∧ create p = .errInvalidMemory) := by
  obtain ⟨_, _, hm, _⟩ := h
  have hmin : minMemory = 4194304 := by decide
  unfold create memoryRejected
  rw [hmin]
  have hn : ¬ p.memory < 0 := by omega
  by_cases h1 : p.memory > 0 <;> by_cases h2 : p.memory < 4194304 <;> simp [h1, h2, hn]

/-- Bound workload, create path: pinned to exactly its cores and NUMA node, unrestricted quota,
memory = memory+swap = limit. -/
theorem bound_create (p : Params) (r : Res) (hb : p.cores ≠ []) (h : create p = .ok r) :
    r.cpuset = p.cores ∧ r.mems = p.numa ∧ r.quota = -1 ∧ r.period = 100000 ∧
    r.memory = p.memory ∧ r.swap = p.memory ∧
    r.shares = (if F64.frac p.cpu > 0 then sharesOfFrac p.cpu else 1024) := by
  unfold create at h
  split at h
  · cases h
  · have hne : p.cores.isEmpty = false := by cases hc : p.cores <;> simp_all
    injection h with h; subst h
    simp [makeResourceSetting, hne, cpuPeriodBase, defaultCPUShare]

/-- Bound workload, update path (cpu limit > 0, not remapped): same settings as on create. -/
theorem bound_update (p : Params) (ncpu : Nat) (r : Res) (hb : p.cores ≠ []) (hc : 0 < p.cpu)
    (hr : p.remap = false) (h : update p ncpu = .ok r) :
    r.cpuset = p.cores ∧ r.mems = p.numa ∧ r.quota = -1 ∧
    r.swap = r.memory ∧ r.memory = (if p.memory = 0 then maxMemory else p.memory) ∧
    r.shares = (if F64.frac p.cpu > 0 then sharesOfFrac p.cpu else 1024) := by
  unfold update at h
  split at h
  · cases h
  · have hne : p.cores.isEmpty = false := by cases hc : p.cores <;> simp_all
    have hc0 : ¬ p.cpu = 0 := by intro h0; rw [h0] at hc; exact absurd hc (by decide)
    injection h with h; subst h
    simp [makeResourceSetting, hne, hc0, hr, defaultCPUShare]

/-- Unbound workload with a cpu limit: quota is the limit times the period, rounded to the
nearest unit, on create *and* on update; default shares; no pinning on create, all cores on update. -/
theorem unbound_quota (p : Params) (ncpu : Nat) (hu : p.cores = []) (hc : 0 < p.cpu) :
    (∀ r, create p = .ok r → r.quota = quotaOf p.cpu ∧ r.shares = 1024 ∧ r.cpuset = [] ∧ r.mems = "") ∧
    (∀ r, update p ncpu = .ok r → r.quota = quotaOf p.cpu ∧ r.shares = 1024 ∧
        (ncpu ≠ 0 → r.cpuset = allCores ncpu)) := by
  have hc0 : ¬ p.cpu = 0 := by intro h0; rw [h0] at hc; exact absurd hc (by decide)
  constructor
  · intro r h
    unfold create at h
    split at h
    · cases h
    · injection h with h; subst h
      simp [makeResourceSetting, hu, hc, defaultCPUShare]
  · intro r h
    unfold update at h
    split at h
    · cases h
    · injection h with h; subst h
      by_cases hn : ncpu = 0
      · subst hn; simp [makeResourceSetting, hu, hc, hc0, defaultCPUShare, allCores]
      · have : (allCores ncpu).isEmpty = false := by
          cases ncpu with
          | zero => exact absurd rfl hn
          | succ n => simp [allCores, List.range_succ]
        simp [makeResourceSetting, hu, hc, hc0, this, hn]

/-- Unlimited cpu (limit 0): no quota on create, quota −1 and every core on update. -/
theorem unlimited_cpu (p : Params) (ncpu : Nat) (hu : p.cores = []) (hc : p.cpu = 0) :
    (∀ r, create p = .ok r → r.quota = 0 ∧ r.shares = 1024) ∧
    (∀ r, update p ncpu = .ok r → r.quota = -1 ∧ r.shares = 1024 ∧ r.mems = "") := by
  constructor
  · intro r h
    unfold create at h
    split at h
    · cases h
    · injection h with h; subst h
      simp [makeResourceSetting, hu, hc, defaultCPUShare]; decide
  · intro r h
    unfold update at h
    split at h
    · cases h
    · injection h with h; subst h
      by_cases hn : (allCores ncpu).isEmpty <;>
        simp [makeResourceSetting, hu, hc, defaultCPUShare, hn] <;> decide

/-- Memory and memory+swap are both capped at the memory limit (unlimited → MaxInt64 on update). -/
theorem memory_cap (p : Params) (ncpu : Nat) :
    (∀ r, create p = .ok r → r.memory = p.memory ∧ r.swap = p.memory) ∧
    (∀ r, update p ncpu = .ok r → r.memory = r.swap ∧ r.memory = (if p.memory = 0 then maxMemory else p.memory)) := by
  constructor <;> intro r h
  · unfold create at h; split at h
    · cases h
    · injection h with h; subst h; simp [makeResourceSetting]
  · unfold update at h; split at h
    · cases h
    · injection h with h; subst h; simp [makeResourceSetting]

/-- the D22 witness: 0.29 cores (the double nearest to 0.29) gets quota 29000, not 28999 -/
example : (F64.ofBits 0x3FD28F5C28F5C28F).map quotaOf = some 29000 := by decide +kernel

/-- hypotheses are satisfiable: a bound record with a fractional core -/
example : Valid { cpu := 3/2, memory := 1073741824, cores := ["0", "3"], numa := "1", remap := false } := by decide +kernel

end Eru.Props.C31
