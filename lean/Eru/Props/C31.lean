import Eru.Misc.ProofsF64
/-
C31 — Engine settings faithfully enforce allocated resources.
Model: Eru/Misc/Docker.lean (makeResourceSetting, create and update paths of the docker engine,
after the fixes for quota truncation and for the update of unbound workloads).
-/
namespace Eru.Props.C31
open Eru.Misc Eru.Misc.Docker

/-- A valid allocation is refused only for a memory limit below docker's 4 MiB minimum. -/
theorem create_applies (p : Params) (h : Valid p) :
    (∃ r, create p = .ok r) ∨ (0 < p.memory ∧ p.memory < minMemory ∧ create p = .errInvalidMemory) := by
  obtain ⟨_, _, hm, _, _⟩ := h
  have hmin : minMemory = 4194304 := by decide
  unfold create memoryRejected
  rw [hmin]
  have hn : ¬ p.memory < 0 := by omega
  by_cases h1 : p.memory > 0 <;> by_cases h2 : p.memory < 4194304 <;> simp [h1, h2, hn]

/-- Bound workload, create path: pinned to exactly its cores and NUMA node, unrestricted quota,
memory = memory+swap = limit. -/
theorem bound_create (p : Params) (r : Res) (hb : p.cores ≠ []) (h : create p = .ok r) :
    r.cpuset = p.cores ∧ r.mems = p.numa ∧ r.quota = -1 ∧ r.period = 100000 ∧
    r.memory = p.memory ∧ r.swap = p.memory ∧
    r.shares = (if F64.frac p.cpu > 0 then sharesOfFrac p.cpu else 1024) := by
  unfold create at h
  split at h
  · cases h
  · have hne : p.cores.isEmpty = false := by cases hc : p.cores <;> simp_all
    injection h with h; subst h
    simp [makeResourceSetting, hne, cpuPeriodBase, defaultCPUShare]

/-- Bound workload, update path (cpu limit > 0, not remapped): same settings as on create. -/
theorem bound_update (p : Params) (ncpu : Nat) (r : Res) (hb : p.cores ≠ []) (hc : 0 < p.cpu)
    (hr : p.remap = false) (h : update p ncpu = .ok r) :
    r.cpuset = p.cores ∧ r.mems = p.numa ∧ r.quota = -1 ∧
    r.swap = r.memory ∧ r.memory = (if p.memory = 0 then maxMemory else p.memory) ∧
    r.shares = (if F64.frac p.cpu > 0 then sharesOfFrac p.cpu else 1024) := by
  unfold update at h
  split at h
  · cases h
  · have hne : p.cores.isEmpty = false := by cases hc : p.cores <;> simp_all
    have hc0 : ¬ p.cpu = 0 := by intro h0; rw [h0] at hc; exact absurd hc (by decide)
    injection h with h; subst h
    simp [makeResourceSetting, hne, hc0, hr, defaultCPUShare]

/-- Unbound workload with a cpu limit: quota is the limit times the period, rounded to the
nearest unit, on create *and* on update; default shares; no pinning on create, all cores on update. -/
theorem unbound_quota (p : Params) (ncpu : Nat) (hu : p.cores = []) (hc : 0 < p.cpu) :
    (∀ r, create p = .ok r → r.quota = quotaOf p.cpu ∧ r.shares = 1024 ∧ r.cpuset = [] ∧ r.mems = "") ∧
    (∀ r, update p ncpu = .ok r → r.quota = quotaOf p.cpu ∧ r.shares = 1024 ∧
        (ncpu ≠ 0 → r.cpuset = allCores ncpu)) := by
  have hc0 : ¬ p.cpu = 0 := by intro h0; rw [h0] at hc; exact absurd hc (by decide)
  constructor
  · intro r h
    unfold create at h
    split at h
    · cases h
    · injection h with h; subst h
      simp [makeResourceSetting, hu, hc, defaultCPUShare]
  · intro r h
    unfold update at h
    split at h
    · cases h
    · injection h with h; subst h
      by_cases hn : ncpu = 0
      · subst hn; simp [makeResourceSetting, hu, hc, hc0, defaultCPUShare, allCores]
      · have : (allCores ncpu).isEmpty = false := by
          cases ncpu with
          | zero => exact absurd rfl hn
          | succ n => simp [allCores, List.range_succ]
        simp [makeResourceSetting, hu, hc, hc0, this, hn]

/-- Unlimited cpu (limit 0): no quota on create, quota −1 and every core on update. -/
theorem unlimited_cpu (p : Params) (ncpu : Nat) (hu : p.cores = []) (hc : p.cpu = 0) :
    (∀ r, create p = .ok r → r.quota = 0 ∧ r.shares = 1024) ∧
    (∀ r, update p ncpu = .ok r → r.quota = -1 ∧ r.shares = 1024 ∧ r.mems = "") := by
  constructor
  · intro r h
    unfold create at h
    split at h
    · cases h
    · injection h with h; subst h
      simp [makeResourceSetting, hu, hc, defaultCPUShare] <;> decide
  · intro r h
    unfold update at h
    split at h
    · cases h
    · injection h with h; subst h
      by_cases hn : (allCores ncpu).isEmpty <;>
        simp [makeResourceSetting, hu, hc, defaultCPUShare, hn] <;> decide

/-- Memory and memory+swap are both capped at the memory limit (unlimited → MaxInt64 on update). -/
theorem memory_cap (p : Params) (ncpu : Nat) :
    (∀ r, create p = .ok r → r.memory = p.memory ∧ r.swap = p.memory) ∧
    (∀ r, update p ncpu = .ok r → r.memory = r.swap ∧ r.memory = (if p.memory = 0 then maxMemory else p.memory)) := by
  constructor <;> intro r h
  · unfold create at h; split at h
    · cases h
    · injection h with h; subst h; simp [makeResourceSetting]
  · unfold update at h; split at h
    · cases h
    · injection h with h; subst h; simp [makeResourceSetting]


/-! ### accuracy of the float arithmetic -/

/-- **Unbound workload: quota/period = cpu limit to the nearest unit** (after the `math.Round` fix).
The hypothesis `2^-1022 ≤ cpu·100000` only excludes subnormal products; `cpu < 10^7` keeps Go's
`int64(...)` conversion in range (beyond it the conversion is implementation specific and the model
returns MinInt64). -/
theorem quota_nearest (cpu : Rat) (hc : 0 < cpu) (hn : F64.pow2 (-1022) ≤ cpu * 100000) (hb : cpu < 10000000) :
    QuotaNear (quotaOf cpu) cpu := quotaOf_near cpu hc hn hb

/-- on the decimal grid the quota is exact: limit·100000 within 1/4 of the integer `k` ⇒ quota = k
(0.29 ⇒ 29000, whatever the last bit of the double) -/
theorem quota_exact_on_grid (cpu : Rat) (k : Int) (hc : 0 < cpu) (hn : F64.pow2 (-1022) ≤ cpu * 100000)
    (hk : |cpu * 100000 - (k : Rat)| ≤ 1 / 4) (hb : cpu < 10000000) : quotaOf cpu = k :=
  quotaOf_exact cpu k hc hn hk hb

/-- **Bound workload: shares proportional to the fractional core** -/
theorem shares_proportional (cpu : Rat) (hf : 0 < F64.frac cpu) (hn : F64.pow2 (-1022) ≤ 1024 * F64.frac cpu) :
    SharesNear (sharesOfFrac cpu) cpu := sharesOfFrac_near cpu hf hn

theorem sameSet_self (l : List String) : sameSet l l = true := by
  unfold sameSet
  simp

/-- **The create path meets the whole specification** the oracle evaluates on the real engine:
for every valid engine-params record (float products in the normal range) no clause is violated. -/
theorem create_meets_spec (p : Params) (ncpu : Nat) (r : Res) (hv : Valid p) (hbnd : p.cpu < 10000000)
    (hq : p.cores = [] → 0 < p.cpu → F64.pow2 (-1022) ≤ p.cpu * 100000)
    (hs : p.cores ≠ [] → 0 < F64.frac p.cpu → F64.pow2 (-1022) ≤ 1024 * F64.frac p.cpu)
    (h : create p = .ok r) : violations .create p ncpu r = [] := by
  obtain ⟨hc0, hcb, hm0, _, _⟩ := hv
  by_cases hb : p.cores = []
  · -- unbound
    by_cases hc : 0 < p.cpu
    · obtain ⟨h1, h2, h3, h4⟩ := (unbound_quota p ncpu hb hc).1 r h
      obtain ⟨h5, h6⟩ := (memory_cap p ncpu).1 r h
      have hqn := quota_nearest p.cpu hc (hq hb hc) hbnd
      have hper : r.period = cpuPeriodBase := by
        unfold create at h; split at h
        · cases h
        · injection h with h; subst h; rfl
      rw [← h1] at hqn
      simp [violations, hb, hc, h2, h3, h4, h5, h6, hqn, hper, sameSet]
    · have hc' : p.cpu = 0 := le_antisymm (not_lt.mp hc) hc0
      obtain ⟨h1, h2⟩ := (unlimited_cpu p ncpu hb hc').1 r h
      obtain ⟨h5, h6⟩ := (memory_cap p ncpu).1 r h
      have hrest : r.cpuset = [] ∧ r.mems = "" ∧ r.period = cpuPeriodBase := by
        unfold create at h; split at h
        · cases h
        · injection h with h; subst h; simp [makeResourceSetting, hb]
      simp [violations, hb, hc', h1, h2, h5, h6, hrest.1, hrest.2.1, hrest.2.2, sameSet]
  · -- bound
    obtain ⟨h1, h2, h3, h4, h5, h6, h7⟩ := bound_create p r hb h
    have hne : p.cores.isEmpty = false := by cases hcs : p.cores <;> simp_all
    have hsn : SharesNear r.shares p.cpu := by
      rw [h7]
      by_cases hf : 0 < F64.frac p.cpu
      · simp only [gt_iff_lt, hf, if_true]; exact shares_proportional p.cpu hf (hs hb hf)
      · simp [SharesNear, hf]
    simp [violations, hne, h1, h2, h3, h4, h5, h6, hsn, sameSet_self, cpuPeriodBase]


/-- **The update path meets the whole specification** (bound, remapped and unbound records). -/
theorem update_meets_spec (p : Params) (ncpu : Nat) (r : Res) (hv : Valid p) (hn0 : ncpu ≠ 0) (hbnd : p.cpu < 10000000)
    (hq : (p.cores = [] ∨ p.remap = true) → 0 < p.cpu → F64.pow2 (-1022) ≤ p.cpu * 100000)
    (hs : p.cores ≠ [] → 0 < F64.frac p.cpu → F64.pow2 (-1022) ≤ 1024 * F64.frac p.cpu)
    (h : update p ncpu = .ok r) : violations .update p ncpu r = [] := by
  obtain ⟨hc0, hcb, hm0, _, hnuma⟩ := hv
  have hall : (allCores ncpu).isEmpty = false := by
    cases ncpu with
    | zero => exact absurd rfl hn0
    | succ n => simp [allCores, List.range_succ]
  obtain ⟨hmem1, hmem2⟩ := (memory_cap p ncpu).2 r h
  have hmemOk : r.memory = (if p.memory = 0 ∧ Op.update = Op.update then maxMemory else p.memory) ∧
      r.swap = (if p.memory = 0 ∧ Op.update = Op.update then maxMemory else p.memory) := by
    constructor
    · rw [hmem2]; simp
    · rw [← hmem1, hmem2]; simp
  have hper : r.period = cpuPeriodBase := by
    unfold update at h; split at h
    · cases h
    · injection h with h; subst h; rfl
  by_cases hb : p.cores = []
  · by_cases hc : 0 < p.cpu
    · obtain ⟨h1, h2, h3⟩ := (unbound_quota p ncpu hb hc).2 r h
      have hqn := quota_nearest p.cpu hc (hq (Or.inl hb) hc) hbnd
      rw [← h1] at hqn
      have hmems : r.mems = "" := by
        have hc0' : ¬ p.cpu = 0 := fun e => by rw [e] at hc; exact absurd hc (by decide)
        unfold update at h; split at h
        · cases h
        · injection h with h; subst h
          simp [makeResourceSetting, hb, hc0', hall, hnuma hb]
      simp [violations, hb, hc, h2, h3 hn0, hqn, hmems, hmemOk.1, hmemOk.2, hper, sameSet_self]
    · have hc' : p.cpu = 0 := le_antisymm (not_lt.mp hc) hc0
      obtain ⟨h1, h2, h3⟩ := (unlimited_cpu p ncpu hb hc').2 r h
      have hset : r.cpuset = allCores ncpu := by
        unfold update at h; split at h
        · cases h
        · injection h with h; subst h
          simp [makeResourceSetting, hb, hc', hall]
      simp [violations, hb, hc', h1, h2, h3, hset, hmemOk.1, hmemOk.2, hper, sameSet_self]
  · have hne : p.cores.isEmpty = false := by cases hcs : p.cores <;> simp_all
    have hc : 0 < p.cpu := hcb hb
    have hc0' : ¬ p.cpu = 0 := fun e => by rw [e] at hc; exact absurd hc (by decide)
    by_cases hr : p.remap = true
    · -- remapped onto shared cores: pinned, quota kept, default shares
      have hqn := quota_nearest p.cpu hc (hq (Or.inr hr) hc) hbnd
      have hres : r.cpuset = p.cores ∧ r.mems = p.numa ∧ r.quota = quotaOf p.cpu ∧ r.shares = 1024 := by
        unfold update at h; split at h
        · cases h
        · injection h with h; subst h
          simp [makeResourceSetting, hne, hc0', hr, hc]
      rw [← hres.2.2.1] at hqn
      simp [violations, hne, hr, hc, hres.1, hres.2.1, hres.2.2.2, hqn, hmemOk.1, hmemOk.2, hper, sameSet_self]
    · have hr' : p.remap = false := by simpa using hr
      obtain ⟨h1, h2, h3, _, _, h7⟩ := bound_update p ncpu r hb hc hr' h
      have hsn : SharesNear r.shares p.cpu := by
        rw [h7]
        by_cases hf : 0 < F64.frac p.cpu
        · simp only [gt_iff_lt, hf, if_true]; exact shares_proportional p.cpu hf (hs hb hf)
        · simp [SharesNear, hf]
      simp [violations, hne, hr', h1, h2, h3, hsn, hmemOk.1, hmemOk.2, hper, sameSet_self]

/-- the D22 witness: 0.29 cores (the double nearest to 0.29) gets quota 29000, not 28999 -/
example : (F64.ofBits 0x3FD28F5C28F5C28F).map quotaOf = some 29000 := by decide +kernel

/-- hypotheses are satisfiable: a bound record with a fractional core -/
example : Valid { cpu := 3/2, memory := 1073741824, cores := ["0", "3"], numa := "1", remap := false } := by decide +kernel

/-- the normal-range hypothesis of the accuracy theorems holds for ordinary limits (0.29 cores) -/
example : (F64.ofBits 0x3FD28F5C28F5C28F).map (fun c => decide (F64.pow2 (-1022) ≤ c * 100000)) = some true := by
  decide +kernel

end Eru.Props.C31
