import Eru.Misc.ProofsChunks
import Eru.Misc.ProofsSender2
/-
C29 — File transfers deliver identical content and always finish.
Chunking: Eru/Misc/Chunks.lean (rpc/transform.go:toSendLargeFileChunks);
pipeline: Eru/Misc/Sender.lean (cluster/calcium/sendlarge.go) — both after the `fix:` commits
(empty file = one empty chunk; duplicated target fed once; pipe reader closed by the copier and
sender buffer drained after a failure).
-/
namespace Eru.Props.C29
open Eru.Misc.Chunks

/-- the chunks of a file concatenate to the file, for every content and chunk size > 0 -/
theorem chunks_concat {α : Type} (size : Nat) (h : 0 < size) (c : List α) :
    (toChunks size h c).flatten = c := toChunks_flatten size h c

/-- no chunk exceeds the chunk size -/
theorem chunks_bound {α : Type} (size : Nat) (h : 0 < size) (c : List α) :
    ∀ ch ∈ toChunks size h c, ch.length ≤ size := toChunks_bound size h c

/-- ⌈len/size⌉ chunks; an empty file still yields exactly one (empty) chunk -/
theorem chunks_count {α : Type} (size : Nat) (h : 0 < size) (c : List α) :
    (toChunks size h c).length = if c.length = 0 then 1 else (c.length + size - 1) / size :=
  toChunks_length size h c

/-- every chunk except the last is full, and no chunk of a non-empty file is empty -/
theorem chunks_shape {α : Type} (size : Nat) (h : 0 < size) (c : List α) :
    (∀ ch ∈ (toChunks size h c).dropLast, ch.length = size) ∧
    (c ≠ [] → ∀ ch ∈ toChunks size h c, ch ≠ []) :=
  ⟨toChunks_full size h c, toChunks_nonempty size h c⟩

/-- every chunk message carries the file's metadata and total size -/
theorem chunks_meta {α : Type} (size : Nat) (h : 0 < size) (m : FileMeta) (c : List α) :
    ∀ msg ∈ toMsgs size h m c, msg.md = { m with size := c.length } := by
  intro msg hm
  simp only [toMsgs, List.mem_map] at hm
  obtain ⟨_, _, rfl⟩ := hm
  rfl

/-- with a zero chunk size the Go loop would never advance -/
theorem chunks_zero_size_diverges {α : Type} (c : List α) : toChunksO 0 c = .diverge := rfl

/-- non-trivial instance: 5 bytes in chunks of 2 -/
example : toChunks 2 (by decide) [1, 2, 3, 4, 5] = [[1, 2], [3, 4], [5]] := by
  simp [toChunks]
example : toChunks 2 (by decide) ([] : List Nat) = [[]] := by simp [toChunks]

/-! ### the pipeline always finishes -/
section Pipeline
open Eru.Misc.Sender

/-- the states a `SendLargeFile` call can be in: `n = behs.length` (deduplicated) targets with
arbitrary scripted behaviours (missing workload, engine that reads everything, rejects at once,
aborts after k bytes, returns early), any chunk list (empty file = one empty chunk), any
interleaving of the goroutines -/
def Reachable (behs : List Beh) (chunks : List (List Byte)) (s : State) : Prop :=
  Reach behs (initState behs.length chunks) s

/-- **No reachable deadlock.** As long as the result channel is not closed, some goroutine of the
call can take a step — for every set of targets, every engine behaviour and every schedule. -/
theorem no_reachable_deadlock (behs : List Beh) (chunks : List (List Byte)) (s : State)
    (hr : Reachable behs chunks s) (hf : final s = false) :
    ∃ a s', step behs s a = some s' :=
  no_deadlock behs s (hr.inv (GInv.init behs chunks)) hf

/-- **Every step counts.** Each step strictly decreases a natural-number measure, so no schedule
can run forever: at most `State.mu` steps remain in any state. -/
theorem every_run_is_finite (behs : List Beh) (s s' : State) (a : Action) (h : step behs s a = some s') :
    s'.mu < s.mu := step_decreases behs s s' a h

/-- **The call always finishes.** From every reachable state, every maximal continuation is finite
(previous theorem) and cannot stop before the result channel is closed (no deadlock); in
particular a final state is reachable from every reachable state. -/
theorem always_finishes (behs : List Beh) (chunks : List (List Byte)) (s : State)
    (hr : Reachable behs chunks s) : ∃ s', Reach behs s s' ∧ final s' = true :=
  finishes_from behs s.mu s (hr.inv (GInv.init behs chunks)) (Nat.le_refl _)


/-- **Delivered content is identical; exactly one result per target.**  In every final state of
every schedule, for every (deduplicated) target of a non-empty chunk list (an empty file still has
one chunk): exactly one message was sent on the result channel, it carries an error iff the
workload is missing or the engine failed, and the engine has received exactly the bytes its
behaviour allows — the whole file, byte for byte, when it reads to the end (`limit = none`),
the first `k` bytes when it stops after `k`, nothing when the workload is missing. -/
theorem delivered_identical (behs : List Beh) (chunks : List (List Byte)) (hne : chunks ≠ [])
    (s : State) (hr : Reachable behs chunks s) (hf : final s = true) (i : Nat) (hi : i < behs.length) :
    ∃ t b, s.ts[i]? = some t ∧ behs[i]? = some b ∧
      t.results = [expectedErr b] ∧ t.got = expectedGot b chunks.flatten := by
  have hG := hr.inv (GInv.init behs chunks)
  obtain ⟨hd, hcr⟩ := hr.data (GInv.init behs chunks) (DG.init behs chunks hne)
  obtain ⟨hl, _, _, hc⟩ := hG
  have hi' : i < s.ts.length := hl ▸ hi
  have hti : s.ts[i]? = some s.ts[i] := List.getElem?_eq_getElem hi'
  have hbi : behs[i]? = some behs[i] := List.getElem?_eq_getElem hi
  refine ⟨s.ts[i], behs[i], hti, hbi, ?_⟩
  simp only [final, Bool.and_eq_true, List.all_eq_true] at hf
  obtain ⟨hcl, hall⟩ := hf
  have hcreated : (s.ts[i]).created = true := by
    rcases hcr i _ hti with h | ⟨ch, hm⟩
    · exact h
    · rw [hc hcl] at hm; cases hm
  have hdone : (s.ts[i]).cop = .done := by
    have := hall _ (List.getElem_mem hi')
    simpa [hcreated] using this
  have := (hd i _ _ hti hbi).2.2.2
  rw [hdone] at this
  exact this

/-- in particular a target whose engine reads to the end receives the file unchanged, whatever
the other targets do (missing, rejecting, aborting) -/
theorem full_reader_gets_file (behs : List Beh) (chunks : List (List Byte)) (hne : chunks ≠ [])
    (s : State) (hr : Reachable behs chunks s) (hf : final s = true) (i : Nat) (hi : i < behs.length)
    (hb : behs[i]? = some ⟨false, none, false⟩) :
    ∃ t, s.ts[i]? = some t ∧ t.results = [false] ∧ t.got = chunks.flatten := by
  obtain ⟨t, b, h1, h2, h3, h4⟩ := delivered_identical behs chunks hne s hr hf i hi
  rw [hb] at h2; injection h2 with h2; subst h2
  exact ⟨t, h1, by simpa [expectedErr] using h3, by simpa [expectedGot] using h4⟩


/-- end to end (chunking + pipeline): sending `content` in chunks of `size` delivers exactly
`content` to every target whose engine reads to the end — for every size, including empty -/
theorem send_delivers_file (behs : List Beh) (content : List Byte) (size : Nat) (hs : 0 < size)
    (s : State) (hr : Reachable behs (toChunks size hs content) s) (hf : final s = true) (i : Nat)
    (hi : i < behs.length) (hb : behs[i]? = some ⟨false, none, false⟩) :
    ∃ t, s.ts[i]? = some t ∧ t.results = [false] ∧ t.got = content := by
  have hne : toChunks size hs content ≠ [] := by
    rw [toChunks]; split <;> simp
  obtain ⟨t, h1, h2, h3⟩ := full_reader_gets_file behs _ hne s hr hf i hi hb
  exact ⟨t, h1, h2, by rw [h3, toChunks_flatten]⟩

/-- non-trivial instance: target 0 reads everything, target 1 is missing, target 2's engine
rejects the copy at once; 14 chunks (more than the buffer of 10 plus the one in flight) -/
example : let behs : List Beh := [⟨false, none, false⟩, ⟨true, none, false⟩, ⟨false, some 0, true⟩]
    let s := run behs 400 (initState 3 (List.replicate 14 [1, 2]))
    final s = true ∧ s.ts.map (·.results) = [[false], [true], [true]] ∧ s.ts.map (·.got.length) = [28, 0, 0] := by
  decide

end Pipeline

end Eru.Props.C29
