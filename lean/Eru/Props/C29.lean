import Eru.Misc.ProofsChunks
import Eru.Misc.ProofsSender2
/-
C29 — File transfers deliver identical content and always finish.
Chunking: Eru/Misc/Chunks.lean (rpc/transform.go:toSendLargeFileChunks);
pipeline: Eru/Misc/Sender.lean (cluster/calcium/sendlarge.go) — both after the `fix:` commits
(empty file = one empty chunk; duplicated target fed once; pipe reader closed by the copier and
sender buffer drained after a failure).
-/
namespace Eru.Props.C29
open Eru.Misc.Chunks

/-- the chunks of a file concatenate to the file, for every content and chunk size > 0 -/
theorem chunks_concat {α : Type} (size : Nat) (h : 0 < size) (c : List α) :
    (toChunks size h c).flatten = c := toChunks_flatten size h c

/-- no chunk exceeds the chunk size -/
theorem chunks_bound {α : Type} (size : Nat) (h : 0 < size) (c : List α) :
    ∀ ch ∈ toChunks size h c, ch.length ≤ size := toChunks_bound size h c

/-- ⌈len/size⌉ chunks; an empty file still yields exactly one (empty) chunk -/
theorem chunks_count {α : Type} (size : Nat) (h : 0 < size) (c : List α) :
    (toChunks size h c).length = if c.length = 0 then 1 else (c.length + size - 1) / size :=
  toChunks_length size h c

/-- every chunk except the last is full, and no chunk of a non-empty file is empty -/
theorem chunks_shape {α : Type} (size : Nat) (h : 0 < size) (c : List α) :
    (∀ ch ∈ (toChunks size h c).dropLast, ch.length = size) ∧
    (c ≠ [] → ∀ ch ∈ toChunks size h c, ch ≠ []) :=
  ⟨toChunks_full size h c, toChunks_nonempty size h c⟩

/-- every chunk message carries the file's metadata and total size -/
theorem chunks_meta {α : Type} (size : Nat) (h : 0 < size) (m : FileMeta) (c : List α) :
    ∀ msg ∈ toMsgs size h m c, msg.md = { m with size := c.length } := by
  intro msg hm
  simp only [toMsgs, List.mem_map] at hm
  obtain ⟨_, _, rfl⟩ := hm
  rfl

/-- with a zero chunk size the Go loop would never advance -/
theorem chunks_zero_size_diverges {α : Type} (c : List α) : toChunksO 0 c = .diverge := rfl

/-- non-trivial instance: 5 bytes in chunks of 2 -/
example : toChunks 2 (by decide) [1, 2, 3, 4, 5] = [[1, 2], [3, 4], [5]] := by
  simp [toChunks]
example : toChunks 2 (by decide) ([] : List Nat) = [[]] := by simp [toChunks]

/-! ### the pipeline always finishes -/
section Pipeline
open Eru.Misc.Sender

/-- the states a `SendLargeFile` call can be in: `behs.length` known targets with arbitrary scripted
behaviours (missing workload, engine that reads everything, rejects at once, aborts after k bytes,
returns early), a target list `ids` that may name a target several times (the producer
de-duplicates it per message, fix D21b), any message list (an empty file is one empty chunk),
any interleaving of the goroutines -/
def Reachable (behs : List Beh) (ids : List Nat) (msgs : List Msg) (s : State) : Prop :=
  Reach behs (initState behs.length ids msgs) s

/-- the chunk messages of one file: every message carries the same engine-call arguments -/
def fileMsgs (M : CopyArgs) (chunks : List (List Byte)) : List Msg := chunks.map fun ch => { md := M, chunk := ch }

/-- **No reachable deadlock.** As long as the result channel is not closed, some goroutine of the
call can take a step — for every set of targets, every engine behaviour and every schedule. -/
theorem no_reachable_deadlock (behs : List Beh) (ids : List Nat) (msgs : List Msg)
    (hids : ∀ i ∈ ids, i < behs.length) (s : State)
    (hr : Reachable behs ids msgs s) (hf : final s = false) :
    ∃ a s', step behs s a = some s' :=
  no_deadlock behs s (hr.inv (GInv.init behs ids msgs hids)) hf

/-- **Every step counts.** Each step strictly decreases a natural-number measure, so no schedule
can run forever: at most `State.mu` steps remain in any state. -/
theorem every_run_is_finite (behs : List Beh) (s s' : State) (a : Action) (h : step behs s a = some s') :
    s'.mu < s.mu := step_decreases behs s s' a h

/-- **Every maximal run ends with the result channel closed.**  A run of `n` steps from the initial
state has `n ≤ mu(init)` (so every run can be extended only finitely often), and a run that cannot
be extended any further — no goroutine can move — has reached a final state. -/
theorem maximal_run_ends_final (behs : List Beh) (ids : List Nat) (msgs : List Msg)
    (hids : ∀ i ∈ ids, i < behs.length) (n : Nat) (s : State)
    (hrun : RunN behs n (initState behs.length ids msgs) s) :
    n ≤ (initState behs.length ids msgs).mu ∧ ((∀ a, step behs s a = none) → final s = true) := by
  refine ⟨by have := hrun.bounded; omega, ?_⟩
  intro hstuck
  cases hf : final s with
  | true => rfl
  | false =>
    obtain ⟨a, s', hs⟩ := no_reachable_deadlock behs ids msgs hids s hrun.reach hf
    rw [hstuck a] at hs; cases hs

/-- **The call always finishes**: from every reachable state a final state is reachable, and (by
the previous theorems) every way of continuing gets there after finitely many steps. -/
theorem always_finishes (behs : List Beh) (ids : List Nat) (msgs : List Msg)
    (hids : ∀ i ∈ ids, i < behs.length) (s : State)
    (hr : Reachable behs ids msgs s) : ∃ s', Reach behs s s' ∧ final s' = true :=
  finishes_from behs s.mu s (hr.inv (GInv.init behs ids msgs hids)) (Nat.le_refl _)

/-- **Delivered content is identical, with the requested owner and mode; exactly one result per
target.**  In every final state of every schedule, for every listed target (however often it is
listed) of a non-empty message list whose messages all carry the arguments `M`: exactly one
message was sent on the result channel, it carries an error iff the workload is missing or the
engine failed; the engine was called with exactly `M` (destination, size, mode, uid, gid — unless
the workload is missing and the engine is never called, the copier still records them); and the
engine has received exactly the bytes its behaviour allows — the whole file, byte for byte, when it
reads to the end, the first `k` bytes when it stops after `k`, nothing when the workload is missing. -/
theorem delivered_identical (behs : List Beh) (ids : List Nat) (msgs : List Msg) (M : CopyArgs)
    (hids : ∀ i ∈ ids, i < behs.length) (hne : msgs ≠ []) (hM : ∀ m ∈ msgs, m.md = M)
    (s : State) (hr : Reachable behs ids msgs s) (hf : final s = true) (i : Nat) (hi : i ∈ ids) :
    ∃ t b, s.ts[i]? = some t ∧ behs[i]? = some b ∧
      t.results = [expectedErr b] ∧ t.args = some M ∧ t.got = expectedGot b (msgs.map (·.chunk)).flatten := by
  have hG := hr.inv (GInv.init behs ids msgs hids)
  obtain ⟨hd, hcr, _, hargs⟩ := hr.data (GInv.init behs ids msgs hids) (DG.init behs ids msgs M hne hM)
  obtain ⟨hl, _, _, hc⟩ := hG
  have hib : i < behs.length := hids i hi
  have hi' : i < s.ts.length := hl ▸ hib
  have hti : s.ts[i]? = some s.ts[i] := List.getElem?_eq_getElem hi'
  have hbi : behs[i]? = some behs[i] := List.getElem?_eq_getElem hib
  refine ⟨s.ts[i], behs[i], hti, hbi, ?_⟩
  simp only [final, Bool.and_eq_true, List.all_eq_true] at hf
  obtain ⟨hcl, hall⟩ := hf
  have hcreated : (s.ts[i]).created = true := by
    rcases hcr i _ hi hti with h | ⟨ch, hm⟩
    · exact h
    · rw [hc hcl] at hm; cases hm
  have hdone : (s.ts[i]).cop = .done := by
    have := hall _ (List.getElem_mem hi')
    simpa [hcreated] using this
  have h4 := (hd i _ _ hi hti hbi).2.2.2
  rw [hdone] at h4
  have ha := (hargs _ (List.getElem_mem hi')).2 (by rw [hdone]; exact fun e => by cases e)
  exact ⟨h4.1, ha, h4.2⟩

/-- in particular a target whose engine reads to the end receives the file unchanged, whatever
the other targets do (missing, rejecting, aborting) and however often it is listed -/
theorem full_reader_gets_file (behs : List Beh) (ids : List Nat) (msgs : List Msg) (M : CopyArgs)
    (hids : ∀ i ∈ ids, i < behs.length) (hne : msgs ≠ []) (hM : ∀ m ∈ msgs, m.md = M)
    (s : State) (hr : Reachable behs ids msgs s) (hf : final s = true) (i : Nat) (hi : i ∈ ids)
    (hb : behs[i]? = some ⟨false, none, false⟩) :
    ∃ t, s.ts[i]? = some t ∧ t.results = [false] ∧ t.args = some M ∧ t.got = (msgs.map (·.chunk)).flatten := by
  obtain ⟨t, b, h1, h2, h3, h4, h5⟩ := delivered_identical behs ids msgs M hids hne hM s hr hf i hi
  rw [hb] at h2; injection h2 with h2; subst h2
  exact ⟨t, h1, by simpa [expectedErr] using h3, h4, by simpa [expectedGot] using h5⟩

/-- end to end (chunking + pipeline): sending `content` in chunks of `size` with arguments `M`
delivers exactly `content`, with `M`, to every listed target whose engine reads to the end — for
every size, including the empty file, and for target lists with duplicates -/
theorem send_delivers_file (behs : List Beh) (ids : List Nat) (content : List Byte) (size : Nat) (hs : 0 < size)
    (M : CopyArgs) (hids : ∀ i ∈ ids, i < behs.length)
    (s : State) (hr : Reachable behs ids (fileMsgs M (toChunks size hs content)) s) (hf : final s = true)
    (i : Nat) (hi : i ∈ ids) (hb : behs[i]? = some ⟨false, none, false⟩) :
    ∃ t, s.ts[i]? = some t ∧ t.results = [false] ∧ t.args = some M ∧ t.got = content := by
  have hne : fileMsgs M (toChunks size hs content) ≠ [] := by
    unfold fileMsgs; rw [toChunks]; split <;> simp
  have hM : ∀ m ∈ fileMsgs M (toChunks size hs content), m.md = M := by
    intro m hm; simp only [fileMsgs, List.mem_map] at hm; obtain ⟨_, _, rfl⟩ := hm; rfl
  obtain ⟨t, h1, h2, h3, h4⟩ := full_reader_gets_file behs ids _ M hids hne hM s hr hf i hi hb
  refine ⟨t, h1, h2, h3, ?_⟩
  rw [h4]
  have : (fileMsgs M (toChunks size hs content)).map (·.chunk) = toChunks size hs content := by
    simp [fileMsgs, Function.comp_def]
  rw [this, toChunks_flatten]


/-! ### several files on one stream -/

/-- number of different files (destinations) among the messages addressed to target `i` -/
def filesFor (i : Nat) (stream : List (List Nat × Msg)) : Nat :=
  ((stream.filter fun p => p.1.contains i).map fun p => p.2.md.dst).eraseDups.length

/-- full statement for a streaming call that carries several files with their own target lists:
exactly one result per target **and file** -/
def PropMultiFile : Prop :=
  ∀ (behs : List Beh) (stream : List (List Nat × Msg)) (s : State),
    Reach behs (initStateM behs.length stream) s → final s = true →
    ∀ i t, s.ts[i]? = some t → t.results.length = filesFor i stream

/-- files for *different* targets on one stream are each delivered to their own targets with their own
arguments (two files, the first listed twice for its target) -/
example : let A : CopyArgs := ⟨"/tmp/a", 3, 420, 0, 0⟩
    let B : CopyArgs := ⟨"/tmp/b", 2, 384, 1, 1⟩
    let stream : List (List Nat × Msg) := [([0, 0], ⟨A, [1, 2]⟩), ([0, 0], ⟨A, [3]⟩), ([1], ⟨B, [7, 8]⟩)]
    let behs : List Beh := [⟨false, none, false⟩, ⟨false, none, false⟩]
    let s := run behs 200 (initStateM 2 stream)
    final s = true ∧ s.ts.map (·.got) = [[1, 2, 3], [7, 8]] ∧ s.ts.map (·.args) = [some A, some B] ∧
      s.ts.map (·.results) = [[false], [false]] := by
  decide

def cexBehs : List Beh := [⟨false, none, false⟩]
def cexStream : List (List Nat × Msg) :=
  [([0], ⟨⟨"/tmp/a", 2, 420, 0, 0⟩, [1, 2]⟩), ([0], ⟨⟨"/tmp/b", 1, 420, 0, 0⟩, [9]⟩)]
def cexFinal : State := run cexBehs 100 (initStateM cexBehs.length cexStream)

/-- **A second file for the same target on one stream is dropped (finding D21d).**  A sender serves
one file: when a message with another destination arrives it leaves its loop and drains the buffer,
so the second file is neither delivered nor reported — the call still finishes. -/
theorem second_file_same_target_counterexample : ¬ PropMultiFile := by
  intro h
  have hr := run_reach cexBehs 100 (initStateM cexBehs.length cexStream)
  have hf : final cexFinal = true := by decide
  have hres : (cexFinal.ts[0]?).map (·.results.length) = some 1 := by decide
  have hfiles : filesFor 0 cexStream = 2 := by decide
  cases ht : cexFinal.ts[0]? with
  | none => rw [ht] at hres; cases hres
  | some t =>
    have := h cexBehs cexStream cexFinal hr hf 0 t ht
    rw [ht] at hres
    simp only [Option.map_some, Option.some.injEq] at hres
    rw [hres, hfiles] at this
    cases this

/-- non-trivial instance: target 0 reads everything and is listed twice, target 1 is missing,
target 2's engine rejects the copy at once; 14 chunks (more than the buffer of 10 plus the one in
flight) -/
example : let behs : List Beh := [⟨false, none, false⟩, ⟨true, none, false⟩, ⟨false, some 0, true⟩]
    let M : CopyArgs := ⟨"/tmp/f", 28, 420, 1000, 1000⟩
    let s := run behs 400 (initState 3 [0, 1, 0, 2] (fileMsgs M (List.replicate 14 [1, 2])))
    final s = true ∧ s.ts.map (·.results) = [[false], [true], [true]] ∧ s.ts.map (·.got.length) = [28, 0, 0] ∧
      s.ts.map (·.args) = [some M, some M, some M] := by
  decide

end Pipeline

end Eru.Props.C29
