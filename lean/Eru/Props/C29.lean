import Eru.Misc.ProofsChunks
import Eru.Misc.Sender
/-
C29 — File transfers deliver identical content and always finish.
Chunking: Eru/Misc/Chunks.lean (rpc/transform.go:toSendLargeFileChunks);
pipeline: Eru/Misc/Sender.lean (cluster/calcium/sendlarge.go) — both after the `fix:` commits
(empty file = one empty chunk; duplicated target fed once; pipe reader closed by the copier and
sender buffer drained after a failure).
-/
namespace Eru.Props.C29
open Eru.Misc.Chunks

/-- the chunks of a file concatenate to the file, for every content and chunk size > 0 -/
theorem chunks_concat {α : Type} (size : Nat) (h : 0 < size) (c : List α) :
    (toChunks size h c).flatten = c := toChunks_flatten size h c

/-- no chunk exceeds the chunk size -/
theorem chunks_bound {α : Type} (size : Nat) (h : 0 < size) (c : List α) :
    ∀ ch ∈ toChunks size h c, ch.length ≤ size := toChunks_bound size h c

/-- ⌈len/size⌉ chunks; an empty file still yields exactly one (empty) chunk -/
theorem chunks_count {α : Type} (size : Nat) (h : 0 < size) (c : List α) :
    (toChunks size h c).length = if c.length = 0 then 1 else (c.length + size - 1) / size :=
  toChunks_length size h c

/-- every chunk except the last is full, and no chunk of a non-empty file is empty -/
theorem chunks_shape {α : Type} (size : Nat) (h : 0 < size) (c : List α) :
    (∀ ch ∈ (toChunks size h c).dropLast, ch.length = size) ∧
    (c ≠ [] → ∀ ch ∈ toChunks size h c, ch ≠ []) :=
  ⟨toChunks_full size h c, toChunks_nonempty size h c⟩

/-- every chunk message carries the file's metadata and total size -/
theorem chunks_meta {α : Type} (size : Nat) (h : 0 < size) (m : FileMeta) (c : List α) :
    ∀ msg ∈ toMsgs size h m c, msg.md = { m with size := c.length } := by
  intro msg hm
  simp only [toMsgs, List.mem_map] at hm
  obtain ⟨_, _, rfl⟩ := hm
  rfl

/-- with a zero chunk size the Go loop would never advance -/
theorem chunks_zero_size_diverges {α : Type} (c : List α) : toChunksO 0 c = .diverge := rfl

/-- non-trivial instance: 5 bytes in chunks of 2 -/
example : toChunks 2 (by decide) [1, 2, 3, 4, 5] = [[1, 2], [3, 4], [5]] := by
  simp [toChunks]
example : toChunks 2 (by decide) ([] : List Nat) = [[]] := by simp [toChunks]

end Eru.Props.C29
