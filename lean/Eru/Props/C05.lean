import Eru.CpuMem.ProofsFloat
import Eru.CpuMem.Spec
/-
C05 — CPU-bound instances receive exactly the CPU amount requested.
Property theorems only; helper lemmas live in Eru/CpuMem/Proofs*.lean.
-/
namespace Eru.Props.C05
open Eru Eru.CpuMem Eru.Float64

/-- **pieces_exact**: a request for `k` pieces at share base `B` (written, as every decimal request
    is, as the double nearest to `k/B`) is converted to exactly `k` pieces by the scheduler's
    `int(math.Round(cpuRequest * float64(shareBase)))`, for all `1 ≤ k ≤ 2^50` and all `B ≥ 1`. -/
theorem pieces_exact (k B : Nat) (hk : 1 ≤ k) (hk2 : k ≤ 2 ^ 50) (hB : 1 ≤ B) :
    piecesRequest { bind := true, cpuNum := k, cpuDen := B, mem := 0 } (B : Int) = (k : Int) := by
  unfold piecesRequest
  simp only [Int.toNat_natCast]
  rw [piecesRound_exact k B hk hk2 hB]

example : piecesRequest { bind := true, cpuNum := 29, cpuDen := 100, mem := 0 } 100 = 29 := by decide

/-- the conversion before the repair (`int(cpuRequest * float64(shareBase))`) loses a piece:
    0.29 cores at share base 100 → 28 (and 0.57 → 56, 1.15 → 114). -/
theorem pieces_truncation_counterexample :
    piecesTrunc 29 100 100 = 28 ∧ piecesTrunc 57 100 100 = 56 ∧ piecesTrunc 115 100 100 = 114 := by decide

/-- one rounding of the software binary64 has relative error at most 2⁻⁵³ -/
theorem round_relative_error (a b : Nat) (ha : 0 < a) (hb : 0 < b) :
    |(roundRat a b).toRat - (a : ℚ) / b| * 2 ^ 53 ≤ (a : ℚ) / b := roundRat_spec a b ha hb

/-- every fragment plan is one core carrying exactly `fragment` pieces -/
theorem fragment_plan_shape (cores : List Core) (fragment : Int) (p : CpuMap)
    (h : p ∈ getFragmentPlans cores fragment) : ∃ c ∈ cores, p = [(c.id, fragment)] := by
  unfold getFragmentPlans at h
  rw [List.mem_flatMap] at h
  obtain ⟨c, hc, hp⟩ := h
  exact ⟨c, hc, (List.mem_replicate.mp hp).2⟩

example : getFragmentPlans [⟨"3", 70⟩] 30 = [[("3", 30)], [("3", 30)]] := by decide

end Eru.Props.C05
