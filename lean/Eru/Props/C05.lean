import Eru.CpuMem.ProofsFloat
import Eru.CpuMem.ProofsSpec
/-
C05 — CPU-bound instances receive exactly the CPU amount requested.
Property theorems only; helper lemmas live in Eru/CpuMem/Proofs*.lean.

Scope: the theorems are about requests expressible at the share base's precision (`request·B` is a
whole number `k` of pieces — the property's quantifier); for those the pieces are *exactly* `k`.
The oracle additionally evaluates the weaker `nearestPieces` clause (|pieces − request·B| ≤ 1/2) on
requests that are not expressible (e.g. 0.005 cores at share base 100), where "exactly" has no meaning.
-/
namespace Eru.Props.C05
open Eru Eru.CpuMem Eru.Float64

/-- **pieces_exact**: a request for `k` pieces at share base `B` (written, as every decimal request
    is, as the double nearest to `k/B`) is converted to exactly `k` pieces by the scheduler's
    `int(math.Round(cpuRequest * float64(shareBase)))`, for all `1 ≤ k ≤ 2^50` and all `B ≥ 1`. -/
theorem pieces_exact (k B : Nat) (hk : 1 ≤ k) (hk2 : k ≤ 2 ^ 50) (hB : 1 ≤ B) :
    piecesRequest { bind := true, cpuNum := k, cpuDen := B, mem := 0 } (B : Int) = (k : Int) := by
  unfold piecesRequest
  simp only [Int.toNat_natCast]
  rw [piecesRound_exact k B hk hk2 hB]

/-- the same for a request written with any decimal precision (`a/b`, e.g. thousandths as in the
    harness) that is expressible at the share base (`a·B = k·b`) -/
theorem pieces_exact_decimal (a b k B : Nat) (hb : 0 < b) (hk : 1 ≤ k) (hk2 : k ≤ 2 ^ 50) (hB : 1 ≤ B)
    (hab : a * B = k * b) :
    piecesRequest { bind := true, cpuNum := a, cpuDen := b, mem := 0 } (B : Int) = (k : Int) := by
  unfold piecesRequest
  simp only [Int.toNat_natCast]
  rw [piecesRound_exact' a b B k hb hk hk2 hB hab]

example : piecesRequest { bind := true, cpuNum := 29, cpuDen := 100, mem := 0 } 100 = 29 := by decide
example : piecesRequest { bind := true, cpuNum := 290, cpuDen := 1000, mem := 0 } 100 = 29 := by decide

/-- the conversion before the repair (`int(cpuRequest * float64(shareBase))`) loses a piece:
    0.29 cores at share base 100 → 28 (and 0.57 → 56, 1.15 → 114). -/
theorem pieces_truncation_counterexample :
    piecesTrunc 29 100 100 = 28 ∧ piecesTrunc 57 100 100 = 56 ∧ piecesTrunc 115 100 100 = 114 := by decide

/-- one rounding of the software binary64 has relative error at most 2⁻⁵³ -/
theorem round_relative_error (a b : Nat) (ha : 0 < a) (hb : 0 < b) :
    |(roundRat a b).toRat - (a : ℚ) / b| * 2 ^ 53 ≤ (a : ℚ) / b := roundRat_spec a b ha hb

/-- **plan_shape**: every plan returned by `GetCPUPlans` (any node with map-like maps, share base ≥ 1,
    any max-share, affinity map and NUMA order) consists of `pieces / B` distinct cores at a full
    share `B` plus — iff `pieces % B ≠ 0` — exactly one more core carrying the remainder, and its
    pieces total exactly `pieces = int(math.Round(cpuRequest·B))` (decidable clause `planShape`). -/
theorem plan_shape (info : NodeInfo) (origin : CpuMap) (B maxShare : Int) (req : Req)
    (order : List String) (ps : List CpuPlan) (hB : 1 ≤ B)
    (hck : info.cap.cpuMap.keys.Nodup) (hnk : (info.cap.numa.map (·.1)).Nodup) (hord : order.Nodup)
    (h : getCPUPlans info origin B maxShare req order = .ok ps) :
    ∀ pl ∈ ps, planShape B (piecesRequest req B) pl.cpuMap = true ∧ planTotal pl.cpuMap = piecesRequest req B := by
  obtain ⟨ps', h', _, hok⟩ := getCPUPlans_spec info origin B hB maxShare req order hord hnk hck
  rw [h] at h'; cases h'
  intro pl hpl
  obtain ⟨⟨ids, hform⟩, _⟩ := hok pl hpl
  have hpn := piecesRequest_nonneg req B
  rcases Int.lt_or_le 0 (piecesRequest req B) with hpos | hle
  · exact planShape_of_form B hB _ hpos ids pl.cpuMap hform
  · -- zero pieces: there are no plans at all, so this case is void; derive it from the form
    have hz : piecesRequest req B = 0 := by omega
    rw [hz] at hform ⊢
    obtain ⟨picked, tail, e, hl, ht, hn, _⟩ := hform
    simp only [Int.zero_tdiv, Int.toNat_zero, Int.zero_tmod] at hl ht
    have hp0 : picked = [] := List.eq_nil_of_length_eq_zero hl
    rcases ht with ⟨_, rfl⟩ | ⟨hne, _⟩
    · subst hp0
      simp only [List.map_nil, List.append_nil] at e
      rw [e]; simp [planShape, planTotal, Plan.keys]
    · exact absurd rfl hne

/-- **recorded_agrees** (with `pieces_exact`): a request of `k` pieces at share base `B` is given plans
    of exactly `k` pieces, i.e. the recorded CPU request `k/B` times `B` equals the pieces handed out. -/
theorem recorded_agrees (info : NodeInfo) (origin : CpuMap) (B : Nat) (maxShare : Int) (k : Nat) (mem : Int)
    (order : List String) (ps : List CpuPlan) (hB : 1 ≤ B) (hk : 1 ≤ k) (hk2 : k ≤ 2 ^ 50)
    (hck : info.cap.cpuMap.keys.Nodup) (hnk : (info.cap.numa.map (·.1)).Nodup) (hord : order.Nodup)
    (h : getCPUPlans info origin B maxShare { bind := true, cpuNum := k, cpuDen := B, mem := mem } order = .ok ps) :
    ∀ pl ∈ ps, planTotal pl.cpuMap = k := by
  intro pl hpl
  have := (plan_shape info origin B maxShare _ order ps (by omega) hck hnk hord h pl hpl).2
  rw [this]
  unfold piecesRequest
  simp only [Int.toNat_natCast]
  rw [piecesRound_exact k B hk hk2 hB]

/-- a CPU request of `cpuReq` thousandths that is expressible at share base `B` as `k` pieces -/
def Expressible (cpuReq B : Int) (k : Nat) : Prop := 1 ≤ k ∧ k ≤ 2 ^ 50 ∧ cpuReq * B = (k : Int) * 1000

theorem pieces_of_expressible (r : Req) (cpuReq B : Int) (k : Nat) (hB : 1 ≤ B) (he : Expressible cpuReq B k)
    (h1 : r.cpuNum = cpuReq.toNat) (h2 : r.cpuDen = 1000) : piecesRequest r B = (k : Int) := by
  obtain ⟨hk1, hk2, heq⟩ := he
  have hBn : (B.toNat : Int) = B := Int.toNat_of_nonneg (by omega)
  have hc0 : 0 ≤ cpuReq := by
    rcases Int.lt_or_le cpuReq 0 with hneg | hpos
    · exfalso
      have : cpuReq * B < 0 := Int.mul_neg_of_neg_of_pos hneg (by omega)
      omega
    · exact hpos
  have hcn : (cpuReq.toNat : Int) = cpuReq := Int.toNat_of_nonneg hc0
  unfold piecesRequest
  rw [h1, h2]
  have hab : cpuReq.toNat * B.toNat = k * 1000 := by
    have : ((cpuReq.toNat * B.toNat : Nat) : Int) = ((k * 1000 : Nat) : Int) := by push_cast; rw [hcn, hBn]; exact heq
    exact_mod_cast this
  rw [piecesRound_exact' cpuReq.toNat 1000 B.toNat k (by omega) hk1 hk2 (by omega) hab]

/-- **deploy_recorded_agrees** (the property's second sentence at workload level): every workload of a
    bound deployment records the validated request, and the pieces of its CPU map total exactly
    `recorded request × share base`; in particular the oracle's clause `C05:recorded` holds. -/
theorem deploy_recorded_agrees (info : NodeInfo) (B maxShare count : Int) (raw w : RawReq) (order : List String)
    (ws : List Workload) (k : Nat) (hB : 1 ≤ B)
    (hck : info.cap.cpuMap.keys.Nodup) (hnk : (info.cap.numa.map (·.1)).Nodup) (hord : order.Nodup)
    (hraw : raw.validate = .ok w) (hbind : w.bind = true) (hex : Expressible w.cpuReq B k)
    (h : calculateDeploy info B maxShare count raw order = .ok ws) :
    ∀ x ∈ ws, x.cpuReq = w.cpuReq ∧ planTotal x.cpuMap = (k : Int) ∧
      nearestPieces x.cpuReq.toNat 1000 B (planTotal x.cpuMap) = true := by
  have hpieces : piecesRequest w.toReq B = (k : Int) := pieces_of_expressible _ w.cpuReq B k hB hex rfl rfl
  unfold calculateDeploy at h
  rw [hraw] at h
  simp only [hbind, if_true] at h
  unfold allocByCPU at h
  split at h
  · rename_i plans hpl
    split at h
    · cases h
    · split at h
      · cases h
      · cases h
        intro x hx
        obtain ⟨p, hp, rfl⟩ := List.mem_map.mp hx
        have hs := (plan_shape info [] B maxShare w.toReq order plans hB hck hnk hord hpl p (List.mem_of_mem_take hp)).2
        rw [hpieces] at hs
        refine ⟨rfl, hs, ?_⟩
        simp only [hs]
        unfold nearestPieces
        obtain ⟨_, _, heq⟩ := hex
        have hc0 : 0 ≤ w.cpuReq := by
          rcases Int.lt_or_le w.cpuReq 0 with hneg | hpos
          · exfalso
            have : w.cpuReq * B < 0 := Int.mul_neg_of_neg_of_pos hneg (by omega)
            omega
          · exact hpos
        have hcn : (w.cpuReq.toNat : Int) = w.cpuReq := Int.toNat_of_nonneg hc0
        simp only [decide_eq_true_eq]
        rw [hcn, heq]
        simp
  all_goals cases h

theorem planTotal_set (m : Eru.Plan) (k : String) (v : Int) : planTotal (m.set k v) = planTotal m - m.get k + v := by
  unfold planTotal
  induction m with
  | nil => simp [Plan.set, Plan.get]
  | cons p rest ih =>
    obtain ⟨a, b⟩ := p
    simp only [Plan.set, Plan.get]
    by_cases h : a = k
    · simp only [h, if_true, List.map_cons, List.sum_cons]; omega
    · simp only [h, if_false, List.map_cons, List.sum_cons, ih]; omega

theorem planTotal_mapSub (a b : Eru.Plan) : planTotal (mapSub a b) = planTotal a - planTotal b := by
  unfold mapSub
  induction b generalizing a with
  | nil => simp [planTotal]
  | cons kv rest ih =>
    simp only [List.foldl_cons]
    rw [ih, Plan.add, planTotal_set]
    simp only [planTotal, List.map_cons, List.sum_cons]; omega

/-- **realloc_recorded_agrees**: a successful bound `CalculateRealloc` (any deltas; `w` is the validated
    summed request, expressible as `k` pieces) records the validated request and hands out exactly
    `k` pieces (`C05:recorded:realloc`); and if the old record was consistent (`k₀` pieces), the delta
    resource is consistent too: `Δcpu_request × B = 1000 · Σ Δpieces` (`C05:recorded:realloc-delta`). -/
theorem realloc_recorded_agrees (info : NodeInfo) (B maxShare : Int) (origin : Workload) (raw w : RawReq) (order : List String)
    (w' : Workload) (k k0 : Nat) (hB : 1 ≤ B)
    (hck : info.cap.cpuMap.keys.Nodup) (hnk : (info.cap.numa.map (·.1)).Nodup) (hord : order.Nodup)
    (hbind : (reallocReq origin raw).bind = true) (hv : (reallocReq origin raw).validate = .ok w)
    (hex : Expressible w.cpuReq B k)
    (h : calculateRealloc info B maxShare origin raw order = .ok w') :
    w'.cpuReq = w.cpuReq ∧ planTotal w'.cpuMap = (k : Int) ∧
    (origin.cpuReq * B = (k0 : Int) * 1000 → planTotal origin.cpuMap = (k0 : Int) →
      (reallocDelta origin w').cpuReq * B = 1000 * planTotal (reallocDelta origin w').cpuMap) := by
  have hpieces : piecesRequest w.toReq B = (k : Int) := pieces_of_expressible _ w.cpuReq B k hB hex rfl rfl
  unfold calculateRealloc at h
  split at h
  · cases h
  · unfold reallocCore at h
    rw [hv] at h
    simp only [hbind, if_true] at h
    split at h
    · cases h
    · rename_i p rest hg
      cases h
      have hs := (plan_shape (givenBack info origin) origin.cpuMap B maxShare w.toReq order _ hB hck hnk hord hg p
        (List.mem_cons_self ..)).2
      rw [hpieces] at hs
      refine ⟨rfl, hs, ?_⟩
      intro ho1 ho2
      simp only [reallocDelta]
      rw [planTotal_mapSub, hs, ho2, Int.sub_mul, ho1, hex.2.2]
      omega
    all_goals cases h

/-- every fragment plan is one core carrying exactly `fragment` pieces -/
theorem fragment_plan_shape (cores : List Core) (fragment : Int) (p : CpuMap)
    (h : p ∈ getFragmentPlans cores fragment) : ∃ c ∈ cores, p = [(c.id, fragment)] := by
  unfold getFragmentPlans at h
  rw [List.mem_flatMap] at h
  obtain ⟨c, hc, hp⟩ := h
  exact ⟨c, hc, (List.mem_replicate.mp hp).2⟩

example : getFragmentPlans [⟨"3", 70⟩] 30 = [[("3", 30)], [("3", 30)]] := by decide

end Eru.Props.C05
