import Eru.CpuMem.ProofsFloat
import Eru.CpuMem.ProofsSpec
/-
C05 — CPU-bound instances receive exactly the CPU amount requested.
Property theorems only; helper lemmas live in Eru/CpuMem/Proofs*.lean.
-/
namespace Eru.Props.C05
open Eru Eru.CpuMem Eru.Float64

/-- **pieces_exact**: a request for `k` pieces at share base `B` (written, as every decimal request
    is, as the double nearest to `k/B`) is converted to exactly `k` pieces by the scheduler's
    `int(math.Round(cpuRequest * float64(shareBase)))`, for all `1 ≤ k ≤ 2^50` and all `B ≥ 1`. -/
theorem pieces_exact (k B : Nat) (hk : 1 ≤ k) (hk2 : k ≤ 2 ^ 50) (hB : 1 ≤ B) :
    piecesRequest { bind := true, cpuNum := k, cpuDen := B, mem := 0 } (B : Int) = (k : Int) := by
  unfold piecesRequest
  simp only [Int.toNat_natCast]
  rw [piecesRound_exact k B hk hk2 hB]

/-- the same for a request written with any decimal precision (`a/b`, e.g. thousandths as in the
    harness) that is expressible at the share base (`a·B = k·b`) -/
theorem pieces_exact_decimal (a b k B : Nat) (hb : 0 < b) (hk : 1 ≤ k) (hk2 : k ≤ 2 ^ 50) (hB : 1 ≤ B)
    (hab : a * B = k * b) :
    piecesRequest { bind := true, cpuNum := a, cpuDen := b, mem := 0 } (B : Int) = (k : Int) := by
  unfold piecesRequest
  simp only [Int.toNat_natCast]
  rw [piecesRound_exact' a b B k hb hk hk2 hB hab]

example : piecesRequest { bind := true, cpuNum := 29, cpuDen := 100, mem := 0 } 100 = 29 := by decide
example : piecesRequest { bind := true, cpuNum := 290, cpuDen := 1000, mem := 0 } 100 = 29 := by decide

/-- the conversion before the repair (`int(cpuRequest * float64(shareBase))`) loses a piece:
    0.29 cores at share base 100 → 28 (and 0.57 → 56, 1.15 → 114). -/
theorem pieces_truncation_counterexample :
    piecesTrunc 29 100 100 = 28 ∧ piecesTrunc 57 100 100 = 56 ∧ piecesTrunc 115 100 100 = 114 := by decide

/-- one rounding of the software binary64 has relative error at most 2⁻⁵³ -/
theorem round_relative_error (a b : Nat) (ha : 0 < a) (hb : 0 < b) :
    |(roundRat a b).toRat - (a : ℚ) / b| * 2 ^ 53 ≤ (a : ℚ) / b := roundRat_spec a b ha hb

/-- **plan_shape**: every plan returned by `GetCPUPlans` (any node with map-like maps, share base ≥ 1,
    any max-share, affinity map and NUMA order) consists of `pieces / B` distinct cores at a full
    share `B` plus — iff `pieces % B ≠ 0` — exactly one more core carrying the remainder, and its
    pieces total exactly `pieces = int(math.Round(cpuRequest·B))` (decidable clause `planShape`). -/
theorem plan_shape (info : NodeInfo) (origin : CpuMap) (B maxShare : Int) (req : Req)
    (order : List String) (ps : List CpuPlan) (hB : 1 ≤ B)
    (hck : info.cap.cpuMap.keys.Nodup) (hnk : (info.cap.numa.map (·.1)).Nodup) (hord : order.Nodup)
    (h : getCPUPlans info origin B maxShare req order = .ok ps) :
    ∀ pl ∈ ps, planShape B (piecesRequest req B) pl.cpuMap = true ∧ planTotal pl.cpuMap = piecesRequest req B := by
  obtain ⟨ps', h', _, hok⟩ := getCPUPlans_spec info origin B hB maxShare req order hord hnk hck
  rw [h] at h'; cases h'
  intro pl hpl
  obtain ⟨⟨ids, hform⟩, _⟩ := hok pl hpl
  have hpn := piecesRequest_nonneg req B
  rcases Int.lt_or_le 0 (piecesRequest req B) with hpos | hle
  · exact planShape_of_form B hB _ hpos ids pl.cpuMap hform
  · -- zero pieces: there are no plans at all, so this case is void; derive it from the form
    have hz : piecesRequest req B = 0 := by omega
    rw [hz] at hform ⊢
    obtain ⟨picked, tail, e, hl, ht, hn, _⟩ := hform
    simp only [Int.zero_tdiv, Int.toNat_zero, Int.zero_tmod] at hl ht
    have hp0 : picked = [] := List.eq_nil_of_length_eq_zero hl
    rcases ht with ⟨_, rfl⟩ | ⟨hne, _⟩
    · subst hp0
      simp only [List.map_nil, List.append_nil] at e
      rw [e]; simp [planShape, planTotal, Plan.keys]
    · exact absurd rfl hne

/-- **recorded_agrees** (with `pieces_exact`): a request of `k` pieces at share base `B` is given plans
    of exactly `k` pieces, i.e. the recorded CPU request `k/B` times `B` equals the pieces handed out. -/
theorem recorded_agrees (info : NodeInfo) (origin : CpuMap) (B : Nat) (maxShare : Int) (k : Nat) (mem : Int)
    (order : List String) (ps : List CpuPlan) (hB : 1 ≤ B) (hk : 1 ≤ k) (hk2 : k ≤ 2 ^ 50)
    (hck : info.cap.cpuMap.keys.Nodup) (hnk : (info.cap.numa.map (·.1)).Nodup) (hord : order.Nodup)
    (h : getCPUPlans info origin B maxShare { bind := true, cpuNum := k, cpuDen := B, mem := mem } order = .ok ps) :
    ∀ pl ∈ ps, planTotal pl.cpuMap = k := by
  intro pl hpl
  have := (plan_shape info origin B maxShare _ order ps (by omega) hck hnk hord h pl hpl).2
  rw [this]
  unfold piecesRequest
  simp only [Int.toNat_natCast]
  rw [piecesRound_exact k B hk hk2 hB]

/-- every fragment plan is one core carrying exactly `fragment` pieces -/
theorem fragment_plan_shape (cores : List Core) (fragment : Int) (p : CpuMap)
    (h : p ∈ getFragmentPlans cores fragment) : ∃ c ∈ cores, p = [(c.id, fragment)] := by
  unfold getFragmentPlans at h
  rw [List.mem_flatMap] at h
  obtain ⟨c, hc, hp⟩ := h
  exact ⟨c, hc, (List.mem_replicate.mp hp).2⟩

example : getFragmentPlans [⟨"3", 70⟩] 30 = [[("3", 30)], [("3", 30)]] := by decide

end Eru.Props.C05
