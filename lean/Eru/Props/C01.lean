import Eru.Strategy.ProofsC01Bridge
/-
C01 — Deploy plans respect the requested count and each node's capacity.

"Whenever a deployment plan is produced it names only candidate nodes and gives each a
non-negative number of new instances no larger than that node's remaining capacity. AUTO,
GLOBAL and DRAINED place exactly the requested total, EACH places exactly the requested number
on each of the limited set of nodes (all nodes when no limit), and FILL tops each selected node
up to the requested level. With a per-node limit, AUTO never leaves a node with more instances
than the limit."

Property theorems only; the proofs' machinery is in Eru/Strategy/Proofs*.lean.  The model is
Eru/Strategy/Model.lean (`deploy` = strategy.Deploy); `c01` (Eru/Strategy/Spec.lean) is the very
predicate the oracle evaluates on the Go implementation's plans.

`Valid` puts no upper bound on a node's `count` (nor is the requested count bounded here); Go's `Count++`
and `need-Count` cannot overflow only for counts well below MaxInt64 — instance counts are numbers of
workloads, far below that bound, which is a trusted-base assumption.  The assembly of the candidate list
itself by `Calcium.doGetDeployStrategy` has no Lean model; it is covered by the cluster-level
correspondence stream (harness/stratc).
-/
namespace Eru.Props.C01
open Eru Eru.Strategy

/-- **C01 (all strategies).** For every valid candidate set (distinct names, capacities 1..unlimited,
counts ≥ 0), every strategy name, requested count and node limit: if `deploy` produces a plan, the plan
satisfies every clause of C01 (`c01` spells the clauses out per strategy). -/
theorem c01_holds (sname : String) (s : Strat) (count limit total : Int) (infos : List Info) (p : Plan)
    (hv : Valid infos) (hs : Strat.ofString? sname = some s)
    (h : deploy sname count limit infos total = .ok p) : c01 s infos count limit p = true := by
  unfold deploy at h
  rw [hs] at h
  simp only at h
  split at h
  · cases h
  · rename_i hc
    have hneed : 1 ≤ count := by omega
    cases s with
    | auto => exact c01_auto hv hneed h
    | global => exact c01_global hv hneed h
    | drained => exact c01_drained hv hneed h
    | each => exact c01_each hv hneed h
    | fill =>
      simp only at h
      split at h <;> try cases h
      rename_i d hf
      exact c01_fill hv hf

/-- a non-positive count is rejected before any strategy runs -/
theorem deploy_rejects_nonpositive_count (s : String) (count limit total : Int) (infos : List Info)
    (h : count ≤ 0) : ¬ (deploy s count limit infos total).isOk = true := by
  unfold deploy
  cases Strat.ofString? s <;> simp [h, Outcome.isOk]

/-- AUTO/GLOBAL/DRAINED in propositional form: only candidates are named, each gets between 0 and its
capacity, and exactly `count` instances are placed -/
theorem total_exact (sname : String) (count limit total : Int) (infos : List Info) (p : Plan)
    (hv : Valid infos) (hs : sname = "AUTO" ∨ sname = "GLOBAL" ∨ sname = "DRAINED")
    (h : deploy sname count limit infos total = .ok p) :
    PlanWithin infos p ∧ sumBy infos (fun i => p.get i.name) = count := by
  have hcount : 1 ≤ count := by
    by_cases hc : count ≤ 0
    · exact absurd (by rw [h]; rfl) (deploy_rejects_nonpositive_count sname count limit total infos hc)
    · omega
  have hc' : ¬ count ≤ 0 := by omega
  rcases hs with rfl | rfl | rfl
  · simp only [deploy, Strat.ofString?, hc', if_false] at h
    exact ⟨(auto_plan hv hcount h).1, (auto_plan hv hcount h).2.1⟩
  · simp only [deploy, Strat.ofString?, hc', if_false] at h
    exact global_plan hv hcount h
  · simp only [deploy, Strat.ofString?, hc', if_false] at h
    exact drained_plan hv hcount h

/-- AUTO with a per-node limit never leaves a node above the limit -/
theorem auto_respects_limit (count limit total : Int) (infos : List Info) (p : Plan)
    (hv : Valid infos) (hl : 0 < limit) (h : deploy "AUTO" count limit infos total = .ok p) :
    ∀ i ∈ infos, 0 < p.get i.name → i.count + p.get i.name ≤ limit := by
  have hcount : 1 ≤ count := by
    by_cases hc : count ≤ 0
    · exact absurd (by rw [h]; rfl) (deploy_rejects_nonpositive_count "AUTO" count limit total infos hc)
    · omega
  have hc' : ¬ count ≤ 0 := by omega
  simp only [deploy, Strat.ofString?, hc', if_false] at h
  intro i hi hpos
  have := (auto_plan hv hcount h).2.2 i hi
  simp only [allowance, hl, if_true] at this
  omega

/-- non-vacuity: a concrete valid candidate set (ties, an unlimited node) on which plans are produced
(the heap-based strategies are defined by well-founded recursion, which `decide` cannot unfold; their
non-vacuity is witnessed by the thousands of plans of every correspondence run) -/
example : Valid [⟨"a", 0, 1, 2, 1⟩, ⟨"b", 0, 1, maxInt, 0⟩, ⟨"c", 5, 1, 2, 0⟩] ∧
    deploy "DRAINED" 3 0 [⟨"a", 0, 1, 2, 1⟩, ⟨"b", 0, 1, maxInt, 0⟩, ⟨"c", 5, 1, 2, 0⟩] maxInt
      = .ok [("c", 2), ("a", 1)] ∧
    deploy "EACH" 2 2 [⟨"a", 0, 1, 2, 1⟩, ⟨"b", 0, 1, maxInt, 0⟩, ⟨"c", 5, 1, 2, 0⟩] maxInt
      = .ok [("b", 2), ("a", 2)] ∧
    deploy "FILL" 2 2 [⟨"a", 0, 1, 2, 1⟩, ⟨"b", 0, 1, maxInt, 0⟩, ⟨"c", 5, 1, 2, 0⟩] maxInt
      = .ok [("a", 1), ("b", 2)] := by
  refine ⟨⟨by decide, ?_⟩, by decide, by decide, by decide⟩
  intro i hi
  simp only [List.mem_cons, List.mem_nil_iff, or_false] at hi
  rcases hi with rfl | rfl | rfl <;> simp [maxInt]

end Eru.Props.C01
