import Eru.Strategy.Spec
/-
C01 — Deploy plans respect the requested count and each node's capacity.
Property theorems only; helper lemmas live in Eru/Strategy/Proofs.lean.
-/
namespace Eru.Props.C01
open Eru Eru.Strategy

/-- valid candidate set: distinct names, capacities ≥ 1 (up to unlimited), counts ≥ 0 -/
def Valid (infos : List Info) : Prop :=
  (infos.map (·.name)).Nodup ∧ ∀ i ∈ infos, 1 ≤ i.cap ∧ i.cap ≤ maxInt ∧ 0 ≤ i.count

theorem deploy_rejects_nonpositive_count (s : String) (count limit total : Int) (infos : List Info)
    (h : count ≤ 0) : ¬ (deploy s count limit infos total).isOk = true := by
  unfold deploy
  cases Strat.ofString? s <;> simp [h, Outcome.isOk]

end Eru.Props.C01
