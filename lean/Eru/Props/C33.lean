import Eru.CpuMem.ProofsAffinity
import Eru.CpuMem.ProofsFloat
/-
C33 — re-allocating a bound workload without change keeps its cores.
-/
namespace Eru.Props.C33
open Eru Eru.CpuMem

/-- the keep-bind request with zero CPU delta and memory delta `dm` -/
def keepReq (dm : Int) : RawReq := { bind := false, keepBind := true, cpuReq := 0, cpuLim := 0, memReq := dm, memLim := dm }

/-- the workload lives on the node: its cores exist and the node's usage includes its pieces -/
def LivesOn (info : NodeInfo) (w : Workload) : Prop :=
  ∀ k ∈ w.cpuMap.keys, info.cap.cpuMap.has k = true ∧ w.cpuMap.get k ≤ info.use.cpuMap.get k

/-- the recorded CPU request agrees with the pieces held (C05) -/
def RecordedAgrees (B : Int) (w : Workload) : Prop :=
  piecesRequest { bind := true, cpuNum := w.cpuReq.toNat, cpuDen := 1000, mem := 0 } B = planTotal w.cpuMap

/-- full statement of the property: on a whole-core node, for a bound workload that lives on the node
    and whose recorded request agrees with its pieces, whenever the unchanged keep-bind re-allocation
    succeeds, it keeps cores and NUMA node -/
def PropC33 : Prop :=
  ∀ (info : NodeInfo) (B maxShare : Int) (w : Workload) (dm : Int) (order : List String) (w' : Workload),
    1 ≤ B → (maxShare = -1 ∨ 1 ≤ maxShare) → info.validate = true → wholeCoreNode B info = true →
    w.cpuMap ≠ [] → LivesOn info w → RecordedAgrees B w →
    calculateRealloc info B maxShare w (keepReq dm) order = .ok w' →
    mapEq w'.cpuMap w.cpuMap = true ∧ w'.numa = w.numa

def witnessNode : NodeInfo :=
  { cap := { cpuMap := [("0",100),("1",100)], mem := 1000 }, use := { cpuMap := [("0",100),("1",50)], mem := 10 } }
def witnessWorkload : Workload :=
  { cpuReq := 1500, cpuLim := 1500, memReq := 10, memLim := 10, cpuMap := [("0",100),("1",50)] }

/-- D23: the workload {0:100, 1:50} is moved to {1:100, 0:50} (replayed on the real code by the
    harness corpus) -/
theorem affinity_keeps_counterexample : ¬ PropC33 := by
  intro h
  have := h witnessNode 100 (-1) witnessWorkload 0 []
    { cpuReq := 1500, cpuLim := 1500, memReq := 10, memLim := 10, cpuMap := [("1",100),("0",50)] }
    (by decide) (by decide) (by decide) (by decide) (by decide) (by unfold LivesOn; decide) (by unfold RecordedAgrees; decide) (by decide)
  revert this
  decide


/-! ### the proved part -/

/-- a request carrying both `keep-cpu-bind` and `cpu-bind` is the same keep-bind request: the explicit
    `cpu-bind` flag has no influence on `CalculateRealloc` once `keep-cpu-bind` is set -/
theorem keep_bind_ignores_bind_flag (info : NodeInfo) (B maxShare : Int) (w : Workload) (raw : RawReq) (b : Bool)
    (order : List String) (hk : raw.keepBind = true) :
    calculateRealloc info B maxShare w { raw with bind := b } order = calculateRealloc info B maxShare w raw order := by
  unfold calculateRealloc reallocReq reallocBind reallocExact
  simp only [hk, if_true]


theorem post_bind (w : RawReq) : w.post.bind = w.bind := by
  unfold RawReq.post
  dsimp only
  repeat' split
  all_goals rfl

theorem post_cpuReq (w : RawReq) (h : w.cpuLim = w.cpuReq) : w.post.cpuReq = w.cpuReq := by
  unfold RawReq.post
  dsimp only
  repeat' split
  all_goals (first | rfl | (simp_all; try omega) | omega)

theorem has_mapSub (c p : Eru.Plan) (k : String) (h : c.has k = true) : (mapSub c p).has k = true := by
  unfold mapSub
  induction p generalizing c with
  | nil => simpa using h
  | cons kv rest ih =>
    simp only [List.foldl_cons]
    exact ih _ (by rw [Plan.has_add]; simp [h])

/-- reduction shared by the proved parts: an unchanged keep-bind re-allocation of a whole-core workload
    (cores used by it alone, recorded request = number of cores) on a whole-core node is the first plan
    of `GetCPUPlans` on the node with the workload given back, where all of the workload's cores are
    whole free cores again and the request is exactly its number of cores -/
theorem realloc_keep_reduce (info : NodeInfo) (B maxShare : Int) (w : Workload) (dm : Int) (order : List String) (w' : Workload)
    (hB : 1 ≤ B) (hB2 : (w.cpuMap.length : Int) * B ≤ 2 ^ 50)
    (hck : info.cap.cpuMap.keys.Nodup) (huk : info.use.cpuMap.keys.Nodup)
    (hwhole : wholeCoreNode B info = true)
    (hMk : w.cpuMap.keys.Nodup) (hM1 : w.cpuMap ≠ []) (hMv : ∀ kv ∈ w.cpuMap, kv.2 = B)
    (hlive : ∀ k ∈ w.cpuMap.keys, info.cap.cpuMap.has k = true ∧ info.use.cpuMap.get k = B)
    (hreq : w.cpuReq = (w.cpuMap.length : Int) * 1000 ∧ w.cpuLim = w.cpuReq)
    (h : calculateRealloc info B maxShare w (keepReq dm) order = .ok w') :
    ∃ (req : Req) (pl : CpuPlan) (rest : List CpuPlan),
      getCPUPlans (givenBack info w) w.cpuMap B maxShare req order = .ok (pl :: rest) ∧
      w'.cpuMap = pl.cpuMap ∧ w'.numa = pl.numa ∧
      piecesRequest req B = (w.cpuMap.length : Int) * B ∧
      (givenBack info w).available.cpuMap.keys.Nodup ∧
      (∀ k ∈ w.cpuMap.keys, isFull B ⟨k, (givenBack info w).available.cpuMap.get k⟩ = true ∧
        (givenBack info w).available.cpuMap.has k = true) := by
  have hlenM : 1 ≤ w.cpuMap.length := by
    cases hm : w.cpuMap with
    | nil => exact absurd hm hM1
    | cons _ _ => simp
  have hne : w.cpuMap.isEmpty = false := by
    cases hm : w.cpuMap with
    | nil => exact absurd hm hM1
    | cons _ _ => rfl
  unfold calculateRealloc at h
  rw [if_neg (by simp [reallocExact, keepReq])] at h
  unfold reallocCore reallocReq reallocBind keepReq at h
  simp only [hne, Bool.not_false, if_true, Int.zero_add] at h
  generalize hnr : ({ bind := true, cpuReq := w.cpuReq, cpuLim := w.cpuLim, memReq := dm + w.memReq, memLim := dm + w.memLim } : RawReq) = newReq at h
  have hnb : newReq.bind = true := by rw [← hnr]
  have hnc : newReq.cpuReq = w.cpuReq := by rw [← hnr]
  have hnl : newReq.cpuLim = newReq.cpuReq := by rw [← hnr]; exact hreq.2
  have hcpos : 0 < w.cpuReq := by rw [hreq.1]; omega
  cases hv : newReq.validate with
  | err e => rw [hv] at h; cases h
  | panic m => rw [hv] at h; cases h
  | diverge => rw [hv] at h; cases h
  | ok w2 =>
    rw [hv] at h
    simp only [] at h
    have hw2 : w2 = newReq.pre.post := by
      unfold RawReq.validate at hv
      split at hv
      · cases hv
      · split at hv
        · cases hv
        · split at hv
          · cases hv
          · exact (Outcome.ok.inj hv).symm
    have hpre : newReq.pre = newReq := by
      unfold RawReq.pre; rw [if_neg (by omega)]
    have hw2c : w2.cpuReq = w.cpuReq := by rw [hw2, hpre, post_cpuReq _ hnl, hnc]
    have hav : (givenBack info w).available.cpuMap = mapSub info.cap.cpuMap (mapSub info.use.cpuMap w.cpuMap) := rfl
    cases hg : getCPUPlans (givenBack info w) w.cpuMap B maxShare w2.toReq order with
    | err e => rw [hg] at h; cases h
    | panic m => rw [hg] at h; cases h
    | diverge => rw [hg] at h; cases h
    | ok ps =>
      rw [hg] at h
      cases ps with
      | nil => cases h
      | cons pl rest =>
        simp only [Outcome.ok.injEq] at h
        subst h
        obtain ⟨u1, u2⟩ := mapSub_spec info.use.cpuMap w.cpuMap huk hMk
        obtain ⟨a1, a2⟩ := mapSub_spec info.cap.cpuMap (mapSub info.use.cpuMap w.cpuMap) hck u1
        have hpieces : piecesRequest w2.toReq B = (w.cpuMap.length : Int) * B := by
          unfold piecesRequest RawReq.toReq
          simp only [hw2c, hreq.1]
          have e1 : ((w.cpuMap.length : Int) * 1000).toNat = w.cpuMap.length * 1000 := by omega
          rw [e1]
          have hBn : (B.toNat : Int) = B := Int.toNat_of_nonneg (by omega)
          have := Eru.Float64.piecesRound_exact' (w.cpuMap.length * 1000) 1000 B.toNat (w.cpuMap.length * B.toNat)
            (by omega) (Nat.mul_pos (by omega) (by omega)) (by
              have : ((w.cpuMap.length * B.toNat : Nat) : Int) ≤ 2 ^ 50 := by push_cast; rw [hBn]; exact hB2
              exact_mod_cast this) (by omega) (by ring)
          rw [this]; push_cast; rw [hBn]
        refine ⟨w2.toReq, pl, rest, hg, rfl, rfl, hpieces, by rw [hav]; exact a1, ?_⟩
        intro k hk
        obtain ⟨hcapk, husek⟩ := hlive k hk
        have hMg : w.cpuMap.get k = B := hMv _ (has_mem_get w.cpuMap k ((has_eq_mem_keys _ k).mpr hk))
        have hcg : info.cap.cpuMap.get k = B := by
          have hm := has_mem_get info.cap.cpuMap k hcapk
          unfold wholeCoreNode at hwhole
          rw [List.all_eq_true] at hwhole
          have := hwhole _ hm
          simpa using this
        rw [hav]
        refine ⟨?_, has_mapSub _ _ k hcapk⟩
        rw [a2 k, u2 k, hcg, husek, hMg]
        simp only [isFull, Int.sub_self, Int.sub_zero, Int.le_refl, decide_true, Bool.true_and, decide_eq_true_eq]
        exact Int.tmod_self

/-- **affinity_keeps_partial**: the property holds on nodes without NUMA topology for whole-core
    workloads.  Guards (each explicit): no NUMA map; every core's capacity is one share `B`
    (`wholeCoreNode`); the workload's map has distinct keys, is non-empty and gives `B` pieces per core;
    its cores are used by it alone (`usage = B`, which `Validate` forces on a whole-core node once the
    workload lives there); its recorded CPU request is its number of cores (C05) with limit = request.
    Excluded on purpose: bound workloads recorded with limit 0 or limit ≠ request — `Validate` then
    rewrites the request (limit 0: unchanged request but the limit stays 0; limit > request: the request
    is raised to the limit, i.e. the CPU amount *changes*, which is outside "no CPU change"); the fixed
    code records request = limit for every bound deployment, so such records only come from elsewhere. -/
theorem affinity_keeps_partial (info : NodeInfo) (B maxShare : Int) (w : Workload) (dm : Int) (w' : Workload)
    (hB : 1 ≤ B) (hB2 : (w.cpuMap.length : Int) * B ≤ 2 ^ 50)
    (hck : info.cap.cpuMap.keys.Nodup) (huk : info.use.cpuMap.keys.Nodup) (hnuma : info.cap.numa = [])
    (hwhole : wholeCoreNode B info = true)
    (hMk : w.cpuMap.keys.Nodup) (hM1 : w.cpuMap ≠ []) (hMv : ∀ kv ∈ w.cpuMap, kv.2 = B) (hwn : w.numa = "")
    (hlive : ∀ k ∈ w.cpuMap.keys, info.cap.cpuMap.has k = true ∧ info.use.cpuMap.get k = B)
    (hreq : w.cpuReq = (w.cpuMap.length : Int) * 1000 ∧ w.cpuLim = w.cpuReq)
    (h : calculateRealloc info B maxShare w (keepReq dm) [] = .ok w') :
    mapEq w'.cpuMap w.cpuMap = true ∧ w'.numa = w.numa := by
  obtain ⟨req, pl, rest, hg, e1, e2, hpieces, hak, hfull⟩ :=
    realloc_keep_reduce info B maxShare w dm [] w' hB hB2 hck huk hwhole hMk hM1 hMv hlive hreq h
  -- non-NUMA: the plan list is the cross-NUMA group
  unfold getCPUPlans at hg
  have hcap' : (givenBack info w).cap = info.cap := rfl
  rw [if_neg (by omega), hcap', hnuma] at hg
  simp only [numaLoop, List.nil_append] at hg
  split at hg
  · rename_i cross hcr
    cases cross with
    | nil => simp at hg
    | cons c cs =>
      simp only [List.map_cons, Outcome.ok.injEq, List.cons.injEq] at hg
      obtain ⟨hpl, _⟩ := hg
      subst hpl
      rw [e1, e2]
      refine ⟨?_, hwn.symm⟩
      exact doGet_affinity_keeps w.cpuMap _ _ B hB maxShare req hMk hM1 hMv hak hfull hpieces c cs hcr
  all_goals cases hg

theorem numaLoop_tags (origin : CpuMap) (numa : List (String × String)) (avail0 : CpuMap) (B maxShare : Int) (req : Req)
    (order : List String) (avail : NodeRes) (acc acc' : List CpuPlan) (avail' : NodeRes)
    (h : numaLoop origin numa avail0 B maxShare req order avail acc = .ok (acc', avail')) :
    ∃ new, acc' = acc ++ new ∧ ∀ pl ∈ new, pl.numa ∈ order := by
  induction order generalizing avail acc with
  | nil => simp only [numaLoop] at h; cases h; exact ⟨[], by simp, by simp⟩
  | cons node rest ih =>
    simp only [numaLoop] at h
    split at h
    · rename_i plans _
      obtain ⟨new, e, ht⟩ := ih _ _ h
      refine ⟨(plans.map fun p => ⟨node, p⟩) ++ new, by rw [e, List.append_assoc], ?_⟩
      intro pl hpl
      rcases List.mem_append.mp hpl with hm | hm
      · obtain ⟨p, _, rfl⟩ := List.mem_map.mp hm; simp
      · exact List.mem_cons_of_mem _ (ht pl hm)
    all_goals cases h

/-- **affinity_keeps_numa** (the proved part widened to NUMA nodes): a whole-core workload all of whose
    cores lie in its NUMA node `w.numa`, when Go's map iteration happens to visit that NUMA node FIRST
    (`order = w.numa :: rest`, the hypothesis that D23b is about) — if the unchanged keep-bind
    re-allocation stays on the NUMA node, it stays on exactly the same cores.  (Whether it stays on the
    node also depends on the node's free NUMA memory for a positive memory delta.) -/
theorem affinity_keeps_numa (info : NodeInfo) (B maxShare : Int) (w : Workload) (dm : Int) (rest : List String) (w' : Workload)
    (hB : 1 ≤ B) (hB2 : (w.cpuMap.length : Int) * B ≤ 2 ^ 50)
    (hck : info.cap.cpuMap.keys.Nodup) (huk : info.use.cpuMap.keys.Nodup) (hnk : (info.cap.numa.map (·.1)).Nodup)
    (hwhole : wholeCoreNode B info = true)
    (hMk : w.cpuMap.keys.Nodup) (hM1 : w.cpuMap ≠ []) (hMv : ∀ kv ∈ w.cpuMap, kv.2 = B)
    (hwn : w.numa ≠ "") (hloc : ∀ k ∈ w.cpuMap.keys, (k, w.numa) ∈ info.cap.numa) (hnr : w.numa ∉ rest)
    (hlive : ∀ k ∈ w.cpuMap.keys, info.cap.cpuMap.has k = true ∧ info.use.cpuMap.get k = B)
    (hreq : w.cpuReq = (w.cpuMap.length : Int) * 1000 ∧ w.cpuLim = w.cpuReq)
    (h : calculateRealloc info B maxShare w (keepReq dm) (w.numa :: rest) = .ok w') (hsame : w'.numa = w.numa) :
    mapEq w'.cpuMap w.cpuMap = true := by
  obtain ⟨req, pl, rest', hg, e1, e2, hpieces, hak, hfull⟩ :=
    realloc_keep_reduce info B maxShare w dm (w.numa :: rest) w' hB hB2 hck huk hwhole hMk hM1 hMv hlive hreq h
  rw [e1]
  rw [e2] at hsame
  have hcap' : (givenBack info w).cap = info.cap := rfl
  unfold getCPUPlans at hg
  rw [if_neg (by omega), hcap'] at hg
  -- the first group is the workload's NUMA node
  split at hg
  · rename_i acc av hl
    simp only [numaLoop] at hl
    split at hl
    · rename_i plans hp
      obtain ⟨new, eacc, htags⟩ := numaLoop_tags _ _ _ _ _ _ _ _ _ _ _ hl
      simp only [List.nil_append] at eacc
      split at hg
      · rename_i cross _
        simp only [Outcome.ok.injEq] at hg
        cases plans with
        | cons p ps0 =>
          -- the head of the result is the head of the first group
          rw [eacc] at hg
          simp only [List.map_cons, List.cons_append, List.cons.injEq] at hg
          obtain ⟨hpl, _⟩ := hg
          subst hpl
          simp only []
          apply doGet_affinity_keeps w.cpuMap (numaCpuMap info.cap.numa (givenBack info w).available.cpuMap w.numa) _ B hB maxShare req
            hMk hM1 hMv (numaCpuMap_nodup _ _ _ hnk) ?_ hpieces p ps0 hp
          intro k hk
          have hno := numaOf_of_mem info.cap.numa hnk k w.numa (hloc k hk)
          obtain ⟨hf, _⟩ := hfull k hk
          refine ⟨?_, ?_⟩
          · rw [numaCpuMap_get _ hnk, if_pos hno]; exact hf
          · rw [has_eq_mem_keys, numaCpuMap_keys]
            exact List.mem_map.mpr ⟨(k, w.numa), List.mem_filter.mpr ⟨hloc k hk, by simp⟩, rfl⟩
        | nil =>
          -- an empty first group: every plan is tagged with a later node or untagged, contradiction
          exfalso
          rw [eacc] at hg
          simp only [List.map_nil, List.nil_append] at hg
          have hmem : pl ∈ new ++ cross.map (fun p => (⟨"", p⟩ : CpuPlan)) := by rw [hg]; exact List.mem_cons_self ..
          rcases List.mem_append.mp hmem with hm | hm
          · exact hnr (hsame ▸ htags pl hm)
          · obtain ⟨c, _, rfl⟩ := List.mem_map.mp hm
            exact hwn hsame.symm
      all_goals cases hg
    all_goals cases hl
  all_goals cases hg

/-- `affinity_keeps_numa`'s situation, concretely: a workload on core 2 of NUMA node n1, n1 visited first -/
example : calculateRealloc
    { cap := { cpuMap := [("0",100),("1",100),("2",100),("3",100)], mem := 1000, numaMem := [("n0",500),("n1",500)],
               numa := [("0","n0"),("1","n0"),("2","n1"),("3","n1")] },
      use := { cpuMap := [("0",0),("1",0),("2",100),("3",0)], mem := 10, numaMem := [("n0",0),("n1",10)] } } 100 (-1)
    { cpuReq := 1000, cpuLim := 1000, memReq := 10, memLim := 10, cpuMap := [("2",100)], numa := "n1", numaMem := [("n1",10)] }
    (keepReq 0) ["n1", "n0"]
    = .ok { cpuReq := 1000, cpuLim := 1000, memReq := 10, memLim := 10, cpuMap := [("2",100)], numa := "n1", numaMem := [("n1",10)] } := by decide

/-- the guards are satisfiable: a two-core workload on a four-core node keeps its cores -/
example : calculateRealloc
    { cap := { cpuMap := [("0",100),("1",100),("2",100),("3",100)], mem := 1000 },
      use := { cpuMap := [("0",0),("1",100),("2",100),("3",30)], mem := 10 } } 100 (-1)
    { cpuReq := 2000, cpuLim := 2000, memReq := 10, memLim := 10, cpuMap := [("2",100),("1",100)] } (keepReq 5) []
    = .ok { cpuReq := 2000, cpuLim := 2000, memReq := 15, memLim := 15, cpuMap := [("1",100),("2",100)] } := by decide

end Eru.Props.C33
