import Eru.CpuMem.ProofsAffinity
import Eru.CpuMem.ProofsFloat
/-
C33 — re-allocating a bound workload without change keeps its cores.
-/
namespace Eru.Props.C33
open Eru Eru.CpuMem

/-- the keep-bind request with zero CPU delta and memory delta `dm` -/
def keepReq (dm : Int) : RawReq := { bind := false, keepBind := true, cpuReq := 0, cpuLim := 0, memReq := dm, memLim := dm }

/-- the workload lives on the node: its cores exist and the node's usage includes its pieces -/
def LivesOn (info : NodeInfo) (w : Workload) : Prop :=
  ∀ k ∈ w.cpuMap.keys, info.cap.cpuMap.has k = true ∧ w.cpuMap.get k ≤ info.use.cpuMap.get k

/-- the recorded CPU request agrees with the pieces held (C05) -/
def RecordedAgrees (B : Int) (w : Workload) : Prop :=
  piecesRequest { bind := true, cpuNum := w.cpuReq.toNat, cpuDen := 1000, mem := 0 } B = planTotal w.cpuMap

/-- full statement of the property: on a whole-core node, for a bound workload that lives on the node
    and whose recorded request agrees with its pieces, whenever the unchanged keep-bind re-allocation
    succeeds, it keeps cores and NUMA node -/
def PropC33 : Prop :=
  ∀ (info : NodeInfo) (B maxShare : Int) (w : Workload) (dm : Int) (order : List String) (w' : Workload),
    1 ≤ B → (maxShare = -1 ∨ 1 ≤ maxShare) → info.validate = true → wholeCoreNode B info = true →
    w.cpuMap ≠ [] → LivesOn info w → RecordedAgrees B w →
    calculateRealloc info B maxShare w (keepReq dm) order = .ok w' →
    mapEq w'.cpuMap w.cpuMap = true ∧ w'.numa = w.numa

def witnessNode : NodeInfo :=
  { cap := { cpuMap := [("0",100),("1",100)], mem := 1000 }, use := { cpuMap := [("0",100),("1",50)], mem := 10 } }
def witnessWorkload : Workload :=
  { cpuReq := 1500, cpuLim := 1500, memReq := 10, memLim := 10, cpuMap := [("0",100),("1",50)] }

/-- D23: the workload {0:100, 1:50} is moved to {1:100, 0:50} (replayed on the real code by the
    harness corpus) -/
theorem affinity_keeps_counterexample : ¬ PropC33 := by
  intro h
  have := h witnessNode 100 (-1) witnessWorkload 0 []
    { cpuReq := 1500, cpuLim := 1500, memReq := 10, memLim := 10, cpuMap := [("1",100),("0",50)] }
    (by decide) (by decide) (by decide) (by decide) (by decide) (by unfold LivesOn; decide) (by unfold RecordedAgrees; decide) (by decide)
  revert this
  decide


/-! ### the proved part -/

/-- a request carrying both `keep-cpu-bind` and `cpu-bind` is the same keep-bind request: the explicit
    `cpu-bind` flag has no influence on `CalculateRealloc` once `keep-cpu-bind` is set -/
theorem keep_bind_ignores_bind_flag (info : NodeInfo) (B maxShare : Int) (w : Workload) (raw : RawReq) (b : Bool)
    (order : List String) (hk : raw.keepBind = true) :
    calculateRealloc info B maxShare w { raw with bind := b } order = calculateRealloc info B maxShare w raw order := by
  unfold calculateRealloc reallocReq reallocBind reallocExact
  simp only [hk, if_true]


theorem post_bind (w : RawReq) : w.post.bind = w.bind := by
  unfold RawReq.post
  dsimp only
  repeat' split
  all_goals rfl

theorem post_cpuReq (w : RawReq) (h : w.cpuLim = w.cpuReq) : w.post.cpuReq = w.cpuReq := by
  unfold RawReq.post
  dsimp only
  repeat' split
  all_goals (first | rfl | (simp_all; try omega) | omega)

theorem has_mapSub (c p : Eru.Plan) (k : String) (h : c.has k = true) : (mapSub c p).has k = true := by
  unfold mapSub
  induction p generalizing c with
  | nil => simpa using h
  | cons kv rest ih =>
    simp only [List.foldl_cons]
    exact ih _ (by rw [Plan.has_add]; simp [h])

/-- **affinity_keeps_partial**: the property holds on nodes without NUMA topology for whole-core
    workloads.  Guards (each explicit): no NUMA map; every core's capacity is one share `B`
    (`wholeCoreNode`); the workload's map has distinct keys, is non-empty and gives `B` pieces per core;
    its cores are used by it alone (`usage = B`, which `Validate` forces on a whole-core node once the
    workload lives there); its recorded CPU request is its number of cores (C05) with limit = request.
    Excluded on purpose: bound workloads recorded with limit 0 or limit ≠ request — `Validate` then
    rewrites the request (limit 0: unchanged request but the limit stays 0; limit > request: the request
    is raised to the limit, i.e. the CPU amount *changes*, which is outside "no CPU change"); the fixed
    code records request = limit for every bound deployment, so such records only come from elsewhere. -/
theorem affinity_keeps_partial (info : NodeInfo) (B maxShare : Int) (w : Workload) (dm : Int) (w' : Workload)
    (hB : 1 ≤ B) (hB2 : (w.cpuMap.length : Int) * B ≤ 2 ^ 50)
    (hck : info.cap.cpuMap.keys.Nodup) (huk : info.use.cpuMap.keys.Nodup) (hnuma : info.cap.numa = [])
    (hwhole : wholeCoreNode B info = true)
    (hMk : w.cpuMap.keys.Nodup) (hM1 : w.cpuMap ≠ []) (hMv : ∀ kv ∈ w.cpuMap, kv.2 = B) (hwn : w.numa = "")
    (hlive : ∀ k ∈ w.cpuMap.keys, info.cap.cpuMap.has k = true ∧ info.use.cpuMap.get k = B)
    (hreq : w.cpuReq = (w.cpuMap.length : Int) * 1000 ∧ w.cpuLim = w.cpuReq)
    (h : calculateRealloc info B maxShare w (keepReq dm) [] = .ok w') :
    mapEq w'.cpuMap w.cpuMap = true ∧ w'.numa = w.numa := by
  have hlenM : 1 ≤ w.cpuMap.length := by
    cases hm : w.cpuMap with
    | nil => exact absurd hm hM1
    | cons _ _ => simp
  have hne : w.cpuMap.isEmpty = false := by
    cases hm : w.cpuMap with
    | nil => exact absurd hm hM1
    | cons _ _ => rfl
  unfold calculateRealloc at h
  rw [if_neg (by simp [reallocExact, keepReq])] at h
  unfold reallocCore reallocReq reallocBind givenBack keepReq at h
  simp only [hne, Bool.not_false, if_true, Int.zero_add] at h
  -- request validation
  generalize hnr : ({ bind := true, cpuReq := w.cpuReq, cpuLim := w.cpuLim, memReq := dm + w.memReq, memLim := dm + w.memLim } : RawReq) = newReq at h
  have hnb : newReq.bind = true := by rw [← hnr]
  have hnc : newReq.cpuReq = w.cpuReq := by rw [← hnr]
  have hnl : newReq.cpuLim = newReq.cpuReq := by rw [← hnr]; exact hreq.2
  have hcpos : 0 < w.cpuReq := by rw [hreq.1]; omega
  cases hv : newReq.validate with
  | err e => rw [hv] at h; cases h
  | panic m => rw [hv] at h; cases h
  | diverge => rw [hv] at h; cases h
  | ok w2 =>
    rw [hv] at h
    simp only [] at h
    have hw2 : w2 = newReq.pre.post := by
      unfold RawReq.validate at hv
      split at hv
      · cases hv
      · split at hv
        · cases hv
        · split at hv
          · cases hv
          · exact (Outcome.ok.inj hv).symm
    have hpre : newReq.pre = newReq := by
      unfold RawReq.pre; rw [if_neg (by omega)]
    have hw2b : w2.bind = true := by rw [hw2, post_bind, hpre, hnb]
    have hw2c : w2.cpuReq = w.cpuReq := by rw [hw2, hpre, post_cpuReq _ hnl, hnc]
    -- the scheduler call
    generalize hi' : ({ cap := info.cap, use := info.use.sub { cpuMap := w.cpuMap, mem := w.memReq, numaMem := w.numaMem } } : NodeInfo) = info' at h
    have hcap' : info'.cap = info.cap := by rw [← hi']
    have hav : info'.available.cpuMap = mapSub info.cap.cpuMap (mapSub info.use.cpuMap w.cpuMap) := by
      rw [← hi']; rfl
    cases hg : getCPUPlans info' w.cpuMap B maxShare w2.toReq [] with
    | err e => rw [hg] at h; cases h
    | panic m => rw [hg] at h; cases h
    | diverge => rw [hg] at h; cases h
    | ok ps =>
      rw [hg] at h
      cases ps with
      | nil => cases h
      | cons pl rest =>
        simp only [Outcome.ok.injEq] at h
        subst h
        simp only []
        -- non-NUMA: the plan list is the cross-NUMA group
        unfold getCPUPlans at hg
        rw [if_neg (by omega), hcap', hnuma] at hg
        simp only [numaLoop, List.nil_append] at hg
        split at hg
        · rename_i cross hcr
          cases cross with
          | nil => simp at hg
          | cons c cs =>
            simp only [List.map_cons, Outcome.ok.injEq, List.cons.injEq] at hg
            obtain ⟨hpl, _⟩ := hg
            subst hpl
            simp only []
            refine ⟨?_, hwn.symm⟩
            -- hypotheses of the affinity argument
            obtain ⟨u1, u2⟩ := mapSub_spec info.use.cpuMap w.cpuMap huk hMk
            obtain ⟨a1, a2⟩ := mapSub_spec info.cap.cpuMap (mapSub info.use.cpuMap w.cpuMap) hck u1
            have hpieces : piecesRequest w2.toReq B = (w.cpuMap.length : Int) * B := by
              unfold piecesRequest RawReq.toReq
              simp only [hw2c, hreq.1]
              have e1 : ((w.cpuMap.length : Int) * 1000).toNat = w.cpuMap.length * 1000 := by omega
              rw [e1]
              have hBn : (B.toNat : Int) = B := Int.toNat_of_nonneg (by omega)
              have := Eru.Float64.piecesRound_exact' (w.cpuMap.length * 1000) 1000 B.toNat (w.cpuMap.length * B.toNat)
                (by omega) (Nat.mul_pos (by omega) (by omega)) (by
                  have : ((w.cpuMap.length * B.toNat : Nat) : Int) ≤ 2 ^ 50 := by push_cast; rw [hBn]; exact hB2
                  exact_mod_cast this) (by omega) (by ring)
              rw [this]; push_cast; rw [hBn]
            apply doGet_affinity_keeps w.cpuMap info'.available.cpuMap info'.available.mem B hB maxShare w2.toReq
              hMk hM1 hMv (by rw [hav]; exact a1) ?_ hpieces c cs hcr
            intro k hk
            obtain ⟨hcapk, husek⟩ := hlive k hk
            have hMg : w.cpuMap.get k = B := hMv _ (has_mem_get w.cpuMap k ((has_eq_mem_keys _ k).mpr hk))
            have hcg : info.cap.cpuMap.get k = B := by
              have hm := has_mem_get info.cap.cpuMap k hcapk
              unfold wholeCoreNode at hwhole
              rw [List.all_eq_true] at hwhole
              have := hwhole _ hm
              simpa using this
            rw [hav]
            refine ⟨?_, has_mapSub _ _ k hcapk⟩
            rw [a2 k, u2 k, hcg, husek, hMg]
            simp only [isFull, Int.sub_self, Int.sub_zero, Int.le_refl, decide_true, Bool.true_and, decide_eq_true_eq]
            exact Int.tmod_self
        all_goals cases hg

/-- the guards are satisfiable: a two-core workload on a four-core node keeps its cores -/
example : calculateRealloc
    { cap := { cpuMap := [("0",100),("1",100),("2",100),("3",100)], mem := 1000 },
      use := { cpuMap := [("0",0),("1",100),("2",100),("3",30)], mem := 10 } } 100 (-1)
    { cpuReq := 2000, cpuLim := 2000, memReq := 10, memLim := 10, cpuMap := [("2",100),("1",100)] } (keepReq 5) []
    = .ok { cpuReq := 2000, cpuLim := 2000, memReq := 15, memLim := 15, cpuMap := [("1",100),("2",100)] } := by decide

end Eru.Props.C33
