import Eru.CpuMem.Spec
/-
C33 — re-allocating a bound workload without change keeps its cores.
-/
namespace Eru.Props.C33
open Eru Eru.CpuMem

/-- the keep-bind request with zero CPU delta and memory delta `dm` -/
def keepReq (dm : Int) : RawReq := { bind := false, keepBind := true, cpuReq := 0, cpuLim := 0, memReq := dm, memLim := dm }

/-- full statement of the property: on a whole-core node, whenever the unchanged keep-bind
    re-allocation of a bound workload living on the node succeeds, it keeps cores and NUMA node -/
def PropC33 : Prop :=
  ∀ (info : NodeInfo) (B maxShare : Int) (w : Workload) (dm : Int) (order : List String) (w' : Workload),
    1 ≤ B → (maxShare = -1 ∨ 1 ≤ maxShare) → info.validate = true → wholeCoreNode B info = true →
    w.cpuMap ≠ [] →
    calculateRealloc info B maxShare w (keepReq dm) order = .ok w' →
    mapEq w'.cpuMap w.cpuMap = true ∧ w'.numa = w.numa

def witnessNode : NodeInfo :=
  { cap := { cpuMap := [("0",100),("1",100)], mem := 1000 }, use := { cpuMap := [("0",100),("1",50)], mem := 10 } }
def witnessWorkload : Workload :=
  { cpuReq := 1500, cpuLim := 1500, memReq := 10, memLim := 10, cpuMap := [("0",100),("1",50)] }

/-- D23: the workload {0:100, 1:50} is moved to {1:100, 0:50} (replayed on the real code by the
    harness corpus) -/
theorem affinity_keeps_counterexample : ¬ PropC33 := by
  intro h
  have := h witnessNode 100 (-1) witnessWorkload 0 []
    { cpuReq := 1500, cpuLim := 1500, memReq := 10, memLim := 10, cpuMap := [("1",100),("0",50)] }
    (by decide) (by decide) (by decide) (by decide) (by decide) (by decide)
  revert this
  decide

end Eru.Props.C33
