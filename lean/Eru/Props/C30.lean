import Eru.Cluster2.ProofsLambda
/-
C30 — run-and-wait workloads are always cleaned up.
Model: `Eru/Cluster2/Lambda.lean` (`cluster/calcium/lambda.go`).  All theorems quantify over
every outcome vector `sc : Script` of (logs, attach, wait, exit code) and over stdin on/off.
The only guard is `sc.walLog = true` (the `create-lambda` event could be logged): if logging
fails the code returns before installing the deferred removal — see `unlogged_not_removed`.

Partial / observations (outside the quantifier of C30, which ranges over logs / attach / wait /
exit-code outcomes): the model's `removeSync` always succeeds.  In the code `doRemoveWorkloadSync`
ignores failed removal messages ("TODO deal with failed") and returns nil, and the deferred
commit then erases the `create-lambda` event: a failing engine/store removal leaks the workload
with no WAL entry left to retry it.
-/
namespace Eru.Props.C30
open Eru.Cluster (ResAlg)
open Eru.Cluster2
variable {R : Type} [ResAlg R]

/-- record, container and usage of a started workload are gone when its worker returns,
whatever the engine did; the other nodes' and workloads' bookkeeping stays consistent -/
theorem lambda_removed (stdin : Bool) (id : Nat) (sc : Script) (s : LSt R)
    (hlog : sc.walLog = true) (hrec : recorded s.base id = true)
    (hc : Consistent s.base) (hn : (s.base.wls.map (·.id)).Nodup) :
    let s' := (lambdaOne stdin (.ok id) sc s).1
    recorded s'.base id = false ∧ hasCt s'.base id = false ∧ Consistent s'.base ∧
      (s'.base.wls.map (·.id)).Nodup := by
  simp only [lambdaOne, hlog, Bool.not_true, Bool.false_eq_true, if_false]
  refine ⟨?_, removeSync_hasCt id _ hrec, removeSync_consistent id _ hc hn, removeSync_nodup id _ hn⟩
  rw [removeSync_recorded]; simp

/-- the final message of a workload is the last one sent for it; everything before it is
forwarded output; it carries the workload's id -/
theorem final_message_last (stdin : Bool) (id : Nat) (sc : Script) (s : LSt R) (hlog : sc.walLog = true) :
    ∃ out fin, (lambdaOne stdin (.ok id) sc s).2 = out ++ [fin] ∧ fin.wid = id ∧
      (∀ m ∈ out, m = ⟨id, .data⟩) ∧ (fin.kind = .error ∨ ∃ c, fin.kind = .exit c) := by
  simp only [lambdaOne, hlog, Bool.not_true, Bool.false_eq_true, if_false]
  refine ⟨_, _, rfl, (lambdaBody_fin_wid _ _ _ _).1, (lambdaBody_fin_wid _ _ _ _).2, ?_⟩
  unfold lambdaBody
  split
  · left; rfl
  · cases sc.logs with
    | none => left; rfl
    | some k =>
      simp only
      split
      · left; rfl
      · cases sc.wait with
        | none => left; rfl
        | some c => right; exact ⟨c, rfl⟩

/-- when logs, (attach) and wait succeed, the messages of the workload are its `k` output
lines followed by exactly the exit code returned by the engine -/
theorem exit_code_last (stdin : Bool) (id : Nat) (sc : Script) (s : LSt R) (k : Nat) (c : Int)
    (hlog : sc.walLog = true) (hrec : recorded s.base id = true) (hl : sc.logs = some k)
    (ha : stdin = true → sc.attach = true) (hw : sc.wait = some c) (hctx : sc.ctxDeadAtStart = false) :
    (lambdaOne stdin (.ok id) sc s).2 = List.replicate k ⟨id, .data⟩ ++ [⟨id, .exit c⟩] := by
  have hrec' : recorded ({ s with lam := s.lam ++ [id] } : LSt R).base id = true := hrec
  have ha' : (stdin && !sc.attach) = false := by
    cases stdin with
    | false => rfl
    | true => simp [ha rfl]
  simp [lambdaOne, hlog, lambdaBody, hrec', hl, ha', hw, hctx]

/-- the `create-lambda` event is committed when the worker returns -/
theorem lambda_wal_committed (stdin : Bool) (id : Nat) (sc : Script) (s : LSt R)
    (hlog : sc.walLog = true) (hfresh : id ∉ s.lam) :
    (lambdaOne stdin (.ok id) sc s).1.lam = s.lam := by
  simp only [lambdaOne, hlog, Bool.not_true, Bool.false_eq_true, if_false]
  exact erase_append_self s.lam id hfresh

theorem lambdaOne_done (stdin : Bool) (cm : CreateMsg) (sc : Script) (s : LSt R) :
    (lambdaOne stdin cm sc s).1.done = s.done + 1 := by
  unfold lambdaOne
  cases cm with
  | failed => rfl
  | ok id => cases sc.walLog <;> rfl

/-- every worker calls `wg.Done` exactly once, whatever happens: the output stream closes.
TRUE BY CONSTRUCTION of the model (each branch of `lambdaOne` increments `done` once; Go's
`defer wg.Done()` is the first deferred call of the worker); the real claim — the channel closes
for every script — is what the harness checks with its 15 s deadline (`C30:stream-not-closed`). -/
theorem stream_closes (stdin : Bool) (cms : List (CreateMsg × Script)) (s : LSt R) :
    streamCloses stdin cms s = true := by
  unfold streamCloses
  have key : ∀ (cms : List (CreateMsg × Script)) (s : LSt R), (runAll stdin cms s).1.done = s.done + cms.length := by
    intro cms
    induction cms with
    | nil => intro s; rfl
    | cons x rest ih =>
      intro s
      obtain ⟨cm, sc⟩ := x
      simp only [runAll, ih, lambdaOne_done, List.length_cons]; omega
  simp [key]

/-- a worker never records anything -/
theorem lambdaOne_recorded_le (stdin : Bool) (cm : CreateMsg) (sc : Script) (s : LSt R) (j : Nat)
    (h : recorded (lambdaOne stdin cm sc s).1.base j = true) : recorded s.base j = true := by
  unfold lambdaOne at h
  cases cm with
  | failed => exact h
  | ok id =>
    cases hl : sc.walLog with
    | false => simpa [hl] using h
    | true =>
      simp only [hl, Bool.not_true, Bool.false_eq_true, if_false] at h
      rw [removeSync_recorded] at h
      simp only [Bool.and_eq_true] at h; exact h.1

/-- **All of run-and-wait**: once the stream has closed, no workload that was started and
logged is recorded any more -/
theorem run_all_removed (stdin : Bool) (cms : List (CreateMsg × Script)) (s : LSt R) (id : Nat) (sc : Script)
    (hmem : (CreateMsg.ok id, sc) ∈ cms) (hlog : sc.walLog = true) :
    recorded (runAll stdin cms s).1.base id = false := by
  have mono : ∀ (cms : List (CreateMsg × Script)) (s : LSt R), recorded s.base id = false →
      recorded (runAll stdin cms s).1.base id = false := by
    intro cms
    induction cms with
    | nil => intro s h; exact h
    | cons x rest ih =>
      intro s h
      obtain ⟨cm, sc⟩ := x
      apply ih
      cases hr : recorded (lambdaOne stdin cm sc s).1.base id with
      | false => rfl
      | true => rw [lambdaOne_recorded_le stdin cm sc s id hr] at h; cases h
  induction cms generalizing s with
  | nil => cases hmem
  | cons x rest ih =>
    rcases List.mem_cons.mp hmem with h | h
    · subst h
      show recorded (runAll stdin rest (lambdaOne stdin (.ok id) sc s).1).1.base id = false
      apply mono
      simp only [lambdaOne, hlog, Bool.not_true, Bool.false_eq_true, if_false]
      rw [removeSync_recorded]; simp
    · obtain ⟨cm, sc'⟩ := x
      exact ih _ h

/-! ### the whole run (`runAll`, workers with distinct ids) -/

/-- **After the stream has closed**: record and container of EVERY started workload are gone,
usage equals the sum of the remaining records on every node -/
theorem run_all_clean (stdin : Bool) (cms : List (CreateMsg × Script)) (s : LSt R)
    (hnd : (okIds cms).Nodup) (hlog : ∀ p ∈ cms, p.2.walLog = true) (hc : Consistent s.base)
    (hn : (s.base.wls.map (·.id)).Nodup) (hrec : ∀ i ∈ okIds cms, recorded s.base i = true) :
    (∀ i ∈ okIds cms, recorded (runAll stdin cms s).1.base i = false ∧ hasCt (runAll stdin cms s).1.base i = false) ∧
      Consistent (runAll stdin cms s).1.base :=
  let h := runAll_clean stdin cms s hnd hlog hc hn hrec
  ⟨h.1, h.2.1⟩

/-- every `create-lambda` event logged by the run has been committed -/
theorem run_all_wal_committed (stdin : Bool) (cms : List (CreateMsg × Script)) (s : LSt R)
    (hnd : (okIds cms).Nodup) (hlog : ∀ p ∈ cms, p.2.walLog = true) (hfr : ∀ i ∈ okIds cms, i ∉ s.lam) :
    (runAll stdin cms s).1.lam = s.lam :=
  runAll_wal_committed stdin cms s hnd hlog hfr

/-- within the interleaved stream, the messages of each workload (`msgsOf`) are exactly its output
lines followed by its exit code, whenever logs, (attach) and wait succeed -/
theorem run_all_exit_code_last (stdin : Bool) (cms : List (CreateMsg × Script)) (s : LSt R) (id : Nat) (sc : Script)
    (k : Nat) (c : Int) (hnd : (okIds cms).Nodup) (h0 : 0 ∉ okIds cms) (hmem : (CreateMsg.ok id, sc) ∈ cms)
    (hlog : sc.walLog = true) (hrec : recorded s.base id = true) (hl : sc.logs = some k)
    (ha : stdin = true → sc.attach = true) (hw : sc.wait = some c) (hctx : sc.ctxDeadAtStart = false) :
    msgsOf id (runAll stdin cms s).2 = List.replicate k ⟨id, .data⟩ ++ [⟨id, .exit c⟩] := by
  rw [runAll_msgs stdin cms s id sc hnd h0 hmem]
  exact exit_code_last stdin id sc s k c hlog hrec hl ha hw hctx

/-- in every outcome the last message of a workload within the stream is its final message -/
theorem run_all_final_message_last (stdin : Bool) (cms : List (CreateMsg × Script)) (s : LSt R) (id : Nat) (sc : Script)
    (hnd : (okIds cms).Nodup) (h0 : 0 ∉ okIds cms) (hmem : (CreateMsg.ok id, sc) ∈ cms) (hlog : sc.walLog = true) :
    ∃ out fin, msgsOf id (runAll stdin cms s).2 = out ++ [fin] ∧ fin.wid = id ∧
      (∀ m ∈ out, m = ⟨id, .data⟩) ∧ (fin.kind = .error ∨ ∃ c, fin.kind = .exit c) := by
  rw [runAll_msgs stdin cms s id sc hnd h0 hmem]
  exact final_message_last stdin id sc s hlog

/-- **Cleanup does not depend on how the request context ended nor on stdin.**  Whether the
caller's context is still live, was CANCELLED, or its DEADLINE EXPIRED while the workload ran
(gRPC deadline, AsyncTimeout), and whether the client still holds stdin open when the output
ends: the worker reaches the same state (removal and commit run under a context detached from
both cancellation and deadline; the end of the output does not wait for the stdin forwarder)
and sends the same messages. -/
theorem cleanup_independent_of_request_context (stdin : Bool) (cm : CreateMsg) (sc : Script) (s : LSt R)
    (e : CtxEnd) (open_ : Bool) :
    lambdaOne stdin cm { sc with ctxEnd := e, stdinOpen := open_ } s = lambdaOne stdin cm sc s := by
  cases cm with
  | failed => rfl
  | ok id => simp [lambdaOne, lambdaBody]

/-- **The gRPC forwarding loop drains the stream whatever `Send` returns**: every message produced
by the workers is consumed (delivered or logged as unsent), in order — so all workers run to
their deferred removal and commit, and `run_all_clean` / `run_all_wal_committed` apply to
run-and-wait through the RPC layer with a client that disappears at any point. -/
theorem rpc_forward_drains (send : Msg → Bool) (ms : List Msg) :
    (rpcForward send ms).1.length + (rpcForward send ms).2.length = ms.length ∧
    (rpcForward send ms).1 = ms.filter send ∧ (rpcForward send ms).2 = ms.filter (fun m => !send m) := by
  induction ms with
  | nil => exact ⟨rfl, rfl, rfl⟩
  | cons m rest ih =>
    obtain ⟨h1, h2, h3⟩ := ih
    cases hs : send m
    · refine ⟨?_, ?_, ?_⟩
      · simp only [rpcForward, hs, Bool.false_eq_true, if_false, List.length_cons]; omega
      · simp [rpcForward, hs, h2]
      · simp [rpcForward, hs, h3]
    · refine ⟨?_, ?_, ?_⟩
      · simp only [rpcForward, hs, if_true, List.length_cons]; omega
      · simp [rpcForward, hs, h2]
      · simp [rpcForward, hs, h3]

/-- Observation outside the quantifier of C30: if `wal.Log(create-lambda)` itself fails, the
worker returns before the removal is installed — the workload stays. -/
theorem unlogged_not_removed (stdin : Bool) (id : Nat) (sc : Script) (s : LSt R) (hlog : sc.walLog = false) :
    (lambdaOne stdin (.ok id) sc s).1.base = s.base ∧ (lambdaOne stdin (.ok id) sc s).2 = [⟨id, .error⟩] := by
  simp [lambdaOne, hlog]

/-! non-vacuity -/
def exS : LSt Int :=
  { base := { usage := fun n => if n = "n1" then 5 else 0, wls := [⟨1, "n1", 5⟩], cts := [⟨1, "n1", true⟩] } }
theorem exS_consistent : Consistent exS.base := by
  intro n
  by_cases h : "n1" = n
  · subst h; simp [exS, load, loadL, ResAlg.zero]
  · have h' : ¬ n = "n1" := fun e => h e.symm
    simp [exS, load, loadL, h, h', ResAlg.zero]
example : recorded exS.base 1 = true := by decide

end Eru.Props.C30
