import Eru.Store.ProofsDeploy
import Eru.Store.ProofsKV
import Eru.Store.ProofsDeployRef
/-
C13 (store side) — deploy-status counts and in-progress markers.

Per (app, entrypoint, node) the store keeps the recorded workloads (`/deploy/...` keys) and the
in-progress markers (`/processing/.../{ident}` ↦ remaining); `GetDeployStatus` reports
`recorded + Σ markers`.  `Eru.Store.Deploy` is the transition system of that triple under the
store operations a deployment issues (marker created with the planned count, workload added
*and* marker decremented in one atomic step, rollbacks, marker deleted on return), for any
number of interleaved deployments.  Theorems: at every step of every such sequence
`recorded ≤ status ≤ prior + planned` (in fact `status = prior + planned`), and once no
deployment is running `status = recorded` and no marker remains.  The atomicity of
add-and-decrement in the reference store is `add_with_marker_atomic`.
The cluster-level part (observing the real `GetDeployStatus` at every step of a real
deployment) is wired by the cluster group on top of the same predicates
(`Eru.Store.withinBounds`, `statusExact`).
-/
namespace Eru.Props.C13
open Eru.Store Eru.Store.Deploy

theorem enabled_take (s : DSt) (ops : List DOp) (he : Enabled s ops) (k : Nat) : Enabled s (ops.take k) := by
  induction ops generalizing s k with
  | nil => simp [Enabled]
  | cons op t ih =>
    cases k with
    | zero => simp [Enabled]
    | succ k => exact ⟨he.1, ih _ he.2 k⟩

/-- **deploy_status_bounds**: at every step (after every prefix) of every admissible sequence of
    marker creations, atomic add-and-decrements, plain adds, removals and marker deletions —
    any number of deployments interleaved, failures at any instance (fewer adds than planned) —
    the reported count is at least the recorded workloads and at most prior + planned. -/
theorem deploy_status_bounds (ops : List DOp) (he : Enabled {} ops) (k : Nat) :
    let s := DSt.run {} (ops.take k)
    withinBounds s.recorded s.status s.cap.prior s.cap.planned = true :=
  inv_bounds (inv_run inv_init _ (enabled_take _ _ he k))

/-- the upper bound is tight: status = prior + planned -/
theorem deploy_status_exact (ops : List DOp) (he : Enabled {} ops) :
    (DSt.run {} ops).status = (DSt.run {} ops).cap.prior + (DSt.run {} ops).cap.planned :=
  inv_status (inv_run inv_init _ he)

/-- **deploy_after_return**: once every deployment has deleted its marker the count equals the
    number of recorded workloads and no marker remains. -/
theorem deploy_after_return (ops : List DOp) (he : Enabled {} ops)
    (hidle : (DSt.run {} ops).cap.active = []) :
    (DSt.run {} ops).status = (DSt.run {} ops).recorded ∧ (DSt.run {} ops).markers = [] :=
  inv_idle (inv_run inv_init _ he) hidle

/-- the hypotheses are satisfiable by a non-trivial run: one prior workload, a deployment of 3
    of which 2 are added and 1 of those rolled back, a second deployment interleaved -/
def exOps : List DOp :=
  [.plainAdd, .create "i1" 3, .add "i1", .create "i2" 1, .add "i1", .remove, .add "i2", .finish "i1", .finish "i2"]

example : Enabled {} exOps ∧ (DSt.run {} exOps).cap.active = [] ∧ (DSt.run {} exOps).recorded = 3 := by
  refine ⟨?_, by decide, by decide⟩
  simp [exOps, Enabled, DSt.enabled, DSt.step, Cap.start, Cap.added, Cap.plainAdd, Cap.removed, Cap.finish]

/-- without the guard "never more adds than planned" the lower bound fails (marker −1):
    the guard is what `doCreateWorkloads` guarantees, not the store -/
example : withinBounds 1 (DSt.step (DSt.step {} (.create "i" 0))
    (.add "i")).status 0 0 = false := by decide

/-! ### the reference store: add-and-decrement is one atomic step -/

/-- **add_with_marker_atomic**: `AddWorkload(w, processing)` on the reference store either fails
    and changes nothing, or — in the same step — decrements exactly that marker by one and
    records all keys of the workload. -/
theorem add_with_marker_atomic (s : St) (data : List (Key × Val)) (dk : Key) (hdk : dk ∉ data.map (·.1)) :
    (createAndDecr s data dk = .error .notFound ∧ True) ∨
    (∃ s' c x, createAndDecr s data dk = .ok s' ∧ s.kv.get dk = some { val := .cnt c, exp := x } ∧
        s'.kv.get dk = some { val := .cnt (c - 1), exp := x } ∧
        ∀ k ∈ data.map (·.1), s'.kv.has k = true) := by
  unfold createAndDecr
  split
  · rename_i c x hget
    right
    refine ⟨_, c, x, rfl, hget, KV.get_put_same _ _ _, ?_⟩
    intro k hk
    have hne : ¬ dk = k := fun e => hdk (e ▸ hk)
    simp only [KV.has, KV.get_put_ne _ _ hne]
    exact KV.has_putAll_of_mem _ _ _ hk
  · left
    exact ⟨rfl, trivial⟩

/-- a failing `AddWorkload` (missing marker, bad name, duplicate) leaves marker and workloads
    untouched -/
theorem add_workload_fail_unchanged (fl : Flavour) (s : St) (w : WlRec)
    (p : Option (String × String × String × String)) (e : Err)
    (h : (step fl s (.addWorkload w p)).2 = .err e) : (step fl s (.addWorkload w p)).1 = s := by
  simp only [step, liftSt] at h ⊢
  split at h
  · cases h
  · rfl

/-- a duplicate `CreateProcessing` fails and keeps the existing marker value -/
theorem create_processing_duplicate (s : St) (a e n i : String) (c : Int)
    (h : s.kv.has (procKey a e n i) = true) : createProcessing s a e n i c = .error .keyExists := by
  simp [createProcessing, batchCreate, h]


/-! ### the reference store implements the transition system -/

/-- **deploy_status_is_sum**: what `GetDeployStatus` returns for a node is exactly the number of
    recorded workloads plus the sum of the markers (the `status` of `Eru.Store.Deploy`). -/
theorem deploy_status_is_sum (s : St) (a e n : String) :
    countOf (getDeployStatus s a e) n = deployed s a e n + inProgress s a e n :=
  getDeployStatus_exact s a e n

/-- **create_marker_adds_planned**: in every reachable state, a successful `CreateProcessing`
    raises the status of its node by the planned count and of no other node (`DOp.create`). -/
theorem create_marker_adds_planned (fl : Flavour) (ops : List Op) (a e n i : String) (c : Int)
    (ha : a ≠ "") (he : e ≠ "") (s' : St)
    (h : createProcessing (run fl St.empty ops).1 a e n i c = .ok s') (n2 : String) :
    deployed s' a e n2 + inProgress s' a e n2 =
      deployed (run fl St.empty ops).1 a e n2 + inProgress (run fl St.empty ops).1 a e n2 + (if n = n2 then c else 0) := by
  have := createProcessing_effect (wf_run fl ops _ wf_empty) a e n i c ha he h n2
  omega

/-- **add_with_marker_keeps_status**: in every reachable state, adding a workload with a fresh id
    under its marker moves one unit from "in progress" to "recorded" in a single step: the
    status reported for every node is unchanged (`DOp.add`). -/
theorem add_with_marker_keeps_status (fl : Flavour) (ops : List Op) (w : WlRec) (a e x i : String) (c : Int)
    (exp : Option Nat) (ha : a ≠ "") (he : e ≠ "") (s' : St)
    (hname : parseWorkloadName w.name = .ok (a, e, x))
    (hmark : KV.get (run fl St.empty ops).1.kv (procKey a e w.node i) = some { val := .cnt c, exp := exp })
    (hfresh : ∀ k ∈ (wlData w a e).map (·.1), KV.get (run fl St.empty ops).1.kv k = none)
    (h : addWorkload (run fl St.empty ops).1 w (some (a, e, w.node, i)) = .ok s') (n2 : String) :
    deployed s' a e n2 = deployed (run fl St.empty ops).1 a e n2 + (if w.node = n2 then 1 else 0) ∧
    deployed s' a e n2 + inProgress s' a e n2 =
      deployed (run fl St.empty ops).1 a e n2 + inProgress (run fl St.empty ops).1 a e n2 := by
  have := addWorkload_marker_effect (wf_run fl ops _ wf_empty) w a e x i c exp ha he hname hmark hfresh h n2
  exact ⟨this.1, this.2.2⟩

/-! ### the remaining transitions (`plainAdd`, `remove`, `finish`) on the reference store -/

-- `Eru.Store.addWorkload_plain_effect`, `removeWorkload_effect`, `deleteProcessing_effect`
-- (Eru/Store/ProofsDeployRef.lean): AddWorkload without marker = +1 recorded on its node,
-- RemoveWorkload = −1 recorded iff the deploy key was there, DeleteProcessing = the marker's
-- remaining count leaves the in-progress number and the marker key is gone; markers resp.
-- recorded workloads are untouched otherwise.

/-! ### fixed prior: one deployment, no foreign adds -/

theorem planned_added (c : Cap) (i : String) : (c.added i).planned = c.planned := by
  unfold Cap.added Cap.planned
  simp only [List.map_map]
  congr 1
  apply List.map_congr_left
  intro d _
  by_cases h : (d.ident == i) = true <;> simp [Function.comp, h]

/-- body of ONE deployment `i`: adds under its marker and removals (rollbacks or removals of
    older workloads) — no foreign adds, no other deployment -/
def OwnBody (i : String) : List DOp → Prop
  | [] => True
  | .add j :: t => j = i ∧ OwnBody i t
  | .remove :: t => OwnBody i t
  | _ :: _ => False

theorem own_body_inv (i : String) (P c : Int) (body : List DOp) :
    ∀ s : DSt, Inv s → s.cap.prior ≤ P → s.cap.planned = c → s.cap.active.map (·.ident) = [i] →
      OwnBody i body → Enabled s body →
      Inv (s.run body) ∧ (s.run body).cap.prior ≤ P ∧ (s.run body).cap.planned = c ∧
      (s.run body).cap.active.map (·.ident) = [i] := by
  induction body with
  | nil => intro s h hp hc hi _ _; exact ⟨h, hp, hc, hi⟩
  | cons op t ih =>
    intro s h hp hc hi hb he
    cases op with
    | add j =>
      exact ih _ (inv_step h _ he.1) (by simpa [DSt.step, Cap.added] using hp)
        (by simp only [DSt.step]; rw [planned_added]; exact hc)
        (by simp only [DSt.step, Cap.added, idents_added]; exact hi) hb.2 he.2
    | remove =>
      exact ih _ (inv_step h _ he.1) (by simp only [DSt.step, Cap.removed]; omega)
        (by simpa [DSt.step, Cap.removed, Cap.planned] using hc)
        (by simpa [DSt.step, Cap.removed] using hi) hb he.2
    | create _ _ => exact absurd hb (by simp [OwnBody])
    | plainAdd => exact absurd hb (by simp [OwnBody])
    | finish _ => exact absurd hb (by simp [OwnBody])

/-- **single_deployment_bounds** (fixed prior): start from a state where nothing is in progress,
    so the prior count is simply the recorded count `s0.recorded`; run ONE deployment — marker
    with `c` planned, then any admissible mix of adds under it and removals — then at that point
    `recorded ≤ status ≤ s0.recorded + c`.  (`Cap.prior` is a ghost that is re-based by removals
    and by finished deployments; here it never exceeds the fixed prior.) -/
theorem single_deployment_bounds (s0 : DSt) (h0 : Inv s0) (hidle : s0.cap.active = []) (i : String) (c : Int)
    (body : List DOp) (hb : OwnBody i body) (he : Enabled s0 (.create i c :: body)) :
    let s := s0.run (.create i c :: body)
    s.recorded ≤ s.status ∧ s.status ≤ s0.recorded + c := by
  have hrec : s0.recorded = s0.cap.prior := by have := h0.recd; rw [hidle] at this; simpa using this
  have h1 := inv_step h0 _ he.1
  have hpl : (s0.step (.create i c)).cap.planned = c := by
    simp [DSt.step, Cap.start, Cap.planned, hidle]
  have := own_body_inv i s0.cap.prior c body _ h1 (by simp [DSt.step, Cap.start]) hpl
    (by simp [DSt.step, Cap.start, hidle]) hb he.2
  obtain ⟨hinv, hp, hc, _⟩ := this
  have hb2 := inv_bounds hinv
  have hs := inv_status hinv
  simp only [withinBounds, Bool.and_eq_true, decide_eq_true_eq] at hb2
  simp only [DSt.run]
  constructor
  · exact hb2.1
  · rw [hs, hc, hrec]; omega

theorem enabled_append (s : DSt) (a b : List DOp) (h : Enabled s (a ++ b)) :
    Enabled s a ∧ Enabled (s.run a) b := by
  induction a generalizing s with
  | nil => exact ⟨trivial, h⟩
  | cons op t ih => exact ⟨⟨h.1, (ih _ h.2).1⟩, (ih _ h.2).2⟩

theorem run_append (s : DSt) (a b : List DOp) : s.run (a ++ b) = (s.run a).run b := by
  induction a generalizing s with
  | nil => rfl
  | cons op t ih => exact ih _

/-- and once that deployment deletes its marker the status is the recorded count again and no
    marker is left -/
theorem single_deployment_return (s0 : DSt) (h0 : Inv s0) (hidle : s0.cap.active = []) (i : String) (c : Int)
    (body : List DOp) (hb : OwnBody i body) (he : Enabled s0 (.create i c :: (body ++ [.finish i]))) :
    let s := s0.run (.create i c :: (body ++ [.finish i]))
    s.status = s.recorded ∧ s.markers = [] := by
  have h1 := inv_step h0 _ he.1
  have hpl : (s0.step (.create i c)).cap.planned = c := by simp [DSt.step, Cap.start, Cap.planned, hidle]
  have hea := enabled_append _ body [.finish i] he.2
  obtain ⟨hinv, _, _, hid⟩ := own_body_inv i s0.cap.prior c body _ h1 (by simp [DSt.step, Cap.start]) hpl
    (by simp [DSt.step, Cap.start, hidle]) hb hea.1
  simp only [DSt.run, run_append]
  have hfin := inv_step hinv (.finish i) trivial
  apply inv_idle hfin
  -- the only running deployment is `i`
  generalize ((s0.step (.create i c)).run body) = s at hid
  simp only [DSt.step, Cap.finish]
  cases hact : s.cap.active with
  | nil => rfl
  | cons d t =>
    rw [hact] at hid
    simp only [List.map_cons, List.cons.injEq, List.map_eq_nil_iff] at hid
    obtain ⟨hd, ht⟩ := hid
    subst ht
    simp [hd]

end Eru.Props.C13
