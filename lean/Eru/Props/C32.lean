import Eru.Book.ProofsRemap
import Eru.Book.ProofsRemapLayers
/-
C32 — Unbound workloads are remapped onto free shared cores only.
Property theorems only; helper lemmas live in Eru/Book/ProofsRemap.lean.
-/
namespace Eru.Props.C32
open Eru Eru.Book

/-- one remapped workload gets the expected engine parameters -/
theorem remap_entry_ok (n : NodeInfo) (hw : WFNode n) (hv : Valid n) (shareBase : Int) (w : WorkloadRes) :
    remapEntryOkB n shareBase w
      { cpu := w.cpuLimit, cpuMap := shareCPUMap n shareBase, numaNode := w.numaNode, memory := w.memoryLimit, remap := true } = true := by
  obtain ⟨hk, hg⟩ := shareCPUMap_spec n hw hv shareBase
  unfold remapEntryOkB
  simp only [beq_self_eq_true, Bool.true_and, Bool.and_eq_true, List.all_eq_true, beq_iff_eq, hk]
  refine ⟨?_, ?_⟩
  · intro c hc
    exact ⟨hg c hc, (has_iff_mem_keys _ _).2 (by rw [hk]; exact hc)⟩
  · intro c hc
    simpa using hc

/-- For any stored node (any usage the plugin can hold, hence any history of operations) and
    any set of workloads with distinct ids: the remap result contains exactly the workloads
    with an empty CPU map, each with exactly the cores that still have at least one full share
    free (all cores if there is none), one share each, and its own limits; workloads with a
    CPU binding are absent (left untouched). -/
theorem remap_spec (n : NodeInfo) (hw : WFNode n) (hv : Valid n) (shareBase : Int)
    (ws : List (String × WorkloadRes)) (hids : (ws.map (·.1)).Nodup) :
    remapOkB n shareBase ws (calculateRemap n shareBase ws) = true := by
  unfold remapOkB calculateRemap
  by_cases h0 : ws.length = 0
  · have : ws = [] := List.eq_nil_of_length_eq_zero h0
    subst this; rfl
  · simp only [h0, if_false, Bool.and_eq_true, List.all_eq_true]
    constructor
    · rintro ⟨id, w⟩ hm
      have := find_filter_map ws (fun x => decide (x.2.cpuMap.length = 0))
        (fun x => (x.1, ({ cpu := x.2.cpuLimit, cpuMap := shareCPUMap n shareBase, numaNode := x.2.numaNode,
                           memory := x.2.memoryLimit, remap := true } : EngineParams)))
        (fun _ => rfl) hids id w hm
      simp only at this ⊢
      have hfun1 : (fun (x : String × WorkloadRes) => match x with | (_, w) => decide (w.cpuMap.length = 0)) =
          fun x => decide (x.2.cpuMap.length = 0) := by funext ⟨a, b⟩; rfl
      have hfun2 : (fun (x : String × WorkloadRes) => match x with
          | (id, w) => (id, ({ cpu := w.cpuLimit, cpuMap := shareCPUMap n shareBase, numaNode := w.numaNode,
                               memory := w.memoryLimit, remap := true } : EngineParams))) =
          fun x => (x.1, ({ cpu := x.2.cpuLimit, cpuMap := shareCPUMap n shareBase, numaNode := x.2.numaNode,
                            memory := x.2.memoryLimit, remap := true } : EngineParams)) := by funext ⟨a, b⟩; rfl
      rw [hfun1, hfun2, this]
      by_cases hb : w.cpuMap.length = 0
      · simp only [hb, decide_true, if_true, Bool.true_and]
        exact remap_entry_ok n hw hv shareBase w
      · simp [hb]
    · rintro ⟨id, e⟩ hm
      simp only [List.mem_map, List.mem_filter] at hm
      obtain ⟨⟨id', w⟩, ⟨hin, _⟩, heq⟩ := hm
      simp only [Prod.mk.injEq] at heq
      simp only [List.any_eq_true, beq_iff_eq]
      exact ⟨(id', w), hin, heq.1⟩

/-- bound workloads never appear in the result -/
theorem bound_untouched (n : NodeInfo) (shareBase : Int) (ws : List (String × WorkloadRes)) (id : String) (e : EngineParams)
    (h : (id, e) ∈ calculateRemap n shareBase ws) : ∃ w, (id, w) ∈ ws ∧ w.cpuMap.length = 0 := by
  unfold calculateRemap at h
  split at h
  · cases h
  · simp only [List.mem_map, List.mem_filter] at h
    obtain ⟨⟨id', w⟩, ⟨hin, hb⟩, heq⟩ := h
    simp only [Prod.mk.injEq] at heq
    exact ⟨w, heq.1 ▸ hin, by simpa using hb⟩

/-! ### the layers above `CalculateRemap`: `Manager.Remap` and calcium's remap loop -/

/-- the engine parameters `CalculateRemap` builds for an unbound workload -/
def expectedParams (n : NodeInfo) (shareBase : Int) (w : WorkloadRes) : EngineParams :=
  { cpu := w.cpuLimit, cpuMap := shareCPUMap n shareBase, numaNode := w.numaNode, memory := w.memoryLimit, remap := true }

theorem cpumemAnswer_find (n : NodeInfo) (shareBase : Int) (ws : List (String × WorkloadRes)) (hids : (ws.map (·.1)).Nodup)
    (id : String) (w : WorkloadRes) (hm : (id, w) ∈ ws) :
    ((cpumemRemapAnswer n shareBase ws).find? (·.1 == id)).map (·.2) =
      if w.cpuMap.length = 0 then some (.cpumem (expectedParams n shareBase w)) else none := by
  unfold cpumemRemapAnswer calculateRemap
  have h0 : ¬ ws.length = 0 := by
    intro h; rw [List.eq_nil_of_length_eq_zero h] at hm; cases hm
  simp only [h0, if_false, List.map_map]
  have hfun1 : (fun (x : String × WorkloadRes) => match x with | (_, w) => decide (w.cpuMap.length = 0)) =
      fun x => decide (x.2.cpuMap.length = 0) := by funext ⟨a, b⟩; rfl
  have := find_filter_map ws (fun x => decide (x.2.cpuMap.length = 0))
    (fun x => (x.1, PluginParams.cpumem (expectedParams n shareBase x.2))) (fun _ => rfl) hids id w hm
  have hcomp : ((fun (ie : String × EngineParams) => (ie.1, PluginParams.cpumem ie.2)) ∘
      fun (x : String × WorkloadRes) => match x with
        | (id, w) => (id, ({ cpu := w.cpuLimit, cpuMap := shareCPUMap n shareBase, numaNode := w.numaNode,
                             memory := w.memoryLimit, remap := true } : EngineParams))) =
      fun x => (x.1, PluginParams.cpumem (expectedParams n shareBase x.2)) := by funext ⟨a, b⟩; rfl
  rw [hfun1, hcomp, this]
  by_cases hb : w.cpuMap.length = 0 <;> simp [hb]

/-- `Manager.Remap` over cpumem and any further plugins (answering arbitrarily, under their own
    names): in the manager's answer the cpumem component of every unbound workload is exactly the
    engine parameters of `remap_spec` (free shared cores, own limits) and bound workloads have
    no cpumem entry — whatever the other plugins answer, also for bound workloads. -/
theorem manager_remap_cpumem_component (n : NodeInfo) (hw : WFNode n) (hv : Valid n) (shareBase : Int)
    (ws : List (String × WorkloadRes)) (hids : (ws.map (·.1)).Nodup)
    (extras : List (String × RemapAnswer)) (hx : ∀ pa ∈ extras, pa.1 ≠ "cpumem")
    (id : String) (w : WorkloadRes) (hm : (id, w) ∈ ws) :
    cpumemComponent (managerRemap (("cpumem", cpumemRemapAnswer n shareBase ws) :: extras)) id =
      (if w.cpuMap.length = 0 then some (.cpumem (expectedParams n shareBase w)) else none) ∧
    remapEntryOkB n shareBase w (expectedParams n shareBase w) = true := by
  refine ⟨?_, remap_entry_ok n hw hv shareBase w⟩
  unfold cpumemComponent
  rw [component_first "cpumem" _ extras hx id]
  exact cpumemAnswer_find n shareBase ws hids id w hm

/-- calcium's remap loop attempts the engine update of exactly the workloads in the manager's
    answer, in any case: which updates fail has no influence on which are attempted (engine
    errors are logged, the loop goes on). -/
theorem remap_attempts_all (n : NodeInfo) (shareBase : Int) (ws : List (String × WorkloadRes))
    (extras : List (String × RemapAnswer)) (engine : String → List (String × PluginParams) → Bool) :
    (nodeRemap n shareBase ws extras engine).map (·.1) =
      (managerRemap (("cpumem", cpumemRemapAnswer n shareBase ws) :: extras)).map (·.1) :=
  remapLoop_ids engine _

/-- in particular every unbound workload of the node gets its engine update attempted, whatever
    happens to the other updates -/
theorem remap_attempts_every_unbound (n : NodeInfo) (shareBase : Int) (ws : List (String × WorkloadRes))
    (hids : (ws.map (·.1)).Nodup) (extras : List (String × RemapAnswer))
    (engine : String → List (String × PluginParams) → Bool) (id : String) (w : WorkloadRes)
    (hm : (id, w) ∈ ws) (hu : w.cpuMap.length = 0) :
    id ∈ (nodeRemap n shareBase ws extras engine).map (·.1) := by
  rw [remap_attempts_all]
  unfold managerRemap
  simp only [List.map_map]
  have hfind := cpumemAnswer_find n shareBase ws hids id w hm
  simp only [hu, if_true] at hfind
  cases hf : (cpumemRemapAnswer n shareBase ws).find? (·.1 == id) with
  | none => rw [hf] at hfind; cases hfind
  | some ip =>
    have h1 : ip ∈ cpumemRemapAnswer n shareBase ws := List.mem_of_find?_eq_some hf
    have h2 : ip.1 = id := by simpa using List.find?_some hf
    rw [List.mem_map]
    refine ⟨id, ?_, rfl⟩
    rw [List.mem_eraseDups]
    simp only [List.flatMap_cons, List.mem_append, List.mem_map]
    exact Or.inl ⟨ip, h1, h2⟩

/-- The loop of the seeded mutants (give up at the first engine error) does *not* have this
    property: with three workloads and an engine failing for the first one, only one update is
    attempted. -/
theorem stop_at_error_counterexample :
    let merged : List (String × Nat) := [("a", 0), ("b", 0), ("c", 0)]
    let engine : String → Nat → Bool := fun id _ => id != "a"
    (remapLoopStopAtError engine merged).map (·.1) = ["a"] ∧ (remapLoop engine merged).map (·.1) = ["a", "b", "c"] := by
  decide

/-- the hypotheses are satisfiable: a 2-core node with core 0 fully used by a bound workload -/
example : ∃ n ws, WFNode n ∧ Valid n ∧ (ws.map (·.1)).Nodup ∧
    calculateRemap n 100 ws = [("u", { cpu := 0, cpuMap := [("1", 100)], numaNode := "", memory := 0, remap := true })] := by
  refine ⟨{ capacity := { cpu := 2 * nano, cpuMap := [("0", 100), ("1", 100)], memory := 1000 },
            usage := { cpu := nano, cpuMap := [("0", 100)], memory := 10 } },
          [("b", { cpuRequest := nano, cpuMap := [("0", 100)] }), ("u", {})], ?_, ?_, ?_, ?_⟩
  · exact ⟨by decide, by decide, by decide, by decide⟩
  · decide
  · decide
  · decide

end Eru.Props.C32
