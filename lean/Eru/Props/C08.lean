import Eru.Book.ProofsInv
/-
C08 — Plugin resource bookkeeping is exact and reversible.
Property theorems only; helper lemmas live in Eru/Book/Proofs{,Hist,Rollback,Inv}.lean.
The CPU scheduler is an arbitrary parameter `sched` (only assumed to return Go maps).
-/
namespace Eru.Props.C08
open Eru Eru.Book

/-- a freshly added node: any valid capacity, zero usage, no workloads -/
def fresh (capacity : NodeRes) : State :=
  { node := { capacity := capacity, usage := {} }, live := [] }

/-- After any history of alloc / rollback-alloc / release (`drop`) / rollback-of-release (`readd`:
    calcium's remove and dissociate re-add the resources with Incr) / realloc (grow, shrink, bind,
    unbind, keep-bind — whatever the request) / rollback-realloc committed through the
    manager, on a node with or without NUMA topology, from any state in which the books are
    right: the recorded usage equals the sum of the live workloads' resources in total CPU,
    memory, every core's pieces and every NUMA node's memory.  Refused or failing operations
    (insufficient resource, invalid request, validation error, another plugin failing in the commit)
    are part of the histories.  `hops`: the resources named by `readd` operations are Go maps. -/
theorem usage_eq_sum_live (sched : Sched) (hs : SchedWF sched) (s : State) (h : Inv s) (ops : List Op)
    (hops : ∀ op ∈ ops, OpWF op) :
    Consistent (run sched s ops).node.usage (run sched s ops).live :=
  (run_inv sched hs ops hops s h).cons

/-- the same statement with the decidable predicate the oracle evaluates on the
    implementation's numbers -/
theorem usage_eq_sum_live_decidable (sched : Sched) (hs : SchedWF sched) (s : State) (h : Inv s) (ops : List Op)
    (hops : ∀ op ∈ ops, OpWF op) :
    consistentB (run sched s ops).node.usage (run sched s ops).live = true :=
  (consistentB_iff _ _).2 (usage_eq_sum_live sched hs s h ops hops)

/-- … in particular from a freshly added node. -/
theorem usage_eq_sum_live_fresh (sched : Sched) (hs : SchedWF sched) (capacity : NodeRes)
    (h1 : WF capacity.cpuMap) (h2 : WF capacity.numaMemory) (hv : Valid { capacity := capacity, usage := {} })
    (ops : List Op) (hops : ∀ op ∈ ops, OpWF op) :
    Consistent (run sched (fresh capacity) ops).node.usage (run sched (fresh capacity) ops).live := by
  refine usage_eq_sum_live sched hs _ ?_ ops hops
  refine ⟨⟨h1, h2, WF_nil, WF_nil⟩, hv, (fun w hw => by cases hw), ?_, (fun u hu => by cases hu)⟩
  exact ⟨rfl, rfl, fun k => rfl, fun k => rfl⟩

/-- The stored node stays valid along every history (no core over-used, NUMA memory within
    capacity), so the plugin never has to refuse a rollback. -/
theorem node_stays_valid (sched : Sched) (hs : SchedWF sched) (s : State) (h : Inv s) (ops : List Op)
    (hops : ∀ op ∈ ops, OpWF op) :
    Valid (run sched s ops).node :=
  (run_inv sched hs ops hops s h).valid

/-- Rolling back an allocation restores the node's usage exactly: `RollbackAlloc` of the
    workloads returned by a successful `Alloc` is accepted and the usage afterwards equals the
    usage before, on every component.  This is about the *immediate* rollback (what calcium does,
    under the node lock); a rollback separated from its operation by other operations is covered
    through `usage_eq_sum_live` (`Consistent` before and after), not through equality of usages. -/
theorem rollback_restores_alloc (sched : Sched) (hs : SchedWF sched) (ex : Extras) (n : NodeInfo) (hw : WFNode n) (hv : Valid n)
    (k : Int) (req : Req) (ws : List WorkloadRes) (n' : NodeInfo) (h : alloc sched ex n k req = .ok (ws, n')) :
    ∃ n'', release n' ws = .ok n'' ∧ UsageEq n''.usage n.usage ∧ n''.capacity = n.capacity := by
  unfold alloc at h
  split at h
  · cases h
  · cases hcd : calculateDeploy sched n k req with
    | err e => rw [hcd] at h; cases h
    | panic m => rw [hcd] at h; cases h
    | diverge => rw [hcd] at h; cases h
    | ok ws' =>
      rw [hcd] at h
      simp only at h
      split at h
      · cases h
      · cases hset : setNodeResourceUsage n none ws' true true with
        | error e => rw [hset] at h; cases h
        | ok n'' =>
          rw [hset] at h
          simp only [Outcome.ok.injEq, Prod.mk.injEq] at h
          obtain ⟨e1, e2⟩ := h
          subst e1; subst e2
          exact incr_decr_restores n n'' hw hv ws' (calculateDeploy_wfw sched hs n k req ws' hcd) hset

/-- Rolling back a re-allocation restores the node's usage exactly (immediate rollback; see the
    remark at `rollback_restores_alloc`). -/
theorem rollback_restores_realloc (sched : Sched) (hs : SchedWF sched) (n : NodeInfo) (hw : WFNode n) (hv : Valid n)
    (origin : WorkloadRes) (ho : WFW origin) (req : Req) (newRes delta : WorkloadRes) (n' : NodeInfo)
    (h : realloc sched n origin req = .ok (newRes, delta, n')) :
    ∃ n'', rollbackRealloc n' delta = .ok n'' ∧ UsageEq n''.usage n.usage ∧ n''.capacity = n.capacity := by
  unfold realloc at h
  cases hc : calculateRealloc sched n origin req with
  | err e => rw [hc] at h; cases h
  | panic m => rw [hc] at h; cases h
  | diverge => rw [hc] at h; cases h
  | ok nd =>
    obtain ⟨new', delta'⟩ := nd
    rw [hc] at h
    simp only at h
    cases hset : setNodeResourceUsage n none [delta'] true true with
    | error e => rw [hset] at h; cases h
    | ok n'' =>
      rw [hset] at h
      simp only [Outcome.ok.injEq, Prod.mk.injEq] at h
      obtain ⟨e1, e2, e3⟩ := h
      subst e1; subst e2; subst e3
      obtain ⟨_, _, hdw⟩ := calculateRealloc_spec sched hs n origin ho req new' delta' hc
      exact incr_decr_restores n n'' hw hv [delta'] (by intro w hw'; simp only [List.mem_singleton] at hw'; subst hw'; exact hdw) hset

/-- Manager level, several plugins: a commit (`Manager.SetNodeResourceUsage`, used by Alloc,
    RollbackAlloc/release, Realloc, RollbackRealloc) in which *another* plugin fails never
    succeeds and leaves the cpumem usage as it was before: cobalt rolls every succeeded plugin
    back by rewriting its usage with the `Before` it reported (a deep copy of what it read),
    and the plugin accepts that rewrite. -/
theorem failed_commit_restores (n : NodeInfo) (hw : WFNode n) (hv : Valid n) (ws : List WorkloadRes)
    (hws : ∀ w ∈ ws, WFW w) (incr : Bool) :
    (commitUsage n ws incr true).2 ≠ none ∧ UsageEq (commitUsage n ws incr true).1.usage n.usage ∧
    (commitUsage n ws incr true).1.capacity = n.capacity ∧ Valid (commitUsage n ws incr true).1 := by
  unfold commitUsage
  cases h : setNodeResourceUsage n none ws true incr with
  | error e => exact ⟨by simp, usageEq_refl _, rfl, hv⟩
  | ok n' =>
    obtain ⟨hc, hw', _⟩ := set_usage_spec n n' hw ws hws incr h
    obtain ⟨_, r2, r3, r4⟩ := rollbackUsage_spec n n' hw hv hw' hc
    exact ⟨by simp, r3, r4, r2⟩

/-- The same over histories: an operation that does not succeed — refused, invalid, failing
    validation, or failing because another plugin fails in its commit — leaves usage and live
    set as they were; in particular usage = Σ live still holds (`usage_eq_sum_live` covers
    histories containing such operations, `Op.failing`). -/
theorem failed_operation_leaves_usage (sched : Sched) (hs : SchedWF sched) (s : State) (h : Inv s) (op : Op) (hop : OpWF op)
    (hf : (step sched s op).2 = false) :
    UsageEq (step sched s op).1.node.usage s.node.usage ∧ (step sched s op).1.live = s.live :=
  failed_step_unchanged sched hs s h op hop hf

theorem other_plugin_failure_restores (sched : Sched) (hs : SchedWF sched) (s : State) (h : Inv s) (op : Op) (hop : OpWF op) :
    (step sched s (.failing op)).2 = false ∧
    UsageEq (step sched s (.failing op)).1.node.usage s.node.usage ∧ (step sched s (.failing op)).1.live = s.live :=
  failing_step_restores sched hs s h op hop

/-- Rolling back a release restores the node's usage exactly: re-adding (Incr) the resources
    that a successful release (Decr) removed is accepted and the usage afterwards equals the
    usage before the release, on every component (immediate rollback, as in calcium's remove
    and dissociate). -/
theorem rollback_restores_release (n : NodeInfo) (hw : WFNode n) (hv : Valid n) (ws : List WorkloadRes)
    (hws : ∀ w ∈ ws, WFW w) (n' : NodeInfo) (h : release n ws = .ok n') :
    ∃ n'', setNodeResourceUsage n' none ws true true = .ok n'' ∧ UsageEq n''.usage n.usage ∧ n''.capacity = n.capacity :=
  decr_incr_restores n n' hw hv ws hws h

/-- Group lemma: adding a resource to a usage and subtracting it again gives the same usage,
    with zero entries treated extensionally. -/
theorem add_sub_cancel (r x : NodeRes) (h1 : WF x.cpuMap) (h2 : WF x.numaMemory) : UsageEq ((r.add x).sub x) r := by
  refine ⟨?_, ?_, ?_, ?_⟩
  · simp only [NodeRes.add, NodeRes.sub]; omega
  · simp only [NodeRes.add, NodeRes.sub]; omega
  · exact map_add_sub_cancel _ _ h1
  · exact map_add_sub_cancel _ _ h2

theorem sub_add_cancel (r x : NodeRes) (h1 : WF x.cpuMap) (h2 : WF x.numaMemory) : UsageEq ((r.sub x).add x) r := by
  refine ⟨?_, ?_, ?_, ?_⟩
  · simp only [NodeRes.add, NodeRes.sub]; omega
  · simp only [NodeRes.add, NodeRes.sub]; omega
  · exact map_sub_add_cancel _ _ h1
  · exact map_sub_add_cancel _ _ h2

/-- The re-allocation delta is exactly `new − origin` on every component, NUMA memory
    included (this is what the DeepCopy fix restores). -/
theorem realloc_delta_exact (sched : Sched) (hs : SchedWF sched) (n : NodeInfo) (origin : WorkloadRes) (ho : WFW origin)
    (req : Req) (newRes delta : WorkloadRes) (h : calculateRealloc sched n origin req = .ok (newRes, delta)) :
    DeltaOf newRes origin delta :=
  (calculateRealloc_spec sched hs n origin ho req newRes delta h).2.1

/-- With the DeepCopy before the fix the delta of a NUMA-bound workload is wrong: the copy
    loses the new NUMA memory, so `delta = −origin` on that component (witness: origin holds
    100 bytes on NUMA node 0, the new resource 150; the delta says −100 instead of +50). -/
theorem deepcopy_old_counterexample :
    let origin : WorkloadRes := { cpuRequest := nano, memoryRequest := 100, cpuMap := [("0", 100)], numaMemory := [("0", 100)], numaNode := "0" }
    let new : WorkloadRes := { cpuRequest := nano, memoryRequest := 150, cpuMap := [("0", 100)], numaMemory := [("0", 150)], numaNode := "0" }
    (new.deepCopyOld.sub origin).numaMemory.get "0" = -100 ∧ (new.deepCopy.sub origin).numaMemory.get "0" = 50 := by
  decide

/-- the invariant is satisfiable by a non-trivial state: a NUMA node with one NUMA-bound workload -/
example : ∃ s : State, Inv s ∧ s.live.length = 1 ∧ s.node.capacity.numa.length > 0 := by
  refine ⟨{ node := { capacity := { cpu := 2 * nano, cpuMap := [("0", 100), ("1", 100)], memory := 1000,
                                    numaMemory := [("0", 500), ("1", 500)], numa := [("0", "0"), ("1", "1")] },
                      usage := { cpu := nano, cpuMap := [("0", 100)], memory := 100, numaMemory := [("0", 100)] } },
            live := [{ cpuRequest := nano, memoryRequest := 100, cpuMap := [("0", 100)], numaMemory := [("0", 100)], numaNode := "0" }] },
          ⟨⟨by decide, by decide, by decide, by decide⟩, by decide, ?_, ?_, fun u hu => by cases hu⟩, rfl, by decide⟩
  · intro w hw; simp only [List.mem_singleton] at hw; subst hw; exact ⟨by decide, by decide⟩
  · refine ⟨by decide, by decide, fun k => ?_, fun k => ?_⟩
    · simp only [sumBy, List.map_cons, List.map_nil, List.sum_cons, List.sum_nil]; omega
    · simp only [sumBy, List.map_cons, List.map_nil, List.sum_cons, List.sum_nil]; omega

end Eru.Props.C08
