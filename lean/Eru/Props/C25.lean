import Eru.Store.ProofsStatus
import Eru.Store.ProofsKV
/-
C25 — status reports are bound to live entities and expire.

Specification (`Eru.Store.Status.Spec`, per status key): a report is *accepted* iff it has no
TTL or its entity exists at that moment; the status is *visible* at time `t` iff the latest
accepted report since the last removal has `ttl = 0` or `t < reportTime + ttl`
(so: a repeated report extends the lifetime, TTL 0 never expires, removal / a negative-TTL
node report ends it).  The theorems say that the etcd protocol (`bindStatusWithTTL`,
`bindStatusWithoutTTL`, `isTTLChanged`, leases) and the Redis protocol (`EXISTS` + `SET EX`)
make exactly these decisions on every history.  Redis' `SetNodeStatus` has no entity check:
the full statement is false for it (`redis_node_status_counterexample`), the guarded one holds.
-/
namespace Eru.Props.C25
open Eru.Store Eru.Store.Status

/-- accept/reject decisions of the specification along a history -/
def specDecisions (s : Spec) : List Ev → List Bool
  | [] => []
  | ev :: t => s.accepts ev :: specDecisions (s.step ev) t

def runEtcd (e : Etcd) : List Ev → Etcd × List Bool
  | [] => (e, [])
  | ev :: t => let r := runEtcd (e.step ev).1 t; (r.1, (e.step ev).2 :: r.2)

def runRedis (check : Bool) (r : Redis) : List Ev → Redis × List Bool
  | [] => (r, [])
  | ev :: t => let x := runRedis check (r.step check ev).1 t; (x.1, (r.step check ev).2 :: x.2)

theorem einv_step {e : Etcd} {s : Spec} (h : EInv e s) (ev : Ev) :
    EInv (e.step ev).1 (s.step ev) ∧ (e.step ev).2 = s.accepts ev := by
  cases ev with
  | report v ttl ex =>
    by_cases h0 : ttl = 0
    · subst h0
      have := einv_report0 h v ex
      exact ⟨this.1, by rw [this.2]; simp [Spec.accepts, accepted]⟩
    · exact einv_report_pos h v ttl (Nat.pos_of_ne_zero h0) ex
  | remove => exact ⟨einv_remove h, rfl⟩
  | tick d => exact ⟨einv_tick h d, rfl⟩

theorem etcd_run {e : Etcd} {s : Spec} (h : EInv e s) (hist : List Ev) :
    EInv (runEtcd e hist).1 (s.run hist) ∧ (runEtcd e hist).2 = specDecisions s hist := by
  induction hist generalizing e s with
  | nil => exact ⟨h, rfl⟩
  | cons ev t ih =>
    have hs := einv_step h ev
    have := ih hs.1
    simp only [runEtcd, Spec.run, specDecisions]
    exact ⟨this.1, by rw [this.2, hs.2]⟩

/-- **etcd_status_refines**: on every history of reports (any value, any TTL incl. 0, entity
    present or not), removals and time passing, the etcd store accepts exactly the reports the
    specification accepts and shows exactly the status the specification says is visible. -/
theorem etcd_status_refines (hist : List Ev) :
    (runEtcd {} hist).1.visible = (Spec.run {} hist).visible ∧
    (runEtcd {} hist).2 = specDecisions {} hist := by
  have := etcd_run einv_init hist
  exact ⟨einv_visible this.1, this.2⟩

theorem redis_run {r : Redis} {s : Spec} (h : RInv r s) (hist : List Ev) :
    RInv (runRedis true r hist).1 (s.run hist) ∧ (runRedis true r hist).2 = specDecisions s hist := by
  induction hist generalizing r s with
  | nil => exact ⟨h, rfl⟩
  | cons ev t ih =>
    have hs := rinv_step h ev
    have := ih hs.1
    simp only [runRedis, Spec.run, specDecisions]
    exact ⟨this.1, by rw [this.2, hs.2]⟩

/-- **redis_status_refines**: the same for `Rediaron.BindStatus` (workload status). -/
theorem redis_status_refines (hist : List Ev) :
    (runRedis true {} hist).1.visible = (Spec.run {} hist).visible ∧
    (runRedis true {} hist).2 = specDecisions {} hist := by
  have := redis_run rinv_init hist
  exact ⟨rinv_visible this.1, this.2⟩

/-- consequently both backends show the same status and make the same decisions -/
theorem etcd_redis_status_agree (hist : List Ev) :
    (runEtcd {} hist).1.visible = (runRedis true {} hist).1.visible ∧
    (runEtcd {} hist).2 = (runRedis true {} hist).2 := by
  have a := etcd_status_refines hist
  have b := redis_status_refines hist
  exact ⟨a.1.trans b.1.symm, a.2.trans b.2.symm⟩

/-- a non-trivial history: report with TTL 3, 2 s pass, identical report (extends), 2 s pass
    (still visible although 4 s after the first report), 1 s more (gone), TTL-0 report for a
    missing entity (accepted, never expires), TTL-5 report for a missing entity (rejected). -/
example :
    let h := [Ev.report 7 3 true, .tick 2, .report 7 3 true, .tick 2]
    (Spec.run {} h).visible = some 7 ∧ (Spec.run {} (h ++ [.tick 1])).visible = none ∧
    (Spec.run {} (h ++ [.tick 1, .report 8 0 false, .tick 1000])).visible = some 8 ∧
    specDecisions {} [Ev.report 8 0 false, .report 9 5 false] = [true, false] := by decide

/-! ### Redis node status (`store/redis/node.go: SetNodeStatus`): no entity check -/

/-- full statement for the Redis node-status path -/
def PropC25_redisNode : Prop :=
  ∀ hist : List Ev,
    (runRedis false {} hist).1.visible = (Spec.run {} hist).visible ∧
    (runRedis false {} hist).2 = specDecisions {} hist

/-- a node status with TTL 3 for a node that does not exist is accepted and visible -/
theorem redis_node_status_counterexample : ¬ PropC25_redisNode := by
  intro h
  have := (h [Ev.report 1 3 false]).2
  revert this
  decide

/-- guard: every report with a positive TTL is for an existing entity -/
def EntityPresent : List Ev → Prop
  | [] => True
  | .report _ ttl ex :: t => (ttl = 0 ∨ ex = true) ∧ EntityPresent t
  | _ :: t => EntityPresent t

theorem redis_node_step_eq (r : Redis) (ev : Ev)
    (h : match ev with | .report _ ttl ex => ttl = 0 ∨ ex = true | _ => True) :
    r.step false ev = r.step true ev := by
  cases ev with
  | report v ttl ex =>
    simp only at h
    rcases h with h | h
    · subst h; simp [Redis.step]
    · subst h; simp [Redis.step]
  | remove => rfl
  | tick d => rfl

theorem redis_node_run_eq (r : Redis) (hist : List Ev) (h : EntityPresent hist) :
    runRedis false r hist = runRedis true r hist := by
  induction hist generalizing r with
  | nil => rfl
  | cons ev t ih =>
    cases ev with
    | report v ttl ex =>
      have hs := redis_node_step_eq r (.report v ttl ex) h.1
      simp only [runRedis, hs, ih _ h.2]
    | remove => simp only [runRedis, Redis.step, ih _ h]
    | tick d => simp only [runRedis, Redis.step, ih _ h]

/-- **redis_node_status_partial**: as long as reports with a TTL are only made for existing
    nodes, Redis node status follows the specification. -/
theorem redis_node_status_partial (hist : List Ev) (h : EntityPresent hist) :
    (runRedis false {} hist).1.visible = (Spec.run {} hist).visible ∧
    (runRedis false {} hist).2 = specDecisions {} hist := by
  rw [redis_node_run_eq {} hist h]
  exact redis_status_refines hist

example : EntityPresent [Ev.report 1 3 true, .tick 2, .report 1 0 false, .remove] := by
  simp [EntityPresent]


/-! ### the clauses of the property, read off the specification -/

/-- a report accepted now is visible for exactly `ttl` seconds (for ever when `ttl = 0`) -/
theorem spec_visible_until (s : Spec) (v ttl d : Nat) (ex : Bool) (hacc : accepted ttl ex = true) :
    (Spec.run s [.report v ttl ex, .tick d]).visible = if ttl = 0 ∨ d < ttl then some v else none := by
  simp only [Spec.run, Spec.step, hacc, ↓reduceIte, Spec.visible]
  by_cases h : ttl = 0 ∨ d < ttl
  · have : ttl = 0 ∨ s.now + d < s.now + ttl := by omega
    simp [h, this]
  · have : ¬ (ttl = 0 ∨ s.now + d < s.now + ttl) := by omega
    simp [h, this]

/-- reporting again (same or different value) restarts the lifetime from the latest report -/
theorem spec_rereport_extends (s : Spec) (v v' ttl d1 d2 : Nat) (hpos : 0 < ttl) :
    (Spec.run s [.report v ttl true, .tick d1, .report v' ttl true, .tick d2]).visible
      = if d2 < ttl then some v' else none := by
  simp only [Spec.run, Spec.step, accepted, Bool.or_true, ↓reduceIte, Spec.visible]
  have hne : ttl ≠ 0 := by omega
  by_cases h : d2 < ttl
  · simp [h]
  · simp [h, hne]

/-- a report with a positive TTL for a missing entity is rejected and changes nothing -/
theorem spec_rejects_dead_entity (s : Spec) (v ttl : Nat) (hpos : 0 < ttl) :
    s.accepts (.report v ttl false) = false ∧ s.step (.report v ttl false) = s := by
  have : ttl ≠ 0 := by omega
  simp [Spec.accepts, Spec.step, accepted, this]

/-- removal ends the visibility whatever was reported before -/
theorem spec_removal_ends (s : Spec) (d : Nat) : (Spec.run s [.remove, .tick d]).visible = none := by
  simp [Spec.run, Spec.step, Spec.visible]

/-! ### the reference store follows the same rule -/

theorem get_filter_none (m : KV) (k : Key) (p : Key × Ent → Bool) (h : KV.get m k = none) :
    KV.get (m.filter p) k = none := by
  induction m with
  | nil => rfl
  | cons q t ih =>
    obtain ⟨k2, e2⟩ := q
    simp only [KV.get] at h
    by_cases hk : k2 = k
    · simp [hk] at h
    · simp only [hk, ↓reduceIte] at h
      simp only [List.filter_cons]
      split
      · simp only [KV.get, hk, ↓reduceIte]; exact ih h
      · exact ih h

/-- **ref_status_lifetime**: on the reference store a status bound with TTL `ttl > 0` to an
    existing entity is present after `d` more seconds iff `d < ttl`; bound with TTL 0 it is
    present after any `d`; for a missing entity (TTL > 0) the bind fails. -/
theorem ref_status_lifetime (s : St) (check : Bool) (ek sk : Key) (v : Val) (ttl d : Nat)
    (hent : s.kv.has ek = true) :
    ∃ s', bindStatus s check ek sk v ttl = .ok s' ∧
      (tick s' d).kv.has sk = decide (ttl = 0 ∨ d < ttl) := by
  unfold bindStatus
  by_cases h0 : ttl = 0
  · subst h0
    refine ⟨_, rfl, ?_⟩
    simp [tick, KV.put, KV.has, KV.get]
  · simp only [h0, ↓reduceIte, hent, Bool.not_true, Bool.and_false, Bool.false_eq_true]
    refine ⟨_, rfl, ?_⟩
    simp only [tick, KV.put, List.filter_cons, KV.has]
    by_cases hd : d < ttl
    · have : s.now + d < s.now + ttl := by omega
      simp [this, hd, KV.get]
    · have : ¬ (s.now + d < s.now + ttl) := by omega
      simp only [this, decide_false, Bool.false_eq_true, ↓reduceIte, h0, hd, or_self]
      rw [get_filter_none _ _ _ (KV.get_erase_same _ _)]
      rfl

theorem ref_status_needs_entity (s : St) (ek sk : Key) (v : Val) (ttl : Nat) (hpos : 0 < ttl)
    (hent : s.kv.has ek = false) : bindStatus s true ek sk v ttl = .error .notFound := by
  have : ttl ≠ 0 := by omega
  simp [bindStatus, this, hent]

end Eru.Props.C25
