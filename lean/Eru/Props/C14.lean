import Eru.Cluster2.ProofsCreate
/-
C14 — a crash during deployment is repaired by recovery.

Model: `Eru/Cluster2/Recovery.lean` (steps of `cluster/calcium/create.go`, handlers of
`cluster/calcium/wal.go`, replay of `wal/hydro.go`).  Spec: `Eru/Cluster2/Spec.lean`.
-/
namespace Eru.Props.C14
open Eru.Cluster (ResAlg)
open Eru.Cluster2

variable {R : Type} [ResAlg R] [DecidableEq R]

/-- **Crash anywhere, then recover.**  For every start state satisfying `Pre`, every step
sequence that respects the WAL protocol (`validTrace`: effects only under a pending event,
commits only of final effects — what the deployment code is checked against on every run) and
every crash index `i`, recovery yields: usage = Σ recorded workloads on every node, no
in-progress marker, no pending event, and every instance recorded ⇒ running (so each instance
is fully created, absent, or a leaked never-logged container). -/
theorem crash_recover_valid (s0 : St R) (tr : List (Step R)) (i : Nat)
    (hpre : Pre s0) (hv : validTrace s0 tr = true) :
    Good (recover (crashAfter i s0 tr)) :=
  recover_good _ (exec_inv _ s0 (pre_inv s0 hpre) (validTrace_take tr s0 i hv))

/-- **C14 for the deployment code as written (after the fix of D14).**  For every start state
satisfying `Pre`, every plan (any number of nodes, any number of instances per node, any
resources) whose nodes are among the logged ones and whose container ids are fresh and distinct,
and EVERY crash index `i` (0 … number of steps, beyond = completed deployment): recovery in a
fresh instance yields consistent usage on every node, no marker, no pending event, and every
recorded instance running. -/
theorem crash_recover (s0 : St R) (nodes : List String) (plan : Plan R) (i : Nat) (hpre : Pre s0)
    (hsub : ∀ e ∈ plan, e.1 ∈ nodes) (hfresh : ∀ j ∈ planIds plan, recorded s0 j = false)
    (hnd : (planIds plan).Nodup) :
    Good (recover (crashAfter i s0 (createSteps nodes plan))) :=
  crash_recover_valid s0 _ i hpre (create_valid s0 nodes plan hpre hsub hfresh hnd)

/-- the fixed code respects the WAL protocol (the statement the harness re-checks on every observed trace) -/
theorem create_respects_protocol (s0 : St R) (nodes : List String) (plan : Plan R) (hpre : Pre s0)
    (hsub : ∀ e ∈ plan, e.1 ∈ nodes) (hfresh : ∀ j ∈ planIds plan, recorded s0 j = false)
    (hnd : (planIds plan).Nodup) : validTrace s0 (createSteps nodes plan) = true :=
  create_valid s0 nodes plan hpre hsub hfresh hnd

/-- The invariant behind it ("every committed effect not yet final is covered by a pending
event") holds after every prefix. -/
theorem covered_at_every_crash_point (s0 : St R) (tr : List (Step R)) (i : Nat)
    (hpre : Pre s0) (hv : validTrace s0 tr = true) : Inv (crashAfter i s0 tr) :=
  exec_inv _ s0 (pre_inv s0 hpre) (validTrace_take tr s0 i hv)

/-- Recovery alone: whatever state the invariant holds in. -/
theorem recover_from_inv (s : St R) (h : Inv s) : Good (recover s) := recover_good s h

/-- The exception of the property: a container that survives recovery was not logged
(its `create-workload` event was not pending at the crash). -/
theorem surviving_container_unlogged (s : St R) (id : Nat)
    (h : hasCt (recover s) id = true) : hasCt s id = true ∧ pendingCreated s.wal id = false := by
  have key : ∀ (evs : List Ev) (s : St R), hasCt (recoverL s evs) id = true →
      hasCt s id = true ∧ pendingCreated evs id = false := by
    intro evs
    induction evs with
    | nil => intro s h; exact ⟨h, rfl⟩
    | cons e es ih =>
      intro s h
      obtain ⟨h1, h2⟩ := ih _ h
      have hsub : ∀ (cts : List Ct) (j : Nat), (cts.filter (fun c => c.id != j)).any (fun c => c.id == id) = true →
          cts.any (fun c => c.id == id) = true ∧ j ≠ id := by
        intro cts j hh
        rw [List.any_eq_true] at hh ⊢
        obtain ⟨c, hc, hp⟩ := hh
        rw [List.mem_filter] at hc
        refine ⟨⟨c, hc.1, hp⟩, ?_⟩
        intro hj; subst hj
        simp at hp; simp [hp] at hc
      cases e with
      | alloc ns => exact ⟨h1, by simpa [pendingCreated_cons, Ev.isCreated] using h2⟩
      | processing n => exact ⟨h1, by simpa [pendingCreated_cons, Ev.isCreated] using h2⟩
      | created j nd =>
        have : hasCt s id = true ∧ j ≠ id := by
          simp only [handle, handleCreated] at h1
          split at h1 <;> exact hsub s.cts j h1
        exact ⟨this.1, by simp [pendingCreated_cons, Ev.isCreated, this.2, h2]⟩
  exact key s.wal s h

/-! ### D14 (fixed in /repo): the old order of the deferred calls -/

def s0 : St Int := { usage := fun _ => 0 }
def plan1 : Plan Int := [("n1", [(1, 5)])]

/-- the fixed program respects the protocol on the sample deployment … -/
example : validTrace s0 (createSteps ["n1"] plan1) = true := by decide
/-- … and `Pre` is satisfiable (non-vacuity of `crash_recover_valid`). -/
example : Pre s0 := ⟨fun _ => rfl, rfl, rfl, fun _ h => by simp [recorded, s0] at h, by simp [s0]⟩

/-- **D14.** With the old order (commit `create-processing`, commit `allocate-workload`, THEN
delete the markers) a crash right after the commits leaves a marker that recovery does not
remove: the old step sequence violates the protocol and the property. -/
theorem d14_old_order_counterexample :
    validTrace s0 (createStepsOld ["n1"] plan1) = false ∧
    (recover (crashAfter 12 s0 (createStepsOld ["n1"] plan1))).markers ≠ [] := by
  constructor <;> decide

/-- the fixed order leaves no marker at the same crash index -/
example : (recover (crashAfter 12 s0 (createSteps ["n1"] plan1))).markers = [] := by decide

end Eru.Props.C14
