import Eru.Cluster2.ProofsLeak
/-
C14 — a crash during deployment is repaired by recovery.

Model: `Eru/Cluster2/Recovery.lean` (steps of `cluster/calcium/create.go`, handlers of
`cluster/calcium/wal.go`, replay of `wal/hydro.go`).  Spec: `Eru/Cluster2/Spec.lean`.

Scope: crashes of a FAULT-FREE deployment (`createSteps`), at every step index.  Crashes that
happen while a failed deployment is running its rollback path (RollbackAlloc, removal of a failed
instance) are outside `createSteps`; they are covered only in so far as the executed steps form
a protocol-respecting trace (`crash_recover_valid`).  `ex` = the ids of workloads that were
recorded but not running before the deployment (stopped by their owner): neither the deployment
nor recovery touches them, and they are exempt from "recorded ⇒ running".
-/
namespace Eru.Props.C14
open Eru.Cluster (ResAlg)
open Eru.Cluster2

variable {R : Type} [ResAlg R] [DecidableEq R] {ex : Nat → Prop}

/-- **Crash anywhere, then recover.**  For every start state satisfying `Pre`, every step
sequence that respects the WAL protocol (`validTrace`: effects only under a pending event,
commits only of final effects — what the deployment code is checked against on every run) and
every crash index `i`, recovery yields: usage = Σ recorded workloads on every node, no
in-progress marker, no pending event, and every instance recorded ⇒ running (so each instance
is fully created, absent, or a leaked never-logged container). -/
theorem crash_recover_valid (s0 : St R) (tr : List (Step R)) (i : Nat)
    (hpre : Pre ex s0) (hv : validTrace s0 tr = true) :
    Good ex (recover (crashAfter i s0 tr)) :=
  recover_good _ (exec_inv _ s0 (pre_inv s0 hpre) (validTrace_take tr s0 i hv))

/-- **C14 for the deployment code as written (after the fix of D14).**  For every start state
satisfying `Pre`, every plan (any number of nodes, any number of instances per node, any
resources) whose nodes are among the logged ones and whose container ids are fresh and distinct,
and EVERY crash index `i` (0 … number of steps, beyond = completed deployment): recovery in a
fresh instance yields consistent usage on every node, no marker, no pending event, and every
recorded instance running. -/
theorem crash_recover (s0 : St R) (nodes : List String) (plan : Plan R) (i : Nat) (hpre : Pre ex s0)
    (hsub : ∀ e ∈ plan, e.1 ∈ nodes) (hfresh : ∀ j ∈ planIds plan, recorded s0 j = false)
    (hnd : (planIds plan).Nodup) :
    Good ex (recover (crashAfter i s0 (createSteps nodes plan))) :=
  crash_recover_valid s0 _ i hpre (create_valid s0 nodes plan hpre hsub hfresh hnd)

/-- the fixed code respects the WAL protocol (the statement the harness re-checks on every observed trace) -/
theorem create_respects_protocol (s0 : St R) (nodes : List String) (plan : Plan R) (hpre : Pre ex s0)
    (hsub : ∀ e ∈ plan, e.1 ∈ nodes) (hfresh : ∀ j ∈ planIds plan, recorded s0 j = false)
    (hnd : (planIds plan).Nodup) : validTrace s0 (createSteps nodes plan) = true :=
  create_valid s0 nodes plan hpre hsub hfresh hnd

/-- The invariant behind it ("every committed effect not yet final is covered by a pending
event") holds after every prefix. -/
theorem covered_at_every_crash_point (s0 : St R) (tr : List (Step R)) (i : Nat)
    (hpre : Pre ex s0) (hv : validTrace s0 tr = true) : Inv ex (crashAfter i s0 tr) :=
  exec_inv _ s0 (pre_inv s0 hpre) (validTrace_take tr s0 i hv)

/-- Recovery alone: whatever state the invariant holds in. -/
theorem recover_from_inv (s : St R) (h : Inv ex s) : Good ex (recover s) := recover_good s h

/-- The exception of the property: a container that survives recovery was not logged
(its `create-workload` event was not pending at the crash). -/
theorem surviving_container_unlogged (s : St R) (id : Nat)
    (h : hasCt (recover s) id = true) : hasCt s id = true ∧ pendingCreated s.wal id = false := by
  have key : ∀ (evs : List Ev) (s : St R), hasCt (recoverL s evs) id = true →
      hasCt s id = true ∧ pendingCreated evs id = false := by
    intro evs
    induction evs with
    | nil => intro s h; exact ⟨h, rfl⟩
    | cons e es ih =>
      intro s h
      obtain ⟨h1, h2⟩ := ih _ h
      have hsub : ∀ (cts : List Ct) (j : Nat), (cts.filter (fun c => c.id != j)).any (fun c => c.id == id) = true →
          cts.any (fun c => c.id == id) = true ∧ j ≠ id := by
        intro cts j hh
        rw [List.any_eq_true] at hh ⊢
        obtain ⟨c, hc, hp⟩ := hh
        rw [List.mem_filter] at hc
        refine ⟨⟨c, hc.1, hp⟩, ?_⟩
        intro hj; subst hj
        simp at hp; simp [hp] at hc
      cases e with
      | alloc ns => exact ⟨h1, by simpa [pendingCreated_cons, Ev.isCreated] using h2⟩
      | processing n => exact ⟨h1, by simpa [pendingCreated_cons, Ev.isCreated] using h2⟩
      | created j nd =>
        have : hasCt s id = true ∧ j ≠ id := by
          simp only [handle, handleCreated] at h1
          split at h1 <;> exact hsub s.cts j h1
        exact ⟨this.1, by simp [pendingCreated_cons, Ev.isCreated, this.2, h2]⟩
  exact key s.wal s h

/-- **The exception, made precise.**  A container that is leaked (in the engine, not recorded)
after crash + recovery either existed before the deployment or lies in the *window* of the
executed prefix: its `engineCreate` had been executed and its `logCreated` had not — "created in
the instant before the crash, not yet logged".  Holds for every protocol-respecting trace
(`commitCreated` is only enabled for an instance that is fully created or completely absent, so
"logged and committed" cannot leak). -/
theorem leak_only_in_window (s0 : St R) (tr : List (Step R)) (i : Nat) (id : Nat)
    (hv : validTrace s0 tr = true)
    (hl : leaked (recover (crashAfter i s0 tr)) id = true) :
    hasCt s0 id = true ∨ id ∈ window (tr.take i) := by
  simp only [leaked, Bool.and_eq_true, Bool.not_eq_true'] at hl
  obtain ⟨hnr, hct⟩ := hl
  obtain ⟨hcs, hnp⟩ := surviving_container_unlogged _ id hct
  have hrec : recorded (crashAfter i s0 tr) id = false := by
    have := recorded_recoverL id (crashAfter i s0 tr).wal (crashAfter i s0 tr) hnp
    have e : recorded (recover (crashAfter i s0 tr)) id = recorded (recoverL (crashAfter i s0 tr) (crashAfter i s0 tr).wal) id := rfl
    rw [e, this] at hnr; exact hnr
  have hinv : CtInv s0 (exec s0 (tr.take i)) ((tr.take i).foldl windowStep []) :=
    ctinv_exec s0 (tr.take i) s0 [] (fun j hj => Or.inl hj) (validTrace_take tr s0 i hv)
  rcases hinv id hcs with a | a | a | a
  · exact Or.inl a
  · have : recorded (crashAfter i s0 tr) id = true := a
    rw [hrec] at this; cases this
  · have : pendingCreated (crashAfter i s0 tr).wal id = true := a
    rw [hnp] at this; cases this
  · exact Or.inr a

/-- **Every planned instance**, at every crash index of the deployment as written: fully created
(recorded and running), absent from store and engine, or a leaked container whose creation was
the last thing that happened to it before the crash (in the canonical sequence `logCreated id`
directly follows `engineCreate id`, so the crash index lies exactly between the two). -/
theorem instance_outcome (s0 : St R) (nodes : List String) (plan : Plan R) (i : Nat) (id : Nat) (hpre : Pre ex s0)
    (hsub : ∀ e ∈ plan, e.1 ∈ nodes) (hfresh : ∀ j ∈ planIds plan, recorded s0 j = false)
    (hnd : (planIds plan).Nodup) (hex : ¬ ex id) (hnew : hasCt s0 id = false) :
    let s' := recover (crashAfter i s0 (createSteps nodes plan))
    full s' id = true ∨ absent s' id = true ∨
      (leaked s' id = true ∧ id ∈ window ((createSteps nodes plan).take i)) := by
  intro s'
  have hv := create_valid s0 nodes plan hpre hsub hfresh hnd
  have hg : Good ex s' := crash_recover_valid s0 _ i hpre hv
  cases hr : recorded s' id with
  | true => left; simp [full, hr, hg.settled id hex hr]
  | false =>
    cases hc : hasCt s' id with
    | false => right; left; simp [absent, hr, hc]
    | true =>
      right; right
      have hl : leaked s' id = true := by simp [leaked, hr, hc]
      refine ⟨hl, ?_⟩
      rcases leak_only_in_window s0 _ i id hv hl with a | a
      · rw [hnew] at a; cases a
      · exact a

/-! ### D14 (fixed in /repo): the old order of the deferred calls -/

def s0 : St Int := { usage := fun _ => 0 }
def plan1 : Plan Int := [("n1", [(1, 5)])]

/-- a logged-and-committed instance cannot be a leak: `[engineCreate, logCreated, commitCreated]`
does NOT respect the protocol -/
example : validTrace s0 [.engineCreate 1 "n1", .logCreated 1 "n1", .commitCreated 1 "n1"] = false := by decide

/-- the fixed program respects the protocol on the sample deployment … -/
example : validTrace s0 (createSteps ["n1"] plan1) = true := by decide
/-- … and `Pre` is satisfiable (non-vacuity of `crash_recover_valid`). -/
example : Pre (fun _ => False) s0 := ⟨fun _ => rfl, rfl, rfl, fun _ _ h => by simp [recorded, s0] at h, by simp [s0]⟩

/-- `Pre` with prior workloads, one of them STOPPED (recorded, container not running): it is
exempt (`ex`), everything else must be running -/
def s0prior : St Int :=
  { usage := fun n => if n = "n1" then 7 else 0,
    wls := [⟨1001, "n1", 3⟩, ⟨1002, "n1", 4⟩], cts := [⟨1001, "n1", true⟩, ⟨1002, "n1", false⟩] }
example : Pre (fun id => id = 1002) s0prior := by
  refine ⟨?_, rfl, rfl, ?_, by decide⟩
  · intro n
    by_cases h : "n1" = n
    · subst h; simp [s0prior, load, loadL, ResAlg.zero]
    · have h' : ¬ n = "n1" := fun e => h e.symm
      simp [s0prior, load, loadL, h, h', ResAlg.zero]
  · intro id hne hr
    simp [recorded, s0prior] at hr
    rcases hr with e | e
    · subst e; decide
    · exact absurd e.symm hne

/-- **D14.** With the old order (commit `create-processing`, commit `allocate-workload`, THEN
delete the markers) a crash right after the commits leaves a marker that recovery does not
remove: the old step sequence violates the protocol and the property. -/
theorem d14_old_order_counterexample :
    validTrace s0 (createStepsOld ["n1"] plan1) = false ∧
    (recover (crashAfter 12 s0 (createStepsOld ["n1"] plan1))).markers ≠ [] := by
  constructor <;> decide

/-- the fixed order leaves no marker at the same crash index -/
example : (recover (crashAfter 12 s0 (createSteps ["n1"] plan1))).markers = [] := by decide

end Eru.Props.C14
