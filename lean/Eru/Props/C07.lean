import Eru.Book.ProofsCalc
import Eru.Book.ProofsMerge
/-
C07 — Reported deploy capacity equals what an allocation accepts.
Property theorems only; helper lemmas live in Eru/Book/Proofs*.lean.
The CPU scheduler is an arbitrary parameter `sched` throughout.
-/
namespace Eru.Props.C07
open Eru Eru.Book

/-- Plugin level, bound and memory-only requests, any scheduler: for an instance count
    `1 ≤ k ≤ MaxInt`, `CalculateDeploy` accepts `k` iff `k` is at most the capacity reported by
    `doGetNodeDeployCapacity` for the same (validated) request — i.e. the reported capacity is
    the largest accepted count (negative free memory and `memory = 0 ↦ MaxInt` included).
    For bound requests capacity and admission each call the scheduler; here both use the same
    function value `sched n [] req`.  The real `GetCPUPlans` visits NUMA groups in Go map order, so the
    two Go calls may see different orders: `capacity_is_max_accepted_two_calls` below states the
    theorem for two different scheduler answers with the same number of plans, and group "sched"
    proves that the number of plans of the modelled `GetCPUPlans` does not depend on the visiting
    order (`Eru.Props.C04.getCPUPlans_length_order_indep`, with the corollaries
    `capacity_order_indep` and `admission_order_indep`). -/
theorem capacity_is_max_accepted (sched : Sched) (n : NodeInfo) (req0 req : Req)
    (hv : req0.validate = .ok req) (k : Int) (hk1 : 1 ≤ k) (hk2 : k ≤ maxInt) :
    (calculateDeploy sched n k req0).isOk = true ↔ k ≤ deployCapacity sched n req := by
  have hp := validate_props req0 req hv
  unfold calculateDeploy deployCapacity
  rw [hv]
  by_cases hb : req.cpuBind = true
  · simp only [hb, Bool.not_true, Bool.false_eq_true, if_false]
    unfold allocByCPU
    by_cases hl : ((sched n [] req).length : Int) < k
    · simp only [hl, if_true, Outcome.isOk]; constructor
      · intro h; cases h
      · intro h; omega
    · have : ¬ k < 0 := by omega
      simp only [hl, if_false, this, Outcome.isOk, true_iff]; omega
  · simp only [hb, Bool.not_false, if_true]
    unfold allocByMemory
    by_cases hc : req.cpuRequest > ncores n * nano
    · simp only [hc, if_true, Outcome.isOk]; constructor
      · intro h; cases h
      · intro h; omega
    · simp only [hc, if_false]
      by_cases hm : req.memRequest = 0
      · simp [hm, Outcome.isOk]; exact hk2
      · have hpos : req.memRequest > 0 := by omega
        simp only [hm, if_false, hpos, true_and]
        by_cases hd : n.available.memory.tdiv req.memRequest < k
        · simp only [hd, if_true, Outcome.isOk]; constructor
          · intro h; cases h
          · intro h; omega
        · simp only [hd, if_false, Outcome.isOk, true_iff]; omega

/-- The same with two independent scheduler answers (the capacity query and the admission are
    separate Go calls whose NUMA visiting orders may differ): it is enough that both return the
    same *number* of plans — which is `Eru.Props.C04.getCPUPlans_length_order_indep` for the
    modelled `GetCPUPlans` under any two visiting orders. -/
theorem capacity_is_max_accepted_two_calls (schedCap schedAlloc : Sched) (n : NodeInfo) (req0 req : Req)
    (hv : req0.validate = .ok req) (k : Int) (hk1 : 1 ≤ k) (hk2 : k ≤ maxInt)
    (hlen : (schedCap n [] req).length = (schedAlloc n [] req).length) :
    (calculateDeploy schedAlloc n k req0).isOk = true ↔ k ≤ deployCapacity schedCap n req := by
  have : deployCapacity schedCap n req = deployCapacity schedAlloc n req := by
    unfold deployCapacity; rw [hlen]
  rw [this]
  exact capacity_is_max_accepted schedAlloc n req0 req hv k hk1 hk2

/-- A refused count is refused as "insufficient capacity" (never a crash) for `k ≥ 1`. -/
theorem refusal_is_insufficient (sched : Sched) (n : NodeInfo) (req0 req : Req)
    (hv : req0.validate = .ok req) (k : Int) (hk1 : 1 ≤ k) (hk2 : k ≤ maxInt) (h : deployCapacity sched n req < k) :
    calculateDeploy sched n k req0 = .err errInsufficientCapacity := by
  unfold calculateDeploy deployCapacity at *
  rw [hv]
  by_cases hb : req.cpuBind = true
  · simp only [hb, Bool.not_true, Bool.false_eq_true, if_false] at h ⊢
    unfold allocByCPU; simp [h]
  · simp only [hb, Bool.not_false, if_true] at h ⊢
    unfold allocByMemory
    by_cases hc : req.cpuRequest > ncores n * nano
    · simp [hc]
    · simp only [hc, if_false] at h ⊢
      by_cases hm : req.memRequest = 0
      · simp only [hm, if_true] at h
        omega
      · have := (validate_props req0 req hv).1
        have hpos : req.memRequest > 0 := by omega
        simp only [hm, if_false] at h
        simp [hpos, h]

/-- merged capacity of a node over the cpumem plugin (capacity `c`) and scripted plugins -/
def mergedCapacity (c : Int) (ex : Extras) : Int :=
  if c > 0 ∧ ex.all (·.isSome) then ex.foldl (fun a e => min a (e.getD 0)) c else 0

theorem le_foldl_min (ex : Extras) (c k : Int) (h : ex.all (·.isSome) = true) :
    k ≤ ex.foldl (fun a e => min a (e.getD 0)) c ↔ (k ≤ c ∧ extrasAccept ex k = true) := by
  induction ex generalizing c with
  | nil => simp [extrasAccept]
  | cons e rest ih =>
    cases e with
    | none => simp at h
    | some v =>
      have hr : rest.all (·.isSome) = true := by simpa using h
      simp only [List.foldl_cons, Option.getD_some, ih _ hr, extrasAccept, List.all_cons, Bool.and_eq_true,
        decide_eq_true_eq]
      constructor
      · rintro ⟨h1, h2⟩; exact ⟨by omega, by omega, h2⟩
      · rintro ⟨h1, h2, h3⟩; exact ⟨by omega, h3⟩

theorem extrasAccept_false_of_none (ex : Extras) (k : Int) (h : ex.all (·.isSome) = false) :
    extrasAccept ex k = false := by
  induction ex with
  | nil => simp at h
  | cons e rest ih =>
    cases e with
    | none => simp [extrasAccept]
    | some v =>
      have hr : rest.all (·.isSome) = false := by simpa using h
      have := ih hr
      unfold extrasAccept at this ⊢
      simp [this]

/-- the usage recorded by a memory-only allocation of `k` instances -/
theorem alloc_memory_usage (n : NodeInfo) (hw : WFNode n) (hval : Valid n) (k : Nat) (w : WorkloadRes)
    (h1 : w.cpuMap = []) (h2 : w.numaMemory = []) :
    setNodeResourceUsage n none (List.replicate k w) true true =
      .ok { n with usage := { n.usage with cpu := n.usage.cpu + k * w.cpuRequest, memory := n.usage.memory + k * w.memoryRequest } } := by
  unfold setNodeResourceUsage calculateNodeResource
  simp only [Bool.not_true, Bool.false_eq_true, if_false, if_true]
  rw [NodeRes.deepCopy_eq _ hw.uc hw.un]
  have : (List.replicate k w).foldl (fun acc w => acc.add w.toNodeRes) n.usage =
      (List.replicate k w.toNodeRes).foldl (fun a x => a.add x) n.usage := by
    rw [← List.map_replicate, List.foldl_map]
  rw [this, foldl_add_replicate k n.usage w.toNodeRes (by simp [WorkloadRes.toNodeRes, h1]) (by simp [WorkloadRes.toNodeRes, h2]) rfl]
  apply validate_of_valid
  · exact ⟨hw.cc, hw.cn, hw.uc, hw.un⟩
  · exact (valid_congr n _ rfl rfl rfl).2 hval

/-- Manager level, any request (bound included), any scheduler, with any number of further
    plugins that accept `k` iff `k` is within their capacity: if the commit accepts what the
    calculation produced (`hsound`: for bound requests this is the scheduler's soundness, C04;
    for memory-only requests it is proved below), `Manager.Alloc` succeeds iff `1 ≤ k ≤` the
    merged capacity (the minimum over all plugins, 0 if any plugin does not offer the node). -/
theorem manager_capacity_is_max_accepted_of_sound (sched : Sched) (ex : Extras) (n : NodeInfo)
    (req0 req : Req) (hv : req0.validate = .ok req) (k : Int) (hk1 : 1 ≤ k) (hk2 : k ≤ maxInt)
    (hsound : ∀ ws, calculateDeploy sched n k req0 = .ok ws → ∃ n', setNodeResourceUsage n none ws true true = .ok n') :
    (alloc sched ex n k req0).isOk = true ↔ k ≤ mergedCapacity (deployCapacity sched n req) ex := by
  have hcap := capacity_is_max_accepted sched n req0 req hv k hk1 hk2
  have hnk : ¬ k < 0 := by omega
  have hmerged : k ≤ mergedCapacity (deployCapacity sched n req) ex ↔
      (k ≤ deployCapacity sched n req ∧ extrasAccept ex k = true) := by
    unfold mergedCapacity
    by_cases hall : ex.all (·.isSome) = true
    · by_cases hpos : deployCapacity sched n req > 0
      · simp only [hpos, hall, and_self, if_true, le_foldl_min ex _ k hall]
      · simp only [hpos, false_and, if_false]
        constructor
        · intro h; omega
        · intro h; omega
    · have hall' : ex.all (·.isSome) = false := by simpa using hall
      simp only [hall', Bool.false_eq_true, and_false, if_false, extrasAccept_false_of_none ex k hall']
      constructor
      · intro h; omega
      · intro h; exact h.elim
  rw [hmerged]
  unfold alloc
  simp only [hnk, if_false]
  cases hcd : calculateDeploy sched n k req0 with
  | ok ws =>
    have hle : k ≤ deployCapacity sched n req := hcap.1 (by rw [hcd]; rfl)
    obtain ⟨n', hn'⟩ := hsound ws hcd
    simp only [hn', hle, true_and]
    cases extrasAccept ex k <;> simp [Outcome.isOk]
  | err e =>
    have hnle : ¬ k ≤ deployCapacity sched n req := fun h => by
      have := hcap.2 h; rw [hcd] at this; cases this
    simp [Outcome.isOk, hnle]
  | panic m =>
    have hnle : ¬ k ≤ deployCapacity sched n req := fun h => by
      have := hcap.2 h; rw [hcd] at this; cases this
    simp [Outcome.isOk, hnle]
  | diverge =>
    have hnle : ¬ k ≤ deployCapacity sched n req := fun h => by
      have := hcap.2 h; rw [hcd] at this; cases this
    simp [Outcome.isOk, hnle]

/-- Manager level, memory-only requests: on any stored (well-formed, validated) node the commit
    of a memory-only allocation cannot fail, so `Manager.Alloc` (calculation *and* commit)
    succeeds iff `1 ≤ k ≤` the merged capacity — unconditionally. -/
theorem manager_capacity_is_max_accepted (sched : Sched) (ex : Extras) (n : NodeInfo) (hw : WFNode n) (hval : Valid n)
    (req0 req : Req) (hv : req0.validate = .ok req) (hb : req.cpuBind = false)
    (k : Int) (hk1 : 1 ≤ k) (hk2 : k ≤ maxInt) :
    (alloc sched ex n k req0).isOk = true ↔ k ≤ mergedCapacity (deployCapacity sched n req) ex := by
  apply manager_capacity_is_max_accepted_of_sound sched ex n req0 req hv k hk1 hk2
  intro ws hcd
  -- the workloads are `k` copies of the same memory-only resource, so the commit succeeds
  unfold calculateDeploy at hcd
  rw [hv] at hcd
  simp only [hb, Bool.not_false, if_true] at hcd
  unfold allocByMemory at hcd
  by_cases c1 : req.cpuRequest > ncores n * nano
  · simp [c1] at hcd
  · by_cases c2 : req.memRequest > 0 ∧ Int.tdiv n.available.memory req.memRequest < k
    · simp [c1, c2] at hcd
    · simp only [c1, c2, if_false] at hcd
      cases hcd
      exact ⟨_, alloc_memory_usage n hw hval k.toNat _ rfl rfl⟩

/-! ### `mergedCapacity` is what the manager's merge computes -/

/-- the plugins' answers about one node: cpumem offers it iff its capacity is positive, a scripted
    plugin offers it with its scripted capacity -/
def extraAnswer (node : String) : Option Int → Answer
  | some v => [(node, { cap := v })]
  | none => []

def answersFor (node : String) (c : Int) (ex : Extras) : List Answer :=
  (if c > 0 then [(node, ({ cap := c } : Cap))] else []) :: ex.map (extraAnswer node)

theorem find_extraAnswer (node : String) (e : Option Int) :
    (extraAnswer node e).find? node = e.map fun v => ({ cap := v } : Cap) := by
  cases e <;> simp [extraAnswer, Answer.find?]

theorem offered_extras (node : String) (ex : Extras) :
    offeredByAll (ex.map (extraAnswer node)) node = ex.all (·.isSome) := by
  induction ex with
  | nil => rfl
  | cons e rest ih =>
    simp only [offeredByAll, List.map_cons, List.all_cons] at ih ⊢
    rw [ih, find_extraAnswer]; cases e <;> rfl

theorem capsOf_extras (node : String) (ex : Extras) (h : ex.all (·.isSome) = true) :
    capsOf (ex.map (extraAnswer node)) node = ex.map (·.getD 0) := by
  induction ex with
  | nil => rfl
  | cons e rest ih =>
    cases e with
    | none => simp at h
    | some v =>
      have hr : rest.all (·.isSome) = true := by simpa using h
      simp only [capsOf, List.map_cons, List.filterMap_cons, find_extraAnswer, Option.map_some, Option.getD_some] at ih ⊢
      rw [ih hr]

/-- The `mergedCapacity` used in the manager-level theorems is the capacity that the model of
    `Manager.GetNodesDeployCapacity` (`managerDeployCapacity`: fold of `mergeCapacity`, weighted
    average) reports for the node, and the node is offered exactly when cpumem's capacity is
    positive and every other plugin offers it. -/
theorem mergedCapacity_eq_manager (node : String) (c : Int) (ex : Extras) :
    ((managerDeployCapacity (answersFor node c ex)).1.find? node).map (·.cap) =
      if c > 0 ∧ ex.all (·.isSome) = true then some (mergedCapacity c ex) else none := by
  have hfind : (managerDeployCapacity (answersFor node c ex)).1.find? node = (mergedOf (answersFor node c ex) node).map average := by
    unfold managerDeployCapacity
    simp only
    rw [← mergeFold_find]
    exact find_map _ average node
  rw [hfind]
  unfold mergedOf
  have hne : answersFor node c ex ≠ [] := by simp [answersFor]
  by_cases hc : c > 0
  · have hoff : offeredByAll (answersFor node c ex) node = ex.all (·.isSome) := by
      have := offered_extras node ex
      simp only [offeredByAll, answersFor, hc, if_true, List.all_cons, Answer.find?, Option.isSome_some, Bool.true_and] at this ⊢
      exact this
    by_cases hall : ex.all (·.isSome) = true
    · have hmin : minCap (answersFor node c ex) node = mergedCapacity c ex := by
        have hcaps := capsOf_extras node ex hall
        unfold capsOf at hcaps
        unfold minCap mergedCapacity
        simp only [answersFor, hc, if_true, List.filterMap_cons, Answer.find?, Option.map_some, hcaps, hall, and_self]
        rw [List.foldl_map]
      simp [hne, hoff, hall, hc, hmin, average]
    · simp [hne, hoff, hall]
  · have hoff : offeredByAll (answersFor node c ex) node = false := by
      simp [offeredByAll, answersFor, hc, Answer.find?]
    simp [hoff, hc]

/-- Nodes with zero (or negative) capacity are not offered by the plugin, and every offered
    node is reported with its positive capacity. -/
theorem zero_capacity_not_offered (sched : Sched) (nodes : List (String × NodeInfo)) (req0 req : Req)
    (hv : req0.validate = .ok req) (offered : List (String × Int)) (total : Int)
    (h : pluginDeployCapacity sched nodes req0 = .ok (offered, total)) :
    (∀ p ∈ offered, p.2 > 0) ∧
    (∀ name c, (name, c) ∈ offered ↔ (c > 0 ∧ ∃ n, (name, n) ∈ nodes ∧ c = deployCapacity sched n req)) := by
  unfold pluginDeployCapacity at h
  rw [hv] at h
  simp only [Except.ok.injEq, Prod.mk.injEq] at h
  obtain ⟨h1, _⟩ := h
  subst h1
  constructor
  · intro p hp
    simp only [List.mem_filter, decide_eq_true_eq] at hp
    exact hp.2
  · intro name c
    simp only [List.mem_filter, List.mem_map, decide_eq_true_eq, Prod.mk.injEq, Prod.exists]
    constructor
    · rintro ⟨⟨a, b, hab, rfl, rfl⟩, hc⟩; exact ⟨hc, b, hab, rfl⟩
    · rintro ⟨hc, b, hab, rfl⟩; exact ⟨⟨name, b, hab, rfl, rfl⟩, hc⟩

theorem sum_nonneg' (l : List Int) (h : ∀ c ∈ l, 0 ≤ c) : 0 ≤ l.sum := by
  induction l with
  | nil => simp
  | cons c rest ih =>
    have := h c (by simp)
    have := ih (fun x hx => h x (by simp [hx]))
    simp only [List.sum_cons]; omega

theorem foldl_satAdd (l : List Int) (t : Int) (ht : 0 ≤ t) (ht2 : t ≤ maxInt) (hl : ∀ c ∈ l, 0 ≤ c) :
    l.foldl satAdd t = min (t + l.sum) maxInt := by
  induction l generalizing t with
  | nil => simp; omega
  | cons c rest ih =>
    have hc : 0 ≤ c := hl c (by simp)
    have hs : 0 ≤ rest.sum := sum_nonneg' rest (fun x hx => hl x (by simp [hx]))
    simp only [List.foldl_cons, List.sum_cons]
    have hstep : satAdd t c = if c > maxInt - t then maxInt else t + c := rfl
    rw [hstep]
    split
    · rw [ih maxInt (by unfold maxInt; omega) (by omega) (fun x hx => hl x (by simp [hx]))]
      unfold maxInt at *; omega
    · rw [ih (t + c) (by omega) (by omega) (fun x hx => hl x (by simp [hx]))]
      omega

/-- The manager's total (fixed code) is the saturating sum of the offered capacities, for any
    plugin answers merged in any order. -/
theorem total_saturating (answers : List Answer)
    (h : ∀ p ∈ (managerDeployCapacity answers).1, 0 ≤ p.2.cap) :
    (managerDeployCapacity answers).2 = satSum ((managerDeployCapacity answers).1.map (·.2.cap)) := by
  unfold managerDeployCapacity at *
  simp only at h ⊢
  generalize (List.map (fun x => (x.1, average x.2)) ((mergeFold answers).getD [])) = merged at h ⊢
  have : merged.foldl (fun t x => satAdd t x.2.cap) 0 = (merged.map (·.2.cap)).foldl satAdd 0 := by
    rw [List.foldl_map]
  rw [this, foldl_satAdd _ 0 (by omega) (by unfold maxInt; omega)]
  · simp [satSum]
  · intro c hc
    simp only [List.mem_map] at hc
    obtain ⟨p, hp, rfl⟩ := hc
    exact h p hp

/-- The total loop before the fix is *not* saturating: an unlimited node followed by a finite
    one overflows to a negative total (witness replayed on the real code as corpus case 1). -/
theorem total_old_counterexample : totalOld [maxInt, 5] < 0 ∧ satSum [maxInt, 5] = maxInt := by decide

/-- Memory-only requests with `memory > 0`: committing an allocation of `k ≤ capacity`
    instances lowers the reported capacity by exactly `k`. -/
theorem memory_capacity_drops_by_k (sched : Sched) (n : NodeInfo) (hw : WFNode n) (hval : Valid n)
    (req0 req : Req) (hv : req0.validate = .ok req) (hb : req.cpuBind = false) (hm : req.memRequest > 0)
    (k : Int) (hk1 : 1 ≤ k) (hk2 : k ≤ deployCapacity sched n req) :
    ∃ ws n', alloc sched [] n k req0 = .ok (ws, n') ∧ ws.length = k.toNat ∧
      deployCapacity sched n' req = deployCapacity sched n req - k := by
  have hnk : ¬ k < 0 := by omega
  have hcap : deployCapacity sched n req =
      if req.cpuRequest > ncores n * nano then 0 else Int.tdiv n.available.memory req.memRequest := by
    have hm0 : ¬ req.memRequest = 0 := by omega
    unfold deployCapacity; simp [hb, hm0]
  have hc : ¬ req.cpuRequest > ncores n * nano := by
    intro hc; rw [hcap] at hk2; simp only [hc, if_true] at hk2; omega
  simp only [hc, if_false] at hcap
  have hd : ¬ (req.memRequest > 0 ∧ Int.tdiv n.available.memory req.memRequest < k) := by omega
  unfold alloc
  simp only [hnk, if_false]
  have hcd : calculateDeploy sched n k req0 = .ok (List.replicate k.toNat
      { cpuRequest := req.cpuRequest, cpuLimit := req.cpuLimit, memoryRequest := req.memRequest, memoryLimit := req.memLimit }) := by
    unfold calculateDeploy; rw [hv]; simp only [hb, Bool.not_false, if_true]
    unfold allocByMemory; simp only [hc, if_false, hd]
  rw [hcd]
  simp only [extrasAccept, List.all_nil, Bool.not_true, Bool.false_eq_true, if_false]
  rw [alloc_memory_usage n hw hval k.toNat _ rfl rfl]
  refine ⟨_, _, rfl, by simp, ?_⟩
  -- the new available memory is the old one minus k * memRequest
  have hav : ∀ m : NodeInfo, m.capacity = n.capacity → m.available.memory = n.capacity.memory - m.usage.memory := by
    intro m hm; unfold NodeInfo.available NodeRes.sub NodeRes.deepCopy; simp [hm]
  have hnc : ∀ m : NodeInfo, m.capacity = n.capacity → ncores m = ncores n := by intro m hm; unfold ncores; rw [hm]
  have hm0 : ¬ req.memRequest = 0 := by omega
  have hkn : ((k.toNat : Nat) : Int) = k := by omega
  have key : ∀ m : NodeInfo, m.capacity = n.capacity →
      deployCapacity sched m req = (n.capacity.memory - m.usage.memory).tdiv req.memRequest := by
    intro m hmc
    unfold deployCapacity
    rw [hnc m hmc, hav m hmc]
    simp only [hb, Bool.not_false, if_true, hc, if_false, hm0]
  rw [key n rfl] at hk2
  rw [key n rfl, key]
  · simp only [hkn]
    have : n.capacity.memory - (n.usage.memory + k * req.memRequest) = (n.capacity.memory - n.usage.memory) - k * req.memRequest := by omega
    rw [this]
    exact tdiv_sub_mul hm hk1 hk2
  · rfl

/-- the specification predicate evaluated by the oracle on the implementation's output
    (`acceptOkB cap k accepted`) holds of the model -/
theorem accept_spec (sched : Sched) (n : NodeInfo) (req0 req : Req)
    (hv : req0.validate = .ok req) (k : Int) (hk1 : 1 ≤ k) (hk2 : k ≤ maxInt) :
    acceptOkB (deployCapacity sched n req) k (calculateDeploy sched n k req0).isOk = true := by
  have := capacity_is_max_accepted sched n req0 req hv k hk1 hk2
  unfold acceptOkB
  cases h : (calculateDeploy sched n k req0).isOk
  · have : ¬ k ≤ deployCapacity sched n req := fun hle => by rw [this.2 hle] at h; cases h
    simp [this]
  · simp [this.1 h, hk1]

theorem wrap64_id (x : Int) (h0 : 0 ≤ x) (h1 : x ≤ maxInt) : wrap64 x = x := by
  unfold wrap64 maxInt at *
  have : x % 18446744073709551616 = x := Int.emod_eq_of_lt h0 (by omega)
  simp only [this]
  split <;> omega

theorem foldl_pluginTotal (l : List Int) (t : Int) (ht : 0 ≤ t) (hl : ∀ c ∈ l, 0 < c ∧ c ≤ maxInt)
    (hfin : t = maxInt ∨ t + (l.filter (· ≠ maxInt)).sum < maxInt) :
    l.foldl pluginTotalStep t = if t = maxInt ∨ maxInt ∈ l then maxInt else t + l.sum := by
  induction l generalizing t with
  | nil => simp
  | cons c rest ih =>
    have hc := hl c (by simp)
    have hrest : ∀ x ∈ rest, 0 < x ∧ x ≤ maxInt := fun x hx => hl x (by simp [hx])
    simp only [List.foldl_cons]
    by_cases h1 : t = maxInt ∨ c = maxInt
    · have hstep : pluginTotalStep t c = maxInt := by unfold pluginTotalStep; simp [h1]
      rw [hstep, ih maxInt (by unfold maxInt; omega) hrest (Or.inl rfl)]
      have : t = maxInt ∨ maxInt ∈ c :: rest := by
        rcases h1 with h | h
        · exact Or.inl h
        · exact Or.inr (by simp [h])
      rw [if_pos this]; simp
    · have h1' : t ≠ maxInt ∧ c ≠ maxInt := by
        constructor
        · exact fun e => h1 (Or.inl e)
        · exact fun e => h1 (Or.inr e)
      have hsum : t + (c + (rest.filter (· ≠ maxInt)).sum) < maxInt := by
        rcases hfin with h | h
        · exact absurd h h1'.1
        · simpa [List.filter_cons, h1'.2] using h
      have hnn : 0 ≤ (rest.filter (· ≠ maxInt)).sum :=
        sum_nonneg' _ (fun x hx => by have := (hrest x (List.mem_filter.1 hx).1).1; omega)
      have hstep : pluginTotalStep t c = t + c := by
        unfold pluginTotalStep; simp only [h1, if_false]
        exact wrap64_id _ (by omega) (by omega)
      rw [hstep, ih (t + c) (by omega) hrest (Or.inr (by omega))]
      have e1 : ¬ t + c = maxInt := by omega
      by_cases hm : maxInt ∈ rest
      · have : t = maxInt ∨ maxInt ∈ c :: rest := Or.inr (by simp [hm])
        simp [hm, this]
      · have : ¬ (t = maxInt ∨ maxInt ∈ c :: rest) := by
          rintro (h | h)
          · exact h1'.1 h
          · simp only [List.mem_cons] at h
            rcases h with h | h
            · exact h1'.2 h.symm
            · exact hm h
        simp only [e1, hm, or_self, if_false, this, List.sum_cons]; omega

/-- The plugin's own total (as written: sticks at MaxInt, otherwise plain int64 addition) is
    the saturating sum of the offered capacities as long as the finite capacities do not add up
    to 2^63-1 or more (they are byte counts divided by a request: exabytes would be needed). -/
theorem plugin_total_saturating (sched : Sched) (nodes : List (String × NodeInfo)) (req0 req : Req)
    (hv : req0.validate = .ok req) (offered : List (String × Int)) (total : Int)
    (h : pluginDeployCapacity sched nodes req0 = .ok (offered, total))
    (hmax : ∀ p ∈ offered, p.2 ≤ maxInt)
    (hfin : ((offered.map (·.2)).filter (· ≠ maxInt)).sum < maxInt) :
    total = satSum (offered.map (·.2)) := by
  have hpos := (zero_capacity_not_offered sched nodes req0 req hv offered total h).1
  unfold pluginDeployCapacity at h
  rw [hv] at h
  simp only [Except.ok.injEq, Prod.mk.injEq] at h
  obtain ⟨h1, h2⟩ := h
  rw [← h2, h1]
  have : offered.foldl (fun t x => pluginTotalStep t x.2) 0 = (offered.map (·.2)).foldl pluginTotalStep 0 := by
    rw [List.foldl_map]
  have hf : (fun (t : Int) (x : String × Int) => match x with | (_, c) => pluginTotalStep t c) = fun t x => pluginTotalStep t x.2 := by
    funext t ⟨a, b⟩; rfl
  rw [hf, this]
  have hl : ∀ c ∈ offered.map (·.2), 0 < c ∧ c ≤ maxInt := by
    intro c hc
    rw [List.mem_map] at hc
    obtain ⟨p, hp, rfl⟩ := hc
    exact ⟨hpos p hp, hmax p hp⟩
  rw [foldl_pluginTotal _ 0 (by omega) hl (Or.inr (by omega))]
  have h0 : ¬ (0 : Int) = maxInt := by unfold maxInt; omega
  unfold satSum
  by_cases hm : maxInt ∈ offered.map (·.2)
  · simp only [h0, hm, or_true, if_true]
    -- one unlimited capacity and the others positive: the sum is at least MaxInt
    have : maxInt ≤ (offered.map (·.2)).sum := by
      have key : ∀ l : List Int, (∀ c ∈ l, 0 < c) → maxInt ∈ l → maxInt ≤ l.sum := by
        intro l hl hm
        induction l with
        | nil => cases hm
        | cons a rest ih =>
          have hr := sum_nonneg' rest (fun x hx => by have := hl x (by simp [hx]); omega)
          simp only [List.sum_cons]
          rcases List.mem_cons.1 hm with e | e
          · omega
          · have := ih (fun x hx => hl x (by simp [hx])) e
            have := hl a (by simp); omega
      exact key _ (fun c hc => (hl c hc).1) hm
    omega
  · simp only [h0, hm, or_self, if_false, Int.zero_add]
    have : ((offered.map (·.2)).filter (· ≠ maxInt)) = offered.map (·.2) := by
      apply List.filter_eq_self.2
      intro c hc
      simp only [ne_eq, decide_eq_true_eq]
      exact fun e => hm (e ▸ hc)
    rw [this] at hfin
    omega

/-- the hypotheses are satisfiable: a 2-core node with 1000 bytes, 310 used, request of 100 bytes:
    capacity 6, 6 accepted, 7 refused -/
example : ∃ n req, WFNode n ∧ Valid n ∧ req.validate = .ok req ∧ deployCapacity (fun _ _ _ => []) n req = 6 ∧
    (alloc (fun _ _ _ => []) [] n 6 req).isOk = true ∧ (alloc (fun _ _ _ => []) [] n 7 req).isOk = false := by
  refine ⟨{ capacity := { cpu := 2 * nano, cpuMap := [("0", 100), ("1", 100)], memory := 1000 },
            usage := { cpu := nano / 2, cpuMap := [("0", 50)], memory := 310 } },
          { cpuRequest := nano / 2, memRequest := 100 }, ⟨by decide, by decide, by decide, by decide⟩, by decide, rfl,
          by decide, by decide, by decide⟩

end Eru.Props.C07
