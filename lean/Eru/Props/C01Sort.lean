import Eru.Strategy.ProofsAnySort
/-
C01–C03 for DRAINED / EACH / FILL do not depend on Go's sorting algorithm.

The executable model (Eru/Strategy/Model.lean) takes `sort.Slice` to be insertion sort (`GoSort.isort`),
which is what Go runs for slices of at most 12 elements; for longer slices Go switches to pdqsort, which is
not modelled.  The property theorems of Eru/Props/C0{1,2,3}.lean are stated for `deploy`, i.e. for that
insertion-sort instance.  The theorems here remove the dependency: the three sort-based strategies are
`drained = drainedOn (isort drainedLess infos)`, `average = averageOn (isort averageLess infos)`,
`fill = fillOn (isort fillLess infos)`, and every clause of C01 (`c01`), C02 (`feasible`) and C03 (`c03`)
holds for `drainedOn sorted`, `averageOn sorted`, `fillOn sorted` with ANY list `sorted` that

* is a permutation of the candidates (`sorted.Perm infos`), and
* is sorted w.r.t. the strategy's comparator: `sorted.Pairwise (fun a b => less b a = false)` — no element is
  strictly less than an earlier one.  This is exactly the postcondition of `sort.Slice` for a strict weak
  order (the comparators are strict weak orders: `drainedLess_sw`, `averageLess_sw`, `fillLess_sw`), stable or
  not, so it covers pdqsort as well as insertion sort; tie order is left completely free.

Refusals are sort-independent too (same error, and the reference says infeasible), nothing panics or diverges,
and `isort_is_sorted_perm` shows that the insertion-sort instance of the executable model is one such sorted
permutation.  Property statements only; the machinery is in Eru/Strategy/ProofsAnySort.lean.
-/
namespace Eru.Props.C01Sort
open Eru Eru.Strategy Eru.GoSort

variable {infos sorted : List Info} {need total limit : Int} {p : Plan} {e : String}

/-- **DRAINED, any sorting algorithm.** Whatever permutation of the candidates, sorted w.r.t. `drainedLess`,
Go's `sort.Slice` produces, a produced plan satisfies C01, certifies feasibility (C02) and obeys the balancing
rule (C03). -/
theorem drained_any_sort (hv : Valid infos) (hp : sorted.Perm infos)
    (hs : sorted.Pairwise (fun a b => drainedLess b a = false)) (hneed : 1 ≤ need)
    (h : drainedOn sorted need total = .ok p) :
    c01 .drained infos need limit p = true ∧ feasible .drained infos need limit = true ∧
      c03 .drained infos need limit p = true := by
  have hplan := drainedOn_plan hv hp hneed h
  refine ⟨?_, ?_, (c03_drained_iff ..).mpr (drainedOn_bal hv hp hs hneed h)⟩
  · simp [c01, c01Common_of_within hplan.1, hplan.2]
  · simp only [feasible, ge_iff_le, decide_eq_true_eq]
    exact sum_ok_feasible hplan

/-- **EACH, any sorting algorithm.** -/
theorem each_any_sort (hv : Valid infos) (hp : sorted.Perm infos)
    (hs : sorted.Pairwise (fun a b => averageLess b a = false)) (hneed : 1 ≤ need)
    (h : averageOn sorted need limit = .ok p) :
    c01 .each infos need limit p = true ∧ feasible .each infos need limit = true ∧
      c03 .each infos need limit p = true := by
  have hsplit := averageOn_plan hv hp hs h
  exact ⟨c01_each_of_split hv hneed hsplit, (averageOn_cases_perm need limit hp hs).1 p h,
    (c03_each_iff ..).mpr (each_bal_of_split hneed hsplit)⟩

/-- **FILL, any sorting algorithm** (`flag` = the plan comes with `ErrAlreadyFilled`; the clauses hold either way). -/
theorem fill_any_sort {flag : Bool} (hv : Valid infos) (hp : sorted.Perm infos)
    (hs : sorted.Pairwise (fun a b => fillLess b a = false))
    (h : fillOn sorted need limit = .ok (p, flag)) :
    c01 .fill infos need limit p = true ∧ feasible .fill infos need limit = true ∧
      c03 .fill infos need limit p = true := by
  have hsplit := fillOn_plan hv hp hs h
  exact ⟨c01_fill_of_split hv hsplit, (fillOn_cases need limit hp).1 _ h,
    (c03_fill_iff ..).mpr (fill_bal_of_split hsplit)⟩

/-- **DRAINED refusals do not depend on the sorting algorithm** (not even on sortedness): a refusal on any
ordering of the candidates is `errInsufficient`, the executable (insertion-sort) model refuses with the same
error, and the reference says infeasible — `total` being the resource manager's saturating capacity sum. -/
theorem drained_refusal_any_sort (hv : Valid infos) (hp : sorted.Perm infos) (hneed : 1 ≤ need)
    (hmax : need ≤ maxInt) (ht : total = satTotal infos) (h : drainedOn sorted need total = .err e) :
    e = errInsufficient ∧ drained infos need total = .err e ∧ feasible .drained infos need limit = false := by
  obtain ⟨he, hf⟩ := drainedOn_err (limit := limit) hv hp hneed hmax ht h
  exact ⟨he, he ▸ drained_err_of_infeasible hv hneed hf, hf⟩

/-- **EACH refusals do not depend on the sorting algorithm**: on any capacity-descending permutation the
refusal is one of the two insufficiency errors, the executable (insertion-sort) model refuses with the very same
error, and the reference says infeasible. -/
theorem each_refusal_any_sort (hp : sorted.Perm infos)
    (hs : sorted.Pairwise (fun a b => averageLess b a = false)) (h : averageOn sorted need limit = .err e) :
    (e = errInsufficient ∨ e = errInsufficientCapacity) ∧ average infos need limit = .err e ∧
      feasible .each infos need limit = false := by
  obtain ⟨he, hf⟩ := (averageOn_cases_perm need limit hp hs).2.1 e h
  exact ⟨he, averageOn_err_perm (hp.trans (isort_perm averageLess infos).symm) hs
    (isort_sorted averageLess_sw infos) h, hf⟩

/-- **FILL refusals do not depend on the sorting algorithm** (not even on sortedness). -/
theorem fill_refusal_any_sort (hp : sorted.Perm infos) (h : fillOn sorted need limit = .err e) :
    e = errInsufficient ∧ fill infos need limit = .err e ∧ feasible .fill infos need limit = false := by
  obtain ⟨he, hf⟩ := (fillOn_cases need limit hp).2.1 e h
  exact ⟨he, he ▸ fill_err_of_infeasible hf, hf⟩

/-- nothing panics or diverges, whatever order the sort leaves the candidates in -/
theorem no_crash_any_sort (sorted : List Info) (need total limit : Int) (hneed : 1 ≤ need)
    (hs : sorted.Pairwise (fun a b => averageLess b a = false)) :
    ((∀ m, drainedOn sorted need total ≠ .panic m) ∧ drainedOn sorted need total ≠ .diverge) ∧
    ((∀ m, averageOn sorted need limit ≠ .panic m) ∧ averageOn sorted need limit ≠ .diverge) ∧
    ((∀ m, fillOn sorted need limit ≠ .panic m) ∧ fillOn sorted need limit ≠ .diverge) :=
  ⟨drainedOn_no_crash sorted total hneed, (averageOn_cases sorted need limit hs).2.2,
    (fillOn_cases need limit (List.Perm.refl sorted)).2.2⟩

/-- feasible ⇒ a plan, on any sorted permutation: together with `*_any_sort` this makes "a plan is produced
iff the request is feasible" independent of the sorting algorithm -/
theorem feasible_implies_plan_any_sort (hv : Valid infos) (hp : sorted.Perm infos) (hneed : 1 ≤ need)
    (hmax : need ≤ maxInt) (ht : total = satTotal infos) :
    (feasible .drained infos need limit = true → ∃ p, drainedOn sorted need total = .ok p) ∧
    (sorted.Pairwise (fun a b => averageLess b a = false) → feasible .each infos need limit = true →
      ∃ p, averageOn sorted need limit = .ok p) ∧
    (feasible .fill infos need limit = true → ∃ r, fillOn sorted need limit = .ok r) := by
  refine ⟨fun hf => ?_, fun hs hf => ?_, fun hf => ?_⟩
  · cases h : drainedOn sorted need total with
    | ok p => exact ⟨p, rfl⟩
    | err e => have := (drainedOn_err (limit := limit) hv hp hneed hmax ht h).2; rw [hf] at this; cases this
    | panic m => exact absurd h ((drainedOn_no_crash sorted total hneed).1 m)
    | diverge => exact absurd h (drainedOn_no_crash sorted total hneed).2
  · obtain ⟨_, h2, h3, h4⟩ := averageOn_cases_perm need limit hp hs
    cases h : averageOn sorted need limit with
    | ok p => exact ⟨p, rfl⟩
    | err e => have := (h2 e h).2; rw [hf] at this; cases this
    | panic m => exact absurd h (h3 m)
    | diverge => exact absurd h h4
  · obtain ⟨_, h2, h3, h4⟩ := fillOn_cases need limit hp
    cases h : fillOn sorted need limit with
    | ok r => exact ⟨r, rfl⟩
    | err e => have := (h2 e h).2; rw [hf] at this; cases this
    | panic m => exact absurd h (h3 m)
    | diverge => exact absurd h h4

/-- the insertion-sort instance of the executable model is one such sorted permutation: for every strict weak
order `less` (the three comparators are: `drainedLess_sw`, `averageLess_sw`, `fillLess_sw`) -/
theorem isort_is_sorted_perm {α : Type} (less : α → α → Bool) (h : StrictWeak less) (l : List α) :
    (isort less l).Perm l ∧ (isort less l).Pairwise (fun a b => less b a = false) :=
  ⟨isort_perm less l, isort_sorted h l⟩

/-- hence the executable model's DRAINED / EACH / FILL are instances of the `*_any_sort` theorems -/
theorem model_is_instance (infos : List Info) (need total limit : Int) :
    (drained infos need total = drainedOn (isort drainedLess infos) need total ∧
      (isort drainedLess infos).Perm infos ∧
      (isort drainedLess infos).Pairwise (fun a b => drainedLess b a = false)) ∧
    (average infos need limit = averageOn (isort averageLess infos) need limit ∧
      (isort averageLess infos).Perm infos ∧
      (isort averageLess infos).Pairwise (fun a b => averageLess b a = false)) ∧
    (fill infos need limit = fillOn (isort fillLess infos) need limit ∧
      (isort fillLess infos).Perm infos ∧
      (isort fillLess infos).Pairwise (fun a b => fillLess b a = false)) :=
  ⟨⟨rfl, isort_is_sorted_perm _ drainedLess_sw _⟩, ⟨rfl, isort_is_sorted_perm _ averageLess_sw _⟩,
    ⟨rfl, isort_is_sorted_perm _ fillLess_sw _⟩⟩

/-- non-vacuity: a sorted permutation that is NOT the one insertion sort produces (the capacity tie between "a"
and "c" is resolved the other way round, as an unstable sort such as pdqsort may do) meets the hypotheses, yields
a different plan, and the conclusions of `each_any_sort` hold on that plan -/
example :
    let infos : List Info := [⟨"a", 0, 1, 2, 1⟩, ⟨"b", 0, 1, maxInt, 0⟩, ⟨"c", 5, 1, 2, 0⟩]
    let sorted : List Info := [⟨"b", 0, 1, maxInt, 0⟩, ⟨"c", 5, 1, 2, 0⟩, ⟨"a", 0, 1, 2, 1⟩]
    sorted ≠ isort averageLess infos ∧ sorted.Perm infos ∧
    sorted.Pairwise (fun a b => averageLess b a = false) ∧
    averageOn sorted 2 2 = .ok [("b", 2), ("c", 2)] ∧ average infos 2 2 = .ok [("b", 2), ("a", 2)] ∧
    c01 .each infos 2 2 [("b", 2), ("c", 2)] = true ∧ feasible .each infos 2 2 = true ∧
    c03 .each infos 2 2 [("b", 2), ("c", 2)] = true := by
  intro infos sorted
  have hv : Valid infos := by
    refine ⟨by decide, ?_⟩
    intro i hi
    simp only [infos, List.mem_cons, List.mem_nil_iff, or_false] at hi
    rcases hi with rfl | rfl | rfl <;> simp [maxInt]
  have hp : sorted.Perm infos := by decide
  have hs : sorted.Pairwise (fun a b => averageLess b a = false) := by decide
  have h : averageOn sorted 2 2 = .ok [("b", 2), ("c", 2)] := by decide
  obtain ⟨h1, h2, h3⟩ := each_any_sort hv hp hs (by decide) h
  exact ⟨by decide, hp, hs, h, by decide, h1, h2, h3⟩

end Eru.Props.C01Sort
