import Eru.TxnProofs
/-
C17 — the transaction helper rolls back exactly when a step failed.
Every clause is proved for ALL outcome vectors (cond ok/fail × then ok/fail/absent × rollback
ok/fail/absent) and ALL cancellation points: the quantifier is a finite table and `decide`
evaluates the whole table in the kernel.  `txnM_eq_table` lifts the statements from the table to
arbitrary step bodies over an arbitrary world.
-/
namespace Eru.Props.C17
open Eru.Txn

/-- the follow-up step runs iff the condition step succeeded (and a follow-up was given) -/
theorem then_iff_cond_ok : ∀ cond thn rb c,
    countStep .thn (txn cond thn rb c).calls = (if cond = .ok ∧ thn ≠ .absent then 1 else 0) := by decide

/-- the rollback runs exactly once iff some step failed (and a rollback was given), never otherwise -/
theorem rollback_once_iff_failed : ∀ cond thn rb c,
    countStep .rollback (txn cond thn rb c).calls = (if anyFailed cond thn = true ∧ rb ≠ .absent then 1 else 0) := by decide

/-- the rollback is told whether the condition step was the one that failed -/
theorem rollback_told_cond : ∀ cond thn rb c, ∀ k ∈ (txn cond thn rb c).calls,
    k.step = .rollback → k.byCond = some (decide (cond = .fail)) := by decide

/-- `Txn` returns the first failure (the rollback's own error is never returned) -/
theorem returns_first_failure : ∀ cond thn rb c,
    (txn cond thn rb c).ret = (if cond = .fail then .condErr else if thenFailed cond thn then .thenErr else .nil) := by decide

/-- the rollback's context is live on entry and on exit whenever the caller cancels -/
theorem rollback_ctx_live : ∀ cond thn rb c, ∀ k ∈ (txn cond thn rb c).calls,
    k.step = .rollback → k.ctx = .inherit ∧ k.cancelledAtEntry = false ∧ k.cancelledAtExit = false := by decide

/-- the steps that observe the caller's context do see its cancellation (the harness would notice a
`Txn` that detaches everything) -/
theorem cond_sees_cancellation : ∀ cond thn rb, ((txn cond thn rb .beforeCond).calls.any fun k => k.step == .cond && k.cancelledAtEntry) = true := by decide

/-- PCR: the user's rollback runs exactly once iff prepare succeeded and commit failed -/
theorem pcr_rollback_iff_commit_failed : ∀ prep commit rb c,
    countStep .rollback (pcr prep commit rb c).calls = (if thenFailed prep commit = true ∧ rb ≠ .absent then 1 else 0) := by decide

/-- PCR with a non-nil rollback never panics; with a nil rollback it panics exactly when commit fails -/
theorem pcr_panics_iff : ∀ prep commit rb c,
    (pcr prep commit rb c).panicked = (thenFailed prep commit && rb == .absent) := by decide

/-- the whole decidable specification (the predicate the oracle evaluates on /repo's output) holds of the model -/
theorem txn_meets_spec : ∀ cond thn rb c, specTxn cond thn rb (txn cond thn rb c) = [] := by decide
theorem pcr_meets_spec : ∀ prep commit rb c, specPcr prep commit rb (pcr prep commit rb c) = [] := by decide

/-- lifting: for arbitrary step bodies over an arbitrary world, what `Txn` returns and which bodies
it runs (in which order, with which context and flag) is the table entry for the outcomes the
bodies produced -/
theorem lifts_to_arbitrary_bodies {σ : Type} (cond : Body σ) (thn : Option (Body σ)) (rb : Option (Bool → Body σ)) (s : σ) :
    let t := txn (outcomeOf (cond .txn s).1) (thenOutcome cond thn rb s) (rbOutcome rb) .never
    (txnM cond thn rb s).1 = t.ret ∧ (txnM cond thn rb s).2.1 = t.calls.map invOf :=
  txnM_eq_table cond thn rb s

example : (txn .ok (.present .fail) (.present .ok) .duringThen).calls.length = 3 := by decide

end Eru.Props.C17
