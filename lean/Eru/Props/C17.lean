import Eru.TxnProofs
/-
C17 — the transaction helper rolls back exactly when a step failed.
Every clause is proved for ALL outcome vectors (cond ok/fail × then ok/fail/absent × rollback
ok/fail/absent) and ALL cancellation points: the quantifier is a finite table and `decide`
evaluates the whole table in the kernel.  `txnM_eq_table` lifts the statements from the table to
arbitrary step bodies over an arbitrary world.
-/
namespace Eru.Props.C17
open Eru.Txn

/-- the follow-up step runs iff the condition step succeeded (and a follow-up was given) -/
theorem then_iff_cond_ok : ∀ cond thn rb c sl,
    countStep .thn (txn cond thn rb c sl).calls = (if cond = .ok ∧ thn ≠ .absent then 1 else 0) := by decide

/-- the rollback runs exactly once iff some step failed (and a rollback was given), never otherwise -/
theorem rollback_once_iff_failed : ∀ cond thn rb c sl,
    countStep .rollback (txn cond thn rb c sl).calls = (if anyFailed cond thn = true ∧ rb ≠ .absent then 1 else 0) := by decide

/-- the rollback is told whether the condition step was the one that failed -/
theorem rollback_told_cond : ∀ cond thn rb c sl, ∀ k ∈ (txn cond thn rb c sl).calls,
    k.step = .rollback → k.byCond = some (decide (cond = .fail)) := by decide

/-- `Txn` returns the first failure (the rollback's own error is never returned) -/
theorem returns_first_failure : ∀ cond thn rb c sl,
    (txn cond thn rb c sl).ret = (if cond = .fail then .condErr else if thenFailed cond thn then .thenErr else .nil) := by decide

/-- the rollback's context is live when the rollback starts — whenever the caller cancels AND however
long the steps before it took (its `ttl` budget starts when the rollback starts, not at the top of
`Txn`) — and it stays live unless the rollback itself runs longer than `ttl` -/
theorem rollback_ctx_live : ∀ cond thn rb c sl, ∀ k ∈ (txn cond thn rb c sl).calls,
    k.step = .rollback → k.ctx = .inherit ∧ k.cancelledAtEntry = false ∧
      k.cancelledAtExit = decide (sl = .rollback) := by decide

/-- the step context does expire: a follow-up step that runs on it after a slow condition step sees the
deadline (so the harness distinguishes contexts with a fresh budget from the step context) -/
theorem step_ctx_expires : ∀ thn, ((txn .ok (.present thn) (.present .ok) .never .cond).calls.any
    fun k => k.step == .thn && k.cancelledAtEntry) = true := by decide

/-- the steps that observe the caller's context do see its cancellation (the harness would notice a
`Txn` that detaches everything) -/
theorem cond_sees_cancellation : ∀ cond thn rb, ((txn cond thn rb .beforeCond).calls.any fun k => k.step == .cond && k.cancelledAtEntry) = true := by decide

/-- PCR: the user's rollback runs exactly once iff prepare succeeded and commit failed -/
theorem pcr_rollback_iff_commit_failed : ∀ prep commit rb c sl,
    countStep .rollback (pcr prep commit rb c sl).calls = (if thenFailed prep commit = true ∧ rb ≠ .absent then 1 else 0) := by decide

/-- PCR with a non-nil rollback never panics; with a nil rollback it panics exactly when commit fails -/
theorem pcr_panics_iff : ∀ prep commit rb c sl,
    (pcr prep commit rb c sl).panicked = (thenFailed prep commit && rb == .absent) := by decide

/-- the whole decidable specification (the predicate the oracle evaluates on /repo's output) holds of the model -/
theorem txn_meets_spec : ∀ cond thn rb c sl, specTxn cond thn rb (txn cond thn rb c sl) sl = [] := by decide
theorem pcr_meets_spec : ∀ prep commit rb c sl, specPcr prep commit rb (pcr prep commit rb c sl) sl = [] := by decide

/-- lifting, for arbitrary step bodies over an arbitrary world, EVERY cancellation point and every
placement of a step that overruns `ttl`: what `Txn`
returns and which bodies it runs (order, context kind, flag) is the table entry for the outcomes the
bodies produced — a body may read its context (`view`) and behave accordingly — and the final world
is the result of running exactly the bodies in that trace, once each, in order. -/
theorem lifts_to_arbitrary_bodies {σ : Type} (cond : Body σ) (thn : Option (Body σ)) (rb : Option (Bool → Body σ))
    (c : Cancel) (sl : Slow) (s : σ) :
    let t := txn (outcomeOf (cond .txn (view .txn .cond c sl) s).1) (thenOutcome cond thn rb c sl s) (rbOutcome rb) c sl
    (txnM cond thn rb c sl s).1 = t.ret ∧ (txnM cond thn rb c sl s).2.1 = t.calls.map invOf ∧
    (txnM cond thn rb c sl s).2.2 = (txnM cond thn rb c sl s).2.1.foldl (applyInv cond thn rb c sl) s :=
  txnM_eq_table cond thn rb c sl s

/-- the table's entry/exit observations are what a body sees through its context (`view`: cancelled by
the caller, or past the deadline of that context) -/
theorem bodies_observe_view : ∀ cond thn rb c sl, ∀ k ∈ (txn cond thn rb c sl).calls,
    k.cancelledAtEntry = view k.ctx k.step c sl (entryRank k.step) ∧
    k.cancelledAtExit = view k.ctx k.step c sl (exitRank k.step) :=
  observed_view

/-- neither cancellation nor a step overrunning `ttl` changes which steps run or what is returned
(only what the steps observe) -/
theorem cancellation_does_not_change_control_flow : ∀ cond thn rb c sl,
    (txn cond thn rb c sl).calls.map invOf = (txn cond thn rb .never .none).calls.map invOf ∧
    (txn cond thn rb c sl).ret = (txn cond thn rb .never .none).ret :=
  trace_independent_of_cancellation

example : (txn .ok (.present .fail) (.present .ok) .duringThen).calls.length = 3 := by decide

end Eru.Props.C17
