import Eru.Misc.ProofsHelium
/-
C27 — Service discovery subscribers converge to the registered set; Unsubscribe completes.
Model: Eru/Misc/Helium.lean.  "Within one push interval" = "after the next turn of the loop"
(a tick arrives every interval).

The full statement `PropUnsubscribe` (Unsubscribe always completes, whatever the other
subscribers do) is FALSE for the current code (finding D20): one subscriber that neither
receives nor cancels blocks the loop inside `dispatch` forever, so nothing is delivered to
anybody any more and no Unsubscribe returns.
-/
namespace Eru.Props.C27
open Eru.Misc.Helium

/-- **The streamed endpoint set tracks the registered set.**  `A` = changes before the watch was
created, `B` = changes between watch creation and the Get (they are in the Get result *and*
replayed as events), `C` = changes after the Get.  After all events the stream's set has
exactly the members of the registered set (watch-before-get loses nothing, replaying `B` is
harmless). -/
theorem endpoint_set_tracks (R0 : List Addr) (A B C : List WEv) (k : Addr) :
    k ∈ applyAll (applyAll R0 (A ++ B)) (B ++ C) ↔ k ∈ applyAll R0 (A ++ B ++ C) := by
  have hmid : (decide (k ∈ applyAll R0 (A ++ B)) = true) ↔ ((lastOp (A ++ B) k).getD (decide (k ∈ R0)) = true) := by
    rw [decide_eq_true_iff, mem_applyAll]
  rw [mem_applyAll (B ++ C), mem_applyAll (A ++ B ++ C), lastOp_append B C, List.append_assoc, lastOp_append A (B ++ C), lastOp_append B C]
  rw [lastOp_append A B] at hmid
  generalize lastOp C k = c at *
  generalize lastOp B k = b at *
  generalize lastOp A k = a at *
  cases c <;> cases b <;> cases a <;>
    simp only [orE, Option.getD_some, Option.getD_none] at hmid ⊢ <;> first | exact hmid | exact Iff.rfl

/-- had the Get been issued *before* the watch, a change in between would be lost: registered
{a}, deletion of a between Get and watch → the stream keeps reporting a forever -/
example : applyAll (applyAll [] [.put "a"]) [] = ["a"] ∧ applyAll [] [.put "a", .del "a"] = [] := by decide

/-- **Convergence.** If every subscriber is either receiving or cancelled, the next turn of the
loop (a change or the next tick, i.e. at most one push interval later) completes, and every live
subscriber has received exactly the current set as its latest status. -/
theorem converges_if_readers_ready (st : St) (ev : Ev) (hb : st.blocked = false) (he : st.exited = false)
    (hev : ev ≠ .closed) (h : ∀ s ∈ st.subs, s.reading = true ∨ s.cancelled = true) :
    (turn st ev).blocked = false ∧
    (∀ a, ev = .update a → (turn st ev).latest = a) ∧
    (ev = .tick → (turn st ev).latest = st.latest) ∧
    ∀ s' ∈ (turn st ev).subs, s'.live = true → s'.inbox.getLast? = some (turn st ev).latest := by
  unfold turn
  simp only [hb, he, Bool.or_self, Bool.false_eq_true, if_false]
  cases ev with
  | closed => exact absurd rfl hev
  | update a =>
    obtain ⟨h1, _, h3⟩ := dispatch_ready a st.subs h
    refine ⟨h1, ?_, ?_, h3⟩
    · intro a' e; cases e; rfl
    · intro e; cases e
  | tick =>
    obtain ⟨h1, _, h3⟩ := dispatch_ready st.latest st.subs h
    refine ⟨h1, ?_, ?_, h3⟩
    · intro a' e; cases e
    · intro _; rfl
  | unsub id =>
    have hk : ∀ s ∈ (st.subs.partition (·.id = id)).2, s.reading = true ∨ s.cancelled = true := by
      intro s hs
      rw [List.partition_eq_filter_filter] at hs
      exact h s (List.mem_filter.mp hs).1
    obtain ⟨h1, _, h3⟩ := dispatch_ready st.latest _ hk
    refine ⟨h1, ?_, ?_, h3⟩
    · intro a' e; cases e
    · intro e; cases e

/-- **Unsubscribe completes** whenever the loop is at its `select` (not stuck in dispatch): the
entry is removed and its channel closed in that very turn, whatever the other subscribers do. -/
theorem unsubscribe_completes_partial (st : St) (id : Nat) (hb : st.blocked = false) (he : st.exited = false)
    (hin : ∃ s ∈ st.subs, s.id = id) :
    id ∈ (turn st (.unsub id)).closedIds ∧ ∀ s' ∈ (turn st (.unsub id)).subs, s'.id ≠ id := by
  obtain ⟨s, hs, hid⟩ := hin
  unfold turn
  simp only [hb, he, Bool.or_self, Bool.false_eq_true, if_false]
  have hgone : (st.subs.partition (·.id = id)).1.isEmpty = false := by
    rw [List.partition_eq_filter_filter]
    have : s ∈ st.subs.filter (fun x => decide (x.id = id)) := List.mem_filter.mpr ⟨hs, by simp [hid]⟩
    cases hf : st.subs.filter (fun x => decide (x.id = id)) with
    | nil => rw [hf] at this; cases this
    | cons _ _ => rfl
  constructor
  · have hne : ¬ (∀ a ∈ st.subs, ¬ a.id = id) := fun hall => hall s hs hid
    simp [hne]
  · intro s' hs'
    -- dispatch never changes ids nor adds entries
    have key : ∀ (status : List Addr) (l : List Sub), ∀ x ∈ (dispatch status l).1, ∃ y ∈ l, y.id = x.id := by
      intro status l
      induction l with
      | nil => intro x hx; simp [dispatch] at hx
      | cons y r ih =>
        intro x hx
        by_cases hc : y.cancelled = true
        · simp only [dispatch, hc, if_true, List.mem_cons] at hx
          rcases hx with rfl | hx
          · exact ⟨x, by simp, rfl⟩
          · obtain ⟨z, hz, e⟩ := ih x hx; exact ⟨z, by simp [hz], e⟩
        · have hc' : y.cancelled = false := by simpa using hc
          by_cases hr : y.reading = true
          · simp only [dispatch, hc', hr, if_true, Bool.false_eq_true, if_false, List.mem_cons] at hx
            rcases hx with rfl | hx
            · exact ⟨y, by simp, rfl⟩
            · obtain ⟨z, hz, e⟩ := ih x hx; exact ⟨z, by simp [hz], e⟩
          · have hr' : y.reading = false := by simpa using hr
            simp only [dispatch, hc', hr', Bool.false_eq_true, if_false] at hx
            exact ⟨x, hx, rfl⟩
    obtain ⟨y, hy, e⟩ := key _ _ s' hs'
    rw [List.partition_eq_filter_filter] at hy
    have := (List.mem_filter.mp hy).2
    intro h'
    simp [e, h'] at this

/-- a stuck loop never does anything again: no delivery, no Unsubscribe returns -/
theorem blocked_forever (st : St) (evs : List Ev) (hb : st.blocked = true ∨ st.exited = true) : run st evs = st := by
  induction evs with
  | nil => rfl
  | cons ev rest ih =>
    have : turn st ev = st := by unfold turn; rcases hb with hb | hb <;> simp [hb]
    simp only [run, List.foldl_cons, this]
    exact ih

/-- **Head-of-line blocking.** A single subscriber that neither receives nor cancels blocks the
loop at the next change or tick … -/
theorem slow_reader_blocks (st : St) (ev : Ev) (hb : st.blocked = false) (he : st.exited = false)
    (hs : ∃ s ∈ st.subs, s.stuck = true) (hev : ∀ id, ev ≠ .unsub id) (hev' : ev ≠ .closed) :
    (turn st ev).blocked = true := by
  unfold turn
  simp only [hb, he, Bool.or_self, Bool.false_eq_true, if_false]
  cases ev with
  | closed => exact absurd rfl hev'
  | update a => exact dispatch_stuck a st.subs hs
  | tick => exact dispatch_stuck st.latest st.subs hs
  | unsub id => exact absurd rfl (hev id)

/-- full statement: whatever the subscribers do and whatever happened before, an Unsubscribe of an
existing subscription eventually returns (here: is processed by the loop) -/
def PropUnsubscribe : Prop :=
  ∀ (st : St) (evs : List Ev) (id : Nat), st.blocked = false → st.exited = false → (∃ s ∈ st.subs, s.id = id) →
    id ∈ (run st (evs ++ [.unsub id])).closedIds

/-- witness: subscriber 1 never reads, subscriber 2 reads; after one tick the loop is stuck on 1
and Unsubscribe(2) never returns (and 2 receives nothing any more) -/
theorem unsubscribe_counterexample : ¬ PropUnsubscribe := by
  intro h
  have := h { latest := ["10.0.0.1:5001"], closedIds := [], blocked := false,
              subs := [⟨1, false, false, []⟩, ⟨2, true, false, []⟩] } [.tick] 2 rfl rfl ⟨⟨2, true, false, []⟩, by simp, rfl⟩
  revert this
  decide


/-! ### end to end: registrations → stream → loop → subscribers -/

/-- what the stream sends to helium: the snapshot of the Get, then one snapshot per watch response
(a list of events, e.g. one etcd transaction) in which some event changed the set -/
def streamOutput (got : List Addr) (resps : List (List WEv)) : List (List Addr) := got :: emitted got resps

/-- the stream's last message is its current endpoint set (so helium's `latest` is never staler
than the stream itself) -/
theorem stream_last_is_current (got : List Addr) (resps : List (List WEv)) :
    (streamOutput got resps).getLast? = some (applyAll got resps.flatten) := emitted_last got resps

/-- a response whose *last* event is a no-op still pushes the new set when an earlier event changed
it: {5001} + one transaction [put 5002, put 5001] emits {5002, 5001} -/
example : emitted ["5001"] [[.put "5002", .put "5001"]] = [["5002", "5001"]] := by decide

/-- **End-to-end convergence over a whole run.**  Registrations change (`A` before the watch, `B`
between watch and Get, `C` afterwards, delivered in watch responses `resps` of any grouping); the
stream sends `streamOutput`; the loop processes these
messages as `update` events in order, interleaved in any way with ticks and Unsubscribe calls
(`evs`, at least the first message has arrived).  If every subscriber is receiving or cancelled,
then after the turn of the last event the loop is healthy and **every live subscriber's latest
status has exactly the members of the registered set** — i.e. at most one turn (one push interval)
after the last change. -/
theorem converges_end_to_end (R0 : List Addr) (A B C : List WEv) (resps : List (List WEv))
    (hresps : resps.flatten = B ++ C) (st : St) (evs : List Ev) (ev : Ev)
    (hb : st.blocked = false) (he : st.exited = false) (h : AllReady st)
    (hnc : ∀ e ∈ evs ++ [ev], e ≠ .closed)
    (hstream : (evs ++ [ev]).filterMap updateOf = streamOutput (applyAll R0 (A ++ B)) resps) :
    (run st (evs ++ [ev])).blocked = false ∧
    ∀ s' ∈ (run st (evs ++ [ev])).subs, s'.live = true →
      ∃ l, s'.inbox.getLast? = some l ∧ ∀ k, k ∈ l ↔ k ∈ applyAll R0 (A ++ B ++ C) := by
  obtain ⟨h1, h2, h3, h4⟩ := run_healthy st evs hb he (fun e he' => hnc e (by simp [he'])) h
  have hrun : run st (evs ++ [ev]) = turn (run st evs) ev := by simp [run, List.foldl_append]
  have hev : ev ≠ .closed := hnc ev (by simp)
  obtain ⟨c1, _, _, c4⟩ := converges_if_readers_ready (run st evs) ev h1 h2 hev h3
  obtain ⟨_, _, _, t4⟩ := turn_healthy (run st evs) ev h1 h2 hev h3
  rw [hrun]
  refine ⟨c1, ?_⟩
  intro s' hs' hl
  refine ⟨_, c4 s' hs' hl, ?_⟩
  -- the loop's latest status is the stream's last message …
  have hlatest : (turn (run st evs) ev).latest = applyAll (applyAll R0 (A ++ B)) (B ++ C) := by
    rw [t4, h4, ← lastUpdate_append, lastUpdate_filterMap, hstream, stream_last_is_current, hresps]
    rfl
  -- … whose members are the registered set
  intro k
  rw [hlatest]
  exact endpoint_set_tracks R0 A B C k

/-- **Initial condition.** Until the stream's first message arrives the loop's status is the zero
value: a tick that comes first makes every live subscriber receive the *empty* address list. -/
example : (turn (subscribe St.init ⟨1, true, false, []⟩ 0) .tick).subs.map (·.inbox) = [[[]]] := by decide

/-! ### the stream ends: the loop is gone for good -/

/-- **Watch failure kills discovery (finding D20b).**  When the store stream closes its channel
(`watch failed`, a compacted revision, the context of `helium.New`), the loop goroutine returns and
`sync.Once` never starts it again: from then on no subscriber receives anything — not even the
periodic re-push — and no `Unsubscribe` returns, whatever the subscribers do. -/
theorem stream_closed_is_final (st : St) (evs : List Ev) (hb : st.blocked = false) (he : st.exited = false) :
    run st (.closed :: evs) = { st with exited := true } := by
  have h1 : turn st .closed = { st with exited := true } := by unfold turn; simp [hb, he]
  simp only [run, List.foldl_cons, h1]
  exact blocked_forever _ evs (Or.inr rfl)

/-- in particular the full Unsubscribe statement fails after a closed stream even when every
subscriber is a perfect reader -/
theorem unsubscribe_after_close_counterexample :
    ∃ (st : St) (id : Nat), st.blocked = false ∧ st.exited = false ∧ AllReady st ∧ (∃ s ∈ st.subs, s.id = id) ∧
      id ∉ (run st [.closed, .tick, .unsub id]).closedIds :=
  ⟨{ latest := ["10.0.0.1:5001"], closedIds := [], blocked := false, subs := [⟨1, true, false, []⟩] }, 1,
    rfl, rfl, by intro s hs; simp at hs; subst hs; exact Or.inl rfl, ⟨⟨1, true, false, []⟩, by simp, rfl⟩, by decide⟩

/-- the convergence hypotheses are satisfiable by a non-trivial state -/
example : let st : St := { latest := ["a"], closedIds := [], blocked := false,
                           subs := [⟨1, true, false, []⟩, ⟨2, false, true, []⟩, ⟨3, true, false, [["a"]]⟩] }
    (∀ s ∈ st.subs, s.reading = true ∨ s.cancelled = true) ∧
    (turn st (.update ["a", "b"])).subs.map (·.inbox.getLast?) = [some ["a", "b"], none, some ["a", "b"]] := by
  decide

end Eru.Props.C27
