import Eru.Misc.ProofsHelium
/-
C27 — Service discovery subscribers converge to the registered set; Unsubscribe completes.
Model: Eru/Misc/Helium.lean.  "Within one push interval" = "after the next turn of the loop"
(a tick arrives every interval).

The full statement `PropUnsubscribe` (Unsubscribe always completes, whatever the other
subscribers do) is FALSE for the current code (finding D20): one subscriber that neither
receives nor cancels blocks the loop inside `dispatch` forever, so nothing is delivered to
anybody any more and no Unsubscribe returns.
-/
namespace Eru.Props.C27
open Eru.Misc.Helium

/-- **The streamed endpoint set tracks the registered set.**  `A` = changes before the watch was
created, `B` = changes between watch creation and the Get (they are in the Get result *and*
replayed as events), `C` = changes after the Get.  After all events the stream's set has
exactly the members of the registered set (watch-before-get loses nothing, replaying `B` is
harmless). -/
theorem endpoint_set_tracks (R0 : List Addr) (A B C : List WEv) (k : Addr) :
    k ∈ applyAll (applyAll R0 (A ++ B)) (B ++ C) ↔ k ∈ applyAll R0 (A ++ B ++ C) := by
  have hmid : (decide (k ∈ applyAll R0 (A ++ B)) = true) ↔ ((lastOp (A ++ B) k).getD (decide (k ∈ R0)) = true) := by
    rw [decide_eq_true_iff, mem_applyAll]
  rw [mem_applyAll (B ++ C), mem_applyAll (A ++ B ++ C), lastOp_append B C, List.append_assoc, lastOp_append A (B ++ C), lastOp_append B C]
  rw [lastOp_append A B] at hmid
  generalize lastOp C k = c at *
  generalize lastOp B k = b at *
  generalize lastOp A k = a at *
  cases c <;> cases b <;> cases a <;>
    simp only [orE, Option.getD_some, Option.getD_none] at hmid ⊢ <;> first | exact hmid | exact Iff.rfl

/-- had the Get been issued *before* the watch, a change in between would be lost: registered
{a}, deletion of a between Get and watch → the stream keeps reporting a forever -/
example : applyAll (applyAll [] [.put "a"]) [] = ["a"] ∧ applyAll [] [.put "a", .del "a"] = [] := by decide

/-- **Convergence.** If every subscriber is either receiving or cancelled, the next turn of the
loop (a change or the next tick, i.e. at most one push interval later) completes, and every live
subscriber has received exactly the current set as its latest status. -/
theorem converges_if_readers_ready (st : St) (ev : Ev) (hb : st.blocked = false)
    (h : ∀ s ∈ st.subs, s.reading = true ∨ s.cancelled = true) :
    (turn st ev).blocked = false ∧
    (∀ a, ev = .update a → (turn st ev).latest = a) ∧
    (ev = .tick → (turn st ev).latest = st.latest) ∧
    ∀ s' ∈ (turn st ev).subs, s'.live = true → s'.inbox.getLast? = some (turn st ev).latest := by
  unfold turn
  simp only [hb, Bool.false_eq_true, if_false]
  cases ev with
  | update a =>
    obtain ⟨h1, _, h3⟩ := dispatch_ready a st.subs h
    refine ⟨h1, ?_, ?_, h3⟩
    · intro a' e; cases e; rfl
    · intro e; cases e
  | tick =>
    obtain ⟨h1, _, h3⟩ := dispatch_ready st.latest st.subs h
    refine ⟨h1, ?_, ?_, h3⟩
    · intro a' e; cases e
    · intro _; rfl
  | unsub id =>
    have hk : ∀ s ∈ (st.subs.partition (·.id = id)).2, s.reading = true ∨ s.cancelled = true := by
      intro s hs
      rw [List.partition_eq_filter_filter] at hs
      exact h s (List.mem_filter.mp hs).1
    obtain ⟨h1, _, h3⟩ := dispatch_ready st.latest _ hk
    refine ⟨h1, ?_, ?_, h3⟩
    · intro a' e; cases e
    · intro e; cases e

/-- **Unsubscribe completes** whenever the loop is at its `select` (not stuck in dispatch): the
entry is removed and its channel closed in that very turn, whatever the other subscribers do. -/
theorem unsubscribe_completes_partial (st : St) (id : Nat) (hb : st.blocked = false)
    (hin : ∃ s ∈ st.subs, s.id = id) :
    id ∈ (turn st (.unsub id)).closedIds ∧ ∀ s' ∈ (turn st (.unsub id)).subs, s'.id ≠ id := by
  obtain ⟨s, hs, hid⟩ := hin
  unfold turn
  simp only [hb, Bool.false_eq_true, if_false]
  have hgone : (st.subs.partition (·.id = id)).1.isEmpty = false := by
    rw [List.partition_eq_filter_filter]
    have : s ∈ st.subs.filter (fun x => decide (x.id = id)) := List.mem_filter.mpr ⟨hs, by simp [hid]⟩
    cases hf : st.subs.filter (fun x => decide (x.id = id)) with
    | nil => rw [hf] at this; cases this
    | cons _ _ => rfl
  constructor
  · have hne : ¬ (∀ a ∈ st.subs, ¬ a.id = id) := fun hall => hall s hs hid
    simp [hne]
  · intro s' hs'
    -- dispatch never changes ids nor adds entries
    have key : ∀ (status : List Addr) (l : List Sub), ∀ x ∈ (dispatch status l).1, ∃ y ∈ l, y.id = x.id := by
      intro status l
      induction l with
      | nil => intro x hx; simp [dispatch] at hx
      | cons y r ih =>
        intro x hx
        by_cases hc : y.cancelled = true
        · simp only [dispatch, hc, if_true, List.mem_cons] at hx
          rcases hx with rfl | hx
          · exact ⟨x, by simp, rfl⟩
          · obtain ⟨z, hz, e⟩ := ih x hx; exact ⟨z, by simp [hz], e⟩
        · have hc' : y.cancelled = false := by simpa using hc
          by_cases hr : y.reading = true
          · simp only [dispatch, hc', hr, if_true, Bool.false_eq_true, if_false, List.mem_cons] at hx
            rcases hx with rfl | hx
            · exact ⟨y, by simp, rfl⟩
            · obtain ⟨z, hz, e⟩ := ih x hx; exact ⟨z, by simp [hz], e⟩
          · have hr' : y.reading = false := by simpa using hr
            simp only [dispatch, hc', hr', Bool.false_eq_true, if_false] at hx
            exact ⟨x, hx, rfl⟩
    obtain ⟨y, hy, e⟩ := key _ _ s' hs'
    rw [List.partition_eq_filter_filter] at hy
    have := (List.mem_filter.mp hy).2
    intro h'
    simp [e, h'] at this

/-- a stuck loop never does anything again: no delivery, no Unsubscribe returns -/
theorem blocked_forever (st : St) (evs : List Ev) (hb : st.blocked = true) : run st evs = st := by
  induction evs with
  | nil => rfl
  | cons ev rest ih =>
    have : turn st ev = st := by unfold turn; simp [hb]
    simp only [run, List.foldl_cons, this]
    exact ih

/-- **Head-of-line blocking.** A single subscriber that neither receives nor cancels blocks the
loop at the next change or tick … -/
theorem slow_reader_blocks (st : St) (ev : Ev) (hb : st.blocked = false)
    (hs : ∃ s ∈ st.subs, s.stuck = true) (hev : ∀ id, ev ≠ .unsub id) :
    (turn st ev).blocked = true := by
  unfold turn
  simp only [hb, Bool.false_eq_true, if_false]
  cases ev with
  | update a => exact dispatch_stuck a st.subs hs
  | tick => exact dispatch_stuck st.latest st.subs hs
  | unsub id => exact absurd rfl (hev id)

/-- full statement: whatever the subscribers do and whatever happened before, an Unsubscribe of an
existing subscription eventually returns (here: is processed by the loop) -/
def PropUnsubscribe : Prop :=
  ∀ (st : St) (evs : List Ev) (id : Nat), st.blocked = false → (∃ s ∈ st.subs, s.id = id) →
    id ∈ (run st (evs ++ [.unsub id])).closedIds

/-- witness: subscriber 1 never reads, subscriber 2 reads; after one tick the loop is stuck on 1
and Unsubscribe(2) never returns (and 2 receives nothing any more) -/
theorem unsubscribe_counterexample : ¬ PropUnsubscribe := by
  intro h
  have := h { latest := ["10.0.0.1:5001"], closedIds := [], blocked := false,
              subs := [⟨1, false, false, []⟩, ⟨2, true, false, []⟩] } [.tick] 2 rfl ⟨⟨2, true, false, []⟩, by simp, rfl⟩
  revert this
  decide

/-- the convergence hypotheses are satisfiable by a non-trivial state -/
example : let st : St := { latest := ["a"], closedIds := [], blocked := false,
                           subs := [⟨1, true, false, []⟩, ⟨2, false, true, []⟩, ⟨3, true, false, [["a"]]⟩] }
    (∀ s ∈ st.subs, s.reading = true ∨ s.cancelled = true) ∧
    (turn st (.update ["a", "b"])).subs.map (·.inbox.getLast?) = [some ["a", "b"], none, some ["a", "b"]] := by
  decide

end Eru.Props.C27
