import Eru.Cluster2.Recovery
/-
C14 specification predicates (decidable versions are evaluated by the oracle on the
implementation's snapshots; the theorems of `Eru/Props/C14.lean` are about the same predicates).
-/
namespace Eru.Cluster2
open Eru.Cluster (ResAlg)
variable {R : Type} [ResAlg R]

/-- every node's usage equals the sum of the workloads recorded on it -/
def Consistent (s : St R) : Prop := ∀ n, s.usage n = load s n

/-- every recorded instance — except the ids in `ex`: workloads that were recorded but NOT running
before the deployment (stopped by their owner), which neither the deployment nor recovery touches —
has a running container: each id is then fully created
(recorded ∧ running), absent (no record, no container) or a leaked container (no record) -/
def Settled (ex : Nat → Prop) (s : St R) : Prop := ∀ id, ¬ ex id → recorded s id = true → runningCt s id = true

def full (s : St R) (id : Nat) : Bool := recorded s id && runningCt s id
def absent (s : St R) (id : Nat) : Bool := !recorded s id && !hasCt s id
/-- a container that is not recorded -/
def leaked (s : St R) (id : Nat) : Bool := !recorded s id && hasCt s id

/-- the state C14 asks for after recovery -/
structure Good (ex : Nat → Prop) (s : St R) : Prop where
  consistent : Consistent s
  noMarker : s.markers = []
  walEmpty : s.wal = []
  settled : Settled ex s

/-- precondition on the state a deployment starts from -/
structure Pre (ex : Nat → Prop) (s : St R) : Prop where
  consistent : Consistent s
  noMarker : s.markers = []
  walEmpty : s.wal = []
  settled : Settled ex s
  nodup : (s.wls.map (·.id)).Nodup

/-- "every committed effect that is not yet final is covered by a pending event":
the invariant of the deployment, relative to the list of events still to be replayed. -/
structure InvG (ex : Nat → Prop) (s : St R) (evs : List Ev) : Prop where
  usage : ∀ n, s.usage n = load s n ∨ covered evs n = true
  marker : ∀ m ∈ s.markers, pendingProc evs m.1 = true
  inst : ∀ id, ¬ ex id → recorded s id = true → runningCt s id = false → pendingCreated evs id = true
  nodup : (s.wls.map (·.id)).Nodup

def Inv (ex : Nat → Prop) (s : St R) : Prop := InvG ex s s.wal

/-! decidable versions over an explicit node / id universe (oracle) -/
def consistentOn [DecidableEq R] (s : St R) (nodes : List String) : List String :=
  nodes.filter (fun n => !decide (s.usage n = load s n))
def unsettledOn (s : St R) (ids : List Nat) : List Nat :=
  ids.filter (fun id => recorded s id && !runningCt s id)

end Eru.Cluster2
