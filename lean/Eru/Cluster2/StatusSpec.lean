/-
Cluster-level observation of C13 (deploy status counts while a REAL deployment runs): the
decidable clauses evaluated on every observation taken by harness/cluster2 (the store-level
model and the theorems of C13 are the store group's, `Eru/Props/C13.lean`).  No Mathlib.
-/
namespace Eru.Cluster2.DS

abbrev Counts := List (String × Nat)

def get (m : Counts) (n : String) : Nat := ((m.find? (fun p => p.1 == n)).map (·.2)).getD 0

/-- one observation: `Store.GetDeployStatus`, the recorded workloads and the in-progress markers per node -/
structure Obs where
  status : Counts
  recorded : Counts
  markers : Counts
  markerKeys : Counts := []   -- number of marker KEYS per node (a marker may hold the count 0)

/-- the model of `GetDeployStatus`: deployed + Σ markers -/
def sumOK (nodes : List String) (o : Obs) : Bool :=
  nodes.all fun n => get o.status n == get o.recorded n + get o.markers n

/-- while the deployment runs: recorded ≤ status ≤ prior + planned on every node -/
def duringViolations (nodes : List String) (prior planned : Counts) (o : Obs) : List String :=
  (nodes.filter fun n => get o.status n < get o.recorded n).map (fun n => "C13:cluster:status-below-recorded:" ++ n) ++
  (nodes.filter fun n => get o.status n > get prior n + get planned n).map (fun n => "C13:cluster:status-above-prior-plus-planned:" ++ n)

/-- after it has returned: status = recorded and no marker remains -/
def afterViolations (nodes : List String) (o : Obs) : List String :=
  (nodes.filter fun n => get o.status n != get o.recorded n).map (fun n => "C13:cluster:status-differs-from-recorded-after-return:" ++ n) ++
  -- "no in-progress marker remains" is about marker KEYS: a marker holding 0 changes no count
  (((o.markerKeys.filter fun p => p.2 > 0).map (·.1) ++ (o.markers.filter fun p => p.2 > 0).map (·.1)).eraseDups.map
    fun n => "C13:cluster:marker-left-after-return:" ++ n)

/-- the clauses follow from the sum model as long as the markers never exceed what is still planned -/
theorem during_ok_of_sum (n : String) (prior planned : Counts) (o : Obs)
    (hs : get o.status n = get o.recorded n + get o.markers n)
    (hm : get o.recorded n + get o.markers n ≤ get prior n + get planned n) :
    get o.recorded n ≤ get o.status n ∧ get o.status n ≤ get prior n + get planned n := by
  omega

end Eru.Cluster2.DS
