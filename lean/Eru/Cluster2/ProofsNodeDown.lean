import Eru.Cluster2.NodeDown
namespace Eru.Cluster2.ND

theorem getStatus_setStatus_same (id : Nat) (v : WStatus) (s : St) : getStatus (setStatus id v s) id = some v := by
  simp [getStatus, setStatus]

theorem getStatus_setStatus_other (id j : Nat) (v : WStatus) (s : St) (h : id ≠ j) :
    getStatus (setStatus j v s) id = getStatus s id := by
  have hj : (j == id) = false := by simp [Ne.symm h]
  simp only [getStatus, setStatus, List.find?_cons, hj]
  congr 1
  induction s.status with
  | nil => rfl
  | cons p rest ih =>
    by_cases hp : p.1 = j
    · have h1 : (p.1 != j) = false := by simp [hp]
      have h2 : (p.1 == id) = false := by simp [hp, Ne.symm h]
      simp [List.filter_cons, h1, List.find?_cons, h2, ih]
    · have h1 : (p.1 != j) = true := by simp [hp]
      simp only [List.filter_cons, h1, if_true, List.find?_cons, ih]

/-- marking anything down keeps a down workload down -/
theorem setStatus_down_keeps (id j : Nat) (s : St) (h : getStatus s id = some down) :
    getStatus (setStatus j down s) id = some down := by
  by_cases e : id = j
  · subst e; exact getStatus_setStatus_same _ _ _
  · rw [getStatus_setStatus_other _ _ _ _ e]; exact h

theorem markDown_keeps (ws : List WlRec) : ∀ (s : St) (id : Nat), getStatus s id = some down →
    getStatus (markDown ws s) id = some down := by
  induction ws with
  | nil => intro s id h; exact h
  | cons w rest ih => intro s id h; exact ih _ id (setStatus_down_keeps id w.id s h)

theorem markDown_marks (ws : List WlRec) : ∀ (s : St) (w : WlRec), w ∈ ws →
    getStatus (markDown ws s) w.id = some down := by
  induction ws with
  | nil => intro s w h; cases h
  | cons x rest ih =>
    intro s w h
    rcases List.mem_cons.mp h with e | e
    · subst e; exact markDown_keeps rest _ _ (getStatus_setStatus_same _ _ _)
    · exact ih _ w e

theorem markDown_frame (ws : List WlRec) : ∀ (s : St), (markDown ws s).nodes = s.nodes ∧
    (markDown ws s).hb = s.hb ∧ (markDown ws s).wls = s.wls ∧ (markDown ws s).active = s.active := by
  induction ws with
  | nil => intro s; exact ⟨rfl, rfl, rfl, rfl⟩
  | cons w rest ih => intro s; exact ih (setStatus w.id down s)

theorem dealMsg_frame (n : String) (a : Bool) (s : St) : (dealMsg n a s).nodes = s.nodes ∧
    (dealMsg n a s).hb = s.hb ∧ (dealMsg n a s).wls = s.wls ∧ (dealMsg n a s).active = s.active := by
  unfold dealMsg setAllDown
  split
  · exact ⟨rfl, rfl, rfl, rfl⟩
  · split
    · exact markDown_frame _ _
    · exact ⟨rfl, rfl, rfl, rfl⟩

theorem dealMsg_keeps (n : String) (a : Bool) (s : St) (id : Nat) (h : getStatus s id = some down) :
    getStatus (dealMsg n a s) id = some down := by
  unfold dealMsg setAllDown
  split
  · exact h
  · split
    · exact markDown_keeps _ _ _ h
    · exact h

theorem mem_onNode (s : St) (n : String) (w : WlRec) : w ∈ onNode s n ↔ w ∈ s.wls ∧ w.node = n ∧ w.nameOk = true := by
  simp [onNode, List.mem_filter]

theorem dealMsg_marks (n : String) (s : St) (hn : nodeExists s n = true) (w : WlRec)
    (hw : w ∈ s.wls) (hwn : w.node = n) (hok : w.nameOk = true) :
    getStatus (dealMsg n false s) w.id = some down := by
  simp only [dealMsg, Bool.false_eq_true, if_false, hn, if_true, setAllDown]
  exact markDown_marks _ _ w ((mem_onNode s n w).mpr ⟨hw, hwn, hok⟩)

theorem initFold_keeps (hb : List String) (nds : List NodeRec) : ∀ (s : St) (id : Nat),
    getStatus s id = some down → getStatus (initFold hb nds s) id = some down := by
  induction nds with
  | nil => intro s id h; exact h
  | cons nd rest ih => intro s id h; exact ih _ id (dealMsg_keeps _ _ s id h)

theorem initFold_frame (hb : List String) (nds : List NodeRec) : ∀ (s : St),
    (initFold hb nds s).nodes = s.nodes ∧ (initFold hb nds s).wls = s.wls := by
  induction nds with
  | nil => intro s; exact ⟨rfl, rfl⟩
  | cons nd rest ih =>
    intro s
    have h1 := ih (dealMsg nd.name (nd.test || hb.contains nd.name) s)
    have h2 := dealMsg_frame nd.name (nd.test || hb.contains nd.name) s
    exact ⟨h1.1.trans h2.1, h1.2.trans h2.2.2.1⟩

theorem initFold_marks (hb : List String) (nds : List NodeRec) : ∀ (s : St) (nd : NodeRec), nd ∈ nds →
    nd.test = false → hb.contains nd.name = false → nodeExists s nd.name = true →
    ∀ w ∈ s.wls, w.node = nd.name → w.nameOk = true → getStatus (initFold hb nds s) w.id = some down := by
  induction nds with
  | nil => intro s nd h; cases h
  | cons x rest ih =>
    intro s nd h ht hh hex w hw hwn hok
    rcases List.mem_cons.mp h with e | e
    · subst e
      simp only [initFold, ht, hh, Bool.or_false]
      exact initFold_keeps hb rest _ _ (dealMsg_marks nd.name s hex w hw hwn hok)
    · have fr := dealMsg_frame x.name (x.test || hb.contains x.name) s
      apply ih _ nd e ht hh
      · simp only [nodeExists, fr.1]; exact hex
      · rw [fr.2.2.1]; exact hw
      · exact hwn
      · exact hok

end Eru.Cluster2.ND
