import Eru.Cluster2.Interleave
/-
C22 proofs: a system invariant that tolerates the in-flight states of AddNode / RemoveNode,
preserved by every step whose earlier check is still valid when it acts (`ActOK`).
-/
set_option linter.unusedSimpArgs false
namespace Eru.Cluster2.RI

/-- thread `t` currently owns the resource record of node `n` without a node record: AddNode
between its plugin call and its store call (or rolling back), RemoveNode between its store
call and its plugin call -/
def pend (t : Th) (n : String) : Bool :=
  match t.op, t.pc with
  | .addNode m _, .p1 => m == n
  | .addNode m _, .p2 => m == n
  | .addNode m _, .p8 => m == n
  | .removeNode m, .p4 => m == n
  | _, _ => false

/-- **"the earlier check is still valid when the thread acts"** — the explicit guard of
`refinv_partial`.  Each clause names the check-then-act pair it protects. -/
def ActOK (s : RState) (t : Th) : Prop :=
  match t.op, t.pc with
  | .removePod p, .p3 => nodesOfPod s p = []                 -- still no node in the pod (vs AddNode)
  | .addNode n p, .p2 => p ∈ s.pods ∧ n ∈ s.res              -- pod still there (vs RemovePod), own record still there
  | .addNode n _, .p8 => hasNode s n = false                 -- the rollback removes only its own record
  | .removeNode n, .p3 => ∀ x ∈ s.wls, x.2 ≠ n               -- still no workload on the node (vs Create)
  | .removeNode n, .p4 => hasNode s n = false
  | .create _ n, .p5 => hasNode s n = true                   -- node still there (vs RemoveNode)
  | _, _ => True

/-- the injected failure is not the plugin call of RemoveNode (that one leaves an orphan
resource record: `removenode_plugin_fault_counterexample`) -/
def FaultOK (t : Th) : Prop := ∀ n, t.op = .removeNode n → t.fault ≠ some .p4

structure StInv (s : RState) : Prop where
  i1 : ∀ x ∈ s.nodes, x.2 ∈ s.pods
  i2 : ∀ x ∈ s.nodes, x.1 ∈ s.res
  i4 : ∀ x ∈ s.wls, hasNode s x.2 = true

def SysInv (y : Sys) : Prop :=
  StInv y.s ∧ ∀ n ∈ y.s.res, hasNode y.s n = true ∨ ∃ t ∈ y.ts, pend t n = true

theorem hasNode_iff (s : RState) (n : String) : hasNode s n = true ↔ ∃ x ∈ s.nodes, x.1 = n := by
  simp [hasNode]

theorem hasNode_cons (s : RState) (n m p : String) :
    hasNode { s with nodes := (m, p) :: s.nodes } n = (m == n || hasNode s n) := by
  simp [hasNode]

theorem hasNode_filter_ne (s : RState) (n m : String) (h : n ≠ m) :
    hasNode { s with nodes := s.nodes.filter (fun x => x.1 != m) } n = hasNode s n := by
  simp only [hasNode, List.any_filter]
  congr 1; funext x
  by_cases hx : x.1 = n
  · have : (x.1 != m) = true := by simp [hx, h]
    simp [this]
  · have : (x.1 == n) = false := by simp [hx]
    simp [this]

/-- the state part of the invariant only depends on pods, nodes, res, wls -/
theorem StInv.congr {s s' : RState} (h : StInv s) (hp : s'.pods = s.pods) (hn : s'.nodes = s.nodes)
    (hr : s'.res = s.res) (hw : s'.wls = s.wls) : StInv s' := by
  refine ⟨?_, ?_, ?_⟩
  · rw [hn, hp]; exact h.i1
  · rw [hn, hr]; exact h.i2
  · rw [hw]; intro x hx; have := h.i4 x hx; simpa [hasNode, hn] using this

/-- what one step of a thread does to the invariant, seen from that thread alone -/
structure StepOut (s s' : RState) (t t' : Th) : Prop where
  inv : StInv s'
  fresh : ∀ n, n ∈ s'.res → n ∈ s.res ∨ pend t' n = true
  keepNode : ∀ n, n ∈ s'.res → hasNode s n = true → hasNode s' n = true ∨ pend t' n = true
  keepPend : ∀ n, n ∈ s'.res → pend t n = true → pend t' n = true ∨ hasNode s' n = true

theorem StepOut.same {s : RState} {t t' : Th} (h : StInv s) (hp : ∀ n, pend t n = true → pend t' n = true) :
    StepOut s s t t' :=
  ⟨h, fun _ hn => Or.inl hn, fun _ _ hh => Or.inl hh, fun n _ hp' => Or.inl (hp n hp')⟩

theorem StepOut.locks {s : RState} {t t' : Th} (l : List String) (h : StInv s) (hp : ∀ n, pend t n = true → pend t' n = true) :
    StepOut s { s with locks := l } t t' :=
  ⟨h.congr rfl rfl rfl rfl, fun _ hn => Or.inl hn, fun _ _ hh => Or.inl hh, fun n _ hp' => Or.inl (hp n hp')⟩

end Eru.Cluster2.RI

namespace Eru.Cluster2.RI

theorem step_local (s s' : RState) (t t' : Th) (hs : step s t = some (s', t')) (hinv : StInv s)
    (hact : ActOK s t) (hf : FaultOK t) : StepOut s s' t t' := by
  unfold step at hs
  by_cases hd : t.done = true
  · simp [hd] at hs
  simp only [hd, Bool.false_eq_true, if_false] at hs
  have hpc : t.pc ≠ .fin := by simpa [Th.done] using hd
  rcases t with ⟨op, pc, pod, node, locked, fault, ok⟩
  cases op <;> cases pc <;> simp only [] at hs hpc <;> (try exact absurd rfl hpc)
  all_goals (try simp only [unlockStep] at hs)
  all_goals (repeat' (split at hs))
  all_goals (first | (simp only [Option.some.injEq, Prod.mk.injEq, reduceCtorEq] at hs) | skip)
  all_goals (first | (obtain ⟨rfl, rfl⟩ := hs) | skip)
  all_goals (first
    | (refine StepOut.same hinv ?_; intro n; simp [pend, goto, finish]; done)
    | (refine StepOut.locks _ hinv ?_; intro n; simp [pend, goto, finish]; done)
    | skip)
  case addPod.p0.isFalse p _ =>
    refine ⟨⟨fun x hx => List.mem_cons_of_mem _ (hinv.i1 x hx), hinv.i2, hinv.i4⟩,
      fun _ hn => Or.inl hn, fun _ _ hh => Or.inl hh, fun n _ hp => ?_⟩
    simp [pend] at hp
  case removePod.p3.isFalse p _ =>
    have hact' : nodesOfPod s p = [] := hact
    refine ⟨⟨?_, hinv.i2, hinv.i4⟩, fun _ hn => Or.inl hn, fun _ _ hh => Or.inl hh, fun n _ hp => ?_⟩
    · intro x hx
      have hne : x.2 ≠ p := by
        intro e
        have : x.1 ∈ nodesOfPod s p := by
          simp only [nodesOfPod, List.mem_map, List.mem_filter]; exact ⟨x, ⟨hx, by simp [e]⟩, rfl⟩
        rw [hact'] at this; cases this
      exact List.mem_filter.mpr ⟨hinv.i1 x hx, by simp [hne]⟩
    · simp [pend] at hp
  case addNode.p0.isFalse n p _ =>
    refine ⟨⟨hinv.i1, fun x hx => List.mem_cons_of_mem _ (hinv.i2 x hx), hinv.i4⟩, ?_, fun _ _ hh => Or.inl hh, fun m _ hp => ?_⟩
    · intro m hm
      rcases List.mem_cons.mp hm with e | e
      · right; simp [pend, goto, e]
      · left; exact e
    · simp [pend] at hp
  case addNode.p2.isFalse n p _ =>
    have hact' : p ∈ s.pods ∧ n ∈ s.res := hact
    refine ⟨⟨?_, ?_, ?_⟩, fun _ hn => Or.inl hn, fun m _ hh => Or.inl ?_, fun m _ hp => Or.inr ?_⟩
    · intro x hx
      rcases List.mem_cons.mp hx with e | e
      · rw [e]; exact hact'.1
      · exact hinv.i1 x e
    · intro x hx
      rcases List.mem_cons.mp hx with e | e
      · rw [e]; exact hact'.2
      · exact hinv.i2 x e
    · intro x hx; rw [hasNode_cons]; simp [hinv.i4 x hx]
    · rw [hasNode_cons]; simp [hh]
    · have : n = m := by simpa [pend] using hp
      rw [hasNode_cons]; simp [this]
  case addNode.p8 n p =>
    have hact' : hasNode s n = false := hact
    refine ⟨⟨hinv.i1, ?_, hinv.i4⟩, fun m hm => Or.inl (List.mem_filter.mp hm).1, fun _ _ hh => Or.inl hh, fun m hm hp => ?_⟩
    · intro x hx
      have hne : x.1 ≠ n := by
        intro e
        have : hasNode s n = true := (hasNode_iff s n).mpr ⟨x, hx, e⟩
        rw [hact'] at this; cases this
      exact List.mem_filter.mpr ⟨hinv.i2 x hx, by simp [hne]⟩
    · have h1 : n = m := by simpa [pend] using hp
      have h2 := (List.mem_filter.mp hm).2
      simp [h1] at h2
  case removeNode.p3.isFalse n _ =>
    have hact' : ∀ x ∈ s.wls, x.2 ≠ n := hact
    refine ⟨⟨fun x hx => hinv.i1 x (List.mem_filter.mp hx).1, fun x hx => hinv.i2 x (List.mem_filter.mp hx).1, ?_⟩,
      fun _ hn => Or.inl hn, fun m _ hh => ?_, fun m _ hp => ?_⟩
    · intro x hx
      rw [hasNode_filter_ne s x.2 n (hact' x hx)]; exact hinv.i4 x hx
    · by_cases e : m = n
      · right; simp [pend, goto, e]
      · left; rw [hasNode_filter_ne s m n e]; exact hh
    · simp [pend] at hp
  case removeNode.p4.isTrue n hc =>
    simp only [Bool.or_eq_true, Bool.not_eq_true'] at hc
    rcases hc with hc | hc
    · exfalso
      have : fault = some PC.p4 := by simpa [Th.fails] using hc
      exact hf n rfl this
    · refine ⟨hinv, fun _ hn => Or.inl hn, fun _ _ hh => Or.inl hh, fun m hm hp => ?_⟩
      have h1 : n = m := by simpa [pend] using hp
      rw [← h1] at hm
      have : s.res.contains n = true := by simpa using hm
      rw [hc] at this; cases this
  case removeNode.p4.isFalse n _ =>
    have hact' : hasNode s n = false := hact
    refine ⟨⟨hinv.i1, ?_, hinv.i4⟩, fun m hm => Or.inl (List.mem_filter.mp hm).1, fun _ _ hh => Or.inl hh, fun m hm hp => ?_⟩
    · intro x hx
      have hne : x.1 ≠ n := by
        intro e
        have : hasNode s n = true := (hasNode_iff s n).mpr ⟨x, hx, e⟩
        rw [hact'] at this; cases this
      exact List.mem_filter.mpr ⟨hinv.i2 x hx, by simp [hne]⟩
    · have h1 : n = m := by simpa [pend] using hp
      have h2 := (List.mem_filter.mp hm).2
      simp [h1] at h2
  case create.p5.isFalse w n _ =>
    have hact' : hasNode s n = true := hact
    refine ⟨⟨hinv.i1, hinv.i2, ?_⟩, fun _ hn => Or.inl hn, fun _ _ hh => Or.inl hh, fun m _ hp => ?_⟩
    · intro x hx
      rcases List.mem_cons.mp hx with e | e
      · rw [e]; exact hact'
      · exact hinv.i4 x e
    · simp [pend] at hp
  case remove.p5.isFalse w _ =>
    refine ⟨⟨hinv.i1, hinv.i2, fun x hx => hinv.i4 x (List.mem_filter.mp hx).1⟩,
      fun _ hn => Or.inl hn, fun _ _ hh => Or.inl hh, fun m _ hp => ?_⟩
    simp [pend] at hp

end Eru.Cluster2.RI

namespace Eru.Cluster2.RI

theorem mem_set_or (ts : List Th) : ∀ (i : Nat) (t t' u : Th), ts[i]? = some t → u ∈ ts → u ∈ ts.set i t' ∨ u = t := by
  induction ts with
  | nil => intro i t t' u _ hu; cases hu
  | cons x rest ih =>
    intro i t t' u hi hu
    cases i with
    | zero =>
      simp only [List.getElem?_cons_zero, Option.some.injEq] at hi
      rcases List.mem_cons.mp hu with e | e
      · right; rw [e, hi]
      · left; simp [List.set_cons_zero, e]
    | succ k =>
      simp only [List.getElem?_cons_succ] at hi
      rcases List.mem_cons.mp hu with e | e
      · left; simp [List.set_cons_succ, e]
      · rcases ih k t t' u hi e with h | h
        · left; simp [List.set_cons_succ, h]
        · right; exact h

theorem mem_set_new (ts : List Th) : ∀ (i : Nat) (t t' : Th), ts[i]? = some t → t' ∈ ts.set i t' := by
  induction ts with
  | nil => intro i t t' hi; simp at hi
  | cons x rest ih =>
    intro i t t' hi
    cases i with
    | zero => simp [List.set_cons_zero]
    | succ k =>
      simp only [List.getElem?_cons_succ] at hi
      simp [List.set_cons_succ, ih k t t' hi]

/-- the system invariant is preserved by every step whose check is still valid -/
theorem sysStep_inv (y : Sys) (i : Nat) (h : SysInv y)
    (hok : ∀ t, y.ts[i]? = some t → ActOK y.s t ∧ FaultOK t) : SysInv (sysStep y i) := by
  unfold sysStep
  cases hi : y.ts[i]? with
  | none => exact h
  | some t =>
    simp only
    cases hs : step y.s t with
    | none => exact h
    | some r =>
      obtain ⟨s', t'⟩ := r
      have out := step_local y.s s' t t' hs h.1 (hok t hi).1 (hok t hi).2
      refine ⟨out.inv, ?_⟩
      intro n hn
      have hnew : t' ∈ y.ts.set i t' := mem_set_new y.ts i t t' hi
      rcases out.fresh n hn with hold | hp
      · rcases h.2 n hold with hh | ⟨u, hu, hpu⟩
        · rcases out.keepNode n hn hh with a | a
          · exact Or.inl a
          · exact Or.inr ⟨t', hnew, a⟩
        · rcases mem_set_or y.ts i t t' u hi hu with a | a
          · exact Or.inr ⟨u, a, hpu⟩
          · rw [a] at hpu
            rcases out.keepPend n hn hpu with b | b
            · exact Or.inr ⟨t', hnew, b⟩
            · exact Or.inl b
      · exact Or.inr ⟨t', hnew, hp⟩

/-- every step of the run acts on a still-valid check -/
def GoodRun : Sys → List Nat → Prop
  | _, [] => True
  | y, i :: rest => (∀ t, y.ts[i]? = some t → ActOK y.s t ∧ FaultOK t) ∧ GoodRun (sysStep y i) rest

theorem runSched_inv (sched : List Nat) : ∀ (y : Sys), SysInv y → GoodRun y sched → SysInv (runSched y sched) := by
  induction sched with
  | nil => intro y h _; exact h
  | cons i rest ih => intro y h hg; exact ih _ (sysStep_inv y i h hg.1) hg.2

theorem pend_done (t : Th) (n : String) (h : t.done = true) : pend t n = false := by
  have : t.pc = .fin := by simpa [Th.done] using h
  rcases t with ⟨op, pc, _, _, _, _, _⟩
  simp only at this; subst this
  cases op <;> rfl

theorem sysinv_quiescent (y : Sys) (h : SysInv y) (hq : quiescent y = true) : RefInv y.s := by
  refine ⟨h.1.i1, h.1.i2, ?_, h.1.i4⟩
  intro n hn
  rcases h.2 n hn with a | ⟨u, hu, hp⟩
  · exact a
  · have : u.done = true := by
      simp only [quiescent, List.all_eq_true] at hq; exact hq u hu
    rw [pend_done u n this] at hp; cases hp

theorem sysinv_init (s : RState) (ts : List Th) (h : RefInv s) : SysInv ⟨s, ts⟩ :=
  ⟨⟨h.1, h.2.1, h.2.2.2⟩, fun n hn => Or.inl (h.2.2.1 n hn)⟩

end Eru.Cluster2.RI

namespace Eru.Cluster2.RI

/-- what a thread running ALONE knows at each program point (its earlier checks are still valid
because nobody else acts) -/
def Chk (s : RState) (t : Th) : Prop :=
  match t.op, t.pc with
  | .removePod p, .p3 => nodesOfPod s p = []
  | .addNode n _, .p1 => n ∈ s.res ∧ hasNode s n = false
  | .addNode n p, .p2 => p ∈ s.pods ∧ n ∈ s.res ∧ hasNode s n = false
  | .addNode n _, .p8 => hasNode s n = false
  | .removeNode n, .p3 => ∀ x ∈ s.wls, x.2 ≠ n
  | .removeNode n, .p4 => hasNode s n = false
  | .create _ n, .p5 => hasNode s n = true
  | _, _ => True

theorem chk_actok (s : RState) (t : Th) (h : Chk s t) : ActOK s t := by
  rcases t with ⟨op, pc, _, _, _, _, _⟩
  cases op <;> cases pc <;> first | exact h | exact trivial | exact ⟨h.1, h.2.1⟩

theorem hasNode_filter_self (s : RState) (n : String) :
    hasNode { s with nodes := s.nodes.filter (fun x => x.1 != n) } n = false := by
  simp [hasNode, List.any_filter]

theorem step_chk (s s' : RState) (t t' : Th) (hs : step s t = some (s', t')) (hinv : StInv s) (hc : Chk s t) :
    Chk s' t' := by
  unfold step at hs
  by_cases hd : t.done = true
  · simp [hd] at hs
  simp only [hd, Bool.false_eq_true, if_false] at hs
  have hpc : t.pc ≠ .fin := by simpa [Th.done] using hd
  rcases t with ⟨op, pc, pod, node, locked, fault, ok⟩
  cases op <;> cases pc <;> simp only [] at hs hpc <;> (try exact absurd rfl hpc)
  all_goals (try simp only [unlockStep] at hs)
  all_goals (repeat' (split at hs))
  all_goals (first | (simp only [Option.some.injEq, Prod.mk.injEq, reduceCtorEq] at hs) | skip)
  all_goals (first | (obtain ⟨rfl, rfl⟩ := hs) | skip)
  all_goals (first | exact trivial | skip)
  case removePod.p2.isFalse p hcond =>
    simp only [Bool.or_eq_true, Bool.not_eq_true', not_or, Bool.not_eq_true, Bool.not_eq_false] at hcond
    show nodesOfPod s p = []
    simpa using hcond.2
  case addNode.p0.isFalse n p hcond =>
    simp only [Bool.or_eq_true, not_or, Bool.not_eq_true] at hcond
    refine ⟨List.mem_cons_self, ?_⟩
    cases hh : hasNode s n with
    | false => exact hh
    | true =>
      obtain ⟨x, hx, e⟩ := (hasNode_iff s n).mp hh
      have := hinv.i2 x hx
      rw [e] at this
      have hnc : s.res.contains n = true := by simpa using this
      rw [hcond.2] at hnc; cases hnc
  case addNode.p1.isTrue n p hcond => exact hc.2
  case addNode.p1.isFalse n p hcond =>
    simp only [Bool.or_eq_true, Bool.not_eq_true', not_or, Bool.not_eq_true, Bool.not_eq_false] at hcond
    exact ⟨by simpa using hcond.2, hc.1, hc.2⟩
  case addNode.p2.isTrue n p hcond => exact hc.2.2
  case removeNode.p2.isFalse n hcond =>
    simp only [Bool.or_eq_true, not_or, Bool.not_eq_true] at hcond
    intro x hx e
    have := hcond.2
    simp only [List.any_eq_false] at this
    exact this x hx (by simp [e])
  case removeNode.p3.isFalse n hcond => exact hasNode_filter_self s n
  case create.p4.isFalse w n hcond =>
    simp only [Bool.or_eq_true, Bool.not_eq_true', not_or, Bool.not_eq_true, Bool.not_eq_false] at hcond
    exact hcond.2

end Eru.Cluster2.RI

namespace Eru.Cluster2.RI

theorem step_op (s s' : RState) (t t' : Th) (hs : step s t = some (s', t')) : t'.op = t.op ∧ t'.fault = t.fault := by
  unfold step at hs
  by_cases hd : t.done = true
  · simp [hd] at hs
  simp only [hd, Bool.false_eq_true, if_false] at hs
  rcases t with ⟨op, pc, pod, node, locked, fault, ok⟩
  cases op <;> cases pc <;> simp only [] at hs
  all_goals (try simp only [unlockStep] at hs)
  all_goals (repeat' (split at hs))
  all_goals (first | (simp only [Option.some.injEq, Prod.mk.injEq, reduceCtorEq] at hs) | skip)
  all_goals (first | (obtain ⟨rfl, rfl⟩ := hs) | skip)
  all_goals (first | exact ⟨rfl, rfl⟩ | skip)

theorem runAlone_inv : ∀ (fuel : Nat) (s : RState) (t : Th), SysInv ⟨s, [t]⟩ → Chk s t → FaultOK t →
    SysInv ⟨(runAlone fuel s t).1, [(runAlone fuel s t).2]⟩ := by
  intro fuel
  induction fuel with
  | zero => intro s t h _ _; exact h
  | succ k ih =>
    intro s t h hc hf
    unfold runAlone
    cases hs : step s t with
    | none => exact h
    | some r =>
      obtain ⟨s', t'⟩ := r
      simp only
      have h1 : SysInv (sysStep ⟨s, [t]⟩ 0) :=
        sysStep_inv ⟨s, [t]⟩ 0 h (fun u hu => by
          simp only [List.getElem?_cons_zero, Option.some.injEq] at hu
          rw [← hu]; exact ⟨chk_actok s t hc, hf⟩)
      have h2 : sysStep ⟨s, [t]⟩ 0 = ⟨s', [t']⟩ := by simp [sysStep, hs]
      rw [h2] at h1
      have hop := step_op s s' t t' hs
      apply ih s' t' h1 (step_chk s s' t t' hs h.1 hc)
      intro n hn; rw [hop.1] at hn; rw [hop.2]; exact hf n hn

end Eru.Cluster2.RI

namespace Eru.Cluster2.RI

/-! ### schedules that avoid the open windows are good runs (no hypothesis on the individual steps) -/
def Op.isAddNode : Op → Bool | .addNode _ _ => true | _ => false
def Op.isCreate : Op → Bool | .create _ _ => true | _ => false
def Op.isRemoveNode : Op → Bool | .removeNode _ => true | _ => false

/-- what the step of a thread can do to nodes and workloads, by kind of operation -/
theorem step_frame (s s' : RState) (t t' : Th) (hs : step s t = some (s', t')) :
    (t.op.isAddNode = false → ∀ x ∈ s'.nodes, x ∈ s.nodes) ∧
    (t.op.isCreate = false → ∀ x ∈ s'.wls, x ∈ s.wls) ∧
    (t.op.isRemoveNode = false → ∀ x ∈ s.nodes, x ∈ s'.nodes) := by
  unfold step at hs
  by_cases hd : t.done = true
  · simp [hd] at hs
  simp only [hd, Bool.false_eq_true, if_false] at hs
  rcases t with ⟨op, pc, pod, node, locked, fault, ok⟩
  cases op <;> cases pc <;> simp only [] at hs
  all_goals (try simp only [unlockStep] at hs)
  all_goals (repeat' (split at hs))
  all_goals (first | (simp only [Option.some.injEq, Prod.mk.injEq, reduceCtorEq] at hs) | skip)
  all_goals (first | (obtain ⟨rfl, rfl⟩ := hs) | skip)
  all_goals (first
    | exact ⟨fun _ x hx => hx, fun _ x hx => hx, fun _ x hx => hx⟩
    | exact ⟨fun _ x hx => hx, fun _ x hx => (List.mem_filter.mp hx).1, fun _ x hx => hx⟩
    | exact ⟨fun h => Bool.noConfusion h, fun _ x hx => hx, fun _ x hx => List.mem_cons_of_mem _ hx⟩
    | exact ⟨fun _ x hx => (List.mem_filter.mp hx).1, fun _ x hx => hx, fun h => Bool.noConfusion h⟩
    | exact ⟨fun _ x hx => hx, fun h => Bool.noConfusion h, fun _ x hx => hx⟩)

theorem hasNode_mono (s s' : RState) (h : ∀ x ∈ s.nodes, x ∈ s'.nodes) (n : String) (hn : hasNode s n = true) : hasNode s' n = true := by
  obtain ⟨x, hx, e⟩ := (hasNode_iff s n).mp hn
  exact (hasNode_iff s' n).mpr ⟨x, h x hx, e⟩

/-- another thread's check stays valid across a step, unless the stepping thread is of the
kind that opens its window -/
theorem step_keeps_chk (s s' : RState) (t t' u : Th) (hs : step s t = some (s', t'))
    (ht : t.op.isAddNode = false) (hu : u.op.isAddNode = false)
    (hcr : t.op.isCreate = true → u.op.isRemoveNode = false)
    (hrc : t.op.isRemoveNode = true → u.op.isCreate = false)
    (hc : Chk s u) : Chk s' u := by
  obtain ⟨f1, f2, f3⟩ := step_frame s s' t t' hs
  rcases u with ⟨op, pc, pod, node, locked, fault, ok⟩
  cases op <;> cases pc <;> first
    | exact trivial
    | (simp [Op.isAddNode] at hu; done)
    | skip
  case removePod.p3 p =>
    have hc' : nodesOfPod s p = [] := hc
    show nodesOfPod s' p = []
    simp only [nodesOfPod, List.map_eq_nil_iff, List.filter_eq_nil_iff] at hc' ⊢
    intro x hx; exact hc' x (f1 ht x hx)
  case removeNode.p3 n =>
    have hc' : ∀ x ∈ s.wls, x.2 ≠ n := hc
    have htc : t.op.isCreate = false := by
      cases h : t.op.isCreate with
      | false => rfl
      | true => have := hcr h; simp [Op.isRemoveNode] at this
    intro x hx; exact hc' x (f2 htc x hx)
  case removeNode.p4 n =>
    have hc' : hasNode s n = false := hc
    show hasNode s' n = false
    cases h : hasNode s' n with
    | false => rfl
    | true =>
      obtain ⟨x, hx, e⟩ := (hasNode_iff s' n).mp h
      have : hasNode s n = true := (hasNode_iff s n).mpr ⟨x, f1 ht x hx, e⟩
      rw [hc'] at this; cases this
  case create.p5 w n =>
    have hc' : hasNode s n = true := hc
    have htr : t.op.isRemoveNode = false := by
      cases h : t.op.isRemoveNode with
      | false => rfl
      | true => have := hrc h; simp [Op.isCreate] at this
    exact hasNode_mono s s' (f3 htr) n hc'

/-- the thread set avoids the open windows: no AddNode at all, and Create and RemoveNode do not coexist -/
structure Safe (ts : List Th) : Prop where
  noAdd : ∀ t ∈ ts, t.op.isAddNode = false
  split : (∀ t ∈ ts, t.op.isCreate = false) ∨ (∀ t ∈ ts, t.op.isRemoveNode = false)
  fault : ∀ t ∈ ts, FaultOK t

structure Big (y : Sys) : Prop where
  inv : SysInv y
  safe : Safe y.ts
  chk : ∀ t ∈ y.ts, Chk y.s t

theorem big_step (y : Sys) (i : Nat) (h : Big y) : Big (sysStep y i) := by
  have hinv := sysStep_inv y i h.inv (fun t ht => ⟨chk_actok y.s t (h.chk t (List.mem_of_getElem? ht)), h.safe.fault t (List.mem_of_getElem? ht)⟩)
  unfold sysStep at hinv ⊢
  cases hi : y.ts[i]? with
  | none => exact h
  | some t =>
    simp only [hi] at hinv ⊢
    cases hs : step y.s t with
    | none => exact h
    | some r =>
      obtain ⟨s', t'⟩ := r
      simp only [hs] at hinv ⊢
      have htm : t ∈ y.ts := List.mem_of_getElem? hi
      have hop := step_op y.s s' t t' hs
      have memset : ∀ u ∈ y.ts.set i t', u = t' ∨ u ∈ y.ts := fun u hu => (List.mem_or_eq_of_mem_set hu).symm
      refine ⟨hinv, ⟨?_, ?_, ?_⟩, ?_⟩
      · intro u hu
        rcases memset u hu with e | e
        · rw [e, hop.1]; exact h.safe.noAdd t htm
        · exact h.safe.noAdd u e
      · rcases h.safe.split with a | a
        · left; intro u hu
          rcases memset u hu with e | e
          · rw [e, hop.1]; exact a t htm
          · exact a u e
        · right; intro u hu
          rcases memset u hu with e | e
          · rw [e, hop.1]; exact a t htm
          · exact a u e
      · intro u hu
        rcases memset u hu with e | e
        · rw [e]; intro n hn; rw [hop.1] at hn; rw [hop.2]; exact h.safe.fault t htm n hn
        · exact h.safe.fault u e
      · intro u hu
        rcases memset u hu with e | e
        · rw [e]; exact step_chk y.s s' t t' hs h.inv.1 (h.chk t htm)
        · apply step_keeps_chk y.s s' t t' u hs (h.safe.noAdd t htm) (h.safe.noAdd u e) ?_ ?_ (h.chk u e)
          · intro hc
            rcases h.safe.split with a | a
            · rw [a t htm] at hc; cases hc
            · exact a u e
          · intro hc
            rcases h.safe.split with a | a
            · exact a u e
            · rw [a t htm] at hc; cases hc

theorem big_goodrun (sched : List Nat) : ∀ (y : Sys), Big y → GoodRun y sched := by
  induction sched with
  | nil => intro y _; trivial
  | cons i rest ih =>
    intro y h
    exact ⟨fun t ht => ⟨chk_actok y.s t (h.chk t (List.mem_of_getElem? ht)), h.safe.fault t (List.mem_of_getElem? ht)⟩,
      ih _ (big_step y i h)⟩

theorem chk_fresh (s : RState) (t : Th) (h : t.pc = .p0) : Chk s t := by
  rcases t with ⟨op, pc, _, _, _, _, _⟩
  simp only at h; subst h
  cases op <;> exact trivial

end Eru.Cluster2.RI
