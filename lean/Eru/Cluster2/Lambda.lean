import Eru.Cluster2.Spec
/-
C30 model: `cluster/calcium/lambda.go` RunAndWait.  For every create message one `lambda`
worker runs: log `create-lambda`, (deferred, in reverse order) send the final message ←
commit the event ← remove the workload synchronously; in between: get the workload, fetch
logs (attach when stdin is open), forward the output, wait, build the exit-code message.
The engine outcomes (logs / attach / wait / exit code) are a `Script` per workload.
-/
namespace Eru.Cluster2
open Eru.Cluster (ResAlg)

inductive MKind where
  | data            -- a forwarded output line
  | error           -- StdStreamType = EruError
  | exit (code : Int)
  deriving DecidableEq, Repr

/-- an AttachWorkloadMessage: workload id (0 = empty id) and kind -/
structure Msg where
  wid : Nat
  kind : MKind
  deriving DecidableEq, Repr

/-- how the REQUEST context ended while the workload was running: the deferred removal and commit
run under a context that is detached from BOTH (`utils.NewInheritCtx`: no cancellation, no deadline) -/
inductive CtxEnd where
  | live        -- still valid when the worker finishes
  | cancelled   -- the caller went away (cancel)
  | expired     -- the request's deadline passed (gRPC deadline, AsyncTimeout)
  deriving DecidableEq, Repr

/-- engine / log outcomes for one workload -/
structure Script where
  walLog : Bool := true        -- wal.Log(create-lambda) succeeds
  logs : Option Nat := some 0  -- some k: VirtualizationLogs succeeds and yields k lines; none: it fails
  attach : Bool := true        -- VirtualizationAttach succeeds (only consulted with stdin)
  wait : Option Int := some 0  -- some c: VirtualizationWait returns exit code c; none: it fails
  ctxEnd : CtxEnd := .live     -- request context cancelled / expired while the workload ran (no effect on cleanup)
  ctxDeadAtStart : Bool := false  -- it was already dead when the worker started: GetWorkload(ctx) fails
  stdinOpen : Bool := false    -- the client keeps stdin open until the stream closes (the output end does not wait for it)
  deriving DecidableEq, Repr

/-- a message of the create channel: a created workload, or a failure (error or empty id) -/
inductive CreateMsg where
  | ok (id : Nat)
  | failed
  deriving DecidableEq, Repr

structure LSt (R : Type) where
  base : St R
  lam : List Nat := []   -- pending `create-lambda` events
  done : Nat := 0        -- number of `wg.Done()` calls

variable {R : Type} [ResAlg R]

/-- `doRemoveWorkloadSync`: usage, record and container of a recorded workload are removed;
an unknown id is an error that changes nothing -/
def removeSync (id : Nat) (s : St R) : St R :=
  match s.wls.find? (fun w => w.id == id) with
  | some w =>
    { s with usage := fun m => if m = w.node then s.usage m - w.res else s.usage m,
             wls := s.wls.filter (fun x => x.id != id),
             cts := s.cts.filter (fun c => c.id != id) }
  | none => s

/-- the part of `lambda` between the deferred calls: forwarded output and the final message -/
def lambdaBody (stdin : Bool) (id : Nat) (sc : Script) (isRecorded : Bool) : List Msg × Msg :=
  if !isRecorded || sc.ctxDeadAtStart then ([], ⟨id, .error⟩)   -- GetWorkload failed
  else match sc.logs with
    | none => ([], ⟨id, .error⟩)                     -- fetch log failed
    | some k =>
      if stdin && !sc.attach then ([], ⟨id, .error⟩) -- attach failed
      else
        let out := List.replicate k (⟨id, .data⟩ : Msg)
        match sc.wait with
        | none => (out, ⟨id, .error⟩)                -- wait failed
        | some c => (out, ⟨id, .exit c⟩)

/-- one `lambda` worker -/
def lambdaOne (stdin : Bool) (cm : CreateMsg) (sc : Script) (s : LSt R) : LSt R × List Msg :=
  match cm with
  | .failed => ({ s with done := s.done + 1 }, [⟨0, .error⟩])
  | .ok id =>
    if !sc.walLog then ({ s with done := s.done + 1 }, [⟨id, .error⟩])
    else
      let s1 := { s with lam := s.lam ++ [id] }
      let b := lambdaBody stdin id sc (recorded s1.base id)
      -- deferred: remove, commit, send the final message, wg.Done
      let s2 := { s1 with base := removeSync id s1.base }
      let s3 := { s2 with lam := s2.lam.erase id, done := s2.done + 1 }
      (s3, b.1 ++ [b.2])

/-- all workers (the model runs them one after the other; they touch different workloads) -/
def runAll (stdin : Bool) : List (CreateMsg × Script) → LSt R → LSt R × List Msg
  | [], s => (s, [])
  | (cm, sc) :: rest, s =>
    let r1 := lambdaOne stdin cm sc s
    let r2 := runAll stdin rest r1.1
    (r2.1, r1.2 ++ r2.2)

/-- the output channel is closed by the task that waits for `wg`: it closes iff every worker called Done -/
def streamCloses (stdin : Bool) (cms : List (CreateMsg × Script)) (s : LSt R) : Bool :=
  (runAll stdin cms s).1.done == s.done + cms.length

/-- `rpc/rpc.go` Vibranium.RunAndWait, synchronous mode: `for m := range ch { if Send(m) fails { log } }`
— a failed `stream.Send` (client gone) is logged and the loop GOES ON: the channel is drained to
the end whatever `send` answers. The workers write to an unbuffered channel without watching
the context, so they only reach their deferred removal / commit if every message is taken.
Result: (delivered, logged as unsent). -/
def rpcForward (send : Msg → Bool) : List Msg → List Msg × List Msg
  | [] => ([], [])
  | m :: rest =>
    let r := rpcForward send rest
    if send m then (m :: r.1, r.2) else (r.1, m :: r.2)

/-- messages of one workload, in order -/
def msgsOf (id : Nat) (ms : List Msg) : List Msg := ms.filter (fun m => m.wid == id)

end Eru.Cluster2
