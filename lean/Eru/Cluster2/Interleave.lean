/-
C22 model: pods, nodes, node-resource records and workloads under concurrent
add-pod / remove-pod / add-node / remove-node / create / remove (`cluster/calcium/{pod,node,
create,remove,lock}.go`, `store/etcdv3/{pod,node}.go`).  Every thread is a small program whose
steps are the externally visible calls (at the granularity of the etcd requests inside
`store.AddNode` / `store.RemovePod`, because their check and their write are separate
requests); a step is atomic; a thread blocks on a pod lock that is held.  A single injected
failure is the field `fault` (the call made at that program counter fails without effect).
No Mathlib.
-/
namespace Eru.Cluster2.RI

structure RState where
  pods : List String := []
  nodes : List (String × String) := []   -- (node, pod)
  res : List String := []                -- nodes with a resource record of the plugin
  wls : List (Nat × String) := []        -- (workload, node)
  locks : List String := []              -- pod locks held
  deriving DecidableEq, Repr

def hasNode (s : RState) (n : String) : Bool := s.nodes.any (fun x => x.1 == n)
def podOf (s : RState) (n : String) : String := ((s.nodes.find? (fun x => x.1 == n)).map (·.2)).getD ""
def nodesOfPod (s : RState) (p : String) : List String := (s.nodes.filter (fun x => x.2 == p)).map (·.1)
def nodeOfWl (s : RState) (w : Nat) : Option String := (s.wls.find? (fun x => x.1 == w)).map (·.2)

inductive Op where
  | addPod (p : String)
  | removePod (p : String)
  | addNode (n p : String)
  | removeNode (n : String)
  | create (w : Nat) (n : String)   -- deploy one instance (workload id w) onto node n
  | remove (w : Nat)
  deriving DecidableEq, Repr

/-- program counters (`p8` = compensation, `p9` = unlock, `fin` = finished) -/
inductive PC where
  | p0 | p1 | p2 | p3 | p4 | p5 | p8 | p9 | fin
  deriving DecidableEq, Repr

structure Th where
  op : Op
  pc : PC := .p0
  pod : String := ""        -- local: the pod read from the node record
  node : String := ""       -- local: the node read from the workload record
  locked : Bool := false
  fault : Option PC := none
  ok : Bool := true         -- the operation has not reported an error so far
  deriving DecidableEq, Repr

def Th.done (t : Th) : Bool := t.pc == .fin
def Th.fails (t : Th) : Bool := t.fault == some t.pc

def finish (t : Th) (ok : Bool := true) : Th := { t with pc := .fin, ok := t.ok && ok }
def goto (t : Th) (pc : PC) (ok : Bool := true) : Th := { t with pc := pc, ok := t.ok && ok }

/-- unlock step shared by the operations that take the pod lock -/
def unlockStep (s : RState) (t : Th) : RState × Th :=
  (if t.locked then { s with locks := s.locks.filter (· != t.pod) } else s, finish { t with locked := false })

/-- One step of thread `t` in state `s`; `none` = blocked on a lock (or already finished). The
label of the call made by each step is given by `label`. -/
def step (s : RState) (t : Th) : Option (RState × Th) :=
  if t.done then none else
  match t.op, t.pc with
  -- AddPod: one create-if-absent request
  | .addPod p, .p0 =>
    if t.fails || s.pods.contains p then some (s, finish t false) else some ({ s with pods := p :: s.pods }, finish t)
  -- RemovePod (pod.go): filterNodes → lock the pod only if it has nodes → store.RemovePod = list nodes again, delete
  | .removePod p, .p0 =>
    if t.fails then some (s, finish t false)
    else if (nodesOfPod s p).isEmpty then some (s, goto { t with pod := p } .p2) else some (s, goto { t with pod := p } .p1)
  | .removePod p, .p1 =>
    if s.locks.contains p then none else some ({ s with locks := p :: s.locks }, goto { t with locked := true } .p2)
  | .removePod p, .p2 =>
    if t.fails || !(nodesOfPod s p).isEmpty then some (s, goto t .p9 false) else some (s, goto t .p3)
  | .removePod p, .p3 =>
    if t.fails || !s.pods.contains p then some (s, goto t .p9 false) else some ({ s with pods := s.pods.filter (· != p) }, goto t .p9)
  | .removePod _, .p9 => some (unlockStep s t)
  -- AddNode (node.go + etcdv3/node.go): plugin AddNode → GetPod → BatchCreate(node keys) ; rollback plugin RemoveNode
  | .addNode n _, .p0 =>
    if t.fails || s.res.contains n then some (s, finish t false) else some ({ s with res := n :: s.res }, goto t .p1)
  | .addNode _ p, .p1 =>
    if t.fails || !s.pods.contains p then some (s, goto t .p8 false) else some (s, goto t .p2)
  | .addNode n p, .p2 =>
    if t.fails || hasNode s n then some (s, goto t .p8 false) else some ({ s with nodes := (n, p) :: s.nodes }, finish t)
  | .addNode n _, .p8 => some ({ s with res := s.res.filter (· != n) }, finish t)
  -- RemoveNode: GetNode → lock pod → ListNodeWorkloads → store.RemoveNode → plugin RemoveNode → unlock
  | .removeNode n, .p0 =>
    if t.fails || !hasNode s n then some (s, finish t false) else some (s, goto { t with pod := podOf s n } .p1)
  | .removeNode _, .p1 =>
    if s.locks.contains t.pod then none else some ({ s with locks := t.pod :: s.locks }, goto { t with locked := true } .p2)
  | .removeNode n, .p2 =>
    if t.fails || s.wls.any (fun x => x.2 == n) then some (s, goto t .p9 false) else some (s, goto t .p3)
  | .removeNode n, .p3 =>
    if t.fails then some (s, goto t .p9 false) else some ({ s with nodes := s.nodes.filter (fun x => x.1 != n) }, goto t .p4)
  | .removeNode n, .p4 =>
    -- cobalt's RemoveNode first reads the record: a missing record is an error
    if t.fails || !s.res.contains n then some (s, goto t .p9 false) else some ({ s with res := s.res.filter (· != n) }, goto t .p9)
  | .removeNode _, .p9 => some (unlockStep s t)
  -- Create one instance on node n: GetNode → lock pod → Alloc → unlock → GetNode → AddWorkload
  | .create _ n, .p0 =>
    if t.fails || !hasNode s n then some (s, finish t false) else some (s, goto { t with pod := podOf s n } .p1)
  | .create _ _, .p1 =>
    if s.locks.contains t.pod then none else some ({ s with locks := t.pod :: s.locks }, goto { t with locked := true } .p2)
  | .create _ n, .p2 =>
    if t.fails || !s.res.contains n then some (s, goto t .p9 false) else some (s, goto t .p3)
  | .create _ _, .p3 => some ({ s with locks := s.locks.filter (· != t.pod) }, goto { t with locked := false } .p4)
  | .create _ n, .p4 =>
    if t.fails || !hasNode s n then some (s, finish t false) else some (s, goto t .p5)
  | .create w n, .p5 =>
    if t.fails then some (s, finish t false) else some ({ s with wls := (w, n) :: s.wls }, finish t)
  | .create _ _, .p9 => some (unlockStep s t)
  -- Remove: GetWorkloads → GetNode → lock pod → GetWorkloads again → lock workload → RemoveWorkload → unlock
  | .remove w, .p0 =>
    match nodeOfWl s w with
    | none => some (s, finish t false)
    | some n => if t.fails then some (s, finish t false) else some (s, goto { t with node := n } .p1)
  | .remove _, .p1 =>
    if t.fails || !hasNode s t.node then some (s, finish t false) else some (s, goto { t with pod := podOf s t.node } .p2)
  | .remove _, .p2 =>
    if s.locks.contains t.pod then none else some ({ s with locks := t.pod :: s.locks }, goto { t with locked := true } .p3)
  | .remove w, .p3 =>
    if t.fails || (nodeOfWl s w).isNone then some (s, goto t .p9 false) else some (s, goto t .p4)
  | .remove _, .p4 => some (s, goto t .p5)   -- the workload lock (never contended here)
  | .remove w, .p5 =>
    if t.fails then some (s, goto t .p9 false) else some ({ s with wls := s.wls.filter (fun x => x.1 != w) }, goto t .p9)
  | .remove _, .p9 => some (unlockStep s t)
  | _, _ => some (s, finish t false)

/-- label of the call a thread is about to make ("" = silent: unlock) — what the harness' gate sees -/
def label (t : Th) : String :=
  match t.op, t.pc with
  | .addPod _, .p0 => "addpod"
  | .removePod _, .p0 => "nodesbypod" | .removePod _, .p1 => "lock" | .removePod _, .p2 => "nodesbypod" | .removePod _, .p3 => "delpod"
  | .addNode _ _, .p0 => "resadd" | .addNode _ _, .p1 => "getpod" | .addNode _ _, .p2 => "mknode" | .addNode _ _, .p8 => "resrm"
  | .removeNode _, .p0 => "getnode" | .removeNode _, .p1 => "lock" | .removeNode _, .p2 => "listwl"
  | .removeNode _, .p3 => "rmnode" | .removeNode _, .p4 => "resrm"
  | .create _ _, .p0 => "getnode" | .create _ _, .p1 => "lock" | .create _ _, .p2 => "alloc" | .create _ _, .p4 => "getnode" | .create _ _, .p5 => "addwl"
  | .remove _, .p0 => "getwl" | .remove _, .p1 => "getnode" | .remove _, .p2 => "lock" | .remove _, .p3 => "getwl"
  | .remove _, .p4 => "lock" | .remove _, .p5 => "rmwl"
  | _, _ => ""

structure Sys where
  s : RState
  ts : List Th
  deriving Repr

/-- thread `i` takes one step if it can -/
def sysStep (y : Sys) (i : Nat) : Sys :=
  match y.ts[i]? with
  | none => y
  | some t =>
    match step y.s t with
    | none => y
    | some (s', t') => { s := s', ts := y.ts.set i t' }

/-- a schedule is the list of thread indices that are given a turn -/
def runSched (y : Sys) (sched : List Nat) : Sys := sched.foldl sysStep y

def quiescent (y : Sys) : Bool := y.ts.all Th.done

/-- run one thread alone (at most `fuel` steps) -/
def runAlone : Nat → RState → Th → RState × Th
  | 0, s, t => (s, t)
  | fuel + 1, s, t =>
    match step s t with
    | none => (s, t)
    | some (s', t') => runAlone fuel s' t'

/-! ### the referential invariant -/
def RefInv (s : RState) : Prop :=
  (∀ x ∈ s.nodes, x.2 ∈ s.pods) ∧            -- a pod that still has nodes has not been removed
  (∀ x ∈ s.nodes, x.1 ∈ s.res) ∧             -- every recorded node has resource information
  (∀ n ∈ s.res, hasNode s n = true) ∧        -- every resource record belongs to a recorded node
  (∀ x ∈ s.wls, hasNode s x.2 = true)        -- every workload belongs to an existing node

/-- decidable form with one tag per violated clause (oracle) -/
def refViolations (s : RState) : List String :=
  ((s.nodes.filter fun x => !s.pods.contains x.2).map fun x => "node-without-pod:" ++ x.1) ++
  ((s.nodes.filter fun x => !s.res.contains x.1).map fun x => "node-without-resource:" ++ x.1) ++
  ((s.res.filter fun n => !hasNode s n).map fun n => "resource-without-node:" ++ n) ++
  ((s.wls.filter fun x => !hasNode s x.2).map fun x => s!"workload-without-node:{x.1}")

end Eru.Cluster2.RI
