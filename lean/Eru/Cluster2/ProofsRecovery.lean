import Eru.Cluster2.Spec
/-
Proofs for C14: the recovery handlers consume the invariant event by event; every enabled
step of the WAL protocol preserves it; hence crash + recovery at any point is `Good`.
-/
set_option linter.unusedSectionVars false
namespace Eru.Cluster2
open Eru.Cluster (ResAlg)
variable {R : Type} [ResAlg R] {ex : Nat → Prop}

/-! ### algebra -/
theorem add_sub_cancel_left' (a b : R) : a + b - a = b := by
  rw [ResAlg.sub_def, ResAlg.add_comm a b, ResAlg.add_neg_cancel_right]
theorem add_sub_assoc' (a b c : R) : a + (b - c) = a + b - c := by
  rw [ResAlg.sub_def, ResAlg.sub_def, ResAlg.add_assoc]

/-! ### load -/
theorem loadL_cons (w : Wl R) (ws : List (Wl R)) (n : String) :
    loadL (w :: ws) n = if w.node = n then w.res + loadL ws n else loadL ws n := rfl

theorem filter_id_ne_of_not_mem (ws : List (Wl R)) (i : Nat) (h : ∀ x ∈ ws, x.id ≠ i) :
    ws.filter (fun x => x.id != i) = ws := by
  apply List.filter_eq_self.mpr
  intro x hx; simp [h x hx]

/-- removing the record of `w` (unique id) lowers the load of its node by `w.res` -/
theorem loadL_remove (ws : List (Wl R)) (w : Wl R) (hw : w ∈ ws) (hn : (ws.map (·.id)).Nodup) (m : String) :
    loadL (ws.filter (fun x => x.id != w.id)) m = if w.node = m then loadL ws m - w.res else loadL ws m := by
  induction ws with
  | nil => cases hw
  | cons x rest ih =>
    simp only [List.map_cons, List.nodup_cons, List.mem_map, not_exists, not_and] at hn
    by_cases hx : x.id = w.id
    · have hwx : w = x := by
        rcases List.mem_cons.mp hw with h | h
        · exact h
        · exact absurd hx.symm (hn.1 w h)
      subst hwx
      have hrest : rest.filter (fun y => y.id != w.id) = rest :=
        filter_id_ne_of_not_mem rest w.id (fun y hy => hn.1 y hy)
      simp only [List.filter_cons, bne_self_eq_false, Bool.false_eq_true, if_false, hrest, loadL_cons]
      split
      · rw [add_sub_cancel_left']
      · rfl
    · have hwr : w ∈ rest := by
        rcases List.mem_cons.mp hw with h | h
        · exact absurd (by rw [h]) hx
        · exact h
      have hne : (x.id != w.id) = true := by simp [hx]
      simp only [List.filter_cons, hne, if_true, loadL_cons, ih hwr hn.2]
      by_cases h1 : x.node = m <;> by_cases h2 : w.node = m <;> simp only [h1, h2, if_true, if_false]
      rw [add_sub_assoc']

/-! ### pending-event observations -/
theorem covered_cons (e : Ev) (es : List Ev) (n : String) : covered (e :: es) n = (e.covers n || covered es n) := by
  simp [covered]
theorem pendingCreated_cons (e : Ev) (es : List Ev) (i : Nat) :
    pendingCreated (e :: es) i = (e.isCreated i || pendingCreated es i) := by
  simp [pendingCreated]
theorem pendingProc_cons (e : Ev) (es : List Ev) (n : String) :
    pendingProc (e :: es) n = (decide (Ev.processing n = e) || pendingProc es n) := by
  simp [pendingProc]

theorem covered_append (a b : List Ev) (n : String) : covered (a ++ b) n = (covered a n || covered b n) := by
  simp [covered]
theorem pendingCreated_append (a b : List Ev) (i : Nat) :
    pendingCreated (a ++ b) i = (pendingCreated a i || pendingCreated b i) := by
  simp [pendingCreated]
theorem pendingProc_append (a b : List Ev) (n : String) :
    pendingProc (a ++ b) n = (pendingProc a n || pendingProc b n) := by
  simp [pendingProc]

theorem any_erase_of {p : Ev → Bool} {l : List Ev} {e : Ev} (h : l.any p = true) (he : p e = false) :
    (l.erase e).any p = true := by
  rw [List.any_eq_true] at h ⊢
  obtain ⟨x, hx, hp⟩ := h
  refine ⟨x, ?_, hp⟩
  have : x ≠ e := by intro h; rw [h, he] at hp; cases hp
  exact (List.mem_erase_of_ne this).mpr hx

/-! ### recorded / containers under the created-handler -/
theorem recorded_iff (s : St R) (i : Nat) : recorded s i = true ↔ ∃ w ∈ s.wls, w.id = i := by
  simp [recorded]

theorem recorded_false_of_find_none (s : St R) (i : Nat) (h : s.wls.find? (fun w => w.id == i) = none) :
    recorded s i = false := by
  simp only [List.find?_eq_none] at h
  simp only [recorded, List.any_eq_false]
  exact fun x hx => h x hx

theorem recorded_filter (s : St R) (i j : Nat) (cts : List Ct) (u : String → R) (mk : List (String × Nat)) (wl : List Ev) :
    recorded { usage := u, wls := s.wls.filter (fun x => x.id != i), cts := cts, markers := mk, wal := wl } j
      = (recorded s j && (j != i)) := by
  simp only [recorded, List.any_filter]
  induction s.wls with
  | nil => simp
  | cons x rest ih =>
    simp only [List.any_cons, ih]
    by_cases h : x.id = j
    · subst h; cases hh : (x.id != i) <;> simp [hh]
    · have : (x.id == j) = false := by simp [h]
      simp [this]

theorem runningCt_filter (cts : List Ct) (i j : Nat) (h : j ≠ i) :
    (cts.filter (fun c => c.id != i)).any (fun c => c.id == j && c.running) = cts.any (fun c => c.id == j && c.running) := by
  induction cts with
  | nil => rfl
  | cons c rest ih =>
    by_cases hc : c.id = i
    · have h1 : (c.id != i) = false := by simp [hc]
      have h2 : (c.id == j) = false := by simp [hc]; exact fun h' => h h'.symm
      simp [List.filter_cons, h1, h2, ih]
    · have h1 : (c.id != i) = true := by simp [hc]
      simp [List.filter_cons, h1, ih]

/-! ### the handlers consume the invariant -/
theorem handle_inv (s : St R) (e : Ev) (es : List Ev) (h : InvG ex s (e :: es)) : InvG ex (handle s e) es := by
  obtain ⟨hu, hm, hi, hn⟩ := h
  cases e with
  | alloc ns =>
    refine ⟨?_, ?_, ?_, hn⟩
    · intro n
      show (if ns.contains n then load s n else s.usage n) = load s n ∨ _
      by_cases hc : n ∈ ns
      · left; simp [hc]
      · rcases hu n with h | h
        · left; simp [hc, h]
        · right; simpa [covered_cons, Ev.covers, hc] using h
    · intro m hmm; simpa [pendingProc_cons] using hm m hmm
    · intro id hne h1 h2; simpa [pendingCreated_cons, Ev.isCreated] using hi id hne h1 h2
  | processing n =>
    refine ⟨?_, ?_, ?_, hn⟩
    · intro k; exact (hu k).imp (fun h => h) (fun h => by simpa [covered_cons, Ev.covers] using h)
    · intro m hmm
      simp only [handle, List.mem_filter, bne_iff_ne, ne_eq] at hmm
      have := hm m hmm.1
      simp only [pendingProc_cons, Bool.or_eq_true, decide_eq_true_eq, Ev.processing.injEq] at this
      rcases this with h | h
      · exact absurd h hmm.2
      · exact h
    · intro id hne h1 h2; simpa [pendingCreated_cons, Ev.isCreated] using hi id hne h1 h2
  | created id nd =>
    have hcov : ∀ k, covered (Ev.created id nd :: es) k = covered es k := by
      intro k; simp [covered_cons, Ev.covers]
    have hpp : ∀ k, pendingProc (Ev.created id nd :: es) k = pendingProc es k := by
      intro k; simp [pendingProc_cons]
    simp only [handle, handleCreated]
    split
    · rename_i w hw
      have hwm : w ∈ s.wls := List.mem_of_find?_eq_some hw
      have hwid : w.id = id := by simpa using List.find?_some hw
      refine ⟨?_, ?_, ?_, ?_⟩
      · intro k
        rcases hu k with h | h
        · left
          show (if k = w.node then s.usage k - w.res else s.usage k) = loadL (s.wls.filter (fun x => x.id != id)) k
          rw [← hwid, loadL_remove s.wls w hwm hn k]
          by_cases hk : k = w.node
          · subst hk; simp only [if_true]; rw [h]; rfl
          · have : ¬ w.node = k := fun h' => hk h'.symm
            simp only [hk, this, if_false]; exact h
        · right; rw [← hcov]; exact h
      · intro m hmm; rw [← hpp]; exact hm m hmm
      · intro j hne h1 h2
        rw [recorded_filter] at h1
        simp only [Bool.and_eq_true, bne_iff_ne, ne_eq] at h1
        have hj := hi j hne h1.1 (by rw [← h2]; exact (runningCt_filter s.cts id j h1.2).symm)
        simpa [pendingCreated_cons, Ev.isCreated, Ne.symm h1.2] using hj
      · exact List.Nodup.sublist (List.Sublist.map _ List.filter_sublist) hn
    · rename_i hnone
      refine ⟨?_, ?_, ?_, hn⟩
      · intro k; rw [← hcov]; exact hu k
      · intro m hmm; rw [← hpp]; exact hm m hmm
      · intro j hne h1 h2
        have hr : recorded s j = true := h1
        have hji : j ≠ id := by
          intro hji; subst hji
          rw [recorded_false_of_find_none s j hnone] at hr; cases hr
        have hj := hi j hne hr (by rw [← h2]; exact (runningCt_filter s.cts id j hji).symm)
        simpa [pendingCreated_cons, Ev.isCreated, Ne.symm hji] using hj

theorem recoverL_inv (evs : List Ev) : ∀ (s : St R), InvG ex s evs → InvG ex (recoverL s evs) [] := by
  induction evs with
  | nil => intro s h; exact h
  | cons e es ih => intro s h; exact ih _ (handle_inv s e es h)

theorem good_of_inv_nil (s : St R) (h : InvG ex s []) : Good ex { s with wal := [] } := by
  obtain ⟨hu, hm, hi, _⟩ := h
  refine ⟨?_, ?_, rfl, ?_⟩
  · intro n; rcases hu n with h | h
    · exact h
    · simp [covered] at h
  · cases hmk : s.markers with
    | nil => rfl
    | cons m rest => have := hm m (by rw [hmk]; simp); simp [pendingProc] at this
  · intro id hne h1
    cases h2 : runningCt s id with
    | true => exact h2
    | false => have := hi id hne h1 h2; simp [pendingCreated] at this

/-- recovery from any state satisfying the invariant is `Good` -/
theorem recover_good (s : St R) (h : Inv ex s) : Good ex (recover s) :=
  good_of_inv_nil _ (recoverL_inv s.wal s h)

end Eru.Cluster2
