import Eru.Cluster2.Lambda
import Eru.Cluster2.ProofsRecovery
set_option linter.unusedSectionVars false
set_option linter.unusedSimpArgs false
namespace Eru.Cluster2
open Eru.Cluster (ResAlg)
variable {R : Type} [ResAlg R]

theorem removeSync_recorded (id j : Nat) (s : St R) :
    recorded (removeSync id s) j = (recorded s j && (j != id)) := by
  unfold removeSync
  split
  · exact recorded_filter s id j _ _ _ _
  · rename_i hnone
    by_cases hj : j = id
    · subst hj; simp [recorded_false_of_find_none s j hnone]
    · simp [hj]

theorem removeSync_hasCt (id : Nat) (s : St R) (h : recorded s id = true) : hasCt (removeSync id s) id = false := by
  unfold removeSync
  split
  · simp [hasCt, List.any_filter]
  · rename_i hnone; rw [recorded_false_of_find_none s id hnone] at h; cases h

theorem removeSync_hasCt_le (id j : Nat) (s : St R) (h : hasCt (removeSync id s) j = true) : hasCt s j = true := by
  unfold removeSync at h
  split at h
  · simp only [hasCt, List.any_filter, List.any_eq_true, Bool.and_eq_true] at h ⊢
    obtain ⟨c, hc, hp⟩ := h; exact ⟨c, hc, hp.2⟩
  · exact h

theorem removeSync_consistent (id : Nat) (s : St R) (hc : Consistent s) (hn : (s.wls.map (·.id)).Nodup) :
    Consistent (removeSync id s) := by
  unfold removeSync
  split
  · rename_i w hw
    have hwm : w ∈ s.wls := List.mem_of_find?_eq_some hw
    have hwid : w.id = id := by simpa using List.find?_some hw
    intro k
    show (if k = w.node then s.usage k - w.res else s.usage k) = loadL (s.wls.filter (fun x => x.id != id)) k
    rw [← hwid, loadL_remove s.wls w hwm hn k]
    by_cases hk : k = w.node
    · subst hk; simp only [if_true]; rw [hc w.node]; rfl
    · have : ¬ w.node = k := fun h' => hk h'.symm
      simp only [hk, this, if_false]; exact hc k
  · exact hc

theorem removeSync_nodup (id : Nat) (s : St R) (hn : (s.wls.map (·.id)).Nodup) :
    ((removeSync id s).wls.map (·.id)).Nodup := by
  unfold removeSync
  split
  · exact List.Nodup.sublist (List.Sublist.map _ List.filter_sublist) hn
  · exact hn

theorem erase_append_self (l : List Nat) (i : Nat) (h : i ∉ l) : (l ++ [i]).erase i = l := by
  induction l with
  | nil => simp
  | cons x rest ih =>
    have hx : x ≠ i := fun e => h (by simp [e])
    have hr : i ∉ rest := fun e => h (by simp [e])
    simp [List.erase_cons, hx, ih hr]

theorem lambdaBody_fin_wid (stdin : Bool) (id : Nat) (sc : Script) (b : Bool) :
    (lambdaBody stdin id sc b).2.wid = id ∧ ∀ m ∈ (lambdaBody stdin id sc b).1, m = ⟨id, .data⟩ := by
  unfold lambdaBody
  cases b
  · simp
  · cases hl : sc.logs with
    | none => simp
    | some k =>
      by_cases ha : (stdin && !sc.attach) = true
      · simp [ha]
      · cases hw : sc.wait <;> simp [ha] <;> intro m _ hm <;> exact hm

end Eru.Cluster2
