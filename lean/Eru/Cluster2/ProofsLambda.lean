import Eru.Cluster2.Lambda
import Eru.Cluster2.ProofsRecovery
set_option linter.unusedSectionVars false
set_option linter.unusedSimpArgs false
namespace Eru.Cluster2
open Eru.Cluster (ResAlg)
variable {R : Type} [ResAlg R]

theorem removeSync_recorded (id j : Nat) (s : St R) :
    recorded (removeSync id s) j = (recorded s j && (j != id)) := by
  unfold removeSync
  split
  · exact recorded_filter s id j _ _ _ _
  · rename_i hnone
    by_cases hj : j = id
    · subst hj; simp [recorded_false_of_find_none s j hnone]
    · simp [hj]

theorem removeSync_hasCt (id : Nat) (s : St R) (h : recorded s id = true) : hasCt (removeSync id s) id = false := by
  unfold removeSync
  split
  · simp [hasCt, List.any_filter]
  · rename_i hnone; rw [recorded_false_of_find_none s id hnone] at h; cases h

theorem removeSync_hasCt_le (id j : Nat) (s : St R) (h : hasCt (removeSync id s) j = true) : hasCt s j = true := by
  unfold removeSync at h
  split at h
  · simp only [hasCt, List.any_filter, List.any_eq_true, Bool.and_eq_true] at h ⊢
    obtain ⟨c, hc, hp⟩ := h; exact ⟨c, hc, hp.2⟩
  · exact h

theorem removeSync_consistent (id : Nat) (s : St R) (hc : Consistent s) (hn : (s.wls.map (·.id)).Nodup) :
    Consistent (removeSync id s) := by
  unfold removeSync
  split
  · rename_i w hw
    have hwm : w ∈ s.wls := List.mem_of_find?_eq_some hw
    have hwid : w.id = id := by simpa using List.find?_some hw
    intro k
    show (if k = w.node then s.usage k - w.res else s.usage k) = loadL (s.wls.filter (fun x => x.id != id)) k
    rw [← hwid, loadL_remove s.wls w hwm hn k]
    by_cases hk : k = w.node
    · subst hk; simp only [if_true]; rw [hc w.node]; rfl
    · have : ¬ w.node = k := fun h' => hk h'.symm
      simp only [hk, this, if_false]; exact hc k
  · exact hc

theorem removeSync_nodup (id : Nat) (s : St R) (hn : (s.wls.map (·.id)).Nodup) :
    ((removeSync id s).wls.map (·.id)).Nodup := by
  unfold removeSync
  split
  · exact List.Nodup.sublist (List.Sublist.map _ List.filter_sublist) hn
  · exact hn

theorem erase_append_self (l : List Nat) (i : Nat) (h : i ∉ l) : (l ++ [i]).erase i = l := by
  induction l with
  | nil => simp
  | cons x rest ih =>
    have hx : x ≠ i := fun e => h (by simp [e])
    have hr : i ∉ rest := fun e => h (by simp [e])
    simp [List.erase_cons, hx, ih hr]

theorem lambdaBody_fin_wid (stdin : Bool) (id : Nat) (sc : Script) (b : Bool) :
    (lambdaBody stdin id sc b).2.wid = id ∧ ∀ m ∈ (lambdaBody stdin id sc b).1, m = ⟨id, .data⟩ := by
  unfold lambdaBody
  by_cases hb : (!b || sc.ctxDeadAtStart) = true
  · simp [hb]
  · simp only [hb, Bool.false_eq_true, if_false]
    cases hl : sc.logs with
    | none => simp
    | some k =>
      by_cases ha : (stdin && !sc.attach) = true
      · simp [ha]
      · cases hw : sc.wait <;> simp [ha] <;> intro m _ hm <;> exact hm

end Eru.Cluster2

namespace Eru.Cluster2
open Eru.Cluster (ResAlg)
variable {R : Type} [ResAlg R]

/-! ### all workers (`runAll`) -/
def okIds (cms : List (CreateMsg × Script)) : List Nat :=
  cms.filterMap fun p => match p.1 with | .ok i => some i | .failed => none

theorem okIds_cons_ok (i : Nat) (sc : Script) (rest : List (CreateMsg × Script)) :
    okIds ((CreateMsg.ok i, sc) :: rest) = i :: okIds rest := by simp [okIds]
theorem okIds_cons_failed (sc : Script) (rest : List (CreateMsg × Script)) :
    okIds ((CreateMsg.failed, sc) :: rest) = okIds rest := by simp [okIds]

theorem lambdaOne_ok_eq (stdin : Bool) (id : Nat) (sc : Script) (s : LSt R) (hlog : sc.walLog = true) :
    lambdaOne stdin (.ok id) sc s =
      ({ base := removeSync id s.base, lam := (s.lam ++ [id]).erase id, done := s.done + 1 },
       (lambdaBody stdin id sc (recorded s.base id)).1 ++ [(lambdaBody stdin id sc (recorded s.base id)).2]) := by
  simp [lambdaOne, hlog]

theorem lambdaOne_failed_eq (stdin : Bool) (sc : Script) (s : LSt R) :
    lambdaOne stdin .failed sc s = ({ s with done := s.done + 1 }, [⟨0, .error⟩]) := rfl

/-- the messages of a worker only depend on whether its workload is recorded when it starts -/
theorem lambdaOne_msgs_congr (stdin : Bool) (id : Nat) (sc : Script) (s s' : LSt R)
    (h : recorded s.base id = recorded s'.base id) :
    (lambdaOne stdin (.ok id) sc s).2 = (lambdaOne stdin (.ok id) sc s').2 := by
  cases hl : sc.walLog with
  | true => rw [lambdaOne_ok_eq _ _ _ _ hl, lambdaOne_ok_eq _ _ _ _ hl, h]
  | false => simp [lambdaOne, hl]

theorem lambdaOne_msgs_wid (stdin : Bool) (id : Nat) (sc : Script) (s : LSt R) :
    ∀ m ∈ (lambdaOne stdin (.ok id) sc s).2, m.wid = id := by
  intro m hm
  cases hl : sc.walLog with
  | true =>
    rw [lambdaOne_ok_eq _ _ _ _ hl] at hm
    rcases List.mem_append.mp hm with h | h
    · rw [(lambdaBody_fin_wid _ _ _ _).2 m h]
    · simp only [List.mem_singleton] at h; rw [h]; exact (lambdaBody_fin_wid _ _ _ _).1
  | false => simp [lambdaOne, hl] at hm; rw [hm]

theorem msgsOf_append (id : Nat) (a b : List Msg) : msgsOf id (a ++ b) = msgsOf id a ++ msgsOf id b := by
  simp [msgsOf]
theorem msgsOf_all (id : Nat) (a : List Msg) (h : ∀ m ∈ a, m.wid = id) : msgsOf id a = a := by
  simp only [msgsOf]; apply List.filter_eq_self.mpr; intro m hm; simp [h m hm]
theorem msgsOf_none (id : Nat) (a : List Msg) (h : ∀ m ∈ a, m.wid ≠ id) : msgsOf id a = [] := by
  simp only [msgsOf]; apply List.filter_eq_nil_iff.mpr; intro m hm; simp [h m hm]

theorem runAll_msgs_wid (stdin : Bool) (cms : List (CreateMsg × Script)) : ∀ (s : LSt R),
    ∀ m ∈ (runAll stdin cms s).2, m.wid = 0 ∨ m.wid ∈ okIds cms := by
  induction cms with
  | nil => intro s m hm; simp [runAll] at hm
  | cons x rest ih =>
    intro s m hm
    obtain ⟨cm, sc⟩ := x
    simp only [runAll] at hm
    rcases List.mem_append.mp hm with h | h
    · cases cm with
      | failed => left; rw [lambdaOne_failed_eq] at h; simp at h; rw [h]
      | ok i => right; rw [okIds_cons_ok, lambdaOne_msgs_wid stdin i sc s m h]; exact List.mem_cons_self
    · rcases ih _ m h with a | a
      · exact Or.inl a
      · right
        cases cm with
        | failed => rw [okIds_cons_failed]; exact a
        | ok i => rw [okIds_cons_ok]; exact List.mem_cons_of_mem _ a

theorem runAll_recorded_le (stdin : Bool) (cms : List (CreateMsg × Script)) (j : Nat) : ∀ (s : LSt R),
    recorded (runAll stdin cms s).1.base j = true → recorded s.base j = true := by
  induction cms with
  | nil => intro s h; exact h
  | cons x rest ih =>
    intro s h
    obtain ⟨cm, sc⟩ := x
    have h1 := ih _ h
    cases cm with
    | failed => exact h1
    | ok i =>
      cases hl : sc.walLog with
      | true => rw [lambdaOne_ok_eq _ _ _ _ hl] at h1; rw [removeSync_recorded] at h1; simp only [Bool.and_eq_true] at h1; exact h1.1
      | false => simpa [lambdaOne, hl] using h1

theorem runAll_hasCt_le (stdin : Bool) (cms : List (CreateMsg × Script)) (j : Nat) : ∀ (s : LSt R),
    hasCt (runAll stdin cms s).1.base j = true → hasCt s.base j = true := by
  induction cms with
  | nil => intro s h; exact h
  | cons x rest ih =>
    intro s h
    obtain ⟨cm, sc⟩ := x
    have h1 := ih _ h
    cases cm with
    | failed => exact h1
    | ok i =>
      cases hl : sc.walLog with
      | true => rw [lambdaOne_ok_eq _ _ _ _ hl] at h1; exact removeSync_hasCt_le i j s.base h1
      | false => simpa [lambdaOne, hl] using h1

/-- after all workers: nothing of any started workload is left, bookkeeping consistent -/
theorem runAll_clean (stdin : Bool) (cms : List (CreateMsg × Script)) : ∀ (s : LSt R),
    (okIds cms).Nodup → (∀ p ∈ cms, p.2.walLog = true) → Consistent s.base → (s.base.wls.map (·.id)).Nodup →
    (∀ i ∈ okIds cms, recorded s.base i = true) →
    (∀ i ∈ okIds cms, recorded (runAll stdin cms s).1.base i = false ∧ hasCt (runAll stdin cms s).1.base i = false) ∧
      Consistent (runAll stdin cms s).1.base ∧ ((runAll stdin cms s).1.base.wls.map (·.id)).Nodup := by
  induction cms with
  | nil => intro s _ _ hc hn _; exact ⟨fun i hi => by simp [okIds] at hi, hc, hn⟩
  | cons x rest ih =>
    intro s hnd hlog hc hn hrec
    obtain ⟨cm, sc⟩ := x
    cases cm with
    | failed =>
      rw [okIds_cons_failed] at hnd hrec
      exact ih _ hnd (fun p hp => hlog p (List.mem_cons_of_mem _ hp)) hc hn hrec
    | ok i =>
      rw [okIds_cons_ok] at hnd hrec
      have hl : sc.walLog = true := hlog _ List.mem_cons_self
      have hri : recorded s.base i = true := hrec i List.mem_cons_self
      have hone := lambdaOne_ok_eq stdin i sc s hl
      let s1 : LSt R := { base := removeSync i s.base, lam := (s.lam ++ [i]).erase i, done := s.done + 1 }
      have hrun : runAll stdin ((CreateMsg.ok i, sc) :: rest) s =
          ((runAll stdin rest s1).1, (lambdaOne stdin (.ok i) sc s).2 ++ (runAll stdin rest s1).2) := by
        simp only [runAll, hone]; rfl
      have hrec1 : ∀ j ∈ okIds rest, recorded s1.base j = true := by
        intro j hj
        show recorded (removeSync i s.base) j = true
        rw [removeSync_recorded, hrec j (List.mem_cons_of_mem _ hj)]
        have : j ≠ i := fun e => (List.nodup_cons.mp hnd).1 (e ▸ hj)
        simp [this]
      obtain ⟨h1, h2, h3⟩ := ih s1 (List.nodup_cons.mp hnd).2 (fun p hp => hlog p (List.mem_cons_of_mem _ hp))
        (removeSync_consistent i s.base hc hn) (removeSync_nodup i s.base hn) hrec1
      rw [hrun]
      refine ⟨?_, h2, h3⟩
      intro j hj
      rcases List.mem_cons.mp hj with e | e
      · subst e
        constructor
        · cases hh : recorded (runAll stdin rest s1).1.base j with
          | false => rfl
          | true =>
            have := runAll_recorded_le stdin rest j s1 hh
            have e2 : recorded s1.base j = false := by
              show recorded (removeSync j s.base) j = false
              rw [removeSync_recorded]; simp
            rw [e2] at this; cases this
        · cases hh : hasCt (runAll stdin rest s1).1.base j with
          | false => rfl
          | true =>
            have := runAll_hasCt_le stdin rest j s1 hh
            have e2 : hasCt s1.base j = false := removeSync_hasCt j s.base hri
            rw [e2] at this; cases this
      · exact h1 j e

/-- every `create-lambda` event is committed when the stream closes -/
theorem runAll_wal_committed (stdin : Bool) (cms : List (CreateMsg × Script)) : ∀ (s : LSt R),
    (okIds cms).Nodup → (∀ p ∈ cms, p.2.walLog = true) → (∀ i ∈ okIds cms, i ∉ s.lam) →
    (runAll stdin cms s).1.lam = s.lam := by
  induction cms with
  | nil => intro s _ _ _; rfl
  | cons x rest ih =>
    intro s hnd hlog hfr
    obtain ⟨cm, sc⟩ := x
    cases cm with
    | failed =>
      rw [okIds_cons_failed] at hnd hfr
      exact ih _ hnd (fun p hp => hlog p (List.mem_cons_of_mem _ hp)) hfr
    | ok i =>
      rw [okIds_cons_ok] at hnd hfr
      have hl : sc.walLog = true := hlog _ List.mem_cons_self
      have e : (lambdaOne stdin (.ok i) sc s).1.lam = s.lam := by
        rw [lambdaOne_ok_eq _ _ _ _ hl]; exact erase_append_self s.lam i (hfr i List.mem_cons_self)
      have := ih (lambdaOne stdin (.ok i) sc s).1 (List.nodup_cons.mp hnd).2 (fun p hp => hlog p (List.mem_cons_of_mem _ hp))
        (fun j hj => by rw [e]; exact hfr j (List.mem_cons_of_mem _ hj))
      simp only [runAll]; rw [this, e]

/-- the message sequence of each worker inside the whole run is the one it would send alone -/
theorem runAll_msgs (stdin : Bool) (cms : List (CreateMsg × Script)) : ∀ (s : LSt R) (id : Nat) (sc : Script),
    (okIds cms).Nodup → 0 ∉ okIds cms → (CreateMsg.ok id, sc) ∈ cms →
    msgsOf id (runAll stdin cms s).2 = (lambdaOne stdin (.ok id) sc s).2 := by
  induction cms with
  | nil => intro s id sc _ _ h; cases h
  | cons x rest ih =>
    intro s id sc hnd h0 hmem
    obtain ⟨cm, sc'⟩ := x
    simp only [runAll, msgsOf_append]
    have hid0 : id ≠ 0 := by
      intro e; apply h0; rw [← e]
      simp only [okIds, List.mem_filterMap]; exact ⟨_, hmem, rfl⟩
    cases cm with
    | failed =>
      rw [okIds_cons_failed] at hnd h0
      have hm : (CreateMsg.ok id, sc) ∈ rest := by
        rcases List.mem_cons.mp hmem with e | e
        · cases e
        · exact e
      rw [lambdaOne_failed_eq]
      rw [msgsOf_none id [⟨0, .error⟩] (by intro m hm'; simp at hm'; rw [hm']; exact fun e => hid0 e.symm)]
      rw [List.nil_append, ih _ id sc hnd h0 hm]
      exact lambdaOne_msgs_congr stdin id sc _ _ rfl
    | ok i =>
      rw [okIds_cons_ok] at hnd h0
      have hnd' := List.nodup_cons.mp hnd
      have h0' : 0 ∉ okIds rest := fun e => h0 (List.mem_cons_of_mem _ e)
      rcases List.mem_cons.mp hmem with e | e
      · -- the head is our worker
        have ei : id = i := by cases e; rfl
        have es : sc = sc' := by cases e; rfl
        subst ei; subst es
        rw [msgsOf_all id _ (lambdaOne_msgs_wid stdin id sc s)]
        rw [msgsOf_none id (runAll stdin rest (lambdaOne stdin (.ok id) sc s).1).2]
        · simp
        · intro m hm
          rcases runAll_msgs_wid stdin rest _ m hm with a | a
          · rw [a]; exact fun e' => hid0 e'.symm
          · intro e'; rw [e'] at a; exact hnd'.1 a
      · -- another worker first
        have hne : id ≠ i := by
          intro e'; apply hnd'.1; rw [← e']
          simp only [okIds, List.mem_filterMap]; exact ⟨_, e, rfl⟩
        rw [msgsOf_none id (lambdaOne stdin (.ok i) sc' s).2
          (by intro m hm; rw [lambdaOne_msgs_wid stdin i sc' s m hm]; exact fun e' => hne e'.symm)]
        rw [List.nil_append, ih _ id sc hnd'.2 h0' e]
        apply lambdaOne_msgs_congr
        cases hl : sc'.walLog with
        | true => rw [lambdaOne_ok_eq _ _ _ _ hl]; show recorded (removeSync i s.base) id = _; rw [removeSync_recorded]; simp [hne]
        | false => simp [lambdaOne, hl]

end Eru.Cluster2
