import Eru.Cluster2.ProofsCreate
/-
C14: the exception of the property made precise.  `window tr` = the ids whose `engineCreate` has
been executed in `tr` and whose `logCreated` has not (yet): "created in the instant before the
crash, not yet logged".  A container that is leaked after recovery was pre-existing or lies in
that window of the executed prefix.
-/
set_option linter.unusedSectionVars false
set_option linter.unusedSimpArgs false
namespace Eru.Cluster2
open Eru.Cluster (ResAlg)
variable {R : Type} [ResAlg R] [DecidableEq R]

def windowStep (w : List Nat) : Step R → List Nat
  | .engineCreate id _ => id :: w
  | .logCreated id _ => w.filter (fun j => j != id)
  | _ => w

/-- ids created by the engine and not yet logged at the end of `tr` -/
def window (tr : List (Step R)) : List Nat := tr.foldl windowStep []

/-- every container is pre-existing, recorded, covered by a pending `create-workload` event, or in the window -/
def CtInv (s0 s : St R) (w : List Nat) : Prop :=
  ∀ id, hasCt s id = true → hasCt s0 id = true ∨ recorded s id = true ∨ pendingCreated s.wal id = true ∨ id ∈ w

theorem hasCt_start (cts : List Ct) (i j : Nat) :
    (cts.map (fun c => if c.id = i then { c with running := true } else c)).any (fun c => c.id == j) = cts.any (fun c => c.id == j) := by
  induction cts with
  | nil => rfl
  | cons c rest ih =>
    simp only [List.map_cons, List.any_cons, ih]
    by_cases h : c.id = i <;> simp [h]

theorem ctinv_step (s0 s : St R) (w : List Nat) (st : Step R) (h : CtInv s0 s w) (hen : st.enabled s = true) :
    CtInv s0 (st.apply s) (windowStep w st) := by
  intro j hj
  cases st with
  | logAlloc ns =>
    rcases h j hj with a | a | a | a
    · exact Or.inl a
    · exact Or.inr (Or.inl a)
    · exact Or.inr (Or.inr (Or.inl (by show pendingCreated (s.wal ++ _) j = true; rw [pendingCreated_append, a]; rfl)))
    · exact Or.inr (Or.inr (Or.inr a))
  | logProcessing n =>
    rcases h j hj with a | a | a | a
    · exact Or.inl a
    · exact Or.inr (Or.inl a)
    · exact Or.inr (Or.inr (Or.inl (by show pendingCreated (s.wal ++ _) j = true; rw [pendingCreated_append, a]; rfl)))
    · exact Or.inr (Or.inr (Or.inr a))
  | pluginAlloc n rs => exact h j hj
  | createProcessing n k => exact h j hj
  | deleteProcessing n => exact h j hj
  | read k => exact h j hj
  | engineCreate id n =>
    by_cases e : id = j
    · right; right; right; rw [e]; exact List.mem_cons_self
    · have : hasCt s j = true := by simpa [hasCt, Step.apply, e] using hj
      rcases h j this with a | a | a | a
      · exact Or.inl a
      · exact Or.inr (Or.inl a)
      · exact Or.inr (Or.inr (Or.inl a))
      · exact Or.inr (Or.inr (Or.inr (List.mem_cons_of_mem _ a)))
  | logCreated id n =>
    rcases h j hj with a | a | a | a
    · exact Or.inl a
    · exact Or.inr (Or.inl a)
    · exact Or.inr (Or.inr (Or.inl (by show pendingCreated (s.wal ++ _) j = true; rw [pendingCreated_append, a]; rfl)))
    · by_cases e : j = id
      · right; right; left
        show pendingCreated (s.wal ++ [Ev.created id n]) j = true
        simp [pendingCreated_append, pendingCreated, Ev.isCreated, e]
      · right; right; right
        show j ∈ w.filter (fun k => k != id)
        exact List.mem_filter.mpr ⟨a, by simp [e]⟩
  | addWorkload id n r =>
    have : hasCt s j = true := hj
    rcases h j this with a | a | a | a
    · exact Or.inl a
    · right; left; simp only [recorded, Step.apply, List.any_cons]; simp [recorded] at a; simp [a]
    · exact Or.inr (Or.inr (Or.inl a))
    · exact Or.inr (Or.inr (Or.inr a))
  | engineStart id =>
    have : hasCt s j = true := by
      have e := hasCt_start s.cts id j
      simp only [hasCt, Step.apply] at hj ⊢; rw [← e]; exact hj
    exact h j this
  | commitCreated id n =>
    have hc : hasCt s j = true := hj
    simp only [Step.enabled, Bool.or_eq_true, Bool.and_eq_true, Bool.not_eq_true'] at hen
    rcases h j hc with a | a | a | a
    · exact Or.inl a
    · exact Or.inr (Or.inl a)
    · by_cases e : id = j
      · subst e
        rcases hen with g | g
        · exact Or.inr (Or.inl g.1)
        · rw [g.2] at hc; cases hc
      · exact Or.inr (Or.inr (Or.inl (any_erase_of a (by simp [Ev.isCreated, e]))))
    · exact Or.inr (Or.inr (Or.inr a))
  | commitProcessing n =>
    rcases h j hj with a | a | a | a
    · exact Or.inl a
    · exact Or.inr (Or.inl a)
    · exact Or.inr (Or.inr (Or.inl (any_erase_of a rfl)))
    · exact Or.inr (Or.inr (Or.inr a))
  | commitAlloc ns =>
    rcases h j hj with a | a | a | a
    · exact Or.inl a
    · exact Or.inr (Or.inl a)
    · exact Or.inr (Or.inr (Or.inl (any_erase_of a rfl)))
    · exact Or.inr (Or.inr (Or.inr a))

theorem ctinv_exec (s0 : St R) (tr : List (Step R)) : ∀ (s : St R) (w : List Nat), CtInv s0 s w →
    validTrace s tr = true → CtInv s0 (exec s tr) (tr.foldl windowStep w) := by
  induction tr with
  | nil => intro s w h _; exact h
  | cons st rest ih =>
    intro s w h hv
    simp only [validTrace, Bool.and_eq_true] at hv
    exact ih _ _ (ctinv_step s0 s w st h hv.1) hv.2

/-- recovery removes only the records named by pending `create-workload` events -/
theorem recorded_recoverL (id : Nat) (evs : List Ev) : ∀ (s : St R), pendingCreated evs id = false →
    recorded (recoverL s evs) id = recorded s id := by
  induction evs with
  | nil => intro s _; rfl
  | cons e es ih =>
    intro s hp
    rw [pendingCreated_cons, Bool.or_eq_false_iff] at hp
    show recorded (recoverL (handle s e) es) id = recorded s id
    rw [ih _ hp.2]
    cases e with
    | alloc ns => rfl
    | processing n => rfl
    | created j nd =>
      have hj : id ≠ j := by
        intro e'; have := hp.1; simp [Ev.isCreated, e'] at this
      simp only [handle, handleCreated]
      split
      · rw [recorded_filter]; simp [hj]
      · rfl

end Eru.Cluster2
