/-
C28 model: `selfmon/selfmon.go` (initNodeStatus, monitor, dealNodeStatusMessage),
`cluster/calcium/node.go` (SetNode{WorkloadsDown} → setAllWorkloadsOnNodeDown) and the node
status key of `store/etcdv3/node.go` (SetNodeStatus with a TTL / negative TTL, the watch on
`/status:node/` that turns a DELETE into `Alive = false`).  No Mathlib.
-/
namespace Eru.Cluster2.ND

structure NodeRec where
  name : String
  test : Bool := false     -- `Test` nodes are forced alive by initNodeStatus
  bypass : Bool := false   -- taken out of service by the operator (SetNode{Bypass}); NOT forced alive
  deriving DecidableEq, Repr

structure WlRec where
  id : Nat
  node : String
  nameOk : Bool := true    -- utils.ParseWorkloadName succeeds on the workload's name
  deriving DecidableEq, Repr

structure WStatus where
  running : Bool
  healthy : Bool
  deriving DecidableEq, Repr

def down : WStatus := ⟨false, false⟩
def up : WStatus := ⟨true, true⟩

structure St where
  nodes : List NodeRec := []
  hb : List String := []                 -- nodes whose heartbeat status key exists
  wls : List WlRec := []                 -- recorded workloads
  status : List (Nat × WStatus) := []    -- reported workload statuses (latest first)
  active : Bool := false                 -- the node-status watcher is running
  deriving Repr

def getStatus (s : St) (id : Nat) : Option WStatus := (s.status.find? (fun p => p.1 == id)).map (·.2)

def setStatus (id : Nat) (v : WStatus) (s : St) : St :=
  { s with status := (id, v) :: s.status.filter (fun p => p.1 != id) }

/-- `setAllWorkloadsOnNodeDown`: every workload listed on the node whose name parses gets
`running = false, healthy = false` -/
def markDown (ws : List WlRec) (s : St) : St := ws.foldl (fun s w => setStatus w.id down s) s

def onNode (s : St) (n : String) : List WlRec := s.wls.filter (fun w => w.node == n && w.nameOk)

def setAllDown (n : String) (s : St) : St := markDown (onNode s n) s

def nodeExists (s : St) (n : String) : Bool := s.nodes.any (fun nd => nd.name == n)

/-- `dealNodeStatusMessage`: alive → nothing; otherwise SetNode{WorkloadsDown} (which needs the node) -/
def dealMsg (n : String) (alive : Bool) (s : St) : St :=
  if alive then s else if nodeExists s n then setAllDown n s else s

/-- `initNodeStatus`: for every node, alive := status key exists; a test node is forced alive -/
def initFold (hb : List String) : List NodeRec → St → St
  | [], s => s
  | nd :: rest, s => initFold hb rest (dealMsg nd.name (nd.test || hb.contains nd.name) s)

def initNodeStatus (s : St) : St := initFold s.hb s.nodes s

inductive Evt where
  | heartbeat (n : String)       -- agent: SetNodeStatus(ttl > 0)
  | lapse (n : String)           -- expiry or deletion of the status key
  | create (id : Nat) (n : String)
  | report (id : Nat) (st : WStatus)  -- the agent reports a status (any of the four running/healthy combinations)
  | startWatcher                 -- an ACTIVATION: the watcher obtains /selfmon/active (first start or failover) → scan + watch
  | stopWatcher                  -- the watcher loses / gives up the active key
  | standby                      -- a watcher process starts while another instance holds the key: nothing happens
  | bypass (n : String)          -- operator: SetNode{Bypass: true}
  deriving DecidableEq, Repr

def step (s : St) : Evt → St
  | .heartbeat n => if s.hb.contains n then s else { s with hb := n :: s.hb }
  | .lapse n =>
    let s' := { s with hb := s.hb.filter (fun m => m != n) }
    -- the watch delivers a DELETE only if the key existed and only to an active watcher
    if s.active && s.hb.contains n then dealMsg n false s' else s'
  | .create id n => { s with wls := ⟨id, n, true⟩ :: s.wls }
  | .report id st => setStatus id st s
  | .startWatcher => initNodeStatus { s with active := true }
  | .stopWatcher => { s with active := false }
  | .standby => s
  | .bypass n => { s with nodes := s.nodes.map fun nd => if nd.name == n then { nd with bypass := true } else nd }

def run (s : St) (evs : List Evt) : St := evs.foldl step s

/-- **What C28 demands, read off the history** (independent of how the handlers work): the ids
that must be reported down at the end — the workloads recorded on an existing node at the moment
its heartbeat disappeared under an active watcher, or found lapsed (non-test node) when the
watcher started, and not reported up again by their agent since.  NOT included (and not marked by
the code): workloads created on the node after its lapse was handled, lapses of `Test` nodes found
by `initNodeStatus`, lapses while no watcher is active (until the next ACTIVATION: `startWatcher`
stands for every activation — first start or failover after a standby period — and each one scans
all nodes). Bypassed nodes are NOT exempt. -/
def obligations : List Evt → St → List Nat → List Nat
  | [], _, ob => ob
  | e :: rest, s, ob =>
    let ob' := match e with
      | .lapse n => if s.active && s.hb.contains n && nodeExists s n then ob ++ ((onNode s n).map (·.id)) else ob
      | .startWatcher =>
        ob ++ (s.nodes.filter fun nd => !nd.test && !s.hb.contains nd.name).flatMap fun nd => (onNode s nd.name).map (·.id)
      | .report i _ => ob.filter (fun j => j != i)
      | _ => ob
    obligations rest (step s e) ob'

/-- workloads that C28 requires to be reported down in state `s`: recorded on a node that has
no heartbeat (the decidable clause evaluated on the implementation's reports) -/
def stillUp (s : St) (n : String) : List Nat :=
  ((onNode s n).filter fun w => getStatus s w.id != some down).map (·.id)

end Eru.Cluster2.ND
