import Eru.Cluster2.ProofsSteps
/-
C14: the canonical step sequence of a fault-free deployment (`createSteps`) respects the WAL
protocol (`validTrace`) from every state satisfying `Pre` — by symbolic execution phase by phase.
-/
set_option linter.unusedSectionVars false
set_option linter.unusedSimpArgs false
namespace Eru.Cluster2
open Eru.Cluster (ResAlg)
variable {R : Type} [ResAlg R] [DecidableEq R] {ex : Nat → Prop}

theorem exec_append (s : St R) (a b : List (Step R)) : exec s (a ++ b) = exec (exec s a) b := by
  simp [exec, List.foldl_append]

theorem exec_cons (s : St R) (a : Step R) (b : List (Step R)) : exec s (a :: b) = exec (a.apply s) b := rfl

theorem validTrace_append (a : List (Step R)) : ∀ (s : St R) (b : List (Step R)),
    validTrace s (a ++ b) = (validTrace s a && validTrace (exec s a) b) := by
  induction a with
  | nil => intro s b; simp [validTrace, exec]
  | cons x rest ih => intro s b; simp [validTrace, exec_cons, ih, Bool.and_assoc]

/-- usage / load added by the plan on node `m` -/
def planAdd (plan : Plan R) (a : R) (m : String) : R :=
  match plan with
  | [] => a
  | e :: rest => planAdd rest (if e.1 = m then a + sumR (e.2.map (·.2)) else a) m

/-- adding the instances one after the other -/
def accR : List R → R → R
  | [], a => a
  | r :: rs, a => accR rs (r + a)

theorem accR_eq (rs : List R) : ∀ a : R, accR rs a = a + sumR rs := by
  induction rs with
  | nil => intro a; simp [accR, sumR, ResAlg.add_zero]
  | cons r rest ih =>
    intro a
    simp only [accR, sumR, ih]
    rw [ResAlg.add_comm r a, ResAlg.add_assoc]

/-! ### phase A: allocation, markers -/
structure FrameA (plan : Plan R) (s s' : St R) : Prop where
  wls : s'.wls = s.wls
  cts : s'.cts = s.cts
  usage : ∀ m, s'.usage m = planAdd plan (s.usage m) m
  cov : ∀ n, covered s.wal n = true → covered s'.wal n = true
  mks : ∀ x ∈ s'.markers, x ∈ s.markers ∨ x.1 ∈ plan.map (·.1)

theorem allocPhase_ok (plan : Plan R) : ∀ (s : St R), (∀ e ∈ plan, covered s.wal e.1 = true) →
    validTrace s (plan.flatMap allocSteps) = true ∧ FrameA plan s (exec s (plan.flatMap allocSteps)) := by
  induction plan with
  | nil =>
    intro s _
    exact ⟨rfl, ⟨rfl, rfl, fun _ => rfl, fun _ h => h, fun x hx => Or.inl hx⟩⟩
  | cons e rest ih =>
    intro s hc
    have hce : covered s.wal e.1 = true := hc e (by simp)
    let s1 : St R := exec s (allocSteps e)
    have hs1w : s1.wal = s.wal ++ [.processing e.1] := rfl
    have hcov1 : ∀ n, covered s.wal n = true → covered s1.wal n = true := by
      intro n hn; rw [hs1w, covered_append, hn]; rfl
    have hrest := ih s1 (fun e' he' => hcov1 _ (hc e' (by simp [he'])))
    have hv1 : validTrace s (allocSteps e) = true := by
      simp [allocSteps, validTrace, Step.enabled, Step.apply, hce, pendingProc_append, pendingProc]
    refine ⟨?_, ?_⟩
    · rw [List.flatMap_cons, validTrace_append, hv1, hrest.1]; rfl
    · rw [List.flatMap_cons, exec_append]
      obtain ⟨_, fr⟩ := hrest
      refine ⟨fr.wls, fr.cts, ?_, fun n hn => fr.cov n (hcov1 n hn), ?_⟩
      · intro m
        rw [fr.usage m]
        show planAdd rest (if m = e.1 then s.usage m + sumR (e.2.map (·.2)) else s.usage m) m = planAdd (e :: rest) (s.usage m) m
        simp only [planAdd]
        by_cases h : m = e.1
        · subst h; simp
        · have : ¬ e.1 = m := fun h' => h h'.symm
          simp [h, this]
      · intro x hx
        rcases fr.mks x hx with h | h
        · have : x = (e.1, e.2.length) ∨ x ∈ s.markers := by
            have : s1.markers = (e.1, e.2.length) :: s.markers := rfl
            rw [this] at h; exact List.mem_cons.mp h
          rcases this with h' | h'
          · right; simp [h']
          · left; exact h'
        · right; simp only [List.map_cons, List.mem_cons]; right; exact h

/-! ### phase B: the instances -/
structure FrameB (s s' : St R) : Prop where
  usage : s'.usage = s.usage
  cov : ∀ n, covered s.wal n = true → covered s'.wal n = true
  mks : ∀ x ∈ s'.markers, ∃ y ∈ s.markers, y.1 = x.1

theorem FrameB.refl (s : St R) : FrameB s s := ⟨rfl, fun _ h => h, fun x hx => ⟨x, hx, rfl⟩⟩

theorem FrameB.trans {a b c : St R} (h1 : FrameB a b) (h2 : FrameB b c) : FrameB a c :=
  ⟨h2.usage.trans h1.usage, fun n hn => h2.cov n (h1.cov n hn), fun x hx => by
    obtain ⟨y, hy, e⟩ := h2.mks x hx
    obtain ⟨z, hz, e'⟩ := h1.mks y hy
    exact ⟨z, hz, e'.trans e⟩⟩

theorem instSteps_ok (n : String) (i : Nat × R) (s : St R) (hc : covered s.wal n = true)
    (hf : recorded s i.1 = false) :
    validTrace s (instSteps n i) = true ∧ FrameB s (exec s (instSteps n i)) ∧
      (exec s (instSteps n i)).wls = ⟨i.1, n, i.2⟩ :: s.wls := by
  refine ⟨?_, ⟨rfl, ?_, ?_⟩, rfl⟩
  · have hr : recorded ({ s with cts := ⟨i.1, n, false⟩ :: s.cts, wal := s.wal ++ [.created i.1 n] } : St R) i.1 = false := hf
    have hf' : ∀ x ∈ s.wls, ¬ x.id = i.1 := by simpa [recorded] using hf
    simp [instSteps, validTrace, Step.enabled, Step.apply, pendingCreated_append, pendingCreated, Ev.isCreated,
      covered_append, hc, runningCt, recorded]
    exact hf'
  · intro k hk
    show covered ((s.wal ++ [Ev.created i.1 n]).erase (Ev.created i.1 n)) k = true
    exact any_erase_of (by rw [← covered, covered_append, hk]; rfl) rfl
  · intro x hx
    have : x ∈ s.markers.map (fun m => if m.1 = n then (m.1, m.2 - 1) else m) := hx
    obtain ⟨y, hy, e⟩ := List.mem_map.mp this
    refine ⟨y, hy, ?_⟩
    rw [← e]; split <;> rfl

theorem recorded_cons (s : St R) (w : Wl R) (j : Nat) (s' : St R) (h : s'.wls = w :: s.wls) :
    recorded s' j = (w.id == j || recorded s j) := by
  simp [recorded, h]

theorem load_cons (s s' : St R) (w : Wl R) (h : s'.wls = w :: s.wls) (m : String) :
    load s' m = if w.node = m then w.res + load s m else load s m := by
  simp [load, h, loadL_cons]

theorem nodeInsts_ok (n : String) (insts : List (Nat × R)) : ∀ (s : St R), covered s.wal n = true →
    (∀ i ∈ insts, recorded s i.1 = false) → (insts.map (·.1)).Nodup →
    validTrace s (insts.flatMap (instSteps n)) = true ∧ FrameB s (exec s (insts.flatMap (instSteps n))) ∧
    (∀ m, load (exec s (insts.flatMap (instSteps n))) m = if n = m then accR (insts.map (·.2)) (load s m) else load s m) ∧
    (∀ j, recorded (exec s (insts.flatMap (instSteps n))) j = (insts.any (fun i => i.1 == j) || recorded s j)) := by
  induction insts with
  | nil => intro s _ _ _; exact ⟨rfl, FrameB.refl s, fun m => by simp [accR, exec], fun j => by simp [exec]⟩
  | cons i rest ih =>
    intro s hc hf hnd
    simp only [List.map_cons, List.nodup_cons] at hnd
    obtain ⟨hv1, fr1, hw1⟩ := instSteps_ok n i s hc (hf i (by simp))
    let s1 := exec s (instSteps n i)
    have hrec1 : ∀ j, recorded s1 j = (i.1 == j || recorded s j) := fun j => recorded_cons s ⟨i.1, n, i.2⟩ j s1 hw1
    have hfr : ∀ k ∈ rest, recorded s1 k.1 = false := by
      intro k hk
      rw [hrec1, hf k (by simp [hk])]
      have : i.1 ≠ k.1 := fun e => hnd.1 (by rw [e]; exact List.mem_map_of_mem hk)
      simp [this]
    obtain ⟨hv2, fr2, hl2, hr2⟩ := ih s1 (fr1.cov n hc) hfr hnd.2
    refine ⟨?_, ?_, ?_, ?_⟩
    · rw [List.flatMap_cons, validTrace_append, hv1, hv2]; rfl
    · rw [List.flatMap_cons, exec_append]; exact fr1.trans fr2
    · intro m
      rw [List.flatMap_cons, exec_append, hl2 m, load_cons s s1 _ hw1 m]
      by_cases h : n = m <;> simp [h, accR]
    · intro j
      rw [List.flatMap_cons, exec_append, hr2 j, hrec1 j]
      simp only [List.any_cons]
      generalize (rest.any fun i => i.1 == j) = a
      generalize (i.1 == j) = b
      generalize recorded s j = c
      cases a <;> cases b <;> cases c <;> rfl

def planIds (plan : Plan R) : List Nat := plan.flatMap (fun e => e.2.map (·.1))

theorem instPhase_ok (plan : Plan R) : ∀ (s : St R), (∀ e ∈ plan, covered s.wal e.1 = true) →
    (∀ j ∈ planIds plan, recorded s j = false) → (planIds plan).Nodup →
    validTrace s (plan.flatMap nodeSteps) = true ∧ FrameB s (exec s (plan.flatMap nodeSteps)) ∧
    (∀ m, load (exec s (plan.flatMap nodeSteps)) m = planAdd plan (load s m) m) := by
  induction plan with
  | nil => intro s _ _ _; exact ⟨rfl, FrameB.refl s, fun _ => rfl⟩
  | cons e rest ih =>
    intro s hc hf hnd
    have hids : planIds (e :: rest) = e.2.map (·.1) ++ planIds rest := by simp [planIds]
    rw [hids, List.nodup_append] at hnd
    obtain ⟨hnd1, hnd2, hdisj⟩ := hnd
    have hfe : ∀ i ∈ e.2, recorded s i.1 = false := fun i hi => hf i.1 (by rw [hids]; simp; left; exact ⟨i.2, hi⟩)
    obtain ⟨hv1, fr1, hl1, hr1⟩ := nodeInsts_ok e.1 e.2 s (hc e (by simp)) hfe hnd1
    let s1 := exec s (e.2.flatMap (instSteps e.1))
    have hns : ∀ (s : St R), exec s (nodeSteps e) = exec s (e.2.flatMap (instSteps e.1)) := fun _ => rfl
    have hnv : validTrace s (nodeSteps e) = validTrace s (e.2.flatMap (instSteps e.1)) := by
      simp [nodeSteps, validTrace, Step.enabled, Step.apply]
    have hf1 : ∀ j ∈ planIds rest, recorded s1 j = false := by
      intro j hj
      rw [hr1 j, hf j (by rw [hids]; exact List.mem_append_right _ hj)]
      have : (e.2.any fun i => i.1 == j) = false := by
        rw [List.any_eq_false]; intro i hi
        have := hdisj i.1 (List.mem_map_of_mem hi) j hj
        simp [this]
      simp [this]
    obtain ⟨hv2, fr2, hl2⟩ := ih s1 (fun e' he' => fr1.cov _ (hc e' (by simp [he']))) hf1 hnd2
    refine ⟨?_, ?_, ?_⟩
    · rw [List.flatMap_cons, validTrace_append, hnv, hv1, hns, hv2]; rfl
    · rw [List.flatMap_cons, exec_append, hns]; exact fr1.trans fr2
    · intro m
      rw [List.flatMap_cons, exec_append, hns, hl2 m, hl1 m]
      simp only [planAdd]
      by_cases h : e.1 = m
      · simp [h, accR_eq]
      · simp [h]

/-! ### phase C: delete markers, commit their events -/
theorem deletes_ok (l : List String) : ∀ (s : St R),
    validTrace s (l.map (fun n => (Step.deleteProcessing n : Step R))) = true ∧
    (exec s (l.map (fun n => (Step.deleteProcessing n : Step R)))).usage = s.usage ∧
    (exec s (l.map (fun n => (Step.deleteProcessing n : Step R)))).wls = s.wls ∧
    (∀ x ∈ (exec s (l.map (fun n => (Step.deleteProcessing n : Step R)))).markers, x ∈ s.markers ∧ x.1 ∉ l) := by
  induction l with
  | nil => intro s; exact ⟨rfl, rfl, rfl, fun x hx => ⟨hx, by simp⟩⟩
  | cons n rest ih =>
    intro s
    obtain ⟨hv, hu, hw, hm⟩ := ih (Step.apply s (.deleteProcessing n))
    refine ⟨by simp [validTrace, Step.enabled, hv], hu, hw, ?_⟩
    intro x hx
    obtain ⟨h1, h2⟩ := hm x hx
    have : x ∈ s.markers.filter (fun m => m.1 != n) := h1
    rw [List.mem_filter] at this
    refine ⟨this.1, ?_⟩
    simp only [List.mem_cons, not_or]
    exact ⟨by simpa using this.2, h2⟩

theorem commitsP_ok (l : List String) : ∀ (s : St R), s.markers = [] →
    validTrace s (l.map (fun n => (Step.commitProcessing n : Step R))) = true ∧
    (exec s (l.map (fun n => (Step.commitProcessing n : Step R)))).usage = s.usage ∧
    (exec s (l.map (fun n => (Step.commitProcessing n : Step R)))).wls = s.wls := by
  induction l with
  | nil => intro s _; exact ⟨rfl, rfl, rfl⟩
  | cons n rest ih =>
    intro s hm
    obtain ⟨hv, hu, hw⟩ := ih (Step.apply s (.commitProcessing n)) hm
    exact ⟨by simp [validTrace, Step.enabled, hm, hv], hu, hw⟩

theorem load_congr (s s' : St R) (h : s'.wls = s.wls) (m : String) : load s' m = load s m := by
  simp [load, h]

/-- **The fixed deployment code respects the WAL protocol**: from every state satisfying `Pre`,
for every plan whose nodes are among the logged nodes and whose container ids are fresh and distinct -/
theorem create_valid (s0 : St R) (nodes : List String) (plan : Plan R) (hpre : Pre ex s0)
    (hsub : ∀ e ∈ plan, e.1 ∈ nodes) (hfresh : ∀ j ∈ planIds plan, recorded s0 j = false)
    (hnd : (planIds plan).Nodup) : validTrace s0 (createSteps nodes plan) = true := by
  unfold createSteps
  let s1 : St R := Step.apply s0 (.logAlloc nodes)
  have hcov1 : ∀ e ∈ plan, covered s1.wal e.1 = true := by
    intro e he
    show covered (s0.wal ++ [Ev.alloc nodes]) e.1 = true
    simp [covered_append, covered, Ev.covers, hsub e he]
  obtain ⟨hvA, frA⟩ := allocPhase_ok plan s1 hcov1
  let sA := exec s1 (plan.flatMap allocSteps)
  have hfreshA : ∀ j ∈ planIds plan, recorded sA j = false := by
    intro j hj; simp only [recorded, sA, frA.wls]; exact hfresh j hj
  obtain ⟨hvB, frB, hlB⟩ := instPhase_ok plan sA (fun e he => frA.cov _ (hcov1 e he)) hfreshA hnd
  let sB := exec sA (plan.flatMap nodeSteps)
  obtain ⟨hvC, huC, hwC, hmC⟩ := deletes_ok (plan.map (·.1)) sB
  let sC := exec sB ((plan.map (·.1)).map (fun n => (Step.deleteProcessing n : Step R)))
  have hmk : sC.markers = [] := by
    apply List.eq_nil_iff_forall_not_mem.mpr
    intro x hx
    obtain ⟨h1, h2⟩ := hmC x hx
    obtain ⟨y, hy, e⟩ := frB.mks x h1
    rcases frA.mks y hy with h | h
    · have : s1.markers = [] := hpre.noMarker
      rw [this] at h; cases h
    · rw [e] at h; exact h2 h
  obtain ⟨hvD, huD, hwD⟩ := commitsP_ok (plan.map (·.1)) sC hmk
  let sD := exec sC ((plan.map (·.1)).map (fun n => (Step.commitProcessing n : Step R)))
  have hfinal : (Step.commitAlloc nodes : Step R).enabled sD = true := by
    simp only [Step.enabled, List.all_eq_true, decide_eq_true_eq]
    intro n _
    have e1 : sD.usage n = planAdd plan (s0.usage n) n := by
      rw [huD, huC, frB.usage, frA.usage n]; rfl
    have e2 : load sD n = planAdd plan (load s0 n) n := by
      rw [load_congr sC sD hwD, load_congr sB sC hwC, hlB n, load_congr s1 sA frA.wls]; rfl
    rw [e1, e2, hpre.consistent n]
  have m1 : plan.map (fun e => (Step.deleteProcessing e.1 : Step R)) = (plan.map (·.1)).map (fun n => Step.deleteProcessing n) := by
    simp [List.map_map]
  have m2 : plan.map (fun e => (Step.commitProcessing e.1 : Step R)) = (plan.map (·.1)).map (fun n => Step.commitProcessing n) := by
    simp [List.map_map]
  rw [m1, m2]
  simp only [List.append_assoc, List.singleton_append, List.cons_append, List.nil_append]
  have h0 : ∀ X : List (Step R), validTrace s0 (Step.logAlloc nodes :: X) = validTrace s1 X := by
    intro X; simp [validTrace, Step.enabled, s1]
  rw [h0, validTrace_append (plan.flatMap allocSteps), validTrace_append (plan.flatMap nodeSteps),
    validTrace_append ((plan.map (·.1)).map (fun n => (Step.deleteProcessing n : Step R))),
    validTrace_append ((plan.map (·.1)).map (fun n => (Step.commitProcessing n : Step R)))]
  simp only [Bool.and_eq_true]
  refine ⟨hvA, hvB, hvC, hvD, ?_⟩
  show ((Step.commitAlloc nodes : Step R).enabled sD && true) = true
  rw [hfinal]; rfl

end Eru.Cluster2
