import Eru.Cluster.State
/-
C14 model: a deployment (`cluster/calcium/create.go` doCreateWorkloads / doDeployWorkloads /
doDeployOneWorkload) as a sequence of *externally visible steps* over an abstract cluster
state, a crash (= the step sequence is cut, no compensation and no deferred call runs) and
recovery (`wal/hydro.go` Recover replaying the pending events in log order with the three
handlers of `cluster/calcium/wal.go`).

Only `ResAlg` (commutative-group interface of resource vectors) and its concrete instance
`Res4` are taken from the cluster group's `Eru.Cluster.State`; the state below is this
group's own.  No Mathlib.
-/
namespace Eru.Cluster2
open Eru.Cluster (ResAlg)

/-- a workload record of the store -/
structure Wl (R : Type) where
  id : Nat
  node : String
  res : R
  deriving Repr

/-- a container of an engine -/
structure Ct where
  id : Nat
  node : String
  running : Bool
  deriving DecidableEq, Repr

/-- WAL events of a deployment (calcium/wal.go): `allocate-workload` carries the filtered
nodes, `create-processing` the marker's node, `create-workload` the container id and node. -/
inductive Ev where
  | alloc (nodes : List String)
  | processing (node : String)
  | created (id : Nat) (node : String)
  deriving DecidableEq, Repr

/-- abstract cluster state: plugin usage per node, recorded workloads, containers,
in-progress markers of the deployment (node, remaining count), pending WAL events in log order -/
structure St (R : Type) where
  usage : String → R
  wls : List (Wl R) := []
  cts : List Ct := []
  markers : List (String × Nat) := []
  wal : List Ev := []

/-- plain integers as a (one-component) resource algebra, for examples and counterexamples -/
instance intAlg : ResAlg Int where
  zero := 0
  add_assoc := Int.add_assoc
  add_comm := Int.add_comm
  zero_add := Int.zero_add
  neg_add := Int.add_left_neg
  sub_def := fun _ _ => Int.sub_eq_add_neg

variable {R : Type} [ResAlg R]

def sumR : List R → R
  | [] => ResAlg.zero
  | r :: rs => r + sumR rs

/-- Σ of the resources of the workloads recorded on node `n` -/
def loadL (ws : List (Wl R)) (n : String) : R :=
  match ws with
  | [] => ResAlg.zero
  | w :: rest => if w.node = n then w.res + loadL rest n else loadL rest n

def load (s : St R) (n : String) : R := loadL s.wls n

/-! ### observations -/
def recorded (s : St R) (id : Nat) : Bool := s.wls.any (fun w => w.id == id)
def hasCt (s : St R) (id : Nat) : Bool := s.cts.any (fun c => c.id == id)
def runningCt (s : St R) (id : Nat) : Bool := s.cts.any (fun c => c.id == id && c.running)

def Ev.covers (n : String) : Ev → Bool
  | .alloc ns => ns.contains n
  | _ => false
def Ev.isCreated (id : Nat) : Ev → Bool
  | .created i _ => i == id
  | _ => false
/-- node `n` is listed by a pending `allocate-workload` event -/
def covered (evs : List Ev) (n : String) : Bool := evs.any (Ev.covers n)
def pendingCreated (evs : List Ev) (id : Nat) : Bool := evs.any (Ev.isCreated id)
def pendingProc (evs : List Ev) (n : String) : Bool := evs.contains (.processing n)

/-! ### externally visible steps of a deployment -/
inductive Step (R : Type) where
  | logAlloc (nodes : List String)             -- wal.Log(allocate-workload, nodes)
  | pluginAlloc (node : String) (rs : List R)  -- rmgr.Alloc: usage += Σ rs
  | logProcessing (node : String)              -- wal.Log(create-processing)
  | createProcessing (node : String) (count : Nat)
  | engineCreate (id : Nat) (node : String)
  | logCreated (id : Nat) (node : String)      -- wal.Log(create-workload)
  | addWorkload (id : Nat) (node : String) (res : R)  -- store.AddWorkload + marker decrement
  | engineStart (id : Nat)
  | commitCreated (id : Nat) (node : String)
  | deleteProcessing (node : String)
  | commitProcessing (node : String)
  | commitAlloc (nodes : List String)
  | read (kind : String)                       -- any call without effect (GetNode, Inspect, …)
  deriving Repr

def Step.apply (s : St R) : Step R → St R
  | .logAlloc ns => { s with wal := s.wal ++ [.alloc ns] }
  | .pluginAlloc n rs => { s with usage := fun m => if m = n then s.usage m + sumR rs else s.usage m }
  | .logProcessing n => { s with wal := s.wal ++ [.processing n] }
  | .createProcessing n k => { s with markers := (n, k) :: s.markers }
  | .engineCreate id n => { s with cts := ⟨id, n, false⟩ :: s.cts }
  | .logCreated id n => { s with wal := s.wal ++ [.created id n] }
  | .addWorkload id n r =>
    { s with wls := ⟨id, n, r⟩ :: s.wls,
             markers := s.markers.map (fun m => if m.1 = n then (m.1, m.2 - 1) else m) }
  | .engineStart id => { s with cts := s.cts.map (fun c => if c.id = id then { c with running := true } else c) }
  | .commitCreated id n => { s with wal := s.wal.erase (.created id n) }
  | .deleteProcessing n => { s with markers := s.markers.filter (fun m => m.1 != n) }
  | .commitProcessing n => { s with wal := s.wal.erase (.processing n) }
  | .commitAlloc ns => { s with wal := s.wal.erase (.alloc ns) }
  | .read _ => s

/-- **The WAL protocol** ("an effect is written only under a pending event that repairs it;
an event is committed only when the effect it covers is final"): the guard of each step. -/
def Step.enabled [DecidableEq R] (s : St R) : Step R → Bool
  | .pluginAlloc n _ => covered s.wal n
  | .createProcessing n _ => pendingProc s.wal n
  | .addWorkload id n _ => pendingCreated s.wal id && covered s.wal n && !recorded s id
  -- the deferred commit of doDeployOneWorkload runs after its transaction: the instance is then
  -- fully created (recorded and started) or, after a rollback, neither recorded nor in the engine
  | .commitCreated id _ => (recorded s id && runningCt s id) || (!recorded s id && !hasCt s id)
  | .commitProcessing n => s.markers.all (fun m => m.1 != n)
  | .commitAlloc ns => ns.all (fun n => decide (s.usage n = load s n))
  | _ => true

def exec (s : St R) (tr : List (Step R)) : St R := tr.foldl Step.apply s

/-- every step of the trace is enabled in the state it is taken from -/
def validTrace [DecidableEq R] (s : St R) : List (Step R) → Bool
  | [] => true
  | st :: rest => st.enabled s && validTrace (st.apply s) rest

/-- index of the first step that is not enabled (for the oracle's diagnostics) -/
def firstInvalid [DecidableEq R] (s : St R) : List (Step R) → Nat → Option Nat
  | [], _ => none
  | st :: rest, i => if st.enabled s then firstInvalid (st.apply s) rest (i + 1) else some i

/-! ### recovery -/
/-- `WorkloadResourceAllocatedHandler`: NodeResource(fix) on every listed node: usage := Σ recorded -/
def fixNodes (ns : List String) (s : St R) : St R :=
  { s with usage := fun m => if ns.contains m then load s m else s.usage m }

/-- `CreateWorkloadHandler`: recorded → RemoveWorkloadSync (usage, record, container);
otherwise remove the container, tolerating "not exists" -/
def handleCreated (id : Nat) (s : St R) : St R :=
  match s.wls.find? (fun w => w.id == id) with
  | some w =>
    { s with usage := fun m => if m = w.node then s.usage m - w.res else s.usage m,
             wls := s.wls.filter (fun x => x.id != id),
             cts := s.cts.filter (fun c => c.id != id) }
  | none => { s with cts := s.cts.filter (fun c => c.id != id) }

def handle (s : St R) : Ev → St R
  | .alloc ns => fixNodes ns s
  | .processing n => { s with markers := s.markers.filter (fun m => m.1 != n) }
  | .created id _ => handleCreated id s

def recoverL (s : St R) : List Ev → St R
  | [] => s
  | e :: es => recoverL (handle s e) es

/-- `Hydro.Recover`: handle every pending event in log order, then delete it -/
def recover (s : St R) : St R := { recoverL s s.wal with wal := [] }

/-- crash after the first `i` steps of `tr` started in `s` -/
def crashAfter (i : Nat) (s : St R) (tr : List (Step R)) : St R := exec s (tr.take i)

/-! ### the deployment program (fixed code: markers deleted before their events are committed) -/
/-- a plan entry: node, instances (container id, resources) -/
abbrev Plan (R : Type) := List (String × List (Nat × R))

def instSteps (n : String) (i : Nat × R) : List (Step R) :=
  [.engineCreate i.1 n, .logCreated i.1 n, .addWorkload i.1 n i.2, .engineStart i.1,
   .read "engineInspect", .commitCreated i.1 n]

def allocSteps (e : String × List (Nat × R)) : List (Step R) :=
  [.pluginAlloc e.1 (e.2.map (·.2)), .logProcessing e.1, .createProcessing e.1 e.2.length]

def nodeSteps (e : String × List (Nat × R)) : List (Step R) :=
  .read "storeGetNode" :: e.2.flatMap (instSteps e.1)

/-- the canonical (node by node, instance by instance) step sequence of a fault-free deployment -/
def createSteps (nodes : List String) (plan : Plan R) : List (Step R) :=
  [.logAlloc nodes] ++ plan.flatMap allocSteps ++ plan.flatMap nodeSteps ++
  plan.map (fun e => .deleteProcessing e.1) ++ plan.map (fun e => .commitProcessing e.1) ++
  [.commitAlloc nodes]

/-- the code before the fix of D14: deferred calls committed the `create-processing` events and
`allocate-workload` BEFORE deleting the markers -/
def createStepsOld (nodes : List String) (plan : Plan R) : List (Step R) :=
  [.logAlloc nodes] ++ plan.flatMap allocSteps ++ plan.flatMap nodeSteps ++
  plan.map (fun e => .commitProcessing e.1) ++ [.commitAlloc nodes] ++
  plan.map (fun e => .deleteProcessing e.1)

end Eru.Cluster2
