import Eru.Cluster2.ProofsRecovery
/-
C14: every enabled step of the WAL protocol preserves the invariant; hence every prefix of a
valid trace ends in a state from which recovery is `Good`.
-/
set_option linter.unusedSectionVars false
set_option linter.unusedSimpArgs false
namespace Eru.Cluster2
open Eru.Cluster (ResAlg)
variable {R : Type} [ResAlg R] {ex : Nat → Prop}

theorem pendingProc_iff (evs : List Ev) (n : String) : pendingProc evs n = true ↔ Ev.processing n ∈ evs := by
  simp [pendingProc]

theorem pendingProc_erase {evs : List Ev} {n : String} {e : Ev} (h : pendingProc evs n = true)
    (hne : Ev.processing n ≠ e) : pendingProc (evs.erase e) n = true := by
  rw [pendingProc_iff] at h ⊢
  exact (List.mem_erase_of_ne hne).mpr h

theorem covered_iff (evs : List Ev) (n : String) : covered evs n = true ↔ ∃ e ∈ evs, e.covers n = true := by
  simp [covered]

/-- the invariant only looks at usage, records, containers and markers, and is monotone in the events -/
theorem InvG.mono {s : St R} {evs evs' : List Ev} (h : InvG ex s evs)
    (hc : ∀ n, covered evs n = true → covered evs' n = true)
    (hp : ∀ n, pendingProc evs n = true → pendingProc evs' n = true)
    (hk : ∀ i, pendingCreated evs i = true → pendingCreated evs' i = true) : InvG ex s evs' :=
  ⟨fun n => (h.usage n).imp id (hc n), fun m hm => hp _ (h.marker m hm),
   fun i hne h1 h2 => hk _ (h.inst i hne h1 h2), h.nodup⟩

theorem InvG.append {s : St R} {evs : List Ev} (h : InvG ex s evs) (e : Ev) : InvG ex s (evs ++ [e]) :=
  h.mono (fun n hn => by simp [covered_append, hn]) (fun n hn => by simp [pendingProc_append, hn])
    (fun i hi => by simp [pendingCreated_append, hi])

theorem InvG.setWal {s : St R} {evs : List Ev} (h : InvG ex s evs) (w : List Ev) : InvG ex { s with wal := w } evs :=
  ⟨h.usage, h.marker, h.inst, h.nodup⟩

theorem runningCt_start_mono (cts : List Ct) (id j : Nat)
    (h : cts.any (fun c => c.id == j && c.running) = true) :
    (cts.map (fun c => if c.id = id then { c with running := true } else c)).any (fun c => c.id == j && c.running) = true := by
  rw [List.any_eq_true] at h ⊢
  obtain ⟨c, hc, hp⟩ := h
  refine ⟨_, List.mem_map_of_mem hc, ?_⟩
  by_cases hid : c.id = id
  · simp_all
  · simp only [hid, if_false]; exact hp

theorem step_inv [DecidableEq R] (s : St R) (st : Step R) (h : Inv ex s) (hen : st.enabled s = true) :
    Inv ex (st.apply s) := by
  unfold Inv at h ⊢
  cases st with
  | logAlloc ns => exact (h.append _).setWal _
  | logProcessing n => exact (h.append _).setWal _
  | logCreated id n => exact (h.append _).setWal _
  | read k => exact h
  | pluginAlloc n rs =>
    simp only [Step.enabled] at hen
    refine ⟨?_, h.marker, h.inst, h.nodup⟩
    intro m
    by_cases hm : m = n
    · right; rw [hm]; exact hen
    · rcases h.usage m with hh | hh
      · left; show (if m = n then _ else s.usage m) = _; simp only [hm, if_false]; exact hh
      · right; exact hh
  | createProcessing n k =>
    simp only [Step.enabled] at hen
    refine ⟨h.usage, ?_, h.inst, h.nodup⟩
    intro m hm
    rcases List.mem_cons.mp hm with hh | hh
    · rw [hh]; exact hen
    · exact h.marker m hh
  | engineCreate id nd =>
    refine ⟨h.usage, h.marker, ?_, h.nodup⟩
    intro j hne h1 h2
    apply h.inst j hne h1
    have : runningCt (Step.apply s (Step.engineCreate id nd)) j = runningCt s j := by
      simp [runningCt, Step.apply]
    rw [← this]; exact h2
  | addWorkload id n r =>
    simp only [Step.enabled, Bool.and_eq_true, Bool.not_eq_true'] at hen
    obtain ⟨⟨hpc, hcov⟩, hnr⟩ := hen
    refine ⟨?_, ?_, ?_, ?_⟩
    · intro m
      by_cases hm : n = m
      · right; rw [← hm]; exact hcov
      · rcases h.usage m with hh | hh
        · left; show s.usage m = loadL (⟨id, n, r⟩ :: s.wls) m
          rw [loadL_cons]; simp only [hm, if_false]; exact hh
        · right; exact hh
    · intro m hm
      simp only [Step.apply, List.mem_map] at hm
      obtain ⟨m0, hm0, rfl⟩ := hm
      have := h.marker m0 hm0
      have e : (if m0.1 = n then (m0.1, m0.2 - 1) else m0).1 = m0.1 := by split <;> rfl
      show pendingProc s.wal (if m0.1 = n then (m0.1, m0.2 - 1) else m0).1 = true
      rw [e]; exact this
    · intro j hne h1 h2
      by_cases hj : id = j
      · rw [← hj]; exact hpc
      · apply h.inst j hne
        · simpa [recorded, Step.apply, hj] using h1
        · exact h2
    · show ((⟨id, n, r⟩ :: s.wls).map (·.id)).Nodup
      simp only [List.map_cons, List.nodup_cons]
      refine ⟨?_, h.nodup⟩
      intro hmem
      simp only [List.mem_map] at hmem
      obtain ⟨w, hw, hwid⟩ := hmem
      have : recorded s id = true := (recorded_iff s id).mpr ⟨w, hw, hwid⟩
      rw [hnr] at this; cases this
  | engineStart id =>
    refine ⟨h.usage, h.marker, ?_, h.nodup⟩
    intro j hne h1 h2
    apply h.inst j hne h1
    cases hr : runningCt s j with
    | false => rfl
    | true =>
      have := runningCt_start_mono s.cts id j hr
      have h2' : (s.cts.map (fun c => if c.id = id then { c with running := true } else c)).any (fun c => c.id == j && c.running) = false := h2
      rw [this] at h2'; cases h2'
  | deleteProcessing n =>
    refine ⟨h.usage, ?_, h.inst, h.nodup⟩
    intro m hm
    simp only [Step.apply, List.mem_filter] at hm
    exact h.marker m hm.1
  | commitCreated id n =>
    simp only [Step.enabled, Bool.or_eq_true, Bool.and_eq_true, Bool.not_eq_true'] at hen
    refine ⟨?_, ?_, ?_, h.nodup⟩
    · intro m; exact (h.usage m).imp (fun x => x) (fun hh => any_erase_of hh rfl)
    · intro m hm; exact pendingProc_erase (h.marker m hm) (by simp)
    · intro j hne h1 h2
      have h1' : recorded s j = true := h1
      have h2' : runningCt s j = false := h2
      have hj : id ≠ j := by
        intro hj; subst hj
        rcases hen with hh | hh
        · rw [hh.2] at h2'; cases h2'
        · rw [hh.1] at h1'; cases h1'
      exact any_erase_of (h.inst j hne h1' h2') (by simp [Ev.isCreated, hj])
  | commitProcessing n =>
    simp only [Step.enabled, List.all_eq_true, bne_iff_ne, ne_eq] at hen
    refine ⟨?_, ?_, ?_, h.nodup⟩
    · intro m; exact (h.usage m).imp (fun x => x) (fun hh => any_erase_of hh rfl)
    · intro m hm
      exact pendingProc_erase (h.marker m hm) (by simp; exact hen m hm)
    · intro j hne h1 h2; exact any_erase_of (h.inst j hne h1 h2) rfl
  | commitAlloc ns =>
    simp only [Step.enabled, List.all_eq_true, decide_eq_true_eq] at hen
    refine ⟨?_, ?_, ?_, h.nodup⟩
    · intro m
      rcases h.usage m with hh | hh
      · left; exact hh
      · by_cases hm : m ∈ ns
        · left; exact hen m hm
        · right; exact any_erase_of hh (by simp [Ev.covers, hm])
    · intro m hm; exact pendingProc_erase (h.marker m hm) (by simp)
    · intro j hne h1 h2; exact any_erase_of (h.inst j hne h1 h2) rfl

theorem pre_inv (s : St R) (h : Pre ex s) : Inv ex s := by
  unfold Inv
  refine ⟨fun n => Or.inl (h.consistent n), ?_, ?_, h.nodup⟩
  · intro m hm; rw [h.noMarker] at hm; cases hm
  · intro id hne h1 h2; have := h.settled id hne h1; rw [this] at h2; cases h2

theorem exec_inv [DecidableEq R] (tr : List (Step R)) : ∀ (s : St R), Inv ex s → validTrace s tr = true → Inv ex (exec s tr) := by
  induction tr with
  | nil => intro s h _; exact h
  | cons st rest ih =>
    intro s h hv
    simp only [validTrace, Bool.and_eq_true] at hv
    exact ih _ (step_inv s st h hv.1) hv.2

theorem validTrace_take [DecidableEq R] (tr : List (Step R)) : ∀ (s : St R) (i : Nat),
    validTrace s tr = true → validTrace s (tr.take i) = true := by
  induction tr with
  | nil => intro s i h; simp [validTrace]
  | cons st rest ih =>
    intro s i h
    cases i with
    | zero => simp [validTrace]
    | succ k =>
      simp only [validTrace, Bool.and_eq_true, List.take_succ_cons] at h ⊢
      exact ⟨h.1, ih _ k h.2⟩

end Eru.Cluster2
