import Eru.Misc.ProofsSender
/- Data invariant of the SendLargeFile pipeline: what every target has received and reported. -/
namespace Eru.Misc.Sender

def pend : SSt → List Byte
  | .write p _ => p
  | _ => []

/-- relation between the engine's remaining read budget and what it has read so far -/
def LeftOK (b : Beh) (got : List Byte) (left : Option Nat) : Prop :=
  match b.limit with
  | none => left = none
  | some L => got.length ≤ L ∧ left = some (L - got.length)

/-- `C` = the whole file, `rem` = the bytes of the chunks the producer has not pushed to this target yet -/
def DInv (b : Beh) (C rem : List Byte) (t : Target) : Prop :=
  (t.rClosed = true → t.cop = .done) ∧
  (t.snd = .drain → t.rClosed = true) ∧
  (t.wClosed = true → t.snd = .exit ∨ t.snd = .drain) ∧
  (match t.cop with
   | .none => t.got = [] ∧ t.results = [] ∧ t.got ++ pend t.snd ++ (t.buf.map (·.chunk)).flatten ++ rem = C
   | .lock => t.got = [] ∧ t.results = [] ∧ t.got ++ pend t.snd ++ (t.buf.map (·.chunk)).flatten ++ rem = C
   | .read left => b.missing = false ∧ t.results = [] ∧ t.got ++ pend t.snd ++ (t.buf.map (·.chunk)).flatten ++ rem = C ∧ LeftOK b t.got left
   | .report e => t.results = [] ∧ e = expectedErr b ∧ t.got = expectedGot b C
   | .close => t.results = [expectedErr b] ∧ t.got = expectedGot b C
   | .done => t.results = [expectedErr b] ∧ t.got = expectedGot b C)

theorem DInv.init (b : Beh) (C : List Byte) : DInv b C C {} := by
  simp [DInv, pend]

theorem DInv.push {b : Beh} {C rem : List Byte} {t t' : Target} {ch : Msg}
    (h : DInv b C (ch.chunk ++ rem) t) (hp : t.push ch = some t') : DInv b C rem t' := by
  unfold Target.push at hp
  split at hp
  · injection hp with hp; subst hp
    unfold DInv at *
    obtain ⟨h1, h2, h3, h4⟩ := h
    refine ⟨h1, h2, h3, ?_⟩
    cases hc : t.cop <;> simp only [hc] at h4 ⊢ <;> simp_all [List.append_assoc]
    all_goals (obtain ⟨hg, _, he⟩ := h4; rw [hg] at he; simpa using he)
  · cases hp

theorem DInv.closeBuf {b : Beh} {C rem : List Byte} {t : Target} (h : DInv b C rem t) : DInv b C rem t.closeBuf := h

/-- the sender step when every buffered message belongs to the file the sender serves (no
"different file" break) -/
def Target.sndStepSame (t : Target) : Option Target :=
  match t.snd with
  | .recv =>
    match t.buf with
    | m :: rest =>
      some { t with buf := rest, snd := .write m.chunk true, cop := if t.cop = .none then .lock else t.cop,
                    args := if t.cop = .none then some m.md else t.args }
    | [] => if t.bufClosed then some { t with snd := .exit, wClosed := true } else none
  | .write pending once =>
    if t.rClosed then some { t with snd := .drain, wClosed := true }
    else if !once && pending.isEmpty then some { t with snd := .recv }
    else none
  | .drain =>
    match t.buf with
    | _ :: rest => some { t with buf := rest }
    | [] => if t.bufClosed then some { t with snd := .exit } else none
  | .exit => none

/-- all buffered messages carry the destination the sender was started with -/
def SameFile (t : Target) : Prop := ∀ m ∈ t.buf, t.cop ≠ .none → t.args.map (·.dst) = some m.md.dst

theorem sndStep_eq_same {t : Target} (h : SameFile t) : t.sndStep = t.sndStepSame := by
  unfold Target.sndStep Target.sndStepSame
  cases hs : t.snd with
  | exit => rfl
  | write p o => rfl
  | drain => cases t.buf <;> rfl
  | recv =>
    cases hb : t.buf with
    | nil => rfl
    | cons m rest =>
      have := h m (by rw [hb]; simp)
      by_cases hc : t.cop = .none
      · simp [hc]
      · simp [hc, this hc]

theorem DInv.sndStep {b : Beh} {C rem : List Byte} {t t' : Target} {c : Bool}
    (hT : TInv t c) (h : DInv b C rem t) (hsame : SameFile t) (hs : t.sndStep = some t') : DInv b C rem t' := by
  rw [sndStep_eq_same hsame] at hs
  unfold Target.sndStepSame at hs
  unfold DInv TInv at *
  obtain ⟨h1, h2, h3, h4⟩ := h
  repeat' split at hs
  all_goals (try (cases hs; done))
  all_goals (injection hs with hs; subst hs; simp only)
  all_goals (cases hc : t.cop <;> simp_all [pend, SSt.isWrite, List.append_assoc])
  all_goals (obtain ⟨hg, _, he⟩ := h4; rw [hg] at he; simpa using he)

theorem take_prefix_eq {α : Type} (g r : List α) : (g ++ r).take g.length = g := by simp

theorem DInv.copStep {b : Beh} {C rem : List Byte} {t t' : Target} {c : Bool}
    (hT : TInv t c) (h : DInv b C rem t) (hrem : t.bufClosed = true → rem = [])
    (hs : t.copStep b = some t') : DInv b C rem t' := by
  unfold Target.copStep at hs
  unfold DInv at *
  obtain ⟨h1, h2, h3, h4⟩ := h
  obtain ⟨t1, t2, t3, t4, t5, t6, t7⟩ := hT
  cases hc : t.cop with
  | none => simp [hc] at hs
  | done => simp [hc] at hs
  | lock =>
    simp only [hc] at hs h4
    have hr : t.rClosed = false := by
      cases hrc : t.rClosed with
      | false => rfl
      | true => have := h1 hrc; rw [hc] at this; cases this
    split at hs <;> (injection hs with hs; subst hs)
    · next hm =>
      refine ⟨by simp [hr], h2, h3, ?_⟩
      simp [h4.1, h4.2.1, expectedErr, expectedGot, hm]
    · next hm =>
      have hm' : b.missing = false := by simpa using hm
      refine ⟨by simp [hr], h2, h3, ?_⟩
      refine ⟨hm', h4.2.1, h4.2.2, ?_⟩
      unfold LeftOK
      cases b.limit <;> simp [h4.1]
  | report e =>
    simp only [hc] at hs h4
    have hr : t.rClosed = false := by
      cases hrc : t.rClosed with
      | false => rfl
      | true => have := h1 hrc; rw [hc] at this; cases this
    injection hs with hs; subst hs
    refine ⟨by simp [hr], h2, h3, ?_⟩
    simp [h4.1, h4.2.1, h4.2.2]
  | close =>
    simp only [hc] at hs h4
    injection hs with hs; subst hs
    exact ⟨fun _ => rfl, fun hd => by simp, h3, h4⟩
  | read left =>
    simp only [hc] at hs h4
    obtain ⟨hm, hres, heq, hleft⟩ := h4
    have hr : t.rClosed = false := by
      cases hrc : t.rClosed with
      | false => rfl
      | true => have := h1 hrc; rw [hc] at this; cases this
    have hnd : t.snd ≠ .drain := fun e => by have := h2 e; rw [hr] at this; cases this
    -- end of file: the sender has left normally, everything has been handed over
    have eof : t.wClosed = true → t.got = expectedGot b C := by
      intro hw
      have hexit : t.snd = .exit := (h3 hw).resolve_right hnd
      obtain ⟨hb, hbc, _⟩ := t2 hexit
      have hr0 := hrem hbc
      rw [hexit, hb, hr0] at heq
      simp [pend] at heq
      unfold expectedGot
      simp only [hm, Bool.false_eq_true, if_false]
      unfold LeftOK at hleft
      cases hl : b.limit with
      | none => exact heq
      | some L =>
        rw [hl] at hleft
        rw [← heq]
        simp only
        exact (List.take_of_length_le hleft.1).symm
    have herr : b.fail = expectedErr b := by simp [expectedErr, hm]
    split at hs
    · next h0 =>
      injection hs with hs; subst hs
      refine ⟨by simp [hr], h2, h3, hres, herr, ?_⟩
      unfold LeftOK at hleft
      cases hl : b.limit with
      | none => rw [hl] at hleft; rw [hleft] at h0; cases h0
      | some L =>
        rw [hl] at hleft
        obtain ⟨hle, hL⟩ := hleft
        rw [h0] at hL
        have hlen : t.got.length = L := by injection hL with hL; omega
        unfold expectedGot
        simp only [hm, Bool.false_eq_true, if_false, hl]
        rw [← heq, ← hlen, List.append_assoc, List.append_assoc, take_prefix_eq]
    · next h0 =>
      split at hs
      · next p o hsnd =>
        split at hs
        · next hor =>
          injection hs with hs; subst hs
          refine ⟨by simp [hr], by simp, fun hw => by have := h3 hw; simp [hsnd] at this, hm, hres, ?_, ?_⟩
          · simp only [pend]
            rw [hsnd] at heq
            simp only [pend] at heq
            rw [← heq]
            simp [List.append_assoc]
          · unfold LeftOK at hleft ⊢
            cases hl : b.limit with
            | none => rw [hl] at hleft; simp [hleft, subOpt]
            | some L =>
              rw [hl] at hleft
              obtain ⟨hle, hL⟩ := hleft
              subst hL
              simp only [minOpt, subOpt, List.length_append, List.length_take]
              refine ⟨by omega, ?_⟩
              congr 1
              omega
        · next hor =>
          split at hs
          · next hw => have := h3 hw; simp [hsnd] at this
          · cases hs
      · next hsnd =>
        split at hs
        · next hw =>
          injection hs with hs; subst hs
          exact ⟨by simp [hr], h2, h3, hres, herr, eof hw⟩
        · cases hs

/-! ### the whole call -/

/-- bytes of the chunks still to be pushed to target `i` -/
def remOf (i : Nat) : List (Nat × Msg) → List Byte
  | [] => []
  | (j, ch) :: r => if j = i then ch.chunk ++ remOf i r else remOf i r

theorem remOf_append (i : Nat) (a b : List (Nat × Msg)) : remOf i (a ++ b) = remOf i a ++ remOf i b := by
  induction a with
  | nil => rfl
  | cons p r ih =>
    obtain ⟨j, ch⟩ := p
    by_cases h : j = i <;> simp [remOf, h, ih]

theorem remOf_filter_ne (i x : Nat) (ch : Msg) (hx : x ≠ i) (l : List Nat) :
    remOf i ((l.filter (· ≠ x)).map fun j => (j, ch)) = remOf i (l.map fun j => (j, ch)) := by
  induction l with
  | nil => rfl
  | cons y r ih =>
    by_cases hy : y = x
    · subst hy
      simp only [List.filter_cons, ne_eq, not_true_eq_false, decide_false, Bool.false_eq_true, if_false,
        List.map_cons, remOf, hx, ih]
    · have : decide (y ≠ x) = true := by simpa using hy
      simp only [List.filter_cons, this, if_true, List.map_cons, remOf, ih]

theorem remOf_absent (i : Nat) (ch : Msg) (l : List Nat) (h : i ∉ l) :
    remOf i (l.map fun j => (j, ch)) = [] := by
  induction l with
  | nil => rfl
  | cons y r ih =>
    have hy : ¬ y = i := fun e => h (by simp [e])
    simp only [List.map_cons, remOf, hy, if_false]
    exact ih (fun hm => h (by simp [hm]))

/-- every listed target gets each message exactly once, however often it is listed -/
theorem remOf_row (i : Nat) (ids : List Nat) (ch : Msg) (hi : i ∈ ids) :
    remOf i ((dedup ids).map fun j => (j, ch)) = ch.chunk := by
  induction ids with
  | nil => cases hi
  | cons x r ih =>
    simp only [dedup, List.map_cons, remOf]
    by_cases hx : x = i
    · subst hx
      simp only [if_true]
      have : remOf x (((dedup r).filter (· ≠ x)).map fun j => (j, ch)) = [] := by
        apply remOf_absent
        intro hm
        have := (List.mem_filter.mp hm).2
        simp at this
      rw [this]; simp
    · simp only [hx, if_false]
      rw [remOf_filter_ne i x ch hx]
      exact ih (by simp at hi; rcases hi with h | h; exact absurd h.symm hx; exact h)

theorem remOf_init (i n : Nat) (ids : List Nat) (msgs : List Msg) (hi : i ∈ ids) :
    remOf i (initState n ids msgs).todo = (msgs.map (·.chunk)).flatten := by
  unfold initState
  simp only
  induction msgs with
  | nil => rfl
  | cons ch r ih =>
    rw [List.flatMap_cons, remOf_append, remOf_row i ids ch hi, ih]
    simp

/-- global data invariant: `C` = the whole file, `M` = the metadata every message carries, `ids` = the listed targets -/
def DG (behs : List Beh) (ids : List Nat) (C : List Byte) (M : CopyArgs) (s : State) : Prop :=
  (∀ i t b, i ∈ ids → s.ts[i]? = some t → behs[i]? = some b → DInv b C (remOf i s.todo) t) ∧
  (∀ i t, i ∈ ids → s.ts[i]? = some t → t.created = true ∨ ∃ ch, (i, ch) ∈ s.todo) ∧
  (∀ p ∈ s.todo, p.2.md = M) ∧
  (∀ t ∈ s.ts, (∀ m ∈ t.buf, m.md = M) ∧ (t.cop ≠ .none → t.args = some M))

theorem DG.init (behs : List Beh) (ids : List Nat) (msgs : List Msg) (M : CopyArgs) (hne : msgs ≠ [])
    (hM : ∀ m ∈ msgs, m.md = M) :
    DG behs ids (msgs.map (·.chunk)).flatten M (initState behs.length ids msgs) := by
  refine ⟨?_, ?_, ?_, ?_⟩
  · intro i t b hi hti hbi
    rw [remOf_init i _ ids msgs hi]
    have : t = {} := by
      simp only [initState] at hti
      have := List.getElem?_eq_some_iff.mp hti
      obtain ⟨_, h2⟩ := this
      simpa using h2.symm
    subst this
    exact DInv.init b _
  · intro i t hi hti
    right
    cases msgs with
    | nil => exact absurd rfl hne
    | cons ch r =>
      refine ⟨ch, ?_⟩
      simp only [initState, List.flatMap_cons, List.mem_append, List.mem_map]
      exact Or.inl ⟨i, mem_dedup.mpr hi, rfl⟩
  · intro p hp
    simp only [initState, List.mem_flatMap, List.mem_map] at hp
    obtain ⟨m, hm, _, _, rfl⟩ := hp
    exact hM m hm
  · intro t ht
    simp [initState] at ht
    rw [ht.2]; simp

/-- a sender step keeps the metadata facts: buffer messages carry `M`; once started, args = `M` -/
theorem sameFile_of_args {M : CopyArgs} {t : Target} (hb : ∀ m ∈ t.buf, m.md = M) (ha : t.cop ≠ .none → t.args = some M) :
    SameFile t := by
  intro m hm hc
  rw [ha hc, hb m hm]; rfl

theorem args_sndStep {M : CopyArgs} {t t' : Target} (hb : ∀ m ∈ t.buf, m.md = M) (ha : t.cop ≠ .none → t.args = some M)
    (hs : t.sndStep = some t') : (∀ m ∈ t'.buf, m.md = M) ∧ (t'.cop ≠ .none → t'.args = some M) := by
  rw [sndStep_eq_same (sameFile_of_args hb ha)] at hs
  unfold Target.sndStepSame at hs
  cases hsnd : t.snd with
  | exit => simp [hsnd] at hs
  | write p o =>
    simp only [hsnd] at hs
    repeat' split at hs
    all_goals (try (cases hs; done))
    all_goals (injection hs with hs; subst hs; exact ⟨hb, ha⟩)
  | recv =>
    simp only [hsnd] at hs
    cases hbuf : t.buf with
    | nil =>
      simp only [hbuf] at hs
      split at hs
      · injection hs with hs; subst hs; exact ⟨by simpa [hbuf] using hb, ha⟩
      · cases hs
    | cons m rest =>
      simp only [hbuf] at hs
      injection hs with hs; subst hs
      refine ⟨fun x hx => hb x (by rw [hbuf]; simp [hx]), ?_⟩
      intro _
      by_cases hc : t.cop = .none
      · simp [hc, hb m (by rw [hbuf]; simp)]
      · simp [hc, ha hc]
  | drain =>
    simp only [hsnd] at hs
    cases hbuf : t.buf with
    | nil =>
      simp only [hbuf] at hs
      split at hs
      · injection hs with hs; subst hs; exact ⟨by simpa [hbuf] using hb, ha⟩
      · cases hs
    | cons m rest =>
      simp only [hbuf] at hs
      injection hs with hs; subst hs
      exact ⟨fun x hx => hb x (by rw [hbuf]; simp [hx]), ha⟩

theorem args_copStep {M : CopyArgs} {b : Beh} {t t' : Target} (hb : ∀ m ∈ t.buf, m.md = M) (ha : t.cop ≠ .none → t.args = some M)
    (hs : t.copStep b = some t') : (∀ m ∈ t'.buf, m.md = M) ∧ (t'.cop ≠ .none → t'.args = some M) := by
  have hne : t.cop ≠ .none := by
    intro e; unfold Target.copStep at hs; simp [e] at hs
  have hA := ha hne
  unfold Target.copStep at hs
  repeat' split at hs
  all_goals (try (cases hs; done))
  all_goals (injection hs with hs; subst hs; exact ⟨hb, fun _ => hA⟩)

theorem DG.step (behs : List Beh) (ids : List Nat) (C : List Byte) (M : CopyArgs) (s s' : State) (a : Action)
    (hI : GInv behs s) (hD : DG behs ids C M s) (h : step behs s a = some s') : DG behs ids C M s' := by
  obtain ⟨hl, hT, htodo, hc⟩ := hI
  obtain ⟨hd, hcr, hmd, hargs⟩ := hD
  have hremc : ∀ i t, s.ts[i]? = some t → t.bufClosed = true → remOf i s.todo = [] := by
    intro i t hti hbc
    have hinv := hT t (List.mem_of_getElem? hti)
    have : s.closed = true := by rw [← hinv.1]; exact hbc
    rw [hc this]; rfl
  cases a with
  | prod =>
    simp only [Eru.Misc.Sender.step] at h
    split at h
    next j ch rest hrest =>
      split at h
      next tj htj =>
        cases hp : tj.push ch with
        | none => simp [hp] at h
        | some tj' =>
          simp [hp] at h; subst h
          have hj : j < s.ts.length := (List.getElem?_eq_some_iff.mp htj).1
          have hchM : ch.md = M := hmd (j, ch) (by rw [hrest]; simp)
          have htj' : tj' = { tj with buf := tj.buf ++ [ch], created := true } := by
            unfold Target.push at hp
            split at hp
            · injection hp with hp; exact hp.symm
            · cases hp
          refine ⟨?_, ?_, ?_, ?_⟩
          · intro i t b hi hti hbi
            simp only [List.getElem?_set] at hti
            by_cases hij : j = i
            · subst hij
              simp only [hj, if_true] at hti
              injection hti with hti; subst hti
              have := hd j tj b hi htj hbi
              rw [hrest] at this
              simp only [remOf, if_true] at this
              exact DInv.push this hp
            · simp only [hij, if_false] at hti
              have := hd i t b hi hti hbi
              rw [hrest] at this
              simpa [remOf, hij] using this
          · intro i t hi hti
            simp only [List.getElem?_set] at hti
            by_cases hij : j = i
            · subst hij
              simp only [hj, if_true] at hti
              injection hti with hti; subst hti
              left; rw [htj']
            · simp only [hij, if_false] at hti
              rcases hcr i t hi hti with hc' | ⟨ch', hm⟩
              · exact Or.inl hc'
              · right
                rw [hrest] at hm
                simp only [List.mem_cons, Prod.mk.injEq] at hm
                rcases hm with ⟨e, _⟩ | hm
                · exact absurd e.symm hij
                · exact ⟨ch', hm⟩
          · intro p hp'
            exact hmd p (by rw [hrest]; simp [hp'])
          · intro t ht
            rcases mem_set_cases ht with rfl | ht
            · obtain ⟨h1, h2⟩ := hargs tj (List.mem_of_getElem? htj)
              rw [htj']
              refine ⟨?_, h2⟩
              intro m hm
              simp only [List.mem_append, List.mem_singleton] at hm
              rcases hm with hm | rfl
              · exact h1 m hm
              · exact hchM
            · exact hargs t ht
      next => cases h
    next hrest =>
      split at h
      · cases h
      next hcl =>
        injection h with h; subst h
        refine ⟨?_, ?_, ?_, ?_⟩
        · intro i t b hi hti hbi
          simp only [List.getElem?_map] at hti
          cases hx : s.ts[i]? with
          | none => simp [hx] at hti
          | some x =>
            simp [hx] at hti; subst hti
            exact DInv.closeBuf (hd i x b hi hx hbi)
        · intro i t hi hti
          simp only [List.getElem?_map] at hti
          cases hx : s.ts[i]? with
          | none => simp [hx] at hti
          | some x =>
            simp [hx] at hti; subst hti
            rcases hcr i x hi hx with hc' | ⟨ch', hm⟩
            · exact Or.inl hc'
            · rw [hrest] at hm; cases hm
        · exact hmd
        · intro t ht
          simp only [List.mem_map] at ht
          obtain ⟨x, hx, rfl⟩ := ht
          exact hargs x hx
  | snd j =>
    simp only [Eru.Misc.Sender.step] at h
    split at h
    next tj htj =>
      cases hp : tj.sndStep with
      | none => simp [hp] at h
      | some tj' =>
        simp [hp] at h; subst h
        have hj : j < s.ts.length := (List.getElem?_eq_some_iff.mp htj).1
        refine ⟨?_, ?_, hmd, ?_⟩
        · intro i t b hi hti hbi
          simp only [List.getElem?_set] at hti
          by_cases hij : j = i
          · subst hij
            simp only [hj, if_true] at hti
            injection hti with hti; subst hti
            exact DInv.sndStep (hT tj (List.mem_of_getElem? htj)) (hd j tj b hi htj hbi)
              (sameFile_of_args (hargs tj (List.mem_of_getElem? htj)).1 (hargs tj (List.mem_of_getElem? htj)).2) hp
          · simp only [hij, if_false] at hti
            exact hd i t b hi hti hbi
        · intro i t hi hti
          simp only [List.getElem?_set] at hti
          by_cases hij : j = i
          · subst hij
            simp only [hj, if_true] at hti
            injection hti with hti; subst hti
            rcases hcr j tj hi htj with hc' | hm
            · left
              unfold Target.sndStep at hp
              repeat' split at hp
              all_goals (try (cases hp; done))
              all_goals (injection hp with hp; subst hp; exact hc')
            · exact Or.inr hm
          · simp only [hij, if_false] at hti
            exact hcr i t hi hti
        · intro t ht
          rcases mem_set_cases ht with rfl | ht
          · obtain ⟨h1, h2⟩ := hargs tj (List.mem_of_getElem? htj)
            exact args_sndStep h1 h2 hp
          · exact hargs t ht
    next => cases h
  | cop j =>
    simp only [Eru.Misc.Sender.step] at h
    split at h
    next tj bj htj hbj =>
      cases hp : tj.copStep bj with
      | none => simp [hp] at h
      | some tj' =>
        simp [hp] at h; subst h
        have hj : j < s.ts.length := (List.getElem?_eq_some_iff.mp htj).1
        refine ⟨?_, ?_, hmd, ?_⟩
        · intro i t b hi hti hbi
          simp only [List.getElem?_set] at hti
          by_cases hij : j = i
          · subst hij
            simp only [hj, if_true] at hti
            injection hti with hti; subst hti
            have hbb : bj = b := by rw [hbj] at hbi; injection hbi
            subst hbb
            exact DInv.copStep (hT tj (List.mem_of_getElem? htj)) (hd j tj bj hi htj hbj) (hremc j tj htj) hp
          · simp only [hij, if_false] at hti
            exact hd i t b hi hti hbi
        · intro i t hi hti
          simp only [List.getElem?_set] at hti
          by_cases hij : j = i
          · subst hij
            simp only [hj, if_true] at hti
            injection hti with hti; subst hti
            rcases hcr j tj hi htj with hc' | hm
            · left
              unfold Target.copStep at hp
              repeat' split at hp
              all_goals (try (cases hp; done))
              all_goals (injection hp with hp; subst hp; exact hc')
            · exact Or.inr hm
          · simp only [hij, if_false] at hti
            exact hcr i t hi hti
        · intro t ht
          rcases mem_set_cases ht with rfl | ht
          · obtain ⟨h1, h2⟩ := hargs tj (List.mem_of_getElem? htj)
            exact args_copStep h1 h2 hp
          · exact hargs t ht
    next => cases h

theorem Reach.data {behs : List Beh} {ids : List Nat} {C : List Byte} {M : CopyArgs} {s s' : State} (h : Reach behs s s')
    (hI : GInv behs s) (hD : DG behs ids C M s) : DG behs ids C M s' := by
  induction h with
  | refl => exact hD
  | step a hr hs ih => exact DG.step behs ids C M _ _ a (hr.inv hI) ih hs

/-- runs counted by their length -/
inductive RunN (behs : List Beh) : Nat → State → State → Prop where
  | refl (s : State) : RunN behs 0 s s
  | step {n : Nat} {s s' s'' : State} (a : Action) : RunN behs n s s' → step behs s' a = some s'' → RunN behs (n + 1) s s''

theorem RunN.bounded {behs : List Beh} {n : Nat} {s s' : State} (h : RunN behs n s s') : n + s'.mu ≤ s.mu := by
  induction h with
  | refl => omega
  | step a _ hs ih => have := step_decreases behs _ _ a hs; omega

theorem RunN.reach {behs : List Beh} {n : Nat} {s s' : State} (h : RunN behs n s s') : Reach behs s s' := by
  induction h with
  | refl => exact Reach.refl _
  | step a _ hs ih => exact Reach.step a ih hs

theorem run_reach (behs : List Beh) (f : Nat) (s : State) : Reach behs s (run behs f s) := by
  induction f generalizing s with
  | zero => exact Reach.refl s
  | succ n ih =>
    unfold run
    cases h : (actions s.ts.length).findSome? (step behs s) with
    | none => exact Reach.refl s
    | some s' =>
      obtain ⟨a, _, ha⟩ := List.exists_of_findSome?_eq_some h
      exact Reach.trans (Reach.step a (Reach.refl s) ha) (ih s')

end Eru.Misc.Sender
