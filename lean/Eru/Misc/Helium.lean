/-
Model of service discovery:
  * store/etcdv3/service.go:ServiceStatusStream — watch `/services/` *then* get, keep a set of
    endpoints, apply the PUT/DELETE events of every watch response, emit the set once per response
    in which some event changed it;
  * discovery/helium/helium.go — the single dispatch loop
        for { select { case addrs := <-ch: latest = addrs
                       case id := <-unsubChan: cancel; delete; close(ch_id)
                       case <-ticker.C: }
              dispatch(latest) }
    where `dispatch` walks the subscriber map and, for each entry, blocks in
        select { case entry.ch <- status: ; case <-entry.ctx.Done(): }
    The subscriber channel is unbuffered, so the send completes only if a goroutine is
    receiving; `Unsubscribe(id)` is `unsubChan <- id` on an unbuffered channel, so it returns
    only when the loop is back at its `select`.
One *turn* of the loop = one selected event followed by one dispatch.  Ticks arrive every push
interval, so "within one push interval" is "after the next turn".  Core only.
-/
namespace Eru.Misc.Helium

abbrev Addr := String

/-! ### endpoint set of ServiceStatusStream -/

inductive WEv where
  | put (k : Addr)
  | del (k : Addr)
  deriving Repr, DecidableEq

/-- `endpoints.Add` / `endpoints.Remove` on a duplicate-free list; the Bool is `changed` -/
def applyEv (eps : List Addr) : WEv → List Addr × Bool
  | .put k => if k ∈ eps then (eps, false) else (k :: eps, true)
  | .del k => if k ∈ eps then (eps.filter (· ≠ k), true) else (eps, false)

def applyAll (eps : List Addr) (evs : List WEv) : List Addr := evs.foldl (fun e ev => (applyEv e ev).1) eps

/-- one watch response carries a *list* of events (e.g. all writes of one etcd transaction): the
set is updated by every event and `changed` is the OR over them
(`c := eps.Add/Remove(..); if c { changed = true }`) -/
def applyResp (eps : List Addr) (resp : List WEv) : List Addr × Bool :=
  resp.foldl (fun acc ev => let r := applyEv acc.1 ev; (r.1, acc.2 || r.2)) (eps, false)

/-- the snapshots the stream sends after the initial one: one per watch response in which at
least one event changed the set (`if changed { ch <- eps.ToSlice() }`) -/
def emitted (eps : List Addr) : List (List WEv) → List (List Addr)
  | [] => []
  | resp :: rest =>
    let r := applyResp eps resp
    if r.2 then r.1 :: emitted r.1 rest else emitted r.1 rest

/-! ### the dispatch loop -/

structure Sub where
  id : Nat
  reading : Bool            -- some goroutine is receiving from the subscriber channel
  cancelled : Bool          -- the subscription context is cancelled
  inbox : List (List Addr)  -- statuses received so far
  deriving Repr, DecidableEq

structure St where
  latest : List Addr
  subs : List Sub           -- in the (arbitrary but fixed) iteration order of the map
  closedIds : List Nat      -- subscriptions whose Unsubscribe returned (entry deleted, channel closed)
  blocked : Bool            -- the loop is stuck inside dispatch
  exited : Bool := false    -- the store stream's channel was closed (watch failed / context ended): the
                            -- goroutine has returned and `sync.Once` never starts it again
  deriving Repr, DecidableEq

/-- deliver `status` in map order; stops (blocked = true) at the first subscriber that neither
receives nor is cancelled.  When a subscriber both receives and is cancelled Go's `select` may do
either; the model skips it and no theorem speaks about that case. -/
def dispatch (status : List Addr) : List Sub → List Sub × Bool
  | [] => ([], false)
  | s :: rest =>
    if s.cancelled then
      let r := dispatch status rest
      (s :: r.1, r.2)
    else if s.reading then
      let r := dispatch status rest
      ({ s with inbox := s.inbox ++ [status] } :: r.1, r.2)
    else (s :: rest, true)

inductive Ev where
  | update (addrs : List Addr)   -- the store stream delivers a new endpoint set
  | tick
  | unsub (id : Nat)             -- some goroutine calls Unsubscribe(id)
  | closed                       -- the store stream closes its channel (`watch failed`, `resp.Err()`, ctx done)
  deriving Repr, DecidableEq

/-- one turn of the loop; when the loop is stuck nothing is ever selected again -/
def turn (st : St) (ev : Ev) : St :=
  if st.blocked || st.exited then st else
  match ev with
  | .closed => { st with exited := true }
  | .update a =>
    let r := dispatch a st.subs
    { st with latest := a, subs := r.1, blocked := r.2 }
  | .tick =>
    let r := dispatch st.latest st.subs
    { st with subs := r.1, blocked := r.2 }
  | .unsub id =>
    let (gone, keep) := st.subs.partition (·.id = id)
    let r := dispatch st.latest keep
    { st with subs := r.1, blocked := r.2, closedIds := if gone.isEmpty then st.closedIds else id :: st.closedIds }

def run (st : St) (evs : List Ev) : St := evs.foldl turn st

/-- state right after `helium.New`: no subscriber, `latestStatus` is the zero value (no address,
interval 0) until the stream's initial snapshot arrives — a tick that comes first dispatches it -/
def St.init : St := { latest := [], subs := [], closedIds := [], blocked := false }

/-- the address set of the last `update` event (the loop's `latestStatus` afterwards) -/
def lastUpdate (latest : List Addr) : List Ev → List Addr
  | [] => latest
  | .update a :: r => lastUpdate a r
  | _ :: r => lastUpdate latest r

/-- Subscribe: a new entry in the map (position arbitrary: `pos`) -/
def subscribe (st : St) (s : Sub) (pos : Nat) : St :=
  { st with subs := st.subs.take pos ++ s :: st.subs.drop pos }

/-- a subscriber that is guaranteed the next status -/
def Sub.live (s : Sub) : Bool := s.reading && !s.cancelled
/-- a subscriber on which the loop gets stuck -/
def Sub.stuck (s : Sub) : Bool := !s.reading && !s.cancelled

end Eru.Misc.Helium
