import Eru.Misc.Chunks
namespace Eru.Misc.Chunks

theorem toChunks_flatten {α : Type} (size : Nat) (h : 0 < size) (c : List α) :
    (toChunks size h c).flatten = c := by
  fun_induction toChunks size h c with
  | case1 c hc => simp
  | case2 c hc ih => simp [ih]

theorem toChunks_bound {α : Type} (size : Nat) (h : 0 < size) (c : List α) :
    ∀ ch ∈ toChunks size h c, ch.length ≤ size := by
  fun_induction toChunks size h c with
  | case1 c hc => simp; exact hc
  | case2 c hc ih =>
    intro ch hm
    simp at hm
    rcases hm with rfl | hm
    · simp [List.length_take]; omega
    · exact ih ch hm

/-- ⌈len/size⌉ chunks, but one (empty) chunk for an empty file -/
theorem toChunks_length {α : Type} (size : Nat) (h : 0 < size) (c : List α) :
    (toChunks size h c).length = if c.length = 0 then 1 else (c.length + size - 1) / size := by
  fun_induction toChunks size h c with
  | case1 c hc =>
    by_cases h0 : c.length = 0
    · simp [h0]
    · simp [h0]
      have : (c.length + size - 1) / size = 1 := by
        apply Nat.div_eq_of_lt_le <;> omega
      omega
  | case2 c hc ih =>
    have hd : (c.drop size).length = c.length - size := by simp
    have h0 : ¬ c.length = 0 := by omega
    have h1 : ¬ c.length - size = 0 := by omega
    simp [ih, hd, h0, h1]
    have : c.length + size - 1 = (c.length - size + size - 1) + size := by omega
    rw [this, Nat.add_div_right _ h]

/-- every chunk but the last is full -/
theorem toChunks_full {α : Type} (size : Nat) (h : 0 < size) (c : List α) :
    ∀ ch ∈ (toChunks size h c).dropLast, ch.length = size := by
  fun_induction toChunks size h c with
  | case1 c hc => simp
  | case2 c hc ih =>
    intro ch hm
    have hne : toChunks size h (c.drop size) ≠ [] := by
      rw [toChunks]; split <;> simp
    rw [List.dropLast_cons_of_ne_nil hne] at hm
    simp at hm
    rcases hm with rfl | hm
    · simp [List.length_take]; omega
    · exact ih ch hm

/-- no empty chunk unless the file is empty -/
theorem toChunks_nonempty {α : Type} (size : Nat) (h : 0 < size) (c : List α) (hc : c ≠ []) :
    ∀ ch ∈ toChunks size h c, ch ≠ [] := by
  fun_induction toChunks size h c with
  | case1 c _ => simpa using hc
  | case2 c hlt ih =>
    intro ch hm
    simp at hm
    rcases hm with rfl | hm
    · intro h0
      have h1 : (c.take size).length = 0 := by rw [h0]; rfl
      rw [List.length_take] at h1
      omega
    · apply ih _ ch hm
      intro h0
      have h1 : (c.drop size).length = 0 := by rw [h0]; rfl
      rw [List.length_drop] at h1
      omega

end Eru.Misc.Chunks
