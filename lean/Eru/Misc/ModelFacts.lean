import Eru.Misc.Keys
import Eru.Misc.Chunks
import Eru.Misc.Docker
import Eru.Misc.Helium
/-
The constants and integer guards the "misc" models (C24, C27, C29, C31) hard-code, each named once
in the model's own words and proved to be what the model definitions actually use.  The fact
translator regenerates the same pieces from /repo's Go source on every run
(`Eru/Generated/MiscFacts.lean`) and proves them equal to these.  Core only.
-/
namespace Eru.Misc.Facts
open Eru.Misc

/-! ### C24: key roots, separators, suffix alphabet, parse guard -/

def deployPrefix : String := "/deploy"
def statusPrefix : String := "/status"
def processingPrefix : String := "/processing"
theorem deployPrefix_is_model : deployPrefix.toList = Keys.deployRoot := by decide
theorem statusPrefix_is_model : statusPrefix.toList = Keys.statusRoot := by decide
theorem processingPrefix_is_model : processingPrefix.toList = Keys.processingRoot := by decide

/-- separator of MakeWorkloadName / ParseWorkloadName and the character Entrypoint.Validate forbids -/
def nameSep : String := "_"
/-- `strings.TrimLeft(workloadName, "/")` -/
def trimCutset : String := "/"
theorem nameSep_is_model (a e i : Names.Str) :
    Names.makeName a e i = Names.joinWith nameSep.toList.head! [a, e, i] := by rfl
theorem entry_validation_is_model (a e n : Names.Str) :
    Names.Accepted a e n ↔ a ≠ [] ∧ e ≠ [] ∧ nameSep.toList.head! ∉ e ∧ n ≠ [] := Iff.rfl

/-- `length >= 3` of ParseWorkloadName -/
def parseGuard (length : Int) : Bool := length ≥ 3
theorem parseGuard_is_model (name : Names.Str) :
    let fields := Names.splitOn nameSep.toList.head! (Names.trimLeft trimCutset.toList.head! name)
    (parseGuard fields.length = false → Names.parseName name = none) ∧
    (parseGuard fields.length = true → (Names.parseName name).isSome = true) := by
  intro fields
  have hf : fields = Names.splitOn '_' (Names.trimLeft '/' name) := rfl
  constructor
  · intro h
    have : ¬ fields.length ≥ 3 := by simp [parseGuard] at h; omega
    unfold Names.parseName
    simp only [← hf, this, if_false]
  · intro h
    have h3 : fields.length ≥ 3 := by simp [parseGuard] at h; omega
    unfold Names.parseName
    simp only [← hf, h3, if_true]
    have hl : (fields.drop (fields.length - 2)).length = 2 := by rw [List.length_drop]; omega
    match hd : fields.drop (fields.length - 2), hl with
    | [e, i], _ => rfl

/-- alphabet of utils.RandomString (the workload-name suffix) -/
def suffixAlphabet : String := "abcdefghijklmnopqrstuvwxyzABCDEFGHIJKLMNOPQRSTUVWXYZ"
theorem suffixAlphabet_is_model : suffixAlphabet.toList = Names.suffixLetters := rfl

/-! ### C27: the key the registrations live under, the push-interval defaults -/

/-- `/services/%s` (the harness registers and transacts on these keys) -/
def serviceKeyFormat : String := "/services/%s"
/-- `const interval = 15 * time.Second` in nanoseconds -/
def defaultIntervalNs : Int := 15000000000
/-- `h.interval < time.Second`: shorter configured intervals fall back to the default; the check runs
helium with exactly one second, the shortest interval that is kept -/
def intervalTooShort (iv : Int) : Bool := iv < 1000000000
theorem harness_interval_is_kept : intervalTooShort 1000000000 = false := by decide

/-! ### C29: chunk size and the chunking loop -/

def chunkSize : Int := 2048
theorem chunkSize_pos : 0 < chunkSize.toNat := by decide

/-- `idx < len(file.Content) || idx == 0` -/
def chunkLoopCond (idx len : Int) : Bool := idx < len || idx == 0
/-- `idx+maxChunkSize > len(file.Content)`: the rest of the content is the (last) chunk -/
def chunkLastCond (idx size len : Int) : Bool := idx + size > len

/-- one unfolding of the model's `toChunks` in terms of the two loop conditions of the Go code, looking
at the remaining suffix `c` (so `idx = 0` is the suffix's start and the next round starts at `size`) -/
theorem chunk_conds_are_model {α : Type} (size : Nat) (h : 0 < size) (c : List α) :
    Chunks.toChunks size h c =
      if chunkLastCond 0 size c.length || !chunkLoopCond size c.length then [c]
      else c.take size :: Chunks.toChunks size h (c.drop size) := by
  rw [Chunks.toChunks]
  have : (chunkLastCond 0 size c.length || !chunkLoopCond size c.length) = decide (c.length ≤ size) := by
    simp only [chunkLastCond, chunkLoopCond]
    by_cases hc : c.length ≤ size
    · simp [hc]; omega
    · simp [hc]; omega
  rw [this]
  by_cases hc : c.length ≤ size <;> simp [hc]

/-! ### C31: docker constants and integer guards -/

/-- `memory > 0 && memory < minMemory || memory < 0` (create and update paths) -/
def memoryRejected (m : Int) : Bool := m > 0 && m < Docker.minMemory || m < 0
theorem memoryRejected_is_model : @memoryRejected = @Docker.memoryRejected := by
  funext m; simp only [memoryRejected, Docker.memoryRejected]

/-- `memory != 0 && memory/2 < int64(units.MiB*4)` -/
def reservationFloor (memory : Int) : Bool := memory != 0 && Docker.half memory < Docker.minMemory
theorem reservationFloor_is_model (cpu : Rat) (memory : Int) (cores : List String) (numa : String) (remap : Bool) :
    (Docker.makeResourceSetting cpu memory cores numa remap).reservation =
      if reservationFloor memory then Docker.minMemory else Docker.half memory := by
  simp only [Docker.makeResourceSetting, reservationFloor]
  by_cases h1 : memory = 0 <;> by_cases h2 : Docker.half memory < Docker.minMemory <;> simp [h1, h2]

end Eru.Misc.Facts
