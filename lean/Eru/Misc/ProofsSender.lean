import Eru.Misc.Sender
/- Invariants, progress and termination of the SendLargeFile pipeline model (Sender.lean). -/
namespace Eru.Misc.Sender

def SSt.isWrite : SSt → Bool | .write _ _ => true | _ => false

/-- local invariant of one target; `closed` = the producer has closed the buffers -/
def TInv (t : Target) (closed : Bool) : Prop :=
  t.bufClosed = closed ∧
  (t.snd = .exit → t.buf = [] ∧ t.bufClosed = true ∧ t.wClosed = true) ∧
  (t.snd.isWrite = true → t.cop ≠ .none) ∧
  (t.cop = .done → t.rClosed = true) ∧
  (t.snd = .drain → t.wClosed = true) ∧
  (t.snd = .drain → t.cop ≠ .none) ∧
  (t.cop = .none → (t.snd = .recv ∨ t.snd = .exit) ∧ (t.created = true → t.buf ≠ [] ∧ t.snd = .recv))

theorem TInv.init : TInv {} false := by simp [TInv, SSt.isWrite]

theorem TInv.sndStep {t t' : Target} {c : Bool} (h : TInv t c) (hs : t.sndStep = some t') : TInv t' c := by
  unfold Target.sndStep at hs
  unfold TInv at *
  repeat' split at hs
  all_goals (try (cases hs; done))
  all_goals (injection hs with hs; subst hs; simp only)
  all_goals (try (split <;> simp_all [SSt.isWrite] <;> grind))
  all_goals (try (simp_all [SSt.isWrite]; done))
  all_goals grind [SSt.isWrite]

theorem TInv.copStep {t t' : Target} {c : Bool} (b : Beh) (h : TInv t c) (hs : t.copStep b = some t') : TInv t' c := by
  unfold Target.copStep at hs
  unfold TInv at *
  repeat' split at hs
  all_goals (try (injection hs with hs; subst hs; simp_all [SSt.isWrite]))
  all_goals (try (cases hs; done))
  all_goals grind

theorem TInv.push {t t' : Target} {ch : Msg} (h : TInv t false) (hp : t.push ch = some t') : TInv t' false := by
  unfold Target.push at hp
  unfold TInv at *
  split at hp
  · injection hp with hp; subst hp
    have hne : t.buf ++ [ch] ≠ [] := by simp
    simp only
    grind [SSt.isWrite]
  · cases hp

theorem TInv.closeBuf {t : Target} (h : TInv t false) : TInv t.closeBuf true := by
  unfold Target.closeBuf
  unfold TInv at *
  grind [SSt.isWrite]

/-! ### progress of one target -/

/-- while the buffers are open, a target with a non-empty buffer can always take a step of its own
(so a full buffer never blocks the producer for good) -/
theorem progress_open {t : Target} (b : Beh) (h : TInv t false) (hb : t.buf ≠ []) :
    t.sndStep.isSome = true ∨ (t.copStep b).isSome = true := by
  unfold TInv at h
  unfold Target.sndStep Target.copStep
  cases hs : t.snd <;> cases hc : t.cop <;> cases hbuf : t.buf <;> simp_all [SSt.isWrite] <;> grind

/-- after the buffers are closed, a target whose copier has started and not finished can always
take a step of its own (so the wait group always reaches zero) -/
theorem progress_closed {t : Target} (b : Beh) (h : TInv t true) (hn : t.created = true) (hd : t.cop ≠ .done) :
    t.sndStep.isSome = true ∨ (t.copStep b).isSome = true := by
  unfold TInv at h
  unfold Target.sndStep Target.copStep
  cases hs : t.snd <;> cases hc : t.cop <;> cases hbuf : t.buf <;> simp_all [SSt.isWrite] <;> grind

/-! ### termination measure -/

def SSt.rank : SSt → Nat
  | .exit => 0
  | .drain => 1
  | .recv => 1
  | .write p o => 2 + (if o then 1 else 0) + p.length

def CSt.rank : CSt → Nat
  | .none => 6
  | .lock => 5
  | .read _ => 4
  | .report _ => 3
  | .close => 2
  | .done => 0

def bufW : List Msg → Nat
  | [] => 0
  | m :: r => m.chunk.length + 4 + bufW r

theorem bufW_append (a : List Msg) (m : Msg) : bufW (a ++ [m]) = bufW a + (m.chunk.length + 4) := by
  induction a with
  | nil => simp [bufW]
  | cons x r ih => simp [bufW, ih]; omega

def Target.mu (t : Target) : Nat := bufW t.buf + t.snd.rank + t.cop.rank

theorem mu_sndStep {t t' : Target} (hs : t.sndStep = some t') : t'.mu < t.mu := by
  unfold Target.sndStep at hs
  repeat' split at hs
  all_goals (try (cases hs; done))
  all_goals (injection hs with hs; subst hs; simp_all [Target.mu, SSt.rank, CSt.rank, bufW])
  all_goals (try (split <;> simp_all [CSt.rank] <;> omega))
  all_goals (try omega)

theorem minOpt_pos (n : Nat) (left : Option Nat) (hn : 0 < n) (hl : left ≠ some 0) : 0 < minOpt n left := by
  cases left with
  | none => simpa [minOpt] using hn
  | some k =>
    have : k ≠ 0 := fun e => hl (by rw [e])
    simp [minOpt]; omega

theorem mu_copStep {t t' : Target} (b : Beh) (hs : t.copStep b = some t') : t'.mu < t.mu := by
  unfold Target.copStep at hs
  repeat' split at hs
  all_goals (try (cases hs; done))
  all_goals (injection hs with hs; subst hs; simp_all [Target.mu, SSt.rank, CSt.rank])
  -- the hand-off case: the pending bytes or the `once` flag shrink
  all_goals (
    rename_i pending once _ hor
    by_cases ho : once = true
    · simp [ho]; omega
    · have hne : pending ≠ [] := by
        intro e; simp [ho, e] at hor
      have hpos : 0 < pending.length := List.length_pos_iff.mpr hne
      have := minOpt_pos pending.length _ hpos (by assumption)
      simp [ho]; omega)

theorem mu_push {t t' : Target} {ch : Msg} (hp : t.push ch = some t') : t'.mu = t.mu + (ch.chunk.length + 4) := by
  unfold Target.push at hp
  split at hp
  · injection hp with hp; subst hp; simp [Target.mu, bufW_append]; omega
  · cases hp

theorem mu_closeBuf (t : Target) : t.closeBuf.mu = t.mu := rfl

end Eru.Misc.Sender

/-! ### the whole call -/
namespace Eru.Misc.Sender

def todoW : List (Nat × Msg) → Nat
  | [] => 0
  | (_, ch) :: r => ch.chunk.length + 5 + todoW r

def musum : List Target → Nat
  | [] => 0
  | t :: r => t.mu + musum r

/-- termination measure of the whole call: every step strictly decreases it -/
def State.mu (s : State) : Nat := todoW s.todo + (if s.closed then 0 else 1) + musum s.ts

theorem musum_set {ts : List Target} {i : Nat} {t t' : Target} (h : ts[i]? = some t) :
    musum (ts.set i t') + t.mu = musum ts + t'.mu := by
  induction ts generalizing i with
  | nil => simp at h
  | cons x r ih =>
    cases i with
    | zero => simp at h; subst h; simp [musum]; omega
    | succ j =>
      simp at h
      have := ih h
      simp [musum]; omega

theorem musum_map_closeBuf (ts : List Target) : musum (ts.map Target.closeBuf) = musum ts := by
  induction ts with
  | nil => rfl
  | cons x r ih => simp [musum, ih, mu_closeBuf]

/-- **Every step makes progress towards the end**: the measure strictly decreases, hence every
run of the pipeline is finite (at most `State.mu init` steps). -/
theorem step_decreases (behs : List Beh) (s s' : State) (a : Action) (h : step behs s a = some s') :
    s'.mu < s.mu := by
  cases a with
  | prod =>
    simp only [step] at h
    split at h
    next i ch rest htodo =>
      split at h
      next t ht =>
        cases hp : t.push ch with
        | none => simp [hp] at h
        | some t' =>
          simp [hp] at h; subst h
          have h1 := musum_set (t' := t') ht
          have h2 := mu_push hp
          simp only [State.mu, htodo, todoW]
          omega
      next => cases h
    next htodo =>
      split at h
      · cases h
      next hc =>
        injection h with h; subst h
        simp [State.mu, htodo, todoW, musum_map_closeBuf, hc]
  | snd i =>
    simp only [step] at h
    split at h
    next t ht =>
      cases hp : t.sndStep with
      | none => simp [hp] at h
      | some t' =>
        simp [hp] at h; subst h
        have h1 := musum_set (t' := t') ht
        have h2 := mu_sndStep hp
        simp only [State.mu]
        omega
    next => cases h
  | cop i =>
    simp only [step] at h
    split at h
    next t b ht hb =>
      cases hp : t.copStep b with
      | none => simp [hp] at h
      | some t' =>
        simp [hp] at h; subst h
        have h1 := musum_set (t' := t') ht
        have h2 := mu_copStep b hp
        simp only [State.mu]
        omega
    next => cases h

/-- global invariant -/
def GInv (behs : List Beh) (s : State) : Prop :=
  s.ts.length = behs.length ∧
  (∀ t ∈ s.ts, TInv t s.closed) ∧
  (∀ p ∈ s.todo, p.1 < s.ts.length) ∧
  (s.closed = true → s.todo = [])

theorem mem_set_cases {α : Type} {l : List α} {i : Nat} {a x : α} (h : x ∈ l.set i a) : x = a ∨ x ∈ l := by
  induction l generalizing i with
  | nil => simp at h
  | cons y r ih =>
    cases i with
    | zero => simp at h; rcases h with rfl | h; exact Or.inl rfl; exact Or.inr (by simp [h])
    | succ j =>
      simp at h
      rcases h with rfl | h
      · exact Or.inr (by simp)
      · rcases ih h with rfl | h'
        · exact Or.inl rfl
        · exact Or.inr (by simp [h'])

theorem mem_dedup {l : List Nat} {i : Nat} : i ∈ dedup l ↔ i ∈ l := by
  induction l with
  | nil => simp [dedup]
  | cons x r ih =>
    simp only [dedup, List.mem_cons, List.mem_filter, ih]
    constructor
    · rintro (h | ⟨h, _⟩)
      · exact Or.inl h
      · exact Or.inr h
    · rintro (h | h)
      · exact Or.inl h
      · by_cases hx : i = x
        · exact Or.inl hx
        · exact Or.inr ⟨h, by simpa using hx⟩

theorem GInv.init (behs : List Beh) (ids : List Nat) (msgs : List Msg) (hids : ∀ i ∈ ids, i < behs.length) :
    GInv behs (initState behs.length ids msgs) := by
  refine ⟨by simp [initState], ?_, ?_, by simp [initState]⟩
  · intro t ht
    simp [initState] at ht
    rw [ht.2]; exact TInv.init
  · intro p hp
    simp only [initState, List.mem_flatMap, List.mem_map] at hp
    obtain ⟨_, _, i, hi, rfl⟩ := hp
    simpa [initState] using hids i (mem_dedup.mp hi)

theorem GInv.step (behs : List Beh) (s s' : State) (a : Action) (hI : GInv behs s)
    (h : step behs s a = some s') : GInv behs s' := by
  obtain ⟨hl, ht, htodo, hc⟩ := hI
  cases a with
  | prod =>
    simp only [Eru.Misc.Sender.step] at h
    split at h
    next i ch rest hrest =>
      have hopen : s.closed = false := by
        cases hcl : s.closed with
        | false => rfl
        | true => have := hc hcl; rw [hrest] at this; cases this
      split at h
      next t hti =>
        cases hp : t.push ch with
        | none => simp [hp] at h
        | some t' =>
          simp [hp] at h; subst h
          have htm : t ∈ s.ts := List.mem_of_getElem? hti
          refine ⟨by simpa using hl, ?_, ?_, ?_⟩
          · intro x hx
            rcases mem_set_cases hx with rfl | hx
            · have := ht t htm; rw [hopen] at this ⊢; exact TInv.push this hp
            · exact ht x hx
          · intro p hp'
            simp only [List.length_set]
            exact htodo p (by rw [hrest]; simp [hp'])
          · intro hcl; simp [hopen] at hcl
      next => cases h
    next hrest =>
      split at h
      · cases h
      next hcl =>
        injection h with h; subst h
        have hopen : s.closed = false := by simpa using hcl
        refine ⟨by simpa using hl, ?_, ?_, fun _ => hrest⟩
        · intro x hx
          simp only [List.mem_map] at hx
          obtain ⟨y, hy, rfl⟩ := hx
          have := ht y hy; rw [hopen] at this
          exact TInv.closeBuf this
        · intro p hp'; rw [hrest] at hp'; cases hp'
  | snd i =>
    simp only [Eru.Misc.Sender.step] at h
    split at h
    next t hti =>
      cases hp : t.sndStep with
      | none => simp [hp] at h
      | some t' =>
        simp [hp] at h; subst h
        have htm : t ∈ s.ts := List.mem_of_getElem? hti
        refine ⟨by simpa using hl, ?_, ?_, hc⟩
        · intro x hx
          rcases mem_set_cases hx with rfl | hx
          · exact TInv.sndStep (ht t htm) hp
          · exact ht x hx
        · intro p hp'; simp only [List.length_set]; exact htodo p hp'
    next => cases h
  | cop i =>
    simp only [Eru.Misc.Sender.step] at h
    split at h
    next t b hti hbi =>
      cases hp : t.copStep b with
      | none => simp [hp] at h
      | some t' =>
        simp [hp] at h; subst h
        have htm : t ∈ s.ts := List.mem_of_getElem? hti
        refine ⟨by simpa using hl, ?_, ?_, hc⟩
        · intro x hx
          rcases mem_set_cases hx with rfl | hx
          · exact TInv.copStep b (ht t htm) hp
          · exact ht x hx
        · intro p hp'; simp only [List.length_set]; exact htodo p hp'
    next => cases h

/-- **No deadlock**: in every state satisfying the invariant that is not final (the result channel
is not closed yet) some goroutine can take a step. -/
theorem no_deadlock (behs : List Beh) (s : State) (hI : GInv behs s) (hf : final s = false) :
    ∃ a s', step behs s a = some s' := by
  obtain ⟨hl, ht, htodo, hc⟩ := hI
  -- a target with an enabled local step gives an enabled global step
  have lift : ∀ (i : Nat) (t : Target) (b : Beh), s.ts[i]? = some t → behs[i]? = some b →
      (t.sndStep.isSome = true ∨ (t.copStep b).isSome = true) → ∃ a s', step behs s a = some s' := by
    intro i t b hti hbi hor
    rcases hor with h1 | h1
    · obtain ⟨t', ht'⟩ := Option.isSome_iff_exists.mp h1
      exact ⟨.snd i, by simp [step, hti, ht']⟩
    · obtain ⟨t', ht'⟩ := Option.isSome_iff_exists.mp h1
      exact ⟨.cop i, by simp [step, hti, hbi, ht']⟩
  cases htd : s.todo with
  | cons p rest =>
    obtain ⟨i, ch⟩ := p
    have hopen : s.closed = false := by
      cases hcl : s.closed with
      | false => rfl
      | true => have := hc hcl; rw [htd] at this; cases this
    have hi : i < s.ts.length := htodo (i, ch) (by rw [htd]; simp)
    have hti : s.ts[i]? = some s.ts[i] := List.getElem?_eq_getElem hi
    have hbi : behs[i]? = some behs[i] := List.getElem?_eq_getElem (hl ▸ hi)
    by_cases hfull : (s.ts[i]).buf.length < bufCap
    · exact ⟨.prod, by simp [step, htd, hti, Target.push, hfull]⟩
    · have hne : (s.ts[i]).buf ≠ [] := by
        intro e; rw [e] at hfull; simp [bufCap] at hfull
      have hinv := ht _ (List.getElem_mem hi)
      rw [hopen] at hinv
      exact lift i _ _ hti hbi (progress_open behs[i] hinv hne)
  | nil =>
    cases hcl : s.closed with
    | false => exact ⟨.prod, by simp [step, htd, hcl]⟩
    | true =>
      -- some copier is still active
      simp only [final, hcl, Bool.true_and, List.all_eq_false] at hf
      obtain ⟨t, htm, hact⟩ := hf
      obtain ⟨i, hi, rfl⟩ := List.getElem_of_mem htm
      have hti : s.ts[i]? = some s.ts[i] := List.getElem?_eq_getElem hi
      have hbi : behs[i]? = some behs[i] := List.getElem?_eq_getElem (hl ▸ hi)
      have hinv := ht _ htm
      rw [hcl] at hinv
      have hn : (s.ts[i]).created = true := by
        cases hcr : (s.ts[i]).created with
        | true => rfl
        | false => simp [hcr] at hact
      have hd : (s.ts[i]).cop ≠ .done := by intro e; simp [e] at hact
      exact lift i _ _ hti hbi (progress_closed behs[i] hinv hn hd)

/-- reachability by arbitrary interleavings -/
inductive Reach (behs : List Beh) : State → State → Prop where
  | refl (s : State) : Reach behs s s
  | step {s s' s'' : State} (a : Action) : Reach behs s s' → step behs s' a = some s'' → Reach behs s s''

theorem Reach.inv {behs : List Beh} {s s' : State} (h : Reach behs s s') (hI : GInv behs s) : GInv behs s' := by
  induction h with
  | refl => exact hI
  | step a _ hs ih => exact GInv.step behs _ _ a ih hs

theorem Reach.trans {behs : List Beh} {a b c : State} (h1 : Reach behs a b) (h2 : Reach behs b c) : Reach behs a c := by
  induction h2 with
  | refl => exact h1
  | step a _ hs ih => exact Reach.step a ih hs

/-- from every state satisfying the invariant the call can only run into a final state: whatever
was scheduled so far, continuing with *any* enabled steps ends, after at most `mu` steps, with the
result channel closed -/
theorem finishes_from (behs : List Beh) (n : Nat) (s : State) (hI : GInv behs s) (hn : s.mu ≤ n) :
    ∃ s', Reach behs s s' ∧ final s' = true := by
  induction n generalizing s with
  | zero =>
    cases hf : final s with
    | true => exact ⟨s, Reach.refl s, hf⟩
    | false =>
      obtain ⟨a, s', hs⟩ := no_deadlock behs s hI hf
      have := step_decreases behs s s' a hs
      omega
  | succ n ih =>
    cases hf : final s with
    | true => exact ⟨s, Reach.refl s, hf⟩
    | false =>
      obtain ⟨a, s', hs⟩ := no_deadlock behs s hI hf
      have hlt := step_decreases behs s s' a hs
      obtain ⟨s'', hr, hfin⟩ := ih s' (GInv.step behs s s' a hI hs) (by omega)
      exact ⟨s'', Reach.trans (Reach.step a (Reach.refl s) hs) hr, hfin⟩

end Eru.Misc.Sender
