import Eru.Misc.Names
/-
Model of the metadata key layout used by ListWorkloads / WorkloadStatusStream / GetDeployStatus
(store/etcdv3/{workload,deploy}.go, store/redis/{workload,deploy}.go):
`filepath.Join` (= join the non-empty elements with '/', then `filepath.Clean`), the key
builders, etcd prefix queries and Redis glob (`SCAN MATCH`) queries.  Core only.
-/
namespace Eru.Misc.Keys
open Eru.Misc.Names

/-- component processing of `filepath.Clean`: "" and "." vanish, ".." removes the previous
component (at the root it vanishes, in a relative path it is kept when nothing can be removed).
`acc` is the reversed list of kept components. -/
def dotdot (rooted : Bool) (acc : List Str) : List Str :=
  match acc with
  | [] => if rooted then [] else [['.', '.']]
  | a :: rest => if a = ['.', '.'] then ['.', '.'] :: acc else rest

def cleanComps (rooted : Bool) : List Str → List Str → List Str
  | acc, [] => acc.reverse
  | acc, c :: cs =>
    if c = [] ∨ c = ['.'] then cleanComps rooted acc cs
    else if c = ['.', '.'] then cleanComps rooted (dotdot rooted acc) cs
    else cleanComps rooted (c :: acc) cs

/-- `filepath.Clean` (Unix) -/
def clean (p : Str) : Str :=
  if p = [] then ['.'] else
  let rooted := p.head? = some '/'
  let out := (if rooted then ['/'] else []) ++ joinWith '/' (cleanComps rooted [] (splitOn '/' p))
  if out = [] then ['.'] else out

/-- `filepath.Join(elems...)` -/
def pathJoin (elems : List Str) : Str :=
  let ne := elems.filter (· ≠ [])
  if ne = [] then [] else clean (joinWith '/' ne)

def deployRoot : Str := ['/', 'd', 'e', 'p', 'l', 'o', 'y']
def statusRoot : Str := ['/', 's', 't', 'a', 't', 'u', 's']
def processingRoot : Str := ['/', 'p', 'r', 'o', 'c', 'e', 's', 's', 'i', 'n', 'g']

/-- `filepath.Join(root, appname, entrypoint, nodename, ID)` -/
def workloadKey (root app entry node id : Str) : Str := pathJoin [root, app, entry, node, id]

/-- the prefix used by ListWorkloads / WorkloadStatusStream (empty filters cascade) -/
def listPrefix (root app entry node : Str) : Str :=
  let entry := if app = [] then [] else entry
  let node := if entry = [] then [] else node
  pathJoin [root, app, entry, node] ++ ['/']

/-- the prefix used by GetDeployStatus -/
def countPrefix (root app entry : Str) : Str := pathJoin [root, app, entry] ++ ['/']

/-- etcd `WithPrefix` -/
def hasPrefix : Str → Str → Bool
  | [], _ => true
  | _ :: _, [] => false
  | p :: ps, c :: cs => p == c && hasPrefix ps cs

/-- does `c` belong to the class body `cls` (Redis `[...]`: literal characters, `a-z` ranges,
backslash escapes)?  -/
def classHas (c : Char) : Str → Bool
  | [] => false
  | '\\' :: x :: r => c == x || classHas c r
  | a :: '-' :: b :: r => (if a ≤ b then a ≤ c && c ≤ b else b ≤ c && c ≤ a) || classHas c r
  | a :: r => c == a || classHas c r

/-- split a pattern after '[' into class body and the rest after the closing ']' -/
def takeClass : Str → Str × Str
  | [] => ([], [])
  | '\\' :: x :: r => let (b, t) := takeClass r; ('\\' :: x :: b, t)
  | ']' :: r => ([], r)
  | a :: r => let (b, t) := takeClass r; (a :: b, t)

/-- Redis glob matching (util.c:stringmatchlen), fuel = pattern length + string length + 1 steps
of backtracking depth -/
def globAux : Nat → Str → Str → Bool
  | 0, _, _ => false
  | _ + 1, [], s => s.isEmpty
  | f + 1, a :: p, s =>
    if a = '*' then globAux f p s || (!s.isEmpty && globAux f ('*' :: p) s.tail)
    else if s.isEmpty then false
    else
      let c := s.headD ' '
      let s' := s.tail
      if a = '?' then globAux f p s'
      else if a = '[' then
        let neg := p.head? = some '^'
        let p1 := if neg then p.tail else p
        let br := takeClass p1
        (classHas c br.1 != neg) && globAux f br.2 s'
      else if a = '\\' ∧ ¬ p.isEmpty then c == p.headD ' ' && globAux f p.tail s'
      else c == a && globAux f p s'

def globMatch (pat s : Str) : Bool := globAux (2 * (pat.length + s.length) + 2) pat s

/-- `utils.LabelsFilter(extend, labels)`: every filter label must be present with the same value -/
def labelsFilter (extend labels : List (String × String)) : Bool :=
  labels.all fun (k, v) => extend.lookup k == some v

/-- etcd `WithLimit(limit)` on the (key-ordered) range result; 0 = no limit -/
def applyLimit {α : Type} (limit : Nat) (l : List α) : List α := if limit = 0 then l else l.take limit

/-- `parts[len(parts)-2]` of `strings.Split(key, "/")` (doGetDeployStatus); a key always has
at least two parts because it starts with the root -/
def nodeOfKey (key : Str) : Str :=
  let parts := splitOn '/' key
  (parts.drop (parts.length - 2)).headD []

/-- a name that cannot disturb the key layout -/
def CleanName (s : Str) : Prop := s ≠ [] ∧ '/' ∉ s ∧ s ≠ ['.'] ∧ s ≠ ['.', '.']
instance (s : Str) : Decidable (CleanName s) := by unfold CleanName; infer_instance

/-- no Redis glob metacharacter -/
def GlobFree (s : Str) : Prop := ∀ c ∈ s, c ≠ '*' ∧ c ≠ '?' ∧ c ≠ '[' ∧ c ≠ '\\'
instance (s : Str) : Decidable (GlobFree s) := by unfold GlobFree; infer_instance

/-- do the query filters (empty = no filter, cascading as in ListWorkloads) select a workload
created under (app, entry, node)? -/
def filterMatches (fa fe fn app entry node : Str) : Bool :=
  if fa = [] then true
  else if fe = [] then fa == app
  else if fn = [] then fa == app && fe == entry
  else fa == app && fe == entry && fn == node

/-- a workload record as the stores see it: created under (app, entry) with the random ident,
on `node`, with id `id` and labels -/
structure WL where
  app : Str
  entry : Str
  node : Str
  id : Str
  ident : Str
  labels : List (String × String) := []

/-- the key `AddWorkload`/`SetWorkloadStatus` write: application and entrypoint are *parsed back*
from the workload name (`utils.ParseWorkloadName(workload.Name)`), not taken from the request -/
def storedKey (root : Str) (w : WL) : Option Str :=
  match parseName (makeName w.app w.entry w.ident) with
  | some (a, e, _) => some (workloadKey root a e w.node w.id)
  | none => none

/-- `ListWorkloads(app, entry, node, limit, labels)` on a store holding `ws` (etcd: prefix range in
key order, cut at `limit`, then the label filter) — `sel` is the backend's key selection -/
def listQuery (sel : Str → Str → Bool) (root : Str) (ws : List WL) (fa fe fn : Str) (limit : Nat)
    (labels : List (String × String)) : List WL :=
  let hit := ws.filter fun w => match storedKey root w with
    | some k => sel (listPrefix root fa fe fn) k
    | none => false
  (applyLimit limit hit).filter fun w => labelsFilter w.labels labels

def etcdSel (pre k : Str) : Bool := hasPrefix pre k
def redisSel (pre k : Str) : Bool := globMatch (pre ++ ['*']) k

end Eru.Misc.Keys
