import Eru.Misc.Keys
/- Helper lemmas for C24 (Split/Join algebra, filepath.Join on clean names, prefix and glob queries). -/
namespace Eru.Misc.Names

theorem splitOn_ne_nil (sep : Char) (s : Str) : ∃ h t, splitOn sep s = h :: t := by
  induction s with
  | nil => exact ⟨[], [], rfl⟩
  | cons c cs ih =>
    obtain ⟨h, t, e⟩ := ih
    by_cases hc : c = sep
    · exact ⟨[], splitOn sep cs, by simp [splitOn, hc]⟩
    · exact ⟨c :: h, t, by simp [splitOn, hc, e]⟩

theorem splitOn_append_sep (sep : Char) (x y : Str) :
    splitOn sep (x ++ sep :: y) = splitOn sep x ++ splitOn sep y := by
  induction x with
  | nil => simp [splitOn]
  | cons c cs ih =>
    by_cases hc : c = sep
    · simp [splitOn, hc, ih]
    · obtain ⟨h, t, e⟩ := splitOn_ne_nil sep cs
      simp [splitOn, hc, ih, e]

theorem splitOn_sepfree (sep : Char) (s : Str) (h : sep ∉ s) : splitOn sep s = [s] := by
  induction s with
  | nil => rfl
  | cons c cs ih =>
    have hc : ¬ c = sep := fun e => h (by simp [e])
    have hcs : sep ∉ cs := fun m => h (by simp [m])
    simp [splitOn, hc, ih hcs]

theorem joinWith_splitOn (sep : Char) (s : Str) : joinWith sep (splitOn sep s) = s := by
  induction s with
  | nil => rfl
  | cons c cs ih =>
    obtain ⟨h, t, e⟩ := splitOn_ne_nil sep cs
    by_cases hc : c = sep
    · simp [splitOn, hc, e, joinWith] at *
      exact ih
    · rw [e] at ih
      cases t with
      | nil => simp [splitOn, hc, e, joinWith] at *; exact ih
      | cons y r => simp [splitOn, hc, e, joinWith] at *; exact ih

theorem joinWith_cons_cons (sep : Char) (x y : Str) (r : List Str) :
    joinWith sep (x :: y :: r) = x ++ sep :: joinWith sep (y :: r) := rfl

theorem splitOn_joinWith (sep : Char) (xs : List Str) (hne : xs ≠ []) (hf : ∀ x ∈ xs, sep ∉ x) :
    splitOn sep (joinWith sep xs) = xs := by
  induction xs with
  | nil => exact absurd rfl hne
  | cons x r ih =>
    cases r with
    | nil => simpa [joinWith] using splitOn_sepfree sep x (hf x (by simp))
    | cons y r' =>
      rw [joinWith_cons_cons, splitOn_append_sep, splitOn_sepfree sep x (hf x (by simp)),
        ih (by simp) (fun z hz => hf z (by simp [hz]))]
      rfl

theorem trimLeft_id (ch : Char) (s : Str) (h : s.head? ≠ some ch) : trimLeft ch s = s := by
  cases s with
  | nil => rfl
  | cons c cs =>
    have : ¬ c = ch := fun e => h (by simp [e])
    simp [trimLeft, this]

theorem makeName_eq (a e i : Str) : makeName a e i = a ++ '_' :: (e ++ '_' :: i) := rfl

/-- ParseWorkloadName inverts MakeWorkloadName whenever the application name does not start
with '/' and neither the entrypoint nor the ident contains '_'. -/
theorem parse_make_aux (a e i : Str) (ha : a.head? ≠ some '/') (he : '_' ∉ e) (hi : '_' ∉ i) :
    parseName (makeName a e i) = some (a, e, i) := by
  have ht : trimLeft '/' (makeName a e i) = makeName a e i := by
    apply trimLeft_id
    rw [makeName_eq]
    cases a with
    | nil => simp
    | cons c cs => simpa using ha
  have hs : splitOn '_' (makeName a e i) = splitOn '_' a ++ [e, i] := by
    rw [makeName_eq, splitOn_append_sep, splitOn_append_sep, splitOn_sepfree _ e he, splitOn_sepfree _ i hi]
    rfl
  unfold parseName
  simp only [ht, hs]
  have hl : (splitOn '_' a ++ [e, i]).length = (splitOn '_' a).length + 2 := by simp
  have hge : (splitOn '_' a ++ [e, i]).length ≥ 3 := by
    obtain ⟨h, t, e'⟩ := splitOn_ne_nil '_' a
    rw [hl, e']; simp
  simp only [hge, if_true, hl, Nat.add_sub_cancel]
  rw [List.drop_left, List.take_left, joinWith_splitOn]
  obtain ⟨h, t, e'⟩ := splitOn_ne_nil '_' a
  have : (splitOn '_' a).length + 2 ≥ 3 := by rw [e']; simp
  simp [this]

end Eru.Misc.Names

namespace Eru.Misc.Keys
open Eru.Misc.Names

theorem cleanComps_clean (rooted : Bool) (cs acc : List Str) (h : ∀ c ∈ cs, CleanName c) :
    cleanComps rooted acc cs = acc.reverse ++ cs := by
  induction cs generalizing acc with
  | nil => simp [cleanComps]
  | cons c cs ih =>
    obtain ⟨h1, _, h3, h4⟩ := h c (by simp)
    simp only [cleanComps, h1, h3, h4, or_self, if_false]
    rw [ih _ (fun x hx => h x (by simp [hx]))]
    simp

theorem joinWith_head (sep c : Char) (x : Str) (xs : List Str) :
    joinWith sep ((c :: x) :: xs) = c :: joinWith sep (x :: xs) := by
  cases xs <;> simp [joinWith]

/-- `filepath.Join` of a rooted clean root and clean names is plain concatenation with '/' -/
theorem pathJoin_clean (r : Str) (xs : List Str) (hr : CleanName r) (hx : ∀ x ∈ xs, CleanName x) :
    pathJoin (('/' :: r) :: xs) = '/' :: joinWith '/' (r :: xs) := by
  have hall : ∀ x ∈ r :: xs, CleanName x := by
    intro x hm; simp at hm; rcases hm with rfl | hm; exact hr; exact hx x hm
  have hfil : (('/' :: r) :: xs).filter (fun s => decide (s ≠ [])) = ('/' :: r) :: xs := by
    rw [List.filter_eq_self]
    intro x hm; simp at hm
    rcases hm with rfl | hm
    · simp
    · simpa using (hx x hm).1
  unfold pathJoin
  simp only [hfil]
  rw [joinWith_head]
  have hsplit : splitOn '/' ('/' :: joinWith '/' (r :: xs)) = [] :: r :: xs := by
    simp only [splitOn, if_true]
    rw [splitOn_joinWith '/' (r :: xs) (by simp) (fun x hm => (hall x hm).2.1)]
  simp only [clean, hsplit]
  have hcc : cleanComps true [] ([] :: r :: xs) = r :: xs := by
    have h1 : cleanComps true [] ([] :: r :: xs) = cleanComps true [] (r :: xs) := by
      rw [cleanComps]; simp
    rw [h1]
    simpa using cleanComps_clean true (r :: xs) [] hall
  simp [hcc]

theorem pathJoin_filter (l : List Str) : pathJoin l = pathJoin (l.filter (fun s => decide (s ≠ []))) := by
  unfold pathJoin; simp [List.filter_filter]

/-- each component followed by the separator -/
def pre (sep : Char) : List Str → Str
  | [] => []
  | f :: fs => f ++ sep :: pre sep fs

theorem joinWith_append_sep (sep : Char) (x : Str) (xs : List Str) :
    joinWith sep (x :: xs) ++ [sep] = pre sep (x :: xs) := by
  induction xs generalizing x with
  | nil => simp [joinWith, pre]
  | cons y r ih => rw [joinWith_cons_cons, pre, ← ih]; simp

theorem hasPrefix_sepfree (sep : Char) (x y P K : Str) (hx : sep ∉ x) (hy : sep ∉ y) :
    hasPrefix (x ++ sep :: P) (y ++ sep :: K) = (decide (x = y) && hasPrefix P K) := by
  induction x generalizing y with
  | nil =>
    cases y with
    | nil => simp [hasPrefix]
    | cons c y' =>
      have : ¬ sep = c := fun e => hy (by simp [e])
      simp [hasPrefix, this]
  | cons a x' ih =>
    have ha : ¬ a = sep := fun e => hx (by simp [e])
    cases y with
    | nil => simp [hasPrefix, ha]
    | cons c y' =>
      have hx' : sep ∉ x' := fun m => hx (by simp [m])
      have hy' : sep ∉ y' := fun m => hy (by simp [m])
      simp only [List.cons_append, hasPrefix, ih y' hx' hy']
      by_cases hac : a = c <;> simp [hac]

theorem hasPrefix_sepfree_last (sep : Char) (x y P : Str) (hx : sep ∉ x) (hy : sep ∉ y) :
    hasPrefix (x ++ sep :: P) y = false := by
  induction x generalizing y with
  | nil =>
    cases y with
    | nil => simp [hasPrefix]
    | cons c y' =>
      have : ¬ sep = c := fun e => hy (by simp [e])
      simp [hasPrefix, this]
  | cons a x' ih =>
    cases y with
    | nil => simp [hasPrefix]
    | cons c y' =>
      have hx' : sep ∉ x' := fun m => hx (by simp [m])
      have hy' : sep ∉ y' := fun m => hy (by simp [m])
      simp [hasPrefix, ih y' hx' hy']

/-- list-level meaning of a component-wise prefix query: `fs` is a *proper* prefix of `ks` -/
def prefixList : List Str → List Str → Bool
  | [], _ => true
  | f :: fs, k :: k2 :: r => decide (f = k) && prefixList fs (k2 :: r)
  | _ :: _, _ => false

theorem hasPrefix_pre (sep : Char) (fs ks : List Str) (hf : ∀ x ∈ fs, sep ∉ x) (hk : ∀ x ∈ ks, sep ∉ x) :
    hasPrefix (pre sep fs) (joinWith sep ks) = prefixList fs ks := by
  induction fs generalizing ks with
  | nil => simp [pre, hasPrefix, prefixList]
  | cons f fs ih =>
    have hf0 : sep ∉ f := hf f (by simp)
    match ks with
    | [] => simpa [pre, joinWith, prefixList] using hasPrefix_sepfree_last sep f [] _ hf0 (by simp)
    | [k] => simpa [pre, joinWith, prefixList] using hasPrefix_sepfree_last sep f k _ hf0 (hk k (by simp))
    | k :: k2 :: r =>
      rw [pre, joinWith_cons_cons, hasPrefix_sepfree sep f k _ _ hf0 (hk k (by simp)),
        ih (k2 :: r) (fun x hx => hf x (by simp [hx])) (fun x hx => hk x (by simp [hx]))]
      simp [prefixList]

/-! glob -/

theorem glob_star_all (s : Str) (fuel : Nat) (h : fuel ≥ s.length + 2) : globAux fuel ['*'] s = true := by
  induction s generalizing fuel with
  | nil =>
    match fuel, h with
    | f + 2, _ => simp [globAux]
  | cons c s ih =>
    match fuel, h with
    | f + 1, h =>
      have : globAux f ['*'] s = true := ih f (by simp at h ⊢; omega)
      simp [globAux, this]

theorem glob_literal (f : Nat) (a : Char) (p s : Str)
    (h1 : a ≠ '*') (h2 : a ≠ '?') (h3 : a ≠ '[') (h4 : a ≠ '\\') :
    globAux (f + 1) (a :: p) s = (match s with | [] => false | c :: s' => c == a && globAux f p s') := by
  cases s with
  | nil => simp [globAux, h1]
  | cons c s' => simp [globAux, h1, h2, h3, h4]

theorem glob_prefix (P s : Str) (fuel : Nat) (hP : GlobFree P) (hf : fuel ≥ P.length + s.length + 2) :
    globAux fuel (P ++ ['*']) s = hasPrefix P s := by
  induction P generalizing s fuel with
  | nil => simpa [hasPrefix] using glob_star_all s fuel (by simpa using hf)
  | cons a P ih =>
    obtain ⟨h1, h2, h3, h4⟩ := hP a (by simp)
    have hP' : GlobFree P := fun c hc => hP c (by simp [hc])
    match fuel, hf with
    | f + 1, hf =>
      cases s with
      | nil => rw [List.cons_append, glob_literal f a _ _ h1 h2 h3 h4]; simp [hasPrefix]
      | cons c s' =>
        rw [List.cons_append, glob_literal f a _ _ h1 h2 h3 h4]
        show (c == a && globAux f (P ++ ['*']) s') = _
        rw [ih s' f hP' (by simp at hf ⊢; omega)]
        simp only [hasPrefix]
        by_cases hac : a = c
        · simp [hac]
        · have hca : ¬ c = a := fun e => hac e.symm
          rw [beq_false_of_ne hac, beq_false_of_ne hca]

end Eru.Misc.Keys
