/-
Software IEEE-754 binary64 for the few float expressions on the C31 path
(`int64(math.Round(cpu*100000))`, `math.Modf`, `math.Round(1024*frac)`).
A finite double is represented by the exact rational it denotes; every arithmetic
result is rounded to nearest-even at 53 bits (`roundF64`).  NaN/±Inf are outside
the model (`ofBits` returns `none`; the harness never generates them and the
engine-params producer never emits them).
Core only (no Mathlib): the oracle links this file.
-/
namespace Eru.Misc.F64

def pow2 (e : Int) : Rat := if e ≥ 0 then ((2 ^ e.toNat : Nat) : Rat) else 1 / ((2 ^ (-e).toNat : Nat) : Rat)

/-- ⌊log2 q⌋ for q > 0 -/
def floorLog2 (q : Rat) : Int :=
  let k : Int := (Nat.log2 q.num.toNat : Int) - (Nat.log2 q.den : Int)
  if pow2 k ≤ q then (if pow2 (k + 1) ≤ q then k + 1 else k) else k - 1

/-- nearest integer, ties to even -/
def roundHalfEven (m : Rat) : Int :=
  let n := m.floor
  let r := m - (n : Rat)
  if r < 1/2 then n else if r > 1/2 then n + 1 else if n % 2 = 0 then n else n + 1

/-- round a non-negative rational to the nearest binary64 (normal or subnormal); no overflow check -/
def roundPos (q : Rat) : Rat :=
  if q ≤ 0 then 0 else
  let fl := floorLog2 q
  let e : Int := if fl - 52 < -1074 then -1074 else fl - 52
  ((roundHalfEven (q * pow2 (-e)) : Int) : Rat) * pow2 e

/-- round to nearest-even binary64 -/
def roundF64 (q : Rat) : Rat := if q < 0 then - roundPos (-q) else roundPos q

/-- largest finite double -/
def maxF64 : Rat := ((2 ^ 53 - 1 : Nat) : Rat) * pow2 971

/-- decode IEEE bits; `none` for NaN/Inf -/
def ofBits (b : Nat) : Option Rat :=
  let sign : Nat := b / 2 ^ 63 % 2
  let ex : Nat := b / 2 ^ 52 % 2048
  let man : Nat := b % 2 ^ 52
  if ex = 2047 then none else
  let manR : Rat := (man : Rat)
  let normR : Rat := ((2 ^ 52 + man : Nat) : Rat)
  let mag : Rat := if ex = 0 then manR * pow2 (-1074) else normR * pow2 ((ex : Int) - 1075)
  some (if sign = 1 then -mag else mag)

/-- Go `x*y` on float64 (finite inputs, finite result assumed and checked by callers) -/
def mul (x y : Rat) : Rat := roundF64 (x * y)

/-- truncation toward zero (`int64(x)` for |x| < 2^63, `math.Trunc`) -/
def trunc (x : Rat) : Int := if x < 0 then - ((-x).floor) else x.floor

/-- Go `math.Round`: nearest integer, halves away from zero (exact on doubles) -/
def roundAway (x : Rat) : Int :=
  if x < 0 then - ((-x + 1/2).floor) else (x + 1/2).floor

/-- fractional part returned by `math.Modf` (same sign as x; exact) -/
def frac (x : Rat) : Rat := x - (trunc x : Rat)

end Eru.Misc.F64
