import Eru.Misc.Helium
namespace Eru.Misc.Helium

def orE : Option Bool → Option Bool → Option Bool
  | some b, _ => some b
  | none, y => y

def opOn (ev : WEv) (k : Addr) : Option Bool :=
  match ev with
  | .put k' => if k = k' then some true else none
  | .del k' => if k = k' then some false else none

/-- the last operation on key `k` in a list of watch events -/
def lastOp : List WEv → Addr → Option Bool
  | [], _ => none
  | ev :: rest, k => orE (lastOp rest k) (opOn ev k)

theorem mem_applyEv (eps : List Addr) (ev : WEv) (k : Addr) :
    k ∈ (applyEv eps ev).1 ↔ (match ev with | .put k' => k = k' ∨ k ∈ eps | .del k' => k ≠ k' ∧ k ∈ eps) := by
  cases ev with
  | put k' =>
    unfold applyEv
    by_cases h : k' ∈ eps
    · simp only [h, if_true]
      constructor
      · exact Or.inr
      · rintro (rfl | h') <;> assumption
    · simp [h]
  | del k' =>
    unfold applyEv
    by_cases h : k' ∈ eps
    · simp [h, and_comm]
    · simp only [h, if_false]
      constructor
      · intro hk; exact ⟨fun e => h (e ▸ hk), hk⟩
      · exact fun hk => hk.2

theorem mem_applyAll (evs : List WEv) (eps : List Addr) (k : Addr) :
    k ∈ applyAll eps evs ↔ (lastOp evs k).getD (decide (k ∈ eps)) = true := by
  induction evs generalizing eps with
  | nil => simp [applyAll, lastOp]
  | cons ev rest ih =>
    have : applyAll eps (ev :: rest) = applyAll (applyEv eps ev).1 rest := rfl
    rw [this, ih, lastOp]
    cases h : lastOp rest k with
    | some b => simp [orE]
    | none =>
      simp only [orE, Option.getD_none]
      rw [decide_eq_true_iff, mem_applyEv]
      cases ev with
      | put k' => by_cases hk : k = k' <;> simp [hk, opOn]
      | del k' => by_cases hk : k = k' <;> simp [hk, opOn]

theorem lastOp_append (a b : List WEv) (k : Addr) :
    lastOp (a ++ b) k = orE (lastOp b k) (lastOp a k) := by
  induction a with
  | nil => simp only [List.nil_append, lastOp]; cases lastOp b k <;> rfl
  | cons ev rest ih =>
    simp only [List.cons_append, lastOp, ih]
    cases lastOp b k <;> rfl

/-- `dispatch` when nobody is stuck: the loop is not blocked, the subscriber ids are unchanged and
every live subscriber has just received `status` -/
theorem dispatch_ready (status : List Addr) (subs : List Sub)
    (h : ∀ s ∈ subs, s.reading = true ∨ s.cancelled = true) :
    (dispatch status subs).2 = false ∧
    (dispatch status subs).1.map (·.id) = subs.map (·.id) ∧
    ∀ s' ∈ (dispatch status subs).1, s'.live = true → s'.inbox.getLast? = some status := by
  induction subs with
  | nil => simp [dispatch]
  | cons s rest ih =>
    obtain ⟨h1, h2, h3⟩ := ih (fun x hx => h x (by simp [hx]))
    by_cases hc : s.cancelled = true
    · simp only [dispatch, hc, if_true, h1, List.map_cons, h2, true_and]
      intro s' hs'
      simp only [List.mem_cons] at hs'
      rcases hs' with rfl | hs'
      · intro hl; simp [Sub.live, hc] at hl
      · exact h3 s' hs'
    · have hr : s.reading = true := (h s (by simp)).resolve_right hc
      have hc' : s.cancelled = false := by simpa using hc
      have hd : dispatch status (s :: rest) =
          ({ s with inbox := s.inbox ++ [status] } :: (dispatch status rest).1, (dispatch status rest).2) := by
        simp [dispatch, hc', hr]
      rw [hd]
      refine ⟨h1, by simp [h2], ?_⟩
      intro s' hs'
      simp only [List.mem_cons] at hs'
      rcases hs' with rfl | hs'
      · intro _; simp
      · exact h3 s' hs'

/-- `dispatch` with a stuck subscriber blocks the loop -/
theorem dispatch_stuck (status : List Addr) (subs : List Sub) (h : ∃ s ∈ subs, s.stuck = true) :
    (dispatch status subs).2 = true := by
  induction subs with
  | nil => obtain ⟨s, hs, _⟩ := h; cases hs
  | cons s rest ih =>
    obtain ⟨x, hx, hst⟩ := h
    simp only [List.mem_cons] at hx
    by_cases hc : s.cancelled = true
    · rcases hx with rfl | hx
      · simp [Sub.stuck, hc] at hst
      · simp only [dispatch, hc, if_true]; exact ih ⟨x, hx, hst⟩
    · by_cases hr : s.reading = true
      · rcases hx with rfl | hx
        · simp [Sub.stuck, hr] at hst
        · simp only [dispatch, hc, hr, if_true]; exact ih ⟨x, hx, hst⟩
      · simp [dispatch, hc, hr]

end Eru.Misc.Helium
