import Eru.Misc.Helium
namespace Eru.Misc.Helium

def orE : Option Bool → Option Bool → Option Bool
  | some b, _ => some b
  | none, y => y

def opOn (ev : WEv) (k : Addr) : Option Bool :=
  match ev with
  | .put k' => if k = k' then some true else none
  | .del k' => if k = k' then some false else none

/-- the last operation on key `k` in a list of watch events -/
def lastOp : List WEv → Addr → Option Bool
  | [], _ => none
  | ev :: rest, k => orE (lastOp rest k) (opOn ev k)

theorem mem_applyEv (eps : List Addr) (ev : WEv) (k : Addr) :
    k ∈ (applyEv eps ev).1 ↔ (match ev with | .put k' => k = k' ∨ k ∈ eps | .del k' => k ≠ k' ∧ k ∈ eps) := by
  cases ev with
  | put k' =>
    unfold applyEv
    by_cases h : k' ∈ eps
    · simp only [h, if_true]
      constructor
      · exact Or.inr
      · rintro (rfl | h') <;> assumption
    · simp [h]
  | del k' =>
    unfold applyEv
    by_cases h : k' ∈ eps
    · simp [h, and_comm]
    · simp only [h, if_false]
      constructor
      · intro hk; exact ⟨fun e => h (e ▸ hk), hk⟩
      · exact fun hk => hk.2

theorem mem_applyAll (evs : List WEv) (eps : List Addr) (k : Addr) :
    k ∈ applyAll eps evs ↔ (lastOp evs k).getD (decide (k ∈ eps)) = true := by
  induction evs generalizing eps with
  | nil => simp [applyAll, lastOp]
  | cons ev rest ih =>
    have : applyAll eps (ev :: rest) = applyAll (applyEv eps ev).1 rest := rfl
    rw [this, ih, lastOp]
    cases h : lastOp rest k with
    | some b => simp [orE]
    | none =>
      simp only [orE, Option.getD_none]
      rw [decide_eq_true_iff, mem_applyEv]
      cases ev with
      | put k' => by_cases hk : k = k' <;> simp [hk, opOn]
      | del k' => by_cases hk : k = k' <;> simp [hk, opOn]

theorem lastOp_append (a b : List WEv) (k : Addr) :
    lastOp (a ++ b) k = orE (lastOp b k) (lastOp a k) := by
  induction a with
  | nil => simp only [List.nil_append, lastOp]; cases lastOp b k <;> rfl
  | cons ev rest ih =>
    simp only [List.cons_append, lastOp, ih]
    cases lastOp b k <;> rfl

/-- `dispatch` when nobody is stuck: the loop is not blocked, the subscriber ids are unchanged and
every live subscriber has just received `status` -/
theorem dispatch_ready (status : List Addr) (subs : List Sub)
    (h : ∀ s ∈ subs, s.reading = true ∨ s.cancelled = true) :
    (dispatch status subs).2 = false ∧
    (dispatch status subs).1.map (·.id) = subs.map (·.id) ∧
    ∀ s' ∈ (dispatch status subs).1, s'.live = true → s'.inbox.getLast? = some status := by
  induction subs with
  | nil => simp [dispatch]
  | cons s rest ih =>
    obtain ⟨h1, h2, h3⟩ := ih (fun x hx => h x (by simp [hx]))
    by_cases hc : s.cancelled = true
    · simp only [dispatch, hc, if_true, h1, List.map_cons, h2, true_and]
      intro s' hs'
      simp only [List.mem_cons] at hs'
      rcases hs' with rfl | hs'
      · intro hl; simp [Sub.live, hc] at hl
      · exact h3 s' hs'
    · have hr : s.reading = true := (h s (by simp)).resolve_right hc
      have hc' : s.cancelled = false := by simpa using hc
      have hd : dispatch status (s :: rest) =
          ({ s with inbox := s.inbox ++ [status] } :: (dispatch status rest).1, (dispatch status rest).2) := by
        simp [dispatch, hc', hr]
      rw [hd]
      refine ⟨h1, by simp [h2], ?_⟩
      intro s' hs'
      simp only [List.mem_cons] at hs'
      rcases hs' with rfl | hs'
      · intro _; simp
      · exact h3 s' hs'

/-- `dispatch` with a stuck subscriber blocks the loop -/
theorem dispatch_stuck (status : List Addr) (subs : List Sub) (h : ∃ s ∈ subs, s.stuck = true) :
    (dispatch status subs).2 = true := by
  induction subs with
  | nil => obtain ⟨s, hs, _⟩ := h; cases hs
  | cons s rest ih =>
    obtain ⟨x, hx, hst⟩ := h
    simp only [List.mem_cons] at hx
    by_cases hc : s.cancelled = true
    · rcases hx with rfl | hx
      · simp [Sub.stuck, hc] at hst
      · simp only [dispatch, hc, if_true]; exact ih ⟨x, hx, hst⟩
    · by_cases hr : s.reading = true
      · rcases hx with rfl | hx
        · simp [Sub.stuck, hr] at hst
        · simp only [dispatch, hc, hr, if_true]; exact ih ⟨x, hx, hst⟩
      · simp [dispatch, hc, hr]

theorem applyEv_unchanged (eps : List Addr) (ev : WEv) (h : (applyEv eps ev).2 = false) : (applyEv eps ev).1 = eps := by
  cases ev with
  | put k => unfold applyEv at *; by_cases hk : k ∈ eps <;> simp_all
  | del k => unfold applyEv at *; by_cases hk : k ∈ eps <;> simp_all

theorem applyResp_fold (eps : List Addr) (c : Bool) (resp : List WEv) :
    (resp.foldl (fun acc ev => let r := applyEv acc.1 ev; (r.1, acc.2 || r.2)) (eps, c)).1 = applyAll eps resp ∧
    ((resp.foldl (fun acc ev => let r := applyEv acc.1 ev; (r.1, acc.2 || r.2)) (eps, c)).2 = false →
      c = false ∧ applyAll eps resp = eps) := by
  induction resp generalizing eps c with
  | nil => simp [applyAll]
  | cons ev rest ih =>
    simp only [List.foldl_cons]
    have hstep : applyAll eps (ev :: rest) = applyAll (applyEv eps ev).1 rest := rfl
    obtain ⟨h1, h2⟩ := ih (applyEv eps ev).1 (c || (applyEv eps ev).2)
    refine ⟨by rw [hstep]; exact h1, ?_⟩
    intro hf
    obtain ⟨hc, hs⟩ := h2 hf
    have hc1 : c = false := by cases c <;> simp_all
    have hc2 : (applyEv eps ev).2 = false := by cases h : (applyEv eps ev).2 <;> simp_all
    refine ⟨hc1, ?_⟩
    rw [hstep, hs, applyEv_unchanged eps ev hc2]

/-- a response updates the set by all its events; if it reports "unchanged" the set is unchanged -/
theorem applyResp_spec (eps : List Addr) (resp : List WEv) :
    (applyResp eps resp).1 = applyAll eps resp ∧ ((applyResp eps resp).2 = false → applyAll eps resp = eps) := by
  obtain ⟨h1, h2⟩ := applyResp_fold eps false resp
  exact ⟨h1, fun h => (h2 h).2⟩

theorem applyAll_append (eps : List Addr) (a b : List WEv) : applyAll eps (a ++ b) = applyAll (applyAll eps a) b := by
  simp [applyAll, List.foldl_append]

/-- the last snapshot the stream has sent (the initial one included) is its current set, whatever
the grouping of the events into watch responses -/
theorem emitted_last (eps : List Addr) (resps : List (List WEv)) :
    (eps :: emitted eps resps).getLast? = some (applyAll eps resps.flatten) := by
  induction resps generalizing eps with
  | nil => simp [emitted, applyAll]
  | cons resp rest ih =>
    obtain ⟨h1, h2⟩ := applyResp_spec eps resp
    have hem : emitted eps (resp :: rest) = if (applyResp eps resp).2 then (applyResp eps resp).1 :: emitted (applyResp eps resp).1 rest
        else emitted (applyResp eps resp).1 rest := rfl
    rw [List.flatten_cons, applyAll_append, hem, ← h1, ← ih (applyResp eps resp).1]
    by_cases hc : (applyResp eps resp).2 = true
    · simp only [hc, if_true]
      rw [List.getLast?_cons_cons]
    · have hc' : (applyResp eps resp).2 = false := by simpa using hc
      simp only [hc', Bool.false_eq_true, if_false]
      rw [h1, h2 hc']

/-- dispatch never changes who is receiving / cancelled -/
theorem dispatch_flags (status : List Addr) (subs : List Sub) :
    ∀ s' ∈ (dispatch status subs).1, ∃ s ∈ subs, s'.reading = s.reading ∧ s'.cancelled = s.cancelled := by
  induction subs with
  | nil => intro s' hs'; simp [dispatch] at hs'
  | cons y r ih =>
    intro x hx
    by_cases hc : y.cancelled = true
    · simp only [dispatch, hc, if_true, List.mem_cons] at hx
      rcases hx with rfl | hx
      · exact ⟨x, by simp, rfl, rfl⟩
      · obtain ⟨z, hz, e⟩ := ih x hx; exact ⟨z, by simp [hz], e⟩
    · have hc' : y.cancelled = false := by simpa using hc
      by_cases hr : y.reading = true
      · simp only [dispatch, hc', hr, if_true, Bool.false_eq_true, if_false, List.mem_cons] at hx
        rcases hx with rfl | hx
        · exact ⟨y, by simp, by simp [hr], by simp [hc']⟩
        · obtain ⟨z, hz, e⟩ := ih x hx; exact ⟨z, by simp [hz], e⟩
      · have hr' : y.reading = false := by simpa using hr
        simp only [dispatch, hc', hr', Bool.false_eq_true, if_false] at hx
        exact ⟨x, hx, rfl, rfl⟩

def AllReady (st : St) : Prop := ∀ s ∈ st.subs, s.reading = true ∨ s.cancelled = true

/-- one turn keeps a healthy loop healthy when every subscriber is receiving or cancelled -/
theorem turn_healthy (st : St) (ev : Ev) (hb : st.blocked = false) (he : st.exited = false)
    (hev : ev ≠ .closed) (h : AllReady st) :
    (turn st ev).blocked = false ∧ (turn st ev).exited = false ∧ AllReady (turn st ev) ∧
    (turn st ev).latest = lastUpdate st.latest [ev] := by
  have flags : ∀ (status : List Addr) (l : List Sub), (∀ s ∈ l, s.reading = true ∨ s.cancelled = true) →
      ∀ s' ∈ (dispatch status l).1, s'.reading = true ∨ s'.cancelled = true := by
    intro status l hl s' hs'
    obtain ⟨s, hs, e1, e2⟩ := dispatch_flags status l s' hs'
    rw [e1, e2]; exact hl s hs
  unfold turn
  simp only [hb, he, Bool.or_self, Bool.false_eq_true, if_false]
  cases ev with
  | closed => exact absurd rfl hev
  | update a => exact ⟨(dispatch_ready a st.subs h).1, by simpa using he, flags a st.subs h, rfl⟩
  | tick => exact ⟨(dispatch_ready st.latest st.subs h).1, by simpa using he, flags st.latest st.subs h, rfl⟩
  | unsub id =>
    have hk : ∀ s ∈ (st.subs.partition (·.id = id)).2, s.reading = true ∨ s.cancelled = true := by
      intro s hs
      rw [List.partition_eq_filter_filter] at hs
      exact h s (List.mem_filter.mp hs).1
    exact ⟨(dispatch_ready st.latest _ hk).1, by simpa using he, flags st.latest _ hk, rfl⟩

theorem lastUpdate_append (l : List Addr) (a b : List Ev) : lastUpdate l (a ++ b) = lastUpdate (lastUpdate l a) b := by
  induction a generalizing l with
  | nil => rfl
  | cons ev r ih => cases ev <;> simp [lastUpdate, ih]

theorem run_healthy (st : St) (evs : List Ev) (hb : st.blocked = false) (he : st.exited = false)
    (hev : ∀ ev ∈ evs, ev ≠ .closed) (h : AllReady st) :
    (run st evs).blocked = false ∧ (run st evs).exited = false ∧ AllReady (run st evs) ∧
    (run st evs).latest = lastUpdate st.latest evs := by
  induction evs generalizing st with
  | nil => exact ⟨hb, he, h, rfl⟩
  | cons ev rest ih =>
    obtain ⟨h1, h2, h3, h4⟩ := turn_healthy st ev hb he (hev ev (by simp)) h
    have := ih (turn st ev) h1 h2 (fun e he' => hev e (by simp [he'])) h3
    simp only [run, List.foldl_cons] at this ⊢
    refine ⟨this.1, this.2.1, this.2.2.1, ?_⟩
    rw [this.2.2.2, h4]
    exact (lastUpdate_append st.latest [ev] rest).symm

def updateOf : Ev → Option (List Addr)
  | .update a => some a
  | _ => none

theorem lastUpdate_filterMap (l : List Addr) (evs : List Ev) :
    lastUpdate l evs = ((evs.filterMap updateOf).getLast?).getD l := by
  induction evs generalizing l with
  | nil => rfl
  | cons ev r ih =>
    cases ev with
    | update a =>
      simp only [lastUpdate, List.filterMap_cons, updateOf, ih]
      cases hr : (r.filterMap updateOf) with
      | nil => simp
      | cons x xs =>
        simp only [List.getLast?_cons_cons]
        cases hl : (x :: xs).getLast? with
        | none => simp at hl
        | some v => rfl
    | tick => simp [lastUpdate, updateOf, ih]
    | unsub id => simp [lastUpdate, updateOf, ih]
    | closed => simp [lastUpdate, updateOf, ih]

end Eru.Misc.Helium
