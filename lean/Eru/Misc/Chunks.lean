import Eru.Basic.Outcome
/-
Model of rpc/transform.go:toSendLargeFileChunks (after the `fix:` commit that sends an empty
file as one empty chunk).

    for idx := 0; idx < len(content) || idx == 0; idx += size {
        if idx+size > len(content) { chunk = content[idx:] } else { chunk = content[idx:idx+size] }
    }

Looking at the remaining suffix `c = content[idx:]`: the chunk is `c` itself when
`len c ≤ size` (then the loop ends) and `c.take size` otherwise (then the loop continues
with `c.drop size`).  With `size = 0` the Go loop never advances: `.diverge`.
Core only.
-/
namespace Eru.Misc.Chunks

def toChunks {α : Type} (size : Nat) (h : 0 < size) (c : List α) : List (List α) :=
  if hc : c.length ≤ size then [c]
  else c.take size :: toChunks size h (c.drop size)
termination_by c.length
decreasing_by simp [List.length_drop]; omega

/-- the Go function: diverges for a non-positive chunk size -/
def toChunksO {α : Type} (size : Nat) (c : List α) : Eru.Outcome (List (List α)) :=
  if h : 0 < size then .ok (toChunks size h c) else .diverge

/-- metadata attached to every chunk message (`types.SendLargeFileOptions`) -/
structure FileMeta where
  ids : List String
  dst : String
  size : Nat
  mode : Int
  uid : Int
  gid : Int
  deriving Repr, DecidableEq

structure Msg (α : Type) where
  md : FileMeta
  chunk : List α
  deriving Repr

def toMsgs {α : Type} (size : Nat) (h : 0 < size) (m : FileMeta) (c : List α) : List (Msg α) :=
  (toChunks size h c).map (fun ch => { md := { m with size := c.length }, chunk := ch })

end Eru.Misc.Chunks
