import Eru.Misc.Docker
import Mathlib.Tactic.Linarith
import Mathlib.Tactic.Positivity
import Mathlib.Tactic.FieldSimp
import Mathlib.Tactic.Ring
import Mathlib.Algebra.Order.Field.Power
import Mathlib.Data.Rat.Floor
/- Accuracy of the software float (F64.lean) and of the docker quota / shares computed with it. -/
namespace Eru.Misc.F64

theorem pow2_eq_zpow (e : Int) : pow2 e = (2 : ℚ) ^ e := by
  unfold pow2
  split
  next h =>
    obtain ⟨n, rfl⟩ := Int.eq_ofNat_of_zero_le h
    simp
  next h =>
    have hneg : e < 0 := by omega
    obtain ⟨n, rfl⟩ : ∃ n : ℕ, e = -(n : ℤ) := ⟨(-e).toNat, by omega⟩
    simp [zpow_neg]

theorem pow2_pos (e : Int) : 0 < pow2 e := by rw [pow2_eq_zpow]; positivity

theorem pow2_add (a b : Int) : pow2 (a + b) = pow2 a * pow2 b := by
  simp only [pow2_eq_zpow]; exact zpow_add₀ (by norm_num) a b

theorem pow2_neg_mul (e : Int) : pow2 (-e) * pow2 e = 1 := by
  rw [← pow2_add]; simp [pow2_eq_zpow]

theorem pow2_lt_iff (a b : Int) : pow2 a < pow2 b ↔ a < b := by
  simp only [pow2_eq_zpow]; exact zpow_lt_zpow_iff_right₀ (by norm_num)

theorem absR_eq_abs (x : ℚ) : Eru.Misc.Docker.absR x = |x| := by
  unfold Eru.Misc.Docker.absR
  split
  next h => rw [abs_of_neg h]
  next h => rw [abs_of_nonneg (not_lt.mp h)]

/-- nearest-even rounding is within one half -/
theorem roundHalfEven_err (m : ℚ) : |((roundHalfEven m : ℤ) : ℚ) - m| ≤ 1 / 2 := by
  have h1 := Rat.floor_le m
  have h2 := Rat.lt_floor_add_one m
  push_cast at h2
  unfold roundHalfEven
  simp only
  split
  next h => rw [abs_le]; constructor <;> linarith
  next h =>
    split
    next h' => push_cast; rw [abs_le]; constructor <;> linarith
    next h' =>
      have : m - (m.floor : ℚ) = 1 / 2 := le_antisymm (not_lt.mp h') (not_lt.mp h)
      split
      · rw [abs_le]; constructor <;> linarith
      · push_cast; rw [abs_le]; constructor <;> linarith

/-- `math.Round` is within one half -/
theorem roundAway_err (x : ℚ) : |((roundAway x : ℤ) : ℚ) - x| ≤ 1 / 2 := by
  unfold roundAway
  split
  next h =>
    have h1 := Rat.floor_le (-x + 1 / 2)
    have h2 := Rat.lt_floor_add_one (-x + 1 / 2)
    push_cast at h2 ⊢
    rw [abs_le]; constructor <;> linarith
  next h =>
    have h1 := Rat.floor_le (x + 1 / 2)
    have h2 := Rat.lt_floor_add_one (x + 1 / 2)
    push_cast at h2
    rw [abs_le]; constructor <;> linarith

/-- the two sides of `Nat.log2` as rational inequalities on a positive rational -/
theorem log2_bounds (q : ℚ) (hq : 0 < q) :
    pow2 ((Nat.log2 q.num.toNat : ℤ) - (Nat.log2 q.den : ℤ) - 1) < q ∧
    q < pow2 ((Nat.log2 q.num.toNat : ℤ) - (Nat.log2 q.den : ℤ) + 1) := by
  have hnum : 0 < q.num := Rat.num_pos.mpr hq
  have hn0 : q.num.toNat ≠ 0 := by omega
  have hd0 : q.den ≠ 0 := q.den_nz
  have a1 : 2 ^ Nat.log2 q.num.toNat ≤ q.num.toNat := Nat.log2_self_le hn0
  have a2 : q.num.toNat < 2 ^ (Nat.log2 q.num.toNat + 1) := Nat.lt_log2_self
  have b1 : 2 ^ Nat.log2 q.den ≤ q.den := Nat.log2_self_le hd0
  have b2 : q.den < 2 ^ (Nat.log2 q.den + 1) := Nat.lt_log2_self
  set a := Nat.log2 q.num.toNat
  set b := Nat.log2 q.den
  have hqeq : q = (q.num.toNat : ℚ) / (q.den : ℚ) := by
    have : ((q.num.toNat : ℤ) : ℚ) = (q.num : ℚ) := by rw [Int.toNat_of_nonneg hnum.le]
    rw [← Int.cast_natCast, this]; exact (Rat.num_div_den q).symm
  have A1 : (2 : ℚ) ^ a ≤ (q.num.toNat : ℚ) := by exact_mod_cast a1
  have A2 : (q.num.toNat : ℚ) < (2 : ℚ) ^ (a + 1) := by exact_mod_cast a2
  have B1 : (2 : ℚ) ^ b ≤ (q.den : ℚ) := by exact_mod_cast b1
  have B2 : (q.den : ℚ) < (2 : ℚ) ^ (b + 1) := by exact_mod_cast b2
  have hden : (0 : ℚ) < (q.den : ℚ) := by exact_mod_cast Nat.pos_of_ne_zero hd0
  have pa : (0 : ℚ) < (2 : ℚ) ^ a := by positivity
  have pb : (0 : ℚ) < (2 : ℚ) ^ b := by positivity
  constructor
  · -- 2^(a-b-1) = 2^a / 2^(b+1) < num / den
    have e : pow2 ((a : ℤ) - (b : ℤ) - 1) = (2 : ℚ) ^ a / (2 : ℚ) ^ (b + 1) := by
      rw [pow2_eq_zpow, show ((a : ℤ) - (b : ℤ) - 1) = (a : ℤ) - ((b + 1 : ℕ) : ℤ) by push_cast; ring,
        zpow_sub₀ (by norm_num), zpow_natCast, zpow_natCast]
    rw [e, hqeq, div_lt_div_iff₀ (by positivity) hden]
    calc (2 : ℚ) ^ a * (q.den : ℚ) < (2 : ℚ) ^ a * (2 : ℚ) ^ (b + 1) := by
          exact mul_lt_mul_of_pos_left B2 pa
      _ ≤ (q.num.toNat : ℚ) * (2 : ℚ) ^ (b + 1) := by
          exact mul_le_mul_of_nonneg_right A1 (by positivity)
  · have e : pow2 ((a : ℤ) - (b : ℤ) + 1) = (2 : ℚ) ^ (a + 1) / (2 : ℚ) ^ b := by
      rw [pow2_eq_zpow, show ((a : ℤ) - (b : ℤ) + 1) = ((a + 1 : ℕ) : ℤ) - (b : ℤ) by push_cast; ring,
        zpow_sub₀ (by norm_num), zpow_natCast, zpow_natCast]
    rw [e, hqeq, div_lt_div_iff₀ hden pb]
    calc (q.num.toNat : ℚ) * (2 : ℚ) ^ b < (2 : ℚ) ^ (a + 1) * (2 : ℚ) ^ b := by
          exact mul_lt_mul_of_pos_right A2 pb
      _ ≤ (2 : ℚ) ^ (a + 1) * (q.den : ℚ) := by
          exact mul_le_mul_of_nonneg_left B1 (by positivity)

/-- `floorLog2` is the floor of the binary logarithm -/
theorem floorLog2_spec (q : ℚ) (hq : 0 < q) : pow2 (floorLog2 q) ≤ q ∧ q < pow2 (floorLog2 q + 1) := by
  obtain ⟨lo, hi⟩ := log2_bounds q hq
  unfold floorLog2
  simp only
  set k : ℤ := (Nat.log2 q.num.toNat : ℤ) - (Nat.log2 q.den : ℤ)
  split
  next h1 =>
    split
    next h2 =>
      -- impossible branch: q < 2^(k+1)
      exact absurd h2 (not_le.mpr hi)
    next h2 => exact ⟨h1, not_le.mp h2⟩
  next h1 =>
    refine ⟨lo.le, ?_⟩
    rw [show k - 1 + 1 = k by ring]
    exact not_le.mp h1

theorem floorLog2_ge (q : ℚ) (hq : 0 < q) (n : ℤ) (h : pow2 n ≤ q) : n ≤ floorLog2 q := by
  have := (floorLog2_spec q hq).2
  have : pow2 n < pow2 (floorLog2 q + 1) := lt_of_le_of_lt h this
  rw [pow2_lt_iff] at this
  omega

/-- **Rounding error of one float operation** (normal range): the nearest double of a positive
rational `q ≥ 2^-1022` differs from `q` by at most `q·2⁻⁵³`. -/
theorem roundPos_err (q : ℚ) (hq : 0 < q) (hn : pow2 (-1022) ≤ q) : |roundPos q - q| ≤ q / 2 ^ 53 := by
  have hfl := floorLog2_ge q hq (-1022) hn
  obtain ⟨hlo, _⟩ := floorLog2_spec q hq
  unfold roundPos
  have hq' : ¬ q ≤ 0 := not_le.mpr hq
  simp only [hq', if_false]
  have he : ¬ (floorLog2 q - 52 < -1074) := by omega
  simp only [he, if_false]
  set e := floorLog2 q - 52
  set m := q * pow2 (-e)
  have hpe := pow2_pos e
  have hm : m * pow2 e = q := by
    show q * pow2 (-e) * pow2 e = q
    rw [mul_assoc, pow2_neg_mul, mul_one]
  have herr := roundHalfEven_err m
  have : ((roundHalfEven m : ℤ) : ℚ) * pow2 e - q = (((roundHalfEven m : ℤ) : ℚ) - m) * pow2 e := by
    rw [sub_mul, hm]
  rw [this, abs_mul, abs_of_pos hpe]
  have h53 : pow2 e = pow2 (floorLog2 q) / 2 ^ 52 := by
    show pow2 (floorLog2 q - 52) = _
    rw [sub_eq_add_neg, pow2_add, pow2_eq_zpow (-52), zpow_neg]
    norm_num [div_eq_mul_inv]
  calc |((roundHalfEven m : ℤ) : ℚ) - m| * pow2 e ≤ 1 / 2 * pow2 e := by
        exact mul_le_mul_of_nonneg_right herr hpe.le
    _ = pow2 (floorLog2 q) / 2 ^ 53 := by rw [h53]; ring
    _ ≤ q / 2 ^ 53 := by exact div_le_div_of_nonneg_right hlo (by positivity)

end Eru.Misc.F64

namespace Eru.Misc.Docker
open Eru.Misc.F64

/-- one multiplication followed by `math.Round`: within 1/2 + p·2⁻⁵³ of the exact product -/
theorem round_mul_err (x y : ℚ) (hp : 0 < x * y) (hn : pow2 (-1022) ≤ x * y) :
    |((roundAway (mul x y) : ℤ) : ℚ) - x * y| ≤ 1 / 2 + x * y / 2 ^ 53 := by
  have hmul : mul x y = roundPos (x * y) := by
    unfold mul roundF64
    simp [not_lt.mpr hp.le]
  have h1 := roundAway_err (mul x y)
  have h2 := roundPos_err (x * y) hp hn
  rw [← hmul] at h2
  calc |((roundAway (mul x y) : ℤ) : ℚ) - x * y|
      = |(((roundAway (mul x y) : ℤ) : ℚ) - mul x y) + (mul x y - x * y)| := by ring_nf
    _ ≤ |((roundAway (mul x y) : ℤ) : ℚ) - mul x y| + |mul x y - x * y| := abs_add_le _ _
    _ ≤ 1 / 2 + x * y / 2 ^ 53 := add_le_add h1 h2

/-- a cpu limit below 10^7 cores keeps the float product far inside the int64 range -/
theorem quota_in_range (cpu : ℚ) (hc : 0 < cpu) (hn : pow2 (-1022) ≤ cpu * 100000) (hb : cpu < 10000000) :
    mul cpu 100000 < 9223372036854775808 := by
  have hp : 0 < cpu * 100000 := by positivity
  have hmul : mul cpu 100000 = roundPos (cpu * 100000) := by
    unfold mul roundF64
    simp [not_lt.mpr hp.le]
  have h2 := roundPos_err (cpu * 100000) hp hn
  rw [← hmul] at h2
  have h3 := (abs_le.mp h2).2
  have h4 : cpu * 100000 / 2 ^ 53 ≤ cpu * 100000 := by
    apply div_le_self hp.le; norm_num
  linarith

theorem quotaOf_eq (cpu : ℚ) (hc : 0 < cpu) (hn : pow2 (-1022) ≤ cpu * 100000) (hb : cpu < 10000000) :
    quotaOf cpu = roundAway (mul cpu 100000) := by
  unfold quotaOf int64OfRounded
  simp [quota_in_range cpu hc hn hb]

/-- **Quota accuracy.** For a positive cpu limit below 10^7 cores (product in the normal float range,
int64 conversion in range) the quota is the limit times the period rounded to the nearest unit. -/
theorem quotaOf_near (cpu : ℚ) (hc : 0 < cpu) (hn : pow2 (-1022) ≤ cpu * 100000) (hb : cpu < 10000000) :
    QuotaNear (quotaOf cpu) cpu := by
  rw [quotaOf_eq cpu hc hn hb]
  unfold QuotaNear
  rw [absR_eq_abs]
  have hp : 0 < cpu * 100000 := by positivity
  have := round_mul_err cpu 100000 hp hn
  have h2 : cpu * 100000 / 2 ^ 53 ≤ cpu * 100000 / 4503599627370496 := by
    apply div_le_div_of_nonneg_left hp.le (by norm_num) (by norm_num)
  linarith

/-- … hence exact on the decimal grid: if the (float) limit times the period is within 1/4 of an
integer `k` (true for every decimal limit with up to five decimals) and the limit is below 10^7 cores,
the quota is `k`. -/
theorem quotaOf_exact (cpu : ℚ) (k : ℤ) (hc : 0 < cpu) (hn : pow2 (-1022) ≤ cpu * 100000)
    (hk : |cpu * 100000 - (k : ℚ)| ≤ 1 / 4) (hlt7 : cpu < 10000000) : quotaOf cpu = k := by
  have hp : 0 < cpu * 100000 := by positivity
  have hb : cpu * 100000 ≤ 2 ^ 50 := by
    have : cpu * 100000 < 10000000 * 100000 := by nlinarith
    have h2 : (10000000 : ℚ) * 100000 ≤ 2 ^ 50 := by norm_num
    linarith
  have hq := quotaOf_eq cpu hc hn hlt7
  have h1 := round_mul_err cpu 100000 hp hn
  have h3 : cpu * 100000 / 2 ^ 53 ≤ 1 / 8 := by
    rw [div_le_iff₀ (by positivity)]; calc cpu * 100000 ≤ 2 ^ 50 := hb
      _ = 1 / 8 * 2 ^ 53 := by norm_num
  have hlt : |((quotaOf cpu : ℤ) : ℚ) - (k : ℚ)| < 1 := by
    rw [hq]
    calc |((roundAway (mul cpu 100000) : ℤ) : ℚ) - (k : ℚ)|
        = |(((roundAway (mul cpu 100000) : ℤ) : ℚ) - cpu * 100000) + (cpu * 100000 - (k : ℚ))| := by ring_nf
      _ ≤ |((roundAway (mul cpu 100000) : ℤ) : ℚ) - cpu * 100000| + |cpu * 100000 - (k : ℚ)| := abs_add_le _ _
      _ ≤ (1 / 2 + cpu * 100000 / 2 ^ 53) + 1 / 4 := add_le_add h1 hk
      _ < 1 := by linarith
  have : |((quotaOf cpu - k : ℤ) : ℚ)| < 1 := by push_cast; exact hlt
  have h0 : quotaOf cpu - k = 0 := by
    rw [← Int.cast_abs] at this
    have : |quotaOf cpu - k| < 1 := by exact_mod_cast this
    exact Int.abs_lt_one_iff.mp this
  omega

/-- **Shares proportional to the fractional core.** -/
theorem sharesOfFrac_near (cpu : ℚ) (hf : 0 < frac cpu) (hn : pow2 (-1022) ≤ 1024 * frac cpu) :
    SharesNear (sharesOfFrac cpu) cpu := by
  unfold SharesNear sharesOfFrac
  simp only [gt_iff_lt, hf, if_true]
  rw [absR_eq_abs]
  have hp : 0 < 1024 * frac cpu := by positivity
  have := round_mul_err 1024 (frac cpu) hp hn
  have h2 : 1024 * frac cpu / 2 ^ 53 ≤ 1024 * frac cpu / 4503599627370496 := by
    apply div_le_div_of_nonneg_left hp.le (by norm_num) (by norm_num)
  linarith

end Eru.Misc.Docker
