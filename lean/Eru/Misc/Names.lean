/-
Model of utils/utils.go:MakeWorkloadName / ParseWorkloadName and of the Go string
functions they use (strings.Split / Join / TrimLeft with one-character arguments).
Strings are `List Char` so that the theorems can be proved by structural induction;
the oracle converts at the boundary.  Core only.
-/
namespace Eru.Misc.Names

abbrev Str := List Char

/-- `strings.Split(s, string(sep))` for a one-character separator: never empty -/
def splitOn (sep : Char) : Str → List Str
  | [] => [[]]
  | c :: cs =>
    if c = sep then [] :: splitOn sep cs
    else match splitOn sep cs with
      | h :: t => (c :: h) :: t
      | [] => [[c]]

/-- `strings.Join(parts, string(sep))` -/
def joinWith (sep : Char) : List Str → Str
  | [] => []
  | [x] => x
  | x :: y :: r => x ++ sep :: joinWith sep (y :: r)

/-- `strings.TrimLeft(s, "/")` -/
def trimLeft (ch : Char) : Str → Str
  | [] => []
  | c :: cs => if c = ch then trimLeft ch cs else c :: cs

/-- MakeWorkloadName: `strings.Join([]string{appname, entrypoint, ident}, "_")` -/
def makeName (app entry ident : Str) : Str := joinWith '_' [app, entry, ident]

/-- ParseWorkloadName; `none` = ErrInvalidWorkloadName -/
def parseName (name : Str) : Option (Str × Str × Str) :=
  let splits := splitOn '_' (trimLeft '/' name)
  let n := splits.length
  if n ≥ 3 then
    match splits.drop (n - 2) with
    | [e, i] => some (joinWith '_' (splits.take (n - 2)), e, i)
    | _ => none
  else none

/-- the alphabet of `utils.RandomString` (constant `letters` in utils/utils.go), from which
cluster/calcium/create.go draws the 6-character workload-name suffix; the harness re-reads the
constant from the source on every run and the oracle compares it with this definition -/
def suffixLetters : Str := "abcdefghijklmnopqrstuvwxyzABCDEFGHIJKLMNOPQRSTUVWXYZ".toList

/-- what ParseWorkloadName needs from the suffix alphabet: no '_' (the name is split on '_' and the
last two fields are taken as entrypoint and suffix) -/
def SuffixAlphabetOK (alpha : Str) : Prop := '_' ∉ alpha
instance (alpha : Str) : Decidable (SuffixAlphabetOK alpha) := by unfold SuffixAlphabetOK; infer_instance

/-- names the request validation accepts (types/options.go DeployOptions.Validate,
types/specs.go Entrypoint.Validate, AddNodeOptions.Validate): application and node names are
any non-empty strings, entrypoint names are non-empty and contain no '_' -/
def Accepted (app entry node : Str) : Prop := app ≠ [] ∧ entry ≠ [] ∧ '_' ∉ entry ∧ node ≠ []
instance (a e n : Str) : Decidable (Accepted a e n) := by unfold Accepted; infer_instance

end Eru.Misc.Names
