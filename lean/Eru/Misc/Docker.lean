import Eru.Misc.F64
/-
Model of engine/docker/helper.go:makeResourceSetting and of the resource part of
engine/docker/container.go:VirtualizationCreate / VirtualizationUpdateResource
(after the two `fix:` commits: quota rounded with math.Round; an unbound workload keeps
its quota on update).  A float64 is the exact rational it denotes (F64.lean); a Go map
`cpu_map` is the list of its keys (values are irrelevant to the settings); the comma
joined `CpusetCpus` string (map iteration order!) is compared as a set of ids.
Core only.
-/
namespace Eru.Misc.Docker
open Eru.Misc

def cpuPeriodBase : Int := 100000
def defaultCPUShare : Int := 1024
def minMemory : Int := 4 * 1024 * 1024
def maxMemory : Int := 9223372036854775807

/-- the engine-params record handed to the engine (`engine.VirtualizationResource`, cpumem part) -/
structure Params where
  cpu : Rat            -- `cpu`  : cpu limit (0 = unlimited, -1 = explicit unlimited)
  memory : Int         -- `memory`: memory limit in bytes (0 = unlimited)
  cores : List String  -- keys of `cpu_map` (empty = not bound)
  numa : String        -- `numa_node`
  remap : Bool         -- `remap`
  deriving Repr, DecidableEq

/-- the fields of docker's `container.Resources` the property talks about -/
structure Res where
  quota : Int
  period : Int
  shares : Int
  cpuset : List String
  mems : String
  memory : Int
  swap : Int
  reservation : Int
  deriving Repr, DecidableEq

/-- Go's `int64(x)` for an integral float `x ≥ 0`: exact below 2^63; at or above it the result is
implementation specific — amd64 yields the "integer indefinite" value MinInt64, which is what the
model returns, so that no theorem can silently rely on an unbounded integer -/
def int64OfRounded (x : Rat) : Int :=
  if x < 9223372036854775808 then F64.roundAway x else -9223372036854775808

/-- `int64(math.Round(cpu * float64(CPUPeriodBase)))` -/
def quotaOf (cpu : Rat) : Int := int64OfRounded (F64.mul cpu 100000)

/-- `int64(math.Round(float64(1024) * divpart))` with `_, divpart := math.Modf(cpu)` -/
def sharesOfFrac (cpu : Rat) : Int := F64.roundAway (F64.mul 1024 (F64.frac cpu))

/-- Go's `memory / 2` (truncated) -/
def half (m : Int) : Int := Int.tdiv m 2

def makeResourceSetting (cpu : Rat) (memory : Int) (cores : List String) (numa : String) (remap : Bool) : Res :=
  let quota0 : Int := if cpu > 0 then quotaOf cpu else if cpu = -1 then -1 else 0
  let bound := !cores.isEmpty
  let quota := if bound && !remap then -1 else quota0
  let shares :=
    if bound then
      if remap then 1024
      else if F64.frac cpu > 0 then sharesOfFrac cpu else defaultCPUShare
    else defaultCPUShare
  let resv := if memory ≠ 0 ∧ half memory < minMemory then minMemory else half memory
  { quota := quota, period := cpuPeriodBase, shares := shares,
    cpuset := if bound then cores else [], mems := if bound then numa else "",
    memory := memory, swap := memory, reservation := resv }

inductive Result where
  | ok (r : Res)
  | errInvalidMemory
  deriving Repr, DecidableEq

def memoryRejected (m : Int) : Bool := (m > 0 && m < minMemory) || m < 0

/-- resource part of VirtualizationCreate -/
def create (p : Params) : Result :=
  if memoryRejected p.memory then .errInvalidMemory
  else .ok (makeResourceSetting p.cpu p.memory p.cores p.numa false)

/-- "0","1",…,"n-1" (`strconv.Itoa`) -/
def allCores (ncpu : Nat) : List String := (List.range ncpu).map (fun i => toString i)

/-- VirtualizationUpdateResource (no volumes); `ncpu` = `Info().NCPU` -/
def update (p : Params) (ncpu : Nat) : Result :=
  if memoryRejected p.memory then .errInvalidMemory else
  let memory := if p.memory = 0 then maxMemory else p.memory
  let unbound := p.cores.isEmpty
  let defaulting := p.cpu = 0 || p.cores.isEmpty
  let cores := if defaulting then allCores ncpu else p.cores
  let quota : Rat := if defaulting && p.cpu = 0 then -1 else p.cpu
  let numa := if defaulting && p.cpu = 0 then "" else p.numa
  .ok (makeResourceSetting quota memory cores numa (p.remap || unbound))

end Eru.Misc.Docker

/-! ## Specification (decidable; evaluated by the oracle on the implementation's output and
the subject of the theorems in `Eru/Props/C31.lean`) -/
namespace Eru.Misc.Docker
open Eru.Misc

/-- engine params the resource plugin can produce: non-negative limits, a bound record has a
positive cpu limit, distinct core ids, a NUMA node only together with a cpu map -/
def Valid (p : Params) : Prop :=
  0 ≤ p.cpu ∧ (p.cores ≠ [] → 0 < p.cpu) ∧ 0 ≤ p.memory ∧ p.cores.Nodup ∧ (p.cores = [] → p.numa = "")
instance (p : Params) : Decidable (Valid p) := by unfold Valid; infer_instance

def sameSet (a b : List String) : Bool := a.all (b.contains ·) && b.all (a.contains ·)

def absR (x : Rat) : Rat := if x < 0 then -x else x

/-- quota/period equals the cpu limit to the nearest quota unit (plus one float rounding of the product) -/
def QuotaNear (quota : Int) (cpu : Rat) : Prop :=
  absR ((quota : Rat) - cpu * 100000) ≤ 1/2 + cpu * 100000 / 4503599627370496
instance (q : Int) (c : Rat) : Decidable (QuotaNear q c) := by unfold QuotaNear; infer_instance

/-- shares proportional to the fractional core -/
def SharesNear (shares : Int) (cpu : Rat) : Prop :=
  if F64.frac cpu > 0 then absR ((shares : Rat) - 1024 * F64.frac cpu) ≤ 1/2 + 1024 * F64.frac cpu / 4503599627370496
  else shares = 1024
instance (s : Int) (c : Rat) : Decidable (SharesNear s c) := by unfold SharesNear; infer_instance

inductive Op | create | update deriving DecidableEq, Repr

/-- the violated clauses of C31 for allocation `p` and applied settings `r` -/
def violations (op : Op) (p : Params) (ncpu : Nat) (r : Res) : List String :=
  let bound := !p.cores.isEmpty && !(p.remap && op == .update)
  let pinned := !p.cores.isEmpty
  let wantSet : List String := if pinned then p.cores else if op == .update then allCores ncpu else []
  let wantMem : Int := if p.memory = 0 ∧ op = .update then maxMemory else p.memory
  (if sameSet r.cpuset wantSet then [] else ["cpuset"]) ++
  (if r.mems = (if pinned then p.numa else "") then [] else ["mems"]) ++
  (if bound then (if r.quota = -1 then [] else ["quota-bound"])
   else if p.cpu > 0 then (if QuotaNear r.quota p.cpu then [] else ["quota-unbound"])
   else (if r.quota = (if op = .update then -1 else 0) then [] else ["quota-unlimited"])) ++
  (if bound then (if SharesNear r.shares p.cpu then [] else ["shares"])
   else (if r.shares = 1024 then [] else ["shares-unbound"])) ++
  (if r.memory = wantMem ∧ r.swap = wantMem then [] else ["memory"]) ++
  (if r.period = cpuPeriodBase then [] else ["period"])

def run (op : Op) (p : Params) (ncpu : Nat) : Result :=
  match op with | .create => create p | .update => update p ncpu

end Eru.Misc.Docker
