/-
Model of cluster/calcium/sendlarge.go (SendLargeFile + newWorkloadSender, after the `fix:`
commits: a duplicated target id is fed once; the copier closes the pipe reader when it is done;
the sender keeps draining its buffer after a failure) as a transition system.

Per target id (created on its first chunk) there are two goroutines:
  * the *sender*: `for data := range buffer { …; writer.Write(data.Chunk) }; writer.Close(); drain`
  * the *copier*: `withWorkloadLocked(id, engine.VirtualizationCopyChunkTo(pipeReader)); resp <- msg; pr.Close(); wg.Done()`
plus the single *producer* loop that pushes every chunk into the buffer (capacity 10) of every
target, closes the buffers and waits for the wait group.  The consumer of `resp` is always ready.

`io.Pipe`: a Write hands its bytes to concurrent Reads and returns when all bytes are taken
(at least one hand-off even for an empty slice) or fails once the reader is closed; a Read
returns EOF once the writer is closed.

The engine of a target is scripted by `Beh`: workload missing (lock/get fails, engine never
called), or the engine reads at most `limit` bytes (none = until EOF) and then returns
success or an error.  One file per call (all chunks carry the same Dst).  Core only.
-/
namespace Eru.Misc.Sender

abbrev Byte := Nat

/-- the arguments of `VirtualizationCopyChunkTo` besides the content: every chunk message carries
them (`types.SendLargeFileOptions{Dst, Size, Mode, UID, GID}`) -/
structure CopyArgs where
  dst : String
  size : Nat
  mode : Int
  uid : Int
  gid : Int
  deriving Repr, DecidableEq

/-- one message of the input stream as seen by one target -/
structure Msg where
  md : CopyArgs
  chunk : List Byte
  deriving Repr, DecidableEq

structure Beh where
  missing : Bool
  limit : Option Nat
  fail : Bool
  deriving Repr, DecidableEq

inductive SSt where
  | recv                                  -- blocked in `range buffer`
  | write (pending : List Byte) (once : Bool)  -- inside writer.Write
  | drain                                 -- after a failed Write: `for range buffer {}`
  | exit
  deriving Repr, DecidableEq

inductive CSt where
  | none                                  -- not started (no chunk seen yet)
  | lock                                  -- in withWorkloadLocked, before the engine call
  | read (left : Option Nat)              -- engine is reading the pipe
  | report (isErr : Bool)                 -- resp <- message
  | close                                 -- deferred pr.Close(); wg.Done()
  | done
  deriving Repr, DecidableEq

structure Target where
  created : Bool := false                 -- the producer has created this sender (`wg.Add(1)`)
  buf : List Msg := []
  bufClosed : Bool := false
  snd : SSt := .recv
  cop : CSt := .none
  wClosed : Bool := false
  rClosed : Bool := false
  args : Option CopyArgs := none          -- arguments of the engine call (taken from the first message)
  got : List Byte := []                   -- bytes the engine has read
  results : List Bool := []               -- messages sent on resp for this id (isErr)
  deriving Repr, DecidableEq

def bufCap : Nat := 10

/-- producer: `sender.send(chunk)` (blocks while the buffer is full) -/
def Target.push (t : Target) (ch : Msg) : Option Target :=
  if t.buf.length < bufCap then some { t with buf := t.buf ++ [ch], created := true } else none

/-- producer: `close(buffer)` -/
def Target.closeBuf (t : Target) : Target := { t with bufClosed := true }

/-- one step of the sender goroutine; `none` = blocked (or finished) -/
def Target.sndStep (t : Target) : Option Target :=
  match t.snd with
  | .recv =>
    match t.buf with
    | m :: rest =>
      -- `if curFile != "" && curFile != data.Dst { break }`: a message of a different file ends the loop
      -- (the message is dropped, the writer closed, the buffer drained): a sender serves ONE file
      if t.cop ≠ .none ∧ (t.args.map (·.dst)) ≠ some m.md.dst then
        some { t with buf := rest, snd := .drain, wClosed := true }
      else
      some { t with buf := rest, snd := .write m.chunk true, cop := if t.cop = .none then .lock else t.cop,
                    args := if t.cop = .none then some m.md else t.args }
    | [] => if t.bufClosed then some { t with snd := .exit, wClosed := true } else none
  | .write pending once =>
    if t.rClosed then some { t with snd := .drain, wClosed := true }       -- io.ErrClosedPipe
    else if !once && pending.isEmpty then some { t with snd := .recv }      -- Write returned
    else none                                                                -- waits for a Read
  | .drain =>
    match t.buf with
    | _ :: rest => some { t with buf := rest }
    | [] => if t.bufClosed then some { t with snd := .exit } else none
  | .exit => none

def minOpt (n : Nat) : Option Nat → Nat
  | none => n
  | some k => min n k

def subOpt : Option Nat → Nat → Option Nat
  | none, _ => none
  | some k, n => some (k - n)

/-- one step of the copier goroutine; `none` = blocked (or finished) -/
def Target.copStep (b : Beh) (t : Target) : Option Target :=
  match t.cop with
  | .none => none
  | .lock => if b.missing then some { t with cop := .report true } else some { t with cop := .read b.limit }
  | .read left =>
    if left = some 0 then some { t with cop := .report b.fail }             -- engine stops reading
    else
      match t.snd with
      | .write pending once =>
        if once || !pending.isEmpty then
          let k := minOpt pending.length left
          some { t with got := t.got ++ pending.take k, snd := .write (pending.drop k) false, cop := .read (subOpt left k) }
        else if t.wClosed then some { t with cop := .report b.fail } else none
      | _ => if t.wClosed then some { t with cop := .report b.fail } else none   -- EOF
  | .report e => some { t with results := t.results ++ [e], cop := .close }
  | .close => some { t with rClosed := true, cop := .done }
  | .done => none

/-- whole call -/
structure State where
  todo : List (Nat × Msg)                 -- remaining `senders[id].send(data)` calls (target index, message)
  closed : Bool                           -- buffers closed, producer in wg.Wait()
  ts : List Target
  deriving Repr, DecidableEq

inductive Action where
  | prod
  | snd (i : Nat)
  | cop (i : Nat)
  deriving Repr, DecidableEq

def step (behs : List Beh) (s : State) : Action → Option State
  | .prod =>
    match s.todo with
    | (i, ch) :: rest =>
      match s.ts[i]? with
      | some t => (t.push ch).map fun t' => { s with todo := rest, ts := s.ts.set i t' }
      | none => none
    | [] => if s.closed then none else some { s with closed := true, ts := s.ts.map Target.closeBuf }
  | .snd i =>
    match s.ts[i]? with
    | some t => t.sndStep.map fun t' => { s with ts := s.ts.set i t' }
    | none => none
  | .cop i =>
    match s.ts[i]?, behs[i]? with
    | some t, some b => (t.copStep b).map fun t' => { s with ts := s.ts.set i t' }
    | _, _ => none

/-- `resp` is closed: every buffer is closed and the wait group is at zero (`wg.Add(1)` when a
sender is created, `wg.Done()` when its copier has finished) -/
def final (s : State) : Bool := s.closed && s.ts.all fun t => !t.created || t.cop = .done

/-- no goroutine of the call is left behind -/
def quiescent (s : State) : Bool := final s && s.ts.all fun t => t.snd = .exit || !t.created

def actions (n : Nat) : List Action :=
  Action.prod :: ((List.range n).map Action.snd ++ (List.range n).map Action.cop)

/-- the per-message de-duplication of the target list (`seen` map in SendLargeFile, fix D21b):
first occurrences, in order -/
def dedup : List Nat → List Nat
  | [] => []
  | x :: r => x :: (dedup r).filter (· ≠ x)

/-- `SendLargeFile` on a stream of messages, each with its own target list (indices into the `n`
known targets, duplicates allowed; several files with different target lists may follow one another
on one stream): the producer's schedule of pushes -/
def initStateM (n : Nat) (stream : List (List Nat × Msg)) : State :=
  { todo := stream.flatMap fun (ids, m) => (dedup ids).map fun i => (i, m),
    closed := false, ts := List.replicate n {} }

/-- one file: every message carries the same target list -/
def initState (n : Nat) (ids : List Nat) (msgs : List Msg) : State :=
  { todo := msgs.flatMap fun m => (dedup ids).map fun i => (i, m),
    closed := false, ts := List.replicate n {} }

theorem initState_eq (n : Nat) (ids : List Nat) (msgs : List Msg) :
    initState n ids msgs = initStateM n (msgs.map fun m => (ids, m)) := by
  simp [initState, initStateM, List.flatMap_map]

/-- run with the scheduler "first enabled action" until nothing is enabled (fuel-bounded) -/
def run (behs : List Beh) : Nat → State → State
  | 0, s => s
  | f + 1, s =>
    match (actions s.ts.length).findSome? (step behs s) with
    | some s' => run behs f s'
    | none => s

/-- run with the reversed priority (copiers first), used to cross-check schedule independence -/
def runRev (behs : List Beh) : Nat → State → State
  | 0, s => s
  | f + 1, s =>
    match (actions s.ts.length).reverse.findSome? (step behs s) with
    | some s' => runRev behs f s'
    | none => s

/-- what the property promises for a target, as a function of its scripted behaviour -/
def expectedGot (b : Beh) (content : List Byte) : List Byte :=
  if b.missing then [] else match b.limit with | none => content | some k => content.take k

def expectedErr (b : Beh) : Bool := b.missing || b.fail

end Eru.Misc.Sender
