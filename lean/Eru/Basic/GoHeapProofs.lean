/-
Heap-shape lemmas for the exact `container/heap` port in `Eru.Basic.GoHeap`.
-/
import Eru.Basic.GoHeap
import Eru.Basic.GoSortProofs

namespace Eru.GoHeap

open Eru.GoSort (StrictWeak)

variable {α : Type}

/-- min-heap shape invariant w.r.t. `less`: no child is strictly less than its parent -/
def IsHeap {α} (less : α → α → Bool) (a : Array α) : Prop :=
  ∀ i j (hi : i < a.size) (hj : j < a.size), (j = 2 * i + 1 ∨ j = 2 * i + 2) → less a[j] a[i] = false

theorem getElem_swp (a : Array α) (i j c : Nat) (hi : i < a.size) (hj : j < a.size)
    (hc : c < (swp a i j).size) :
    (swp a i j)[c] = if c = i then a[j] else if c = j then a[i] else a[c]'(by simpa using hc) := by
  have h : swp a i j = a.swap i j hi hj := by simp [swp, hi, hj]
  simp only [h, Array.getElem_swap]

/-- facts about the child index chosen by `down` -/
theorem choose_spec {less : α → α → Bool} (sw : StrictWeak less) (a : Array α) (i n : Nat)
    (h1 : 2 * i + 1 < n ∧ n ≤ a.size) (j : Nat) (hj : j < a.size)
    (hjdef : j = if h2 : 2 * i + 1 + 1 < n then
        (if less (a[2 * i + 1 + 1]'(by omega)) (a[2 * i + 1]'(by omega)) then 2 * i + 1 + 1
          else 2 * i + 1) else 2 * i + 1) :
    (j = 2 * i + 1 ∨ j = 2 * i + 2) ∧ j < n ∧
      ∀ c (hc : c < a.size), c < n → (c = 2 * i + 1 ∨ c = 2 * i + 2) → less a[c] a[j] = false := by
  by_cases h2 : 2 * i + 1 + 1 < n
  · by_cases hl : less (a[2 * i + 1 + 1]'(by omega)) (a[2 * i + 1]'(by omega)) = true
    · rw [dif_pos h2, if_pos hl] at hjdef
      subst hjdef
      refine ⟨Or.inr rfl, h2, ?_⟩
      intro c hc hcn hch
      rcases hch with rfl | rfl
      · exact sw.asymm hl
      · exact sw.irrefl _
    · rw [dif_pos h2, if_neg hl] at hjdef
      subst hjdef
      refine ⟨Or.inl rfl, by omega, ?_⟩
      intro c hc hcn hch
      rcases hch with rfl | rfl
      · exact sw.irrefl _
      · simpa using hl
  · rw [dif_neg h2] at hjdef
    subst hjdef
    refine ⟨Or.inl rfl, h1.1, ?_⟩
    intro c hc hcn hch
    rcases hch with rfl | rfl
    · exact sw.irrefl _
    · omega

theorem down_inv {less : α → α → Bool} (sw : StrictWeak less) (k : Nat) (a : Array α) (i n : Nat)
    (hki : k ≤ i) (hn : n ≤ a.size)
    (H1 : ∀ p c (hp : p < a.size) (hc : c < a.size), k ≤ p → p ≠ i → c < n →
      (c = 2 * p + 1 ∨ c = 2 * p + 2) → less a[c] a[p] = false)
    (H2 : ∀ p c (hp : p < a.size) (hc : c < a.size), k ≤ p → (i = 2 * p + 1 ∨ i = 2 * p + 2) →
      c < n → (c = 2 * i + 1 ∨ c = 2 * i + 2) → less a[c] a[p] = false) :
    ∀ p c (hp : p < (down less a i n).size) (hc : c < (down less a i n).size), k ≤ p → c < n →
      (c = 2 * p + 1 ∨ c = 2 * p + 2) → less (down less a i n)[c] (down less a i n)[p] = false := by
  fun_induction down less a i n with
  | case1 a i j1 h1 j2 j hj hl ih =>
    obtain ⟨hjc, hjn, hjmin⟩ := choose_spec sw a i n h1 j hj rfl
    have hj1 : j1 = 2 * i + 1 := rfl
    clear_value j j2
    have hi : i < a.size := by omega
    refine ih (by omega) (by simpa using hn) ?_ ?_
    · intro p c hp hc hkp hpj hcn hch
      have hp' : p < a.size := by simpa using hp
      have hc' : c < a.size := by simpa using hc
      rw [getElem_swp a i j c hi hj hc, getElem_swp a i j p hi hj hp]
      by_cases hpi : p = i
      · have hci : c ≠ i := by omega
        by_cases hcj : c = j
        · simp only [if_pos hpi, if_neg hci, if_pos hcj]
          exact sw.asymm hl
        · simp only [if_pos hpi, if_neg hci, if_neg hcj]
          exact hjmin c hc' hcn (by omega)
      · simp only [if_neg hpi, if_neg hpj]
        by_cases hci : c = i
        · simp only [if_pos hci]
          exact H2 p j hp' hj hkp (by omega) hjn hjc
        · have hcj : c ≠ j := by omega
          simp only [if_neg hci, if_neg hcj]
          exact H1 p c hp' hc' hkp hpi hcn hch
    · intro p c hp hc hkp hjp hcn hch
      have hc' : c < a.size := by simpa using hc
      have hpi : p = i := by omega
      have hci : c ≠ i := by omega
      have hcj : c ≠ j := by omega
      rw [getElem_swp a i j c hi hj hc, getElem_swp a i j p hi hj hp]
      simp only [if_pos hpi, if_neg hci, if_neg hcj]
      exact H1 j c hj hc' (by omega) (by omega) hcn hch
  | case2 a i j1 h1 j2 j hj hl =>
    obtain ⟨hjc, hjn, hjmin⟩ := choose_spec sw a i n h1 j hj rfl
    have hj1 : j1 = 2 * i + 1 := rfl
    clear_value j j2
    have hi : i < a.size := by omega
    intro p c hp hc hkp hcn hch
    by_cases hpi : i = p
    · subst hpi
      exact sw.negTrans _ _ _ (hjmin c hc hcn hch) (by simpa using hl)
    · exact H1 p c hp hc hkp (Ne.symm hpi) hcn hch
  | case3 a i j1 h1 =>
    have hj1 : j1 = 2 * i + 1 := rfl
    intro p c hp hc hkp hcn hch
    by_cases hpi : i = p
    · omega
    · exact H1 p c hp hc hkp (Ne.symm hpi) hcn hch

theorem down_getElem_ge {less : α → α → Bool} (sw : StrictWeak less) (a : Array α) (i n : Nat) :
    ∀ c (hc : c < (down less a i n).size) (hc' : c < a.size), n ≤ c →
      (down less a i n)[c] = a[c] := by
  fun_induction down less a i n with
  | case1 a i j1 h1 j2 j hj hl ih =>
    obtain ⟨hjc, hjn, hjmin⟩ := choose_spec sw a i n h1 j hj rfl
    have hj1 : j1 = 2 * i + 1 := rfl
    clear_value j j2
    have hi : i < a.size := by omega
    intro c hc hc' hnc
    rw [ih c hc (by simpa using hc') hnc, getElem_swp a i j c hi hj]
    rw [if_neg (by omega), if_neg (by omega)]
  | case2 => intro c hc hc' hnc; rfl
  | case3 => intro c hc hc' hnc; rfl

theorem up_inv {less : α → α → Bool} (sw : StrictWeak less) (a : Array α) (j : Nat)
    (U1 : ∀ p c (hp : p < a.size) (hc : c < a.size), c ≠ j →
      (c = 2 * p + 1 ∨ c = 2 * p + 2) → less a[c] a[p] = false)
    (U2 : ∀ p c (hp : p < a.size) (hc : c < a.size), (j = 2 * p + 1 ∨ j = 2 * p + 2) →
      (c = 2 * j + 1 ∨ c = 2 * j + 2) → less a[c] a[p] = false) :
    IsHeap less (up less a j) := by
  fun_induction up less a j with
  | case1 a =>
    intro p c hp hc hch
    exact U1 p c hp hc (by omega) hch
  | case2 a j hj0 i hj hi hl ih =>
    have hji : j = 2 * i + 1 ∨ j = 2 * i + 2 := by
      show j = 2 * ((j - 1) / 2) + 1 ∨ j = 2 * ((j - 1) / 2) + 2
      omega
    clear_value i
    refine ih ?_ ?_
    · intro p c hp hc hci hch
      have hp' : p < a.size := by simpa using hp
      have hc' : c < a.size := by simpa using hc
      rw [getElem_swp a i j c hi hj hc, getElem_swp a i j p hi hj hp]
      by_cases hcj : c = j
      · have hpi : p = i := by omega
        simp only [if_neg hci, if_pos hcj, if_pos hpi]
        exact sw.asymm hl
      · simp only [if_neg hci, if_neg hcj]
        by_cases hpi : p = i
        · simp only [if_pos hpi]
          have h1 : less a[c] a[i] = false := U1 i c hi hc' hcj (by omega)
          cases h : less a[c] a[j] with
          | false => rfl
          | true =>
            have := sw.trans _ _ _ h hl
            rw [h1] at this; cases this
        · by_cases hpj : p = j
          · simp only [if_neg hpi, if_pos hpj]
            exact U2 i c hi hc' hji (by omega)
          · simp only [if_neg hpi, if_neg hpj]
            exact U1 p c hp' hc' hcj hch
    · intro p c hp hc hip hch
      have hp' : p < a.size := by simpa using hp
      have hc' : c < a.size := by simpa using hc
      have hpi : p ≠ i := by omega
      have hpj : p ≠ j := by omega
      have hci : c ≠ i := by omega
      have hij : i ≠ j := by omega
      rw [getElem_swp a i j c hi hj hc, getElem_swp a i j p hi hj hp]
      simp only [if_neg hpi, if_neg hpj, if_neg hci]
      by_cases hcj : c = j
      · simp only [if_pos hcj]
        exact U1 p i hp' hi hij hip
      · simp only [if_neg hcj]
        exact sw.negTrans _ _ _ (U1 i c hi hc' hcj hch) (U1 p i hp' hi hij hip)
  | case3 a j hj0 i hj hi hl =>
    have hji : j = 2 * i + 1 ∨ j = 2 * i + 2 := by
      show j = 2 * ((j - 1) / 2) + 1 ∨ j = 2 * ((j - 1) / 2) + 2
      omega
    clear_value i
    intro p c hp hc hch
    by_cases hcj : j = c
    · have hpi : i = p := by omega
      subst hcj; subst hpi
      simpa using hl
    · exact U1 p c hp hc (Ne.symm hcj) hch
  | case4 a j hj0 hj =>
    intro p c hp hc hch
    exact U1 p c hp hc (by omega) hch

theorem push_isHeap {α} {less : α → α → Bool} (sw : Eru.GoSort.StrictWeak less) (a : Array α)
    (x : α) : IsHeap less a → IsHeap less (push less a x) := by
  intro h
  show IsHeap less (up less (a.push x) ((a.push x).size - 1))
  have hs : (a.push x).size - 1 = a.size := by simp
  rw [hs]
  apply up_inv sw
  · intro p c hp hc hcj hch
    have hc' : c < a.size := by simp at hc; omega
    have hp' : p < a.size := by omega
    rw [Array.getElem_push_lt hc', Array.getElem_push_lt hp']
    exact h p c hp' hc' hch
  · intro p c hp hc hjp hch
    simp at hc; omega

theorem pushDeclined_isHeap {α} {less : α → α → Bool} (sw : Eru.GoSort.StrictWeak less)
    (a : Array α) : IsHeap less a → IsHeap less (pushDeclined less a) := by
  intro h
  unfold pushDeclined
  split
  · exact h
  · apply up_inv sw
    · intro p c hp hc _ hch
      exact h p c hp hc hch
    · intro p c hp hc hjp hch
      have hj : a.size - 1 < a.size := by omega
      exact sw.negTrans _ _ _ (h (a.size - 1) c hj hc hch) (h p (a.size - 1) hp hj hjp)

theorem initLoop_isHeap {less : α → α → Bool} (sw : StrictWeak less) (k : Nat) (a : Array α)
    (h : ∀ p c (hp : p < a.size) (hc : c < a.size), k ≤ p →
      (c = 2 * p + 1 ∨ c = 2 * p + 2) → less a[c] a[p] = false) :
    IsHeap less (initLoop less a k) := by
  induction k generalizing a with
  | zero =>
    intro p c hp hc hch
    exact h p c hp hc (Nat.zero_le _) hch
  | succ k ih =>
    simp only [initLoop]
    apply ih
    intro p c hp hc hkp hch
    refine down_inv sw k a k a.size (Nat.le_refl _) (Nat.le_refl _) ?_ ?_ p c hp hc hkp
      (by simpa [size_down] using hc) hch
    · intro p c hp hc hkp hpk _ hch
      exact h p c hp hc (by omega) hch
    · intro p c hp hc hkp hch
      omega

theorem init_isHeap {α} {less : α → α → Bool} (sw : Eru.GoSort.StrictWeak less) (a : Array α) :
    IsHeap less (init less a) := by
  unfold init
  apply initLoop_isHeap sw
  intro p c hp hc hkp hch
  omega

theorem isHeap_root_le {less : α → α → Bool} (sw : StrictWeak less) (a : Array α)
    (h : IsHeap less a) : ∀ j (hj : j < a.size), less a[j] (a[0]'(by omega)) = false
  | 0, _ => sw.irrefl _
  | j + 1, hj =>
    have hp : j / 2 < a.size := by omega
    sw.negTrans _ _ _ (h (j / 2) (j + 1) hp hj (by omega)) (isHeap_root_le sw a h (j / 2) hp)
termination_by j => j
decreasing_by omega

/-- the root of a heap is a minimum -/
theorem isHeap_root_min {α} {less : α → α → Bool} (sw : Eru.GoSort.StrictWeak less) (a : Array α)
    (h : IsHeap less a) (h0 : 0 < a.size) : ∀ y ∈ a.toList, less y a[0] = false := by
  intro y hy
  rw [Array.mem_toList_iff, Array.mem_iff_getElem] at hy
  obtain ⟨j, hj, rfl⟩ := hy
  exact isHeap_root_le sw a h j hj

theorem pop_isHeap {α} {less : α → α → Bool} (sw : Eru.GoSort.StrictWeak less) (a : Array α)
    (x : α) (a' : Array α) (h : IsHeap less a) (hp : pop less a = some (x, a')) :
    IsHeap less a' ∧ (∀ y ∈ a'.toList, less y x = false) ∧ (∀ y ∈ a.toList, less y x = false) := by
  have hperm := pop_perm less a x a' hp
  unfold pop at hp
  split at hp
  · cases hp
  · rename_i hne
    simp only at hp
    split at hp
    · rename_i y hy
      cases hp
      have h0 : 0 < a.size := by omega
      have hn : a.size - 1 < a.size := by omega
      have hbs : (down less (swp a 0 (a.size - 1)) 0 (a.size - 1)).size = a.size := by
        rw [size_down, size_swp]
      -- the popped element is the old root
      have hx : x = a[0] := by
        rw [Array.back?_eq_getElem?, Array.getElem?_eq_some_iff] at hy
        obtain ⟨hlt, hy⟩ := hy
        rw [← hy]
        simp only [hbs]
        rw [down_getElem_ge sw _ _ _ _ (by rw [hbs]; exact hn) (by simpa using hn) (Nat.le_refl _)]
        rw [getElem_swp a 0 (a.size - 1) _ h0 hn]
        by_cases hz : a.size - 1 = 0
        · simp [hz]
        · simp [hz]
      have hall : ∀ y ∈ a.toList, less y x = false := by
        rw [hx]; exact isHeap_root_min sw a h h0
      refine ⟨?_, ?_, hall⟩
      · intro p c hp hc hch
        rw [Array.getElem_pop, Array.getElem_pop]
        have hc' : c < a.size - 1 := by simpa [hbs] using hc
        refine down_inv sw 0 (swp a 0 (a.size - 1)) 0 (a.size - 1) (Nat.le_refl _) (by simp)
          ?_ ?_ p c _ _ (Nat.zero_le _) hc' hch
        · intro p c hp hc _ hp0 hcn hch
          rw [getElem_swp a 0 (a.size - 1) c h0 hn, getElem_swp a 0 (a.size - 1) p h0 hn]
          have h1 : c ≠ 0 := by omega
          have h2 : c ≠ a.size - 1 := by omega
          have h3 : p ≠ a.size - 1 := by omega
          simp only [if_neg h1, if_neg h2, if_neg hp0, if_neg h3]
          exact h p c _ _ hch
        · intro p c hp hc _ hch
          omega
      · intro y hy
        exact hall y (hperm.symm.subset (List.mem_cons_of_mem _ hy))
    · cases hp

end Eru.GoHeap
