/-
Finite maps `String → Int` as association lists, observed only through `get`
(absent key = 0).  Go's `m[k]++` / `m[k] += v` / `m[k] = v`.
-/
namespace Eru

abbrev Plan := List (String × Int)

namespace Plan
def get (m : Plan) (k : String) : Int :=
  match m with
  | [] => 0
  | (k', v) :: rest => if k' = k then v else get rest k

def has (m : Plan) (k : String) : Bool :=
  match m with
  | [] => false
  | (k', _) :: rest => k' = k || has rest k

/-- `m[k] = v` -/
def set (m : Plan) (k : String) (v : Int) : Plan :=
  match m with
  | [] => [(k, v)]
  | (k', v') :: rest => if k' = k then (k, v) :: rest else (k', v') :: set rest k v

/-- `m[k] += d` -/
def add (m : Plan) (k : String) (d : Int) : Plan := set m k (get m k + d)

def keys (m : Plan) : List String := m.map (·.1)

@[simp] theorem get_nil (k : String) : get [] k = 0 := rfl

theorem get_set (m : Plan) (k k' : String) (v : Int) :
    get (set m k v) k' = if k = k' then v else get m k' := by
  induction m with
  | nil => simp [set, get]
  | cons p rest ih =>
    obtain ⟨a, b⟩ := p
    simp only [set]
    by_cases h : a = k
    · subst h; simp only [if_true, get]; split <;> rfl
    · simp only [h, if_false, get, ih]
      by_cases h2 : a = k'
      · have : ¬ k = k' := by intro e; exact h (e ▸ h2)
        simp [h2, this]
      · simp [h2]

theorem get_add (m : Plan) (k k' : String) (d : Int) :
    get (add m k d) k' = if k = k' then get m k + d else get m k' := by
  simp [add, get_set]

theorem has_set (m : Plan) (k k' : String) (v : Int) :
    has (set m k v) k' = (decide (k = k') || has m k') := by
  induction m with
  | nil => simp [set, has]
  | cons p rest ih =>
    obtain ⟨a, b⟩ := p
    simp only [set]
    by_cases h : a = k
    · subst h; simp [has]
    · simp only [h, if_false, has, ih]
      by_cases h2 : a = k' <;> by_cases h3 : k = k' <;> simp [h2, h3]

theorem has_add (m : Plan) (k k' : String) (d : Int) :
    has (add m k d) k' = (decide (k = k') || has m k') := has_set ..

theorem get_of_not_has (m : Plan) (k : String) (h : has m k = false) : get m k = 0 := by
  induction m with
  | nil => rfl
  | cons p rest ih =>
    obtain ⟨a, b⟩ := p
    simp only [has, Bool.or_eq_false_iff, decide_eq_false_iff_not] at h
    simp [get, h.1, ih h.2]

end Plan
end Eru
