/-
Software IEEE-754 binary64 for the few float expressions the modelled Go code evaluates on
*positive* values: decimal → double (`strconv`/constant conversion/`float64(a)/float64(b)`
are all "the double nearest to the rational a/b", ties to even), `x * float64(n)`,
`int(x)` (truncation), `math.Round(x)` (half away from zero).

A positive finite double is `n · 2^e` with `n ≤ 2^53`, kept as the pair `(n, e)`.  All
arithmetic is exact arithmetic on naturals; the only rounding step is `roundRat`
(round-to-nearest, ties-to-even, to 53 significant bits).

Not modelled (outside every use in the models): subnormals / overflow (values are in
[2^-1000, 2^1000]), negative numbers, NaN/Inf.  `Eru/CpuMem/ProofsFloat.lean` proves the
relative error bound `|fl q - q| ≤ q·2^-53` for `roundRat` and derives `pieces_exact`.
-/
namespace Eru.Float64

/-- positive double `n · 2^e` (or zero when `n = 0`) -/
structure F where
  n : Nat
  e : Int
  deriving Repr, DecidableEq, Inhabited

/-- round-to-nearest, ties-to-even, of `num/den` to a natural (`den > 0`) -/
def rne (num den : Nat) : Nat :=
  let q := num / den
  let r := num % den
  if 2 * r < den then q
  else if den < 2 * r then q + 1
  else if q % 2 = 0 then q else q + 1

/-- the double nearest to `a/b` (`b > 0`), ties to even -/
def roundRat (a b : Nat) : F :=
  if a = 0 then ⟨0, 0⟩ else
  -- scale so that a·2^s/b ∈ (2^52, 2^54)
  let s : Int := 53 + (Nat.log2 b : Int) - (Nat.log2 a : Int)
  let num := if 0 ≤ s then a * 2 ^ s.toNat else a
  let den := if 0 ≤ s then b else b * 2 ^ (-s).toNat
  if 2 ^ 53 * den ≤ num then ⟨rne num (2 * den), 1 - s⟩ else ⟨rne num den, -s⟩

/-- `x * float64(k)` for a natural `k` (exact product, then one rounding) -/
def mulNat (x : F) (k : Nat) : F :=
  if 0 ≤ x.e then roundRat (x.n * k * 2 ^ x.e.toNat) 1
  else roundRat (x.n * k) (2 ^ (-x.e).toNat)

/-- Go `int(x)` for `x ≥ 0`: truncation -/
def trunc (x : F) : Nat :=
  if 0 ≤ x.e then x.n * 2 ^ x.e.toNat else x.n / 2 ^ (-x.e).toNat

/-- Go `math.Round(x)` for `x ≥ 0`: nearest integer, halves away from zero = ⌊x + 1/2⌋ -/
def roundHalfAway (x : F) : Nat :=
  if 0 ≤ x.e then x.n * 2 ^ x.e.toNat
  else (2 * x.n + 2 ^ (-x.e).toNat) / (2 * 2 ^ (-x.e).toNat)

/-- `int(math.Round(cpuRequest * float64(shareBase)))` for `cpuRequest` = double nearest to `a/b`
    (the conversion used by the scheduler after the D3 fix) -/
def piecesRound (a b base : Nat) : Nat := roundHalfAway (mulNat (roundRat a b) base)

/-- `int(cpuRequest * float64(shareBase))` — the conversion before the D3 fix -/
def piecesTrunc (a b base : Nat) : Nat := trunc (mulNat (roundRat a b) base)

/-- `int64(cpu * float64(k))` style helpers reuse `mulNat`/`trunc`. -/
def scaleTrunc (a b k : Nat) : Nat := trunc (mulNat (roundRat a b) k)

end Eru.Float64
