/-
Exact port of Go's `container/heap` (`up`, `down`, `Init`, `Push`, `Pop`) onto arrays,
parameterised by the `Less` of the heap's element type.  Ties are broken exactly as
in Go, so results of heap-driven loops can be compared for equality with the real
code.  Lemmas: every operation preserves the multiset of elements (`List.Perm`).
-/
namespace Eru.GoHeap

variable {α : Type}

/-- `h.Swap(i, j)`; out-of-range never happens in the ported callers (guarded). -/
def swp (a : Array α) (i j : Nat) : Array α :=
  if h : i < a.size ∧ j < a.size then a.swap i j h.1 h.2 else a

@[simp] theorem size_swp (a : Array α) (i j : Nat) : (swp a i j).size = a.size := by
  unfold swp; split <;> simp

theorem swp_perm (a : Array α) (i j : Nat) : (swp a i j).toList.Perm a.toList := by
  unfold swp; split
  · exact (Array.swap_perm ..).toList
  · exact List.Perm.refl _

/-- Go `up(h, j)` for `j ≥ 0` (`j = -1`, i.e. an empty heap, is a no-op handled by callers). -/
def up (less : α → α → Bool) (a : Array α) (j : Nat) : Array α :=
  if hj : j = 0 then a            -- i = (0-1)/2 = 0 = j  → break
  else
    let i := (j - 1) / 2
    if h : j < a.size then
      have hi : i < a.size := by omega
      if less a[j] a[i] then up less (swp a i j) i else a
    else a
termination_by j
decreasing_by omega

/-- Go `down(h, i0, n)`; returns the array (the boolean result is unused by callers here). -/
def down (less : α → α → Bool) (a : Array α) (i n : Nat) : Array α :=
  let j1 := 2 * i + 1
  if h1 : j1 < n ∧ n ≤ a.size then
    let j2 := j1 + 1
    let j := if h2 : j2 < n then (if less a[j2] a[j1] then j2 else j1) else j1
    have hj : j < a.size := by
      simp only [j]; split
      · split <;> omega
      · omega
    if less a[j] a[i] then down less (swp a i j) j n else a
  else a
termination_by n - i
decreasing_by
  all_goals simp_wf
  all_goals (split <;> (try split) <;> omega)

/-- `for i := n/2 - 1; i >= 0; i-- { down(h, i, n) }` -/
def initLoop (less : α → α → Bool) (a : Array α) : Nat → Array α
  | 0 => a
  | k + 1 => initLoop less (down less a k a.size) k

def init (less : α → α → Bool) (a : Array α) : Array α := initLoop less a (a.size / 2)

/-- `heap.Push` when the element's `Push` method appends. -/
def push (less : α → α → Bool) (a : Array α) (x : α) : Array α :=
  let a' := a.push x
  up less a' (a'.size - 1)

/-- `heap.Push` when the element's `Push` method declined to append: `up(h, Len()-1)` still runs. -/
def pushDeclined (less : α → α → Bool) (a : Array α) : Array α :=
  if a.size = 0 then a else up less a (a.size - 1)

/-- `heap.Pop`: `n := Len()-1; Swap(0,n); down(0,n); return h.Pop()`.  `none` = Go would panic (empty). -/
def pop (less : α → α → Bool) (a : Array α) : Option (α × Array α) :=
  if a.size = 0 then none
  else
    let n := a.size - 1
    let a1 := down less (swp a 0 n) 0 n
    match a1.back? with
    | some x => some (x, a1.pop)
    | none => none


/-! ### Multiset preservation -/

theorem up_perm (less : α → α → Bool) (a : Array α) (j : Nat) :
    (up less a j).toList.Perm a.toList := by
  fun_induction up less a j with
  | case1 => exact List.Perm.refl _
  | case2 a j hj i h hi hl ih => exact ih.trans (swp_perm ..)
  | case3 => exact List.Perm.refl _
  | case4 => exact List.Perm.refl _

theorem down_perm (less : α → α → Bool) (a : Array α) (i n : Nat) :
    (down less a i n).toList.Perm a.toList := by
  fun_induction down less a i n with
  | case1 a i n j1 h1 j2 j hl ih => exact ih.trans (swp_perm ..)
  | case2 => exact List.Perm.refl _
  | case3 => exact List.Perm.refl _

theorem initLoop_perm (less : α → α → Bool) (a : Array α) (k : Nat) :
    (initLoop less a k).toList.Perm a.toList := by
  induction k generalizing a with
  | zero => exact List.Perm.refl _
  | succ k ih => exact (ih _).trans (down_perm ..)

theorem init_perm (less : α → α → Bool) (a : Array α) :
    (init less a).toList.Perm a.toList := initLoop_perm ..

theorem push_perm (less : α → α → Bool) (a : Array α) (x : α) :
    (push less a x).toList.Perm (x :: a.toList) := by
  unfold push
  refine (up_perm ..).trans ?_
  simp only [Array.toList_push]
  exact List.perm_append_comm

theorem pushDeclined_perm (less : α → α → Bool) (a : Array α) :
    (pushDeclined less a).toList.Perm a.toList := by
  unfold pushDeclined; split
  · exact List.Perm.refl _
  · exact up_perm ..

theorem pop_perm (less : α → α → Bool) (a : Array α) (x : α) (a' : Array α)
    (h : pop less a = some (x, a')) : a.toList.Perm (x :: a'.toList) := by
  unfold pop at h
  split at h
  · cases h
  · simp only at h
    split at h
    · rename_i y hy
      cases h
      have hp : (down less (swp a 0 (a.size - 1)) 0 (a.size - 1)).toList.Perm a.toList :=
        (down_perm ..).trans (swp_perm ..)
      refine hp.symm.trans ?_
      generalize down less (swp a 0 (a.size - 1)) 0 (a.size - 1) = b at hy
      have : b.toList = b.pop.toList ++ [x] := by
        have hb : b.size ≠ 0 := by
          intro h0
          have : b = #[] := Array.eq_empty_of_size_eq_zero h0
          subst this; simp at hy
        have hl : b.toList.getLast? = some x := by simpa using hy
        rw [Array.toList_pop]
        have hne : b.toList ≠ [] := by intro h0; simp [h0] at hl
        have hx : b.toList.getLast hne = x := by
          rw [List.getLast?_eq_some_getLast hne] at hl; exact Option.some.inj hl
        rw [← hx]; exact (List.dropLast_concat_getLast hne).symm
      rw [this]
      exact List.perm_append_comm
    · cases h

theorem size_up (less : α → α → Bool) (a : Array α) (j : Nat) : (up less a j).size = a.size :=
  by simpa using (up_perm less a j).length_eq

theorem size_down (less : α → α → Bool) (a : Array α) (i n : Nat) :
    (down less a i n).size = a.size := by simpa using (down_perm less a i n).length_eq

theorem pop_none (less : α → α → Bool) (a : Array α) : pop less a = none ↔ a.size = 0 := by
  unfold pop
  constructor
  · intro h
    split at h
    · assumption
    · simp only at h
      split at h
      · cases h
      · rename_i hn hb
        have : (down less (swp a 0 (a.size - 1)) 0 (a.size - 1)).size = a.size := by
          rw [size_down, size_swp]
        rw [Array.back?_eq_none_iff] at hb
        rw [hb] at this; simp at this; omega
  · intro h; simp [h]

end Eru.GoHeap
