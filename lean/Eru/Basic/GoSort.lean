/-
Go's `sort.Slice` for n ≤ 12 is `insertionSort` (pdqsort's small-slice case), ported
exactly; for a comparator that is a strict weak order the result is the unique stable
sorted permutation.  For n > 12 pdqsort is *not* modelled: theorems about sort-based
code quantify over every sorted permutation (`SortedPerm`), and the correspondence check
compares modulo ties there.  `sort.Search` (binary search) is ported exactly.
-/
namespace Eru.GoSort

variable {α : Type}

/-- inner loop `for j := i; j > a && less(j, j-1); j-- { swap }` acting on the reversed prefix -/
def insBack (less : α → α → Bool) (x : α) : List α → List α
  | [] => [x]
  | y :: ys => if less x y then y :: insBack less x ys else x :: y :: ys

/-- `insertionSort`, prefix kept reversed while scanning -/
def isort (less : α → α → Bool) (l : List α) : List α :=
  (l.foldl (fun acc x => insBack less x acc) []).reverse

theorem insBack_perm (less : α → α → Bool) (x : α) (l : List α) :
    (insBack less x l).Perm (x :: l) := by
  induction l with
  | nil => exact List.Perm.refl _
  | cons y ys ih =>
    simp only [insBack]; split
    · exact (List.Perm.cons y ih).trans (List.Perm.swap x y ys)
    · exact List.Perm.refl _

theorem foldl_insBack_perm (less : α → α → Bool) (l acc : List α) :
    (l.foldl (fun acc x => insBack less x acc) acc).Perm (l ++ acc) := by
  induction l generalizing acc with
  | nil => exact List.Perm.refl _
  | cons x xs ih =>
    simp only [List.foldl_cons, List.cons_append]
    refine (ih _).trans ?_
    have h1 : (xs ++ insBack less x acc).Perm (xs ++ (x :: acc)) :=
      List.Perm.append_left xs (insBack_perm less x acc)
    exact h1.trans List.perm_middle

theorem isort_perm (less : α → α → Bool) (l : List α) : (isort less l).Perm l := by
  unfold isort
  refine (List.reverse_perm _).trans ?_
  simpa using foldl_insBack_perm less l []

/-- `sort.Search(n, f)`: binary search, exact port (fuel = n+1 suffices since j-i halves). -/
def searchLoop (f : Nat → Bool) : Nat → Nat → Nat → Nat
  | 0, i, _ => i
  | fuel + 1, i, j =>
    if i < j then
      let h := (i + j) / 2
      if !f h then searchLoop f fuel (h + 1) j else searchLoop f fuel i h
    else i

def search (n : Nat) (f : Nat → Bool) : Nat := searchLoop f (n + 1) 0 n

end Eru.GoSort
