/-
Outcomes of modelled Go functions.  A Go function can return a value, return an
error (mapped to a small enum of strings), panic, or fail to terminate.  The models
never silently totalise: every slice expression / index / division the Go code
performs is guarded and yields `.panic`, and a loop with no decreasing measure on
some input yields `.diverge` on exactly that input.
-/
namespace Eru

inductive Outcome (α : Type) where
  | ok (v : α)
  | err (e : String)
  | panic (msg : String)
  | diverge
  deriving Repr, DecidableEq, Inhabited

namespace Outcome
def isOk {α} : Outcome α → Bool | .ok _ => true | _ => false
def bind {α β} (o : Outcome α) (f : α → Outcome β) : Outcome β :=
  match o with
  | .ok v => f v
  | .err e => .err e
  | .panic m => .panic m
  | .diverge => .diverge
instance : Monad Outcome where
  pure := .ok
  bind := bind
def map' {α β} (f : α → β) : Outcome α → Outcome β
  | .ok v => .ok (f v) | .err e => .err e | .panic m => .panic m | .diverge => .diverge
end Outcome

/-- Go's `math.MaxInt64`; "unlimited" capacity. -/
def maxInt : Int := 9223372036854775807
def minInt : Int := -9223372036854775808

/-- two's complement wrap of an unbounded integer into int64 -/
def wrap64 (x : Int) : Int :=
  let m := x % 18446744073709551616
  if m ≥ 9223372036854775808 then m - 18446744073709551616 else m

end Eru
