/-
Correctness lemmas for the exact ports in `Eru.Basic.GoSort`: insertion sort produces a
sorted list and is the identity on sorted input (stability), `sort.Search` returns the
partition point of a monotone predicate.
-/
import Eru.Basic.GoSort

namespace Eru.GoSort

variable {α : Type}

/-- `less` is a strict weak order -/
structure StrictWeak {α : Type} (less : α → α → Bool) : Prop where
  irrefl : ∀ a, less a a = false
  trans : ∀ a b c, less a b = true → less b c = true → less a c = true
  negTrans : ∀ a b c, less a b = false → less b c = false → less a c = false

theorem StrictWeak.asymm {less : α → α → Bool} (h : StrictWeak less) {a b : α}
    (hab : less a b = true) : less b a = false := by
  cases hba : less b a with
  | false => rfl
  | true =>
    have := h.trans a b a hab hba
    rw [h.irrefl] at this; cases this

theorem mem_insBack {less : α → α → Bool} {x z : α} {l : List α} :
    z ∈ insBack less x l ↔ z = x ∨ z ∈ l := by
  rw [(insBack_perm less x l).mem_iff]; simp

theorem insBack_sorted {less : α → α → Bool} (h : StrictWeak less) (x : α) (l : List α)
    (hl : l.Pairwise (fun a b => less a b = false)) :
    (insBack less x l).Pairwise (fun a b => less a b = false) := by
  induction l with
  | nil => simp [insBack]
  | cons y ys ih =>
    rw [List.pairwise_cons] at hl
    simp only [insBack]
    split
    · rename_i hxy
      rw [List.pairwise_cons]
      refine ⟨?_, ih hl.2⟩
      intro z hz
      rcases mem_insBack.1 hz with rfl | hz
      · exact h.asymm hxy
      · exact hl.1 z hz
    · rename_i hxy
      have hxy : less x y = false := by simpa using hxy
      rw [List.pairwise_cons]
      refine ⟨?_, List.pairwise_cons.2 hl⟩
      intro z hz
      rcases List.mem_cons.1 hz with rfl | hz
      · exact hxy
      · exact h.negTrans x y z hxy (hl.1 z hz)

theorem foldl_insBack_sorted {less : α → α → Bool} (h : StrictWeak less) (l acc : List α)
    (hacc : acc.Pairwise (fun a b => less a b = false)) :
    (l.foldl (fun acc x => insBack less x acc) acc).Pairwise (fun a b => less a b = false) := by
  induction l generalizing acc with
  | nil => exact hacc
  | cons x xs ih => exact ih _ (insBack_sorted h x acc hacc)

theorem isort_sorted {α} {less : α → α → Bool} (h : StrictWeak less) (l : List α) :
    (isort less l).Pairwise (fun a b => less b a = false) := by
  unfold isort
  rw [List.pairwise_reverse]
  exact foldl_insBack_sorted h l [] List.Pairwise.nil

theorem insBack_of_le {less : α → α → Bool} (x : α) (l : List α)
    (hl : ∀ y ∈ l, less x y = false) : insBack less x l = x :: l := by
  cases l with
  | nil => rfl
  | cons y ys => simp [insBack, hl y (List.mem_cons_self ..)]

theorem foldl_insBack_of_sorted {less : α → α → Bool} (l acc : List α)
    (hacc : ∀ x ∈ l, ∀ y ∈ acc, less x y = false)
    (hs : l.Pairwise (fun a b => less b a = false)) :
    l.foldl (fun acc x => insBack less x acc) acc = l.reverse ++ acc := by
  induction l generalizing acc with
  | nil => rfl
  | cons x xs ih =>
    rw [List.pairwise_cons] at hs
    simp only [List.foldl_cons]
    rw [insBack_of_le x acc (hacc x (List.mem_cons_self ..))]
    rw [ih (x :: acc) ?_ hs.2]
    · simp
    · intro z hz y hy
      rcases List.mem_cons.1 hy with rfl | hy
      · exact hs.1 z hz
      · exact hacc z (List.mem_cons_of_mem _ hz) y hy

/-- stability: on sorted input (in particular on runs of equivalent elements) insertion sort
keeps the input order. -/
theorem isort_of_sorted {α} {less : α → α → Bool} (l : List α)
    (hs : l.Pairwise (fun a b => less b a = false)) : isort less l = l := by
  unfold isort
  rw [foldl_insBack_of_sorted l [] (by simp) hs]
  simp

theorem searchLoop_le (f : Nat → Bool) : ∀ fuel i j, i ≤ j → searchLoop f fuel i j ≤ j := by
  intro fuel
  induction fuel with
  | zero => intro i j h; simpa [searchLoop] using h
  | succ fuel ih =>
    intro i j h
    simp only [searchLoop]
    split
    · split
      · exact ih _ _ (by omega)
      · exact Nat.le_trans (ih _ _ (by omega)) (by omega)
    · exact h

theorem search_le (n : Nat) (f : Nat → Bool) : search n f ≤ n :=
  searchLoop_le f _ _ _ (Nat.zero_le _)

theorem searchLoop_spec (n : Nat) (f : Nat → Bool)
    (hmono : ∀ i j, i ≤ j → j < n → f i = true → f j = true) :
    ∀ fuel i j, i ≤ j → j ≤ n → j - i < fuel →
      (∀ k, k < i → f k = false) → (∀ k, j ≤ k → k < n → f k = true) →
      (∀ k, k < searchLoop f fuel i j → f k = false) ∧
      (∀ k, searchLoop f fuel i j ≤ k → k < n → f k = true) := by
  intro fuel
  induction fuel with
  | zero => intro i j _ _ h; omega
  | succ fuel ih =>
    intro i j hij hjn hfuel hlo hhi
    simp only [searchLoop]
    split
    · rename_i hlt
      split
      · rename_i hf
        have hf : f ((i + j) / 2) = false := by simpa using hf
        refine ih _ _ (by omega) hjn (by omega) ?_ hhi
        intro k hk
        cases hfk : f k with
        | false => rfl
        | true =>
          have := hmono k ((i + j) / 2) (by omega) (by omega) hfk
          rw [hf] at this; cases this
      · rename_i hf
        have hf : f ((i + j) / 2) = true := by simpa using hf
        refine ih _ _ (by omega) (by omega) (by omega) hlo ?_
        intro k hk hkn
        exact hmono _ k hk hkn hf
    · rename_i hge
      have : i = j := by omega
      subst this
      exact ⟨hlo, hhi⟩

theorem search_spec (n : Nat) (f : Nat → Bool)
    (hmono : ∀ i j, i ≤ j → j < n → f i = true → f j = true) :
    (∀ i, i < search n f → f i = false) ∧ (∀ i, search n f ≤ i → i < n → f i = true) := by
  unfold search
  exact searchLoop_spec n f hmono (n + 1) 0 n (Nat.zero_le _) (Nat.le_refl _) (by omega)
    (by intro k hk; omega) (by intro k h1 h2; omega)

end Eru.GoSort
