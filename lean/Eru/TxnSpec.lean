import Eru.Txn
/-
Decidable specification of C17, evaluated by the oracle on the implementation's call log and
proved of the model for every outcome vector and cancellation point (Eru/Props/C17.lean).
-/
namespace Eru.Txn

def countStep (s : Step) (cs : List Call) : Nat := (cs.filter (fun c => c.step == s)).length

def thenFailed (cond : Out) (thn : Opt) : Bool := cond == .ok && thn == .present .fail
def anyFailed (cond : Out) (thn : Opt) : Bool := cond == .fail || thenFailed cond thn

/-- clauses of C17 violated by an observed `Txn` run -/
def specTxn (cond : Out) (thn rb : Opt) (r : Result) (sl : Slow := .none) : List String :=
  (if r.panicked then ["crash"] else []) ++
  (if countStep .cond r.calls == 1 then [] else ["cond-once"]) ++
  (if countStep .thn r.calls == (if cond == .ok && thn != .absent then 1 else 0) then [] else ["then-iff-cond-ok"]) ++
  (if countStep .rollback r.calls == (if anyFailed cond thn && rb != .absent then 1 else 0) then [] else ["rollback-once-iff-failed"]) ++
  (if r.calls.all (fun c => c.step != .rollback || c.byCond == some (cond == .fail)) then [] else ["rollback-told-cond"]) ++
  (if r.ret == (if cond == .fail then .condErr else if thenFailed cond thn then .thenErr else .nil) then [] else ["returns-first-failure"]) ++
  -- the rollback's context is live when the rollback starts (whatever the caller did and however long the
  -- steps took: its ttl budget starts then) and stays live unless the rollback itself overruns ttl
  (if r.calls.all (fun c => c.step != .rollback || (!c.cancelledAtEntry && c.cancelledAtExit == (sl == .rollback))) then [] else ["rollback-ctx-live"]) ++
  (if r.calls.map (·.step) == ((r.calls.filter (·.step == .cond)) ++ (r.calls.filter (·.step == .thn)) ++ (r.calls.filter (·.step == .rollback))).map (·.step)
   then [] else ["step-order"])

/-- clauses violated by an observed `PCR` run (user-level closures) -/
def specPcr (prepare : Out) (commit rb : Opt) (r : Result) (sl : Slow := .none) : List String :=
  (if r.panicked && rb != .absent then ["crash"] else []) ++
  (if countStep .cond r.calls == 1 then [] else ["cond-once"]) ++
  (if countStep .thn r.calls == (if prepare == .ok && commit != .absent then 1 else 0) then [] else ["then-iff-cond-ok"]) ++
  (if countStep .rollback r.calls == (if thenFailed prepare commit && rb != .absent then 1 else 0) then [] else ["pcr-rollback-iff-commit-failed"]) ++
  (if r.ret == (if prepare == .fail then .condErr else if thenFailed prepare commit then .thenErr else .nil) then [] else ["returns-first-failure"]) ++
  -- the rollback's context is live when the rollback starts (whatever the caller did and however long the
  -- steps took: its ttl budget starts then) and stays live unless the rollback itself overruns ttl
  (if r.calls.all (fun c => c.step != .rollback || (!c.cancelledAtEntry && c.cancelledAtExit == (sl == .rollback))) then [] else ["rollback-ctx-live"])

end Eru.Txn

/-! finite quantification over the outcome/cancellation enums is decidable (lets `decide` check a
statement for the whole table) -/
namespace Eru.Txn

instance decForallOut {p : Out → Prop} [DecidablePred p] : Decidable (∀ o, p o) :=
  decidable_of_iff (p .ok ∧ p .fail) ⟨fun h o => by cases o; exact h.1; exact h.2, fun h => ⟨h _, h _⟩⟩

instance decForallOpt {p : Opt → Prop} [DecidablePred p] : Decidable (∀ o, p o) :=
  decidable_of_iff (p .absent ∧ ∀ o, p (.present o))
    ⟨fun h o => by cases o; exact h.1; exact h.2 _, fun h => ⟨h _, fun _ => h _⟩⟩

instance decForallSlow {p : Slow → Prop} [DecidablePred p] : Decidable (∀ c, p c) :=
  decidable_of_iff (∀ c ∈ Slow.all, p c)
    ⟨fun h c => h c (by cases c <;> simp [Slow.all]), fun h c _ => h c⟩

/-- clause of the tracing id: every step sees the caller's tracing value iff the caller's context carries one -/
def specTrace (traced : Bool) (saw : List Bool) : List String :=
  if saw.all (· == traced) then [] else ["tracing-inherited"]

instance decForallCancel {p : Cancel → Prop} [DecidablePred p] : Decidable (∀ c, p c) :=
  decidable_of_iff (∀ c ∈ Cancel.all, p c)
    ⟨fun h c => h c (by cases c <;> simp [Cancel.all]), fun h c _ => h c⟩

end Eru.Txn
