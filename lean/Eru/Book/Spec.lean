import Eru.Book.Cobalt
/-
Decidable specification predicates for C07, C08, C09, C15, C32.  They are written
independently of the model functions (plain sums and comparisons), are evaluated by the
oracle on the *implementation's* output, and are what the theorems in Eru/Props prove of
the model's output.
-/
namespace Eru.Book
open Eru

/-! ### C08 / C15: usage equals the sum of the live workloads -/

def sumBy (ws : List WorkloadRes) (f : WorkloadRes → Int) : Int := (ws.map f).sum

/-- recorded usage equals the sum of the live workloads' resources in total CPU, memory,
    every core's pieces and every NUMA node's memory (absent key = 0) -/
def Consistent (u : NodeRes) (live : List WorkloadRes) : Prop :=
  u.cpu = sumBy live (·.cpuRequest) ∧ u.memory = sumBy live (·.memoryRequest) ∧
  (∀ k, u.cpuMap.get k = sumBy live (·.cpuMap.get k)) ∧
  (∀ k, u.numaMemory.get k = sumBy live (·.numaMemory.get k))

/-- the same, but per-core only over the keys of the capacity's CPU map (what the node resource
    check compares; per-NUMA usage is compared on every id) -/
def ConsistentOn (capacity u : NodeRes) (live : List WorkloadRes) : Prop :=
  u.cpu = sumBy live (·.cpuRequest) ∧ u.memory = sumBy live (·.memoryRequest) ∧
  (∀ k ∈ capacity.cpuMap.keys, u.cpuMap.get k = sumBy live (·.cpuMap.get k)) ∧
  (∀ k, u.numaMemory.get k = sumBy live (·.numaMemory.get k))

def allKeys (m : IMap) (ws : List WorkloadRes) (f : WorkloadRes → IMap) : List String :=
  m.keys ++ ws.flatMap fun w => (f w).keys

/-- decidable form of `Consistent` (keys outside `allKeys` read 0 on both sides) -/
def consistentB (u : NodeRes) (live : List WorkloadRes) : Bool :=
  u.cpu == sumBy live (·.cpuRequest) && u.memory == sumBy live (·.memoryRequest) &&
  (allKeys u.cpuMap live (·.cpuMap)).all (fun k => u.cpuMap.get k == sumBy live (·.cpuMap.get k)) &&
  (allKeys u.numaMemory live (·.numaMemory)).all (fun k => u.numaMemory.get k == sumBy live (·.numaMemory.get k))

/-- extensional equality of maps (zero entries = absent entries) -/
def MapEq (a b : IMap) : Prop := ∀ k, a.get k = b.get k
def mapEqB (a b : IMap) : Bool := (a.keys ++ b.keys).all fun k => a.get k == b.get k

/-- extensional equality of usages -/
def UsageEq (a b : NodeRes) : Prop :=
  a.cpu = b.cpu ∧ a.memory = b.memory ∧ MapEq a.cpuMap b.cpuMap ∧ MapEq a.numaMemory b.numaMemory
def usageEqB (a b : NodeRes) : Bool :=
  a.cpu == b.cpu && a.memory == b.memory && mapEqB a.cpuMap b.cpuMap && mapEqB a.numaMemory b.numaMemory

/-- the conditions checked by `NodeResourceInfo.Validate` -/
def Valid (n : NodeInfo) : Prop :=
  n.capacity.cpuMap.length ≠ 0 ∧ n.cpuMapOk = true ∧
  (n.capacity.numa.length > 0 → n.numaTopoErr = none ∧ n.numaMemOk = true)

instance (n : NodeInfo) : Decidable (Valid n) := by unfold Valid; exact inferInstance

/-- the usage written by the repair: the workloads' sum -/
def repairedUsage (ws : List WorkloadRes) : NodeRes :=
  { cpu := (sumWorkloads ws).cpuRequest, cpuMap := (sumWorkloads ws).cpuMap, memory := (sumWorkloads ws).memoryRequest,
    numaMemory := (sumWorkloads ws).numaMemory, numa := [] }

/-- the recorded workloads fit the node: a usage equal to their sum passes the node
    validation (every used core exists and is not over-used; with a NUMA topology every NUMA
    node's memory use is within its capacity) -/
def Fits (n : NodeInfo) (ws : List WorkloadRes) : Prop := Valid { n with usage := repairedUsage ws }

instance (n : NodeInfo) (ws : List WorkloadRes) : Decidable (Fits n ws) := by unfold Fits; exact inferInstance

/-! ### C07 -/

/-- capacity is the largest accepted count: for `k ≥ 1`, accepted iff `k ≤ cap` -/
def acceptOkB (cap k : Int) (accepted : Bool) : Bool := accepted == decide (1 ≤ k ∧ k ≤ cap)

/-- saturating sum of capacities -/
def satSum (caps : List Int) : Int := min (caps.sum) maxInt

/-! ### C09 -/

def weightSum (answers : List Answer) (node : String) : Rat :=
  (answers.map fun a => match a.find? node with | some c => c.weight | none => 0).sum
def weightedSum (answers : List Answer) (node : String) (f : Cap → Rat) : Rat :=
  (answers.map fun a => match a.find? node with | some c => f c * c.weight | none => 0).sum
def offeredByAll (answers : List Answer) (node : String) : Bool :=
  answers.all fun a => (a.find? node).isSome
def minCap (answers : List Answer) (node : String) : Int :=
  match answers.filterMap (fun a => (a.find? node).map (·.cap)) with
  | [] => 0
  | c :: cs => cs.foldl min c

/-- what the merged answer must say about `node` -/
structure MergedOk (answers : List Answer) (node : String) (c : Cap) : Prop where
  cap : c.cap = minCap answers node
  usage : c.usage = weightedSum answers node (·.usage) / weightSum answers node
  rate : c.rate = weightedSum answers node (·.rate) / weightSum answers node

/-! ### C32 -/

/-- cores with at least one full share free -/
def freeCores (n : NodeInfo) (shareBase : Int) : List String :=
  n.capacity.cpuMap.keys.filter fun c => n.capacity.cpuMap.get c - n.usage.cpuMap.get c ≥ shareBase

def expectedCores (n : NodeInfo) (shareBase : Int) : List String :=
  if (freeCores n shareBase).length = 0 then n.capacity.cpuMap.keys else freeCores n shareBase

/-- the engine parameters of one remapped workload are right -/
def remapEntryOkB (n : NodeInfo) (shareBase : Int) (w : WorkloadRes) (e : EngineParams) : Bool :=
  e.remap && e.cpu == w.cpuLimit && e.memory == w.memoryLimit && e.numaNode == w.numaNode &&
  (expectedCores n shareBase).all (fun c => e.cpuMap.get c == shareBase && e.cpuMap.has c) &&
  e.cpuMap.keys.all (fun c => (expectedCores n shareBase).contains c)

/-- remap result: exactly the workloads with an empty CPU map, each with the expected cores -/
def remapOkB (n : NodeInfo) (shareBase : Int) (ws : List (String × WorkloadRes)) (out : List (String × EngineParams)) : Bool :=
  ws.all (fun (id, w) =>
    match out.find? (·.1 == id) with
    | some (_, e) => w.cpuMap.length = 0 && remapEntryOkB n shareBase w e
    | none => w.cpuMap.length ≠ 0) &&
  out.all (fun (id, _) => ws.any (·.1 == id))

end Eru.Book
