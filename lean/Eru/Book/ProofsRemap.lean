import Eru.Book.ProofsCalc
/-
Lemmas for C32: the share map computed by CalculateRemap has exactly the expected cores.
-/
namespace Eru.Book
open Eru

theorem get_cons_self (a : String) (b : Int) (rest : IMap) : Plan.get ((a, b) :: rest) a = b := by simp [Plan.get]
theorem get_cons_ne (a k : String) (b : Int) (rest : IMap) (h : a ≠ k) : Plan.get ((a, b) :: rest) k = Plan.get rest k := by
  simp [Plan.get, h]

/-- on a Go map, filtering entries by value = filtering keys by looked-up value -/
theorem keys_filter_value (m : IMap) (h : WF m) (P : Int → Bool) :
    (m.filter fun kv => P kv.2).map (·.1) = m.keys.filter fun k => P (m.get k) := by
  induction m with
  | nil => rfl
  | cons p rest ih =>
    obtain ⟨a, b⟩ := p
    have hr : WF rest := by unfold WF at *; rw [keys_cons] at h; exact (List.nodup_cons.1 h).2
    have ha : a ∉ Plan.keys rest := by unfold WF at h; rw [keys_cons] at h; exact (List.nodup_cons.1 h).1
    have hrest : (Plan.keys rest).filter (fun k => P (Plan.get ((a, b) :: rest) k)) =
        (Plan.keys rest).filter (fun k => P (Plan.get rest k)) := by
      apply List.filter_congr
      intro k hk
      have : a ≠ k := fun e => ha (e ▸ hk)
      rw [get_cons_ne a k b rest this]
    rw [keys_cons, List.filter_cons, List.filter_cons, get_cons_self, hrest, ← ih hr]
    cases P b <;> simp

/-- a map all of whose values are `v` -/
theorem get_const_map (l : List String) (v : Int) (k : String) (h : k ∈ l) :
    Plan.get (l.map fun c => (c, v)) k = v := by
  induction l with
  | nil => cases h
  | cons a rest ih =>
    simp only [List.map_cons, Plan.get]
    by_cases e : a = k
    · simp [e]
    · simp only [e, if_false]
      exact ih (by simpa [Ne.symm e] using h)

theorem keys_const_map (l : List String) (v : Int) : Plan.keys (l.map fun c => (c, v)) = l := by
  induction l with
  | nil => rfl
  | cons a rest ih => simp only [List.map_cons, keys_cons, ih]

/-- every used core exists in the capacity (first loop of Validate) -/
theorem usage_keys_subset (n : NodeInfo) (h : n.cpuMapOk = true) : ∀ k ∈ n.usage.cpuMap.keys, k ∈ n.capacity.cpuMap.keys := by
  intro k hk
  unfold NodeInfo.cpuMapOk at h
  rw [List.all_eq_true] at h
  unfold Plan.keys at hk
  rw [List.mem_map] at hk
  obtain ⟨⟨a, b⟩, hab, rfl⟩ := hk
  have := h (a, b) hab
  simp only [Bool.and_eq_true] at this
  exact (has_iff_mem_keys _ _).1 this.1.1

/-- the available per-core map of a stored node: capacity keys, capacity minus usage -/
theorem available_cpuMap (n : NodeInfo) (hw : WFNode n) (hv : Valid n) :
    n.available.cpuMap.keys = n.capacity.cpuMap.keys ∧ WF n.available.cpuMap ∧
    ∀ k, n.available.cpuMap.get k = n.capacity.cpuMap.get k - n.usage.cpuMap.get k := by
  unfold NodeInfo.available NodeRes.sub
  rw [NodeRes.deepCopy_eq _ hw.cc hw.cn]
  refine ⟨keys_mapSub _ _ (usage_keys_subset n hv.2.1), WF_mapSub _ _ hw.cc, fun k => get_mapSub _ _ k hw.uc⟩

/-- the share map has exactly the expected cores, each with one full share -/
theorem shareCPUMap_spec (n : NodeInfo) (hw : WFNode n) (hv : Valid n) (shareBase : Int) :
    (shareCPUMap n shareBase).keys = expectedCores n shareBase ∧
    ∀ c ∈ expectedCores n shareBase, (shareCPUMap n shareBase).get c = shareBase := by
  obtain ⟨hk, hwf, hg⟩ := available_cpuMap n hw hv
  have hfree : ((n.available.cpuMap.filter fun kv => decide (kv.2 ≥ shareBase)).map fun kv => (kv.1, shareBase)) =
      (freeCores n shareBase).map fun c => (c, shareBase) := by
    have := keys_filter_value n.available.cpuMap hwf (fun v => decide (v ≥ shareBase))
    unfold freeCores
    rw [← hk]
    have h2 : (n.available.cpuMap.keys.filter fun k => decide (n.capacity.cpuMap.get k - n.usage.cpuMap.get k ≥ shareBase)) =
        n.available.cpuMap.keys.filter fun k => decide (n.available.cpuMap.get k ≥ shareBase) := by
      apply List.filter_congr; intro k _; rw [hg]
    rw [h2, ← this, List.map_map]
    rfl
  have hshare : shareCPUMap n shareBase = (expectedCores n shareBase).map fun c => (c, shareBase) := by
    unfold shareCPUMap expectedCores
    have h1 : (fun (x : String × Int) => match x with | (_, pieces) => decide (pieces ≥ shareBase)) = fun kv => decide (kv.2 ≥ shareBase) := by
      funext ⟨a, b⟩; rfl
    have h2 : (fun (x : String × Int) => match x with | (cpu, _) => (cpu, shareBase)) = fun kv => (kv.1, shareBase) := by
      funext ⟨a, b⟩; rfl
    simp only [h1, h2, hfree, List.length_map]
    split
    · unfold Plan.keys; rw [List.map_map]; rfl
    · rfl
  rw [hshare]
  exact ⟨keys_const_map _ _, fun c hc => get_const_map _ _ c hc⟩

/-- looking an id up in the remap output -/
theorem find_filter_map {α β : Type} (ws : List (String × α)) (p : String × α → Bool) (f : String × α → String × β)
    (hf : ∀ x, (f x).1 = x.1) (hn : (ws.map (·.1)).Nodup) (id : String) (w : α) (hm : (id, w) ∈ ws) :
    ((ws.filter p).map f).find? (fun e => e.1 == id) = if p (id, w) then some (f (id, w)) else none := by
  induction ws with
  | nil => cases hm
  | cons x rest ih =>
    obtain ⟨a, b⟩ := x
    simp only [List.map_cons, List.nodup_cons] at hn
    rcases List.mem_cons.1 hm with e | e
    · cases e
      have hnot : ∀ y ∈ (rest.filter p).map f, (y.1 == id) = false := by
        intro y hy
        simp only [List.mem_map, List.mem_filter] at hy
        obtain ⟨z, ⟨hz, _⟩, rfl⟩ := hy
        rw [hf z]
        have : z.1 ≠ id := fun e => hn.1 (by rw [← e]; exact List.mem_map_of_mem hz)
        simpa using this
      rw [List.filter_cons]
      cases hp : p (id, w)
      · simp only [Bool.false_eq_true, if_false]
        rw [List.find?_eq_none.2]
        intro y hy; simp [hnot y hy]
      · simp only [if_true, List.map_cons, List.find?_cons, hf, beq_self_eq_true]
    · have hne : a ≠ id := fun e' => hn.1 (by rw [e']; exact List.mem_map_of_mem (f := (·.1)) e)
      rw [List.filter_cons]
      cases hp : p (a, b)
      · simp only [Bool.false_eq_true, if_false]; exact ih hn.2 e
      · have : ((f (a, b)).1 == id) = false := by rw [hf]; simpa using hne
        simp only [if_true, List.map_cons, List.find?_cons, this]; exact ih hn.2 e

end Eru.Book
