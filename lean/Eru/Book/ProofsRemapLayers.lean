import Eru.Book.Remap
import Eru.Book.ProofsRemap
/-
Lemmas about `Manager.Remap` and calcium's remap loop.
-/
namespace Eru.Book
open Eru

theorem find_map_pair {β} (ids : List String) (g : String → β) (id : String) :
    (ids.map fun i => (i, g i)).find? (·.1 == id) = if id ∈ ids then some (id, g id) else none := by
  induction ids with
  | nil => rfl
  | cons a rest ih =>
    simp only [List.map_cons, List.find?_cons, List.mem_cons]
    by_cases h : a = id
    · subst h; simp
    · have : (a == id) = false := by simpa using h
      have h' : ¬ id = a := fun e => h e.symm
      simp only [this, ih, h', false_or]

/-- the manager's entry of `id` under the first plugin's key, when no other plugin has that name -/
theorem component_first (name : String) (a : RemapAnswer) (extras : List (String × RemapAnswer))
    (hx : ∀ pa ∈ extras, pa.1 ≠ name) (id : String) :
    ((managerRemap ((name, a) :: extras)).find? (·.1 == id)).bind
        (fun ic => (ic.2.find? (·.1 == name)).map (·.2)) = (a.find? (·.1 == id)).map (·.2) := by
  unfold managerRemap
  simp only
  rw [find_map_pair]
  have hnone : ∀ (l : List (String × RemapAnswer)), (∀ pa ∈ l, pa.1 ≠ name) →
      (l.filterMap fun pa => (pa.2.find? (·.1 == id)).map fun ip => (pa.1, ip.2)).find? (·.1 == name) = none := by
    intro l hl
    rw [List.find?_eq_none]
    intro x hx'
    simp only [List.mem_filterMap, Option.map_eq_some_iff] at hx'
    obtain ⟨pa, hpa, ip, _, rfl⟩ := hx'
    simpa using hl pa hpa
  cases ha : a.find? (·.1 == id) with
  | none =>
    split
    · simp only [Option.bind_some, List.filterMap_cons, ha, Option.map_none]
      rw [hnone extras hx]; rfl
    · rfl
  | some ip =>
    have hmem : id ∈ (List.flatMap (fun pa => pa.2.map (·.1)) ((name, a) :: extras)).eraseDups := by
      rw [List.mem_eraseDups]
      simp only [List.flatMap_cons, List.mem_append, List.mem_map]
      left
      have := List.find?_some ha
      have hm := List.mem_of_find?_eq_some ha
      exact ⟨ip, hm, by simpa using this⟩
    simp only [hmem, if_true, Option.bind_some, List.filterMap_cons, ha, Option.map_some, List.find?_cons,
      beq_self_eq_true]

theorem remapLoop_ids {α} (engine : String → α → Bool) (merged : List (String × α)) :
    (remapLoop engine merged).map (·.1) = merged.map (·.1) := by
  induction merged with
  | nil => rfl
  | cons p rest ih =>
    obtain ⟨id, x⟩ := p
    simp only [remapLoop, List.map_cons, ih]

theorem remapLoop_outcome {α} (engine : String → α → Bool) (merged : List (String × α)) (id : String) (x : α)
    (h : (id, x) ∈ merged) : (id, engine id x) ∈ remapLoop engine merged := by
  induction merged with
  | nil => cases h
  | cons p rest ih =>
    obtain ⟨id', x'⟩ := p
    simp only [remapLoop, List.mem_cons] at h ⊢
    rcases h with h | h
    · cases h; exact Or.inl rfl
    · exact Or.inr (ih h)

end Eru.Book
