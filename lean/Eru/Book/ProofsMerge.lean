import Eru.Book.Spec
/-
Closed form of the capacity merge (C09): whatever the order of the answers, the merged
entry of a node exists iff every answer offers the node, and then carries the minimum
capacity, the weight sum and the weighted sums of usage and rate.
-/
namespace Eru.Book
open Eru

theorem find_map (m : Answer) (g : Cap → Cap) (node : String) :
    Answer.find? (m.map fun (p : String × Cap) => (p.1, g p.2)) node = (m.find? node).map g := by
  induction m with
  | nil => rfl
  | cons p rest ih =>
    obtain ⟨a, c⟩ := p
    simp only [List.map_cons, Answer.find?]
    split <;> simp [ih]

theorem find_filterMap (m1 m2 : Answer) (g : Cap → Cap → Cap) (node : String) :
    Answer.find? (m1.filterMap fun (p : String × Cap) =>
        match m2.find? p.1 with
        | none => none
        | some c2 => some (p.1, g p.2 c2)) node =
      (m1.find? node).bind fun c1 => (m2.find? node).map (g c1) := by
  induction m1 with
  | nil => rfl
  | cons p rest ih =>
    obtain ⟨a, c⟩ := p
    by_cases h : a = node
    · subst h
      cases h2 : m2.find? a with
      | none =>
        simp only [List.filterMap_cons, h2, Answer.find?, if_true, Option.bind_some, Option.map_none]
        rw [ih, h2]; cases Answer.find? rest a <;> rfl
      | some c2 =>
        simp [List.filterMap_cons, h2, Answer.find?]
    · cases h2 : m2.find? a with
      | none => simp only [List.filterMap_cons, h2, Answer.find?, h, if_false]; exact ih
      | some c2 => simp only [List.filterMap_cons, h2, Answer.find?, h, if_false]; exact ih

/-- one merge step, pointwise -/
theorem find_mergeCapacity_some (m1 m2 : Answer) (node : String) :
    (mergeCapacity (some m1) m2).find? node =
      (m1.find? node).bind fun c1 => (m2.find? node).map (mergeEntry c1) := by
  unfold mergeCapacity
  exact find_filterMap m1 m2 mergeEntry node

theorem find_mergeCapacity_none (m2 : Answer) (node : String) :
    (mergeCapacity none m2).find? node = (m2.find? node).map firstEntry := by
  unfold mergeCapacity
  exact find_map m2 firstEntry node

def capsOf (as : List Answer) (node : String) : List Int := as.filterMap fun a => (a.find? node).map (·.cap)

/-- folding further answers onto an accumulated entry -/
theorem find_foldl_merge (rest : List Answer) (acc : Answer) (node : String) :
    ((rest.foldl (fun acc a => some (mergeCapacity acc a)) (some acc)).getD []).find? node =
      (acc.find? node).bind fun c =>
        if offeredByAll rest node then
          some { cap := (capsOf rest node).foldl min c.cap,
                 usage := c.usage + weightedSum rest node (·.usage),
                 rate := c.rate + weightedSum rest node (·.rate),
                 weight := c.weight + weightSum rest node }
        else none := by
  induction rest generalizing acc with
  | nil =>
    simp only [List.foldl_nil, Option.getD_some, offeredByAll, List.all_nil, if_true, capsOf, List.filterMap_nil,
      weightedSum, weightSum, List.map_nil, List.sum_nil]
    cases acc.find? node with
    | none => rfl
    | some c => simp [Rat.add_zero]
  | cons a rest ih =>
    simp only [List.foldl_cons]
    rw [ih, find_mergeCapacity_some]
    cases h1 : acc.find? node with
    | none => rfl
    | some c1 =>
      cases h2 : a.find? node with
      | none => simp [offeredByAll, h2]
      | some c2 =>
        simp only [Option.bind_some, Option.map_some, offeredByAll, List.all_cons, h2, Option.isSome_some, Bool.true_and,
          capsOf, List.filterMap_cons, List.foldl_cons, weightedSum, weightSum, List.map_cons, List.sum_cons, mergeEntry]
        by_cases hall : (rest.all fun a => (a.find? node).isSome) = true
        · simp only [hall, if_true]
          congr 1
          congr 1 <;> grind
        · simp only [hall]
          rfl

/-- the merged entry of `node`, in closed form -/
def mergedOf (as : List Answer) (node : String) : Option Cap :=
  if as ≠ [] ∧ offeredByAll as node = true then
    some { cap := minCap as node, usage := weightedSum as node (·.usage), rate := weightedSum as node (·.rate),
           weight := weightSum as node }
  else none

theorem mergeFold_find (as : List Answer) (node : String) :
    ((mergeFold as).getD []).find? node = mergedOf as node := by
  cases as with
  | nil => simp [mergeFold, mergedOf, Answer.find?]
  | cons a rest =>
    unfold mergeFold
    simp only [List.foldl_cons]
    rw [find_foldl_merge, find_mergeCapacity_none]
    unfold mergedOf
    cases h : a.find? node with
    | none => simp [offeredByAll, h]
    | some c =>
      simp only [Option.map_some, Option.bind_some, ne_eq, reduceCtorEq, not_false_eq_true, true_and, offeredByAll,
        List.all_cons, h, Option.isSome_some, Bool.true_and, firstEntry]
      by_cases hall : (rest.all fun a => (a.find? node).isSome) = true
      · simp only [hall, if_true, minCap, List.filterMap_cons, h, Option.map_some, weightedSum, weightSum,
          List.map_cons, List.sum_cons, capsOf]
      · simp only [hall]
        rfl

end Eru.Book
