import Eru.Book.Remap
/-
Named pieces of the book model (integer guards, diff tests, validation tests, the saturating-add
guard, the plugin name) in the surface form the fact translator emits from the Go source, each
proved to be what the model actually uses.  Eru/Generated/BookFacts.lean (regenerated from /repo
on every run) proves `generated = these`, so an edit to any of these expressions in the Go code
breaks a proof obligation.
-/
namespace Eru.Book.Facts
open Eru Eru.Book

theorem ite_decide_eq {α} (p : Prop) [Decidable p] (a b : α) : (if decide p = true then a else b) = if p then a else b := by
  by_cases h : p <;> simp [h]

/-! ### admission (calculate.go doAllocByMemory / doAllocByCPU) -/
def memLimited (memReq : Int) : Bool := memReq > 0
def memTooSmall (avail memReq k : Int) : Bool := Int.tdiv avail memReq < k
theorem allocByMemory_uses (n : NodeInfo) (k : Int) (req : Req) :
    allocByMemory n k req =
      if req.cpuRequest > ncores n * nano then .error errInsufficientCapacity else
      if (memLimited req.memRequest && memTooSmall n.available.memory req.memRequest k) = true then .error errInsufficientCapacity else
      .ok (List.replicate k.toNat
        { cpuRequest := req.cpuRequest, cpuLimit := req.cpuLimit, memoryRequest := req.memRequest, memoryLimit := req.memLimit }) := by
  simp [allocByMemory, memLimited, memTooSmall]

def plansShort (nplans k : Int) : Bool := nplans < k
theorem allocByCPU_uses (plans : List CPUPlan) (k : Int) (req : Req) :
    allocByCPU plans k req =
      if plansShort plans.length k = true then .err errInsufficientCapacity else
      if k < 0 then .panic "slice bounds out of range" else .ok ((plans.take k.toNat).map (planResource req)) := by
  simp [allocByCPU, plansShort]

/-! ### capacity (node.go doGetNodeDeployCapacity / GetNodesDeployCapacity) -/
def memUnlimited (memReq : Int) : Bool := memReq == 0
theorem deployCapacity_uses (sched : Sched) (n : NodeInfo) (req : Req) (h : req.cpuBind = false)
    (hc : ¬ req.cpuRequest > ncores n * nano) :
    deployCapacity sched n req = if memUnlimited req.memRequest = true then maxInt else Int.tdiv n.available.memory req.memRequest := by
  simp [deployCapacity, memUnlimited, h, hc]

def offered (cap : Int) : Bool := cap > 0
def pluginSticks (total cap : Int) : Bool := (total == maxInt) || (cap == maxInt)
theorem pluginTotalStep_uses (t c : Int) :
    pluginTotalStep t c = if pluginSticks t c = true then maxInt else wrap64 (t + c) := by
  simp [pluginTotalStep, pluginSticks]
theorem pluginDeployCapacity_uses (sched : Sched) (nodes : List (String × NodeInfo)) (req0 req : Req)
    (hv : req0.validate = .ok req) :
    pluginDeployCapacity sched nodes req0 =
      .ok (((nodes.map fun (name, n) => (name, deployCapacity sched n req)).filter fun (_, c) => offered c),
           ((nodes.map fun (name, n) => (name, deployCapacity sched n req)).filter fun (_, c) => offered c).foldl
             (fun t (_, c) => pluginTotalStep t c) 0) := by
  simp [pluginDeployCapacity, hv, offered]

/-! ### the manager's saturating total (cobalt/node.go, after the overflow fix) -/
def satOverflow (total cap : Int) : Bool := cap > maxInt - total
theorem satAdd_uses (t c : Int) : satAdd t c = if satOverflow t c = true then maxInt else t + c := by
  simp [satAdd, satOverflow]

/-! ### node resource check and repair (node.go getNodeResourceInfo / FixNodeResource) -/
def differs (a b : Int) : Bool := decide (a ≠ b)
theorem resourceDiffs_uses (n : NodeInfo) (ws : List WorkloadRes) :
    resourceDiffs n ws =
      (if differs (sumWorkloads ws).cpuRequest n.usage.cpu = true then ["cpu"] else []) ++
      (n.capacity.cpuMap.keys.filter fun cpu => differs ((sumWorkloads ws).cpuMap.get cpu) (n.usage.cpuMap.get cpu)).map ("cpumap:" ++ ·) ++
      ((numaIDs n (sumWorkloads ws)).filter fun id => differs ((sumWorkloads ws).numaMemory.get id) (n.usage.numaMemory.get id)).map ("numa:" ++ ·) ++
      (if differs n.usage.memory (sumWorkloads ws).memoryRequest = true then ["memory"] else []) := by
  simp [resourceDiffs, differs]

def repairNeeded (ndiffs : Nat) : Bool := decide (ndiffs ≠ 0)
theorem fixNodeResource_uses (n : NodeInfo) (ws : List WorkloadRes) (h : repairNeeded (resourceDiffs n ws).length = false) :
    fixNodeResource n ws = (n, n.usage, resourceDiffs n ws) := by
  simp only [repairNeeded, decide_eq_false_iff_not, Decidable.not_not] at h
  simp [fixNodeResource, h]

/-! ### validation of a stored node (types/node.go Validate) -/
def cpuEntryBad (ok : Bool) (totalPieces piecesUsed : Int) : Bool := (!ok || totalPieces < 0) || piecesUsed > totalPieces
theorem cpuMapOk_uses (n : NodeInfo) :
    n.cpuMapOk = n.usage.cpuMap.all fun (cpu, used) =>
      !cpuEntryBad (n.capacity.cpuMap.has cpu) (n.capacity.cpuMap.get cpu) used := by
  unfold NodeInfo.cpuMapOk cpuEntryBad
  congr 1
  funext ⟨cpu, used⟩
  simp only [Bool.not_or, Bool.not_not]

def numaCapNegative (nodeMemory : Int) : Bool := nodeMemory < 0
def numaUsedBad (memoryUsed nodeMemory : Int) : Bool := memoryUsed < 0 || memoryUsed > nodeMemory
theorem numaMemOk_uses (n : NodeInfo) :
    n.numaMemOk = n.capacity.numaMemory.all fun (id, mem) =>
      !numaCapNegative mem && !numaUsedBad (n.usage.numaMemory.get id) mem := rfl

/-! ### request validation, memory part (types/workload.go Validate) -/
def memInvalid (memLimit memReq : Int) : Bool := memLimit < 0 || memReq < 0
def memDefaultsToLimit (memReq memLimit : Int) : Bool := memReq == 0 && memLimit > 0
def memLimitRaised (memLimit memReq : Int) : Bool := (memLimit > 0 && memReq > 0) && memLimit < memReq
theorem v2_uses (w : Req) : w.v2 = if memDefaultsToLimit w.memRequest w.memLimit = true then { w with memRequest := w.memLimit } else w := by
  simp [Req.v2, memDefaultsToLimit]
theorem v3_uses (w : Req) : w.v3 = if memLimitRaised w.memLimit w.memRequest = true then { w with memLimit := w.memRequest } else w := by
  simp [Req.v3, memLimitRaised, and_assoc]
theorem validate_uses (w : Req) (h : memInvalid w.v1.memLimit w.v1.memRequest = true) : w.validate = .error errInvalidMemory := by
  simp only [memInvalid, Bool.or_eq_true, decide_eq_true_eq] at h
  simp [Req.validate, h]

/-! ### remap (calculate.go CalculateRemap) -/
def shareFree (pieces shareBase : Int) : Bool := pieces ≥ shareBase
def noFreeCore (nshare : Nat) : Bool := decide (nshare = 0)
def unbound (ncores : Nat) : Bool := decide (ncores = 0)
/-- the free-core list of `CalculateRemap` -/
def freeShare (n : NodeInfo) (shareBase : Int) : IMap :=
  (n.available.cpuMap.filter fun (_, pieces) => shareFree pieces shareBase).map fun (cpu, _) => (cpu, shareBase)
theorem shareCPUMap_uses (n : NodeInfo) (shareBase : Int) :
    (noFreeCore (freeShare n shareBase).length = true →
      shareCPUMap n shareBase = n.capacity.cpuMap.map fun (cpu, _) => (cpu, shareBase)) ∧
    (noFreeCore (freeShare n shareBase).length = false → shareCPUMap n shareBase = freeShare n shareBase) := by
  constructor
  · intro h
    have h' := of_decide_eq_true h
    unfold freeShare shareFree at h'
    unfold shareCPUMap
    exact if_pos h'
  · intro h
    have h' := of_decide_eq_false h
    unfold freeShare shareFree at h'
    unfold shareCPUMap freeShare shareFree
    exact if_neg h'
theorem calculateRemap_uses (n : NodeInfo) (shareBase : Int) (ws : List (String × WorkloadRes)) (h : ¬ ws.length = 0) :
    calculateRemap n shareBase ws =
      (ws.filter fun (_, w) => unbound w.cpuMap.length).map fun (id, w) =>
        (id, { cpu := w.cpuLimit, cpuMap := shareCPUMap n shareBase, numaNode := w.numaNode, memory := w.memoryLimit, remap := true }) := by
  simp only [calculateRemap, h, if_false, unbound]

/-! ### the plugin's name (cpumem.go), the key of its entries in cobalt's per-plugin maps -/
def pluginName : String := "cpumem"
theorem cpumemComponent_key (merged : List (String × List (String × PluginParams))) (id : String) :
    cpumemComponent merged id = (merged.find? (·.1 == id)).bind fun ic => (ic.2.find? (·.1 == pluginName)).map (·.2) := rfl

end Eru.Book.Facts
