import Eru.Book.Spec
import Eru.Strategy.Spec
/-
Bridge between the resource manager's total (cobalt's fold, `Eru.Book`) and the `total`
assumed by the strategy theorems (`Eru.Strategy.satTotal`, used by C02's
`refusal_implies_infeasible`): they are the same saturating sum.
-/
namespace Eru.Book
open Eru

/-- `Strategy.satTotal` is cobalt's saturating fold over the capacities -/
theorem satTotal_eq_fold (infos : List Strategy.Info) :
    Strategy.satTotal infos = (infos.map (·.cap)).foldl satAdd 0 := by
  unfold Strategy.satTotal
  rw [List.foldl_map]
  congr 1
  funext t i
  unfold satAdd
  by_cases h : t + i.cap > maxInt
  · have : i.cap > maxInt - t := by omega
    simp [h, this]
  · have : ¬ i.cap > maxInt - t := by omega
    simp [h, this]

/-- the total reported by the manager for the merged answers is the `satTotal` of any candidate
    list carrying the merged capacities in the same order (this is the `total` handed to the
    deploy strategies by calcium) -/
theorem manager_total_eq_satTotal (answers : List Answer) (infos : List Strategy.Info)
    (h : infos.map (·.cap) = (managerDeployCapacity answers).1.map (·.2.cap)) :
    (managerDeployCapacity answers).2 = Strategy.satTotal infos := by
  rw [satTotal_eq_fold, h]
  unfold managerDeployCapacity
  simp only [List.foldl_map]

theorem foldl_satAdd_nonneg (l : List Int) (t : Int) (ht : 0 ≤ t) (ht2 : t ≤ maxInt) (hl : ∀ c ∈ l, 0 ≤ c) :
    l.foldl satAdd t = min (t + l.sum) maxInt := by
  induction l generalizing t with
  | nil => simp; omega
  | cons c rest ih =>
    have hc : 0 ≤ c := hl c (by simp)
    have hs : ∀ (l : List Int), (∀ c ∈ l, 0 ≤ c) → 0 ≤ l.sum := by
      intro l; induction l with
      | nil => intro _; simp
      | cons a r ihr => intro hh; have := hh a (by simp); have := ihr (fun x hx => hh x (by simp [hx])); simp only [List.sum_cons]; omega
    have hrs := hs rest (fun x hx => hl x (by simp [hx]))
    simp only [List.foldl_cons, List.sum_cons]
    have hstep : satAdd t c = if c > maxInt - t then maxInt else t + c := rfl
    rw [hstep]
    split
    · rw [ih maxInt (by unfold maxInt; omega) (by omega) (fun x hx => hl x (by simp [hx]))]
      unfold maxInt at *; omega
    · rw [ih (t + c) (by omega) (by omega) (fun x hx => hl x (by simp [hx]))]
      omega

/-- for non-negative capacities `Strategy.satTotal` is `Book.satSum` -/
theorem satTotal_eq_satSum (infos : List Strategy.Info) (h : ∀ i ∈ infos, 0 ≤ i.cap) :
    Strategy.satTotal infos = satSum (infos.map (·.cap)) := by
  rw [satTotal_eq_fold, foldl_satAdd_nonneg _ 0 (by omega) (by unfold maxInt; omega)]
  · simp [satSum]
  · intro c hc
    rw [List.mem_map] at hc
    obtain ⟨i, hi, rfl⟩ := hc
    exact h i hi

end Eru.Book
