import Eru.Book.Spec
/-
Model of the thin layers above the plugin's node resource check (C15):
`cobalt.Manager.GetNodeResourceInfo` (per-plugin extraction of the workloads' resources,
whitelist, choice of FixNodeResource / GetNodeResourceInfo, concatenation of the plugins' diffs)
and `calcium.doGetNodeResource` / `NodeResource` (under the pod lock: list the node's workloads,
call the manager, append inspect failures).
-/
namespace Eru.Book
open Eru

/-- a workload as recorded in the store: its id and what `workload.Resources["cpumem"]` holds
    (`none`: no such key — the nil params parse to the zero resource) -/
structure StoredWorkload where
  id : String
  cpumem : Option WorkloadRes
  deriving Repr, Inhabited

/-- cobalt: `wrks = append(wrks, wrk.Resources[plugin.Name()])`, then the plugin parses each -/
def extractCpumem (stored : List StoredWorkload) : List WorkloadRes := stored.map fun w => w.cpumem.getD {}

/-- `Manager.GetNodeResourceInfo(node, workloads, fix)` as far as the cpumem plugin is concerned.
    `whitelisted`: the plugin passes `config.ResourcePlugin.Whitelist` (nil whitelist = all);
    `otherDiffs`: what the other plugins report.  Result: cpumem's stored node afterwards, the
    usage it reports, and all diffs. -/
def managerNodeResourceInfo (n : NodeInfo) (stored : List StoredWorkload) (fix whitelisted : Bool)
    (otherDiffs : List String) : NodeInfo × Option NodeRes × List String :=
  if !whitelisted then (n, none, otherDiffs) else
  let ws := extractCpumem stored
  if fix then
    let r := fixNodeResource n ws
    (r.1, some r.2.1, r.2.2 ++ otherDiffs)
  else (n, some n.usage, resourceDiffs n ws ++ otherDiffs)

/-- `calcium.doGetNodeResource(node, inspect, fix)` (`NodeResource` = inspect, `PodResource` = no
    inspect, no fix): inside `withNodePodLocked` the node's workloads are listed from the store
    (`stored`), the manager is called, and for `inspect` a diff is appended for every workload
    whose engine inspect fails. -/
def calciumNodeResource (n : NodeInfo) (stored : List StoredWorkload) (inspect fix whitelisted : Bool)
    (otherDiffs : List String) (inspectFails : String → Bool) : NodeInfo × Option NodeRes × List String :=
  let r := managerNodeResourceInfo n stored fix whitelisted otherDiffs
  (r.1, r.2.1, r.2.2 ++ (if inspect then (stored.filter fun w => inspectFails w.id).map fun w => "inspect:" ++ w.id else []))

end Eru.Book
