import Eru.Book.ProofsRollback
/-
The history invariant of C08 and its preservation by every operation.
-/
namespace Eru.Book
open Eru

/-- the scheduler returns Go maps -/
def SchedWF (sched : Sched) : Prop := ∀ n o r, ∀ p ∈ sched n o r, WF p.cpuMap

/-- `delta` is the component-wise difference `new - origin` -/
structure DeltaOf (new origin delta : WorkloadRes) : Prop where
  cpu : delta.cpuRequest = new.cpuRequest - origin.cpuRequest
  mem : delta.memoryRequest = new.memoryRequest - origin.memoryRequest
  cm : ∀ k, delta.cpuMap.get k = new.cpuMap.get k - origin.cpuMap.get k
  nm : ∀ k, delta.numaMemory.get k = new.numaMemory.get k - origin.numaMemory.get k

structure UndoOk (live : List WorkloadRes) (u : Undo) : Prop where
  cur : ∃ new, live[u.idx]? = some new ∧ DeltaOf new u.origin u.delta
  wfo : WFW u.origin
  wfd : WFW u.delta

/-- invariant of a history state -/
structure Inv (s : State) : Prop where
  wf : WFNode s.node
  valid : Valid s.node
  wfl : ∀ w ∈ s.live, WFW w
  cons : Consistent s.node.usage s.live
  undo : ∀ u, s.undo = some u → UndoOk s.live u

/-! ### sums over changing live sets -/

theorem sumBy_set (l : List WorkloadRes) (i : Nat) (x y : WorkloadRes) (f : WorkloadRes → Int) (h : l[i]? = some x) :
    sumBy (l.set i y) f = sumBy l f - f x + f y := by
  induction l generalizing i with
  | nil => simp at h
  | cons a rest ih =>
    cases i with
    | zero =>
      simp only [List.getElem?_cons_zero, Option.some.injEq] at h
      subst h
      simp only [List.set_cons_zero, sumBy_cons]; omega
    | succ j =>
      simp only [List.getElem?_cons_succ] at h
      simp only [List.set_cons_succ, sumBy_cons, ih j h]; omega

theorem sum_filter_split {α} (L : List α) (p : α → Bool) (g : α → Int) :
    ((L.filter p).map g).sum + ((L.filter fun x => !p x).map g).sum = (L.map g).sum := by
  induction L with
  | nil => rfl
  | cons a rest ih =>
    simp only [List.filter_cons, List.map_cons, List.sum_cons]
    cases p a <;> simp <;> omega

theorem sumBy_pick_remove (l : List WorkloadRes) (idxs : List Nat) (f : WorkloadRes → Int) :
    sumBy (pickIdxs l idxs) f + sumBy (removeIdxs l idxs) f = sumBy l f := by
  unfold pickIdxs removeIdxs sumBy
  simp only [List.map_map]
  have h1 : (fun (x : WorkloadRes × Nat) => match x with | (_, i) => idxs.contains i) = fun x => idxs.contains x.2 := by
    funext ⟨a, b⟩; rfl
  have h2 : (fun (x : WorkloadRes × Nat) => match x with | (_, i) => !idxs.contains i) = fun x => !(fun x => idxs.contains x.2) x := by
    funext ⟨a, b⟩; rfl
  rw [h1, h2, sum_filter_split l.zipIdx (fun x => idxs.contains x.2) (f ∘ fun x => x.1)]
  rw [← List.map_map, List.zipIdx_map_fst]

theorem mem_pick (l : List WorkloadRes) (idxs : List Nat) (w : WorkloadRes) (h : w ∈ pickIdxs l idxs) : w ∈ l := by
  unfold pickIdxs at h
  simp only [List.mem_map, List.mem_filter] at h
  obtain ⟨⟨a, i⟩, ⟨hm, _⟩, rfl⟩ := h
  have : a ∈ List.map Prod.fst (l.zipIdx) := List.mem_map_of_mem hm
  rwa [List.zipIdx_map_fst] at this

theorem mem_remove (l : List WorkloadRes) (idxs : List Nat) (w : WorkloadRes) (h : w ∈ removeIdxs l idxs) : w ∈ l := by
  unfold removeIdxs at h
  simp only [List.mem_map, List.mem_filter] at h
  obtain ⟨⟨a, i⟩, ⟨hm, _⟩, rfl⟩ := h
  have : a ∈ List.map Prod.fst (l.zipIdx) := List.mem_map_of_mem hm
  rwa [List.zipIdx_map_fst] at this

/-! ### the resources produced by the calculations are Go maps -/

theorem planResource_wfw (sched : Sched) (hs : SchedWF sched) (n : NodeInfo) (o : IMap) (r req : Req) (p : CPUPlan)
    (hp : p ∈ sched n o r) : WFW (planResource req p) := by
  refine ⟨hs n o r p hp, ?_⟩
  unfold planResource; simp only
  split
  · simp [WF, Plan.keys]
  · exact WF_nil

theorem calculateDeploy_wfw (sched : Sched) (hs : SchedWF sched) (n : NodeInfo) (k : Int) (req : Req) (ws : List WorkloadRes)
    (h : calculateDeploy sched n k req = .ok ws) : ∀ w ∈ ws, WFW w := by
  unfold calculateDeploy at h
  cases hv : req.validate with
  | error e => rw [hv] at h; cases h
  | ok r =>
    rw [hv] at h
    simp only at h
    by_cases hb : r.cpuBind = true
    · simp only [hb, Bool.not_true, Bool.false_eq_true, if_false] at h
      unfold allocByCPU at h
      by_cases c1 : ((sched n [] r).length : Int) < k
      · simp [c1] at h
      · by_cases c2 : k < 0
        · simp [c1, c2] at h
        · simp only [c1, c2, if_false, Outcome.ok.injEq] at h
          subst h
          intro w hw
          rw [List.mem_map] at hw
          obtain ⟨p, hp, rfl⟩ := hw
          exact planResource_wfw sched hs n [] r r p (List.mem_of_mem_take hp)
    · have hb' : r.cpuBind = false := by simpa using hb
      simp only [hb', Bool.not_false, if_true] at h
      cases ha : allocByMemory n k r with
      | error e => rw [ha] at h; cases h
      | ok ws' =>
        rw [ha] at h
        simp only [Outcome.ok.injEq] at h
        subst h
        unfold allocByMemory at ha
        by_cases c1 : r.cpuRequest > ncores n * nano
        · simp [c1] at ha
        · by_cases c2 : r.memRequest > 0 ∧ Int.tdiv n.available.memory r.memRequest < k
          · simp [c1, c2] at ha
          · simp only [c1, c2, if_false, Except.ok.injEq] at ha
            subst ha
            intro w hw
            rw [List.mem_replicate] at hw
            rw [hw.2]; exact ⟨WF_nil, WF_nil⟩

theorem deltaOf_sub (new origin : WorkloadRes) (hn : WFW new) (ho : WFW origin) :
    DeltaOf new origin (new.deepCopy.sub origin) ∧ WFW (new.deepCopy.sub origin) := by
  have hd : new.deepCopy = new := by
    unfold WorkloadRes.deepCopy; rw [copyMap_eq_self _ hn.1, copyMap_eq_self _ hn.2]
  rw [hd]
  refine ⟨⟨rfl, rfl, fun k => ?_, fun k => ?_⟩, ⟨WF_mapSub _ _ hn.1, WF_mapSub _ _ hn.2⟩⟩
  · simp only [WorkloadRes.sub]; exact get_mapSub _ _ k ho.1
  · simp only [WorkloadRes.sub]; exact get_mapSub _ _ k ho.2

theorem calculateRealloc_spec (sched : Sched) (hs : SchedWF sched) (n : NodeInfo) (origin : WorkloadRes) (ho : WFW origin)
    (req : Req) (new delta : WorkloadRes) (h : calculateRealloc sched n origin req = .ok (new, delta)) :
    WFW new ∧ DeltaOf new origin delta ∧ WFW delta := by
  have key : ∀ x : WorkloadRes, WFW x → Outcome.ok (x, x.deepCopy.sub origin) = Outcome.ok (new, delta) →
      WFW new ∧ DeltaOf new origin delta ∧ WFW delta := by
    intro x hx he
    simp only [Outcome.ok.injEq, Prod.mk.injEq] at he
    obtain ⟨h1, h2⟩ := he
    subst h1; subst h2
    exact ⟨hx, (deltaOf_sub x origin hx ho).1, (deltaOf_sub x origin hx ho).2⟩
  unfold calculateRealloc at h
  cases hv : (reallocReq origin req).validate with
  | error e => rw [hv] at h; cases h
  | ok newReq =>
    rw [hv] at h
    simp only at h
    by_cases hb : reallocBind origin req = true
    · simp only [hb, if_true] at h
      cases hp : sched (giveBack n origin) origin.cpuMap newReq with
      | nil => rw [hp] at h; cases h
      | cons p rest =>
        rw [hp] at h
        simp only at h
        refine key _ ⟨hs _ _ _ p (by rw [hp]; simp), ?_⟩ h
        simp only [reallocResource]
        split
        · simp [WF, Plan.keys]
        · exact WF_nil
    · simp only [hb, if_false] at h
      cases ha : allocByMemory (giveBack n origin) 1 newReq with
      | error e => rw [ha] at h; cases h
      | ok _ =>
        rw [ha] at h
        simp only at h
        exact key _ ⟨WF_nil, WF_nil⟩ h

end Eru.Book

namespace Eru.Book
open Eru

/-- a failing step only clears the undo record -/
theorem inv_clear_undo (s : State) (h : Inv s) : Inv { s with undo := none } :=
  ⟨h.wf, h.valid, h.wfl, h.cons, fun _ hu => by cases hu⟩

/-- consistency after applying workload resources with sign `sg incr` -/
theorem consistent_after (u u' : NodeRes) (live live' ws : List WorkloadRes) (incr : Bool) (hc : Consistent u live)
    (a : u'.cpu = u.cpu + sg incr * sumBy ws (·.cpuRequest))
    (b : u'.memory = u.memory + sg incr * sumBy ws (·.memoryRequest))
    (c : ∀ k, u'.cpuMap.get k = u.cpuMap.get k + sg incr * sumBy ws (·.cpuMap.get k))
    (d : ∀ k, u'.numaMemory.get k = u.numaMemory.get k + sg incr * sumBy ws (·.numaMemory.get k))
    (hl : ∀ f : WorkloadRes → Int, sumBy live' f = sumBy live f + sg incr * sumBy ws f) : Consistent u' live' := by
  obtain ⟨c1, c2, c3, c4⟩ := hc
  refine ⟨?_, ?_, fun k => ?_, fun k => ?_⟩
  · rw [a, c1, hl]
  · rw [b, c2, hl]
  · rw [c, c3, hl]
  · rw [d, c4, hl]

/-- the workload resources named by an operation are Go maps (only `readd` names one) -/
def OpWF : Op → Prop
  | .readd w => WFW w
  | .failing op => OpWF op
  | _ => True

/-- every operation of a history preserves the invariant, for any scheduler returning Go maps -/
theorem step_inv_cap (sched : Sched) (hs : SchedWF sched) (s : State) (h : Inv s) (op : Op) (hop : OpWF op) :
    Inv (step sched s op).1 ∧ (step sched s op).1.node.capacity = s.node.capacity := by
  induction op with
  | alloc k req =>
    simp only [step]
    cases ha : alloc sched [] s.node k req with
    | err e => exact ⟨inv_clear_undo s h, rfl⟩
    | panic m => exact ⟨inv_clear_undo s h, rfl⟩
    | diverge => exact ⟨inv_clear_undo s h, rfl⟩
    | ok r =>
      obtain ⟨ws, n'⟩ := r
      simp only
      -- unpack Manager.Alloc
      unfold alloc at ha
      split at ha
      · cases ha
      · cases hcd : calculateDeploy sched s.node k req with
        | err e => rw [hcd] at ha; cases ha
        | panic m => rw [hcd] at ha; cases ha
        | diverge => rw [hcd] at ha; cases ha
        | ok ws' =>
          rw [hcd] at ha
          simp only at ha
          split at ha
          · cases ha
          · cases hset : setNodeResourceUsage s.node none ws' true true with
            | error e => rw [hset] at ha; cases ha
            | ok n'' =>
              rw [hset] at ha
              simp only [Outcome.ok.injEq, Prod.mk.injEq] at ha
              obtain ⟨e1, e2⟩ := ha
              subst e1; subst e2
              have hww := calculateDeploy_wfw sched hs s.node k req ws' hcd
              obtain ⟨hcp, hw', hv', a, b, c, d, _⟩ := set_usage_spec s.node n'' h.wf ws' hww true hset
              refine ⟨⟨hw', hv', ?_, ?_, fun _ hu => by cases hu⟩, hcp⟩
              · intro w hw
                rcases List.mem_append.1 hw with h1 | h1
                · exact h.wfl w h1
                · exact hww w h1
              · exact consistent_after _ _ s.live _ ws' true h.cons a b c d
                  (fun f => by rw [sumBy_append]; simp [sg])
  | drop idxs =>
    simp only [step]
    cases hr : release s.node (pickIdxs s.live idxs) with
    | error e => exact ⟨inv_clear_undo s h, rfl⟩
    | ok n' =>
      simp only
      have hww : ∀ w ∈ pickIdxs s.live idxs, WFW w := fun w hw => h.wfl w (mem_pick _ _ _ hw)
      obtain ⟨hcp, hw', hv', a, b, c, d, _⟩ := set_usage_spec s.node n' h.wf _ hww false hr
      refine ⟨⟨hw', hv', fun w hw => h.wfl w (mem_remove _ _ _ hw), ?_, fun _ hu => by cases hu⟩, hcp⟩
      exact consistent_after _ _ s.live _ (pickIdxs s.live idxs) false h.cons a b c d
        (fun f => by have := sumBy_pick_remove s.live idxs f; simp only [sg, Bool.false_eq_true, if_false]; omega)
  | realloc i req =>
    simp only [step]
    cases hl : s.live[i]? with
    | none => exact ⟨inv_clear_undo s h, rfl⟩
    | some origin =>
      simp only
      have ho : WFW origin := h.wfl origin (List.mem_of_getElem? hl)
      cases hr : realloc sched s.node origin req with
      | err e => exact ⟨inv_clear_undo s h, rfl⟩
      | panic m => exact ⟨inv_clear_undo s h, rfl⟩
      | diverge => exact ⟨inv_clear_undo s h, rfl⟩
      | ok r =>
        obtain ⟨newRes, delta, n'⟩ := r
        simp only
        unfold realloc at hr
        cases hc : calculateRealloc sched s.node origin req with
        | err e => rw [hc] at hr; cases hr
        | panic m => rw [hc] at hr; cases hr
        | diverge => rw [hc] at hr; cases hr
        | ok nd =>
          obtain ⟨new', delta'⟩ := nd
          rw [hc] at hr
          simp only at hr
          cases hset : setNodeResourceUsage s.node none [delta'] true true with
          | error e => rw [hset] at hr; cases hr
          | ok n'' =>
            rw [hset] at hr
            simp only [Outcome.ok.injEq, Prod.mk.injEq] at hr
            obtain ⟨e1, e2, e3⟩ := hr
            subst e1; subst e2; subst e3
            obtain ⟨hnw, hdel, hdw⟩ := calculateRealloc_spec sched hs s.node origin ho req new' delta' hc
            have hww : ∀ w ∈ [delta'], WFW w := by intro w hw; simp only [List.mem_singleton] at hw; subst hw; exact hdw
            obtain ⟨hcp, hw', hv', a, b, c, d, _⟩ := set_usage_spec s.node n'' h.wf _ hww true hset
            have hi : i < s.live.length := by
              rcases List.getElem?_eq_some_iff.1 hl with ⟨hlt, _⟩; exact hlt
            refine ⟨⟨hw', hv', ?_, ?_, ?_⟩, hcp⟩
            · intro w hw
              rcases List.mem_or_eq_of_mem_set hw with h1 | h1
              · exact h.wfl w h1
              · subst h1; exact hnw
            · obtain ⟨c1, c2, c3, c4⟩ := h.cons
              simp only [sg, if_true, sumBy_cons, sumBy_nil] at a b c d
              refine ⟨?_, ?_, fun k => ?_, fun k => ?_⟩
              · rw [a, c1, sumBy_set _ _ _ _ _ hl, hdel.cpu]; omega
              · rw [b, c2, sumBy_set _ _ _ _ _ hl, hdel.mem]; omega
              · rw [c, c3, sumBy_set _ _ _ _ _ hl, hdel.cm]; omega
              · rw [d, c4, sumBy_set _ _ _ _ _ hl, hdel.nm]; omega
            · intro u hu
              simp only [Option.some.injEq] at hu
              subst hu
              exact ⟨⟨new', List.getElem?_set_self hi, hdel⟩, ho, hdw⟩
  | rollbackRealloc =>
    simp only [step]
    cases hu : s.undo with
    | none => simp only; exact ⟨h, trivial⟩
    | some u =>
      simp only
      obtain ⟨⟨new, hcur, hdel⟩, huo, hud⟩ := h.undo u hu
      cases hr : rollbackRealloc s.node u.delta with
      | error e => exact ⟨inv_clear_undo s h, rfl⟩
      | ok n' =>
        simp only
        have hww : ∀ w ∈ [u.delta], WFW w := by intro w hw; simp only [List.mem_singleton] at hw; subst hw; exact hud
        obtain ⟨hcp, hw', hv', a, b, c, d, _⟩ := set_usage_spec s.node n' h.wf _ hww false hr
        refine ⟨⟨hw', hv', ?_, ?_, fun _ hu' => by cases hu'⟩, hcp⟩
        · intro w hw
          rcases List.mem_or_eq_of_mem_set hw with h1 | h1
          · exact h.wfl w h1
          · subst h1; exact huo
        · obtain ⟨c1, c2, c3, c4⟩ := h.cons
          simp only [sg, Bool.false_eq_true, if_false, sumBy_cons, sumBy_nil] at a b c d
          refine ⟨?_, ?_, fun k => ?_, fun k => ?_⟩
          · rw [a, c1, sumBy_set _ _ _ _ _ hcur, hdel.cpu]; omega
          · rw [b, c2, sumBy_set _ _ _ _ _ hcur, hdel.mem]; omega
          · rw [c, c3, sumBy_set _ _ _ _ _ hcur, hdel.cm]; omega
          · rw [d, c4, sumBy_set _ _ _ _ _ hcur, hdel.nm]; omega

  | readd w =>
    simp only [step]
    cases hr : setNodeResourceUsage s.node none [w] true true with
    | error e => exact ⟨inv_clear_undo s h, rfl⟩
    | ok n' =>
      simp only
      have hww : ∀ x ∈ [w], WFW x := by intro x hx; simp only [List.mem_singleton] at hx; subst hx; exact hop
      obtain ⟨hcp, hw', hv', a, b, c, d, _⟩ := set_usage_spec s.node n' h.wf _ hww true hr
      refine ⟨⟨hw', hv', ?_, ?_, fun _ hu => by cases hu⟩, hcp⟩
      · intro x hx
        rcases List.mem_append.1 hx with h1 | h1
        · exact h.wfl x h1
        · exact hww x h1
      · exact consistent_after _ _ s.live _ [w] true h.cons a b c d
          (fun f => by rw [sumBy_append]; simp [sg])
  | failing op ih =>
    simp only [step]
    obtain ⟨hinv, hcap⟩ := ih hop
    cases hst : step sched s op with
    | mk s1 ok =>
      rw [hst] at hinv hcap
      simp only at hinv hcap ⊢
      cases ok with
      | false => simp only [Bool.false_eq_true, if_false]; exact ⟨hinv, hcap⟩
      | true =>
        simp only [if_true]
        obtain ⟨r1, r2, r3, r4⟩ := rollbackUsage_spec s.node s1.node h.wf h.valid hinv.wf hcap
        refine ⟨⟨r1, r2, h.wfl, ?_, fun _ hu => by cases hu⟩, r4⟩
        obtain ⟨c1, c2, c3, c4⟩ := h.cons
        exact ⟨by rw [r3.1]; exact c1, by rw [r3.2.1]; exact c2, fun k => by rw [r3.2.2.1 k]; exact c3 k,
          fun k => by rw [r3.2.2.2 k]; exact c4 k⟩

theorem step_inv (sched : Sched) (hs : SchedWF sched) (s : State) (h : Inv s) (op : Op) (hop : OpWF op) :
    Inv (step sched s op).1 :=
  (step_inv_cap sched hs s h op hop).1

theorem usageEq_refl (u : NodeRes) : UsageEq u u := ⟨rfl, rfl, fun _ => rfl, fun _ => rfl⟩

/-- Any operation that does not succeed — refused, invalid, failing validation, or failing
    because *another plugin* fails in the commit (cobalt then rolls cpumem back) — leaves the
    cpumem usage as it was and the live set unchanged. -/
theorem failed_step_unchanged (sched : Sched) (hs : SchedWF sched) (s : State) (h : Inv s) (op : Op) (hop : OpWF op)
    (hf : (step sched s op).2 = false) :
    UsageEq (step sched s op).1.node.usage s.node.usage ∧ (step sched s op).1.live = s.live := by
  induction op with
  | alloc k req =>
    simp only [step] at hf ⊢
    cases hh : alloc sched [] s.node k req with
    | ok r => rw [hh] at hf; cases hf
    | err e => exact ⟨usageEq_refl _, rfl⟩
    | panic m => exact ⟨usageEq_refl _, rfl⟩
    | diverge => exact ⟨usageEq_refl _, rfl⟩
  | drop idxs =>
    simp only [step] at hf ⊢
    cases hh : release s.node (pickIdxs s.live idxs) with
    | ok n' => rw [hh] at hf; cases hf
    | error e => exact ⟨usageEq_refl _, rfl⟩
  | realloc i req =>
    simp only [step] at hf ⊢
    cases hl : s.live[i]? with
    | none => exact ⟨usageEq_refl _, rfl⟩
    | some origin =>
      rw [hl] at hf
      simp only at hf ⊢
      cases hh : realloc sched s.node origin req with
      | ok r => rw [hh] at hf; cases hf
      | err e => exact ⟨usageEq_refl _, rfl⟩
      | panic m => exact ⟨usageEq_refl _, rfl⟩
      | diverge => exact ⟨usageEq_refl _, rfl⟩
  | rollbackRealloc =>
    simp only [step] at hf ⊢
    cases hu : s.undo with
    | none => exact ⟨usageEq_refl _, rfl⟩
    | some u =>
      rw [hu] at hf
      simp only at hf ⊢
      cases hh : rollbackRealloc s.node u.delta with
      | ok n' => rw [hh] at hf; cases hf
      | error e => exact ⟨usageEq_refl _, rfl⟩
  | readd w =>
    simp only [step] at hf ⊢
    cases hh : setNodeResourceUsage s.node none [w] true true with
    | ok n' => rw [hh] at hf; cases hf
    | error e => exact ⟨usageEq_refl _, rfl⟩
  | failing op' ih =>
    have ih := ih hop
    have ⟨hinv, hcap⟩ := step_inv_cap sched hs s h op' hop
    simp only [step]
    cases hst : step sched s op' with
    | mk s1 ok =>
      rw [hst] at hinv hcap ih
      simp only at hinv hcap ih ⊢
      cases ok with
      | true =>
        simp only [if_true]
        exact ⟨(rollbackUsage_spec s.node s1.node h.wf h.valid hinv.wf hcap).2.2.1, trivial⟩
      | false =>
        simp only [Bool.false_eq_true, if_false]
        exact ih rfl

/-- A commit in which another plugin fails never succeeds and leaves the cpumem usage as it was
    (cobalt's per-plugin rollback with the reported `Before`), whatever the operation. -/
theorem failing_step_restores (sched : Sched) (hs : SchedWF sched) (s : State) (h : Inv s) (op : Op) (hop : OpWF op) :
    (step sched s (.failing op)).2 = false ∧
    UsageEq (step sched s (.failing op)).1.node.usage s.node.usage ∧ (step sched s (.failing op)).1.live = s.live := by
  have hf : (step sched s (.failing op)).2 = false := by
    simp only [step]
    cases step sched s op with
    | mk s1 ok => cases ok <;> rfl
  exact ⟨hf, failed_step_unchanged sched hs s h (.failing op) hop hf⟩

theorem run_inv (sched : Sched) (hs : SchedWF sched) (ops : List Op) (hops : ∀ op ∈ ops, OpWF op) (s : State) (h : Inv s) :
    Inv (run sched s ops) := by
  induction ops generalizing s with
  | nil => exact h
  | cons op rest ih =>
    unfold run
    simp only [List.foldl_cons]
    exact ih (fun o ho => hops o (by simp [ho])) _ (step_inv sched hs s h op (hops op (by simp)))

end Eru.Book
