import Eru.Book.Types
/-
Model of resource/plugins/cpumem/{calculate.go,node.go}: capacity, admission,
re-allocation delta, remap, incremental usage update, consistency check and repair.

The CPU scheduler (`schedule.GetCPUPlans`) is an abstract parameter `Sched`: it is
modelled by another group, and everything here holds for any scheduler.
-/
namespace Eru.Book
open Eru

/-- `schedule.GetCPUPlans(info, originCPUMap, shareBase, maxShare, req)` with the two
    config constants fixed -/
abbrev Sched := NodeInfo → IMap → Req → List CPUPlan

def ncores (n : NodeInfo) : Int := n.capacity.cpuMap.length

/-- doAllocByMemory: the workloads' resources (engine params carry the same limits) -/
def allocByMemory (n : NodeInfo) (k : Int) (req : Req) : Except String (List WorkloadRes) :=
  if req.cpuRequest > ncores n * nano then .error errInsufficientCapacity else
  if req.memRequest > 0 ∧ Int.tdiv n.available.memory req.memRequest < k then .error errInsufficientCapacity else
  .ok (List.replicate k.toNat
        { cpuRequest := req.cpuRequest, cpuLimit := req.cpuLimit, memoryRequest := req.memRequest, memoryLimit := req.memLimit })

def planResource (req : Req) (p : CPUPlan) : WorkloadRes :=
  { cpuRequest := req.cpuRequest, cpuLimit := req.cpuLimit, memoryRequest := req.memRequest, memoryLimit := req.memLimit,
    cpuMap := p.cpuMap, numaNode := p.numaNode,
    numaMemory := if p.numaNode.length > 0 then [(p.numaNode, req.memRequest)] else [] }

/-- doAllocByCPU; `cpuPlans[:deployCount]` panics for a negative count -/
def allocByCPU (plans : List CPUPlan) (k : Int) (req : Req) : Outcome (List WorkloadRes) :=
  if (plans.length : Int) < k then .err errInsufficientCapacity else
  if k < 0 then .panic "slice bounds out of range" else
  .ok ((plans.take k.toNat).map (planResource req))

/-- CalculateDeploy on a node whose stored info is `n` -/
def calculateDeploy (sched : Sched) (n : NodeInfo) (k : Int) (req : Req) : Outcome (List WorkloadRes) :=
  match req.validate with
  | .error e => .err e
  | .ok req =>
    if !req.cpuBind then
      match allocByMemory n k req with
      | .ok ws => .ok ws
      | .error e => .err e
    else allocByCPU (sched n [] req) k req

/-- doGetNodeDeployCapacity (capacity only; usage/rate/weight are floats used for ranking) -/
def deployCapacity (sched : Sched) (n : NodeInfo) (req : Req) : Int :=
  if !req.cpuBind then
    if req.cpuRequest > ncores n * nano then 0
    else if req.memRequest = 0 then maxInt
    else Int.tdiv n.available.memory req.memRequest
  else ((sched n [] req).length : Int)

/-- the plugin's running total, as written: sticks at MaxInt once reached or when a node is
    unlimited, otherwise a plain int64 addition (explicit wrap) -/
def pluginTotalStep (total cap : Int) : Int :=
  if total = maxInt ∨ cap = maxInt then maxInt else wrap64 (total + cap)

/-- Plugin.GetNodesDeployCapacity over the stored nodes (in the iteration order given):
    offered nodes with their capacity, and the total -/
def pluginDeployCapacity (sched : Sched) (nodes : List (String × NodeInfo)) (req : Req) :
    Except String (List (String × Int) × Int) :=
  match req.validate with
  | .error e => .error e
  | .ok req =>
    let caps := nodes.map fun (name, n) => (name, deployCapacity sched n req)
    let offered := caps.filter fun (_, c) => c > 0
    .ok (offered, offered.foldl (fun t (_, c) => pluginTotalStep t c) 0)

/-- calculateNodeResource with `req = nil` (the resource-request form is not used by the
    bookkeeping paths): node resource > workload list; `!delta` forces a rewrite from zero
    with `incr = true` -/
def calculateNodeResource (nodeResource : Option NodeRes) (origin : NodeRes) (ws : List WorkloadRes)
    (delta incr : Bool) : NodeRes :=
  let incr := if !delta then true else incr
  let resp : NodeRes := if !delta then ({} : NodeRes).deepCopy else origin.deepCopy
  match nodeResource with
  | some r => if incr then resp.add r else resp.sub r
  | none => ws.foldl (fun acc w => if incr then acc.add w.toNodeRes else acc.sub w.toNodeRes) resp

/-- SetNodeResourceUsage: new stored info, or the validation error (nothing stored) -/
def setNodeResourceUsage (n : NodeInfo) (nodeResource : Option NodeRes) (ws : List WorkloadRes)
    (delta incr : Bool) : Except String NodeInfo :=
  ({ n with usage := calculateNodeResource nodeResource n.usage ws delta incr } : NodeInfo).validate

/-- SetNodeResourceInfo -/
def setNodeResourceInfo (capacity usage : NodeRes) : Except String NodeInfo :=
  ({ capacity := capacity, usage := usage } : NodeInfo).validate

/-- CalculateRealloc: does the re-allocated workload bind CPUs (`keep-cpu-bind` overrides) -/
def reallocBind (origin : WorkloadRes) (req : Req) : Bool :=
  if req.keepCPUBind then decide (origin.cpuMap.length > 0) else req.cpuBind

/-- CalculateRealloc: the new request = delta request + origin resource -/
def reallocReq (origin : WorkloadRes) (req : Req) : Req :=
  { cpuBind := reallocBind origin req, cpuRequest := req.cpuRequest + origin.cpuRequest,
    cpuLimit := req.cpuLimit + origin.cpuLimit, memRequest := req.memRequest + origin.memoryRequest,
    memLimit := req.memLimit + origin.memoryLimit }

/-- CalculateRealloc: the new workload resource -/
def reallocResource (newReq : Req) (cpuMap : IMap) (numaNode : String) (numaMemory : IMap) : WorkloadRes :=
  { cpuRequest := newReq.cpuRequest, cpuLimit := newReq.cpuLimit, memoryRequest := newReq.memRequest,
    memoryLimit := newReq.memLimit, cpuMap := cpuMap, numaMemory := numaMemory, numaNode := numaNode }

/-- the node with the origin resource given back to the pool -/
def giveBack (n : NodeInfo) (origin : WorkloadRes) : NodeInfo := { n with usage := n.usage.sub origin.toNodeRes }

/-- CalculateRealloc: (new workload resource, delta resource = new.DeepCopy().Sub(origin)) -/
def calculateRealloc (sched : Sched) (n : NodeInfo) (origin : WorkloadRes) (req : Req) :
    Outcome (WorkloadRes × WorkloadRes) :=
  match (reallocReq origin req).validate with
  | .error e => .err e
  | .ok newReq =>
    if reallocBind origin req then
      match sched (giveBack n origin) origin.cpuMap newReq with
      | [] => .err errInsufficientResource
      | p :: _ =>
        let newRes := reallocResource newReq p.cpuMap p.numaNode
          (if p.numaNode.length > 0 then [(p.numaNode, newReq.memRequest)] else [])
        .ok (newRes, newRes.deepCopy.sub origin)
    else
      match allocByMemory (giveBack n origin) 1 newReq with
      | .error e => .err e
      | .ok _ =>
        let newRes := reallocResource newReq [] "" []
        .ok (newRes, newRes.deepCopy.sub origin)

/-- CalculateRemap: engine parameters for the workloads without CPU binding -/
def shareCPUMap (n : NodeInfo) (shareBase : Int) : IMap :=
  let free := (n.available.cpuMap.filter fun (_, pieces) => pieces ≥ shareBase).map fun (cpu, _) => (cpu, shareBase)
  if free.length = 0 then n.capacity.cpuMap.map fun (cpu, _) => (cpu, shareBase) else free

def calculateRemap (n : NodeInfo) (shareBase : Int) (ws : List (String × WorkloadRes)) : List (String × EngineParams) :=
  if ws.length = 0 then [] else
  let share := shareCPUMap n shareBase
  (ws.filter fun (_, w) => w.cpuMap.length = 0).map fun (id, w) =>
    (id, { cpu := w.cpuLimit, cpuMap := share, numaNode := w.numaNode, memory := w.memoryLimit, remap := true })

/-- the sum built by getNodeResourceInfo: `actuallyWorkloadsUsage.Add(w)` for every workload -/
def sumWorkloads (ws : List WorkloadRes) : WorkloadRes := ws.foldl WorkloadRes.add {}

/-- the NUMA ids compared by getNodeResourceInfo (fixed code): every id known to the capacity,
    the recorded usage or the workloads' sum, each once (Go builds a key set) -/
def numaIDs (n : NodeInfo) (s : WorkloadRes) : List String :=
  n.capacity.numaMemory.keys ++
  (n.usage.numaMemory.keys.filter fun k => !n.capacity.numaMemory.keys.contains k) ++
  (s.numaMemory.keys.filter fun k => !n.capacity.numaMemory.keys.contains k && !n.usage.numaMemory.keys.contains k)

/-- getNodeResourceInfo: diffs (as tags) between the stored usage and the workloads' sum;
    per-core pieces are compared over the keys of the *capacity* map only, as written
    (usage keys outside it are rejected by Validate) -/
def resourceDiffs (n : NodeInfo) (ws : List WorkloadRes) : List String :=
  let s := sumWorkloads ws
  (if s.cpuRequest ≠ n.usage.cpu then ["cpu"] else []) ++
  (n.capacity.cpuMap.keys.filter fun cpu => s.cpuMap.get cpu ≠ n.usage.cpuMap.get cpu).map ("cpumap:" ++ ·) ++
  ((numaIDs n s).filter fun id => s.numaMemory.get id ≠ n.usage.numaMemory.get id).map ("numa:" ++ ·) ++
  (if n.usage.memory ≠ s.memoryRequest then ["memory"] else [])

/-- FixNodeResource: (stored info afterwards, reported usage, reported diffs) -/
def fixNodeResource (n : NodeInfo) (ws : List WorkloadRes) : NodeInfo × NodeRes × List String :=
  let diffs := resourceDiffs n ws
  if diffs.length = 0 then (n, n.usage, diffs) else
  let s := sumWorkloads ws
  let usage : NodeRes := { cpu := s.cpuRequest, cpuMap := s.cpuMap, memory := s.memoryRequest, numaMemory := s.numaMemory, numa := [] }
  match ({ n with usage := usage } : NodeInfo).validate with
  | .ok n' => (n', n'.usage, diffs)
  | .error e => (n, usage, diffs ++ [e])

end Eru.Book
