import Eru.Book.Proofs
/-
Helper lemmas about the plugin calculations: request validation, node validation on
well-formed stored nodes, memory-only allocation.
-/
namespace Eru.Book
open Eru

/-- what a validated request guarantees -/
theorem validate_props (r0 r : Req) (h : r0.validate = .ok r) :
    0 ≤ r.memRequest ∧ 0 ≤ r.cpuRequest ∧ r.cpuBind = r0.cpuBind ∧ (r.cpuBind = true → 0 < r.cpuRequest) := by
  unfold Req.validate at h
  split at h; · cases h
  split at h; · cases h
  split at h; · cases h
  cases h
  rename_i h1 h2 h3
  have a1 : r0.v1.v2.cpuBind = r0.v1.cpuBind ∧ r0.v1.v2.cpuRequest = r0.v1.cpuRequest ∧ 0 ≤ r0.v1.v2.memRequest := by
    unfold Req.v2; split <;> simp_all <;> omega
  have a2 : r0.v1.v2.v3.cpuBind = r0.v1.v2.cpuBind ∧ r0.v1.v2.v3.cpuRequest = r0.v1.v2.cpuRequest ∧ r0.v1.v2.v3.memRequest = r0.v1.v2.memRequest := by
    unfold Req.v3; split <;> simp_all
  have a3 : r0.v1.v2.v3.v4.cpuBind = r0.v1.v2.v3.cpuBind ∧ r0.v1.v2.v3.v4.cpuRequest = r0.v1.v2.v3.cpuRequest ∧ r0.v1.v2.v3.v4.memRequest = r0.v1.v2.v3.memRequest := by
    unfold Req.v4; split <;> simp_all
  have a4 : r0.v1.v2.v3.v4.v5.cpuBind = r0.v1.v2.v3.v4.cpuBind ∧ r0.v1.v2.v3.v4.v5.cpuRequest ≥ r0.v1.v2.v3.v4.cpuRequest ∧ r0.v1.v2.v3.v4.v5.memRequest = r0.v1.v2.v3.v4.memRequest := by
    unfold Req.v5; split <;> simp_all <;> omega
  have a0 : r0.v1.cpuBind = r0.cpuBind := by unfold Req.v1; split <;> simp_all
  refine ⟨by omega, by omega, ?_, ?_⟩
  · rw [a4.1, a3.1, a2.1, a1.1, a0]
  · intro hb
    rw [a4.1, a3.1, a2.1, a1.1] at hb
    have : r0.v1.cpuRequest ≠ 0 := fun e => h3 ⟨e, hb⟩
    omega

/-- the maps of a node are Go maps -/
structure WFNode (n : NodeInfo) : Prop where
  cc : WF n.capacity.cpuMap
  cn : WF n.capacity.numaMemory
  uc : WF n.usage.cpuMap
  un : WF n.usage.numaMemory

theorem NodeRes.deepCopy_eq (r : NodeRes) (h1 : WF r.cpuMap) (h2 : WF r.numaMemory) : r.deepCopy = r := by
  unfold NodeRes.deepCopy; rw [copyMap_eq_self _ h1, copyMap_eq_self _ h2]

/-- on a well-formed node `Validate` stores the node itself, exactly when it is valid -/
theorem validate_of_valid (n : NodeInfo) (hw : WFNode n) (hv : Valid n) : n.validate = .ok n := by
  obtain ⟨h1, h2, h3⟩ := hv
  unfold NodeInfo.validate
  rw [NodeRes.deepCopy_eq _ hw.cc hw.cn, NodeRes.deepCopy_eq _ hw.uc hw.un]
  simp only [h1, if_false, h2, Bool.not_true, Bool.false_eq_true]
  by_cases hn : n.capacity.numa.length > 0
  · obtain ⟨h4, h5⟩ := h3 hn
    simp [hn, h4, h5]
  · simp [hn]

theorem valid_of_validate (n n' : NodeInfo) (h : n.validate = .ok n') :
    Valid n ∧ n' = { capacity := n.capacity.deepCopy, usage := n.usage.deepCopy } := by
  unfold NodeInfo.validate at h
  split at h; · cases h
  split at h; · cases h
  rename_i h1 h2
  split at h
  · rename_i hn
    split at h
    · cases h
    · rename_i h4
      split at h
      · cases h
      · rename_i h5
        cases h
        exact ⟨⟨h1, by simpa using h2, fun _ => ⟨h4, by simpa using h5⟩⟩, rfl⟩
  · rename_i hn
    cases h
    exact ⟨⟨h1, by simpa using h2, fun h => absurd h hn⟩, rfl⟩

theorem validate_error_of_not_valid (n : NodeInfo) (h : ¬ Valid n) : ∃ e, n.validate = .error e := by
  cases hv : n.validate with
  | error e => exact ⟨e, rfl⟩
  | ok n' => exact absurd (valid_of_validate n n' hv).1 h

/-- validity only looks at the capacity and at the usage's per-core and per-NUMA maps -/
theorem valid_congr (n m : NodeInfo) (hc : m.capacity = n.capacity) (h1 : m.usage.cpuMap = n.usage.cpuMap)
    (h2 : m.usage.numaMemory = n.usage.numaMemory) : Valid m ↔ Valid n := by
  unfold Valid NodeInfo.cpuMapOk NodeInfo.numaTopoErr NodeInfo.numaMemOk
  rw [hc, h1, h2]

/-! ### memory-only allocation -/

theorem foldl_add_replicate (k : Nat) (acc r : NodeRes) (h1 : r.cpuMap = []) (h2 : r.numaMemory = []) (h3 : r.numa = []) :
    (List.replicate k r).foldl (fun a x => a.add x) acc =
      { acc with cpu := acc.cpu + k * r.cpu, memory := acc.memory + k * r.memory } := by
  induction k generalizing acc with
  | zero => simp
  | succ k ih =>
    rw [List.replicate_succ, List.foldl_cons, ih]
    simp only [NodeRes.add, h1, h2, h3, mapAdd_nil, List.length_nil, Nat.lt_irrefl, if_false]
    congr 1 <;> simp only [Int.natCast_succ] <;> rw [Int.add_mul] <;> omega

/-! ### truncated division (Go `/` on int64) -/

theorem tdiv_nonpos_of_neg {a m : Int} (ha : a < 0) (hm : 0 < m) : a.tdiv m ≤ 0 := by
  have h1 : a = -(-a) := by omega
  rw [h1, Int.neg_tdiv]
  have := Int.tdiv_nonneg (a := -a) (b := m) (by omega) (by omega)
  omega

theorem tdiv_sub_mul {a m k : Int} (hm : 0 < m) (hk1 : 1 ≤ k) (hk : k ≤ a.tdiv m) :
    (a - k * m).tdiv m = a.tdiv m - k := by
  have ha : 0 ≤ a := by
    by_cases h : a < 0
    · have := tdiv_nonpos_of_neg h hm; omega
    · omega
  rw [Int.tdiv_eq_ediv_of_nonneg ha] at hk ⊢
  have hkm : k * m ≤ a := (Int.le_ediv_iff_mul_le hm).1 hk
  rw [Int.tdiv_eq_ediv_of_nonneg (by omega)]
  have : a - k * m = a + (-k) * m := by rw [Int.neg_mul]; omega
  rw [this, Int.add_mul_ediv_right _ _ (by omega)]
  omega

end Eru.Book
