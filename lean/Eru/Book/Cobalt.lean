import Eru.Book.Calc
/-
Model of resource/cobalt/{node.go,alloc.go,realloc.go} (after the total and mergeCapacity
fixes): capacity merge over an explicit answer order, manager-level alloc / rollback /
realloc / release on one node, and histories of such operations.

Usage/rate/weight are `Rat` (the Go code uses float64; compared with tolerance).
-/
namespace Eru.Book
open Eru

/-- plugintypes.NodeDeployCapacity -/
structure Cap where
  cap : Int
  usage : Rat := 0
  rate : Rat := 0
  weight : Rat := 1
  deriving Repr, DecidableEq, Inhabited

abbrev Answer := List (String × Cap)

def Answer.find? (m : Answer) (k : String) : Option Cap :=
  match m with
  | [] => none
  | (k', v) :: rest => if k' = k then some v else Answer.find? rest k

/-- the entry built for a node of the first answer (fixed: weighted like the later ones) -/
def firstEntry (c : Cap) : Cap :=
  { cap := c.cap, rate := c.rate * c.weight, usage := c.usage * c.weight, weight := c.weight }

/-- the entry built from the accumulated entry `c1` and a later answer's entry `c2` -/
def mergeEntry (c1 c2 : Cap) : Cap :=
  { cap := min c1.cap c2.cap, rate := c1.rate + c2.rate * c2.weight,
    usage := c1.usage + c2.usage * c2.weight, weight := c1.weight + c2.weight }

/-- mergeCapacity (fixed): the first answer is weighted like the later ones -/
def mergeCapacity (m1 : Option Answer) (m2 : Answer) : Answer :=
  match m1 with
  | none => m2.map fun p => (p.1, firstEntry p.2)
  | some m1 =>
    m1.filterMap fun p =>
      match m2.find? p.1 with
      | none => none
      | some c2 => some (p.1, mergeEntry p.2 c2)

/-- the defective mergeCapacity before the fix (first answer taken unweighted), kept for the
    counterexample in Props/C09 -/
def mergeCapacityOld (m1 : Option Answer) (m2 : Answer) : Answer :=
  match m1 with
  | none => m2
  | some _ => mergeCapacity m1 m2

def mergeFold (answers : List Answer) : Option Answer :=
  answers.foldl (fun acc a => some (mergeCapacity acc a)) none

/-- saturating add of the manager's total (fixed) -/
def satAdd (total cap : Int) : Int := if cap > maxInt - total then maxInt else total + cap

/-- weighted-average step -/
def average (c : Cap) : Cap := { c with rate := c.rate / c.weight, usage := c.usage / c.weight }

/-- Manager.GetNodesDeployCapacity given the plugins' answers in the order they are merged.
    With no plugin at all the result map is nil (empty). -/
def managerDeployCapacity (answers : List Answer) : Answer × Int :=
  let merged := ((mergeFold answers).getD []).map fun (name, c) => (name, average c)
  (merged, merged.foldl (fun t (_, c) => satAdd t c.cap) 0)

/-- cobalt `call`: every plugin is called concurrently and the caller *waits for all of them*
    (`wg.Wait()`; a cancelled or expired caller context does not cut the wait short — a plugin
    that watches the context answers with an error instead).  The result is the answers of all
    plugins, or an error if any plugin failed (the successful answers are handed back next to
    the error, for rollbacks). -/
def call {α} (results : List (String × Except String α)) : List (String × α) × Option String :=
  (results.filterMap fun (p, r) => match r with | .ok a => some (p, a) | .error _ => none,
   (results.filterMap fun (_, r) => match r with | .ok _ => none | .error e => some e).head?)

/-- Manager.GetNodesDeployCapacity through `call`: an error, or the merge over ALL plugins -/
def managerDeployCapacityCall (results : List (String × Except String Answer)) : Except String (Answer × Int) :=
  match call results with
  | (answers, none) => .ok (managerDeployCapacity (answers.map (·.2)))
  | (_, some e) => .error e

/-- the old total loop (not kept at MaxInt64), for the counterexample in Props/C07 -/
def totalOld (caps : List Int) : Int :=
  caps.foldl (fun t c => if c = maxInt then maxInt else wrap64 (t + c)) 0

/-! ### one node, the cpumem plugin plus scripted plugins that accept `k` iff `k ≤ cap` -/

/-- extra plugins: their scripted capacity for the node (`none`: node not offered) -/
abbrev Extras := List (Option Int)

def extrasAccept (ex : Extras) (k : Int) : Bool :=
  ex.all fun | none => false | some c => decide (k ≤ c)

/-- Manager.Alloc: `make([]…, deployCount)` panics for a negative count; prepare = every
    plugin's CalculateDeploy; commit = SetNodeResourceUsage(workloads, delta, Incr) -/
def alloc (sched : Sched) (ex : Extras) (n : NodeInfo) (k : Int) (req : Req) : Outcome (List WorkloadRes × NodeInfo) :=
  if k < 0 then .panic "makeslice: len out of range" else
  match calculateDeploy sched n k req with
  | .ok ws =>
    if !extrasAccept ex k then .err errInsufficientCapacity else
    match setNodeResourceUsage n none ws true true with
    | .ok n' => .ok (ws, n')
    | .error e => .err e
  | .err e => .err e
  | .panic m => .panic m
  | .diverge => .diverge

/-- Manager.RollbackAlloc / the release done by remove: SetNodeResourceUsage(workloads, delta, Decr) -/
def release (n : NodeInfo) (ws : List WorkloadRes) : Except String NodeInfo :=
  setNodeResourceUsage n none ws true false

/-- Manager.Realloc: (new resource, delta, node afterwards) -/
def realloc (sched : Sched) (n : NodeInfo) (origin : WorkloadRes) (req : Req) :
    Outcome (WorkloadRes × WorkloadRes × NodeInfo) :=
  match calculateRealloc sched n origin req with
  | .ok (newRes, delta) =>
    match setNodeResourceUsage n none [delta] true true with
    | .ok n' => .ok (newRes, delta, n')
    | .error e => .err e
  | .err e => .err e
  | .panic m => .panic m
  | .diverge => .diverge

/-- Manager.RollbackRealloc: SetNodeResourceUsage([delta], delta, Decr) -/
def rollbackRealloc (n : NodeInfo) (delta : WorkloadRes) : Except String NodeInfo :=
  setNodeResourceUsage n none [delta] true false

/-! ### a commit in which another plugin fails

`Manager.SetNodeResourceUsage` is itself a PCR: the commit calls every plugin's
`SetNodeResourceUsage`; if some plugin fails, every plugin that succeeded is rolled back with
`SetNodeResourceUsage(before, nil, nil, delta=false, incr=false)`, i.e. an absolute rewrite of
its usage with the `Before` it reported (a deep copy of the usage it read). -/

/-- the rollback call on the cpumem plugin: rewrite the usage with `before`; if the plugin
    refuses (validation), the changed usage stays -/
def rollbackUsage (before : NodeRes) (n' : NodeInfo) : NodeInfo :=
  match setNodeResourceUsage n' (some before.deepCopy) [] false false with
  | .ok n'' => n''
  | .error _ => n'

/-- Manager.SetNodeResourceUsage(workloads, delta, incr) over cpumem and further plugins;
    `otherFails`: some other plugin fails in the commit.  Result: the cpumem node afterwards,
    and the error if the call failed. -/
def commitUsage (n : NodeInfo) (ws : List WorkloadRes) (incr otherFails : Bool) : NodeInfo × Option String :=
  match setNodeResourceUsage n none ws true incr with
  | .error e => (n, some e)
  | .ok n' => if otherFails then (rollbackUsage n.usage n', some "other-plugin") else (n', none)

/-! ### histories -/

inductive Op where
  | alloc (k : Int) (req : Req)
  /-- roll back / release the live workloads at these positions (duplicates ignored) -/
  | drop (idxs : List Nat)
  | realloc (i : Nat) (req : Req)
  /-- undo the immediately preceding successful realloc -/
  | rollbackRealloc
  /-- rollback of a release (calcium's remove / dissociate re-add the workload's resources with
      `SetNodeResourceUsage([w], delta, Incr)` when a later step fails): `w` becomes live again -/
  | readd (w : WorkloadRes)
  /-- the same operation, but another plugin fails in its commit (cobalt rolls cpumem back) -/
  | failing (op : Op)
  deriving Repr, Inhabited

structure Undo where
  idx : Nat
  origin : WorkloadRes
  delta : WorkloadRes
  deriving Repr, Inhabited

/-- node info, live workloads, and the undo record of the last operation if it was a realloc -/
structure State where
  node : NodeInfo
  live : List WorkloadRes
  undo : Option Undo := none
  deriving Repr, Inhabited

def removeIdxs {α} (l : List α) (idxs : List Nat) : List α :=
  (l.zipIdx.filter fun (_, i) => !idxs.contains i).map (·.1)
def pickIdxs {α} (l : List α) (idxs : List Nat) : List α :=
  (l.zipIdx.filter fun (_, i) => idxs.contains i).map (·.1)

/-- one step of a history; a refused or failing operation leaves the state unchanged
    (except that it clears the undo record).  Second component: did it succeed. -/
def step (sched : Sched) (s : State) : Op → State × Bool
  | .alloc k req =>
    match alloc sched [] s.node k req with
    | .ok (ws, n') => ({ node := n', live := s.live ++ ws }, true)
    | _ => ({ s with undo := none }, false)
  | .drop idxs =>
    match release s.node (pickIdxs s.live idxs) with
    | .ok n' => ({ node := n', live := removeIdxs s.live idxs }, true)
    | .error _ => ({ s with undo := none }, false)
  | .realloc i req =>
    match s.live[i]? with
    | none => ({ s with undo := none }, false)
    | some origin =>
      match realloc sched s.node origin req with
      | .ok (newRes, delta, n') => ({ node := n', live := s.live.set i newRes, undo := some ⟨i, origin, delta⟩ }, true)
      | _ => ({ s with undo := none }, false)
  | .rollbackRealloc =>
    match s.undo with
    | none => (s, false)
    | some u =>
      match rollbackRealloc s.node u.delta with
      | .ok n' => ({ node := n', live := s.live.set u.idx u.origin }, true)
      | .error _ => ({ s with undo := none }, false)
  | .readd w =>
    match setNodeResourceUsage s.node none [w] true true with
    | .ok n' => ({ node := n', live := s.live ++ [w] }, true)
    | .error _ => ({ s with undo := none }, false)
  | .failing op =>
    -- cpumem's part is what the operation would do; if it got as far as storing a new usage,
    -- the other plugin's failure makes cobalt roll it back; nothing else happens
    let (s1, ok) := step sched s op
    if ok then ({ s with node := rollbackUsage s.node.usage s1.node, undo := none }, false) else (s1, false)

def run (sched : Sched) (s : State) (ops : List Op) : State :=
  ops.foldl (fun s op => (step sched s op).1) s

end Eru.Book
