import Eru.Book.Spec
/-
Model of resource/cobalt/remap.go (`Manager.Remap`) and cluster/calcium/remap.go
(`doRemapResource` / `RemapResourceAndLog`), the two layers between `CalculateRemap`
and the engine.  Other plugins' engine parameters are opaque; the engine is a parameter
answering ok / error per workload.
-/
namespace Eru.Book
open Eru

/-- the engine parameters a plugin answers with for one workload -/
inductive PluginParams where
  | cpumem (e : EngineParams)
  | other (tag : String)
  deriving Repr, DecidableEq, Inhabited

/-- a plugin's `CalculateRemap` answer: workload id ↦ engine params (a Go map) -/
abbrev RemapAnswer := List (String × PluginParams)

/-- `Manager.Remap`: every plugin is asked; the result maps each workload id that some plugin
    answered for to the answering plugins' params, each under that plugin's own name
    (`enginesParams[workloadID][plugin.Name()]`; values of different plugins are never merged) -/
def managerRemap (answers : List (String × RemapAnswer)) : List (String × List (String × PluginParams)) :=
  let ids := (answers.flatMap fun pa => pa.2.map (·.1)).eraseDups
  ids.map fun id => (id, answers.filterMap fun pa => (pa.2.find? (·.1 == id)).map fun ip => (pa.1, ip.2))

/-- what the manager's answer holds for workload `id` under the cpumem plugin's key -/
def cpumemComponent (merged : List (String × List (String × PluginParams))) (id : String) : Option PluginParams :=
  (merged.find? (·.1 == id)).bind fun ic => (ic.2.find? (·.1 == "cpumem")).map (·.2)

/-- the cpumem plugin's answer as a `RemapAnswer` -/
def cpumemRemapAnswer (n : NodeInfo) (shareBase : Int) (ws : List (String × WorkloadRes)) : RemapAnswer :=
  (calculateRemap n shareBase ws).map fun ie => (ie.1, .cpumem ie.2)

/-- `doRemapResource` + `RemapResourceAndLog`: for EVERY workload of the manager's answer the engine
    update is called; an error is logged and the loop goes on.  Result: the attempts with their outcome. -/
def remapLoop {α} (engine : String → α → Bool) : List (String × α) → List (String × Bool)
  | [] => []
  | (id, p) :: rest => (id, engine id p) :: remapLoop engine rest

/-- the defective loop of the seeded mutants (stop at the first engine error), for the counterexample -/
def remapLoopStopAtError {α} (engine : String → α → Bool) : List (String × α) → List (String × Bool)
  | [] => []
  | (id, p) :: rest => if engine id p then (id, true) :: remapLoopStopAtError engine rest else [(id, false)]

/-- calcium's remap of one node: list the node's workloads (`ws`, all of them), `Manager.Remap`
    over cpumem and further plugins, then the engine loop -/
def nodeRemap (n : NodeInfo) (shareBase : Int) (ws : List (String × WorkloadRes)) (extras : List (String × RemapAnswer))
    (engine : String → List (String × PluginParams) → Bool) : List (String × Bool) :=
  remapLoop engine (managerRemap (("cpumem", cpumemRemapAnswer n shareBase ws) :: extras))

end Eru.Book
