import Eru.Book.ProofsSum
/-
Lemmas for C08: what `SetNodeResourceUsage(workloads, delta, incr)` stores, component by
component, and sums over live sets that change by append / removal / replacement.
-/
namespace Eru.Book
open Eru

def sg (incr : Bool) : Int := if incr then 1 else -1

/-- folding workloads into a usage (calculateNodeResource's loop), component by component -/
theorem foldl_calc (incr : Bool) (ws : List WorkloadRes) (u : NodeRes) (h1 : WF u.cpuMap) (h2 : WF u.numaMemory)
    (hws : ∀ w ∈ ws, WFW w) :
    let r := ws.foldl (fun acc w => if incr then acc.add w.toNodeRes else acc.sub w.toNodeRes) u
    r.cpu = u.cpu + sg incr * sumBy ws (·.cpuRequest) ∧
    r.memory = u.memory + sg incr * sumBy ws (·.memoryRequest) ∧
    (∀ k, r.cpuMap.get k = u.cpuMap.get k + sg incr * sumBy ws (·.cpuMap.get k)) ∧
    (∀ k, r.numaMemory.get k = u.numaMemory.get k + sg incr * sumBy ws (·.numaMemory.get k)) ∧
    WF r.cpuMap ∧ WF r.numaMemory ∧ r.numa = u.numa ∧
    (∀ k ∈ u.cpuMap.keys, k ∈ r.cpuMap.keys) := by
  induction ws generalizing u with
  | nil => simp [sumBy_nil, h1, h2]
  | cons w rest ih =>
    have hw : WFW w := hws w (by simp)
    simp only [List.foldl_cons]
    cases incr with
    | true =>
      simp only [if_true]
      have := ih (u.add w.toNodeRes) (WF_mapAdd _ _ h1) (WF_mapAdd _ _ h2) (fun x hx => hws x (by simp [hx]))
      simp only [if_true] at this
      obtain ⟨a, b, c, d, e, f, g, hk⟩ := this
      refine ⟨?_, ?_, ?_, ?_, e, f, ?_, ?_⟩
      · rw [a, sumBy_cons]; simp only [NodeRes.add, WorkloadRes.toNodeRes, sg, if_true]; omega
      · rw [b, sumBy_cons]; simp only [NodeRes.add, WorkloadRes.toNodeRes, sg, if_true]; omega
      · intro k; rw [c, sumBy_cons]; simp only [NodeRes.add, WorkloadRes.toNodeRes, sg, if_true]
        rw [get_mapAdd _ _ _ hw.1]; omega
      · intro k; rw [d, sumBy_cons]; simp only [NodeRes.add, WorkloadRes.toNodeRes, sg, if_true]
        rw [get_mapAdd _ _ _ hw.2]; omega
      · rw [g]; simp [NodeRes.add, WorkloadRes.toNodeRes]
      · intro k hk'; apply hk; exact mem_keys_foldl_add _ _ id k hk'
    | false =>
      simp only [Bool.false_eq_true, if_false]
      have := ih (u.sub w.toNodeRes) (WF_mapSub _ _ h1) (WF_mapSub _ _ h2) (fun x hx => hws x (by simp [hx]))
      simp only [Bool.false_eq_true, if_false] at this
      obtain ⟨a, b, c, d, e, f, g, hk⟩ := this
      refine ⟨?_, ?_, ?_, ?_, e, f, ?_, ?_⟩
      · rw [a, sumBy_cons]; simp only [NodeRes.sub, WorkloadRes.toNodeRes, sg, Bool.false_eq_true, if_false]; omega
      · rw [b, sumBy_cons]; simp only [NodeRes.sub, WorkloadRes.toNodeRes, sg, Bool.false_eq_true, if_false]; omega
      · intro k; rw [c, sumBy_cons]; simp only [NodeRes.sub, WorkloadRes.toNodeRes, sg, Bool.false_eq_true, if_false]
        rw [get_mapSub _ _ _ hw.1]; omega
      · intro k; rw [d, sumBy_cons]; simp only [NodeRes.sub, WorkloadRes.toNodeRes, sg, Bool.false_eq_true, if_false]
        rw [get_mapSub _ _ _ hw.2]; omega
      · rw [g]; simp [NodeRes.sub]
      · intro k hk'; apply hk; exact mem_keys_foldl_add _ _ (fun v => -v) k hk'

theorem mem_keys_add (m : IMap) (a : String) (d : Int) (k : String) : k ∈ (m.add a d).keys ↔ (k ∈ m.keys ∨ k = a) := by
  rw [keys_add]
  split
  · rename_i h
    constructor
    · exact Or.inl
    · rintro (h' | h')
      · exact h'
      · subst h'; exact h
  · simp

theorem mem_keys_foldl_add_iff (c1 c : IMap) (f : Int → Int) (k : String) :
    k ∈ (c1.foldl (fun acc kv => acc.add kv.1 (f kv.2)) c).keys ↔ (k ∈ c.keys ∨ k ∈ c1.keys) := by
  induction c1 generalizing c with
  | nil => simp [Plan.keys]
  | cons p rest ih =>
    obtain ⟨a, b⟩ := p
    simp only [List.foldl_cons, ih, mem_keys_add, keys_cons, List.mem_cons]
    constructor
    · rintro ((h | h) | h)
      · exact Or.inl h
      · exact Or.inr (Or.inl h)
      · exact Or.inr (Or.inr h)
    · rintro (h | h | h)
      · exact Or.inl (Or.inl h)
      · exact Or.inl (Or.inr h)
      · exact Or.inr h

theorem mem_keys_foldl_calc (incr : Bool) (ws : List WorkloadRes) (u : NodeRes) (k : String) :
    k ∈ (ws.foldl (fun acc w => if incr then acc.add w.toNodeRes else acc.sub w.toNodeRes) u).cpuMap.keys ↔
      (k ∈ u.cpuMap.keys ∨ ∃ w ∈ ws, k ∈ w.cpuMap.keys) := by
  induction ws generalizing u with
  | nil => simp
  | cons w rest ih =>
    simp only [List.foldl_cons, ih, List.mem_cons, exists_eq_or_imp]
    have : k ∈ (if incr = true then u.add w.toNodeRes else u.sub w.toNodeRes).cpuMap.keys ↔ (k ∈ u.cpuMap.keys ∨ k ∈ w.cpuMap.keys) := by
      cases incr
      · simp only [Bool.false_eq_true, if_false, NodeRes.sub, WorkloadRes.toNodeRes, mapSub]
        exact mem_keys_foldl_add_iff w.cpuMap u.cpuMap (fun v => -v) k
      · simp only [if_true, NodeRes.add, WorkloadRes.toNodeRes, mapAdd]
        exact mem_keys_foldl_add_iff w.cpuMap u.cpuMap id k
    rw [this]
    constructor
    · rintro ((h | h) | h)
      · exact Or.inl h
      · exact Or.inr (Or.inl h)
      · exact Or.inr (Or.inr h)
    · rintro (h | h | h)
      · exact Or.inl (Or.inl h)
      · exact Or.inl (Or.inr h)
      · exact Or.inr h

/-- what a successful `SetNodeResourceUsage(workloads, delta=true, incr)` stores -/
theorem set_usage_spec (n n' : NodeInfo) (hw : WFNode n) (ws : List WorkloadRes) (hws : ∀ w ∈ ws, WFW w) (incr : Bool)
    (h : setNodeResourceUsage n none ws true incr = .ok n') :
    n'.capacity = n.capacity ∧ WFNode n' ∧ Valid n' ∧
    n'.usage.cpu = n.usage.cpu + sg incr * sumBy ws (·.cpuRequest) ∧
    n'.usage.memory = n.usage.memory + sg incr * sumBy ws (·.memoryRequest) ∧
    (∀ k, n'.usage.cpuMap.get k = n.usage.cpuMap.get k + sg incr * sumBy ws (·.cpuMap.get k)) ∧
    (∀ k, n'.usage.numaMemory.get k = n.usage.numaMemory.get k + sg incr * sumBy ws (·.numaMemory.get k)) ∧
    (∀ k, k ∈ n'.usage.cpuMap.keys ↔ (k ∈ n.usage.cpuMap.keys ∨ ∃ w ∈ ws, k ∈ w.cpuMap.keys)) := by
  unfold setNodeResourceUsage calculateNodeResource at h
  simp only [Bool.not_true, Bool.false_eq_true, if_false] at h
  rw [NodeRes.deepCopy_eq _ hw.uc hw.un] at h
  obtain ⟨a, b, c, d, e, f, g, hk⟩ := foldl_calc incr ws n.usage hw.uc hw.un hws
  obtain ⟨hv, heq⟩ := valid_of_validate _ _ h
  simp only at heq
  rw [NodeRes.deepCopy_eq _ hw.cc hw.cn, NodeRes.deepCopy_eq _ e f] at heq
  subst heq
  exact ⟨rfl, ⟨hw.cc, hw.cn, e, f⟩, hv, a, b, c, d, fun k => mem_keys_foldl_calc incr ws n.usage k⟩

/-- `SetNodeResourceUsage` succeeds exactly when the new usage is valid -/
theorem set_usage_ok_of_valid (n : NodeInfo) (hw : WFNode n) (ws : List WorkloadRes) (hws : ∀ w ∈ ws, WFW w) (incr : Bool)
    (hv : Valid { n with usage := ws.foldl (fun acc w => if incr then acc.add w.toNodeRes else acc.sub w.toNodeRes) n.usage }) :
    ∃ n', setNodeResourceUsage n none ws true incr = .ok n' := by
  unfold setNodeResourceUsage calculateNodeResource
  simp only [Bool.not_true, Bool.false_eq_true, if_false]
  rw [NodeRes.deepCopy_eq _ hw.uc hw.un]
  obtain ⟨_, _, _, _, e, f, _, _⟩ := foldl_calc incr ws n.usage hw.uc hw.un hws
  exact ⟨_, validate_of_valid _ ⟨hw.cc, hw.cn, e, f⟩ hv⟩

/-! ### validity through `get` -/

theorem all_iff_keys (m : IMap) (h : WF m) (P : String → Int → Bool) :
    (m.all fun kv => P kv.1 kv.2) = true ↔ ∀ k ∈ m.keys, P k (m.get k) = true := by
  induction m with
  | nil => simp [Plan.keys]
  | cons p rest ih =>
    obtain ⟨a, b⟩ := p
    have hr : WF rest := by unfold WF at *; rw [keys_cons] at h; exact (List.nodup_cons.1 h).2
    have ha : a ∉ Plan.keys rest := by unfold WF at h; rw [keys_cons] at h; exact (List.nodup_cons.1 h).1
    simp only [List.all_cons, Bool.and_eq_true, keys_cons, List.mem_cons, forall_eq_or_imp, ih hr]
    constructor
    · rintro ⟨h1, h2⟩
      refine ⟨by simpa [Plan.get] using h1, fun k hk => ?_⟩
      have : a ≠ k := fun e => ha (e ▸ hk)
      simp only [Plan.get, this, if_false]; exact h2 k hk
    · rintro ⟨h1, h2⟩
      refine ⟨by simpa [Plan.get] using h1, fun k hk => ?_⟩
      have : a ≠ k := fun e => ha (e ▸ hk)
      have := h2 k hk
      simpa [Plan.get, ‹a ≠ k›] using this

/-- validity of the usage part, in terms of `get` -/
def UsageOk (capacity u : NodeRes) : Prop :=
  (∀ k ∈ u.cpuMap.keys, k ∈ capacity.cpuMap.keys ∧ 0 ≤ capacity.cpuMap.get k ∧ u.cpuMap.get k ≤ capacity.cpuMap.get k) ∧
  (capacity.numa.length > 0 → ∀ id ∈ capacity.numaMemory.keys,
      0 ≤ capacity.numaMemory.get id ∧ 0 ≤ u.numaMemory.get id ∧ u.numaMemory.get id ≤ capacity.numaMemory.get id)

theorem valid_iff (n : NodeInfo) (hw : WFNode n) :
    Valid n ↔ (n.capacity.cpuMap.length ≠ 0 ∧ (n.capacity.numa.length > 0 → n.numaTopoErr = none) ∧ UsageOk n.capacity n.usage) := by
  have h1 : n.cpuMapOk = true ↔ ∀ k ∈ n.usage.cpuMap.keys,
      k ∈ n.capacity.cpuMap.keys ∧ 0 ≤ n.capacity.cpuMap.get k ∧ n.usage.cpuMap.get k ≤ n.capacity.cpuMap.get k := by
    unfold NodeInfo.cpuMapOk
    have := all_iff_keys n.usage.cpuMap hw.uc (fun cpu used =>
      n.capacity.cpuMap.has cpu && !(decide (n.capacity.cpuMap.get cpu < 0)) && !(decide (used > n.capacity.cpuMap.get cpu)))
    have hf : (fun (x : String × Int) => match x with
        | (cpu, used) => n.capacity.cpuMap.has cpu && !(decide (n.capacity.cpuMap.get cpu < 0)) && !(decide (used > n.capacity.cpuMap.get cpu))) =
        fun kv => n.capacity.cpuMap.has kv.1 && !(decide (n.capacity.cpuMap.get kv.1 < 0)) && !(decide (kv.2 > n.capacity.cpuMap.get kv.1)) := by
      funext ⟨a, b⟩; rfl
    rw [hf, this]
    constructor
    · intro h k hk
      have := h k hk
      simp only [Bool.and_eq_true, Bool.not_eq_true', decide_eq_false_iff_not] at this
      exact ⟨(has_iff_mem_keys _ _).1 this.1.1, by omega, by omega⟩
    · intro h k hk
      obtain ⟨a, b, c⟩ := h k hk
      simp only [Bool.and_eq_true, Bool.not_eq_true', decide_eq_false_iff_not]
      exact ⟨⟨(has_iff_mem_keys _ _).2 a, by omega⟩, by omega⟩
  have h2 : n.numaMemOk = true ↔ ∀ id ∈ n.capacity.numaMemory.keys,
      0 ≤ n.capacity.numaMemory.get id ∧ 0 ≤ n.usage.numaMemory.get id ∧ n.usage.numaMemory.get id ≤ n.capacity.numaMemory.get id := by
    unfold NodeInfo.numaMemOk
    have := all_iff_keys n.capacity.numaMemory hw.cn (fun id mem =>
      !(decide (mem < 0)) && !(decide (n.usage.numaMemory.get id < 0) || decide (n.usage.numaMemory.get id > mem)))
    have hf : (fun (x : String × Int) => match x with
        | (id, mem) => !(decide (mem < 0)) && !(decide (n.usage.numaMemory.get id < 0) || decide (n.usage.numaMemory.get id > mem))) =
        fun kv => !(decide (kv.2 < 0)) && !(decide (n.usage.numaMemory.get kv.1 < 0) || decide (n.usage.numaMemory.get kv.1 > kv.2)) := by
      funext ⟨a, b⟩; rfl
    rw [hf, this]
    constructor
    · intro h k hk
      have := h k hk
      simp only [Bool.and_eq_true, Bool.not_eq_true', decide_eq_false_iff_not, Bool.or_eq_false_iff] at this
      exact ⟨by omega, by omega, by omega⟩
    · intro h k hk
      obtain ⟨a, b, c⟩ := h k hk
      simp only [Bool.and_eq_true, Bool.not_eq_true', decide_eq_false_iff_not, Bool.or_eq_false_iff]
      exact ⟨by omega, by omega, by omega⟩
  unfold Valid UsageOk
  rw [h1, h2]
  constructor
  · rintro ⟨a, b, c⟩; exact ⟨a, fun h => (c h).1, b, fun h => (c h).2⟩
  · rintro ⟨a, b, c, d⟩; exact ⟨a, c, fun h => ⟨b h, d h⟩⟩

end Eru.Book
