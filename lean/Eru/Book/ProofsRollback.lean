import Eru.Book.ProofsHist
/-
Rollback lemma for C08: applying the same workload resources with Decr after Incr is accepted
and restores the usage extensionally.
-/
namespace Eru.Book
open Eru

/-- Incr then Decr of the same workload resources: accepted, and the usage is restored
    on every component (zero entries treated extensionally) -/
theorem incr_decr_restores (n n' : NodeInfo) (hw : WFNode n) (hv : Valid n) (ws : List WorkloadRes) (hws : ∀ w ∈ ws, WFW w)
    (h : setNodeResourceUsage n none ws true true = .ok n') :
    ∃ n'', setNodeResourceUsage n' none ws true false = .ok n'' ∧ UsageEq n''.usage n.usage ∧ n''.capacity = n.capacity := by
  obtain ⟨hc, hw', hv', a, b, c, d, hkeys'⟩ := set_usage_spec n n' hw ws hws true h
  obtain ⟨a2, b2, c2, d2, e2, f2, g2, _⟩ := foldl_calc false ws n'.usage hw'.uc hw'.un hws
  have hvn := (valid_iff n hw).1 hv
  have hvn' := (valid_iff n' hw').1 hv'
  have hvalid : Valid { n' with usage := ws.foldl (fun acc w => if false then acc.add w.toNodeRes else acc.sub w.toNodeRes) n'.usage } := by
    have hwm : WFNode { n' with usage := ws.foldl (fun acc w => if false then acc.add w.toNodeRes else acc.sub w.toNodeRes) n'.usage } :=
      ⟨hw'.cc, hw'.cn, e2, f2⟩
    rw [valid_iff _ hwm]
    refine ⟨hvn'.1, hvn'.2.1, ?_, ?_⟩
    · intro k hk
      have hk' : k ∈ n'.usage.cpuMap.keys := by
        rcases (mem_keys_foldl_calc false ws n'.usage k).1 hk with h1 | h1
        · exact h1
        · exact (hkeys' k).2 (Or.inr h1)
      obtain ⟨p1, p2, p3⟩ := hvn'.2.2.1 k hk'
      refine ⟨p1, p2, ?_⟩
      simp only at c2 ⊢
      rw [c2 k, c k]
      simp only [sg, if_true, Bool.false_eq_true, if_false]
      by_cases hku : k ∈ n.usage.cpuMap.keys
      · have := (hvn.2.2.1 k hku).2.2
        rw [hc] at p2 p3 ⊢; omega
      · rw [get_of_not_mem_keys _ _ hku]; omega
    · intro hn id hid
      simp only at d2 ⊢
      rw [d2 id, d id]
      simp only [sg, if_true, Bool.false_eq_true, if_false]
      have := hvn.2.2.2 (by rw [← hc]; exact hn) id (by rw [← hc]; exact hid)
      rw [hc]; omega
  obtain ⟨n'', h''⟩ := set_usage_ok_of_valid n' hw' ws hws false hvalid
  obtain ⟨hc'', _, _, a3, b3, c3, d3, _⟩ := set_usage_spec n' n'' hw' ws hws false h''
  refine ⟨n'', h'', ⟨?_, ?_, ?_, ?_⟩, by rw [hc'', hc]⟩
  · rw [a3, a]; simp only [sg, if_true, Bool.false_eq_true, if_false]; omega
  · rw [b3, b]; simp only [sg, if_true, Bool.false_eq_true, if_false]; omega
  · intro k; rw [c3, c]; simp only [sg, if_true, Bool.false_eq_true, if_false]; omega
  · intro k; rw [d3, d]; simp only [sg, if_true, Bool.false_eq_true, if_false]; omega

end Eru.Book
